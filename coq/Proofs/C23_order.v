(* C23 — the HTTP status does not depend on the arrival order of the replica
   responses (early return included). *)
From Coq Require Import ZArith List Bool Lia String Permutation.
Import ListNotations.
From Verif Require Import Lib.Corr Gen.C23 Model.C23 Proofs.C23.
Open Scope Z_scope.

Definition bumps (ks : list okind) (x : sst) : sst := fold_left (fun x k => bump k x) ks x.

Lemma sst_eq : forall a b c d e a' b' c' d' e',
  a = a' -> b = b' -> c = c' -> d = d' -> e = e' -> mk_sst a b c d e = mk_sst a' b' c' d' e'.
Proof. intros; subst; reflexivity. Qed.

Lemma bump_comm : forall a b x, bump a (bump b x) = bump b (bump a x).
Proof. intros a b x. destruct a, b; unfold bump; cbn; apply sst_eq; lia. Qed.

Lemma bumps_perm : forall ks ks', Permutation ks ks' -> forall x, bumps ks x = bumps ks' x.
Proof.
  unfold bumps. induction 1; intro x0; cbn [fold_left].
  - reflexivity.
  - apply IHPermutation.
  - rewrite bump_comm. reflexivity.
  - rewrite IHPermutation1. apply IHPermutation2.
Qed.

Lemma bumps_app : forall k1 k2 x, bumps (k1 ++ k2) x = bumps k2 (bumps k1 x).
Proof. intros. unfold bumps. apply fold_left_app. Qed.

(* invariants of the counters along any sequence of outcomes *)
Lemma bumps_inv : forall ks x, let y := bumps ks x in
  succ y = succ x + Z.of_nat (List.length (filter is_ok ks))
  /\ succ y + fail y = succ x + fail x + Z.of_nat (List.length ks)
  /\ succ x <= succ y /\ fail x <= fail y /\ confl x <= confl y
  /\ nrdy x <= nrdy y /\ unav x <= unav y
  /\ (confl y - confl x) + (nrdy y - nrdy x) <= fail y - fail x
  /\ (confl y - confl x) + (unav y - unav x) <= fail y - fail x.
Proof.
  induction ks as [|k ks IH]; intro x; cbn zeta.
  - cbn. lia.
  - unfold bumps. cbn [fold_left]. fold (bumps ks (bump k x)).
    specialize (IH (bump k x)). cbn zeta in IH.
    replace (Z.of_nat (List.length (k :: ks))) with (Z.of_nat (List.length ks) + 1) by (cbn [List.length]; lia).
    destruct k; unfold bump in *; cbn [filter List.length is_ok is_conflict is_notready is_unavail b2z succ fail confl nrdy unav] in *; lia.
Qed.

(* per-series view of the state *)
Lemma apply_ids_nth : forall k ids st s, (s < List.length st)%nat ->
  nth s (fold_left (fun st id => upd_nth id (bump k) st) ids st) sst0
  = bumps (repeat k (count_occ Nat.eq_dec ids s)) (nth s st sst0).
Proof.
  intros k ids. induction ids as [|i ids IH]; intros st s Hs.
  - reflexivity.
  - cbn [fold_left]. rewrite IH by (rewrite upd_nth_length; exact Hs).
    rewrite upd_nth_nth by exact Hs. cbn [count_occ].
    destruct (Nat.eq_dec i s) as [->|Hne].
    + rewrite Nat.eqb_refl. reflexivity.
    + destruct (Nat.eqb_spec s i) as [->|_]; [congruence|reflexivity].
Qed.

Lemma fold_apply_nth : forall l st s, (s < List.length st)%nat ->
  nth s (fold_left apply_resp l st) sst0 = bumps (kinds_for s l) (nth s st sst0).
Proof.
  induction l as [|r l IH]; intros st s Hs.
  - reflexivity.
  - cbn [fold_left kinds_for flat_map]. rewrite IH by (rewrite apply_resp_length; exact Hs).
    unfold apply_resp at 1. rewrite apply_ids_nth by exact Hs.
    fold (kinds_for s l). rewrite bumps_app. reflexivity.
Qed.

Definition reach (n : nat) (l : list resp) : list sst := fold_left apply_resp l (repeat sst0 n).

Lemma reach_length : forall n l, List.length (reach n l) = n.
Proof. intros. unfold reach. rewrite fold_apply_length. apply repeat_length. Qed.

Lemma reach_nth : forall n l s, (s < n)%nat -> nth s (reach n l) sst0 = bumps (kinds_for s l) sst0.
Proof.
  intros n l s Hs. unfold reach. rewrite fold_apply_nth by (rewrite repeat_length; exact Hs).
  rewrite nth_repeat_sst0. reflexivity.
Qed.

Lemma kinds_for_perm : forall s rs rs', Permutation rs rs' -> Permutation (kinds_for s rs) (kinds_for s rs').
Proof. intros s rs rs' H. unfold kinds_for. apply Permutation_flat_map. exact H. Qed.

Lemma list_ext_nth : forall (l l' : list sst), List.length l = List.length l' ->
  (forall s, (s < List.length l)%nat -> nth s l sst0 = nth s l' sst0) -> l = l'.
Proof.
  induction l as [|x l IH]; intros [|y l'] Hlen H; cbn in Hlen; try discriminate; [reflexivity|].
  f_equal.
  - apply (H 0%nat). cbn. lia.
  - apply IH; [lia|]. intros s Hs. apply (H (S s)). cbn. lia.
Qed.

Lemma reach_perm : forall n rs rs', Permutation rs rs' -> reach n rs = reach n rs'.
Proof.
  intros n rs rs' H. apply list_ext_nth.
  - rewrite !reach_length. reflexivity.
  - intros s Hs. rewrite reach_length in Hs. rewrite !reach_nth by exact Hs.
    apply bumps_perm. apply kinds_for_perm. exact H.
Qed.

Lemma kinds_for_app : forall s l1 l2, kinds_for s (l1 ++ l2) = kinds_for s l1 ++ kinds_for s l2.
Proof. intros. unfold kinds_for. apply flat_map_app. Qed.

Lemma conflicts_of_perm : forall s rs rs', Permutation rs rs' -> conflicts_of s rs = conflicts_of s rs'.
Proof.
  intros s rs rs' H. induction H; cbn [conflicts_of fold_right].
  - reflexivity.
  - fold (conflicts_of s l) (conflicts_of s l'). lia.
  - fold (conflicts_of s l). lia.
  - congruence.
Qed.

Definition perm_fail (n : nat) (ft : Z) (rs : list resp) : bool :=
  existsb (fun s => conflicts_of s rs >=? ft) (seq 0 n).

Lemma perm_fail_perm : forall n ft rs rs', Permutation rs rs' -> perm_fail n ft rs = perm_fail n ft rs'.
Proof.
  intros n ft rs rs' H. unfold perm_fail. induction (seq 0 n) as [|s l IH]; [reflexivity|].
  cbn [existsb]. rewrite IH, (conflicts_of_perm s rs rs' H). reflexivity.
Qed.

(* a series whose conflicts dominate is classified as a conflict *)
Lemma repl_cause_conflict : forall ft x, 1 <= ft ->
  confl x >= ft -> fail x >= confl x -> nrdy x <= confl x -> unav x <= confl x ->
  repl_cause ft x = Some CConflict.
Proof.
  intros ft x Hft Hc Hf Hn Hu. unfold repl_cause.
  destruct (Z.eqb_spec (fail x) 0) as [E|E]; [lia|].
  unfold replCause_order. cbn [exp_entries cause_of_name count_of_pred String.eqb Ascii.eqb Bool.eqb].
  unfold sort_desc. cbn [fold_left ins_desc snd fst].
  destruct (Z.ltb_spec (confl x) (nrdy x)); [lia|]. cbn [ins_desc snd fst].
  destruct (Z.ltb_spec (confl x) (unav x)); [lia|].
  destruct (Z.geb_spec (confl x) ft); [reflexivity|lia].
Qed.

Definition settled (ft : Z) (x : sst) : Prop :=
  fail x < ft \/ (fail x >= ft /\ repl_cause ft x = Some CConflict).

Lemma failed_causes_settled : forall ft st, Forall (settled ft) st ->
  exists m, failed_causes ft ft st = Some (repeat CConflict m)
    /\ (m = 0%nat <-> existsb (fun x => fail x >=? ft) st = false).
Proof.
  intros ft st H. induction H as [|x st Hx _ IH].
  - exists 0%nat. cbn. split; [reflexivity|tauto].
  - destruct IH as [m [E Hm]]. cbn [failed_causes existsb]. rewrite E.
    destruct Hx as [Hlt|[Hge Hc]].
    + destruct (Z.geb_spec (fail x) ft); [lia|]. exists m. cbn [orb]. split; [reflexivity|exact Hm].
    + destruct (Z.geb_spec (fail x) ft); [|lia]. rewrite Hc. exists (S m). cbn [orb repeat].
      split; [reflexivity|]. split; [discriminate|discriminate].
Qed.

Lemma write_cause_all_conflict : forall m, write_cause (repeat CConflict (S m)) = Some CConflict.
Proof.
  intro m. destruct (write_cause_sentinels (repeat CConflict (S m))) as [c [E [_ Hin]]].
  - cbn; discriminate.
  - apply Forall_forall. intros c Hc. apply repeat_spec in Hc. subst. unfold sentinel; auto.
  - apply repeat_spec in Hin. subst. exact E.
Qed.

Lemma finish_settled : forall ft st, Forall (settled ft) st ->
  finish ft ft st = Some (if existsb (fun x => fail x >=? ft) st then Failed CConflict else Ack).
Proof.
  intros ft st H. destruct (failed_causes_settled ft st H) as [m [E Hm]].
  unfold finish. rewrite E. destruct m as [|m].
  - cbn [repeat]. destruct Hm as [Hm _]. rewrite (Hm eq_refl). reflexivity.
  - change (repeat CConflict (S m)) with (CConflict :: repeat CConflict m).
    change (CConflict :: repeat CConflict m) with (repeat CConflict (S m)).
    rewrite write_cause_all_conflict. cbn [option_map repeat].
    destruct (existsb (fun x => fail x >=? ft) st) eqn:Ex; [reflexivity|].
    destruct Hm as [_ Hm]. specialize (Hm eq_refl). discriminate.
Qed.

Section Order.
  Variables (n : nat) (nrep q ft : Z).
  Hypothesis Hq : 1 <= q.
  Hypothesis Hft : 1 <= ft.
  Hypothesis Hsum : q + ft = nrep + 1.
  Hypothesis Hqft : q <= ft + 1.

  Section Fixed.
    Variable rs : list resp.
    Hypothesis Hwf : forall s, (s < n)%nat -> responses_of s rs = nrep.

    (* the counters of series s after a prefix l of rs *)
    Lemma prefix_facts : forall l l' s, rs = l ++ l' -> (s < n)%nat ->
      let x := nth s (reach n l) sst0 in
      succ x + fail x <= nrep /\ 0 <= succ x /\ 0 <= confl x <= fail x
      /\ nrdy x <= fail x - confl x /\ unav x <= fail x - confl x
      /\ confl x = conflicts_of s l /\ conflicts_of s l <= conflicts_of s rs
      /\ succ x <= succ (nth s (reach n rs) sst0)
      /\ confl x <= confl (nth s (reach n rs) sst0).
    Proof.
      intros l l' s Hrs Hs. cbn zeta. rewrite !reach_nth by exact Hs.
      pose proof (bumps_inv (kinds_for s l) sst0) as I1. cbn zeta in I1. cbn [succ fail confl nrdy unav sst0] in I1.
      pose proof (Hwf s Hs) as Hw. unfold responses_of in Hw. rewrite Hrs, kinds_for_app, app_length in Hw.
      rewrite Hrs at 2 3. rewrite kinds_for_app, bumps_app.
      pose proof (bumps_inv (kinds_for s l') (bumps (kinds_for s l) sst0)) as I2. cbn zeta in I2.
      pose proof (fold_apply_confl l (repeat sst0 n) s) as Hc.
      rewrite repeat_length in Hc. specialize (Hc Hs).
      rewrite nth_repeat_sst0 in Hc. cbn [confl sst0] in Hc.
      fold (reach n l) in Hc. rewrite reach_nth in Hc by exact Hs.
      assert (conflicts_of s l <= conflicts_of s rs).
      { rewrite Hrs, conflicts_of_app. pose proof (conflicts_of_nonneg s l'). lia. }
      lia.
    Qed.

    Lemma all_det_settled : forall l l', rs = l ++ l' ->
      can_return_early q ft (reach n l) = true -> Forall (settled ft) (reach n l).
    Proof.
      intros l l' Hrs Hdet. apply Forall_forall. intros x Hin.
      apply (In_nth _ _ sst0) in Hin as [s [Hs Hx]]. rewrite reach_length in Hs.
      unfold can_return_early in Hdet. rewrite forallb_forall in Hdet.
      assert (Hd : determined q ft x = true).
      { apply Hdet. rewrite <- Hx. apply nth_In. rewrite reach_length. exact Hs. }
      pose proof (prefix_facts l l' s Hrs Hs) as F. cbn zeta in F. rewrite Hx in F.
      unfold determined in Hd. unfold settled.
      destruct (Z.ltb_spec (succ x) q) as [Hsq|Hsq]; cbn [andb negb] in Hd.
      - destruct (Z.ltb_spec (confl x) ft) as [Hcf|Hcf]; [discriminate|].
        right. split; [lia|]. apply repl_cause_conflict; lia.
      - left. lia.
    Qed.

    Lemma all_det_fail : forall l l', rs = l ++ l' ->
      can_return_early q ft (reach n l) = true ->
      existsb (fun x => fail x >=? ft) (reach n l) = perm_fail n ft rs.
    Proof.
      intros l l' Hrs Hdet. unfold perm_fail.
      unfold can_return_early in Hdet. rewrite forallb_forall in Hdet.
      apply eq_true_iff_eq. rewrite !existsb_exists. split.
      - intros [x [Hin Hx]]. apply (In_nth _ _ sst0) in Hin as [s [Hs Hnth]]. rewrite reach_length in Hs.
        exists s. split; [apply in_seq; lia|].
        pose proof (prefix_facts l l' s Hrs Hs) as F. cbn zeta in F. rewrite Hnth in F.
        assert (Hd : determined q ft x = true).
        { apply Hdet. rewrite <- Hnth. apply nth_In. rewrite reach_length. exact Hs. }
        unfold determined in Hd.
        destruct (Z.geb_spec (fail x) ft) as [Hf|]; [|discriminate].
        destruct (Z.ltb_spec (succ x) q) as [Hsq|Hsq]; cbn [andb negb] in Hd.
        + destruct (Z.ltb_spec (confl x) ft) as [Hcf|Hcf]; [discriminate|].
          destruct (Z.geb_spec (conflicts_of s rs) ft); [reflexivity|lia].
        + lia.
      - intros [s [Hin Hc]]. apply in_seq in Hin. assert (Hs : (s < n)%nat) by lia.
        exists (nth s (reach n l) sst0). split; [apply nth_In; rewrite reach_length; exact Hs|].
        pose proof (prefix_facts l l' s Hrs Hs) as F. cbn zeta in F.
        pose proof (prefix_facts rs [] s (eq_sym (app_nil_r rs)) Hs) as G. cbn zeta in G.
        assert (Hd : determined q ft (nth s (reach n l) sst0) = true).
        { apply Hdet. apply nth_In. rewrite reach_length. exact Hs. }
        unfold determined in Hd.
        destruct (Z.geb_spec (conflicts_of s rs) ft) as [Hcf|]; [|discriminate].
        destruct (Z.ltb_spec (succ (nth s (reach n l) sst0)) q) as [Hsq|Hsq]; cbn [andb negb] in Hd.
        + destruct (Z.ltb_spec (confl (nth s (reach n l) sst0)) ft) as [Hx|Hx]; [discriminate|].
          destruct (Z.geb_spec (fail (nth s (reach n l) sst0)) ft); [reflexivity|lia].
        + lia.
    Qed.

    (* once every series is determined it stays so *)
    Lemma all_det_mono : forall l l', rs = l ++ l' ->
      can_return_early q ft (reach n l) = true -> can_return_early q ft (reach n rs) = true.
    Proof.
      intros l l' Hrs Hdet. unfold can_return_early in *. rewrite forallb_forall in *.
      intros x Hin. apply (In_nth _ _ sst0) in Hin as [s [Hs Hnth]]. rewrite reach_length in Hs.
      assert (Hd : determined q ft (nth s (reach n l) sst0) = true).
      { apply Hdet. apply nth_In. rewrite reach_length. exact Hs. }
      pose proof (prefix_facts l l' s Hrs Hs) as F. cbn zeta in F. rewrite Hnth in F.
      unfold determined in *.
      destruct (Z.ltb_spec (succ (nth s (reach n l) sst0)) q);
      destruct (Z.ltb_spec (confl (nth s (reach n l) sst0)) ft); cbn [andb negb] in Hd; try discriminate;
      destruct (Z.ltb_spec (succ x) q); destruct (Z.ltb_spec (confl x) ft); cbn [andb negb]; try reflexivity; lia.
    Qed.

    (* closed form of the loop's result *)
    Lemma loop_closed_form :
      loop ft q ft (repeat sst0 n) rs =
      if can_return_early q ft (reach n rs)
      then Some (if perm_fail n ft rs then Failed CConflict else Ack)
      else finish ft ft (reach n rs).
    Proof.
      destruct (loop_prefix ft q ft rs (repeat sst0 n)) as [k [Hk [Hle Hor]]].
      rewrite Hk. fold (reach n (firstn k rs)).
      assert (Hsplit : rs = firstn k rs ++ skipn k rs) by (symmetry; apply firstn_skipn).
      destruct (can_return_early q ft (reach n rs)) eqn:Eall.
      - assert (Hdet : can_return_early q ft (reach n (firstn k rs)) = true).
        { destruct Hor as [H|H]; [exact H|]. subst k. rewrite firstn_all. exact Eall. }
        rewrite (finish_settled ft _ (all_det_settled _ _ Hsplit Hdet)).
        rewrite (all_det_fail _ _ Hsplit Hdet). reflexivity.
      - destruct Hor as [H|H].
        + rewrite (all_det_mono _ _ Hsplit H) in Eall. discriminate.
        + subst k. rewrite firstn_all. reflexivity.
    Qed.

    (* ---- the status is exactly the order-free specification ---- *)
    Lemma total_counters : forall s, (s < n)%nat ->
      let x := nth s (reach n rs) sst0 in
      succ x = successes_of s rs /\ confl x = conflicts_of s rs /\ succ x + fail x = nrep /\ 0 <= confl x <= fail x.
    Proof.
      intros s Hs. cbn zeta.
      pose proof (prefix_facts rs [] s (eq_sym (app_nil_r rs)) Hs) as F. cbn zeta in F.
      rewrite reach_nth in * by exact Hs.
      pose proof (bumps_inv (kinds_for s rs) sst0) as I. cbn zeta in I. cbn [succ fail confl nrdy unav sst0] in I.
      pose proof (Hwf s Hs) as W. unfold responses_of in W. unfold successes_of. lia.
    Qed.

    Lemma all_det_total : can_return_early q ft (reach n rs)
      = forallb (fun s => (successes_of s rs >=? q) || (conflicts_of s rs >=? ft)) (seq 0 n).
    Proof.
      apply eq_true_iff_eq. unfold can_return_early. rewrite !forallb_forall. split.
      - intros H s Hin. apply in_seq in Hin. assert (Hs : (s < n)%nat) by lia.
        specialize (H (nth s (reach n rs) sst0) ltac:(apply nth_In; rewrite reach_length; exact Hs)).
        destruct (total_counters s Hs) as [T1 [T2 _]]. unfold determined in H. rewrite T1, T2 in H.
        destruct (Z.ltb_spec (successes_of s rs) q), (Z.ltb_spec (conflicts_of s rs) ft); cbn [andb negb] in H; try discriminate;
        destruct (Z.geb_spec (successes_of s rs) q), (Z.geb_spec (conflicts_of s rs) ft); cbn [orb]; try reflexivity; lia.
      - intros H x Hin. apply (In_nth _ _ sst0) in Hin as [s [Hs Hx]]. rewrite reach_length in Hs.
        specialize (H s ltac:(apply in_seq; lia)).
        destruct (total_counters s Hs) as [T1 [T2 _]]. rewrite Hx in T1, T2. unfold determined. rewrite T1, T2.
        destruct (Z.geb_spec (successes_of s rs) q), (Z.geb_spec (conflicts_of s rs) ft); cbn [orb] in H; try discriminate;
        destruct (Z.ltb_spec (successes_of s rs) q), (Z.ltb_spec (conflicts_of s rs) ft); cbn [andb negb]; try reflexivity; lia.
    Qed.

    Lemma status_is_spec : fan_status n q ft rs = Some (spec_status n q ft rs).
    Proof.
      unfold fan_status. rewrite threshold_is_failure_threshold, loop_closed_form, all_det_total.
      unfold spec_status.
      destruct (forallb (fun s => (successes_of s rs >=? q) || (conflicts_of s rs >=? ft)) (seq 0 n)) eqn:B.
      - destruct (forallb (fun s => successes_of s rs >=? q) (seq 0 n)) eqn:A.
        + assert (Hp : perm_fail n ft rs = false).
          { unfold perm_fail. destruct (existsb (fun s => conflicts_of s rs >=? ft) (seq 0 n)) eqn:E; [|reflexivity]. exfalso.
            apply existsb_exists in E as [s [Hin Hc]]. rewrite forallb_forall in A. specialize (A s Hin).
            apply in_seq in Hin. destruct (total_counters s ltac:(lia)) as [T1 [T2 [T3 T4]]].
            destruct (Z.geb_spec (successes_of s rs) q); [|discriminate].
            destruct (Z.geb_spec (conflicts_of s rs) ft); [|discriminate]. lia. }
          rewrite Hp. reflexivity.
        + assert (Hp : perm_fail n ft rs = true).
          { apply forallb_false_exists in A as [s [Hin Hs]]. rewrite forallb_forall in B. specialize (B s Hin).
            rewrite Hs in B. cbn [orb] in B. unfold perm_fail. apply existsb_exists. exists s. auto. }
          rewrite Hp. cbn [result_status]. exact status_conflict.
      - assert (A : forallb (fun s => successes_of s rs >=? q) (seq 0 n) = false).
        { destruct (forallb (fun s => successes_of s rs >=? q) (seq 0 n)) eqn:A; [|reflexivity]. exfalso.
          assert (forallb (fun s => (successes_of s rs >=? q) || (conflicts_of s rs >=? ft)) (seq 0 n) = true).
          { apply forallb_forall. intros s Hin. rewrite forallb_forall in A. rewrite (A s Hin). reflexivity. }
          congruence. }
        rewrite A.
        apply forallb_false_exists in B as [s [Hin Hs]]. apply in_seq in Hin. assert (Hlt : (s < n)%nat) by lia.
        destruct (total_counters s Hlt) as [T1 [T2 [T3 T4]]].
        apply orb_false_iff in Hs as [Hs1 Hs2].
        destruct (Z.geb_spec (successes_of s rs) q); [discriminate|].
        destruct (Z.geb_spec (conflicts_of s rs) ft); [discriminate|].
        destruct (finish_retryable ft (reach n rs) (nth s (reach n rs) sst0) Hft) as [c [E Hc]].
        + apply nth_In. rewrite reach_length. exact Hlt.
        + lia.
        + lia.
        + rewrite E. cbn [result_status]. destruct Hc as [->| ->]; [exact status_notready|exact status_unavailable].
    Qed.
  End Fixed.

  Lemma responses_of_perm : forall s rs rs', Permutation rs rs' -> responses_of s rs = responses_of s rs'.
  Proof.
    intros s rs rs' H. unfold responses_of. f_equal. apply Permutation_length. apply kinds_for_perm. exact H.
  Qed.

  Lemma loop_order_independent : forall rs rs',
    (forall s, (s < n)%nat -> responses_of s rs = nrep) -> Permutation rs rs' ->
    loop ft q ft (repeat sst0 n) rs = loop ft q ft (repeat sst0 n) rs'.
  Proof.
    intros rs rs' Hwf Hp.
    rewrite (loop_closed_form rs Hwf).
    rewrite (loop_closed_form rs').
    - rewrite (reach_perm n rs rs' Hp), (perm_fail_perm n ft rs rs' Hp). reflexivity.
    - intros s Hs. rewrite <- (responses_of_perm s rs rs' Hp). apply Hwf. exact Hs.
  Qed.
End Order.

Lemma fan_order_independent : forall n nrep q ft rs rs',
  1 <= q -> 1 <= ft -> q + ft = nrep + 1 -> q <= ft + 1 ->
  (forall s, (s < n)%nat -> responses_of s rs = nrep) ->
  Permutation rs rs' ->
  fan_status n q ft rs = fan_status n q ft rs'.
Proof.
  intros n nrep q ft rs rs' Hq Hft Hsum Hqft Hwf Hp. unfold fan_status.
  rewrite threshold_is_failure_threshold.
  rewrite (loop_order_independent n nrep q ft Hft Hsum Hqft rs rs' Hwf Hp). reflexivity.
Qed.

Lemma handler_thresholds : forall rf rep, 1 <= rf -> 0 <= rep ->
  let q := success_threshold rf rep in
  let nrep := n_replicas rf rep in
  let ft := failureThreshold_expr nrep q in
  1 <= q /\ 1 <= ft /\ q + ft = nrep + 1 /\ q <= ft + 1 /\ ft = spec_ft nrep q.
Proof.
  intros rf rep Hrf Hrep. cbn zeta.
  unfold failureThreshold_expr, spec_ft, n_replicas, success_threshold.
  destruct (Z.eqb_spec rep 0); [|lia].
  unfold writeQuorum. destruct (Z.eqb_spec rf 2); [lia|].
  Ltac Zify.zify_post_hook ::= Z.to_euclidean_division_equations.
  lia.
Qed.

Lemma fan_status_is_spec : forall n nrep q ft rs,
  1 <= ft -> q + ft = nrep + 1 -> q <= ft + 1 ->
  (forall s, (s < n)%nat -> responses_of s rs = nrep) ->
  fan_status n q ft rs = Some (spec_status n q ft rs).
Proof. intros n nrep q ft rs Hft Hsum Hqft Hwf. exact (status_is_spec n nrep q ft Hft Hsum Hqft rs Hwf). Qed.

Lemma spec_threshold_is : forall rf rep, 1 <= rf -> spec_threshold rf rep = success_threshold rf rep.
Proof.
  intros rf rep H. unfold spec_threshold, success_threshold, spec_quorum, writeQuorum.
  destruct (Z.eqb_spec rep 0); [|reflexivity]. destruct (Z.eqb_spec rf 2); [reflexivity|].
  Ltac Zify.zify_post_hook ::= Z.to_euclidean_division_equations.
  lia.
Qed.

Lemma existsb_conflicts' : forall n rs ft,
  existsb (fun s => conflicts_of s rs >=? ft) (seq 0 n) = true <->
  exists s, (s < n)%nat /\ conflicts_of s rs >= ft.
Proof. exact existsb_conflicts. Qed.

Lemma handle_pred : forall rf rep place ws, 1 <= rf -> 0 <= rep ->
  (forall s, (s < List.length place)%nat -> responses_of s (resps_of place ws) = n_replicas rf rep) ->
  exists st, handle rf rep place ws = Some st /\ pred_ok (CFan rf rep place ws st) = true.
Proof.
  intros rf rep place ws Hrf Hrep Hwf. unfold handle. cbn [pred_ok].
  destruct (rep >? rf) eqn:Er.
  - destruct (Nat.eqb (List.length place) 0); eexists; (split; [first [reflexivity|exact status_badreplica]|reflexivity]).
  - destruct (Nat.eqb (List.length place) 0) eqn:En; [exists 200; split; reflexivity|].
    destruct (handler_thresholds rf rep Hrf Hrep) as [Hq [Hft [Hsum [Hqft Hspec]]]]. cbn zeta in *.
    rewrite (spec_threshold_is rf rep Hrf).
    set (q := success_threshold rf rep) in *. set (nrep := n_replicas rf rep) in *.
    rewrite <- Hspec. set (ft := failureThreshold_expr nrep q) in *.
    set (rs := resps_of place ws) in *. set (n := List.length place) in *.
    rewrite (fan_status_is_spec n nrep q ft rs Hft Hsum Hqft Hwf).
    eexists. split; [reflexivity|].
    destruct (only_conflict_unavailable ws); [apply Z.eqb_refl|].
    unfold spec_status.
    destruct (forallb (fun s => successes_of s rs >=? q) (seq 0 n)) eqn:A; [reflexivity|].
    destruct (forallb (fun s => (successes_of s rs >=? q) || (conflicts_of s rs >=? ft)) (seq 0 n)) eqn:B; [|reflexivity].
    cbn [Z.eqb Pos.eqb negb orb].
    apply forallb_false_exists in A as [s [Hin Hs]]. rewrite forallb_forall in B. specialize (B s Hin).
    rewrite Hs in B. cbn [orb] in B.
    apply existsb_exists. exists s. split; [exact Hin|exact B].
Qed.
