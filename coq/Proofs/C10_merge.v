(* C10 — postingGroup.mergeKeys: the merged group denotes the intersection. *)
From Coq Require Import ZArith NArith List Bool Lia Sorted.
Import ListNotations.
From Verif Require Import Lib.Corr Lib.Storegw_Str Gen.C10 Model.C10 Proofs.C10.
Open Scope Z_scope.

Definition ssorted (l : list str) : Prop := StronglySorted str_lt l.

Lemma ltb_false_eq x y : str_ltb x y = false -> str_ltb y x = false -> x = y.
Proof.
  intros H1 H2. apply str_ltb_false_le in H1. apply str_ltb_false_le in H2.
  destruct (str_le_cases _ _ H1) as [E|L]; [auto|]. exfalso. apply str_le_not_gt in H2. contradiction.
Qed.

Lemma smem_below x l : ssorted l -> (forall y, hd_error l = Some y -> str_lt x y) -> smem x l = false.
Proof.
  intros Hs Hh. destruct l as [|y l]; [reflexivity|].
  specialize (Hh y eq_refl). destruct (smem x (y :: l)) eqn:E; [|reflexivity].
  apply smem_in in E. exfalso. destruct E as [E|E].
  - subst. eapply str_lt_irrefl; eauto.
  - inversion Hs as [|? ? _ Hf]; subst. rewrite Forall_forall in Hf. specialize (Hf x E).
    eapply str_lt_irrefl. eapply str_lt_trans; eauto.
Qed.

Lemma ssorted_tail x l : ssorted (x :: l) -> ssorted l.
Proof. intro H. inversion H; assumption. Qed.

Lemma ssorted_head_lt x l v : ssorted (x :: l) -> smem v l = true -> str_lt x v.
Proof. intros H Hv. apply smem_in in Hv. inversion H as [|? ? _ Hf]; subst. rewrite Forall_forall in Hf. auto. Qed.

Lemma str_eqb_lt_false x y : str_lt x y -> str_eqb x y = false.
Proof. intro H. apply str_eqb_false_ne. apply str_lt_not_eq. exact H. Qed.

Lemma str_eqb_gt_false x y : str_lt y x -> str_eqb x y = false.
Proof. intro H. apply str_eqb_false_ne. intro E. subst. eapply str_lt_irrefl; eauto. Qed.

(* ---------- union ---------- *)
Lemma s_union_mem v : forall fuel a b, (length a + length b < fuel)%nat ->
  smem v (s_union fuel a b) = smem v a || smem v b.
Proof.
  induction fuel as [|f IH]; intros a b Hf; [lia|].
  destruct a as [|x a']; [reflexivity|]. destruct b as [|y b']; [simpl; rewrite orb_false_r; reflexivity|].
  cbn [s_union]. destruct (str_ltb x y) eqn:E1.
  - cbn [smem]. rewrite IH by (simpl in *; lia). cbn [smem]. rewrite orb_assoc. reflexivity.
  - destruct (str_ltb y x) eqn:E2.
    + cbn [smem]. rewrite IH by (simpl in *; lia). cbn [smem].
      destruct (str_eqb v y), (str_eqb v x), (smem v a'), (smem v b'); reflexivity.
    + assert (x = y) by (apply ltb_false_eq; assumption). subst y.
      cbn [smem]. rewrite IH by (simpl in *; lia).
      destruct (str_eqb v x), (smem v a'), (smem v b'); reflexivity.
Qed.

Lemma s_union_sub z : forall fuel a b, In z (s_union fuel a b) -> In z a \/ In z b.
Proof.
  induction fuel as [|f IH]; intros a b H; [contradiction|].
  destruct a as [|x a']; [right; exact H|]. destruct b as [|y b']; [left; exact H|].
  cbn [s_union] in H. destruct (str_ltb x y).
  - destruct H as [<-|H]; [left; left; reflexivity|]. destruct (IH _ _ H) as [H1|H1]; [left; right; exact H1|right; exact H1].
  - destruct (str_ltb y x).
    + destruct H as [<-|H]; [right; left; reflexivity|]. destruct (IH _ _ H) as [H1|H1]; [left; exact H1|right; right; exact H1].
    + destruct H as [<-|H]; [left; left; reflexivity|]. destruct (IH _ _ H) as [H1|H1]; [left; right; exact H1|right; right; exact H1].
Qed.

Lemma Forall_lt_trans x y (l : list str) : str_lt x y -> Forall (str_lt y) l -> Forall (str_lt x) l.
Proof. intros H. apply Forall_impl. intros z Hz. eapply str_lt_trans; eauto. Qed.

Lemma s_union_sorted : forall fuel a b, ssorted a -> ssorted b -> ssorted (s_union fuel a b).
Proof.
  induction fuel as [|f IH]; intros a b Ha Hb; [constructor|].
  destruct a as [|x a']; [exact Hb|]. destruct b as [|y b']; [exact Ha|].
  cbn [s_union].
  inversion Ha as [|? ? Ha' Hxa]; subst. inversion Hb as [|? ? Hb' Hyb]; subst.
  destruct (str_ltb x y) eqn:E1.
  - apply str_ltb_lt in E1. constructor; [apply IH; assumption|].
    apply Forall_forall. intros z Hz. apply s_union_sub in Hz. destruct Hz as [Hz|[<-|Hz]].
    + rewrite Forall_forall in Hxa. auto.
    + exact E1.
    + rewrite Forall_forall in Hyb. eapply str_lt_trans; [exact E1|auto].
  - destruct (str_ltb y x) eqn:E2.
    + apply str_ltb_lt in E2. constructor; [apply IH; assumption|].
      apply Forall_forall. intros z Hz. apply s_union_sub in Hz. destruct Hz as [[<-|Hz]|Hz].
      * exact E2.
      * rewrite Forall_forall in Hxa. eapply str_lt_trans; [exact E2|auto].
      * rewrite Forall_forall in Hyb. auto.
    + assert (x = y) by (apply ltb_false_eq; assumption). subst y.
      constructor; [apply IH; assumption|].
      apply Forall_forall. intros z Hz. apply s_union_sub in Hz. destruct Hz as [Hz|Hz].
      * rewrite Forall_forall in Hxa. auto.
      * rewrite Forall_forall in Hyb. auto.
Qed.

(* ---------- difference ---------- *)
Lemma s_minus_mem v : forall fuel a b, (length a + length b < fuel)%nat -> ssorted a -> ssorted b ->
  smem v (s_minus fuel a b) = smem v a && negb (smem v b).
Proof.
  induction fuel as [|f IH]; intros a b Hf Ha Hb; [lia|].
  destruct a as [|x a']; [reflexivity|]. destruct b as [|y b']; [simpl; rewrite andb_true_r; reflexivity|].
  cbn [s_minus]. pose proof (ssorted_tail _ _ Ha) as Ha'. pose proof (ssorted_tail _ _ Hb) as Hb'.
  destruct (str_ltb x y) eqn:E1.
  - apply str_ltb_lt in E1. cbn [smem]. rewrite IH by (simpl in *; lia || assumption). cbn [smem].
    destruct (str_eqb v x) eqn:Ev; [|reflexivity].
    apply str_eqb_eq in Ev. subst v. cbn [orb andb].
    rewrite (str_eqb_lt_false _ _ E1). cbn [orb].
    rewrite (smem_below x b' Hb'); [reflexivity|].
    intros z Hz. destruct b' as [|z' b'']; [discriminate|]. inversion Hz; subst.
    eapply str_lt_trans; [exact E1|]. eapply ssorted_head_lt; [exact Hb|]. simpl. rewrite str_eqb_refl. reflexivity.
  - destruct (str_ltb y x) eqn:E2.
    + apply str_ltb_lt in E2. rewrite IH by (simpl in *; lia || assumption). cbn [smem].
      destruct (str_eqb v y) eqn:Ev; [|reflexivity].
      apply str_eqb_eq in Ev. subst v. cbn [orb negb]. rewrite andb_false_r.
      rewrite (str_eqb_lt_false _ _ E2). cbn [orb].
      rewrite (smem_below y a' Ha'); [reflexivity|].
      intros z Hz. destruct a' as [|z' a'']; [discriminate|]. inversion Hz; subst.
      eapply str_lt_trans; [exact E2|]. eapply ssorted_head_lt; [exact Ha|]. simpl. rewrite str_eqb_refl. reflexivity.
    + assert (x = y) by (apply ltb_false_eq; assumption). subst y.
      rewrite IH by (simpl in *; lia || assumption). cbn [smem].
      destruct (str_eqb v x) eqn:Ev; [|reflexivity].
      apply str_eqb_eq in Ev. subst v. cbn [orb negb andb].
      rewrite (smem_below x a' Ha'); [reflexivity|].
      intros z Hz. destruct a' as [|z' a'']; [discriminate|]. inversion Hz; subst.
      eapply ssorted_head_lt; [exact Ha|]. simpl. rewrite str_eqb_refl. reflexivity.
Qed.

Lemma s_minus_sub z : forall fuel a b, In z (s_minus fuel a b) -> In z a.
Proof.
  induction fuel as [|f IH]; intros a b H; [contradiction|].
  destruct a as [|x a']; [contradiction|]. destruct b as [|y b']; [exact H|].
  cbn [s_minus] in H. destruct (str_ltb x y).
  - destruct H as [<-|H]; [left; reflexivity|right; eapply IH; eauto].
  - destruct (str_ltb y x); [eapply IH; eauto|right; eapply IH; eauto].
Qed.

Lemma s_minus_sorted : forall fuel a b, ssorted a -> ssorted (s_minus fuel a b).
Proof.
  induction fuel as [|f IH]; intros a b Ha; [constructor|].
  destruct a as [|x a']; [constructor|]. destruct b as [|y b']; [exact Ha|].
  cbn [s_minus]. inversion Ha as [|? ? Ha' Hxa]; subst.
  destruct (str_ltb x y).
  - constructor; [apply IH; assumption|]. apply Forall_forall. intros z Hz. apply s_minus_sub in Hz.
    rewrite Forall_forall in Hxa. auto.
  - destruct (str_ltb y x); apply IH; assumption.
Qed.

(* ---------- intersection ---------- *)
Lemma s_inter_mem v : forall fuel a b, (length a + length b < fuel)%nat -> ssorted a -> ssorted b ->
  smem v (s_inter fuel a b) = smem v a && smem v b.
Proof.
  induction fuel as [|f IH]; intros a b Hf Ha Hb; [lia|].
  destruct a as [|x a']; [reflexivity|]. destruct b as [|y b']; [simpl; rewrite andb_false_r; reflexivity|].
  cbn [s_inter]. pose proof (ssorted_tail _ _ Ha) as Ha'. pose proof (ssorted_tail _ _ Hb) as Hb'.
  destruct (str_eqb x y) eqn:E0.
  - apply str_eqb_eq in E0. subst y. cbn [smem]. rewrite IH by (simpl in *; lia || assumption).
    destruct (str_eqb v x) eqn:Ev; [reflexivity|]. reflexivity.
  - destruct (str_ltb x y) eqn:E1.
    + apply str_ltb_lt in E1. rewrite IH by (simpl in *; lia || assumption). cbn [smem].
      destruct (str_eqb v x) eqn:Ev; [|reflexivity].
      apply str_eqb_eq in Ev. subst v. cbn [orb]. rewrite (str_eqb_lt_false _ _ E1). cbn [orb].
      rewrite (smem_below x b' Hb'); [rewrite !andb_false_r; reflexivity|].
      intros z Hz. destruct b' as [|z' b'']; [discriminate|]. inversion Hz; subst.
      eapply str_lt_trans; [exact E1|]. eapply ssorted_head_lt; [exact Hb|]. simpl. rewrite str_eqb_refl. reflexivity.
    + assert (E2 : str_lt y x).
      { apply str_ltb_false_le in E1. destruct (str_le_cases _ _ E1) as [E|L]; [|exact L].
        subst. rewrite str_eqb_refl in E0. discriminate. }
      rewrite IH by (simpl in *; lia || assumption). cbn [smem].
      destruct (str_eqb v y) eqn:Ev; [|reflexivity].
      apply str_eqb_eq in Ev. subst v. cbn [orb]. rewrite (str_eqb_lt_false _ _ E2). cbn [orb].
      rewrite (smem_below y a' Ha'); [reflexivity|].
      intros z Hz. destruct a' as [|z' a'']; [discriminate|]. inversion Hz; subst.
      eapply str_lt_trans; [exact E2|]. eapply ssorted_head_lt; [exact Ha|]. simpl. rewrite str_eqb_refl. reflexivity.
Qed.

Lemma s_inter_sub z : forall fuel a b, In z (s_inter fuel a b) -> In z a.
Proof.
  induction fuel as [|f IH]; intros a b H; [contradiction|].
  destruct a as [|x a']; [contradiction|]. destruct b as [|y b']; [contradiction|].
  cbn [s_inter] in H. destruct (str_eqb x y).
  - destruct H as [<-|H]; [left; reflexivity|right; eapply IH; eauto].
  - destruct (str_ltb x y); [right; eapply IH; eauto|eapply IH; eauto].
Qed.

Lemma s_inter_sorted : forall fuel a b, ssorted a -> ssorted (s_inter fuel a b).
Proof.
  induction fuel as [|f IH]; intros a b Ha; [constructor|].
  destruct a as [|x a']; [constructor|]. destruct b as [|y b']; [constructor|].
  cbn [s_inter]. inversion Ha as [|? ? Ha' Hxa]; subst.
  destruct (str_eqb x y).
  - constructor; [apply IH; assumption|]. apply Forall_forall. intros z Hz. apply s_inter_sub in Hz.
    rewrite Forall_forall in Hxa. auto.
  - destruct (str_ltb x y); apply IH; assumption.
Qed.

(* ---------- mergeKeys ---------- *)
(* well-formed group: strictly sorted keys; add-all groups have no add keys, others no remove keys *)
Definition wf_group (g : group) : Prop :=
  ssorted (g_add g) /\ ssorted (g_rem g) /\ (g_all g = true -> g_add g = []) /\ (g_all g = false -> g_rem g = []).

Lemma merge_keys_sem a b v : wf_group a -> wf_group b ->
  in_group (merge_keys a b) v = in_group a v && in_group b v.
Proof.
  intros (A1 & A2 & A3 & A4) (B1 & B2 & B3 & B4). unfold merge_keys, in_group.
  destruct (g_all a) eqn:Ea, (g_all b) eqn:Eb; cbn [andb orb].
  - destruct (is_nil (g_rem a)) eqn:Na.
    + apply is_nil_true in Na. cbn [g_all g_rem]. rewrite Na. reflexivity.
    + destruct (is_nil (g_rem b)) eqn:Nb.
      * apply is_nil_true in Nb. rewrite Ea, Nb. cbn [smem negb]. rewrite andb_true_r. reflexivity.
      * cbn [g_all g_rem]. rewrite s_union_mem by (unfold fuel2; lia). apply negb_orb.
  - cbn [g_all g_add]. rewrite s_minus_mem by (unfold fuel2; lia || assumption). apply andb_comm.
  - cbn [g_all g_add]. rewrite s_minus_mem by (unfold fuel2; lia || assumption). reflexivity.
  - cbn [g_all g_add]. rewrite s_inter_mem by (unfold fuel2; lia || assumption). reflexivity.
Qed.

Lemma merge_keys_wf a b : wf_group a -> wf_group b -> wf_group (merge_keys a b).
Proof.
  intros (A1 & A2 & A3 & A4) (B1 & B2 & B3 & B4). unfold merge_keys, wf_group.
  destruct (g_all a) eqn:Ea, (g_all b) eqn:Eb; cbn [andb orb].
  - destruct (is_nil (g_rem a)) eqn:Na.
    + cbn [g_all g_add g_rem]. repeat split; auto; try discriminate.
    + destruct (is_nil (g_rem b)) eqn:Nb.
      * rewrite Ea. repeat split; auto.
      * cbn [g_all g_add g_rem]. repeat split; auto; try discriminate. apply s_union_sorted; assumption.
  - cbn [g_all g_add g_rem]. repeat split; try discriminate; try constructor; auto. apply s_minus_sorted; assumption.
  - cbn [g_all g_add g_rem]. repeat split; try discriminate; try constructor; auto. apply s_minus_sorted; assumption.
  - cbn [g_all g_add g_rem]. repeat split; try discriminate; auto. apply s_inter_sorted; assumption.
Qed.
