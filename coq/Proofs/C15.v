(* C15 — lemmas for bucketBlockSet.getFor. *)
From Coq Require Import String.
From Coq Require Import ZArith NArith List Bool Lia.
Import ListNotations.
From Verif Require Import Lib.Corr Gen.C15 Model.C15.
Open Scope Z_scope.

(* ---- equality, membership, appendNewBlocks ---------------------------------- *)

Lemma block_eqb_spec a b : block_eqb a b = true <-> a = b.
Proof.
  destruct a as [i1 m1 x1 r1], b as [i2 m2 x2 r2]. unfold block_eqb. cbn [bid bmin bmax bres].
  rewrite !andb_true_iff, N.eqb_eq, !Z.eqb_eq. split.
  - intros [[[-> ->] ->] ->]. reflexivity.
  - intro H. inversion H. auto.
Qed.

Lemma contains_spec l b : contains l b = true <-> In b l.
Proof.
  unfold contains. rewrite existsb_exists. split.
  - intros (x & Hx & E). apply block_eqb_spec in E. subst. exact Hx.
  - intro H. exists b. split; [exact H|]. apply block_eqb_spec. reflexivity.
Qed.

Lemma append_new_in : forall more acc x, In x (append_new acc more) <-> In x acc \/ In x more.
Proof.
  induction more as [|b r IH]; intros acc x; cbn [append_new].
  - cbn. tauto.
  - destruct (contains acc b) eqn:E.
    + rewrite IH. apply contains_spec in E. cbn [In]. split; [tauto|]. intros [H|[<-|H]]; auto.
    + rewrite IH, in_app_iff. cbn [In]. tauto.
Qed.

Lemma nodup_snoc {A} (l : list A) a : NoDup l -> ~ In a l -> NoDup (l ++ [a]).
Proof.
  induction l as [|x l IH]; intros H Ha; cbn; [constructor; [tauto|constructor]|].
  inversion H as [|? ? Hx Hl]; subst. constructor.
  - rewrite in_app_iff. cbn. intros [Hin|[->|[]]]; [contradiction|]. apply Ha. left. reflexivity.
  - apply IH; [exact Hl|]. intro Hin. apply Ha. right. exact Hin.
Qed.

Lemma nodup_app_r {A} (l1 l2 : list A) : NoDup (l1 ++ l2) -> NoDup l2.
Proof. induction l1 as [|x l1 IH]; cbn; intro H; [exact H|]. inversion H; auto. Qed.

Lemma append_new_nodup : forall more acc, NoDup acc -> NoDup (append_new acc more).
Proof.
  induction more as [|b r IH]; intros acc H; cbn [append_new]; [exact H|].
  destruct (contains acc b) eqn:E; apply IH; [exact H|].
  apply nodup_snoc; [exact H|].
  intro Hin. apply contains_spec in Hin. congruence.
Qed.

Lemma app_dd_in dd acc more x : In x (app_dd dd acc more) <-> In x acc \/ In x more.
Proof. destruct dd; cbn [app_dd]; [apply append_new_in | apply in_app_iff]. Qed.

(* ---- sortedness --------------------------------------------------------------- *)

Lemma sorted_min_head : forall r a, sorted_by min_le (a :: r) = true -> forall b, In b r -> bmin a <= bmin b.
Proof.
  induction r as [|c r IH]; intros a H b Hb; [contradiction|].
  cbn [sorted_by] in H. apply andb_true_iff in H as [H1 H2]. unfold min_le in H1. apply Z.leb_le in H1.
  destruct Hb as [<-|Hb]; [exact H1|].
  specialize (IH c H2 b Hb). lia.
Qed.

Lemma sorted_min_tail a r : sorted_by min_le (a :: r) = true -> sorted_by min_le r = true.
Proof. cbn [sorted_by]. intro H. apply andb_true_iff in H as [_ H]. exact H. Qed.

Lemma blk_le_min a b : blk_le a b = true -> min_le a b = true.
Proof.
  unfold blk_le, min_le. intro H. apply Z.leb_le. apply orb_true_iff in H as [H|H].
  - apply Z.ltb_lt in H. lia.
  - apply andb_true_iff in H as [H _]. apply Z.eqb_eq in H. lia.
Qed.

Lemma sorted_blk_min : forall l, sorted_by blk_le l = true -> sorted_by min_le l = true.
Proof.
  induction l as [|a r IH]; intro H; [reflexivity|].
  cbn [sorted_by] in *. apply andb_true_iff in H as [H1 H2]. rewrite (IH H2), andb_true_r.
  destruct r; [reflexivity|]. apply blk_le_min. exact H1.
Qed.

(* ---- the loop ------------------------------------------------------------------- *)

Section Scan.
  Variable dd : bool.
  Variable lower : Z -> Z -> list block.
  Variables mint maxt : Z.

  Lemma scan_acc : forall bl start acc x, In x acc -> In x (scan dd lower mint maxt bl start acc).
  Proof.
    induction bl as [|b r IH]; intros start acc x H; cbn [scan].
    - apply app_dd_in. auto.
    - destruct (bmax b <=? mint); [apply IH; exact H|].
      destruct (bmin b >? maxt); [apply app_dd_in; auto|].
      apply IH. apply in_app_iff. left. apply app_dd_in. auto.
  Qed.

  Lemma scan_selects : forall bl start acc b, In b bl -> sorted_by min_le bl = true ->
    mint < bmax b -> bmin b <= maxt -> In b (scan dd lower mint maxt bl start acc).
  Proof.
    induction bl as [|b0 r IH]; intros start acc b Hin Hs Hmax Hmin; [contradiction|].
    cbn [scan].
    destruct Hin as [->|Hin].
    - assert (E1 : bmax b <=? mint = false) by (apply Z.leb_gt; lia). rewrite E1.
      assert (E2 : bmin b >? maxt = false) by (rewrite Z.gtb_ltb; apply Z.ltb_ge; lia). rewrite E2.
      apply scan_acc. apply in_app_iff. right. left. reflexivity.
    - pose proof (sorted_min_head _ _ Hs b Hin) as Hle. apply sorted_min_tail in Hs.
      destruct (bmax b0 <=? mint); [apply IH; assumption|].
      destruct (bmin b0 >? maxt) eqn:E2.
      + rewrite Z.gtb_ltb in E2. apply Z.ltb_lt in E2. lia.
      + apply IH; assumption.
  Qed.

  (* an instant covered by no block of the level lies in the range of a gap-filling call *)
  Lemma scan_gap : forall bl start acc t, (forall b, In b bl -> covers b t = false) ->
    start <= t <= maxt ->
    exists m' M', m' <= t <= M' /\ forall x, In x (lower m' M') -> In x (scan dd lower mint maxt bl start acc).
  Proof.
    induction bl as [|b r IH]; intros start acc t Hnc Ht; cbn [scan].
    - exists start, maxt. split; [lia|]. intros x Hx. apply app_dd_in. auto.
    - assert (Hr : forall b', In b' r -> covers b' t = false) by (intros; apply Hnc; right; assumption).
      destruct (bmax b <=? mint); [apply IH; assumption|].
      destruct (bmin b >? maxt).
      { exists start, maxt. split; [lia|]. intros x Hx. apply app_dd_in. auto. }
      destruct (Z_lt_le_dec t (bmin b)) as [Hlt|Hge].
      + exists start, (bmin b - 1). split; [lia|]. intros x Hx.
        apply scan_acc. apply in_app_iff. left. apply app_dd_in. auto.
      + assert (Hb : covers b t = false) by (apply Hnc; left; reflexivity).
        unfold covers in Hb. apply andb_false_iff in Hb as [Hb|Hb].
        * apply Z.leb_gt in Hb. lia.
        * apply Z.ltb_ge in Hb. apply IH; [assumption|lia].
  Qed.

  (* where an element of the result comes from *)
  Lemma scan_origin : forall bl start acc x, mint <= start ->
    In x (scan dd lower mint maxt bl start acc) ->
    In x acc \/ (In x bl /\ mint < bmax x /\ bmin x <= maxt) \/
    (exists m' M', mint <= m' /\ M' <= maxt /\ In x (lower m' M')).
  Proof.
    induction bl as [|b r IH]; intros start acc x Hst H; cbn [scan] in H.
    - apply app_dd_in in H as [H|H]; [auto|]. right. right. exists start, maxt. repeat split; [lia|lia|exact H].
    - destruct (bmax b <=? mint) eqn:E1.
      { destruct (IH _ _ _ Hst H) as [H'|[(H1 & H2)|H']]; auto. right. left. split; [right; exact H1|exact H2]. }
      apply Z.leb_gt in E1.
      destruct (bmin b >? maxt) eqn:E2.
      { apply app_dd_in in H as [H|H]; [auto|]. right. right. exists start, maxt. repeat split; [lia|lia|exact H]. }
      rewrite Z.gtb_ltb in E2. apply Z.ltb_ge in E2.
      destruct (IH (bmax b) _ x ltac:(lia) H) as [H'|[(H1 & H2)|H']].
      + apply in_app_iff in H' as [H'|[<-|[]]].
        * apply app_dd_in in H' as [H'|H']; [auto|].
          right. right. exists start, (bmin b - 1). repeat split; [lia|lia|exact H'].
        * right. left. repeat split; [left; reflexivity|lia|lia].
      + right. left. split; [right; exact H1|exact H2].
      + auto.
  Qed.
End Scan.

(* ---- getFor over the levels ------------------------------------------------------ *)

Lemma get_for_incl : forall dd levels m M x, In x (get_for dd levels m M) -> In x (concat levels).
Proof.
  induction levels as [|cur lower IH]; intros m M x H; cbn [get_for] in H; [contradiction|].
  destruct (m >? M); [contradiction|].
  cbn [concat]. apply in_app_iff.
  destruct (scan_origin dd (get_for dd lower) m M cur m [] x ltac:(lia) H) as [[]|[(H1 & _)|(m' & M' & _ & _ & H')]].
  - left. exact H1.
  - right. apply (IH _ _ _ H').
Qed.

Lemma get_for_overlap : forall dd levels m M x, In x (get_for dd levels m M) -> bmin x <= M /\ m < bmax x.
Proof.
  induction levels as [|cur lower IH]; intros m M x H; cbn [get_for] in H; [contradiction|].
  destruct (m >? M); [contradiction|].
  destruct (scan_origin dd (get_for dd lower) m M cur m [] x ltac:(lia) H) as [[]|[(_ & H1 & H2)|(m' & M' & Hm & HM & H')]].
  - lia.
  - destruct (IH _ _ _ H'). lia.
Qed.

Lemma get_for_cover : forall dd levels m M t b,
  Forall (fun l => sorted_by min_le l = true) levels ->
  m <= t <= M -> In b (concat levels) -> covers b t = true ->
  exists b', In b' (get_for dd levels m M) /\ covers b' t = true.
Proof.
  induction levels as [|cur lower IH]; intros m M t b Hs Ht Hin Hc; [contradiction|].
  cbn [get_for]. assert (E : m >? M = false) by (rewrite Z.gtb_ltb; apply Z.ltb_ge; lia). rewrite E.
  inversion Hs as [|? ? Hcur Hlow]; subst.
  destruct (existsb (fun c => covers c t) cur) eqn:Ex.
  - apply existsb_exists in Ex as (c & Hcin & Hcc). exists c. split; [|exact Hcc].
    unfold covers in Hcc. apply andb_true_iff in Hcc as [C1 C2]. apply Z.leb_le in C1. apply Z.ltb_lt in C2.
    apply scan_selects; [assumption|assumption|lia|lia].
  - assert (Hnc : forall c, In c cur -> covers c t = false).
    { intros c Hc'. destruct (covers c t) eqn:Ec; [|reflexivity].
      assert (existsb (fun c => covers c t) cur = true) by (apply existsb_exists; eauto). congruence. }
    cbn [concat] in Hin. apply in_app_iff in Hin as [Hin|Hin].
    { rewrite (Hnc b Hin) in Hc. discriminate. }
    destruct (scan_gap dd (get_for dd lower) m M cur m [] t Hnc ltac:(lia)) as (m' & M' & Hr & Hsub).
    destruct (IH m' M' t b Hlow Hr Hin Hc) as (b' & Hb' & Hcb'). exists b'. split; [apply Hsub; exact Hb'|exact Hcb'].
Qed.

(* ---- no duplicates (fixed code) ------------------------------------------------------ *)

Lemma scan_nodup : forall lower mint maxt L bl start acc,
  (forall m' M' x, In x (lower m' M') -> In x L) ->
  NoDup (bl ++ L) -> NoDup acc -> (forall x, In x acc -> ~ In x bl) ->
  NoDup (scan true lower mint maxt bl start acc).
Proof.
  intros lower mint maxt L. induction bl as [|b r IH]; intros start acc HL Hnd Hacc Hdisj; cbn [scan app_dd].
  - apply append_new_nodup. exact Hacc.
  - assert (Hnd' : NoDup (r ++ L)) by (cbn in Hnd; inversion Hnd; assumption).
    destruct (bmax b <=? mint).
    { apply IH; auto. intros x Hx Hr. apply (Hdisj x Hx). right. exact Hr. }
    destruct (bmin b >? maxt); [apply append_new_nodup; exact Hacc|].
    assert (HbL : ~ In b (r ++ L)) by (cbn in Hnd; inversion Hnd; assumption).
    apply IH; auto.
    + apply nodup_snoc; [apply append_new_nodup; exact Hacc|].
      intro Hin. apply append_new_in in Hin as [Hin|Hin].
      * apply (Hdisj b Hin). left. reflexivity.
      * apply HbL. apply in_app_iff. right. apply (HL _ _ _ Hin).
    + intros x Hx Hr. apply in_app_iff in Hx as [Hx|[<-|[]]].
      * apply append_new_in in Hx as [Hx|Hx].
        -- apply (Hdisj x Hx). right. exact Hr.
        -- apply HL in Hx. clear - Hnd' Hx Hr.
           induction r as [|c r IHr]; [contradiction|].
           cbn in Hnd'. inversion Hnd' as [|? ? Hn Hnd'']; subst.
           destruct Hr as [->|Hr]; [apply Hn; apply in_app_iff; right; exact Hx | apply IHr; assumption].
      * apply HbL. apply in_app_iff. left. exact Hr.
Qed.

Lemma get_for_nodup : forall levels m M, NoDup (concat levels) -> NoDup (get_for true levels m M).
Proof.
  induction levels as [|cur lower IH]; intros m M H; cbn [get_for]; [constructor|].
  destruct (m >? M); [constructor|].
  cbn [concat] in H.
  apply (scan_nodup (get_for true lower) m M (concat lower)); auto.
  - intros m' M' x Hx. apply (get_for_incl _ _ _ _ _ Hx).
  - constructor.
Qed.

Lemma map_inj_in {A B} (f : A -> B) : forall U a b, NoDup (map f U) -> In a U -> In b U -> f a = f b -> a = b.
Proof.
  induction U as [|u U IH]; intros a b H Ha Hb E; [contradiction|].
  cbn in H. inversion H as [|? ? Hn Hnd]; subst.
  destruct Ha as [->|Ha], Hb as [->|Hb]; auto.
  - exfalso. apply Hn. rewrite E. apply in_map. exact Hb.
  - exfalso. apply Hn. rewrite <- E. apply in_map. exact Ha.
Qed.

Lemma nodup_map_incl {A B} (f : A -> B) U : NoDup (map f U) ->
  forall l, incl l U -> NoDup l -> NoDup (map f l).
Proof.
  intros HU. induction l as [|a l IH]; intros Hi Hn; cbn; [constructor|].
  inversion Hn as [|? ? Ha Hn']; subst. constructor.
  - intro Hin. apply in_map_iff in Hin as (x & E & Hx). apply Ha.
    rewrite <- (map_inj_in f U x a HU); auto; apply Hi; [right; exact Hx | left; reflexivity].
  - apply IH; [intros x Hx; apply Hi; right; exact Hx | exact Hn'].
Qed.

Lemma nodup_n_spec l : nodup_n l = true <-> NoDup l.
Proof.
  induction l as [|a r IH]; cbn [nodup_n]; [split; [constructor|reflexivity]|].
  rewrite andb_true_iff, negb_true_iff, IH. split.
  - intros [H1 H2]. constructor; [|exact H2]. intro Hin.
    assert (existsb (N.eqb a) r = true) by (apply existsb_exists; exists a; split; [exact Hin|apply N.eqb_refl]). congruence.
  - intro H. inversion H as [|? ? Hn Hnd]; subst. split; [|exact Hnd].
    destruct (existsb (N.eqb a) r) eqn:E; [|reflexivity].
    apply existsb_exists in E as (x & Hx & Ex). apply N.eqb_eq in Ex. subst. contradiction.
Qed.

(* ---- top level: choosing the first allowed level --------------------------------------- *)

(* s.resolutions is strictly decreasing: the recursive call with s.resolutions[i+1] lands on level i+1 *)
Lemma resolutions_decreasing : resolutions = [ResLevel2; ResLevel1; ResLevel0] /\ ResLevel2 > ResLevel1 /\ ResLevel1 > ResLevel0
  /\ drop_levels ResLevel1 resolutions [2%nat; 1%nat; 0%nat] = [1%nat; 0%nat]
  /\ drop_levels ResLevel0 resolutions [2%nat; 1%nat; 0%nat] = [0%nat].
Proof. repeat split; reflexivity. Qed.

(* well-formed block set: one list per resolution, holding blocks of that resolution, sorted by min time *)
Definition wf_levels (levels : list (list block)) : Prop :=
  Forall2 (fun r l => Forall (fun b => bres b = r) l /\ sorted_by min_le l = true) resolutions levels.

Lemma drop_levels_suffix {A} maxres : forall res (levels : list A),
  exists pre, levels = pre ++ drop_levels maxres res levels \/ drop_levels maxres res levels = [].
Proof.
  induction res as [|r res IH]; intros levels; [exists []; right; reflexivity|].
  destruct levels as [|l levels]; [exists []; right; reflexivity|].
  cbn [drop_levels]. destruct (r >? maxres).
  - destruct (IH levels) as (pre & [H|H]).
    + exists (l :: pre). left. cbn. f_equal. exact H.
    + exists []. right. exact H.
  - exists []. left. reflexivity.
Qed.

Lemma drop_levels_incl {A} maxres : forall res (levels : list (list A)) x,
  In x (concat (drop_levels maxres res levels)) -> In x (concat levels).
Proof.
  intros res levels x H. destruct (drop_levels_suffix maxres res levels) as (pre & [E|E]).
  - rewrite E, concat_app. apply in_app_iff. right. exact H.
  - rewrite E in H. contradiction.
Qed.

Lemma drop_levels_res : forall levels maxres b, wf_levels levels ->
  In b (concat (drop_levels maxres resolutions levels)) -> bres b <= maxres.
Proof.
  intros levels maxres b Hwf. unfold wf_levels, resolutions in *.
  inversion Hwf as [|r2 l2 ? ? [H2 _] Hwf1]; subst. inversion Hwf1 as [|r1 l1 ? ? [H1 _] Hwf0]; subst.
  inversion Hwf0 as [|r0 l0 ? ? [H0 _] Hnil]; subst. inversion Hnil; subst.
  rewrite Forall_forall in H2, H1, H0.
  unfold ResLevel2, ResLevel1, ResLevel0 in *.
  cbn [drop_levels].
  repeat match goal with |- context [?a >? ?b] => let E := fresh "E" in destruct (a >? b) eqn:E; rewrite Z.gtb_ltb in E; [apply Z.ltb_lt in E | apply Z.ltb_ge in E] end;
    cbn [concat app]; rewrite ?app_nil_r, ?in_app_iff; intro H;
    repeat match goal with H : _ \/ _ |- _ => destruct H as [H|H] end;
    try contradiction;
    try (apply H2 in H; lia); try (apply H1 in H; lia); try (apply H0 in H; lia).
Qed.

Lemma drop_levels_allowed : forall levels maxres b, wf_levels levels ->
  In b (concat levels) -> bres b <= maxres -> In b (concat (drop_levels maxres resolutions levels)).
Proof.
  intros levels maxres b Hwf. unfold wf_levels, resolutions in *.
  inversion Hwf as [|r2 l2 ? ? [H2 _] Hwf1]; subst. inversion Hwf1 as [|r1 l1 ? ? [H1 _] Hwf0]; subst.
  inversion Hwf0 as [|r0 l0 ? ? [H0 _] Hnil]; subst. inversion Hnil; subst.
  rewrite Forall_forall in H2, H1, H0.
  unfold ResLevel2, ResLevel1, ResLevel0 in *.
  cbn [drop_levels concat app]. rewrite ?app_nil_r, ?in_app_iff. intros H Hr.
  repeat match goal with |- context [?a >? ?b] => let E := fresh "E" in destruct (a >? b) eqn:E; rewrite Z.gtb_ltb in E; [apply Z.ltb_lt in E | apply Z.ltb_ge in E] end;
    cbn [concat app]; rewrite ?app_nil_r, ?in_app_iff;
    repeat match goal with H : _ \/ _ |- _ => destruct H as [H|H] end;
    try (pose proof (H2 _ H); lia); try (pose proof (H1 _ H); lia); try (pose proof (H0 _ H); lia); tauto.
Qed.

Lemma drop_levels_sorted : forall levels maxres, wf_levels levels ->
  Forall (fun l => sorted_by min_le l = true) (drop_levels maxres resolutions levels).
Proof.
  intros levels maxres Hwf.
  assert (Hall : Forall (fun l => sorted_by min_le l = true) levels).
  { unfold wf_levels in Hwf. induction Hwf as [|r l res ls [_ Hs] _ IH]; constructor; auto. }
  destruct (drop_levels_suffix maxres resolutions levels) as (pre & [E|E]).
  - rewrite E in Hall. apply Forall_app in Hall as [_ H]. exact H.
  - rewrite E. constructor.
Qed.

Lemma top_some levels m M maxres : exists out, get_for_top true levels m M maxres = Some out /\
  (m <= M -> out = get_for true (drop_levels maxres resolutions levels) m M).
Proof.
  unfold get_for_top. destruct (m >? M) eqn:E.
  - exists []. split; [reflexivity|]. rewrite Z.gtb_ltb in E. apply Z.ltb_lt in E. lia.
  - destruct (drop_levels maxres resolutions levels) as [|l ls] eqn:D; eexists; split; reflexivity.
Qed.

Lemma top_in levels m M maxres out x : get_for_top true levels m M maxres = Some out -> In x out ->
  m <= M /\ In x (get_for true (drop_levels maxres resolutions levels) m M).
Proof.
  unfold get_for_top. destruct (m >? M) eqn:E.
  - intro H; inversion H; subst. contradiction.
  - rewrite Z.gtb_ltb in E. apply Z.ltb_ge in E.
    destruct (drop_levels maxres resolutions levels) as [|l ls] eqn:D; intro H; inversion H; subst; [contradiction|].
    auto.
Qed.

(* The four clauses, for the code with the fix. *)
Lemma res_bound levels m M maxres out : wf_levels levels ->
  get_for_top true levels m M maxres = Some out -> Forall (fun b => bres b <= maxres) out.
Proof.
  intros Hwf H. apply Forall_forall. intros x Hx. destruct (top_in _ _ _ _ _ _ H Hx) as [_ Hin].
  apply get_for_incl in Hin. apply (drop_levels_res levels maxres x Hwf Hin).
Qed.

Lemma overlap levels m M maxres out :
  get_for_top true levels m M maxres = Some out -> Forall (fun b => bmin b <= M /\ m < bmax b) out.
Proof.
  intros H. apply Forall_forall. intros x Hx. destruct (top_in _ _ _ _ _ _ H Hx) as [_ Hin].
  apply (get_for_overlap _ _ _ _ _ Hin).
Qed.

Lemma selected_from_set levels m M maxres out :
  get_for_top true levels m M maxres = Some out -> incl out (concat levels).
Proof.
  intros H x Hx. destruct (top_in _ _ _ _ _ _ H Hx) as [_ Hin].
  apply get_for_incl in Hin. apply (drop_levels_incl _ _ _ _ Hin).
Qed.

Lemma nodup_blocks levels m M maxres out : NoDup (concat levels) ->
  get_for_top true levels m M maxres = Some out -> NoDup out.
Proof.
  intros Hnd. unfold get_for_top. destruct (m >? M); [intro H; inversion H; constructor|].
  assert (Hd : NoDup (concat (drop_levels maxres resolutions levels))).
  { destruct (drop_levels_suffix maxres resolutions levels) as (pre & [E|E]).
    - rewrite E, concat_app in Hnd. apply nodup_app_r in Hnd. exact Hnd.
    - rewrite E. constructor. }
  destruct (drop_levels maxres resolutions levels) as [|l ls] eqn:D; intro H; injection H as <-; [constructor|].
  exact (get_for_nodup (l :: ls) m M Hd).
Qed.

Lemma nodup_ids levels m M maxres out : NoDup (map bid (concat levels)) ->
  get_for_top true levels m M maxres = Some out -> NoDup (map bid out).
Proof.
  intros Hnd H. apply (nodup_map_incl bid (concat levels) Hnd).
  - apply (selected_from_set _ _ _ _ _ H).
  - apply (nodup_blocks levels m M maxres out); [apply (NoDup_map_inv _ _ Hnd)|exact H].
Qed.

Lemma cover levels m M maxres out t b : wf_levels levels ->
  get_for_top true levels m M maxres = Some out ->
  m <= t <= M -> In b (concat levels) -> bres b <= maxres -> covers b t = true ->
  exists b', In b' out /\ covers b' t = true.
Proof.
  intros Hwf H Ht Hin Hr Hc.
  destruct (top_some levels m M maxres) as (out' & H' & Heq). rewrite H in H'. inversion H'; subst out'.
  rewrite (Heq ltac:(lia)).
  apply (get_for_cover true _ m M t b (drop_levels_sorted levels maxres Hwf) Ht); [|exact Hc].
  apply drop_levels_allowed; assumption.
Qed.

(* ---- the code before the fix violates two clauses ----------------------------------------- *)

Definition witness_levels : list (list block) :=
  [[mkBlock 1 10 20 ResLevel2]; [mkBlock 2 0 30 ResLevel1]; []].

Lemma witness_wf : wf_levels witness_levels /\ NoDup (map bid (concat witness_levels)).
Proof.
  split.
  - unfold wf_levels, witness_levels, resolutions. repeat constructor.
  - cbn. repeat constructor; cbn; intuition discriminate.
Qed.

Lemma unfixed_duplicates :
  get_for_top false witness_levels 0 30 ResLevel2 = Some [mkBlock 2 0 30 ResLevel1; mkBlock 1 10 20 ResLevel2; mkBlock 2 0 30 ResLevel1]
  /\ get_for_top true witness_levels 0 30 ResLevel2 = Some [mkBlock 2 0 30 ResLevel1; mkBlock 1 10 20 ResLevel2].
Proof. split; vm_compute; reflexivity. Qed.

Lemma unfixed_panics : get_for_top false witness_levels 0 30 (-1) = None /\ get_for_top true witness_levels 0 30 (-1) = Some [].
Proof. split; vm_compute; reflexivity. Qed.

(* ---- tie T: source shape ---------------------------------------------------------------------- *)

Lemma source_shape :
  getForIfs = ["mint > maxt"; "i >= len(s.blocks)"; "b.meta.MaxTime <= mint"; "b.meta.MinTime > maxt";
               "i+1 < len(s.resolutions)"; "len(blockMatchers) == 0 || b.matchRelabelLabels(blockMatchers)";
               "i+1 < len(s.resolutions)"]%string /\
  getForLoops = ["i < len(s.resolutions) && s.resolutions[i] > maxResolutionMillis"; "range s.blocks[i]"]%string /\
  getForStartAssigns = ["mint"; "b.meta.MaxTime"]%string /\
  getForRecursiveArgs = ["start, b.meta.MinTime - 1, s.resolutions[i+1], blockMatchers";
                         "start, maxt, s.resolutions[i+1], blockMatchers"]%string /\
  getForAppends = ["appendNewBlocks(bs, s.getFor(start, b.meta.MinTime-1, s.resolutions[i+1], blockMatchers))";
                   "append(bs, b)";
                   "appendNewBlocks(bs, s.getFor(start, maxt, s.resolutions[i+1], blockMatchers))"]%string /\
  addSortLess = ["if bs[j].meta.MinTime == bs[k].meta.MinTime"; "return bs[j].meta.MaxTime < bs[k].meta.MaxTime";
                 "return bs[j].meta.MinTime < bs[k].meta.MinTime"]%string.
Proof. repeat split; reflexivity. Qed.

(* ---- from the checked layout conditions to the hypotheses of the lemmas ------------------------ *)

Lemma nodup_app_intro {A} (l1 l2 : list A) : NoDup l1 -> NoDup l2 -> (forall x, In x l1 -> ~ In x l2) -> NoDup (l1 ++ l2).
Proof.
  induction l1 as [|a l1 IH]; intros H1 H2 Hd; cbn; [exact H2|].
  inversion H1 as [|? ? Ha H1']; subst. constructor.
  - rewrite in_app_iff. intros [H|H]; [contradiction|]. apply (Hd a); [left; reflexivity|exact H].
  - apply IH; auto. intros x Hx. apply Hd. right. exact Hx.
Qed.

Record level_spec (input : list block) (r : Z) (l : list block) : Prop := {
  ls_res : forall b, In b l -> bres b = r;
  ls_incl : incl l input;
  ls_sorted : sorted_by min_le l = true;
  ls_nodup : NoDup l;
  ls_all : forall b, In b input -> bres b = r -> In b l }.

Lemma level_ok_spec input r l : level_ok input r l = true -> level_spec input r l.
Proof.
  unfold level_ok. rewrite !andb_true_iff. intros [[[[H1 H2] H3] H4] H5].
  rewrite forallb_forall in H1, H2. apply nodup_n_spec in H4. apply NoDup_map_inv in H4. apply Nat.eqb_eq in H5.
  assert (Hres : forall b, In b l -> bres b = r) by (intros b Hb; apply Z.eqb_eq; auto).
  assert (Hincl : incl l input) by (intros b Hb; apply contains_spec; auto).
  split; auto.
  - apply sorted_blk_min. exact H3.
  - intros b Hb Hr.
    apply (NoDup_length_incl H4 (l' := filter (fun b => bres b =? r) input)).
    + lia.
    + intros x Hx. apply filter_In. split; [apply Hincl; exact Hx|]. apply Z.eqb_eq. auto.
    + apply filter_In. split; [exact Hb|apply Z.eqb_eq; exact Hr].
Qed.

Lemma levels_ok_spec input : forall res lv, levels_ok input res lv = true -> Forall2 (level_spec input) res lv.
Proof.
  induction res as [|r res IH]; intros [|l lv] H; cbn [levels_ok] in H; try discriminate; [constructor|].
  apply andb_true_iff in H as [H1 H2]. constructor; [apply level_ok_spec; exact H1|apply IH; exact H2].
Qed.

Lemma levels_ok_facts input lv : nodup_n (map bid input) = true -> levels_ok input resolutions lv = true ->
  wf_levels lv /\ incl (concat lv) input /\
  (forall b, In b input -> known_res (bres b) = true -> In b (concat lv)) /\
  NoDup (map bid (concat lv)).
Proof.
  intros Hnd H. apply nodup_n_spec in Hnd. apply levels_ok_spec in H. unfold resolutions in H.
  inversion H as [|r2 l2 ? ? S2 H1]; subst. inversion H1 as [|r1 l1 ? ? S1 H0]; subst.
  inversion H0 as [|r0 l0 ? ? S0 Hn]; subst. inversion Hn; subst.
  destruct S2 as [A2 B2 C2 D2 E2], S1 as [A1 B1 C1 D1 E1], S0 as [A0 B0 C0 D0 E0].
  assert (Hincl : incl (concat [l2; l1; l0]) input).
  { cbn [concat]. rewrite app_nil_r. intros x Hx. apply in_app_iff in Hx as [Hx|Hx]; [auto|].
    apply in_app_iff in Hx as [Hx|Hx]; auto. }
  split; [|split; [exact Hincl|split]].
  - unfold wf_levels, resolutions. repeat constructor; auto; apply Forall_forall; auto.
  - intros b Hb Hk. unfold known_res, resolutions in Hk. cbn [existsb] in Hk. rewrite orb_false_r in Hk.
    cbn [concat]. rewrite app_nil_r, !in_app_iff.
    apply orb_true_iff in Hk as [Hk|Hk]; [apply Z.eqb_eq in Hk; left; auto|].
    apply orb_true_iff in Hk as [Hk|Hk]; apply Z.eqb_eq in Hk; right; [left|right]; auto.
  - apply (nodup_map_incl bid input Hnd _ Hincl).
    cbn [concat]. rewrite app_nil_r.
    apply nodup_app_intro; [exact D2| |].
    + apply nodup_app_intro; [exact D1|exact D0|].
      intros x X1 X0. apply A1 in X1. apply A0 in X0. unfold ResLevel1, ResLevel0 in *. lia.
    + intros x X2 X. apply A2 in X2. apply in_app_iff in X as [X|X]; [apply A1 in X|apply A0 in X];
        unfold ResLevel2, ResLevel1, ResLevel0 in *; lia.
Qed.

Lemma find_block_in input b : NoDup (map bid input) -> In b input -> find_block input (bid b) = Some b.
Proof.
  intros Hnd Hb. unfold find_block.
  destruct (find (fun x => (bid x =? bid b)%N) input) as [x|] eqn:E.
  - apply find_some in E as [Hx Ex]. apply N.eqb_eq in Ex. f_equal. apply (map_inj_in bid input x b Hnd Hx Hb Ex).
  - exfalso. apply (find_none _ _ E) in Hb. rewrite N.eqb_refl in Hb. discriminate.
Qed.

Lemma resolve_map_bid input : NoDup (map bid input) -> forall out, incl out input -> resolve input (map bid out) = Some out.
Proof.
  intros Hnd. induction out as [|b out IH]; intro Hi; cbn [map resolve]; [reflexivity|].
  rewrite (find_block_in input b Hnd) by (apply Hi; left; reflexivity).
  rewrite IH by (intros x Hx; apply Hi; right; exact Hx). reflexivity.
Qed.

(* ---- the coverage checker is complete and sound ----------------------------------------------------- *)

Definition covered_prop (input sel : list block) (m M maxres : Z) : Prop :=
  forall t a, m <= t <= M -> In a input -> allowed maxres a = true -> covers a t = true ->
  exists s, In s sel /\ covers s t = true.

Lemma cover_check_complete input sel m M maxres : covered_prop input sel m M maxres -> cover_check input sel m M maxres = true.
Proof.
  intro H. unfold cover_check. apply forallb_forall. intros t _.
  destruct ((m <=? t) && (t <=? M) && existsb (fun a => allowed maxres a && covers a t) input) eqn:E; [|reflexivity].
  apply andb_true_iff in E as [E1 E2]. apply andb_true_iff in E1 as [E0 E1].
  apply Z.leb_le in E0, E1. apply existsb_exists in E2 as (a & Ha & E2). apply andb_true_iff in E2 as [A1 A2].
  destruct (H t a ltac:(lia) Ha A1 A2) as (s & Hs & Hc). apply existsb_exists. eauto.
Qed.

(* the largest critical instant <= t *)
Fixpoint best (cands : list Z) (t cur : Z) : Z :=
  match cands with
  | [] => cur
  | x :: r => if (x <=? t) && (cur <? x) then best r t x else best r t cur
  end.

Lemma best_spec : forall cands t cur, cur <= t ->
  let b := best cands t cur in
  b <= t /\ cur <= b /\ (b = cur \/ In b cands) /\ (forall x, In x cands -> x <= t -> x <= b).
Proof.
  induction cands as [|x r IH]; intros t cur Hc; cbn [best].
  - cbn. repeat split; try lia; auto; intros ? [].
  - destruct ((x <=? t) && (cur <? x)) eqn:E.
    + apply andb_true_iff in E as [E1 E2]. apply Z.leb_le in E1. apply Z.ltb_lt in E2.
      destruct (IH t x E1) as (B1 & B2 & B3 & B4). cbn zeta in *. repeat split; try lia.
      * destruct B3 as [->|B3]; [right; left; reflexivity|right; right; exact B3].
      * intros y [<-|Hy] Hyt; [lia|auto].
    + destruct (IH t cur Hc) as (B1 & B2 & B3 & B4). cbn zeta in *. repeat split; try lia.
      * destruct B3 as [B3|B3]; [left; exact B3|right; right; exact B3].
      * intros y [<-|Hy] Hyt; [|auto].
        apply andb_false_iff in E as [E|E]; [apply Z.leb_gt in E; lia|apply Z.ltb_ge in E; lia].
Qed.

Lemma cover_check_sound input sel m M maxres : cover_check input sel m M maxres = true -> covered_prop input sel m M maxres.
Proof.
  intros H t a Ht Ha Hal Hc. unfold cover_check in H. rewrite forallb_forall in H.
  set (T := critical input sel m maxres) in *.
  pose proof (best_spec T t m ltac:(lia)) as (B1 & B2 & B3 & B4). set (t' := best T t m) in *.
  unfold covers in Hc. apply andb_true_iff in Hc as [C1 C2]. apply Z.leb_le in C1. apply Z.ltb_lt in C2.
  assert (HmT : In m T) by (left; reflexivity).
  assert (HaT : In (bmin a) T).
  { right. apply in_app_iff. left. apply in_map. apply filter_In. auto. }
  assert (Ht'T : In t' T) by (destruct B3 as [->|B3]; auto).
  assert (Hat' : bmin a <= t') by (apply B4; [exact HaT|lia]).
  specialize (H t' Ht'T).
  assert (E : (m <=? t') && (t' <=? M) && existsb (fun a0 => allowed maxres a0 && covers a0 t') input = true).
  { apply andb_true_iff. split; [apply andb_true_iff; split; apply Z.leb_le; lia|].
    apply existsb_exists. exists a. split; [exact Ha|]. rewrite Hal. cbn [andb]. unfold covers.
    apply andb_true_iff. split; [apply Z.leb_le; lia|apply Z.ltb_lt; lia]. }
  rewrite E in H. apply existsb_exists in H as (s & Hs & Hcs).
  exists s. split; [exact Hs|].
  unfold covers in *. apply andb_true_iff in Hcs as [S1 S2]. apply Z.leb_le in S1. apply Z.ltb_lt in S2.
  apply andb_true_iff. split; [apply Z.leb_le; lia|]. apply Z.ltb_lt.
  destruct (Z_lt_le_dec t (bmax s)) as [|Hge]; [assumption|].
  assert (In (bmax s) T) by (right; apply in_app_iff; right; apply in_map; exact Hs).
  specialize (B4 (bmax s) H Hge). lia.
Qed.

(* ---- the statement through the checked predicate ------------------------------------------------------- *)

Lemma pred_sel_ok input lv m M maxres :
  nodup_n (map bid input) = true -> levels_ok input resolutions lv = true ->
  exists out, get_for_top true lv m M maxres = Some out /\
    pred_sel input out m M maxres = true /\ resolve input (map bid out) = Some out.
Proof.
  intros Hnd Hlv. destruct (levels_ok_facts input lv Hnd Hlv) as (Hwf & Hincl & Hall & Hids).
  destruct (top_some lv m M maxres) as (out & Hout & _). exists out. split; [exact Hout|]. split.
  - unfold pred_sel. rewrite !andb_true_iff. repeat split.
    + apply forallb_forall. intros b Hb. apply Z.leb_le.
      pose proof (res_bound lv m M maxres out Hwf Hout) as HF. rewrite Forall_forall in HF. auto.
    + apply nodup_n_spec. apply (nodup_ids lv m M maxres out Hids Hout).
    + apply forallb_forall. intros b Hb.
      pose proof (overlap lv m M maxres out Hout) as HF. rewrite Forall_forall in HF. destruct (HF b Hb).
      apply andb_true_iff. split; [apply Z.leb_le|apply Z.ltb_lt]; lia.
    + apply cover_check_complete. intros t a Ht Ha Hal Hc.
      unfold allowed in Hal. apply andb_true_iff in Hal as [K R]. apply Z.leb_le in R.
      apply (cover lv m M maxres out t a Hwf Hout Ht (Hall a Ha K) R Hc).
  - apply resolve_map_bid; [apply nodup_n_spec; exact Hnd|].
    intros x Hx. apply Hincl. apply (selected_from_set lv m M maxres out Hout x Hx).
Qed.

Lemma case_pred_ok input failed lids lv m M maxres :
  nodup_n (map bid input) = true -> levels_ok input resolutions lv = true ->
  pred_ok (CGet input failed lids m M maxres (option_map (map bid) (get_for_top true lv m M maxres))) = true.
Proof.
  intros Hnd Hlv. destruct (pred_sel_ok input lv m M maxres Hnd Hlv) as (out & -> & Hp & Hr).
  cbn [pred_ok option_map]. rewrite Hr. exact Hp.
Qed.

(* ---- packaged statements for Properties/C15.v ------------------------------------------------------------ *)

Lemma overlap_and_member levels mint maxt maxres out :
  get_for_top true levels mint maxt maxres = Some out ->
  Forall (fun b => bmin b <= maxt /\ mint < bmax b) out /\ incl out (concat levels).
Proof. intros. split; [eapply overlap; eassumption | eapply selected_from_set; eassumption]. Qed.

Lemma unfixed_duplicates_refuted :
  wf_levels witness_levels /\ NoDup (map bid (concat witness_levels)) /\
  exists out, get_for_top false witness_levels 0 30 ResLevel2 = Some out /\ ~ NoDup (map bid out).
Proof.
  destruct witness_wf as [H1 H2]. split; [exact H1|]. split; [exact H2|].
  eexists. split; [exact (proj1 unfixed_duplicates)|].
  cbn. intro H. inversion H as [|? ? Hn _]; subst. apply Hn. right. left. reflexivity.
Qed.

Lemma source_shape_all :
  resolutions = [ResLevel2; ResLevel1; ResLevel0] /\ ResLevel2 > ResLevel1 /\ ResLevel1 > ResLevel0 /\
  getForIfs = ["mint > maxt"; "i >= len(s.blocks)"; "b.meta.MaxTime <= mint"; "b.meta.MinTime > maxt";
               "i+1 < len(s.resolutions)"; "len(blockMatchers) == 0 || b.matchRelabelLabels(blockMatchers)";
               "i+1 < len(s.resolutions)"]%string /\
  getForStartAssigns = ["mint"; "b.meta.MaxTime"]%string /\
  getForRecursiveArgs = ["start, b.meta.MinTime - 1, s.resolutions[i+1], blockMatchers";
                         "start, maxt, s.resolutions[i+1], blockMatchers"]%string /\
  getForAppends = ["appendNewBlocks(bs, s.getFor(start, b.meta.MinTime-1, s.resolutions[i+1], blockMatchers))";
                   "append(bs, b)";
                   "appendNewBlocks(bs, s.getFor(start, maxt, s.resolutions[i+1], blockMatchers))"]%string /\
  addSortLess = ["if bs[j].meta.MinTime == bs[k].meta.MinTime"; "return bs[j].meta.MaxTime < bs[k].meta.MaxTime";
                 "return bs[j].meta.MinTime < bs[k].meta.MinTime"]%string.
Proof.
  destruct resolutions_decreasing as (R1 & R2 & R3 & _). destruct source_shape as (S1 & _ & S3 & S4 & S5 & S6).
  repeat split; assumption.
Qed.

(* ---- histories: the set as per-resolution sorted lists --------------------------------------------- *)
From Coq Require Import Permutation.

Definition ble (a b : block) : Prop := blk_le a b = true.

Lemma blk_le_total a b : blk_le a b = false -> blk_le b a = true.
Proof.
  unfold blk_le. intro H. apply orb_false_iff in H as [H1 H2]. apply Z.ltb_ge in H1.
  apply orb_true_iff. destruct (Z.eq_dec (bmin a) (bmin b)) as [E|N].
  - right. rewrite E in *. rewrite Z.eqb_refl in *. cbn [andb] in *. apply Z.leb_gt in H2. apply Z.leb_le. lia.
  - left. apply Z.ltb_lt. lia.
Qed.

Lemma blk_le_trans a b c : ble a b -> ble b c -> ble a c.
Proof.
  unfold ble, blk_le. rewrite !orb_true_iff, !andb_true_iff, !Z.ltb_lt, !Z.eqb_eq, !Z.leb_le. lia.
Qed.

(* strongly sorted *)
Fixpoint ssorted (l : list block) : Prop :=
  match l with
  | [] => True
  | a :: r => Forall (ble a) r /\ ssorted r
  end.

Lemma insert_perm b : forall l, Permutation (insert_blk b l) (b :: l).
Proof.
  induction l as [|x r IH]; cbn [insert_blk]; [reflexivity|].
  destruct (blk_le b x); [reflexivity|]. rewrite IH. apply perm_swap.
Qed.

Lemma insert_ssorted b : forall l, ssorted l -> ssorted (insert_blk b l).
Proof.
  induction l as [|x r IH]; intro H; cbn [insert_blk ssorted]; [split; [constructor|exact I]|].
  destruct H as [Hx Hr]. destruct (blk_le b x) eqn:E; cbn [ssorted].
  - split; [|split; assumption]. constructor; [exact E|].
    eapply Forall_impl; [|exact Hx]. intros y Hy. apply (blk_le_trans b x y E Hy).
  - split; [|apply IH; exact Hr].
    apply (Permutation_Forall (Permutation_sym (insert_perm b r))). constructor; [apply blk_le_total; exact E|exact Hx].
Qed.

Lemma forall_filter {A} (P : A -> Prop) f : forall l, Forall P l -> Forall P (filter f l).
Proof. induction l as [|x r IH]; intro H; cbn [filter]; [constructor|]. inversion H; subst. destruct (f x); [constructor|]; auto. Qed.

Lemma filter_ssorted f : forall l, ssorted l -> ssorted (filter f l).
Proof.
  induction l as [|x r IH]; intro H; cbn [filter]; [exact I|]. destruct H as [Hx Hr].
  destruct (f x); cbn [ssorted]; [split; [apply forall_filter; exact Hx|apply IH; exact Hr]|apply IH; exact Hr].
Qed.

Lemma ssorted_sorted_by : forall l, ssorted l -> sorted_by blk_le l = true.
Proof.
  induction l as [|a r IH]; intro H; [reflexivity|]. destruct H as [Ha Hr]. cbn [sorted_by].
  rewrite (IH Hr), andb_true_r. destruct r as [|b r']; [reflexivity|]. inversion Ha; subst. assumption.
Qed.

Definition lvl_inv (r : Z) (l : list block) : Prop := Forall (fun b => bres b = r) l /\ ssorted l.

Lemma madd_inv : forall res lv b, Forall2 lvl_inv res lv -> Forall2 lvl_inv res (madd res lv b).
Proof.
  induction res as [|r res IH]; intros lv b H; inversion H as [|? l ? lv' [H1 H2] H3]; subst; cbn [madd]; [constructor|].
  destruct (bres b =? r) eqn:E.
  - constructor; [|exact H3]. split; [|apply insert_ssorted; exact H2].
    apply (Permutation_Forall (Permutation_sym (insert_perm b l))). constructor; [apply Z.eqb_eq; exact E|exact H1].
  - constructor; [split; assumption|apply IH; exact H3].
Qed.

Lemma madd_perm : forall res lv b, length res = length lv -> In (bres b) res ->
  Permutation (concat (madd res lv b)) (b :: concat lv).
Proof.
  induction res as [|r res IH]; intros [|l lv] b Hl Hin; cbn in Hl; try discriminate; [contradiction|].
  cbn [madd]. destruct (bres b =? r) eqn:E; cbn [concat].
  - rewrite insert_perm. reflexivity.
  - apply Z.eqb_neq in E. destruct Hin as [->|Hin]; [congruence|].
    rewrite (IH lv b ltac:(lia) Hin). symmetry. apply Permutation_middle.
Qed.

Lemma forall2_len {A B} (R : A -> B -> Prop) : forall l1 l2, Forall2 R l1 l2 -> length l1 = length l2.
Proof. induction 1; cbn; congruence. Qed.

Lemma madd_unknown : forall res lv b, ~ In (bres b) res -> madd res lv b = lv.
Proof.
  induction res as [|r res IH]; intros [|l lv] b H; cbn [madd]; try reflexivity.
  destruct (bres b =? r) eqn:E; [apply Z.eqb_eq in E; exfalso; apply H; left; auto|].
  f_equal. apply IH. intro Hin. apply H. right. exact Hin.
Qed.

Lemma mremove_inv id : forall res lv, Forall2 lvl_inv res lv -> Forall2 lvl_inv res (mremove id lv).
Proof.
  induction res as [|r res IH]; intros lv H; inversion H as [|? l ? lv' [H1 H2] H3]; subst; cbn [mremove map]; constructor.
  - split; [apply forall_filter; exact H1|apply filter_ssorted; exact H2].
  - apply IH. exact H3.
Qed.

Lemma concat_mremove id : forall lv, concat (mremove id lv) = filter (fun b => negb (N.eqb (bid b) id)) (concat lv).
Proof.
  induction lv as [|l lv IH]; [reflexivity|]. cbn [mremove map concat]. rewrite filter_app. f_equal. exact IH.
Qed.

Lemma nodup_map_filter {A B} (f : A -> B) g : forall l, NoDup (map f l) -> NoDup (map f (filter g l)).
Proof.
  induction l as [|x r IH]; intro H; cbn [filter map]; [constructor|]. cbn [map] in H. inversion H as [|? ? Hn Hr]; subst.
  destruct (g x); cbn [map]; [constructor; [|apply IH; exact Hr]|apply IH; exact Hr].
  intro Hin. apply Hn. apply in_map_iff in Hin as (y & E & Hy). apply filter_In in Hy as [Hy _]. apply in_map_iff. eauto.
Qed.

Lemma perm_filter {A} (f : A -> bool) : forall l1 l2, Permutation l1 l2 -> Permutation (filter f l1) (filter f l2).
Proof.
  induction 1; cbn [filter].
  - constructor.
  - destruct (f x); [constructor|]; assumption.
  - destruct (f x), (f y); try reflexivity. apply perm_swap.
  - etransitivity; eassumption.
Qed.

Lemma known_res_in r : known_res r = true <-> In r resolutions.
Proof.
  unfold known_res. rewrite existsb_exists. split.
  - intros (x & Hx & E). apply Z.eqb_eq in E. subst. exact Hx.
  - intro H. exists r. split; [exact H|apply Z.eqb_refl].
Qed.

(* the state reached by a history: (model levels, specification set) *)
Definition hstate_run (ops : list hop) : list (list block) * list block :=
  fold_left (fun st o => (mset_step (fst st) o, spec_step (snd st) o)) ops (mset_init, []).

Definition hinv_set (lv : list (list block)) (cur : list block) : Prop :=
  Forall2 lvl_inv resolutions lv /\ Permutation (concat lv) cur /\ NoDup (map bid cur).

Lemma hstep_inv lv cur o : hinv_set lv cur ->
  (match o with OAdd b => ~ In (bid b) (map bid cur) | _ => True end) ->
  hinv_set (mset_step lv o) (spec_step cur o).
Proof.
  intros (I1 & I2 & I3) Hf. destruct o as [b|id|m M r]; cbn [mset_step spec_step].
  - destruct (known_res (bres b)) eqn:K.
    + apply known_res_in in K. split; [apply madd_inv; exact I1|]. split.
      * rewrite madd_perm; [|apply (forall2_len _ _ _ I1)|exact K].
        rewrite I2. apply Permutation_cons_append.
      * rewrite map_app. cbn [map]. apply (Permutation_NoDup (Permutation_cons_append _ _)). constructor; assumption.
    + assert (N : ~ In (bres b) resolutions) by (intro H; apply known_res_in in H; congruence).
      rewrite madd_unknown by exact N. repeat split; assumption.
  - split; [apply mremove_inv; exact I1|]. split.
    + rewrite concat_mremove. apply perm_filter. exact I2.
    + apply nodup_map_filter. exact I3.
  - repeat split; assumption.
Qed.

Lemma fresh_ids_step cur o r : fresh_ids cur (o :: r) = true ->
  (match o with OAdd b => ~ In (bid b) (map bid cur) | _ => True end) /\ fresh_ids (spec_step cur o) r = true.
Proof.
  cbn [fresh_ids]. intro H. apply andb_true_iff in H as [H1 H2]. split; [|exact H2].
  destruct o as [b| |]; auto. apply negb_true_iff in H1. intro Hin. apply in_map_iff in Hin as (x & E & Hx).
  assert (existsb (fun x => N.eqb (bid x) (bid b)) cur = true) by (apply existsb_exists; exists x; split; [exact Hx|apply N.eqb_eq; exact E]).
  congruence.
Qed.

Lemma hrun_inv : forall ops lv cur, hinv_set lv cur -> fresh_ids cur ops = true ->
  hinv_set (fst (fold_left (fun st o => (mset_step (fst st) o, spec_step (snd st) o)) ops (lv, cur)))
           (snd (fold_left (fun st o => (mset_step (fst st) o, spec_step (snd st) o)) ops (lv, cur))).
Proof.
  induction ops as [|o r IH]; intros lv cur I F; cbn [fold_left fst snd]; [exact I|].
  destruct (fresh_ids_step cur o r F) as [F1 F2]. apply IH; [apply hstep_inv; assumption|exact F2].
Qed.

Lemma lvl_inv_wf lv : Forall2 lvl_inv resolutions lv -> wf_levels lv.
Proof.
  unfold wf_levels. generalize resolutions. intros res H. induction H as [|r l res' lv' [H1 H2] _ IH]; constructor; [|exact IH].
  split; [exact H1|]. apply sorted_blk_min. apply ssorted_sorted_by. exact H2.
Qed.

(* every state reachable by add / remove / getFor calls (ids of added blocks new) is a well-formed
   set holding exactly the specification set; hence the four clauses hold for every getFor in it *)
Lemma reachable_clauses ops : fresh_ids [] ops = true ->
  let lv := fst (hstate_run ops) in let cur := snd (hstate_run ops) in
  wf_levels lv /\ NoDup (map bid (concat lv)) /\ Permutation (concat lv) cur /\
  forall mint maxt maxres out, get_for_top true lv mint maxt maxres = Some out ->
    Forall (fun b => bres b <= maxres) out /\
    Forall (fun b => bmin b <= maxt /\ mint < bmax b) out /\ incl out cur /\
    NoDup (map bid out) /\
    (forall t b, mint <= t <= maxt -> In b cur -> bres b <= maxres -> covers b t = true ->
       exists b', In b' out /\ covers b' t = true).
Proof.
  intro F. cbn zeta. unfold hstate_run.
  assert (I0 : hinv_set mset_init []).
  { split; [|split; [|constructor]].
    - unfold mset_init. induction resolutions; cbn; constructor; auto. split; [constructor|exact I].
    - unfold mset_init. induction resolutions; cbn; auto. }
  destruct (hrun_inv ops mset_init [] I0 F) as (I1 & I2 & I3).
  set (lv := fst _) in *. set (cur := snd _) in *.
  pose proof (lvl_inv_wf lv I1) as Wf.
  assert (Nd : NoDup (map bid (concat lv))).
  { apply (Permutation_NoDup (Permutation_map bid (Permutation_sym I2))). exact I3. }
  split; [exact Wf|]. split; [exact Nd|]. split; [exact I2|].
  intros mint maxt maxres out H. split; [apply (res_bound lv mint maxt maxres out Wf H)|].
  split; [apply (overlap lv mint maxt maxres out H)|]. split.
  - intros x Hx. apply (Permutation_in _ I2). apply (selected_from_set lv mint maxt maxres out H x Hx).
  - split; [apply (nodup_ids lv mint maxt maxres out Nd H)|].
    intros t b Ht Hb Hr Hc. apply (cover lv mint maxt maxres out t b Wf H Ht); [|exact Hr|exact Hc].
    apply (Permutation_in _ (Permutation_sym I2)). exact Hb.
Qed.

(* a remove that does not keep the order (swap with the last element) leaves a level unsorted:
   four blocks in time order, the first one replaced by the last; getFor on that list misses the
   block 10-20 for the query [-2,10] *)
Lemma unsorted_level_refuted :
  let lv := [[]; []; [mkBlock 4 30 40 0; mkBlock 2 10 20 0; mkBlock 3 20 30 0]] in
  sorted_by blk_le (nth 2 lv []) = false /\
  get_for_top true lv (-2) 10 0 = Some [] /\
  covers (mkBlock 2 10 20 0) 10 = true /\
  get_for_top true (mremove 1 (fold_left (madd resolutions) [mkBlock 1 0 10 0; mkBlock 2 10 20 0; mkBlock 3 20 30 0; mkBlock 4 30 40 0] mset_init)) (-2) 10 0
    = Some [mkBlock 2 10 20 0].
Proof. cbn zeta. repeat split; vm_compute; reflexivity. Qed.

Lemma remove_shape : removeAssigns = ["s.blocks[i] = append(bs[:j], bs[j+1:]...)"]%string.
Proof. reflexivity. Qed.
