(* C36 — proofs.  currentWindow is Gen.C36.currentWindow (regenerated from the
   Go source); the facts the shared lemmas need about it are proved here. *)
From Coq Require Import ZArith List Bool Lia Sorted.
Import ListNotations.
From Verif Require Import Lib.Corr Lib.Downsample_Core Lib.Downsample_Batch Lib.Downsample_Raw Lib.Downsample_Windows Gen.C36 Model.C36.
Open Scope Z_scope.

Ltac Zify.zify_post_hook ::= Z.to_euclidean_division_equations.

(* ---- currentWindow ---- *)

Lemma cw_ge res : 0 < res -> forall t, 0 <= t -> t <= cw t res.
Proof. intros Hr t Ht. unfold cw, currentWindow. nia. Qed.

Lemma cw_same res : 0 < res ->
  forall t t', 0 <= t -> t <= t' -> t' <= cw t res -> cw t' res = cw t res.
Proof.
  intros Hr t t' Ht Hle Hw. unfold cw, currentWindow in *.
  rewrite !Z.rem_mod_nonneg in * by lia.
  assert (E : t' / res = t / res).
  { symmetry. apply (Z.div_unique t' res (t / res) (t' - res * (t / res))); lia. }
  rewrite (Z.mod_eq t'), (Z.mod_eq t), E by lia. lia.
Qed.


(* ---- structure of DownsampleRaw's output ---- *)

Lemma zip4_rows : forall outs : list (Z * fagg),
  zip4 (proj a_count outs) (proj a_sum outs) (proj (fun a => oz (a_min a)) outs) (proj (fun a => oz (a_max a)) outs)
  = Some (map row_of outs).
Proof.
  induction outs as [|o outs IH]; [reflexivity|].
  unfold proj in *. cbn [map zip4 fst snd]. rewrite !Z.eqb_refl. cbn [andb]. rewrite IH. reflexivity.
Qed.

Lemma chunk_rows_float_batch res b :
  chunk_rows (float_batch cw res b) = Some (map row_of (fst (downsample_batch cw res b))).
Proof.
  unfold chunk_rows, float_batch. destruct (downsample_batch cw res b) as [outs lastT].
  cbn [k_count k_sum k_min k_max olist fst]. apply zip4_rows.
Qed.

Lemma all_rows_batches res : forall batches,
  all_rows (map (float_batch cw res) batches) = Some (map row_of (all_outs cw res batches)).
Proof.
  induction batches as [|b rest IH]; [reflexivity|].
  unfold all_outs in *. cbn [map all_rows concat]. rewrite chunk_rows_float_batch, IH, map_app. reflexivity.
Qed.

Lemma valid_input_valid res data : valid_input res data = true -> valid_raw res data.
Proof.
  unfold valid_input. intros H. apply andb_true_iff in H as [H Hinc]. apply andb_true_iff in H as [Hr Hnn].
  apply Z.ltb_lt in Hr. split; [exact Hr|]. split.
  - clear - Hinc. induction (map fst data) as [|a l IH]; [constructor|].
    assert (Hl : strictly_inc l = true /\ Forall (Z.le a) l).
    { clear IH. revert a Hinc. induction l as [|b l IHl]; intros a Hinc; [split; [reflexivity|constructor]|].
      cbn [strictly_inc] in Hinc. apply andb_true_iff in Hinc as [Hab Hinc]. apply Z.ltb_lt in Hab.
      split; [exact Hinc|]. constructor; [lia|]. destruct (IHl b Hinc) as [_ F].
      eapply Forall_impl; [|exact F]. intros x Hx; cbv beta in Hx. lia. }
    destruct Hl as [Hl F]. constructor; [apply IH; exact Hl|exact F].
  - rewrite forallb_forall in Hnn. rewrite Forall_forall. intros s Hs. specialize (Hnn s Hs).
    apply andb_true_iff in Hnn as [A B]. apply Z.leb_le in A. apply Z.leb_le in B. lia.
Qed.

Lemma valid_nonneg res data : valid_raw res data -> Forall (fun s : Z * option Z => 0 <= fst s) data.
Proof. intros (_ & _ & H). eapply Forall_impl; [|exact H]. intros s Hs; cbv beta in Hs. lia. Qed.

(* DownsampleRaw terminates (the fuel suffices) and its output is the list of
   per-batch aggregate chunks of well-formed, window-closed batches *)
Lemma raw_structure res nc data :
  valid_raw res data ->
  exists batches,
    downsample_raw_m res nc data = Some (map (float_batch cw res) batches) /\
    concat batches = keep_nonnan data /\
    Forall (good_batch) batches /\ seps cw res batches.
Proof.
  intros Hv. pose proof (valid_nonneg _ _ Hv) as Hnn. destruct Hv as (Hr & Hs & _).
  unfold downsample_raw_m, downsample_raw.
  destruct (raw_batches_spec cw res (cw_ge res Hr) (cw_same res Hr) (length data / nc + 1)%nat ltac:(lia)
              (length data) data (le_n _) Hs Hnn) as (batches & E & Hcat & Hne & Hsep & Hgood).
  exists batches. rewrite E. split; [reflexivity|]. split; [exact Hcat|]. split; [|exact Hsep].
  rewrite Forall_forall in *. intros b Hb. split; [apply Hne|apply Hgood]; exact Hb.
Qed.

Lemma Forall2_Forall_l {A B} (R : A -> B -> Prop) (P : A -> Prop) (Q : B -> Prop) l1 l2 :
  Forall2 R l1 l2 -> Forall Q l2 -> (forall x y, R x y -> Q y -> P x) -> Forall P l1.
Proof.
  induction 1 as [|x y l1 l2 Hxy _ IH]; intros HQ Himp; [constructor|].
  apply Forall_cons_iff in HQ as [Hy HQ]. constructor; [eapply Himp; eauto|apply IH; assumption].
Qed.

Lemma Forall2_map_eq {A B C} (R : A -> B -> Prop) (f : A -> C) (g : B -> C) l1 l2 :
  Forall2 R l1 l2 -> (forall x y, R x y -> f x = g y) -> map f l1 = map g l2.
Proof. induction 1 as [|x y l1 l2 Hxy _ IH]; intros H; [reflexivity|]. cbn. f_equal; [apply H; exact Hxy|apply IH; exact H]. Qed.

(* clause 1 of the property: every output row carries exactly the aggregates of
   the raw non-NaN samples of its downsampling window; rows are in window order,
   one per non-empty window *)
Lemma windows_exact res nc data :
  valid_raw res data ->
  exists out rows,
    downsample_raw_m res nc data = Some out /\ all_rows out = Some rows /\
    Forall (row_spec res (keep_nonnan data)) rows /\
    StronglySorted Z.lt (map (fun r => cw (fst r) res) rows).
Proof.
  intros Hv. destruct (raw_structure res nc data Hv) as (batches & E & Hcat & Hgood & Hsep).
  destruct Hv as (Hr & _ & _).
  exists (map (float_batch cw res) batches), (map row_of (all_outs cw res batches)).
  split; [exact E|]. split; [apply all_rows_batches|].
  destruct (all_windows_facts cw res (cw_ge res Hr) (cw_same res Hr) batches Hgood Hsep) as (Gcat & Gok & Gsort & GF).
  pose proof (all_windows_filter cw res (cw_ge res Hr) (cw_same res Hr) batches Hgood Hsep) as GFil.
  rewrite Hcat in GFil. split.
  - rewrite Forall_map.
    assert (Q : Forall (fun p : Z * list (Z * Z) => gwin_ok cw res p /\
               filter (fun s => cw (fst s) res =? cw (fst p) res) (keep_nonnan data) = snd p) (all_windows cw res batches)).
    { rewrite Forall_forall in *. intros p Hp. split; [apply Gok|apply GFil]; exact Hp. }
    eapply (Forall2_Forall_l _ _ _ _ _ GF Q).
    intros o g [Hfst (Hc & Hsum & Hmn & Hmx)] [(Hne & _ & _) Hfil].
    unfold row_spec, row_of, window_values. rewrite Hfst, Hfil.
    assert (Hv : map snd (snd g) <> []) by (destruct (snd g); [congruence|discriminate]).
    destruct (min_list_some _ Hv) as [m Em]. destruct (max_list_some _ Hv) as [m' Em'].
    rewrite Hmn, Hmx, Em, Em'. cbn [oz]. repeat split; assumption.
  - rewrite map_map. cbn [row_of fst].
    rewrite (Forall2_map_eq _ (fun x : Z * fagg => cw (fst x) res) (fun p : Z * list (Z * Z) => cw (fst p) res) _ _ GF).
    + exact Gsort.
    + intros x y [H _]. rewrite H. reflexivity.
Qed.

(* clause 2: totals over the series *)
Lemma totals_exact res nc data :
  valid_raw res data ->
  exists out rows,
    downsample_raw_m res nc data = Some out /\ all_rows out = Some rows /\
    totals_spec (keep_nonnan data) rows.
Proof.
  intros Hv. destruct (raw_structure res nc data Hv) as (batches & E & Hcat & Hgood & Hsep).
  destruct Hv as (Hr & _ & _).
  exists (map (float_batch cw res) batches), (map row_of (all_outs cw res batches)).
  split; [exact E|]. split; [apply all_rows_batches|].
  destruct (all_windows_facts cw res (cw_ge res Hr) (cw_same res Hr) batches Hgood Hsep) as (Gcat & Gok & _ & GF).
  assert (Hne : Forall (fun g : Z * list (Z * Z) => snd g <> []) (all_windows cw res batches)).
  { eapply Forall_impl; [|exact Gok]. intros p (H & _). exact H. }
  pose proof (snap_totals _ _ GF Hne) as T. cbv zeta in T. rewrite Gcat, Hcat in T.
  destruct T as (Tc & Ts & Tmn & Tmx). unfold totals_spec. rewrite !map_map.
  rewrite map_length in Tc.
  repeat split; assumption.
Qed.

(* ---- chunk order ---- *)

Fixpoint ochain (prev : option Z) (tss : list (list Z)) : Prop :=
  match tss with
  | [] => True
  | ts :: r =>
      ts <> [] /\ StronglySorted Z.lt ts /\
      match prev with Some p => Forall (Z.lt p) ts | None => True end /\
      ochain (Some (last ts 0)) r
  end.

Definition labels res (b : list (Z * Z)) : list Z := map fst (fst (downsample_batch cw res b)).

Lemma last_map {A B} (f : A -> B) l d : last (map f l) (f d) = f (last l d).
Proof. induction l as [|x l IH]; [reflexivity|]. destruct l; [reflexivity|]. exact IH. Qed.

Lemma labels_chain res : 0 < res -> forall batches prev,
  Forall good_batch batches -> seps cw res batches ->
  match prev with Some p => Forall (fun s : Z * Z => p < fst s) (concat batches) | None => True end ->
  ochain prev (map (labels res) batches) /\
  Forall (fun b => last (labels res b) 0 = last_t b /\ Forall (fun w => 0 <= w <= last_t b) (labels res b)) batches.
Proof.
  intros Hr. induction batches as [|b rest IH]; intros prev Hg Hsep Hprev; [split; constructor|].
  apply Forall_cons_iff in Hg as [Hb Hg]. destruct Hsep as [Hcross Hsep].
  destruct (batch_windows_facts cw res (cw_ge res Hr) (cw_same res Hr) b Hb)
    as (Bcat & Bok & Bsort & _ & Bne & Blast & BF & _).
  assert (EL : labels res b = map fst (batch_windows cw res b)).
  { unfold labels. apply (Forall2_map_eq _ _ _ _ _ BF). intros x y [H _]. exact H. }
  assert (Hlast : last (labels res b) 0 = last_t b).
  { rewrite EL. change 0 with (fst (0, @nil (Z * Z))). rewrite last_map. exact Blast. }
  destruct Hb as [Hbne [Hbs Hbn]].
  assert (Hll : In (last b (0, 0)) b) by (apply last_in; exact Hbne).
  assert (Hnext : Forall (fun s : Z * Z => last_t b < fst s) (concat rest)).
  { rewrite Forall_forall in Hcross. specialize (Hcross _ Hll).
    eapply Forall_impl; [|exact Hcross]. intros s Hs; cbv beta in Hs.
    rewrite Forall_forall in Hbn. specialize (Hbn _ Hll).
    pose proof (cw_ge res Hr _ Hbn). unfold last_t. lia. }
  destruct (IH (Some (last_t b)) Hg Hsep Hnext) as [IHc IHl].
  assert (Hrange : Forall (fun w => 0 <= w <= last_t b) (labels res b)).
  { rewrite EL. rewrite Forall_map. rewrite Forall_forall in Bok |- *. intros p Hp.
    destruct (Bok p Hp) as (_ & H0 & _). split; [exact H0|].
    assert (Hs' : StronglySorted Z.lt (map fst (batch_windows cw res b))) by exact Bsort.
    (* every label is <= the last label *)
    assert (Hle : forall l : list Z, StronglySorted Z.lt l -> forall x, In x l -> x <= last l 0).
    { clear. induction l as [|a l IHl]; intros Hs x Hx; [contradiction|].
      apply StronglySorted_inv in Hs as [Hs Ha]. destruct l as [|c l'].
      - destruct Hx as [<-|[]]. cbn. lia.
      - change (last (a :: c :: l') 0) with (last (c :: l') 0).
        destruct Hx as [<-|Hx]; [|apply IHl; assumption].
        rewrite Forall_forall in Ha. pose proof (Ha _ (last_in (c :: l') 0 ltac:(discriminate))). lia. }
    rewrite <- Hlast, EL. apply Hle; [exact Hs'|]. apply in_map. exact Hp. }
  split.
  - cbn [map ochain]. rewrite Hlast.
    split; [rewrite EL; destruct (batch_windows cw res b); [congruence|discriminate]|].
    split; [rewrite EL; exact Bsort|]. split; [|exact IHc].
    destruct prev as [p|]; [|exact I].
    rewrite EL, Forall_map. rewrite Forall_forall in Bok |- *. intros q Hq.
    destruct (Bok q Hq) as (Hqne & _ & A). destruct (snd q) as [|s l] eqn:Es; [congruence|].
    apply Forall_cons_iff in A as [(_ & Hsw & _) _].
    assert (In s b) by (rewrite <- Bcat; eapply in_concat_map_snd; [exact Hq|rewrite Es; left; reflexivity]).
    cbn [concat] in Hprev. apply Forall_app in Hprev as [Hp _]. rewrite Forall_forall in Hp.
    specialize (Hp s H). lia.
  - constructor; [split; assumption|exact IHl].
Qed.

Lemma sorted_strictly_inc l : StronglySorted Z.lt l -> strictly_inc l = true.
Proof.
  induction 1 as [|a l _ IH Ha]; [reflexivity|]. destruct l as [|b l']; [reflexivity|].
  change (strictly_inc (a :: b :: l')) with ((a <? b) && strictly_inc (b :: l')).
  apply Forall_cons_iff in Ha as [Hab _]. rewrite IH.
  replace (a <? b) with true by (symmetry; apply Z.ltb_lt; exact Hab). reflexivity.
Qed.

Lemma sorted_hd_le l : StronglySorted Z.lt l -> forall x, In x l -> hd 0 l <= x.
Proof.
  intros Hs x Hx. destruct l as [|a l]; [contradiction|]. cbn [hd].
  apply StronglySorted_inv in Hs as [_ Ha]. destruct Hx as [<-|Hx]; [lia|].
  rewrite Forall_forall in Ha. specialize (Ha _ Hx). lia.
Qed.

Lemma float_batch_bounds res b : 0 < res -> good_batch b ->
  Forall (fun s : Z * Z => fst s <= max_int64) b ->
  labels res b <> [] -> StronglySorted Z.lt (labels res b) ->
  Forall (fun w => 0 <= w <= last_t b) (labels res b) ->
  k_mint (float_batch cw res b) = hd 0 (labels res b) /\
  k_maxt (float_batch cw res b) = last (labels res b) 0.
Proof.
  intros Hr Hb Hmax Hne Hs Hrange. unfold labels in *. unfold float_batch.
  destruct (downsample_batch cw res b) as [outs lastT]. cbn [fst k_mint k_maxt] in *.
  assert (Hlt : last_t b <= max_int64).
  { destruct Hb as [Hbne _]. rewrite Forall_forall in Hmax. apply (Hmax _ (last_in b (0, 0) Hbne)). }
  split.
  - apply fold_mint_sorted; [exact Hs|exact Hne|].
    destruct (map fst outs) as [|w l]; [congruence|]. apply Forall_cons_iff in Hrange as [? _]. cbn. lia.
  - apply fold_maxt_sorted; [exact Hs|exact Hne|].
    rewrite Forall_forall in Hrange. pose proof (Hrange _ (last_in _ 0 Hne)). unfold min_int64. lia.
Qed.

(* clause 3: chunks are time-ordered and non-overlapping *)
Lemma chunks_spec_batches res : 0 < res -> forall batches prev,
  Forall good_batch batches ->
  Forall (fun b => Forall (fun s : Z * Z => fst s <= max_int64) b) batches ->
  ochain prev (map (labels res) batches) ->
  Forall (fun b => last (labels res b) 0 = last_t b /\ Forall (fun w => 0 <= w <= last_t b) (labels res b)) batches ->
  chunks_spec prev (map (float_batch cw res) batches).
Proof.
  intros Hr. induction batches as [|b rest IH]; intros prev Hg Hmax Hch Hl; [exact I|].
  apply Forall_cons_iff in Hg as [Hb Hg]. apply Forall_cons_iff in Hmax as [Hmb Hmax].
  apply Forall_cons_iff in Hl as [[Hlast Hrange] Hl].
  cbn [map ochain] in Hch. destruct Hch as (Hne & Hs & Hp & Hch).
  destruct (float_batch_bounds res b Hr Hb Hmb Hne Hs Hrange) as [Emin Emax].
  cbn [map chunks_spec]. split; [|split].
  - destruct prev as [p|]; [|exact I]. rewrite Emin.
    destruct (labels res b) as [|w l]; [congruence|]. apply Forall_cons_iff in Hp as [? _]. cbn. lia.
  - exists (map row_of (fst (downsample_batch cw res b))).
    split; [apply chunk_rows_float_batch|].
    assert (EM : map fst (map row_of (fst (downsample_batch cw res b))) = labels res b)
      by (rewrite map_map; reflexivity).
    rewrite EM. split; [|split; [exact Hs|split; assumption]].
    intro E. apply Hne. unfold labels. apply map_eq_nil in E. rewrite E. reflexivity.
  - rewrite Emax. apply IH; assumption.
Qed.

Lemma chunks_ordered_exact res nc data :
  valid_raw res data ->
  exists out, downsample_raw_m res nc data = Some out /\ chunks_spec None out.
Proof.
  intros Hv. destruct (raw_structure res nc data Hv) as (batches & E & Hcat & Hgood & Hsep).
  exists (map (float_batch cw res) batches). split; [exact E|].
  destruct Hv as (Hr & _ & Hb).
  destruct (labels_chain res Hr batches None Hgood Hsep I) as [Hc Hl].
  apply chunks_spec_batches; try assumption.
  assert (Hall : Forall (fun s : Z * Z => fst s <= max_int64) (concat batches)).
  { rewrite Hcat. apply (keep_nonnan_forall (fun x => x <= max_int64)).
    eapply Forall_impl; [|exact Hb]. intros s Hs; cbv beta in Hs. lia. }
  clear - Hall. induction batches as [|b rest IH]; [constructor|].
  cbn [concat] in Hall. apply Forall_app in Hall as [? ?]. constructor; [assumption|apply IH; assumption].
Qed.

(* ---- clause 4: read-back through the querier's chunkSeriesIterator ---- *)

Lemma drop_le_all b (c : list (Z * Z)) : Forall (fun s => b < fst s) c -> drop_le b c = c.
Proof.
  destruct c as [|s c]; [reflexivity|]. intros H. apply Forall_cons_iff in H as [H _]. cbn [drop_le].
  replace (fst s <=? b) with false by (symmetry; apply Z.leb_gt; exact H). reflexivity.
Qed.

Lemma readback_concat : forall (ls : list (list (Z * Z))) prev,
  ochain prev (map (map fst) ls) -> readback_from prev ls = concat ls.
Proof.
  induction ls as [|c r IH]; intros prev H; [reflexivity|].
  cbn [map ochain] in H. destruct H as (Hne & _ & Hp & Hch).
  cbn [readback_from concat].
  assert (Ec : match prev with Some b => drop_le b c | None => c end = c).
  { destruct prev as [b|]; [|reflexivity]. apply drop_le_all. rewrite Forall_map in Hp. exact Hp. }
  rewrite Ec. destruct c as [|s c']; [cbn in Hne; congruence|].
  f_equal. apply IH.
  change 0 with (fst (0, 0)) in Hch. rewrite last_map in Hch. exact Hch.
Qed.

Lemma readbacks_concat res : 0 < res -> forall batches,
  ochain None (map (labels res) batches) ->
  let out := map (float_batch cw res) batches in
  readbacks out =
    [ concat (map (fun c => olist (k_count c)) out); concat (map (fun c => olist (k_sum c)) out);
      concat (map (fun c => olist (k_min c)) out); concat (map (fun c => olist (k_max c)) out) ].
Proof.
  intros Hr batches Hch out.
  change (readbacks out) with
    [ readback (map (fun c => olist (k_count c)) out); readback (map (fun c => olist (k_sum c)) out);
      readback (map (fun c => olist (k_min c)) out); readback (map (fun c => olist (k_max c)) out) ].
  unfold readback.
  assert (L : forall f : achunk -> option (list (Z * Z)),
             (forall b, map fst (olist (f (float_batch cw res b))) = labels res b) ->
             readback_from None (map (fun c => olist (f c)) out) = concat (map (fun c => olist (f c)) out)).
  { intros f Hf. apply readback_concat. unfold out. rewrite !map_map.
    erewrite map_ext; [exact Hch|]. intros b. cbv beta. apply Hf. }
  assert (P : forall (g : fagg -> Z) outs, map fst (proj g outs) = map fst outs).
  { intros g outs. unfold proj. rewrite map_map. reflexivity. }
  rewrite !L; [reflexivity| | | |];
    intros b; unfold labels, float_batch; destruct (downsample_batch cw res b) as [outs lt];
    cbn [k_count k_sum k_min k_max olist fst]; apply P.
Qed.

(* ---- the boolean predicate of the check holds of the model's output ---- *)

Lemma samples_eqb_refl l : samples_eqb l l = true.
Proof.
  unfold samples_eqb. induction l as [|[t v] l IH]; [reflexivity|].
  cbn [list_eqb]. unfold sample_eqb at 1. cbn [fst snd]. rewrite !Z.eqb_refl, IH. reflexivity.
Qed.

Lemma keyed_filter res c : forall d : list (Z * Z),
  map snd (filter (fun p : Z * Z => fst p =? c) (keyed res d)) =
  map snd (filter (fun s : Z * Z => cw (fst s) res =? c) d).
Proof.
  induction d as [|s d IH]; [reflexivity|]. unfold keyed in *. cbn [map filter fst snd].
  destruct (cw (fst s) res =? c); cbn [map snd]; rewrite IH; reflexivity.
Qed.

Lemma row_ok_of_spec res d r : row_spec res d r -> row_ok res (keyed res d) r = true.
Proof.
  destruct r as [w [[[cv sv] mnv] mxv]]. unfold row_spec, row_ok, window_values. cbv zeta.
  rewrite keyed_filter.
  intros (Hne & -> & -> & Hmn & Hmx). rewrite Hmn, Hmx. cbn [option_eqb].
  rewrite !Z.eqb_refl.
  destruct (map snd (filter (fun s : Z * Z => cw (fst s) res =? cw w res) d)); [congruence|reflexivity].
Qed.

Lemma totals_ok_of_spec d rows : totals_spec d rows -> totals_ok d rows = true.
Proof.
  unfold totals_spec, totals_ok. intros (-> & -> & -> & ->). rewrite map_length, !Z.eqb_refl.
  cbn [andb].
  destruct (min_list (map snd d)), (max_list (map snd d)); cbn [option_eqb]; rewrite ?Z.eqb_refl; reflexivity.
Qed.

Lemma sorted_le_last_Z l : StronglySorted Z.lt l -> forall x, In x l -> x <= last l 0.
Proof.
  induction l as [|a l IHl]; intros Hs x Hx; [contradiction|].
  apply StronglySorted_inv in Hs as [Hs Ha]. destruct l as [|c l'].
  - destruct Hx as [<-|[]]. cbn. lia.
  - change (last (a :: c :: l') 0) with (last (c :: l') 0).
    destruct Hx as [<-|Hx]; [|apply IHl; assumption].
    rewrite Forall_forall in Ha. pose proof (Ha _ (last_in (c :: l') 0 ltac:(discriminate))). lia.
Qed.

Lemma chunks_ordered_of_spec : forall out prev, chunks_spec prev out -> chunks_ordered prev out = true.
Proof.
  induction out as [|k r IH]; intros prev H; [reflexivity|].
  cbn [chunks_spec] in H. destruct H as (Hp & (rows & Er & Hne & Hs & Emin & Emax) & Hr).
  cbn [chunks_ordered]. rewrite Er, (IH _ Hr).
  assert (Hne' : map fst rows <> []) by (intro E; apply map_eq_nil in E; exact (Hne E)).
  assert (Hhl : k_mint k <= k_maxt k).
  { rewrite Emin, Emax. apply sorted_le_last_Z; [exact Hs|].
    destruct (map fst rows); [congruence|left; reflexivity]. }
  repeat (apply andb_true_iff; split).
  - apply Z.leb_le. exact Hhl.
  - destruct prev as [p|]; [apply Z.ltb_lt; exact Hp|reflexivity].
  - apply sorted_strictly_inc. exact Hs.
  - apply forallb_forall. intros x Hx. apply (in_map fst) in Hx.
    rewrite Emin, Emax. apply andb_true_iff. split; apply Z.leb_le;
      [apply sorted_hd_le; assumption|apply sorted_le_last_Z; assumption].
  - destruct rows as [|r0 rs]; [exfalso; apply Hne; reflexivity|reflexivity].
  - reflexivity.
Qed.

Lemma pred_holds res nc data :
  valid_input res data = true ->
  exists out, downsample_raw_m res nc data = Some out /\
    pred_ok (CRaw res nc data out (readbacks out)) = true.
Proof.
  intros Hvi. pose proof (valid_input_valid _ _ Hvi) as Hv.
  destruct (raw_structure res nc data Hv) as (batches & E & Hcat & Hgood & Hsep).
  destruct (windows_exact res nc data Hv) as (out1 & rows1 & E1 & R1 & Hrows & Hsort).
  destruct (totals_exact res nc data Hv) as (out2 & rows2 & E2 & R2 & Htot).
  destruct (chunks_ordered_exact res nc data Hv) as (out3 & E3 & Hch).
  set (out := map (float_batch cw res) batches) in *.
  rewrite E in E1, E2, E3. injection E1 as <-. injection E2 as <-. injection E3 as <-.
  rewrite R1 in R2. injection R2 as <-.
  exists out. split; [exact E|].
  unfold pred_ok. rewrite Hvi, R1.
  assert (A1 : forallb (row_ok res (keyed res (keep_nonnan data))) rows1 = true).
  { apply forallb_forall. intros r Hr. apply row_ok_of_spec. rewrite Forall_forall in Hrows. apply Hrows. exact Hr. }
  rewrite A1, (sorted_strictly_inc _ Hsort), (totals_ok_of_spec _ _ Htot), (chunks_ordered_of_spec _ _ Hch).
  cbn [andb]. unfold readback_ok.
  destruct Hv as (Hr & _ & _).
  destruct (labels_chain res Hr batches None Hgood Hsep I) as [Hc _].
  pose proof (readbacks_concat res Hr batches Hc) as RB. cbv zeta in RB. subst out. rewrite RB.
  cbn [list_eqb]. rewrite !samples_eqb_refl. reflexivity.
Qed.

(* clause 4 on its own: the querier's chunkSeriesIterator returns the concatenated rows *)
Lemma readback_exact res nc data :
  valid_raw res data ->
  exists out, downsample_raw_m res nc data = Some out /\
    readbacks out =
      [ concat (map (fun c => olist (k_count c)) out); concat (map (fun c => olist (k_sum c)) out);
        concat (map (fun c => olist (k_min c)) out); concat (map (fun c => olist (k_max c)) out) ].
Proof.
  intros Hv. destruct (raw_structure res nc data Hv) as (batches & E & Hcat & Hgood & Hsep).
  exists (map (float_batch cw res) batches). split; [exact E|].
  destruct Hv as (Hr & _ & _).
  destruct (labels_chain res Hr batches None Hgood Hsep I) as [Hc _].
  exact (readbacks_concat res Hr batches Hc).
Qed.

(* ---- tie T for the batch sizes: the formulas written in the model are the ones in the
   Go source (regenerated into Gen on every run) ---- *)

Lemma raw_batch_size_model len nc :
  Z.to_nat (raw_batch_size (Z.of_nat len) (Z.of_nat nc)) = (len / nc + 1)%nat.
Proof.
  unfold raw_batch_size. cbv zeta beta. destruct nc as [|nc'].
  - change (Z.of_nat 0) with 0. destruct (Z.of_nat len); reflexivity.
  - rewrite Z.quot_div_nonneg by lia. rewrite <- Nat2Z.inj_div.
    rewrite Z2Nat.inj_add by lia. rewrite Nat2Z.id. reflexivity.
Qed.



(* tie T: the aggregates the querier selects for the four functions *)
Lemma aggr_selection :
  map lookup_aggr read_funcs = [[1]; [2]; [3]; [4]].
Proof. vm_compute. reflexivity. Qed.

(* ---- negative timestamps: outside the domain, and why ---- *)

(* downsampleBatch uses nextT = -1 for "no window yet".  A sample at t <= -1 does not open a
   window (t > nextT fails) and is added to the zero-valued aggregator; the window that ends
   at -1 is indistinguishable from "no window".  Two witnesses, resolution 10: *)

(* (a) a negative sample followed by a non-negative one: the negative sample is lost *)
Lemma negative_lost :
  let data := [(-10, Some 5); (0, Some 7)] in
  StronglySorted Z.lt (map fst data) /\
  exists out rows, downsample_raw_m 10 1 data = Some out /\ all_rows out = Some rows /\
    rows = [(0, (1, 7, 7, 7))] /\ ~ totals_spec (keep_nonnan data) rows.
Proof.
  cbv zeta. split; [repeat constructor|].
  eexists. eexists. split; [vm_compute; reflexivity|]. split; [vm_compute; reflexivity|].
  split; [reflexivity|]. unfold totals_spec. cbn. intros (H & _). discriminate.
Qed.

(* (b) only negative samples: windows [-30,-21], [-20,-11], [-10,-1] are merged into one row
   at -1 whose min is 0, the zero value of the never-reset aggregator, not the true min 1 *)
Lemma negative_merged :
  let data := [(-25, Some 1); (-13, Some 2); (-1, Some 4)] in
  StronglySorted Z.lt (map fst data) /\
  exists out rows, downsample_raw_m 10 1 data = Some out /\ all_rows out = Some rows /\
    rows = [(-1, (3, 7, 0, 4))] /\ ~ totals_spec (keep_nonnan data) rows.
Proof.
  cbv zeta. split; [repeat constructor|].
  eexists. eexists. split; [vm_compute; reflexivity|]. split; [vm_compute; reflexivity|].
  split; [reflexivity|]. unfold totals_spec. cbn. intros (_ & _ & H & _). discriminate.
Qed.

(* ---- read-back with failing chunk iterators ---- *)

(* an error in any chunk is reported *)
Lemma read_f_error_reported : forall chunks bound,
  Exists (fun c : list (Z * Z) * bool => snd c = true) chunks -> snd (read_f chunks bound) = true.
Proof.
  induction chunks as [|[rem err] rest IH]; intros bound H; [inversion H|].
  cbn [read_f]. destruct (read_chunk rem bound 0) as [[out b] t].
  destruct err; [reflexivity|].
  apply Exists_cons in H as [H|H]; [cbn in H; discriminate|].
  destruct rest as [|c rest']; [inversion H|].
  specialize (IH (Some match b with Some x => Z.max x (t + 1) | None => t + 1 end) H).
  destruct (read_f (c :: rest') _) as [out' e]. exact IH.
Qed.

(* ... and nothing of the chunks after the failing one is yielded *)
Lemma read_f_stops_at_error : forall pre l post bound,
  Forall (fun c : list (Z * Z) * bool => snd c = false) pre ->
  read_f (pre ++ (l, true) :: post) bound = read_f (pre ++ [(l, true)]) bound.
Proof.
  induction pre as [|[rem err] pre IH]; intros l post bound Hp.
  - cbn [app read_f]. destruct (read_chunk l bound 0) as [[out b] t]. reflexivity.
  - apply Forall_cons_iff in Hp as [He Hp]. cbn in He. subst err.
    cbn [app read_f]. destruct (read_chunk rem bound 0) as [[out b] t].
    assert (N1 : exists c r, pre ++ (l, true) :: post = c :: r) by (destruct pre; cbn; eauto).
    assert (N2 : exists c r, pre ++ [(l, true)] = c :: r) by (destruct pre; cbn; eauto).
    destruct N1 as (c1 & r1 & E1). destruct N2 as (c2 & r2 & E2).
    rewrite E1, E2. rewrite <- E1, <- E2. rewrite (IH l post _ Hp). reflexivity.
Qed.

Lemma read_chunk_all : forall (rem : list (Z * Z)) bound c,
  rem <> [] -> (match bound with Some x => Forall (fun s => x <= fst s) rem | None => True end) ->
  read_chunk rem bound c = (rem, None, fst (last rem (0, 0))).
Proof.
  assert (Plain : forall (rem : list (Z * Z)) c, read_chunk rem None c =
            (rem, None, match rem with [] => c | _ => fst (last rem (0, 0)) end)).
  { induction rem as [|s r IH]; intros c; [reflexivity|]. cbn [read_chunk]. rewrite IH.
    destruct r; reflexivity. }
  intros rem bound c Hne Hb. destruct rem as [|s r]; [congruence|]. cbn [read_chunk].
  assert (Hs : match bound with Some x => fst s <? x | None => false end = false).
  { destruct bound as [x|]; [|reflexivity]. apply Forall_cons_iff in Hb as [H _]. apply Z.ltb_ge. exact H. }
  rewrite Hs, Plain. destruct r; reflexivity.
Qed.

(* without errors, on time-ordered chunks, the read-back is the concatenation *)
Lemma read_f_no_error : forall (ls : list (list (Z * Z))) prev bound,
  ochain prev (map (map fst) ls) ->
  match bound, prev with
  | Some x, Some p => x <= p + 1
  | Some _, None => False
  | None, _ => True
  end ->
  read_f (map (fun l => (l, false)) ls) bound = (concat ls, false).
Proof.
  induction ls as [|l r IH]; intros prev bound Hc Hb; [reflexivity|].
  cbn [map ochain] in Hc. destruct Hc as (Hne & Hs & Hp & Hc).
  assert (Hlne : l <> []) by (intro E; rewrite E in Hne; cbn in Hne; congruence).
  cbn [map read_f concat].
  rewrite read_chunk_all; [|exact Hlne|].
  2:{ destruct bound as [x|]; [|exact I]. destruct prev as [p|]; [|contradiction].
      rewrite Forall_map in Hp. eapply Forall_impl; [|exact Hp]. intros s H; cbv beta in H. lia. }
  destruct r as [|l' r']; [cbn; rewrite app_nil_r; reflexivity|].
  change (map (fun l0 : list (Z * Z) => (l0, false)) (l' :: r')) with
         ((l', false) :: map (fun l0 : list (Z * Z) => (l0, false)) r').
  change ((l', false) :: map (fun l0 : list (Z * Z) => (l0, false)) r') with
         (map (fun l0 : list (Z * Z) => (l0, false)) (l' :: r')).
  change 0 with (fst (0, 0)) in Hc. rewrite last_map in Hc.
  rewrite (IH (Some (fst (last l (0, 0)))) (Some (fst (last l (0, 0)) + 1)) Hc (Z.le_refl _)).
  reflexivity.
Qed.

Lemma strictly_inc_sorted l : strictly_inc l = true -> StronglySorted Z.lt l.
Proof.
  induction l as [|a l IH]; intros H; [constructor|].
  assert (Hl : strictly_inc l = true /\ Forall (Z.lt a) l).
  { clear IH. revert a H. induction l as [|b l IHl]; intros a H; [split; [reflexivity|constructor]|].
    change (strictly_inc (a :: b :: l)) with ((a <? b) && strictly_inc (b :: l)) in H.
    apply andb_true_iff in H as [Hab H]. apply Z.ltb_lt in Hab.
    split; [exact H|]. constructor; [exact Hab|]. destruct (IHl b H) as [_ F].
    eapply Forall_impl; [|exact F]. intros x Hx; cbv beta in Hx. lia. }
  destruct Hl as [Hl F]. constructor; [apply IH; exact Hl|exact F].
Qed.

Lemma chain_ok_ochain : forall ls prev, chain_ok prev ls = true -> ochain prev (map (map fst) ls).
Proof.
  induction ls as [|l r IH]; intros prev H; [exact I|].
  cbn [chain_ok] in H. apply andb_true_iff in H as [H Hr]. apply andb_true_iff in H as [H Hp].
  apply andb_true_iff in H as [Hne Hs]. cbn [map ochain].
  split; [destruct l; [discriminate|discriminate]|]. split; [apply strictly_inc_sorted; exact Hs|].
  split.
  - destruct prev as [p|]; [|exact I]. rewrite Forall_map. rewrite forallb_forall in Hp.
    rewrite Forall_forall. intros s Hin. apply Z.ltb_lt. apply Hp. exact Hin.
  - change 0 with (fst (0, 0)). rewrite last_map. apply IH. exact Hr.
Qed.

(* the fault clause of the check's predicate holds of the model for EVERY list of chunk
   iterators: an error of any of them is reported; if none fails (and they are time-ordered)
   exactly their samples are read, without error *)
Lemma fault_pred : forall chunks orig,
  pred_ok (CFault chunks orig (fst (read_faulty chunks)) (snd (read_faulty chunks))) = true.
Proof.
  intros chunks orig. unfold pred_ok.
  destruct (existsb snd chunks) eqn:Ex.
  - apply existsb_exists in Ex as (c & Hin & Hc).
    assert (He : Exists (fun c : list (Z * Z) * bool => snd c = true) chunks)
      by (apply Exists_exists; exists c; split; assumption).
    unfold read_faulty. destruct chunks as [|c0 r]; [inversion He|].
    apply (read_f_error_reported _ None He).
  - destruct (chain_ok None (map fst chunks) && negb (Nat.eqb (length chunks) 0)) eqn:Ec; [|reflexivity].
    apply andb_true_iff in Ec as [Hc Hne].
    assert (Hall : chunks = map (fun l => (l, false)) (map fst chunks)).
    { clear Hc Hne. induction chunks as [|[l e] r IH]; [reflexivity|].
      cbn [existsb snd] in Ex. apply orb_false_iff in Ex as [-> Ex]. cbn [map fst]. rewrite <- (IH Ex). reflexivity. }
    destruct chunks as [|c0 r]; [cbn in Hne; discriminate|].
    unfold read_faulty. rewrite Hall.
    set (ls := map fst (c0 :: r)) in *.
    assert (Hls : ls <> []) by (unfold ls; discriminate).
    destruct ls as [|l0 lr] eqn:El; [congruence|].
    change (map (fun l : list (Z * Z) => (l, false)) (l0 :: lr)) with
           ((l0, false) :: map (fun l : list (Z * Z) => (l, false)) lr).
    change ((l0, false) :: map (fun l : list (Z * Z) => (l, false)) lr) with
           (map (fun l : list (Z * Z) => (l, false)) (l0 :: lr)).
    rewrite (read_f_no_error (l0 :: lr) None None (chain_ok_ochain _ _ Hc) I). cbn [fst snd negb andb].
    rewrite map_map. cbn [fst]. rewrite map_id. apply samples_eqb_refl.
Qed.

(* for the aggregates DownsampleRaw produces: whichever sub-chunk iterators fail (each after
   yielding anything), the read-back is the aggregate's values or an error *)
Lemma raw_fault res nc data (f : achunk -> option (list (Z * Z))) :
  (f = k_count \/ f = k_sum \/ f = k_min \/ f = k_max) ->
  valid_raw res data ->
  exists out, downsample_raw_m res nc data = Some out /\
    forall chunks,
      Forall2 (fun o (c : list (Z * Z) * bool) => snd c = true \/ c = (o, false))
              (map (fun c => olist (f c)) out) chunks ->
      snd (read_faulty chunks) = true \/
      fst (read_faulty chunks) = concat (map (fun c => olist (f c)) out).
Proof.
  intros Hf Hv. destruct (raw_structure res nc data Hv) as (batches & E & Hcat & Hgood & Hsep).
  exists (map (float_batch cw res) batches). split; [exact E|]. intros chunks HF.
  destruct Hv as (Hr & _ & _).
  destruct (labels_chain res Hr batches None Hgood Hsep I) as [Hc _].
  set (origs := map (fun c => olist (f c)) (map (float_batch cw res) batches)) in *.
  assert (Hoc : ochain None (map (map fst) origs)).
  { unfold origs. rewrite !map_map. erewrite map_ext; [exact Hc|]. intros b. cbv beta.
    assert (P : forall (g : fagg -> Z) outs, map fst (proj g outs) = map fst outs)
      by (intros g outs; unfold proj; rewrite map_map; reflexivity).
    unfold labels, float_batch. destruct (downsample_batch cw res b) as [outs lt].
    destruct Hf as [->|[->|[->| ->]]]; cbn [k_count k_sum k_min k_max olist fst]; apply P. }
  destruct (Exists_dec (fun c : list (Z * Z) * bool => snd c = true) chunks
              ltac:(intros [l e]; destruct e; [left; reflexivity|right; discriminate])) as [He|Hn].
  - left. unfold read_faulty. destruct chunks as [|c r]; [inversion He|].
    apply (read_f_error_reported _ None He).
  - right. assert (Hall : chunks = map (fun l => (l, false)) origs).
    { clear Hoc. induction HF as [|o c os cs Hoc' _ IH]; [reflexivity|].
      assert (Hn' : ~ Exists (fun c : list (Z * Z) * bool => snd c = true) cs)
        by (intro X; apply Hn; right; exact X).
      destruct Hoc' as [Ht| ->]; [exfalso; apply Hn; left; exact Ht|].
      cbn [map]. rewrite (IH Hn'). reflexivity. }
    rewrite Hall. unfold read_faulty. destruct origs as [|o r]; [reflexivity|].
    change (map (fun l : list (Z * Z) => (l, false)) (o :: r)) with
           ((o, false) :: map (fun l : list (Z * Z) => (l, false)) r).
    change ((o, false) :: map (fun l : list (Z * Z) => (l, false)) r) with
           (map (fun l : list (Z * Z) => (l, false)) (o :: r)).
    rewrite (read_f_no_error (o :: r) None None Hoc I). reflexivity.
Qed.

(* tie T: the comparison of downsampleRawLoop's batch-extension loop in the Go source is the
   inclusive `<=` the model's take_le uses (curW is the window's last millisecond) *)
Lemma ext_take_model : forall t w, ext_take t w = (t <=? w).
Proof. intros t w. reflexivity. Qed.
