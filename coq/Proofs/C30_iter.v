(* C30 — the model's plan/apply history satisfies the boolean predicate that the
   check evaluates on the real planner's histories (case CIter). *)
From Coq Require Import ZArith List Bool Lia Arith Permutation.
Import ListNotations.
From Verif Require Import Lib.Corr Lib.Compact_List Gen.C30 Model.C30 Proofs.C30 Proofs.C30_regime.
Open Scope Z_scope.

(* ids distinct and below the next fresh id *)
Definition fresh_ok (l : list meta) (newid : Z) : Prop :=
  NoDup (map bid l) /\ Forall (fun m => bid m < newid) l.

Lemma fresh_apply l p newid : fresh_ok l newid -> fresh_ok (apply_plan l p newid) (newid + 1).
Proof.
  intros (Hn & Hlt). unfold apply_plan.
  set (l1 := filter (fun m => negb (in_plan p m)) l).
  assert (Hn1 : NoDup (map bid l1)) by (eapply NoDup_sublist; [apply sublist_map, sublist_filter | exact Hn]).
  assert (Hlt1 : Forall (fun m => bid m < newid) l1) by (eapply sublist_Forall; [apply sublist_filter | exact Hlt]).
  split.
  - eapply Permutation_NoDup; [apply Permutation_map, Permutation_sym, insert_perm|].
    simpl. constructor; auto. intros Hin. apply in_map_iff in Hin. destruct Hin as (x & E & Hx).
    rewrite Forall_forall in Hlt1. specialize (Hlt1 x Hx). lia.
  - apply Forall_forall. intros x Hx. apply insert_In in Hx. destruct Hx as [->|Hx]; simpl; [lia|].
    rewrite Forall_forall in Hlt1. specialize (Hlt1 x Hx). lia.
Qed.

Lemma sorted_apply l p newid : sorted_mint l -> sorted_mint (apply_plan l p newid).
Proof.
  intros Hs. unfold apply_plan. apply insert_sorted. eapply pairwise_sublist; [apply sublist_filter | exact Hs].
Qed.

Lemma lookup_plan ranges marks l p : NoDup (map bid l) -> plan ranges marks l = Some p ->
  lookup_all l (map bid p) = Some p.
Proof.
  intros Hn Hp. apply lookup_all_sublist; auto. intros m Hm. eapply sublist_In; [eapply plan_sublist; eauto | exact Hm].
Qed.

Lemma iterate_replay ranges marks : positive_ranges ranges ->
  forall n l newid h fin, sorted_mint l -> fresh_ok l newid ->
  iterate n ranges marks l newid = Some (h, fin) ->
  replay_pred ranges marks l newid h = true /\ replay_fin l newid h = Some fin.
Proof.
  intros Hr. induction n as [|n IH]; intros l newid h fin Hs Hf H; simpl in H; [discriminate|].
  destruct (plan ranges marks l) as [p|] eqn:Hp; [|discriminate].
  destruct p as [|a p'].
  - inversion H; subst. simpl. split; auto.
    pose proof (plan_nil_disjoint _ _ _ Hp) as Hd. apply select_overlapping_nil in Hd. now rewrite Hd.
  - destruct (iterate n ranges marks (apply_plan l (a :: p') newid) (newid + 1)) as [[h' fin']|] eqn:Hit; [|discriminate].
    inversion H; subst. destruct Hf as [Hn Hlt].
    destruct (IH _ _ _ _ (sorted_apply l (a :: p') newid Hs) (fresh_apply l (a :: p') newid (conj Hn Hlt)) Hit) as [IH1 IH2].
    assert (Hlk : lookup_all l (bid a :: map bid p') = Some (a :: p')) by exact (lookup_plan _ _ _ _ Hn Hp).
    assert (Hpp : plan_pred ranges marks l (bid a :: map bid p') = true) by exact (plan_pred_holds _ _ _ _ Hr Hs Hn Hp).
    cbn [replay_pred replay_fin map]. rewrite Hlk, Hpp, IH1. auto.
Qed.

(* ---- reflection of the boolean window regime ------------------------------------------ *)

Lemma max_range_eq ranges : max_range ranges = maxr ranges.
Proof. reflexivity. Qed.

Lemma sorted_mint_b_spec l : sorted_mint_b l = true -> sorted_mint l.
Proof.
  unfold sorted_mint. induction l as [|a r IH]; simpl; auto.
  intros H. apply andb_true_iff in H. destruct H as [H1 H2]. split; auto.
  apply Forall_forall. intros x Hx. rewrite forallb_forall in H1. apply Z.leb_le, H1, Hx.
Qed.

Lemma in_max_window_spec R m : 0 < R -> (in_max_window R m = true <-> in_some_win R m).
Proof.
  intros HR. unfold in_max_window, in_some_win, inwin. rewrite Z.leb_le. split.
  - intros H. exists (mint m / R). split; auto. apply Z.mul_div_le; auto.
  - intros (k & H1 & H2). assert (k <= mint m / R) by (apply Z.div_le_lower_bound; lia). nia.
Qed.

Lemma win_regime_spec ranges l : ranges <> [] -> win_regime ranges l = true ->
  positive_ranges ranges /\ Forall (fun iv => (iv | maxr ranges)) ranges /\ Win ranges l.
Proof.
  intros Hne H. unfold win_regime in H. rewrite max_range_eq in H.
  apply andb_true_iff in H. destruct H as [H H4]. apply andb_true_iff in H. destruct H as [H H3].
  apply andb_true_iff in H. destruct H as [H1 H2].
  assert (Hp : positive_ranges ranges).
  { apply Forall_forall. intros iv Hiv. rewrite forallb_forall in H1. specialize (H1 iv Hiv).
    apply andb_true_iff in H1. destruct H1 as [H1 _]. now apply Z.ltb_lt. }
  split; auto. split.
  - apply Forall_forall. intros iv Hiv. rewrite forallb_forall in H1. specialize (H1 iv Hiv).
    apply andb_true_iff in H1. destruct H1 as [Hpos Hm]. apply Z.ltb_lt in Hpos. apply Z.eqb_eq in Hm.
    apply Z.mod_divide; auto. lia.
  - pose proof (maxr_pos ranges Hne Hp) as HR. repeat split.
    + now apply sorted_mint_b_spec.
    + apply Forall_forall. intros m Hm. rewrite forallb_forall in H3. apply Z.ltb_lt, H3, Hm.
    + apply Forall_forall. intros m Hm. rewrite forallb_forall in H4. apply in_max_window_spec; auto.
Qed.

Lemma iter_pred_ok ranges marks l newid :
  ranges <> [] -> positive_ranges ranges -> l <> [] -> wf l -> sorted_mint l -> fresh_ok l newid ->
  exists h fin, iterate (S (measure l)) ranges marks l newid = Some (h, fin) /\
    corr_ok (CIter ranges marks l newid h) = true /\ pred_ok (CIter ranges marks l newid h) = true.
Proof.
  intros Hne Hr Hl Hw Hs Hf.
  destruct (converges ranges marks l newid Hne Hl Hw) as (h & fin & Hit & Hfin & Hlen & _).
  exists h, fin. split; auto.
  destruct (iterate_replay ranges marks Hr _ _ _ _ _ Hs Hf Hit) as [Hrp Hrf]. split.
  - unfold corr_ok. rewrite Hit. apply list_eqb_spec; auto.
    intros x y. unfold ids_eqb. apply list_eqb_spec. intros; apply Z.eqb_eq.
  - unfold pred_ok. rewrite Hrp, Hrf. apply Nat.leb_le in Hlen. rewrite Hlen. cbn [andb].
    destruct (win_regime ranges l) eqn:Ewin; auto.
    destruct (win_regime_spec ranges l Hne Ewin) as (Hp & Hdiv & HW).
    assert (HWf : Win ranges fin).
    { eapply (iterate_invariant (Win ranges)); [|exact HW|exact Hit]. intros. eapply win_step; eauto. }
    destruct HWf as (_ & _ & Hwf). apply forallb_forall. intros m Hm. rewrite max_range_eq.
    apply in_max_window_spec; [apply maxr_pos; auto|]. rewrite Forall_forall in Hwf. auto.
Qed.
