(* C20 — the ring inside the multi-hashring built by the public NewMultiHashring:
   placement depends on the endpoint SET only, provided the constructor's final
   sort of m.nodes does not touch the ring's own endpoint slice (source fact). *)
From Coq Require Import ZArith List Bool Lia Arith Permutation.
Import ListNotations.
From Verif Require Import Lib.Corr Lib.Hashring_Ketama Lib.Hashring_KetamaFacts Lib.Hashring_RingFacts
  Lib.Hashring_Answers Lib.Hashring_AnswersFacts Lib.Hashring_Order Gen.C20 Model.C20 Proofs.C20.
Close Scope Z_scope.

(* tie T: every assignment to m.nodes in NewMultiHashring appends onto m.nodes itself *)
Lemma nodes_copied_true : nodes_copied = true.
Proof. reflexivity. Qed.

Lemma permute_nth (addrs : list Z) perm i : i < length perm ->
  nth i (permute (-1)%Z addrs perm) (-1)%Z = nth (nth i perm 0) addrs (-1)%Z.
Proof.
  intro Hi. unfold permute.
  rewrite (nth_indep _ (-1)%Z (nth 0 addrs (-1)%Z)) by (rewrite map_length; exact Hi).
  apply (map_nth (fun j => nth j addrs (-1)%Z) perm 0 i).
Qed.

Lemma multi_set_only addrs eps perm :
  Permutation perm (seq 0 (length eps)) ->
  NoDup (map s_hash (sections_of 0 eps)) ->
  forall rf v, sections_of 0 eps <> [] ->
  multi_getn_gen true (permute (-1)%Z addrs perm) (permute (0%Z, []) eps perm) rf v
  = multi_getn_gen true addrs eps rf v.
Proof.
  intros Hperm Hnd rf v Hne. unfold multi_getn_gen.
  rewrite <- (ketama_answers_perm eps perm Hperm Hnd rf v Hne). unfold dflt_ep.
  assert (Hne' : sections_of 0 (permute (0%Z, []) eps perm) <> []).
  { intro X. apply Hne. pose proof (sections_perm eps perm Hperm) as P.
    unfold dflt_ep in P. rewrite X in P. simpl in P. apply Permutation_nil in P. exact P. }
  destruct (ketama_answers (permute (0%Z, []) eps perm) rf v) as [a'|] eqn:A; simpl; [|reflexivity].
  f_equal. rewrite map_map. apply map_ext_in. intros i Hi.
  destruct (ketama_answers_distinct _ _ _ _ Hne' A) as [_ [_ Hlt]]. specialize (Hlt i Hi).
  unfold permute in Hlt at 1. rewrite map_length in Hlt.
  unfold ring_endpoint_gen. apply permute_nth. exact Hlt.
Qed.

(* if the sort did reorder the ring's slice, the order of the list would matter *)
Lemma aliased_order_dependent :
  exists addrs eps perm rf v,
    Permutation perm (seq 0 (length eps)) /\ NoDup (map s_hash (sections_of 0 eps)) /\
    multi_getn_gen false (permute (-1)%Z addrs perm) (permute (0%Z, []) eps perm) rf v
    <> multi_getn_gen false addrs eps rf v.
Proof.
  exists [0; 1]%Z, [(0, [5]); (0, [9])]%Z, [1; 0], 1, 6%Z.
  split; [apply perm_swap|]. split; [vm_compute; repeat constructor; simpl; intuition discriminate|].
  vm_compute. discriminate.
Qed.

(* ---- adding a node through the public constructor ---- *)

Lemma index_of_z_nth addrs : NoDup addrs -> forall i, i < length addrs ->
  index_of_z (nth i addrs (-1)%Z) addrs = i.
Proof.
  induction addrs as [|a r IH]; intros Hnd i Hi; simpl in Hi; [lia|].
  inversion Hnd as [|? ? Hn Hnd']; subst. destruct i as [|i]; simpl.
  - rewrite Z.eqb_refl. reflexivity.
  - destruct (Z.eqb_spec (nth i r (-1)%Z) a) as [E|E].
    + exfalso. apply Hn. rewrite <- E. apply nth_In. lia.
    + f_equal. apply IH; [exact Hnd'|lia].
Qed.

Lemma answered_pos_id addrs i : NoDup addrs -> i < length addrs -> answered_pos addrs i = i.
Proof.
  intros Hnd Hi. unfold answered_pos, ring_endpoint, ring_endpoint_gen. rewrite nodes_copied_true.
  apply index_of_z_nth; assumption.
Qed.

Lemma dedup_In : forall l seen x, In x (dedup seen l) -> In x l.
Proof. intros l seen x H. apply (proj2 (dedup_spec l seen) x H). Qed.

Lemma spec_answers_lt hs rf v x : In x (spec_answers (spec_ring hs) rf v) -> x < length hs.
Proof.
  unfold spec_answers. intro H. apply In_firstn in H. apply dedup_In in H.
  apply in_map_iff in H as [s [<- Hs]]. unfold rot_v in Hs.
  apply in_app_or in Hs. assert (Hin : In s (spec_ring hs)) by (destruct Hs as [Hs|Hs]; apply filter_In in Hs; tauto).
  unfold spec_ring in Hin. apply (proj1 (sort_sections_In _ _)) in Hin.
  apply sections_of_In in Hin as [B _]. unfold nozone in B. rewrite map_length in B. lia.
Qed.

Lemma map_answered_pos_id addrs hs rf v : NoDup addrs -> length addrs = length hs ->
  map (answered_pos addrs) (spec_answers (spec_ring hs) rf v) = spec_answers (spec_ring hs) rf v.
Proof.
  intros Hnd Hlen. rewrite <- (map_id (spec_answers (spec_ring hs) rf v)) at 2.
  apply map_ext_in. intros i Hi. apply answered_pos_id; [exact Hnd|]. rewrite Hlen. eapply spec_answers_lt; eauto.
Qed.

Lemma ins_len {A} p (e : A) l : length (ins p e l) = S (length l).
Proof.
  unfold ins. rewrite app_length. simpl. rewrite <- (firstn_skipn p l) at 3. rewrite app_length. lia.
Qed.

Lemma add_node_multi addrs a_new hs p e rf v :
  p <= length hs -> length addrs = length hs ->
  NoDup addrs -> NoDup (ins p a_new addrs) ->
  NoDup (map s_hash (sections_of 0 (nozone (ins p e hs)))) ->
  only_onto_new p
    (map (answered_pos addrs) (spec_answers (spec_ring hs) rf v))
    (map (answered_pos (ins p a_new addrs)) (spec_answers (spec_ring (ins p e hs)) rf v)) = true.
Proof.
  intros Hp Hlen Hnd Hnd' Hh.
  rewrite (map_answered_pos_id addrs hs rf v Hnd Hlen).
  rewrite (map_answered_pos_id (ins p a_new addrs) (ins p e hs) rf v Hnd') by (rewrite !ins_len, Hlen; reflexivity).
  apply add_node_only_onto_new; assumption.
Qed.
