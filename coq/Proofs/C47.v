(* C47 — lemmas about the model of Reloader.apply (Model/C47.v). *)
From Coq Require Import NArith ZArith List Bool Lia String.
Import ListNotations.
From Verif Require Import Lib.Corr Lib.Misc_Cmp Gen.C47 Model.C47.

(* ---- tie T: the reload decision of apply ---- *)
Definition decision_ok : bool :=
  existsb (fun e => String.eqb (fst e) "if"
     && String.eqb (snd e) "!r.forceReload && !cfgDirsChanged && bytes.Equal(r.lastCfgHash, cfgHash) && bytes.Equal(r.lastWatchedDirsHash, watchedDirsHash)")
    apply_decisions
  && existsb (fun e => String.eqb (fst e) "if" && String.eqb (snd e) "r.lastCfgDirFiles[i] != nil") apply_decisions.

Lemma decision_fact : decision_ok = true.
Proof. vm_compute. reflexivity. Qed.

(* ---- association lists ---- *)
Lemma str_cmp_eq_iff a b : str_cmp a b = Eq <-> a = b.
Proof. split; [apply str_cmp_eq | intro; subst; apply str_cmp_refl]. Qed.

Lemma lookup_upsert_same n c l : lookup n (upsert n c l) = Some c.
Proof.
  induction l as [|[n' c'] r IH]; simpl; [rewrite str_eqb_refl; reflexivity|].
  destruct (str_cmp n n') eqn:E; simpl.
  - rewrite str_eqb_refl. reflexivity.
  - rewrite str_eqb_refl. reflexivity.
  - assert (Hne : str_eqb n n' = false).
    { apply str_eqb_neq. intro; subst. rewrite str_cmp_refl in E. discriminate. }
    rewrite Hne. exact IH.
Qed.

Lemma lookup_upsert_other n m c l : n <> m -> lookup m (upsert n c l) = lookup m l.
Proof.
  intro Hne. assert (Hmn : str_eqb m n = false) by (apply str_eqb_neq; congruence).
  induction l as [|[n' c'] r IH]; simpl; [rewrite Hmn; reflexivity|].
  destruct (str_cmp n n') eqn:E; simpl.
  - apply str_cmp_eq in E. subst n'. rewrite Hmn. reflexivity.
  - rewrite Hmn. reflexivity.
  - destruct (str_eqb m n'); [reflexivity | exact IH].
Qed.

Lemma upsert_in n c l f : In f (upsert n c l) -> f = (n, c) \/ In f l.
Proof.
  induction l as [|[n' c'] r IH]; simpl; [intros [H|[]]; left; congruence|].
  destruct (str_cmp n n'); simpl.
  - intros [H|H]; [left; congruence | right; right; exact H].
  - intros [H|H]; [left; congruence | right; exact H].
  - intros [H|H]; [right; left; exact H|]. destruct (IH H) as [H'|H']; [left; exact H' | right; right; exact H'].
Qed.

Lemma lookup_filter_name (g : str -> bool) n l :
  g n = true -> lookup n (filter (fun f => g (fst f)) l) = lookup n l.
Proof.
  intro Hg. induction l as [|[n' c'] r IH]; simpl; [reflexivity|].
  destruct (g n') eqn:E; simpl.
  - destruct (str_eqb n n'); [reflexivity | exact IH].
  - destruct (str_eqb n n') eqn:E2; [|exact IH]. apply str_eqb_eq in E2. subst. congruence.
Qed.

Section A.
  Variable has_cfg : bool.
  Variable env : str -> option str.
  Variable tolerate : bool.

  Notation ex := (expand env tolerate).

  (* whatever the outcome: entries come from the old directory or were written now *)
  Lemma write_all_any fs : forall out od ok w,
    write_all env tolerate fs out = (od, ok, w) ->
    (forall f, In f od -> In f out \/ In (fst f) w)
    /\ (ok = true -> w = map fst fs).
  Proof.
    induction fs as [|[n c] r IH]; intros out od ok w H; simpl in H.
    - inversion H; subst. split; [auto | reflexivity].
    - destruct (ex c) as [e|] eqn:E.
      + destruct (write_all env tolerate r (upsert n e out)) as [[od1 ok1] w1] eqn:Ew. inversion H; subst.
        destruct (IH _ _ _ _ Ew) as [I1 I2]. split.
        * intros f Hf. destruct (I1 f Hf) as [H0|H0].
          -- apply upsert_in in H0 as [H0|H0]; [right; left; subst; reflexivity | left; exact H0].
          -- right. right. exact H0.
        * intro Hok. simpl. f_equal. apply I2. exact Hok.
      + inversion H; subst. split; [auto | discriminate].
  Qed.

  Lemma write_all_ok fs : forall out od w,
    write_all env tolerate fs out = (od, true, w) ->
    NoDup (map fst fs) ->
    (forall n c, In (n, c) fs -> lookup n od = ex c /\ ex c <> None)
    /\ (forall n, ~ In n (map fst fs) -> lookup n od = lookup n out).
  Proof.
    induction fs as [|[n c] r IH]; intros out od w H Hnd; simpl in H.
    - inversion H; subst. split; auto. intros n c [].
    - destruct (ex c) as [e|] eqn:E; [|discriminate].
      destruct (write_all env tolerate r (upsert n e out)) as [[od1 ok1] w1] eqn:Ew. inversion H; subst.
      inversion Hnd as [|? ? Hnin Hnd']; subst.
      destruct (IH _ _ _ Ew Hnd') as [I1 I2]. split.
      + intros n0 c0 [H0|H0].
        * inversion H0; subst. rewrite (I2 n0 Hnin). rewrite lookup_upsert_same. split; congruence.
        * apply I1. exact H0.
      + intros n0 Hn0. simpl in Hn0. rewrite I2 by tauto. apply lookup_upsert_other. intro; subst; apply Hn0; left; reflexivity.
  Qed.

  Definition cfg_hash (cfg : option str) : option str := if has_cfg then cfg else None.

  (* the recorded digests equal those of the given content *)
  Definition same_as_recorded (s : rst) (cfg : option str) (dir : files) : bool :=
    match last_dir s with Some d => files_eqb d dir | None => false end
    && option_eqb str_eqb (last_cfg s) (cfg_hash cfg).

  (* every output file is recorded in lastCfgDirFiles *)
  Definition synced (s : rst) : Prop :=
    match last_names s with
    | Some prev => forall f, In f (out_dir s) -> In (fst f) prev
    | None => out_dir s = []
    end.

  Lemma synced_init : synced init.
  Proof. reflexivity. Qed.

  (* first part of apply: the config file *)
  Definition step1 (s : rst) (cfg : option str) : option (option str * option str) :=
    if has_cfg then
      match cfg with
      | None => None
      | Some c => match ex c with Some e => Some (Some c, Some e) | None => None end
      end
    else Some (None, out_cfg s).

  (* with the repair, [synced] is an invariant of every apply call, failing or not *)
  Lemma apply_synced s cfg dir fails give_up :
    synced s -> synced (fst (apply has_cfg env tolerate s cfg dir fails give_up)).
  Proof.
    intro Hs. unfold apply, apply_gen. fold (step1 s cfg).
    destruct (step1 s cfg) as [[ch oc]|]; [|exact Hs].
    destruct (write_all env tolerate dir (out_dir s)) as [[od ok] w] eqn:Ew.
    destruct (write_all_any dir _ _ _ _ Ew) as [W1 W2].
    assert (Hod : forall f, In f od -> In (fst f) (match last_names s with Some p => p | None => [] end ++ w)).
    { intros f Hf. apply in_or_app. destruct (W1 f Hf) as [H0|H0]; [|right; exact H0]. left.
      unfold synced in Hs. destruct (last_names s) as [p|]; [apply Hs; exact H0 | rewrite Hs in H0; destruct H0]. }
    destruct ok; cbn [negb].
    - set (pv := match last_names s with Some p => p | None => [] end ++ w) in *.
      set (names := map fst dir).
      assert (Hf : forall f, In f (filter (fun f => negb (mem_str (fst f) pv && negb (mem_str (fst f) names))) od) -> In (fst f) names).
      { intros f Hf. apply filter_In in Hf as [Hf Hp]. specialize (Hod f Hf). apply mem_str_In in Hod.
        rewrite Hod in Hp. cbn in Hp. apply negb_true_iff in Hp. apply negb_false_iff in Hp. apply mem_str_In. exact Hp. }
      destruct (negb (force s) && _ && _); [exact Hf|]. destruct give_up; exact Hf.
    - exact Hod.
  Qed.

  Lemma apply_spec s cfg dir fails give_up s' r :
    apply has_cfg env tolerate s cfg dir fails give_up = (s', r) ->
    r_err r = false -> NoDup (map fst dir) ->
    (* outputs = inputs with the environment substituted *)
    (has_cfg = true -> exists c, cfg = Some c /\ out_cfg s' = ex c /\ ex c <> None)
    /\ (forall n c, In (n, c) dir -> lookup n (out_dir s') = ex c /\ ex c <> None)
    (* reload decision *)
    /\ r_tried r = (force s || negb (same_as_recorded s cfg dir))
    (* bookkeeping *)
    /\ (r_succeeded r = true -> r_tried r = true /\ give_up = false /\ force s' = false
                                /\ last_cfg s' = cfg_hash cfg /\ last_dir s' = Some dir /\ r_attempts r = S fails)
    /\ (r_succeeded r = false -> last_cfg s' = last_cfg s /\ last_dir s' = last_dir s
                                 /\ force s' = (force s || r_tried r))
    /\ (r_tried r = true -> r_succeeded r = negb give_up)
    /\ last_names s' = Some (map fst dir)
    (* outputs of vanished inputs are removed *)
    /\ (synced s -> forall f, In f (out_dir s') -> In (fst f) (map fst dir)).
  Proof.
    intros H Herr Hnd.
    assert (Hsync : synced s -> forall f, In f (out_dir s') -> In (fst f) (map fst dir)).
    { intros Hs f Hf. pose proof (apply_synced s cfg dir fails give_up Hs) as HS. rewrite H in HS. cbn [fst] in HS.
      revert HS Hf. unfold synced.
      assert (Hl : last_names s' = Some (map fst dir) \/ r_err r = true).
      { revert H. unfold apply, apply_gen. fold (step1 s cfg). destruct (step1 s cfg) as [[ch oc]|]; [|intro H; inversion H; subst; right; reflexivity].
        destruct (write_all env tolerate dir (out_dir s)) as [[od ok] w]. destruct ok; cbn [negb]; [|intro H; inversion H; subst; right; reflexivity].
        destruct (negb (force s) && _ && _); [intro H; inversion H; subst; left; reflexivity|].
        destruct give_up; intro H; inversion H; subst; left; reflexivity. }
      destruct Hl as [Hl|Hl]; [|congruence]. rewrite Hl. intros HS Hf. apply HS. exact Hf. }
    revert H. unfold apply, apply_gen. fold (step1 s cfg). intro H.
    assert (Hstep1 : exists ch oc, step1 s cfg = Some (ch, oc) /\ ch = cfg_hash cfg
      /\ (has_cfg = true -> exists c, cfg = Some c /\ oc = ex c /\ ex c <> None)).
    { destruct (step1 s cfg) as [[ch oc]|] eqn:E1; [|inversion H; subst; discriminate].
      exists ch, oc. split; [reflexivity|]. revert E1. unfold step1, cfg_hash. destruct has_cfg.
      - destruct cfg as [c|]; [|discriminate]. destruct (ex c) as [e|] eqn:E; [|discriminate].
        intro E1. inversion E1; subst. split; [reflexivity|]. intros _. exists c. repeat split; congruence.
      - intro E1. inversion E1; subst. split; [reflexivity | discriminate]. }
    destruct Hstep1 as [ch [oc [E1 [Ech Hcfg]]]]. rewrite E1 in H.
    destruct (write_all env tolerate dir (out_dir s)) as [[od ok] w] eqn:Ew.
    destruct ok; cbn [negb] in H; [|inversion H; subst; discriminate].
    destruct (write_all_ok dir _ _ _ Ew Hnd) as [W1 W2].
    set (names := map fst dir) in *.
    set (pv := match last_names s with Some p => p | None => [] end ++ w) in *.
    set (od' := filter (fun f => negb (mem_str (fst f) pv && negb (mem_str (fst f) names))) od) in *.
    assert (Hlook : forall n c, In (n, c) dir -> lookup n od' = ex c /\ ex c <> None).
    { intros n c Hin. assert (Hn : In n names) by (apply in_map_iff; exists (n, c); auto).
      destruct (W1 n c Hin) as [L1 L2]. split; [|exact L2]. unfold od'.
      rewrite (lookup_filter_name (fun x => negb (mem_str x pv && negb (mem_str x names)))); [exact L1|].
      apply mem_str_In in Hn. rewrite Hn. cbn. rewrite andb_false_r. reflexivity. }
    assert (Hsame : (negb (force s) && negb (match last_dir s with Some d => negb (files_eqb d dir) | None => true end)
                     && option_eqb str_eqb (last_cfg s) ch) = negb (force s || negb (same_as_recorded s cfg dir))).
    { unfold same_as_recorded. rewrite <- Ech. destruct (force s), (last_dir s) as [d|]; cbn; try reflexivity.
      destruct (files_eqb d dir), (option_eqb str_eqb (last_cfg s) ch); reflexivity. }
    rewrite Hsame in H.
    destruct (force s || negb (same_as_recorded s cfg dir)) eqn:Et; cbn [negb] in H.
    - destruct give_up; inversion H; subst; clear H;
        cbn [r_err r_tried r_succeeded r_attempts last_cfg last_dir last_names force out_cfg out_dir];
        (split; [exact Hcfg|]); (split; [exact Hlook|]); (split; [reflexivity|]);
        (split; [intro Hs; try discriminate; repeat split; reflexivity|]);
        (split; [intro Hs; try discriminate; repeat split; try reflexivity; rewrite orb_true_r; reflexivity|]);
        (split; [reflexivity|]); (split; [reflexivity | exact Hsync]).
    - inversion H; subst; clear H.
      cbn [r_err r_tried r_succeeded r_attempts last_cfg last_dir last_names force out_cfg out_dir].
      apply orb_false_iff in Et as [Ef _].
      (split; [exact Hcfg|]); (split; [exact Hlook|]); (split; [reflexivity|]).
      (split; [discriminate|]).
      (split; [intros _; repeat split; try reflexivity; rewrite Ef; reflexivity|]).
      (split; [discriminate|]). split; [reflexivity | exact Hsync].
  Qed.

  (* whether apply fails does not depend on the reloader state *)
  Lemma apply_err_state s1 s2 cfg dir f1 g1 f2 g2 :
    r_err (snd (apply has_cfg env tolerate s1 cfg dir f1 g1))
    = r_err (snd (apply has_cfg env tolerate s2 cfg dir f2 g2)).
  Proof.
    assert (G : forall s f g, r_err (snd (apply has_cfg env tolerate s cfg dir f g))
              = match step1 init cfg with None => true | Some _ => negb (snd (fst (write_all env tolerate dir []))) end).
    { intros s f g. unfold apply, apply_gen. fold (step1 s cfg).
      assert (E : match step1 s cfg with None => true | Some _ => false end = match step1 init cfg with None => true | Some _ => false end).
      { unfold step1. destruct has_cfg; [destruct cfg as [c|]; [destruct (ex c)|]|]; reflexivity. }
      assert (Ew : forall o1 o2, snd (fst (write_all env tolerate dir o1)) = snd (fst (write_all env tolerate dir o2))).
      { clear. induction dir as [|[n c] r IH]; intros o1 o2; simpl; [reflexivity|].
        destruct (expand env tolerate c); [|reflexivity].
        specialize (IH (upsert n s o1) (upsert n s o2)).
        destruct (write_all env tolerate r (upsert n s o1)) as [[a1 b1] c1].
        destruct (write_all env tolerate r (upsert n s o2)) as [[a2 b2] c2]. exact IH. }
      destruct (step1 s cfg) as [[ch oc]|], (step1 init cfg) as [[ch' oc']|]; try discriminate; [|reflexivity].
      specialize (Ew (out_dir s) []).
      destruct (write_all env tolerate dir (out_dir s)) as [[od ok] w]. cbn [fst snd] in Ew. rewrite <- Ew.
      destruct ok; cbn [negb]; [|reflexivity].
      destruct (negb (force s) && _ && _); [reflexivity|]. destruct g; reflexivity. }
    rewrite (G s1), (G s2). reflexivity.
  Qed.
End A.

(* an error pass breaks the bookkeeping: the output of b stays after b's input is gone *)
Definition w_env (v : str) : option str := None.
Definition fa : str := [97%N].
Definition fb : str := [98%N].
Definition fc : str := [99%N].
Definition bad : str := [36; 40; 85; 41]%N.          (* "$(U)" *)

Lemma error_pass_leaves_stale_output :
  let s1 := fst (apply_unfixed false w_env false init None [(fa, [120%N])] 0 false) in
  let s2 := fst (apply_unfixed false w_env false s1 None [(fa, [120%N]); (fb, [121%N]); (fc, bad)] 0 false) in
  let '(s3, r3) := apply_unfixed false w_env false s2 None [(fa, [120%N])] 0 false in
  r_err r3 = false /\ out_dir s3 = [(fa, [120%N]); (fb, [121%N])]
  /\ out_dir (fst (apply false w_env false
        (fst (apply false w_env false (fst (apply false w_env false init None [(fa, [120%N])] 0 false))
                    None [(fa, [120%N]); (fb, [121%N]); (fc, bad)] 0 false))
        None [(fa, [120%N])] 0 false)) = [(fa, [120%N])].
Proof. vm_compute. repeat split; reflexivity. Qed.

(* ---- the loop of Watch ---- *)

(* tie T: the endless loop returns only when the parent context is done, and
   calls apply on every other way through the select *)
Fixpoint at_depth0 (evs : list (string * string)) (depth : nat) : list (string * string) :=
  match evs with
  | [] => []
  | (k, t) :: r =>
    if String.eqb k "if" then at_depth0 r (S depth)
    else if String.eqb k "endif" then at_depth0 r (pred depth)
    else match depth with O => (k, t) :: at_depth0 r depth | S _ => at_depth0 r depth end
  end.

Definition watch_shape_ok : bool :=
  let ifs := map snd (filter (fun e => String.eqb (fst e) "if") watch_loop) in
  let rets := map snd (filter (fun e => String.eqb (fst e) "return") watch_loop) in
  let top := at_depth0 watch_loop 0 in
  list_eqb String.eqb rets ["nil"%string]
  && String.eqb (hd ""%string ifs) "ctx.Err() != nil"
  && existsb (fun e => String.eqb (fst e) "call" && String.eqb (snd e) "r.apply") top
  && negb (existsb (fun e => String.eqb (fst e) "return") top).

Lemma watch_shape : watch_shape_ok = true.
Proof. vm_compute. reflexivity. Qed.

Section Wt.
  Variable has_cfg : bool.
  Variable env : str -> option str.
  Variable tolerate : bool.

  Notation applyf := (apply has_cfg env tolerate).
  Notation watchf := (watch has_cfg env tolerate).

  Lemma files_eqb_refl d : files_eqb d d = true.
  Proof.
    unfold files_eqb. induction d as [|[n c] d IH]; [reflexivity|].
    cbn [list_eqb fst snd]. rewrite !str_eqb_refl, IH. reflexivity.
  Qed.

  Lemma ostr_eqb_refl o : option_eqb str_eqb o o = true.
  Proof. destruct o; simpl; [apply str_eqb_refl | reflexivity]. Qed.

  (* events before the context is cancelled *)
  Fixpoint live (evs : list wstep) : list wstep :=
    match evs with
    | [] => []
    | (EDone, _, _) :: _ => []
    | e :: r => e :: live r
    end.

  Lemma watch_applies_every_event evs : forall s,
    List.length (snd (watchf s evs)) = List.length (live evs).
  Proof.
    induction evs as [|[[e [cfg dir]] [f g]] r IH]; intro s; [reflexivity|].
    destruct e; cbn [watch live]; try reflexivity;
      destruct (applyf s cfg dir f g) as [s' res]; specialize (IH s');
      destruct (watchf s' r) as [s'' rs]; simpl in *; rewrite IH; reflexivity.
  Qed.

  Definition settled (s : rst) (cfg : option str) (dir : files) : Prop :=
    force s = false /\ same_as_recorded has_cfg s cfg dir = true.

  (* an apply whose endpoint script ends in success leaves the reloader settled *)
  Lemma apply_settles s cfg dir fails s' r :
    applyf s cfg dir fails false = (s', r) -> r_err r = false -> NoDup (map fst dir) ->
    settled s' cfg dir.
  Proof.
    intros H He Hnd.
    destruct (apply_spec has_cfg env tolerate s cfg dir fails false s' r H He Hnd)
      as [_ [_ [Ht [Hs [Hf [Hts _]]]]]].
    unfold settled, same_as_recorded. destruct (r_tried r) eqn:Et.
    - assert (Hsucc : r_succeeded r = true) by (rewrite (Hts eq_refl); reflexivity).
      destruct (Hs Hsucc) as [_ [_ [F [L1 [L2 _]]]]]. rewrite F, L1, L2, files_eqb_refl, ostr_eqb_refl. auto.
    - assert (Hsucc : r_succeeded r = false).
      { destruct (r_succeeded r) eqn:E; [|reflexivity]. destruct (Hs eq_refl) as [T _]. congruence. }
      destruct (Hf Hsucc) as [L1 [L2 F]]. symmetry in Ht. apply orb_false_iff in Ht as [F0 S0].
      apply negb_false_iff in S0. unfold same_as_recorded in S0. rewrite F, F0, L1, L2. auto.
  Qed.

  (* a settled reloader stays settled on the same content and does not call the endpoint *)
  Lemma apply_stable s cfg dir fails give_up s' r :
    settled s cfg dir -> applyf s cfg dir fails give_up = (s', r) -> r_err r = false -> NoDup (map fst dir) ->
    r_tried r = false /\ settled s' cfg dir.
  Proof.
    intros [F0 S0] H He Hnd.
    destruct (apply_spec has_cfg env tolerate s cfg dir fails give_up s' r H He Hnd)
      as [_ [_ [Ht [Hs [Hf _]]]]].
    rewrite F0, S0 in Ht. cbn in Ht. split; [exact Ht|].
    assert (Hsucc : r_succeeded r = false).
    { destruct (r_succeeded r) eqn:E; [|reflexivity]. destruct (Hs eq_refl) as [T _]. congruence. }
    destruct (Hf Hsucc) as [L1 [L2 F]]. unfold settled, same_as_recorded in *. rewrite F, F0, Ht, L1, L2. auto.
  Qed.

  (* a failed reload is retried at the next event *)
  Lemma retry_next s cfg dir fails s' r cfg2 dir2 f2 g2 :
    applyf s cfg dir fails true = (s', r) -> r_err r = false -> NoDup (map fst dir) -> r_tried r = true ->
    r_err (snd (applyf s' cfg2 dir2 f2 g2)) = false -> NoDup (map fst dir2) ->
    r_tried (snd (applyf s' cfg2 dir2 f2 g2)) = true.
  Proof.
    intros H He Hnd Ht He2 Hnd2.
    destruct (apply_spec has_cfg env tolerate s cfg dir fails true s' r H He Hnd) as [_ [_ [_ [_ [Hf [Hts _]]]]]].
    assert (Hsucc : r_succeeded r = false) by (rewrite (Hts Ht); reflexivity).
    destruct (Hf Hsucc) as [_ [_ F]]. rewrite Ht, orb_true_r in F.
    destruct (applyf s' cfg2 dir2 f2 g2) as [s2 r2] eqn:E2. cbn [snd] in *.
    destruct (apply_spec has_cfg env tolerate s' cfg2 dir2 f2 g2 s2 r2 E2 He2 Hnd2) as [_ [_ [Ht2 _]]].
    rewrite Ht2, F. reflexivity.
  Qed.

  (* every event carries the same content and none is the cancellation *)
  Definition quiet (cfg : option str) (dir : files) (evs : list wstep) : Prop :=
    Forall (fun e => fst (fst e) <> EDone /\ snd (fst e) = (cfg, dir)) evs.

  (* once settled, nothing happens any more while the content stays the same *)
  Lemma watch_stable cfg dir evs : forall s,
    settled s cfg dir -> quiet cfg dir evs -> NoDup (map fst dir) ->
    r_err (snd (applyf init cfg dir 0 false)) = false ->
    settled (fst (watchf s evs)) cfg dir
    /\ Forall (fun r => r_err r = false /\ r_tried r = false) (snd (watchf s evs))
    /\ List.length (snd (watchf s evs)) = List.length evs.
  Proof.
    induction evs as [|[[e [cfg' dir']] [f g]] rest IH]; intros s Hs Hq Hnd He.
    - cbn. repeat split; auto. apply Hs. apply Hs.
    - inversion Hq as [|? ? [Hne Heq] Hq']; subst. cbn [fst snd] in Hne, Heq. inversion Heq; subst cfg' dir'.
      destruct e; [ | | congruence];
      (cbn [watch]; destruct (applyf s cfg dir f g) as [s' res] eqn:Ea;
       assert (He' : r_err res = false)
         by (pose proof (apply_err_state has_cfg env tolerate s init cfg dir f g 0 false) as E;
             rewrite Ea in E; cbn [snd] in E; congruence);
       destruct (apply_stable s cfg dir f g s' res Hs Ea He' Hnd) as [Ht Hs'];
       destruct (IH s' Hs' Hq' Hnd He) as [I1 [I2 I3]];
       destruct (watchf s' rest) as [s'' rs]; cbn [fst snd] in *;
       split; [exact I1 | split; [constructor; [split; assumption | exact I2] | simpl; rewrite I3; reflexivity]]).
  Qed.
End Wt.

(* ---- the two reads of the config file ---- *)

(* tie T: apply hashes the config file BEFORE it normalizes it *)
Definition reads_order_ok : bool :=
  match map snd apply_reads with
  | a :: b :: _ => String.eqb a "hashFile" && String.eqb b "r.normalize"
  | _ => false
  end.

Lemma reads_order : reads_order_ok = true.
Proof. vm_compute. reflexivity. Qed.

Section TwoReads.
  Variable env : str -> option str.
  Variable tolerate : bool.

  Lemma ostr_eqb_true a b : option_eqb str_eqb a b = true -> a = b.
  Proof.
    destruct a, b; simpl; intro H; try discriminate; [|reflexivity].
    apply str_eqb_eq in H. congruence.
  Qed.

  (* hash read first: an edit between the reads leaves (old hash, new output); the
     next undisturbed pass on the new content reloads it *)
  Lemma hash_then_normalize s old new dir f s1 r1 f2 s2 r2 :
    old <> new -> NoDup (map fst dir) ->
    apply2 true env tolerate s (Some old) (Some new) dir f false = (s1, r1) -> r_err r1 = false ->
    apply true env tolerate s1 (Some new) dir f2 false = (s2, r2) -> r_err r2 = false ->
    r_tried r2 = true /\ r_succeeded r2 = true /\ out_cfg s2 = expand env tolerate new.
  Proof.
    intros Hne Hnd H1 E1 H2 E2. unfold apply2 in H1.
    destruct (expand env tolerate new) as [e|] eqn:Ee; [|inversion H1; subst; discriminate].
    destruct (apply true env tolerate s (Some old) dir f false) as [s' r] eqn:Ea.
    inversion H1; subst s1 r1. clear H1.
    pose proof (apply_settles true env tolerate s (Some old) dir f s' r Ea E1 Hnd) as [_ Hs].
    unfold same_as_recorded in Hs. apply andb_true_iff in Hs as [_ Hc]. apply ostr_eqb_true in Hc.
    unfold cfg_hash in Hc.
    destruct (apply_spec true env tolerate _ (Some new) dir f2 false s2 r2 H2 E2 Hnd)
      as [Hcfg [_ [Ht [_ [_ [Hts _]]]]]].
    assert (Htried : r_tried r2 = true).
    { rewrite Ht. unfold same_as_recorded, cfg_hash. cbn [last_cfg last_dir force]. rewrite Hc.
      assert (Hf : option_eqb str_eqb (Some old) (Some new) = false).
      { simpl. apply str_eqb_neq. exact Hne. }
      rewrite Hf, andb_false_r. cbn. apply orb_true_r. }
    split; [exact Htried|]. split; [rewrite (Hts Htried); reflexivity|].
    destruct (Hcfg eq_refl) as [c [Ec [Ho _]]]. inversion Ec; subst c. rewrite Ho, Ee. reflexivity.
  Qed.
End TwoReads.

(* normalize read first (the order the source does NOT have): (old output, new
   hash); the reload loads the old output, the next pass sees nothing to do *)
Definition w_old : str := [111%N].   (* "o" *)
Definition w_new : str := [110%N].   (* "n" *)

Lemma normalize_then_hash_refuted :
  let '(s1, r1) := apply2 true w_env true init (Some w_new) (Some w_old) [] 0 false in
  let '(s2, r2) := apply true w_env true s1 (Some w_new) [] 0 false in
  r_succeeded r1 = true /\ out_cfg s1 = Some w_old      (* reloaded with the old content *)
  /\ r_err r2 = false /\ r_tried r2 = false              (* never reloaded again *)
  /\ out_cfg s2 = Some w_new.                            (* although the output has changed *)
Proof. vm_compute. repeat split; reflexivity. Qed.
