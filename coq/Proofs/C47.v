(* C47 — lemmas about the model of Reloader.apply (Model/C47.v). *)
From Coq Require Import NArith ZArith List Bool Lia String.
Import ListNotations.
From Verif Require Import Lib.Corr Lib.Misc_Cmp Gen.C47 Model.C47.

(* ---- tie T: the reload decision of apply ---- *)
Definition decision_ok : bool :=
  existsb (fun e => String.eqb (fst e) "if"
     && String.eqb (snd e) "!r.forceReload && !cfgDirsChanged && bytes.Equal(r.lastCfgHash, cfgHash) && bytes.Equal(r.lastWatchedDirsHash, watchedDirsHash)")
    apply_decisions
  && existsb (fun e => String.eqb (fst e) "if" && String.eqb (snd e) "r.lastCfgDirFiles[i] != nil") apply_decisions.

Lemma decision_fact : decision_ok = true.
Proof. vm_compute. reflexivity. Qed.

(* ---- association lists ---- *)
Lemma str_cmp_eq_iff a b : str_cmp a b = Eq <-> a = b.
Proof. split; [apply str_cmp_eq | intro; subst; apply str_cmp_refl]. Qed.

Lemma lookup_upsert_same n c l : lookup n (upsert n c l) = Some c.
Proof.
  induction l as [|[n' c'] r IH]; simpl; [rewrite str_eqb_refl; reflexivity|].
  destruct (str_cmp n n') eqn:E; simpl.
  - rewrite str_eqb_refl. reflexivity.
  - rewrite str_eqb_refl. reflexivity.
  - assert (Hne : str_eqb n n' = false).
    { apply str_eqb_neq. intro; subst. rewrite str_cmp_refl in E. discriminate. }
    rewrite Hne. exact IH.
Qed.

Lemma lookup_upsert_other n m c l : n <> m -> lookup m (upsert n c l) = lookup m l.
Proof.
  intro Hne. assert (Hmn : str_eqb m n = false) by (apply str_eqb_neq; congruence).
  induction l as [|[n' c'] r IH]; simpl; [rewrite Hmn; reflexivity|].
  destruct (str_cmp n n') eqn:E; simpl.
  - apply str_cmp_eq in E. subst n'. rewrite Hmn. reflexivity.
  - rewrite Hmn. reflexivity.
  - destruct (str_eqb m n'); [reflexivity | exact IH].
Qed.

Lemma upsert_in n c l f : In f (upsert n c l) -> f = (n, c) \/ In f l.
Proof.
  induction l as [|[n' c'] r IH]; simpl; [intros [H|[]]; left; congruence|].
  destruct (str_cmp n n'); simpl.
  - intros [H|H]; [left; congruence | right; right; exact H].
  - intros [H|H]; [left; congruence | right; exact H].
  - intros [H|H]; [right; left; exact H|]. destruct (IH H) as [H'|H']; [left; exact H' | right; right; exact H'].
Qed.

Lemma lookup_filter_name (g : str -> bool) n l :
  g n = true -> lookup n (filter (fun f => g (fst f)) l) = lookup n l.
Proof.
  intro Hg. induction l as [|[n' c'] r IH]; simpl; [reflexivity|].
  destruct (g n') eqn:E; simpl.
  - destruct (str_eqb n n'); [reflexivity | exact IH].
  - destruct (str_eqb n n') eqn:E2; [|exact IH]. apply str_eqb_eq in E2. subst. congruence.
Qed.

Section A.
  Variable has_cfg : bool.
  Variable env : str -> option str.
  Variable tolerate : bool.

  Notation ex := (expand env tolerate).

  Lemma write_all_ok fs : forall out od,
    write_all env tolerate fs out = (od, true) ->
    NoDup (map fst fs) ->
    (forall n c, In (n, c) fs -> lookup n od = ex c)
    /\ (forall n, ~ In n (map fst fs) -> lookup n od = lookup n out)
    /\ (forall f, In f od -> In f out \/ In (fst f) (map fst fs)).
  Proof.
    induction fs as [|[n c] r IH]; intros out od H Hnd; simpl in H.
    - inversion H; subst. repeat split; auto. intros n c [].
    - destruct (ex c) as [e|] eqn:E; [|discriminate].
      inversion Hnd as [|? ? Hnin Hnd']; subst.
      destruct (IH _ _ H Hnd') as [I1 [I2 I3]]. repeat split.
      + intros n0 c0 [H0|H0].
        * inversion H0; subst. rewrite (I2 n0 Hnin). rewrite lookup_upsert_same. symmetry. exact E.
        * apply I1. exact H0.
      + intros n0 Hn0. simpl in Hn0. rewrite I2 by tauto. apply lookup_upsert_other. intro; subst; apply Hn0; left; reflexivity.
      + intros f Hf. destruct (I3 f Hf) as [H0|H0].
        * apply upsert_in in H0 as [H0|H0]; [right; left; subst; reflexivity | left; exact H0].
        * right. right. exact H0.
  Qed.

  Definition cfg_hash (cfg : option str) : option str := if has_cfg then cfg else None.

  (* the recorded digests equal those of the given content *)
  Definition same_as_recorded (s : rst) (cfg : option str) (dir : files) : bool :=
    match last_dir s with Some d => files_eqb d dir | None => false end
    && option_eqb str_eqb (last_cfg s) (cfg_hash cfg).

  (* every output file stems from the last complete pass *)
  Definition synced (s : rst) : Prop :=
    match last_names s with
    | Some prev => forall f, In f (out_dir s) -> In (fst f) prev
    | None => out_dir s = []
    end.

  Lemma apply_spec s cfg dir fails give_up s' r :
    apply has_cfg env tolerate s cfg dir fails give_up = (s', r) ->
    r_err r = false -> NoDup (map fst dir) ->
    (* outputs = inputs with the environment substituted *)
    (has_cfg = true -> exists c, cfg = Some c /\ out_cfg s' = ex c /\ ex c <> None)
    /\ (forall n c, In (n, c) dir -> lookup n (out_dir s') = ex c /\ ex c <> None)
    (* reload decision *)
    /\ r_tried r = (force s || negb (same_as_recorded s cfg dir))
    (* bookkeeping *)
    /\ (r_succeeded r = true -> r_tried r = true /\ give_up = false /\ force s' = false
                                /\ last_cfg s' = cfg_hash cfg /\ last_dir s' = Some dir /\ r_attempts r = S fails)
    /\ (r_succeeded r = false -> last_cfg s' = last_cfg s /\ last_dir s' = last_dir s
                                 /\ force s' = (force s || r_tried r))
    /\ (r_tried r = true -> r_succeeded r = negb give_up)
    /\ last_names s' = Some (map fst dir)
    /\ (synced s -> forall f, In f (out_dir s') -> In (fst f) (map fst dir)).
  Proof.
    unfold apply. intros H Herr Hnd.
    assert (Hstep1 : exists ch oc,
      (if has_cfg then match cfg with None => None | Some c => match ex c with Some e => Some (Some c, Some e) | None => None end end
       else Some (None, out_cfg s)) = Some (ch, oc)
      /\ ch = cfg_hash cfg
      /\ (has_cfg = true -> exists c, cfg = Some c /\ oc = ex c /\ ex c <> None)).
    { unfold cfg_hash. destruct has_cfg.
      - destruct cfg as [c|]; [|exfalso; cbv beta iota zeta in H; inversion H; subst; discriminate].
        destruct (ex c) as [e|] eqn:E; [|exfalso; cbv beta iota zeta in H; inversion H; subst; discriminate].
        exists (Some c), (Some e). repeat split. intros _. exists c. repeat split; congruence.
      - exists None, (out_cfg s). repeat split. discriminate. }
    destruct Hstep1 as [ch [oc [E1 [Ech Hcfg]]]]. rewrite E1 in H. cbn [last_cfg last_dir last_names force out_dir] in H.
    destruct (write_all env tolerate dir (out_dir s)) as [od ok] eqn:Ew.
    destruct ok; cbn [negb] in H; [|inversion H; subst; discriminate].
    destruct (write_all_ok dir _ _ Ew Hnd) as [W1 [W2 W3]].
    set (names := map fst dir) in *.
    set (od' := match last_names s with
                | Some prev => filter (fun f => negb (mem_str (fst f) prev && negb (mem_str (fst f) names))) od
                | None => od end) in *.
    assert (Hlook : forall n c, In (n, c) dir -> lookup n od' = ex c /\ ex c <> None).
    { intros n c Hin. assert (Hn : In n names) by (apply in_map_iff; exists (n, c); auto).
      assert (Hex : ex c <> None).
      { clear -Ew Hin. revert Ew. generalize (out_dir s). induction dir as [|[n0 c0] r IH]; intros out Ew; [destruct Hin|].
        simpl in Ew. destruct (ex c0) as [e|] eqn:E; [|discriminate].
        destruct Hin as [Hin|Hin]; [inversion Hin; subst; congruence | eapply IH; eauto]. }
      split; [|exact Hex]. unfold od'. destruct (last_names s) as [prev|]; [|apply W1; exact Hin].
      rewrite (lookup_filter_name (fun x => negb (mem_str x prev && negb (mem_str x names)))); [apply W1; exact Hin|].
      apply mem_str_In in Hn. rewrite Hn. cbn. rewrite andb_false_r. reflexivity. }
    assert (Hsync : synced s -> forall f, In f od' -> In (fst f) names).
    { unfold synced, od'. intros Hs f Hf. destruct (last_names s) as [prev|].
      - apply filter_In in Hf as [Hf Hp]. destruct (W3 f Hf) as [H0|H0]; [|exact H0].
        specialize (Hs f H0). apply mem_str_In in Hs. rewrite Hs in Hp. cbn in Hp.
        apply negb_true_iff in Hp. apply negb_false_iff in Hp. apply mem_str_In. exact Hp.
      - rewrite Hs in W3. destruct (W3 f Hf) as [[]|H0]. exact H0. }
    assert (Hsame : (negb (force s) && negb (match last_dir s with Some d => negb (files_eqb d dir) | None => true end)
                     && option_eqb str_eqb (last_cfg s) ch) = negb (force s || negb (same_as_recorded s cfg dir))).
    { unfold same_as_recorded. rewrite <- Ech. destruct (force s), (last_dir s) as [d|]; cbn; try reflexivity.
      - destruct (files_eqb d dir), (option_eqb str_eqb (last_cfg s) ch); reflexivity. }
    rewrite Hsame in H.
    destruct (force s || negb (same_as_recorded s cfg dir)) eqn:Et; cbn [negb] in H.
    - destruct give_up; inversion H; subst; clear H;
        cbn [r_err r_tried r_succeeded r_attempts last_cfg last_dir last_names force out_cfg out_dir];
        (split; [exact Hcfg|]); (split; [exact Hlook|]); (split; [reflexivity|]);
        (split; [intro Hs; try discriminate; repeat split; reflexivity|]);
        (split; [intro Hs; try discriminate; repeat split; try reflexivity; rewrite orb_true_r; reflexivity|]);
        (split; [reflexivity|]); (split; [reflexivity | exact Hsync]).
    - inversion H; subst; clear H.
      cbn [r_err r_tried r_succeeded r_attempts last_cfg last_dir last_names force out_cfg out_dir].
      apply orb_false_iff in Et as [Ef _].
      (split; [exact Hcfg|]); (split; [exact Hlook|]); (split; [reflexivity|]).
      (split; [discriminate|]).
      (split; [intros _; repeat split; try reflexivity; rewrite Ef; reflexivity|]).
      (split; [discriminate|]). split; [reflexivity | exact Hsync].
  Qed.
End A.

(* an error pass breaks the bookkeeping: the output of b stays after b's input is gone *)
Definition w_env (v : str) : option str := None.
Definition fa : str := [97%N].
Definition fb : str := [98%N].
Definition fc : str := [99%N].
Definition bad : str := [36; 40; 85; 41]%N.          (* "$(U)" *)

Lemma error_pass_leaves_stale_output :
  let s1 := fst (apply false w_env false init None [(fa, [120%N])] 0 false) in
  let s2 := fst (apply false w_env false s1 None [(fa, [120%N]); (fb, [121%N]); (fc, bad)] 0 false) in
  let '(s3, r3) := apply false w_env false s2 None [(fa, [120%N])] 0 false in
  r_err r3 = false /\ out_dir s3 = [(fa, [120%N]); (fb, [121%N])].
Proof. vm_compute. split; reflexivity. Qed.
