(* C17 — lemmas for BucketedPool accounting and ShardMatcher buffers. *)
From Coq Require Import String.
From Coq Require Import NArith List Bool Lia Permutation.
Import ListNotations.
From Verif Require Import Lib.Corr Gen.C17 Model.C17.
Open Scope N_scope.

(* ---- A. BucketedPool ---------------------------------------------------------------- *)

Lemma sum_app l1 l2 : sum_n (l1 ++ l2) = sum_n l1 + sum_n l2.
Proof. induction l1 as [|x l1 IH]; cbn [app sum_n]; [reflexivity|]. rewrite IH. lia. Qed.

Lemma sum_remove_nth : forall l k c, nth_error l k = Some c -> sum_n l = c + sum_n (remove_nth k l).
Proof.
  induction l as [|x l IH]; intros [|k] c H; cbn in H; try discriminate.
  - inversion H; subst. reflexivity.
  - cbn [remove_nth sum_n]. rewrite (IH k c H). lia.
Qed.

Lemma remove_nth_none {A} : forall (l : list A) k, nth_error l k = None -> remove_nth k l = l.
Proof.
  induction l as [|x l IH]; intros [|k] H; cbn in *; try reflexivity; try discriminate.
  f_equal. apply IH. exact H.
Qed.

Definition pinv (maxt : N) (st : pstate) : Prop :=
  used st = sum_n (out st) /\ (maxt = 0 \/ used st <= maxt).

Lemma pget_inv sizes maxt st sz st' : pinv maxt st -> pget true sizes maxt st sz = Some st' ->
  pinv maxt st' /\ used st' = used st + charge sizes sz /\ out st' = out st ++ [charge sizes sz].
Proof.
  intros [I1 I2] H. unfold pget in H.
  destruct ((0 <? maxt) && (maxt <? used st + charge sizes sz)) eqn:E; [discriminate|].
  inversion H; subst; clear H. unfold pinv. cbn [used out]. repeat split.
  - rewrite sum_app, I1. cbn [sum_n]. lia.
  - apply andb_false_iff in E as [E|E]; [apply N.ltb_ge in E; left; lia|apply N.ltb_ge in E; right; exact E].
Qed.

Lemma pget_none sizes maxt st sz : pget true sizes maxt st sz = None -> maxt <> 0 /\ maxt < used st + charge sizes sz.
Proof.
  unfold pget. destruct ((0 <? maxt) && (maxt <? used st + charge sizes sz)) eqn:E; [|discriminate].
  intros _. apply andb_true_iff in E as [E1 E2]. apply N.ltb_lt in E1, E2. lia.
Qed.

Lemma pput_inv maxt st k : pinv maxt st -> pinv maxt (pput st k) /\ out (pput st k) = remove_nth k (out st).
Proof.
  intros [I1 I2]. unfold pput. destruct (nth_error (out st) k) as [c|] eqn:E.
  - unfold pinv. cbn [used out]. pose proof (sum_remove_nth _ _ _ E) as S. split; [|reflexivity]. split.
    + destruct (used st <=? c) eqn:L; [apply N.leb_le in L|apply N.leb_gt in L]; lia.
    + destruct (used st <=? c) eqn:L; [apply N.leb_le in L|apply N.leb_gt in L]; lia.
  - split; [split; assumption|]. symmetry. apply remove_nth_none. exact E.
Qed.

Lemma pfinal_inv sizes maxt : forall ops st, pinv maxt st -> pinv maxt (pfinal true sizes maxt st ops).
Proof.
  induction ops as [|o r IH]; intros st I; cbn [pfinal]; [exact I|].
  destruct o as [sz|k].
  - destruct (pget true sizes maxt st sz) as [st'|] eqn:E; [|apply IH; exact I].
    apply IH. apply (pget_inv sizes maxt st sz st' I E).
  - apply IH. apply pput_inv. exact I.
Qed.

Lemma pinit_inv maxt : pinv maxt pinit.
Proof. split; cbn; [reflexivity|]. destruct (N.eq_dec maxt 0); [left; assumption|right; lia]. Qed.

(* every reachable state: usage = capacities handed out and not returned; within the budget;
   zero when everything is returned *)
Lemma pool_invariant sizes maxt ops :
  let st := pfinal true sizes maxt pinit ops in
  used st = sum_n (out st) /\ (maxt <> 0 -> used st <= maxt) /\ (out st = [] -> used st = 0).
Proof.
  cbn zeta. destruct (pfinal_inv sizes maxt ops pinit (pinit_inv maxt)) as [I1 I2].
  split; [exact I1|]. split; [intro H; destruct I2; [contradiction|assumption]|].
  intro E. rewrite I1, E. reflexivity.
Qed.

Lemma pool_pred_ok sizes maxt : forall ops st, pinv maxt st ->
  pool_pred maxt (out st) ops (prun true sizes maxt st ops) = true.
Proof.
  induction ops as [|o r IH]; intros st I; cbn [prun pool_pred]; [reflexivity|].
  destruct o as [sz|k].
  - destruct (pget true sizes maxt st sz) as [st'|] eqn:E.
    + destruct (pget_inv sizes maxt st sz st' I E) as (I' & U & O). cbn [pool_pred].
      rewrite <- O. destruct I' as [J1 J2]. rewrite (IH st' (conj J1 J2)), andb_true_r.
      apply andb_true_iff. split; [|apply N.eqb_eq; exact J1].
      destruct J2 as [->|J2]; [reflexivity|]. apply orb_true_iff. right. apply N.leb_le. exact J2.
    + cbn [pool_pred]. destruct I as [J1 J2]. rewrite (IH st (conj J1 J2)), andb_true_r.
      apply andb_true_iff. split; [|apply N.eqb_eq; exact J1].
      destruct J2 as [->|J2]; [reflexivity|]. apply orb_true_iff. right. apply N.leb_le. exact J2.
  - destruct (pput_inv maxt st k I) as (I' & O). cbn [pool_pred]. rewrite <- O.
    destruct I' as [J1 J2]. rewrite (IH (pput st k) (conj J1 J2)), andb_true_r.
    apply andb_true_iff. split; [|apply N.eqb_eq; exact J1].
    destruct J2 as [->|J2]; [reflexivity|]. apply orb_true_iff. right. apply N.leb_le. exact J2.
Qed.

Lemma pool_case_pred sizes maxt ops : pred_ok (CPool sizes maxt ops (prun true sizes maxt pinit ops)) = true.
Proof. cbn [pred_ok]. apply (pool_pred_ok sizes maxt ops pinit (pinit_inv maxt)). Qed.

(* before the fix: maxTotal 10, buckets 8 and 16, Get(9) leaves 16 used *)
Lemma pool_unfixed_refuted :
  used (pfinal false [8; 16] 10 pinit [PGet 9]) = 16 /\ pget true [8; 16] 10 pinit 9 = None.
Proof. split; reflexivity. Qed.

(* ---- B. ShardMatcher buffers ------------------------------------------------------------ *)

Lemma remove_one_perm : forall l x l', remove_one x l = Some l' -> Permutation l (x :: l').
Proof.
  induction l as [|y l IH]; intros x l' H; cbn [remove_one] in H; [discriminate|].
  destruct (y =? x) eqn:E.
  - apply N.eqb_eq in E. inversion H; subst. reflexivity.
  - destruct (remove_one x l) as [r|] eqn:R; [|discriminate]. inversion H; subst.
    rewrite (IH x r R). apply perm_swap.
Qed.

Lemma remove_one_none : forall l x, remove_one x l = None -> ~ In x l.
Proof.
  induction l as [|y l IH]; intros x H; cbn [remove_one] in H; [intros []|].
  destruct (y =? x) eqn:E; [discriminate|]. apply N.eqb_neq in E.
  destruct (remove_one x l) eqn:R; [discriminate|]. intros [->|Hin]; [congruence|]. apply (IH x R Hin).
Qed.

Lemma somes_app l1 l2 : somes (l1 ++ l2) = somes l1 ++ somes l2.
Proof. induction l1 as [|[x|] l1 IH]; cbn [app somes]; [reflexivity| |]; rewrite IH; reflexivity. Qed.

Lemma somes_set_none : forall l m id, nth_error l m = Some (Some id) ->
  Permutation (somes l) (id :: somes (set_nth m None l)).
Proof.
  induction l as [|x l IH]; intros [|m] id H; cbn in H; try discriminate.
  - inversion H; subst. cbn [set_nth somes]. reflexivity.
  - cbn [set_nth]. destruct x as [y|]; cbn [somes].
    + rewrite (IH m id H). apply perm_swap.
    + apply (IH m id H).
Qed.

Lemma set_nth_same {A} : forall (l : list A) m v, nth_error l m = Some v -> set_nth m v l = l.
Proof.
  induction l as [|x l IH]; intros [|m] v H; cbn in *; try discriminate.
  - inversion H; reflexivity.
  - f_equal. apply IH. exact H.
Qed.

Definition minv (st : mstate) : Prop :=
  NoDup (mpool st ++ somes (held st)) /\ Forall (fun x => x < fresh st) (mpool st ++ somes (held st)).

Lemma mstep_inv st o st' : minv st -> mstep true st o = Some st' -> minv st'.
Proof.
  intros [I1 I2] H. unfold minv. destruct o as [[|] id|m]; cbn [mstep] in H.
  - destruct (remove_one id (mpool st)) as [p'|] eqn:R.
    + inversion H; subst; clear H. cbn [mpool held fresh]. rewrite somes_app. cbn [somes].
      apply remove_one_perm in R.
      assert (P : Permutation (mpool st ++ somes (held st)) (p' ++ somes (held st) ++ [id])).
      { rewrite R. cbn [app]. rewrite app_assoc. apply Permutation_cons_append. }
      split; [apply (Permutation_NoDup P I1)|apply (Permutation_Forall P I2)].
    + destruct (id =? fresh st) eqn:E; [|discriminate]. apply N.eqb_eq in E. subst id.
      inversion H; subst; clear H. cbn [mpool held fresh]. rewrite somes_app. cbn [somes].
      rewrite app_assoc. split.
      * apply (Permutation_NoDup (Permutation_cons_append _ (fresh st))). constructor; [|exact I1].
        intro Hin. rewrite Forall_forall in I2. specialize (I2 _ Hin). lia.
      * apply Forall_app. split; [|constructor; [lia|constructor]].
        eapply Forall_impl; [|exact I2]. cbn. intros; lia.
  - inversion H; subst; clear H. cbn [mpool held fresh]. rewrite somes_app. cbn [somes]. rewrite app_nil_r. split; assumption.
  - destruct (nth_error (held st) m) as [[id|]|] eqn:E; [| |discriminate].
    + inversion H; subst; clear H. cbn [mpool held fresh].
      pose proof (somes_set_none _ _ _ E) as P.
      assert (Q : Permutation (mpool st ++ somes (held st)) ((id :: mpool st) ++ somes (set_nth m None (held st)))).
      { rewrite P. cbn [app]. symmetry. apply Permutation_middle. }
      split; [apply (Permutation_NoDup Q I1)|apply (Permutation_Forall Q I2)].
    + inversion H; subst. split; assumption.
Qed.

Lemma mrun_inv : forall ops st st', minv st -> mrun true st ops = Some st' -> minv st'.
Proof.
  induction ops as [|o r IH]; intros st st' I H; cbn [mrun] in H; [inversion H; subst; exact I|].
  destruct (mstep true st o) as [s1|] eqn:E; [|discriminate]. apply (IH s1 st' (mstep_inv st o s1 I E) H).
Qed.

Lemma minit_inv : minv minit.
Proof. split; cbn; constructor. Qed.

(* with the fix: in every reachable state no buffer is in the pool twice and none is both
   in the pool and held by a matcher that was not closed, whatever the number of Close calls *)
Lemma shard_single_put ops st : mrun true minit ops = Some st -> NoDup (mpool st ++ somes (held st)).
Proof. intro H. apply (mrun_inv ops minit st minit_inv H). Qed.

Lemma held_open_spec : forall ops st st', mrun true st ops = Some st' -> held st' = held_open ops (held st).
Proof.
  induction ops as [|o r IH]; intros st st' H; cbn [mrun held_open] in *; [inversion H; reflexivity|].
  destruct (mstep true st o) as [s1|] eqn:E; [|discriminate]. rewrite (IH s1 st' H). f_equal.
  destruct o as [[|] id|m]; cbn [mstep] in E.
  - destruct (remove_one id (mpool st)); [inversion E; reflexivity|].
    destruct (id =? fresh st); [inversion E; reflexivity|discriminate].
  - inversion E; reflexivity.
  - destruct (nth_error (held st) m) as [[id|]|] eqn:N; [| |discriminate].
    + inversion E; reflexivity.
    + inversion E; subst. f_equal. symmetry. apply set_nth_same. exact N.
Qed.

Lemma insert_perm x : forall l, Permutation (insert_sorted x l) (x :: l).
Proof.
  induction l as [|y l IH]; cbn [insert_sorted]; [reflexivity|].
  destruct (x <=? y); [reflexivity|]. rewrite IH. apply perm_swap.
Qed.

Lemma sort_perm : forall l, Permutation (sort_n l) l.
Proof.
  induction l as [|x l IH]; cbn [sort_n fold_right]; [reflexivity|].
  fold (sort_n l). rewrite insert_perm. constructor. exact IH.
Qed.

Lemma nodup_n_spec l : nodup_n l = true <-> NoDup l.
Proof.
  induction l as [|a r IH]; cbn [nodup_n]; [split; [constructor|reflexivity]|].
  rewrite andb_true_iff, negb_true_iff, IH. split.
  - intros [H1 H2]. constructor; [|exact H2]. intro Hin.
    assert (existsb (N.eqb a) r = true) by (apply existsb_exists; exists a; split; [exact Hin|apply N.eqb_refl]). congruence.
  - intro H. inversion H as [|? ? Hn Hnd]; subst. split; [|exact Hnd].
    destruct (existsb (N.eqb a) r) eqn:E; [|reflexivity].
    apply existsb_exists in E as (x & Hx & Ex). apply N.eqb_eq in Ex. subst. contradiction.
Qed.

Lemma shard_case_pred ops st : mrun true minit ops = Some st ->
  pred_ok (CShard ops (sort_n (mpool st))) = true.
Proof.
  intro H. cbn [pred_ok]. apply nodup_n_spec.
  rewrite <- (held_open_spec ops minit st H : held st = held_open ops []).
  apply (Permutation_NoDup (l := mpool st ++ somes (held st))).
  - apply Permutation_app_tail. symmetry. apply sort_perm.
  - apply (shard_single_put ops st H).
Qed.

Lemma nodup_app_l {A} : forall (l l2 : list A), NoDup (l ++ l2) -> NoDup l.
Proof.
  induction l as [|x l IH]; intros l2 N; [constructor|].
  cbn in N. inversion N as [|? ? Hx Hn]; subst. constructor; [|apply (IH l2 Hn)].
  intro Hin. apply Hx. apply in_app_iff. left. exact Hin.
Qed.

(* ---- C. any number of concurrent requests ------------------------------------------------ *)

Lemma pxstep_inv st e st' : minv (px_m st) -> pxstep true st e = Some st' -> minv (px_m st').
Proof.
  intros I H. destruct e as [req sh got|req sh got|req k site]; cbn [pxstep] in H.
  - destruct (mstep true (px_m st) (MNew sh got)) as [m'|] eqn:E; [|discriminate].
    inversion H; subst. cbn [px_m]. apply (mstep_inv _ _ _ I E).
  - destruct (mstep true (px_m st) (MNew sh got)) as [m'|] eqn:E; [|discriminate].
    inversion H; subst. cbn [px_m]. apply (mstep_inv _ _ _ I E).
  - destruct (nth_error (sets_of req (px_sets st)) k) as [m|]; [|discriminate].
    destruct (mstep true (px_m st) (MClose m)) as [m'|] eqn:E; [|discriminate].
    inversion H; subst. cbn [px_m]. apply (mstep_inv _ _ _ I E).
Qed.

Lemma pxrun_inv : forall es st st', minv (px_m st) -> pxrun true st es = Some st' -> minv (px_m st').
Proof.
  induction es as [|e r IH]; intros st st' I H; cbn [pxrun] in H; [inversion H; subst; exact I|].
  destruct (pxstep true st e) as [s1|] eqn:E; [|discriminate]. apply (IH s1 st' (pxstep_inv st e s1 I E) H).
Qed.

(* every reachable state of any number of interleaved requests — response sets opened, dropped
   unopened, closed any number of times from any of the call sites — has each buffer at most
   once in the pool, and no pooled buffer is held by an open response set *)
Lemma px_single_put es st : pxrun true pxinit es = Some st ->
  NoDup (mpool (px_m st) ++ somes (held (px_m st))).
Proof. intro H. apply (pxrun_inv es pxinit st minit_inv H). Qed.

Lemma proxy_case_pred reqs k nfail sharded st :
  pxrun true pxinit (px_requests reqs k nfail sharded 0 0) = Some st ->
  pred_ok (CProxy reqs k nfail sharded (negb (nodup_n (mpool (px_m st))))) = true.
Proof.
  intro H. cbn [pred_ok]. rewrite negb_involutive. apply nodup_n_spec.
  apply (nodup_app_l _ _ (px_single_put _ _ H)).
Qed.

Lemma px_unfixed_refuted :
  option_map (fun st => mpool (px_m st))
    (pxrun false pxinit [EvOpen 0 true 0; EvClose 0 0 CSExhausted; EvClose 0 0 CSDeferred]) = Some [0; 0] /\
  option_map (fun st => mpool (px_m st))
    (pxrun true pxinit [EvOpen 0 true 0; EvOpenFail 0 true 1; EvOpen 1 true 2; EvClose 0 0 CSExhausted; EvClose 1 0 CSErrorPath;
                        EvClose 0 0 CSDeferred; EvClose 1 0 CSTreeClose; EvClose 1 0 CSDeferred]) = Some [2; 0].
Proof. split; reflexivity. Qed.

(* the call sites of the model's close_site, in the source *)
Lemma close_sites_in_source :
  loserTreeCloseSites = ["Close: t.close(e.items)"; "moveNext: t.close(n.items)"]%string /\
  proxySeriesCloseCalls = ["defer respSet.Close"]%string /\
  bucketSeriesCloseCalls = ["defer blockClient.Close"; "call resp.Close"; "defer lt.Close"]%string /\
  newAsyncRespSetCloseCalls = []%string /\
  newAsyncRespSetOpenEvents =
    [("call", "storeInfo"); ("call", "grpc_opentracing.ClientAddContextTags"); ("call", "context.WithCancel");
     ("call", "shardInfo.Matcher"); ("call", "st.SupportsSharding"); ("if", "applySharding"); ("call", "st.String");
     ("call", "level.Debug"); ("call", "level.Debug().Log"); ("endif", ""); ("call", "st.Series"); ("if", "err != nil");
     ("call", "errors.Wrapf"); ("call", "cancel"); ("return", "nil, err"); ("endif", "")]%string /\
  In "s.Close"%string loserTreeCloseCalls /\
  In "l.shardMatcher.Close"%string lazyRespSetCloseCalls /\ In "l.shardMatcher.Close"%string eagerRespSetCloseCalls.
Proof. repeat split; try reflexivity; cbn; tauto. Qed.

(* before the fix: one matcher closed twice leaves its buffer in the pool twice, and the next
   two matchers both get it *)
Lemma shard_unfixed_refuted :
  option_map mpool (mrun false minit [MNew true 0; MClose 0; MClose 0]) = Some [0; 0] /\
  option_map (fun st => somes (held st)) (mrun false minit [MNew true 0; MClose 0; MClose 0; MNew true 0; MNew true 0])
    = Some [0; 0; 0] /\
  option_map mpool (mrun true minit [MNew true 0; MClose 0; MClose 0]) = Some [0].
Proof. repeat split; reflexivity. Qed.

(* ---- tie T ----------------------------------------------------------------------------------- *)

Lemma source_shape :
  poolUsedTotalUpdates = ["p.usedTotal += uint64(cap(*b))"; "p.usedTotal += uint64(sz)"; "p.usedTotal = 0";
                          "p.usedTotal -= uint64(sz)"]%string /\
  In ("if", "p.maxTotal > 0 && p.usedTotal+uint64(bktSize) > p.maxTotal")%string poolGetEvents /\
  In ("if", "p.maxTotal > 0 && p.usedTotal+uint64(sz) > p.maxTotal")%string poolGetEvents /\
  shardMatcherCloseEvents = [("if", "s == nil"); ("return", ""); ("endif", ""); ("if", "s.buffers != nil");
                             ("call", "s.buffers.Put"); ("endif", "")]%string /\
  shardMatcherCloseAssigns = ["s.buffers = nil"]%string /\
  In "respSet.Close"%string proxySeriesDefers /\ In "s.Close"%string loserTreeCloseCalls /\
  In "l.shardMatcher.Close"%string lazyRespSetCloseCalls /\ In "l.shardMatcher.Close"%string eagerRespSetCloseCalls.
Proof. repeat split; try reflexivity; cbn; tauto. Qed.

(* ---- D. concurrent Get/Put: every interleaving of atomic steps keeps the budget -------------- *)

Lemma pget_raw sizes maxt u o sz p' : pget true sizes maxt (mkP u o) sz = Some p' ->
  used p' = u + charge sizes sz /\ out p' = o ++ [charge sizes sz] /\ (maxt = 0 \/ u + charge sizes sz <= maxt).
Proof.
  unfold pget. cbn [used out].
  destruct ((0 <? maxt) && (maxt <? u + charge sizes sz)) eqn:E; [discriminate|].
  intro H; inversion H; subst; clear H. cbn [used out]. repeat split.
  apply andb_false_iff in E as [E|E]; [apply N.ltb_ge in E; left; lia|apply N.ltb_ge in E; right; exact E].
Qed.

Lemma total_set : forall outs i o o', nth_error outs i = Some o ->
  total_out (set_nth i o' outs) + sum_n o = total_out outs + sum_n o'.
Proof.
  unfold total_out. induction outs as [|x outs IH]; intros [|i] o o' H; cbn in H; try discriminate.
  - inversion H; subst. cbn [set_nth map sum_n]. lia.
  - cbn [set_nth map sum_n]. specialize (IH i o o' H). lia.
Qed.

Lemma total_ge : forall outs i o, nth_error outs i = Some o -> sum_n o <= total_out outs.
Proof.
  unfold total_out. induction outs as [|x outs IH]; intros [|i] o H; cbn in H; try discriminate.
  - inversion H; subst. cbn [map sum_n]. lia.
  - cbn [map sum_n]. specialize (IH i o H). lia.
Qed.

Lemma sum_nth_le : forall l k c, nth_error l k = Some c -> c <= sum_n l.
Proof. intros l k c H. rewrite (sum_remove_nth l k c H). lia. Qed.

Definition tinv (maxt : N) (st : tstate) : Prop :=
  t_used st = total_out (t_outs st) /\ (maxt = 0 \/ t_used st <= maxt).

Lemma tstep_inv sizes maxt st i : tinv maxt st -> tinv maxt (fst (tstep true sizes maxt st i)).
Proof.
  intros [I1 I2]. unfold tstep.
  destruct (nth_error (t_progs st) i) as [[|o rest]|] eqn:Ep; try (split; assumption).
  destruct (nth_error (t_outs st) i) as [outs|] eqn:Eo; try (split; assumption).
  destruct o as [sz|k].
  - destruct (pget true sizes maxt (mkP (t_used st) outs) sz) as [p'|] eqn:G; cbn [fst]; [|split; assumption].
    destruct (pget_raw _ _ _ _ _ _ G) as (U & O & B). unfold tinv. cbn [t_used t_outs]. rewrite U, O. split.
    + pose proof (total_set (t_outs st) i outs (outs ++ [charge sizes sz]) Eo) as T. rewrite sum_app in T. cbn [sum_n] in T. lia.
    + exact B.
  - cbn [fst]. unfold pput. cbn [out used]. destruct (nth_error outs k) as [c|] eqn:Ek.
    + unfold tinv. cbn [t_used t_outs used out].
      pose proof (total_set (t_outs st) i outs (remove_nth k outs) Eo) as T.
      pose proof (sum_remove_nth _ _ _ Ek) as S. pose proof (total_ge _ _ _ Eo) as Gq.
      destruct (t_used st <=? c) eqn:L; [apply N.leb_le in L|apply N.leb_gt in L]; split; lia.
    + unfold tinv. cbn [t_used t_outs used out]. rewrite (set_nth_same _ _ _ Eo). split; assumption.
Qed.

Lemma tfinal_inv sizes maxt : forall sched st, tinv maxt st -> tinv maxt (tfinal true sizes maxt st sched).
Proof.
  induction sched as [|i r IH]; intros st I; cbn [tfinal]; [exact I|]. apply IH. apply tstep_inv. exact I.
Qed.

Lemma tinit_inv maxt threads : tinv maxt (tinit threads).
Proof.
  split; cbn [tinit t_used t_outs].
  - unfold total_out. induction threads; cbn; auto.
  - destruct (N.eq_dec maxt 0); [left; assumption|right; lia].
Qed.

(* for every set of threads and EVERY interleaving of their atomic Get/Put steps: UsedBytes equals
   the capacities checked out by all threads together and never exceeds maxTotal *)
Lemma concurrent_budget sizes maxt threads sched :
  let st := tfinal true sizes maxt (tinit threads) sched in
  t_used st = total_out (t_outs st) /\ (maxt <> 0 -> t_used st <= maxt).
Proof.
  cbn zeta. destruct (tfinal_inv sizes maxt sched (tinit threads) (tinit_inv maxt threads)) as [I1 I2].
  split; [exact I1|]. intro H. destruct I2; [contradiction|assumption].
Qed.

Lemma budget_bool maxt u : (maxt = 0 \/ u <= maxt) -> (maxt =? 0) || (u <=? maxt) = true.
Proof. intros [->|H]; [reflexivity|]. apply orb_true_iff. right. apply N.leb_le. exact H. Qed.

Lemma sched_pred_ok sizes maxt : forall sched st, tinv maxt st ->
  sched_pred maxt (t_outs st) (t_progs st) sched (trun true sizes maxt st sched) = true.
Proof.
  induction sched as [|i r IH]; intros st I; cbn [trun sched_pred]; [reflexivity|].
  pose proof (tstep_inv sizes maxt st i I) as I'. revert I'. unfold tstep.
  destruct (nth_error (t_progs st) i) as [[|o rest]|] eqn:Ep;
    try (intro I'; cbn [fst sched_pred]; rewrite ?Ep; destruct I as [J1 J2];
         rewrite (budget_bool _ _ J2), (proj2 (N.eqb_eq _ _) J1); cbn [andb]; apply (IH st (conj J1 J2))).
  destruct (nth_error (t_outs st) i) as [outs|] eqn:Eo.
  2:{ intro I'. cbn [fst sched_pred]. rewrite ?Ep, ?Eo. destruct I as [J1 J2].
      rewrite (budget_bool _ _ J2), (proj2 (N.eqb_eq _ _) J1). cbn [andb]. apply (IH st (conj J1 J2)). }
  destruct o as [sz|k].
  - destruct (pget true sizes maxt (mkP (t_used st) outs) sz) as [p'|] eqn:G; cbn [fst]; intro I'.
    + cbn [sched_pred]. rewrite ?Ep, ?Eo. destruct (pget_raw _ _ _ _ _ _ G) as (U & O & _).
      destruct I' as [J1 J2]. cbn [t_used t_outs] in J1, J2. rewrite <- O.
      rewrite (budget_bool _ _ J2), (proj2 (N.eqb_eq _ _) J1). cbn [andb].
      apply (IH (mkT (used p') (set_nth i (out p') (t_outs st)) (set_nth i rest (t_progs st))) (conj J1 J2)).
    + cbn [sched_pred]. rewrite ?Ep, ?Eo. rewrite (set_nth_same _ _ _ Eo).
      destruct I' as [J1 J2]. cbn [t_used t_outs] in J1, J2.
      rewrite (budget_bool _ _ J2), (proj2 (N.eqb_eq _ _) J1). cbn [andb].
      apply (IH (mkT (t_used st) (t_outs st) (set_nth i rest (t_progs st))) (conj J1 J2)).
  - cbn [fst]. intro I'. cbn [sched_pred]. rewrite ?Ep, ?Eo.
    assert (Ho : out (pput (mkP (t_used st) outs) k) = remove_nth k outs).
    { unfold pput. cbn [out]. destruct (nth_error outs k) eqn:Ek; [reflexivity|]. cbn [out]. symmetry. apply remove_nth_none. exact Ek. }
    rewrite <- Ho. destruct I' as [J1 J2]. cbn [t_used t_outs] in J1, J2.
    rewrite (budget_bool _ _ J2), (proj2 (N.eqb_eq _ _) J1). cbn [andb].
    apply (IH (mkT (used (pput (mkP (t_used st) outs) k)) (set_nth i (out (pput (mkP (t_used st) outs) k)) (t_outs st))
                   (set_nth i rest (t_progs st))) (conj J1 J2)).
Qed.

Lemma sched_case_pred sizes maxt threads sched :
  pred_ok (CSched sizes maxt threads sched (trun true sizes maxt (tinit threads) sched)) = true.
Proof. cbn [pred_ok]. apply (sched_pred_ok sizes maxt sched (tinit threads) (tinit_inv maxt threads)). Qed.

(* a Get cut into "test the budget" and, later, "account": two Get(80) on buckets 10/20/40/80 with
   maxTotal 100 both pass the test of the same state (the test is pget's), and both charges land *)
Lemma split_get_refuted :
  pget true [10; 20; 40; 80] 100 (mkP 0 []) 80 <> None /\ (* thread A: test passes on usedTotal = 0 *)
  pget true [10; 20; 40; 80] 100 (mkP 0 []) 80 <> None /\ (* thread B: test passes on the same usedTotal = 0 *)
  0 + charge [10; 20; 40; 80] 80 + charge [10; 20; 40; 80] 80 = 160 /\ 100 < 160 /\
  (* whereas atomically the second Get is refused *)
  pget true [10; 20; 40; 80] 100 (mkP 80 [80]) 80 = None.
Proof. repeat split; try discriminate; reflexivity. Qed.

Lemma concurrent_nonvacuous :
  trun true [10; 20; 40; 80] 100 (tinit [[TGet 80; TPut 0%nat]; [TGet 80; TGet 20]]) [0; 1; 1; 0; 1]%nat
    = [(true, 80, 80); (false, 0, 80); (true, 20, 100); (true, 0, 20); (true, 0, 20)].
Proof. reflexivity. Qed.

(* tie T: Get takes the pool's lock first and releases it by defer; the budget tests and the
   accounting are written inline in between (no other lock operation in Get) *)
Lemma get_critical_section :
  poolGetEvents =
    [("call", "p.mtx.Lock"); ("defer", "p.mtx.Unlock"); ("for", "range"); ("if", "sz > bktSize"); ("endif", "");
     ("call", "uint64"); ("if", "p.maxTotal > 0 && p.usedTotal+uint64(bktSize) > p.maxTotal");
     ("return", "nil, ErrPoolExhausted"); ("endif", ""); ("call", "p.buckets.Get"); ("if", "!ok"); ("call", "p.new");
     ("endif", ""); ("call", "cap"); ("call", "uint64"); ("return", "b, nil"); ("endfor", ""); ("call", "uint64");
     ("if", "p.maxTotal > 0 && p.usedTotal+uint64(sz) > p.maxTotal"); ("return", "nil, ErrPoolExhausted"); ("endif", "");
     ("call", "uint64"); ("call", "p.new"); ("return", "p.new(sz), nil")]%string /\
  (exists pre, poolPutEvents = pre ++ [("call", "p.mtx.Lock"); ("defer", "p.mtx.Unlock"); ("call", "uint64");
     ("if", "uint64(sz) >= p.usedTotal"); ("else", ""); ("call", "uint64"); ("endif", "")]%string).
Proof. split; [reflexivity|]. eexists (firstn 9 poolPutEvents). reflexivity. Qed.

(* ---- E. Put only after the receive goroutine has stopped ------------------------------------ *)

Lemma no_write_when_stopped : forall fuel sched step closer writes b,
  write_after_put b (trun_close fuel sched step closer writes true) = false.
Proof.
  induction fuel as [|f IH]; intros sched step closer writes b; cbn [trun_close]; [reflexivity|].
  destruct closer as [|a r].
  - destruct (sched step); reflexivity.
  - destruct a; destruct (sched step); cbn [write_after_put]; apply IH.
Qed.

Lemma fixed_from_wait : forall fuel sched step writes stopped,
  write_after_put false (trun_close fuel sched step [CWait; CPut; CCloseSend] writes stopped) = false.
Proof.
  induction fuel as [|f IH]; intros sched step writes stopped; cbn [trun_close]; [reflexivity|].
  destruct stopped.
  - destruct (sched step); cbn [write_after_put]; apply no_write_when_stopped.
  - destruct (sched step); destruct writes as [|w]; cbn [write_after_put orb].
    + apply IH.
    + apply IH.
    + apply IH.
    + apply IH.
Qed.

(* Close as written in the source (cancel, wait for the receive goroutine, Put, CloseSend): for
   EVERY interleaving with a receive goroutine that still handles any number of messages, nothing
   writes into the buffer after it went back to the pool *)
Lemma put_after_receiver fuel sched writes :
  write_after_put false (trun_close fuel sched 0 close_fixed writes false) = false.
Proof.
  unfold close_fixed. generalize 0%nat as step. revert writes.
  induction fuel as [|f IH]; intros writes step; cbn [trun_close]; [reflexivity|].
  destruct (sched step); destruct writes as [|w]; cbn [write_after_put orb].
  - apply fixed_from_wait.
  - apply fixed_from_wait.
  - apply no_write_when_stopped.
  - apply IH.
Qed.

(* with the Put moved before the wait, the schedule "closer, closer, then the receiver" writes
   into a buffer that is already pooled (and may be another request's by then) *)
Lemma early_put_refuted :
  trun_close 10 (fun s => Nat.ltb s 2) 0 close_early_put 1 false
    = [TAct CCancel; TAct CPut; TWrite; TStop; TAct CCloseSend; TAct CWait] /\
  write_after_put false (trun_close 10 (fun s => Nat.ltb s 2) 0 close_early_put 1 false) = true.
Proof. split; reflexivity. Qed.

(* tie T: the statements of the two Close methods, in source order *)
Lemma close_stmts_in_source :
  lazyCloseStmts = ["l.bufferedResponsesMtx.Lock()"; "l.closeSeries()"; "l.rb.close()"; "l.noMoreData = true";
                    "l.dataOrFinishEvent.Signal()"; "l.bufferedResponsesMtx.Unlock()"; "<-l.donec";
                    "l.shardMatcher.Close()"; "_ = l.cl.CloseSend()"]%string /\
  eagerCloseStmts = ["if l.closeSeries != nil { l.closeSeries() }"; "l.wg.Wait()"; "l.shardMatcher.Close()";
                     "_ = l.cl.CloseSend()"]%string.
Proof. split; reflexivity. Qed.
