(* C22 — distributeTimeseriesToReplicas: the groups, and why every series gets
   exactly one response per replica. *)
From Coq Require Import ZArith List Bool Lia Permutation.
Import ListNotations.
From Verif Require Import Lib.Corr Gen.C22 Model.C22 Proofs.C22.
Open Scope Z_scope.

Lemma dest_eqb_eq : forall a b, dest_eqb a b = true <-> a = b.
Proof.
  intros [a1 a2] [b1 b2]. unfold dest_eqb. cbn [fst snd]. rewrite andb_true_iff, !Nat.eqb_eq.
  split; [intros [-> ->]; reflexivity|intro H; inversion H; auto].
Qed.

Lemma dest_eqb_refl : forall a, dest_eqb a a = true.
Proof. intro a. apply dest_eqb_eq. reflexivity. Qed.

Lemma dest_eqb_neq : forall a b, a <> b -> dest_eqb a b = false.
Proof. intros a b H. destruct (dest_eqb a b) eqn:E; [apply dest_eqb_eq in E; contradiction|reflexivity]. Qed.

Definition keys (gs : list (dest * list nat)) : list dest := map fst gs.

Lemma add_keys_in : forall d s gs d', In d' (keys (add_to_group d s gs)) <-> d' = d \/ In d' (keys gs).
Proof.
  intros d s gs d'. induction gs as [|[d0 ids] r IH]; cbn [add_to_group keys map fst In].
  - intuition congruence.
  - destruct (dest_eqb d0 d) eqn:E; cbn [keys map fst In].
    + apply dest_eqb_eq in E. subst. intuition congruence.
    + unfold keys in IH. rewrite IH. intuition congruence.
Qed.

Lemma add_keys_nodup : forall d s gs, NoDup (keys (add_to_group d s gs)) <-> NoDup (keys gs).
Proof.
  intros d s gs. induction gs as [|[d0 ids] r IH]; cbn [add_to_group keys map fst].
  - split; intro; [constructor|constructor; [intros []|constructor]].
  - destruct (dest_eqb d0 d) eqn:E; cbn [keys map fst]; [tauto|].
    fold (keys (add_to_group d s r)) (keys r). rewrite !NoDup_cons_iff, IH, add_keys_in.
    assert (d0 <> d) by (intro; subst; rewrite dest_eqb_refl in E; discriminate). intuition congruence.
Qed.

Lemma add_group_ids : forall d s gs d',
  group_ids (add_to_group d s gs) d' =
  if dest_eqb d d' then Some (match group_ids gs d with Some ids => ids ++ [s] | None => [s] end)
  else group_ids gs d'.
Proof.
  intros d s gs d'. induction gs as [|[d0 ids] r IH]; cbn [add_to_group group_ids].
  - reflexivity.
  - destruct (dest_eqb d0 d) eqn:E; cbn [group_ids].
    + apply dest_eqb_eq in E. subst d0. destruct (dest_eqb d d'); reflexivity.
    + rewrite IH. destruct (dest_eqb d d') eqn:E2.
      * apply dest_eqb_eq in E2. subst d'. rewrite E. reflexivity.
      * reflexivity.
Qed.

Definition build (ins : list (dest * nat)) (gs : list (dest * list nat)) : list (dest * list nat) :=
  fold_left (fun gs x => add_to_group (fst x) (snd x) gs) ins gs.

Lemma build_keys_in : forall ins gs d, In d (keys (build ins gs)) <-> In d (map fst ins) \/ In d (keys gs).
Proof.
  induction ins as [|[d0 s] r IH]; intros gs d; cbn [build fold_left map fst snd In]; [tauto|].
  fold (build r (add_to_group d0 s gs)). rewrite IH, add_keys_in. intuition congruence.
Qed.

Lemma build_keys_nodup : forall ins gs, NoDup (keys gs) -> NoDup (keys (build ins gs)).
Proof.
  induction ins as [|[d0 s] r IH]; intros gs H; cbn [build fold_left fst snd]; [exact H|].
  apply IH. apply add_keys_nodup. exact H.
Qed.

Definition matching (d : dest) (ins : list (dest * nat)) : list nat :=
  map snd (filter (fun x => dest_eqb (fst x) d) ins).

Lemma build_group_ids : forall ins gs d,
  group_ids (build ins gs) d =
  match group_ids gs d with
  | Some ids => Some (ids ++ matching d ins)
  | None => match matching d ins with [] => None | l => Some l end
  end.
Proof.
  induction ins as [|[d0 s] r IH]; intros gs d; cbn [build fold_left fst snd].
  - unfold matching. cbn. destruct (group_ids gs d); [rewrite app_nil_r|]; reflexivity.
  - fold (build r (add_to_group d0 s gs)). rewrite IH, add_group_ids.
    unfold matching. cbn [filter fst]. destruct (dest_eqb d0 d) eqn:E.
    + apply dest_eqb_eq in E. subst d0. cbn [map snd].
      destruct (group_ids gs d); [rewrite <- app_assoc; reflexivity|reflexivity].
    + reflexivity.
Qed.

(* ---- the insertions of the two nested loops ---- *)
Lemma filter_flat_map : forall A B (f : B -> bool) (g : A -> list B) l,
  filter f (flat_map g l) = flat_map (fun x => filter f (g x)) l.
Proof. intros. induction l as [|x l IH]; cbn; [reflexivity|]. rewrite filter_app, IH. reflexivity. Qed.

Lemma map_flat_map : forall A B C (h : B -> C) (g : A -> list B) l,
  map h (flat_map g l) = flat_map (fun x => map h (g x)) l.
Proof. intros. induction l as [|x l IH]; cbn; [reflexivity|]. rewrite map_app, IH. reflexivity. Qed.

Lemma flat_map_if_filter : forall A (f : A -> bool) l, flat_map (fun x => if f x then [x] else []) l = filter f l.
Proof. intros. induction l as [|x l IH]; cbn; [reflexivity|]. rewrite IH. destruct (f x); reflexivity. Qed.

Lemma flat_map_ext' : forall A B (f g : A -> list B) l, (forall x, In x l -> f x = g x) -> flat_map f l = flat_map g l.
Proof. intros A B f g l H. induction l as [|x l IH]; cbn; [reflexivity|]. rewrite H by (left; reflexivity). rewrite IH; [reflexivity|]. intros y Hy. apply H. right. exact Hy. Qed.

(* one series contributes its id to (node, r) iff r is a replica of the request placed on node *)
Lemma matching_one_series : forall place replicas node r s, NoDup replicas ->
  map snd (filter (fun x => dest_eqb (fst x) (node, r)) (map (fun r' => ((placed place s r', r'), s)) replicas))
  = if existsb (Nat.eqb r) replicas && Nat.eqb (placed place s r) node then [s] else [].
Proof.
  intros place replicas node r s Hnd. induction replicas as [|r0 rest IH]; [reflexivity|].
  inversion Hnd as [|? ? Hnotin Hnd']; subst. specialize (IH Hnd').
  cbn [map filter fst existsb]. unfold dest_eqb at 1. cbn [fst snd].
  destruct (Nat.eqb_spec r0 r) as [->|Hne].
  - rewrite Nat.eqb_refl. cbn [orb andb]. rewrite andb_true_r.
    assert (Hex : existsb (Nat.eqb r) rest = false).
    { destruct (existsb (Nat.eqb r) rest) eqn:E; [|reflexivity]. apply existsb_exists in E as [x [Hin Hx]].
      apply Nat.eqb_eq in Hx. subst. contradiction. }
    rewrite Hex in IH. cbn [andb] in IH.
    destruct (Nat.eqb (placed place s r) node); cbn [map snd]; rewrite IH; reflexivity.
  - rewrite andb_false_r. destruct (Nat.eqb_spec r r0) as [->|_]; [congruence|]. cbn [orb]. exact IH.
Qed.

Lemma matching_insertions : forall place replicas node r, NoDup replicas -> In r replicas ->
  matching (node, r) (insertions place replicas) = ids_of place node r.
Proof.
  intros place replicas node r Hnd Hin. unfold matching, insertions, ids_of.
  rewrite filter_flat_map, map_flat_map.
  apply eq_trans with (flat_map (fun s => if Nat.eqb (placed place s r) node then [s] else []) (seq 0 (List.length place))).
  - apply flat_map_ext'. intros s _. cbv beta.
    assert (E : existsb (Nat.eqb r) replicas = true) by (apply existsb_exists; exists r; split; [exact Hin|apply Nat.eqb_refl]).
    pose proof (matching_one_series place replicas node r s Hnd) as M. rewrite E in M. cbn [andb] in M. exact M.
  - apply flat_map_if_filter.
Qed.

(* ---- the groups ---- *)
Lemma distribute_keys_nodup : forall place replicas, NoDup (keys (distribute place replicas)).
Proof. intros. unfold distribute. apply (build_keys_nodup (insertions place replicas) []). constructor. Qed.

Lemma distribute_keys_in : forall place replicas d,
  In d (keys (distribute place replicas)) <->
  exists s r, (s < List.length place)%nat /\ In r replicas /\ d = (placed place s r, r).
Proof.
  intros place replicas d. unfold distribute. fold (build (insertions place replicas) []).
  rewrite build_keys_in. cbn [keys map In]. unfold insertions. rewrite map_flat_map, in_flat_map. split.
  - intros [[s [Hs Hin]]|[]]. apply in_seq in Hs. rewrite map_map in Hin. apply in_map_iff in Hin as [r [Hr Hin]].
    cbn [fst] in Hr. exists s, r. split; [lia|]. split; [exact Hin|congruence].
  - intros [s [r [Hs [Hr ->]]]]. left. exists s. split; [apply in_seq; lia|].
    rewrite map_map. apply in_map_iff. exists r. split; [reflexivity|exact Hr].
Qed.

(* every group carries exactly the series the hashring places on (node, replica), in request order *)
Lemma distribute_group_ids : forall place replicas node r, NoDup replicas ->
  In (node, r) (keys (distribute place replicas)) ->
  group_ids (distribute place replicas) (node, r) = Some (ids_of place node r).
Proof.
  intros place replicas node r Hnd Hin.
  assert (Hr : In r replicas).
  { apply distribute_keys_in in Hin as [s [r' [_ [Hr' E]]]]. inversion E; subst. exact Hr'. }
  unfold distribute. fold (build (insertions place replicas) []). rewrite build_group_ids. cbn [group_ids].
  rewrite (matching_insertions place replicas node r Hnd Hr).
  destruct (ids_of place node r) eqn:E; [|reflexivity]. exfalso.
  apply distribute_keys_in in Hin as [s [r' [Hs [_ Ed]]]]. inversion Ed; subst.
  assert (In s (ids_of place (placed place s r') r')).
  { unfold ids_of. apply filter_In. split; [apply in_seq; lia|apply Nat.eqb_refl]. }
  rewrite E in H. contradiction.
Qed.

(* ---- one response per replica for every series ---- *)
Lemma count_occ_ids_of : forall place node r s, (s < List.length place)%nat ->
  count_occ Nat.eq_dec (ids_of place node r) s = if Nat.eqb (placed place s r) node then 1%nat else 0%nat.
Proof.
  intros place node r s Hs. unfold ids_of.
  assert (Hnd : NoDup (filter (fun s0 => Nat.eqb (placed place s0 r) node) (seq 0 (List.length place))))
    by (apply NoDup_filter, seq_NoDup).
  destruct (Nat.eqb (placed place s r) node) eqn:E.
  - apply NoDup_count_occ'; [exact Hnd|]. apply filter_In. split; [apply in_seq; lia|exact E].
  - apply count_occ_not_In. intro Hin. apply filter_In in Hin as [_ H]. congruence.
Qed.

Definition hits (place : list (list nat)) (s : nat) (d : dest) : bool := Nat.eqb (placed place s (snd d)) (fst d).

Lemma responses_of_hits : forall place ws s, (s < List.length place)%nat ->
  responses_of s (resps_of place ws) = Z.of_nat (List.length (filter (hits place s) (map write_dest ws))).
Proof.
  intros place ws s Hs. unfold responses_of. f_equal. unfold kinds_for, resps_of.
  induction ws as [|[[node r] k] ws IH]; [reflexivity|].
  cbn [map flat_map fst snd write_dest filter]. rewrite app_length, repeat_length, IH.
  rewrite (count_occ_ids_of place node r s Hs). unfold hits at 2. cbn [fst snd].
  destruct (Nat.eqb (placed place s r) node); cbn [List.length]; lia.
Qed.

Lemma filter_perm_len : forall (f : dest -> bool) l l', Permutation l l' ->
  List.length (filter f l) = List.length (filter f l').
Proof.
  intros f l l' H. induction H; cbn; try lia.
  - destruct (f x); cbn; lia.
  - destruct (f x), (f y); cbn; lia.
Qed.

Lemma NoDup_map_inj_in : forall A B (f : A -> B) l,
  NoDup l -> (forall x y, In x l -> In y l -> f x = f y -> x = y) -> NoDup (map f l).
Proof.
  intros A B f l Hnd Hinj. induction l as [|a l IH]; [constructor|].
  inversion Hnd as [|? ? Hnot Hnd']; subst. cbn [map]. constructor.
  - intro Hin. apply in_map_iff in Hin as [b [E Hb]].
    assert (b = a) by (apply Hinj; [right; exact Hb|left; reflexivity|exact E]). subst. contradiction.
  - apply IH; [exact Hnd'|]. intros x y Hx Hy. apply Hinj; right; assumption.
Qed.

Lemma hits_count : forall place replicas s, NoDup replicas -> (s < List.length place)%nat ->
  List.length (filter (hits place s) (keys (distribute place replicas))) = List.length replicas.
Proof.
  intros place replicas s Hnd Hs.
  set (F := filter (hits place s) (keys (distribute place replicas))).
  assert (HF : forall d, In d F <-> exists r, In r replicas /\ d = (placed place s r, r)).
  { intro d. unfold F. rewrite filter_In, distribute_keys_in. unfold hits. split.
    - intros [[s' [r [_ [Hr ->]]]] Hh]. cbn [fst snd] in Hh. apply Nat.eqb_eq in Hh. exists r. split; [exact Hr|congruence].
    - intros [r [Hr ->]]. split; [exists s, r; auto|]. cbn [fst snd]. apply Nat.eqb_refl. }
  change (List.length F = List.length replicas).
  transitivity (List.length (map snd F)); [symmetry; apply map_length|].
  apply Permutation_length. apply NoDup_Permutation.
  - apply NoDup_map_inj_in; [apply NoDup_filter, distribute_keys_nodup|].
    intros x y Hx Hy E. apply HF in Hx as [r [_ ->]]. apply HF in Hy as [r' [_ ->]]. cbn [snd] in E. subst. reflexivity.
  - exact Hnd.
  - intro r. rewrite in_map_iff. split.
    + intros [d [E Hd]]. apply HF in Hd as [r' [Hr' ->]]. cbn [snd] in E. subst. exact Hr'.
    + intro Hr. exists (placed place s r, r). split; [reflexivity|]. apply HF. exists r. auto.
Qed.

(* the hypothesis of the C22 theorems, derived: when the responses come from
   exactly the groups of the distribution (one each), every series gets one
   response per replica of the request *)
Lemma one_response_per_replica : forall place replicas ws, NoDup replicas ->
  Permutation (map write_dest ws) (keys (distribute place replicas)) ->
  forall s, (s < List.length place)%nat ->
  responses_of s (resps_of place ws) = Z.of_nat (List.length replicas).
Proof.
  intros place replicas ws Hnd Hp s Hs. rewrite (responses_of_hits place ws s Hs).
  rewrite (filter_perm_len _ _ _ Hp), (hits_count place replicas s Hnd Hs). reflexivity.
Qed.

Lemma replicas_of_nodup : forall rf rep, NoDup (replicas_of rf rep).
Proof.
  intros rf rep. unfold replicas_of. destruct (rep =? 0); [apply seq_NoDup|].
  constructor; [intros []|constructor].
Qed.

Lemma replicas_of_length : forall rf rep, 0 <= rf -> Z.of_nat (List.length (replicas_of rf rep)) = n_replicas rf rep.
Proof.
  intros rf rep H. unfold replicas_of, n_replicas. destruct (rep =? 0); [rewrite seq_length; lia|reflexivity].
Qed.

(* the corr_ok test of the check implies the permutation *)
Lemma dests_match_perm : forall gs ws, NoDup (keys gs) -> NoDup (map write_dest ws) ->
  dests_match gs ws = true -> Permutation (map write_dest ws) (keys gs).
Proof.
  intros gs ws Hg Hw H. unfold dests_match, dests_match_list in H.
  apply andb_true_iff in H as [H H3]. apply andb_true_iff in H as [H1 H2].
  apply NoDup_Permutation; [exact Hw|exact Hg|]. intro d. split.
  - intro Hin. rewrite forallb_forall in H3. specialize (H3 d Hin).
    apply existsb_exists in H3 as [g [Hg' E]]. apply dest_eqb_eq in E. rewrite E. apply in_map. exact Hg'.
  - intro Hin. apply in_map_iff in Hin as [g [<- Hg']]. rewrite forallb_forall in H2. specialize (H2 g Hg').
    apply existsb_exists in H2 as [d [Hd E]]. apply dest_eqb_eq in E. rewrite <- E. exact Hd.
Qed.
