(* C20 — the loop-level model (calculateSectionReplicas' index walk + GetN) computes
   exactly the specification [spec_answers] on zone-free rings. *)
From Coq Require Import ZArith List Bool Lia Arith Permutation Sorting.Sorted.
Import ListNotations.
From Verif Require Import Lib.Corr Lib.Hashring_Ketama Lib.Hashring_KetamaFacts Lib.Hashring_RingFacts
  Gen.C20 Model.C20 Proofs.C20.
Close Scope Z_scope.

(* ------------------------------------------------------------------ *)
(* the walk over a list of sections                                     *)

Fixpoint lw (rf : nat) (reps : list nat) (L : list section) : list nat :=
  match L with
  | [] => reps
  | s :: r =>
    if rf <=? length reps then reps
    else if mem (s_ep s) reps then lw rf reps r
    else lw rf (reps ++ [s_ep s]) r
  end.

Lemma dedup_seen_ext l : forall seen seen', (forall x, In x seen <-> In x seen') -> dedup seen l = dedup seen' l.
Proof.
  induction l as [|x r IH]; intros seen seen' H; simpl; [reflexivity|].
  rewrite (existsb_congr x seen seen' (H x)).
  destruct (existsb (Nat.eqb x) seen'); [apply IH; exact H|]. f_equal. apply IH.
  intro y. simpl. rewrite (H y). reflexivity.
Qed.

Lemma lw_spec rf : forall L reps, length reps <= rf ->
  lw rf reps L = firstn rf (reps ++ dedup reps (map s_ep L)).
Proof.
  induction L as [|s r IH]; intros reps Hle; simpl.
  - rewrite app_nil_r, firstn_all2 by lia. reflexivity.
  - destruct (rf <=? length reps) eqn:E.
    + apply Nat.leb_le in E. assert (length reps = rf) by lia.
      rewrite firstn_app, firstn_all2 by lia. replace (rf - length reps) with 0 by lia. simpl. rewrite app_nil_r. reflexivity.
    + apply Nat.leb_gt in E. unfold mem. destruct (existsb (Nat.eqb (s_ep s)) reps) eqn:M.
      * apply IH. exact Hle.
      * rewrite IH by (rewrite app_length; simpl; lia). rewrite <- app_assoc. simpl. do 3 f_equal.
        apply dedup_seen_ext. intro x. rewrite in_app_iff. simpl. tauto.
Qed.

(* ------------------------------------------------------------------ *)
(* the index walk follows the list walk                                 *)

Section SingleZone.
  Variable ring : list section.
  Hypothesis ring_ne : ring <> [].
  Variable a0 : Z.
  Hypothesis ring_az : forall s, In s ring -> s_az s = a0.
  Let len := length ring.

  Lemma rejects_single reps c s : rejects reps [(a0, c)] s = mem (s_ep s) reps.
  Proof. unfold rejects, mem. simpl. rewrite orb_false_r. reflexivity. Qed.

  Lemma walk_follows rf : forall L fuel jn since reps c,
    (forall t, t < length L -> nth t L dummy_section = nth ((jn + t) mod len) ring dummy_section) ->
    since + length L <= len -> length L < fuel ->
    rf <= length (lw rf reps L) ->
    walk true fuel ring rf jn since reps [(a0, c)] = Done (lw rf reps L).
  Proof.
    assert (Hlen : 0 < len) by (unfold len; destruct ring; [congruence|simpl; lia]).
    induction L as [|s r IH]; intros fuel jn since reps c Hnth Hs Hf Hdone.
    - simpl in Hdone. destruct fuel; simpl; rewrite (proj2 (Nat.leb_le _ _) Hdone); reflexivity.
    - destruct fuel as [|f]; [simpl in Hf; lia|]. simpl in Hdone |- *.
      destruct (rf <=? length reps) eqn:E; [reflexivity|].
      fold len. simpl in Hs.
      destruct (len <=? since) eqn:E2; [apply Nat.leb_le in E2; lia|]. simpl.
      assert (Hs0 : nth (jn mod len) ring dummy_section = s).
      { specialize (Hnth 0 ltac:(simpl; lia)). simpl in Hnth. rewrite Nat.add_0_r in Hnth. symmetry. exact Hnth. }
      rewrite Hs0, rejects_single.
      assert (Hnth' : forall t, t < length r ->
                nth t r dummy_section = nth ((S (jn mod len) + t) mod len) ring dummy_section).
      { intros t Ht. specialize (Hnth (S t) ltac:(simpl; lia)). simpl in Hnth. rewrite Hnth. f_equal.
        replace (S (jn mod len) + t) with (jn mod len + S t) by lia.
        rewrite Nat.add_mod_idemp_l by lia. reflexivity. }
      assert (Hin : In s ring).
      { rewrite <- Hs0. apply nth_In. apply Nat.mod_upper_bound. lia. }
      destruct (mem (s_ep s) reps) eqn:M.
      + apply IH; [exact Hnth'|lia|simpl in Hf; lia|exact Hdone].
      + rewrite (ring_az s Hin). simpl. rewrite Z.eqb_refl.
        apply IH; [exact Hnth'|lia|simpl in Hf; lia|exact Hdone].
  Qed.
End SingleZone.

(* ------------------------------------------------------------------ *)
(* rotations                                                            *)

Definition rot_i {A} (l : list A) (i : nat) : list A := skipn i l ++ firstn i l.

Lemma nth_firstn' {A} (d : A) : forall l i t, t < i -> nth t (firstn i l) d = nth t l d.
Proof.
  induction l as [|a l IH]; intros i t Ht; destruct i, t; simpl; try reflexivity; try lia.
  apply IH. lia.
Qed.

Lemma nth_skipn' {A} (d : A) : forall l i t, nth t (skipn i l) d = nth (i + t) l d.
Proof.
  induction l as [|a l IH]; intros i t; destruct i; simpl; try reflexivity.
  - destruct t; reflexivity.
  - apply IH.
Qed.

Lemma rot_i_nth {A} (d : A) l i t : i < length l -> t < length l ->
  nth t (rot_i l i) d = nth ((i + t) mod length l) l d.
Proof.
  intros Hi Ht. unfold rot_i. destruct (le_lt_dec (length l - i) t) as [Hge|Hlt].
  - rewrite app_nth2 by (rewrite skipn_length; lia). rewrite skipn_length.
    rewrite nth_firstn' by lia.
    replace (i + t) with ((t - (length l - i)) + 1 * length l) by lia.
    rewrite Nat.mod_add by lia. rewrite Nat.mod_small by lia. reflexivity.
  - rewrite app_nth1 by (rewrite skipn_length; lia).
    rewrite Nat.mod_small by lia. apply nth_skipn'.
Qed.

Lemma rot_i_length {A} (l : list A) i : length (rot_i l i) = length l.
Proof. unfold rot_i. rewrite app_length, skipn_length, firstn_length. lia. Qed.

(* on a hash-sorted ring, "from the first section with hash >= v, cyclically"
   is the rotation at sort.Search's index (wrapping to 0) *)
Lemma rot_v_is_rot_i ring v : StronglySorted hash_le ring ->
  rot_v ring v = rot_i ring (ring_index ring v).
Proof.
  intro S. unfold rot_v, rot_i, ring_index.
  assert (H : filter (fun s => (v <=? s_hash s)%Z) ring = skipn (search_ge ring v) ring /\
              filter (fun s => (s_hash s <? v)%Z) ring = firstn (search_ge ring v) ring).
  { induction S as [|s r Sr IH F]; simpl; [split; reflexivity|].
    destruct (v <=? s_hash s)%Z eqn:E.
    - apply Z.leb_le in E. simpl.
      assert (Hall : forall x, In x r -> (v <=? s_hash x)%Z = true /\ (s_hash x <? v)%Z = false).
      { rewrite Forall_forall in F. intros x Hx. specialize (F x Hx). unfold hash_le in F.
        split; [apply Z.leb_le|apply Z.ltb_ge]; lia. }
      split.
      + f_equal. apply filter_all. intros x Hx. apply Hall. exact Hx.
      + destruct (s_hash s <? v)%Z eqn:E'; [apply Z.ltb_lt in E'; lia|].
        apply filter_none. intros x Hx. apply Hall. exact Hx.
    - apply Z.leb_gt in E. simpl. destruct IH as [I1 I2].
      destruct (s_hash s <? v)%Z eqn:E'; [|apply Z.ltb_ge in E'; lia].
      split; [exact I1|f_equal; exact I2]. }
  destruct H as [H1 H2]. rewrite H1, H2.
  destruct (search_ge ring v =? length ring) eqn:E; [|reflexivity].
  apply Nat.eqb_eq in E. rewrite E, skipn_all, firstn_all. simpl. rewrite app_nil_r. reflexivity.
Qed.

(* ------------------------------------------------------------------ *)
(* assembly                                                             *)

From Verif Require Import Lib.Hashring_Answers Lib.Hashring_AnswersFacts Lib.Hashring_Build.

Lemma dedup_complete : forall l seen x, In x l -> In x seen \/ In x (dedup seen l).
Proof.
  induction l as [|y r IH]; intros seen x Hin; simpl; [contradiction|].
  destruct (existsb (Nat.eqb y) seen) eqn:E.
  - destruct Hin as [->|Hin]; [left; apply existsb_nat_In; exact E|apply IH; exact Hin].
  - destruct Hin as [->|Hin]; [right; now left|].
    destruct (IH (y :: seen) x Hin) as [[->|H]|H]; [right; now left|now left|right; now right].
Qed.

Lemma calc_from_nth check fuel ring rf azs : forall is out,
  calc_from check fuel ring rf azs is = COk out ->
  forall k, k < length is ->
  walk check fuel ring rf (nth k is 0) 0 [] (spread_init azs) = Done (nth k out []).
Proof.
  induction is as [|i r IH]; intros out H k Hk; simpl in *; [lia|].
  destruct (walk check fuel ring rf i 0 [] (spread_init azs)) eqn:W; try discriminate.
  destruct (calc_from check fuel ring rf azs r) eqn:C; try discriminate.
  inversion H; subst. destruct k; [exact W|]. simpl. apply IH; [reflexivity|lia].
Qed.

Lemma az_set_nozone_seen r : az_set [0%Z] (nozone r) = [0%Z].
Proof. induction r as [|h r IH]; simpl; [reflexivity|exact IH]. Qed.

Lemma az_set_nozone hs : hs <> [] -> az_set [] (nozone hs) = [0%Z].
Proof. destruct hs as [|h r]; [congruence|]. intros _. simpl. apply az_set_nozone_seen. Qed.

Lemma nozone_length hs : length (nozone hs) = length hs.
Proof. apply map_length. Qed.

Lemma nozone_sections_az hs s : In s (sort_sections (sections_of 0 (nozone hs))) -> s_az s = 0%Z.
Proof.
  intro Hs. apply (proj1 (sort_sections_In _ _)) in Hs. apply sections_of_In in Hs as [_ [h [Hn _]]].
  apply nth_error_In in Hn. unfold nozone in Hn. apply in_map_iff in Hn as [x [E _]]. inversion E. reflexivity.
Qed.

Lemma loop_is_spec hs rf v :
  rf <= length hs -> Forall (fun h => h <> []) hs -> hs <> [] ->
  loop_answers hs rf v = Some (spec_answers (spec_ring hs) rf v).
Proof.
  intros Hrf Hsec Hne.
  set (eps := nozone hs).
  assert (Hsec' : Forall (fun e : Z * list Z => snd e <> []) eps).
  { unfold eps, nozone. rewrite Forall_forall in *. intros e He. apply in_map_iff in He as [h [<- Hh]]. simpl. auto. }
  assert (Hlen : length eps = length hs) by apply nozone_length.
  destruct (single_zone_ok eps rf) as [ring [reps K]].
  { unfold eps. rewrite (az_set_nozone hs Hne). simpl. lia. }
  { lia. }
  { exact Hsec'. }
  (* shape of the result *)
  assert (Heq : loop_answers hs rf v = ketama_answers eps rf v).
  { unfold loop_answers, loop_query, ketama_answers. fold eps. rewrite Hlen. reflexivity. }
  rewrite Heq.
  assert (Hsne : sections_of 0 eps <> []).
  { destruct hs as [|h r]; [congruence|]. inversion Hsec; subst. destruct h as [|x h]; [congruence|]. simpl. discriminate. }
  destruct (ketama_answers eps rf v) as [a|] eqn:A.
  2:{ unfold ketama_answers in A. rewrite K in A. discriminate. }
  destruct (ketama_answers_spec eps rf v a Hsne A) as [ring2 [reps2 [K2 [Hring [Ea _]]]]].
  rewrite K in K2. inversion K2; subst ring2 reps2. clear K2. f_equal. rewrite Ea.
  (* the replicas of the section found by the lookup *)
  pose proof K as K'. unfold ketama_new, ketama_new_fuel in K'.
  destruct (length eps <? rf); [discriminate|].
  destruct (calc_replicas true _ (sort_sections (sections_of 0 eps)) rf (az_set [] eps)) eqn:C; try discriminate.
  inversion K'; subst ring replicas. clear K'. unfold calc_replicas in C.
  set (ring := sort_sections (sections_of 0 eps)) in *.
  set (idx := ring_index ring v).
  assert (Hidx : idx < length ring) by (apply ring_index_lt; exact Hring).
  pose proof (calc_from_nth _ _ _ _ _ _ _ C idx ltac:(rewrite seq_length; exact Hidx)) as W.
  rewrite seq_nth in W by exact Hidx. simpl in W.
  unfold eps in W at 2. rewrite (az_set_nozone hs Hne) in W. simpl in W.
  assert (Hdone : rf <= length (lw rf [] (rot_i ring idx))).
  { rewrite lw_spec by (simpl; lia). simpl. rewrite firstn_length.
    assert (length hs <= length (dedup [] (map s_ep (rot_i ring idx)))); [|lia].
    rewrite <- (seq_length (length hs) 0).
    apply NoDup_incl_length; [apply seq_NoDup|].
    intros k Hk. apply in_seq in Hk.
    destruct (nth_error eps k) as [[az h]|] eqn:N; [|apply nth_error_None in N; lia].
    assert (h <> []). { rewrite Forall_forall in Hsec'. apply (Hsec' (az, h)). eapply nth_error_In; eauto. }
    destruct (sections_of_has eps 0 k az h N H) as [s [Hs [He _]]].
    destruct (dedup_complete (map s_ep (rot_i ring idx)) [] k) as [[]|Hd]; [|exact Hd].
    apply in_map_iff. exists s. split; [exact He|].
    unfold rot_i. apply in_or_app.
    assert (Hin : In s ring) by (apply sort_sections_In; exact Hs).
    rewrite <- (firstn_skipn idx ring) in Hin. apply in_app_or in Hin. tauto. }
  rewrite (walk_follows ring Hring 0%Z (nozone_sections_az hs) rf (rot_i ring idx)) in W.
  - injection W as W'. rewrite <- W'. rewrite lw_spec by (simpl; lia). simpl.
    unfold spec_answers, spec_ring. fold eps. fold ring.
    rewrite (rot_v_is_rot_i ring v (sort_sections_StronglySorted _)). reflexivity.
  - intros t Ht. rewrite rot_i_length in Ht. apply rot_i_nth; assumption.
  - rewrite rot_i_length. simpl. lia.
  - rewrite rot_i_length. unfold walk_fuel. unfold ring. rewrite sort_sections_length. nia.
  - exact Hdone.
Qed.

Lemma ins_length {A} p (e : A) l : length (ins p e l) = S (length l).
Proof.
  unfold ins. rewrite app_length. simpl.
  rewrite <- (firstn_skipn p l) at 3. rewrite app_length. lia.
Qed.

Lemma add_node_loop hs p e rf v :
  p <= length hs -> rf <= length hs -> hs <> [] ->
  Forall (fun h => h <> []) (ins p e hs) ->
  NoDup (map s_hash (sections_of 0 (nozone (ins p e hs)))) ->
  exists A A', loop_answers hs rf v = Some A /\ loop_answers (ins p e hs) rf v = Some A' /\
               only_onto_new p A A' = true.
Proof.
  intros Hp Hrf Hne Hsec Hnd.
  assert (Hsec0 : Forall (fun h => h <> []) hs).
  { rewrite Forall_forall in *. intros h Hh. apply Hsec. unfold ins.
    rewrite <- (firstn_skipn p hs) in Hh. apply in_app_or in Hh as [Hh|Hh]; apply in_or_app; [now left|right; now right]. }
  exists (spec_answers (spec_ring hs) rf v), (spec_answers (spec_ring (ins p e hs)) rf v).
  split; [apply loop_is_spec; assumption|]. split.
  - apply loop_is_spec; [rewrite ins_length; lia|exact Hsec|].
    intro X. apply (f_equal (@length _)) in X. rewrite ins_length in X. discriminate.
  - apply add_node_only_onto_new; assumption.
Qed.
