(* C20 — the loop-level model (calculateSectionReplicas' index walk + GetN) computes
   exactly the specification [spec_answers] on zone-free rings. *)
From Coq Require Import ZArith List Bool Lia Arith Permutation Sorting.Sorted.
Import ListNotations.
From Verif Require Import Lib.Corr Lib.Hashring_Ketama Lib.Hashring_KetamaFacts Lib.Hashring_RingFacts
  Gen.C20 Model.C20 Proofs.C20.
Close Scope Z_scope.

(* ------------------------------------------------------------------ *)
(* the walk over a list of sections                                     *)

Fixpoint lw (rf : nat) (reps : list nat) (L : list section) : list nat :=
  match L with
  | [] => reps
  | s :: r =>
    if rf <=? length reps then reps
    else if mem (s_ep s) reps then lw rf reps r
    else lw rf (reps ++ [s_ep s]) r
  end.

Lemma dedup_seen_ext l : forall seen seen', (forall x, In x seen <-> In x seen') -> dedup seen l = dedup seen' l.
Proof.
  induction l as [|x r IH]; intros seen seen' H; simpl; [reflexivity|].
  rewrite (existsb_congr x seen seen' (H x)).
  destruct (existsb (Nat.eqb x) seen'); [apply IH; exact H|]. f_equal. apply IH.
  intro y. simpl. rewrite (H y). reflexivity.
Qed.

Lemma lw_spec rf : forall L reps, length reps <= rf ->
  lw rf reps L = firstn rf (reps ++ dedup reps (map s_ep L)).
Proof.
  induction L as [|s r IH]; intros reps Hle; simpl.
  - rewrite app_nil_r, firstn_all2 by lia. reflexivity.
  - destruct (rf <=? length reps) eqn:E.
    + apply Nat.leb_le in E. assert (length reps = rf) by lia.
      rewrite firstn_app, firstn_all2 by lia. replace (rf - length reps) with 0 by lia. simpl. rewrite app_nil_r. reflexivity.
    + apply Nat.leb_gt in E. unfold mem. destruct (existsb (Nat.eqb (s_ep s)) reps) eqn:M.
      * apply IH. exact Hle.
      * rewrite IH by (rewrite app_length; simpl; lia). rewrite <- app_assoc. simpl. do 3 f_equal.
        apply dedup_seen_ext. intro x. rewrite in_app_iff. simpl. tauto.
Qed.

(* ------------------------------------------------------------------ *)
(* the index walk follows the list walk                                 *)

Section SingleZone.
  Variable ring : list section.
  Hypothesis ring_ne : ring <> [].
  Variable a0 : Z.
  Hypothesis ring_az : forall s, In s ring -> s_az s = a0.
  Let len := length ring.

  Lemma rejects_single reps c s : rejects reps [(a0, c)] s = mem (s_ep s) reps.
  Proof. unfold rejects, mem. simpl. rewrite orb_false_r. reflexivity. Qed.

  Lemma walk_follows rf : forall L fuel jn since reps c,
    (forall t, t < length L -> nth t L dummy_section = nth ((jn + t) mod len) ring dummy_section) ->
    since + length L <= len -> length L < fuel ->
    rf <= length (lw rf reps L) ->
    walk true fuel ring rf jn since reps [(a0, c)] = Done (lw rf reps L).
  Proof.
    assert (Hlen : 0 < len) by (unfold len; destruct ring; [congruence|simpl; lia]).
    induction L as [|s r IH]; intros fuel jn since reps c Hnth Hs Hf Hdone.
    - simpl in Hdone. destruct fuel; simpl; rewrite (proj2 (Nat.leb_le _ _) Hdone); reflexivity.
    - destruct fuel as [|f]; [simpl in Hf; lia|]. simpl in Hdone |- *.
      destruct (rf <=? length reps) eqn:E; [reflexivity|].
      fold len. simpl in Hs.
      destruct (len <=? since) eqn:E2; [apply Nat.leb_le in E2; lia|]. simpl.
      assert (Hs0 : nth (jn mod len) ring dummy_section = s).
      { specialize (Hnth 0 ltac:(simpl; lia)). simpl in Hnth. rewrite Nat.add_0_r in Hnth. symmetry. exact Hnth. }
      rewrite Hs0, rejects_single.
      assert (Hnth' : forall t, t < length r ->
                nth t r dummy_section = nth ((S (jn mod len) + t) mod len) ring dummy_section).
      { intros t Ht. specialize (Hnth (S t) ltac:(simpl; lia)). simpl in Hnth. rewrite Hnth. f_equal.
        replace (S (jn mod len) + t) with (jn mod len + S t) by lia.
        rewrite Nat.add_mod_idemp_l by lia. reflexivity. }
      assert (Hin : In s ring).
      { rewrite <- Hs0. apply nth_In. apply Nat.mod_upper_bound. lia. }
      destruct (mem (s_ep s) reps) eqn:M.
      + apply IH; [exact Hnth'|lia|simpl in Hf; lia|exact Hdone].
      + rewrite (ring_az s Hin). simpl. rewrite Z.eqb_refl.
        apply IH; [exact Hnth'|lia|simpl in Hf; lia|exact Hdone].
  Qed.
End SingleZone.

(* ------------------------------------------------------------------ *)
(* rotations                                                            *)

Definition rot_i {A} (l : list A) (i : nat) : list A := skipn i l ++ firstn i l.

Lemma nth_firstn' {A} (d : A) : forall l i t, t < i -> nth t (firstn i l) d = nth t l d.
Proof.
  induction l as [|a l IH]; intros i t Ht; destruct i, t; simpl; try reflexivity; try lia.
  apply IH. lia.
Qed.

Lemma nth_skipn' {A} (d : A) : forall l i t, nth t (skipn i l) d = nth (i + t) l d.
Proof.
  induction l as [|a l IH]; intros i t; destruct i; simpl; try reflexivity.
  - destruct t; reflexivity.
  - apply IH.
Qed.

Lemma rot_i_nth {A} (d : A) l i t : i < length l -> t < length l ->
  nth t (rot_i l i) d = nth ((i + t) mod length l) l d.
Proof.
  intros Hi Ht. unfold rot_i. destruct (le_lt_dec (length l - i) t) as [Hge|Hlt].
  - rewrite app_nth2 by (rewrite skipn_length; lia). rewrite skipn_length.
    rewrite nth_firstn' by lia.
    replace (i + t) with ((t - (length l - i)) + 1 * length l) by lia.
    rewrite Nat.mod_add by lia. rewrite Nat.mod_small by lia. reflexivity.
  - rewrite app_nth1 by (rewrite skipn_length; lia).
    rewrite Nat.mod_small by lia. apply nth_skipn'.
Qed.

Lemma rot_i_length {A} (l : list A) i : length (rot_i l i) = length l.
Proof. unfold rot_i. rewrite app_length, skipn_length, firstn_length. lia. Qed.

(* on a hash-sorted ring, "from the first section with hash >= v, cyclically"
   is the rotation at sort.Search's index (wrapping to 0) *)
Lemma rot_v_is_rot_i ring v : StronglySorted hash_le ring ->
  rot_v ring v = rot_i ring (ring_index ring v).
Proof.
  intro S. unfold rot_v, rot_i, ring_index.
  assert (H : filter (fun s => (v <=? s_hash s)%Z) ring = skipn (search_ge ring v) ring /\
              filter (fun s => (s_hash s <? v)%Z) ring = firstn (search_ge ring v) ring).
  { induction S as [|s r Sr IH F]; simpl; [split; reflexivity|].
    destruct (v <=? s_hash s)%Z eqn:E.
    - apply Z.leb_le in E. simpl.
      assert (Hall : forall x, In x r -> (v <=? s_hash x)%Z = true /\ (s_hash x <? v)%Z = false).
      { rewrite Forall_forall in F. intros x Hx. specialize (F x Hx). unfold hash_le in F.
        split; [apply Z.leb_le|apply Z.ltb_ge]; lia. }
      split.
      + f_equal. apply filter_all. intros x Hx. apply Hall. exact Hx.
      + destruct (s_hash s <? v)%Z eqn:E'; [apply Z.ltb_lt in E'; lia|].
        apply filter_none. intros x Hx. apply Hall. exact Hx.
    - apply Z.leb_gt in E. simpl. destruct IH as [I1 I2].
      destruct (s_hash s <? v)%Z eqn:E'; [|apply Z.ltb_ge in E'; lia].
      split; [exact I1|f_equal; exact I2]. }
  destruct H as [H1 H2]. rewrite H1, H2.
  destruct (search_ge ring v =? length ring) eqn:E; [|reflexivity].
  apply Nat.eqb_eq in E. rewrite E, skipn_all, firstn_all. simpl. rewrite app_nil_r. reflexivity.
Qed.
