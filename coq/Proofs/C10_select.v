(* C10 — the series selected through posting groups are exactly the series on which every
   matcher matches. *)
From Coq Require Import ZArith NArith List Bool Lia Sorted.
Import ListNotations.
From Verif Require Import Lib.Corr Lib.Storegw_Str Gen.C10 Model.C10 Proofs.C10 Proofs.C10_merge.
Open Scope Z_scope.

Definition consistent (ms : list matcher) : Prop :=
  forall m1 m2, In m1 ms -> In m2 ms -> matcher_same m1 m2 = true -> forall v, m_fun m1 v = m_fun m2 v.

(* no label with an empty name *)
Definition wf_index (idx : list series) : Prop := forall s, In s idx -> label_get (fst s) [] = [].

(* ---------- sorted key lists ---------- *)
Lemma sinsert_sorted x l : StronglySorted str_le l -> StronglySorted str_le (sinsert x l).
Proof.
  induction l as [|a l IH]; intro H; simpl; [constructor; constructor|].
  destruct (str_leb x a) eqn:E.
  - apply str_leb_le in E. constructor; [exact H|]. constructor; [exact E|].
    inversion H as [|? ? _ Hf]; subst. eapply Forall_impl; [|exact Hf]. intros b Hb. eapply str_le_trans; eauto.
  - apply str_leb_false_lt in E. inversion H as [|? ? Hs Hf]; subst. constructor; [apply IH; exact Hs|].
    apply Forall_forall. intros b Hb. apply sinsert_in in Hb. destruct Hb as [->|Hb].
    + apply str_lt_le. exact E.
    + rewrite Forall_forall in Hf. auto.
Qed.

Lemma ssort_sorted l : StronglySorted str_le (ssort l).
Proof. induction l; simpl; [constructor|apply sinsert_sorted; assumption]. Qed.

Lemma scompact_sorted : forall l, StronglySorted str_le l -> ssorted (scompact l).
Proof.
  induction l as [|a l IH]; intro H; [constructor|]. cbn [scompact].
  destruct l as [|b l']; [constructor; constructor|].
  inversion H as [|? ? Hs Hf]; subst.
  destruct (str_eqb a b) eqn:E; [apply IH; exact Hs|].
  constructor; [apply IH; exact Hs|].
  apply Forall_forall. intros z Hz. rewrite scompact_in in Hz. simpl in Hz.
  apply str_eqb_false_ne in E.
  inversion Hf as [|? ? Hab Hf']; subst.
  assert (Hlt : str_lt a b) by (destruct (str_le_cases _ _ Hab) as [->|L]; [congruence|exact L]).
  destruct Hz as [<-|Hz]; [exact Hlt|].
  inversion Hs as [|? ? _ Hbl]; subst. rewrite Forall_forall in Hbl.
  eapply str_lt_le_trans; [exact Hlt|]. apply Hbl. exact Hz.
Qed.

Lemma filter_ssorted f l : ssorted l -> ssorted (filter f l).
Proof.
  induction l as [|a l IH]; intro H; simpl; [constructor|].
  inversion H as [|? ? Hs Hf]; subst. destruct (f a); [|apply IH; exact Hs].
  constructor; [apply IH; exact Hs|]. apply Forall_forall. intros z Hz. apply filter_In in Hz.
  rewrite Forall_forall in Hf. apply Hf. tauto.
Qed.

Lemma label_values_sorted idx n : ssorted (label_values idx n).
Proof. unfold label_values. apply scompact_sorted, ssort_sorted. Qed.

Lemma label_values_no_empty idx n : smem [] (label_values idx n) = false.
Proof.
  destruct (smem [] (label_values idx n)) eqn:E; [|reflexivity].
  apply smem_in in E. unfold label_values in E. apply scompact_in, ssort_in, filter_In in E.
  destruct E as [_ E]. discriminate.
Qed.

Lemma label_values_has idx n s : In s idx ->
  smem (label_get (fst s) n) (label_values idx n) = true \/ label_get (fst s) n = [].
Proof.
  intro H. destruct (label_get (fst s) n) as [|x v] eqn:E; [right; reflexivity|left].
  apply smem_in. unfold label_values. apply scompact_in, ssort_in, filter_In. split; [|reflexivity].
  rewrite <- E. apply (in_map (fun s0 : series => label_get (fst s0) n)). exact H.
Qed.

Lemma to_group_wf m vals : ssorted vals -> wf_group (to_group m vals).
Proof.
  intro Hv. unfold to_group, wf_group.
  assert (Hs : ssorted (scompact (ssort (m_sets m)))) by apply scompact_sorted, ssort_sorted.
  assert (H1 : ssorted [m_value m]) by (constructor; constructor).
  assert (H0 : ssorted (@nil str)) by constructor.
  repeat match goal with
         | |- context [if ?c then _ else _] => destruct c
         end; cbn [g_all g_add g_rem]; repeat split; auto; try discriminate; try (apply filter_ssorted; exact Hv).
Qed.

Lemma to_group_name m vals : g_name (to_group m vals) = m_name m.
Proof.
  unfold to_group.
  repeat match goal with
         | |- context [if ?c then _ else _] => destruct c
         end; reflexivity.
Qed.

(* ---------- one label name: merge_name ---------- *)
Definition conj_ms (l : list matcher) (v : str) : bool := forallb (fun m => m_fun m v) l.
Definition acc_sem (acc : option group) (v : str) : bool :=
  match acc with None => true | Some g => in_group g v end.
Definition nonempty_group (g : group) : Prop := ~ (g_all g = false /\ g_add g = []).
Definition acc_wf (n : str) (acc : option group) : Prop :=
  match acc with None => True | Some g => wf_group g /\ nonempty_group g /\ g_name g = n end.

Lemma in_group_empty g v : g_all g = false -> g_add g = [] -> in_group g v = false.
Proof. intros H1 H2. unfold in_group. rewrite H1, H2. reflexivity. Qed.

Lemma empty_test g : negb (g_all g) && is_nil (g_add g) = true <-> (g_all g = false /\ g_add g = []).
Proof.
  rewrite andb_true_iff, negb_true_iff. split; intros [H1 H2]; split; auto.
  - apply is_nil_true. exact H2.
  - rewrite H2. reflexivity.
Qed.

Lemma merge_name_ok idx n : let lv := label_values idx n in
  let V := fun v => smem v lv = true \/ v = [] in
  forall ms_n acc, Forall coherent ms_n -> Forall (fun m => m_name m = n) ms_n -> acc_wf n acc ->
  match merge_name lv ms_n acc with
  | None => forall v, V v -> acc_sem acc v && conj_ms ms_n v = false
  | Some r => acc_wf n r /\ (forall v, V v -> acc_sem r v = acc_sem acc v && conj_ms ms_n v)
              /\ (r = None -> ms_n = [] /\ acc = None)
  end.
Proof.
  intros lv V. induction ms_n as [|m ms_n IH]; intros acc Hc Hn Hacc.
  - simpl. split; [exact Hacc|]. split; [|auto]. intros v _. rewrite andb_true_r. reflexivity.
  - inversion Hc as [|? ? Hcm Hc']; subst. inversion Hn as [|? ? Hnm Hn']; subst.
    cbn [merge_name].
    pose proof (to_group_wf m lv (label_values_sorted idx (m_name m))) as Hwf.
    assert (Hsem : forall v, V v -> in_group (to_group m lv) v = m_fun m v).
    { intros v Hv. apply group_sem; [exact Hcm | apply label_values_no_empty | exact Hv]. }
    set (pg := to_group m lv) in *.
    destruct (negb (g_all pg) && is_nil (g_add pg)) eqn:E1.
    + apply empty_test in E1. destruct E1 as [E1 E2]. intros v Hv.
      unfold conj_ms. cbn [forallb]. rewrite <- (Hsem v Hv), (in_group_empty pg v E1 E2).
      cbn [andb]. apply andb_false_r.
    + set (merged := match acc with None => pg | Some a => merge_keys a pg end).
      assert (Hmw : wf_group merged /\ g_name merged = m_name m).
      { unfold merged. destruct acc as [a|]; [|split; [exact Hwf|apply to_group_name]].
        destruct Hacc as (A1 & A2 & A3). split; [apply merge_keys_wf; assumption|].
        unfold merge_keys. repeat match goal with |- context [if ?c then _ else _] => destruct c end; exact A3. }
      destruct Hmw as [Hmw Hmn].
      assert (Hms : forall v, V v -> in_group merged v = acc_sem acc v && m_fun m v).
      { intros v Hv. unfold merged. destruct acc as [a|]; simpl acc_sem.
        - destruct Hacc as (A1 & A2 & A3). rewrite merge_keys_sem by assumption. rewrite (Hsem v Hv). reflexivity.
        - apply Hsem. exact Hv. }
      destruct (negb (g_all merged) && is_nil (g_add merged)) eqn:E2.
      * apply empty_test in E2. destruct E2 as [E2 E3]. intros v Hv.
        unfold conj_ms. cbn [forallb]. rewrite andb_assoc, <- (Hms v Hv), (in_group_empty merged v E2 E3). reflexivity.
      * assert (Hacc' : acc_wf (m_name m) (Some merged)).
        { simpl. split; [exact Hmw|]. split; [|exact Hmn]. intro Hbad. apply empty_test in Hbad. congruence. }
        specialize (IH (Some merged) Hc' Hn' Hacc').
        destruct (merge_name lv ms_n (Some merged)) as [r|].
        -- destruct IH as (I1 & I2 & I3). split; [exact I1|]. split.
           ++ intros v Hv. rewrite (I2 v Hv). simpl acc_sem. rewrite (Hms v Hv).
              unfold conj_ms. cbn [forallb]. rewrite andb_assoc. reflexivity.
           ++ intro Hr. destruct (I3 Hr) as [_ Hbad]. discriminate.
        -- intros v Hv. specialize (IH v Hv). simpl acc_sem in IH. rewrite (Hms v Hv) in IH.
           unfold conj_ms. cbn [forallb]. rewrite andb_assoc. exact IH.
Qed.

(* ---------- all label names: groups_for ---------- *)
Definition name_filter (ms : list matcher) (n : str) : list matcher := filter (fun m => str_eqb (m_name m) n) ms.
Definition gval (s : series) (g : group) : str := label_get (fst s) (g_name g).

Definition good_group (idx : list series) (ms : list matcher) (g : group) : Prop :=
  wf_group g /\ nonempty_group g /\ (exists m, In m ms /\ m_name m = g_name g)
  /\ forall s, In s idx -> in_group g (gval s g) = conj_ms (name_filter ms (g_name g)) (gval s g).

Lemma Forall_filter {A} (P : A -> Prop) f l : Forall P l -> Forall P (filter f l).
Proof. induction 1; simpl; [constructor|]. destruct (f x); [constructor|]; assumption. Qed.

Lemma groups_for_ok idx ms : Forall coherent ms ->
  forall names, (forall n, In n names -> exists m, In m ms /\ m_name m = n) ->
  match groups_for idx ms names with
  | None => exists n, In n names /\ forall s, In s idx -> conj_ms (name_filter ms n) (label_get (fst s) n) = false
  | Some gs => Forall (good_group idx ms) gs /\ (forall n, In n names -> exists g, In g gs /\ g_name g = n)
  end.
Proof.
  intro Hc. induction names as [|n names IH]; intro Hn.
  - simpl. split; [constructor|]. intros n [].
  - cbn [groups_for].
    assert (Hc' : Forall coherent (name_filter ms n)) by (apply Forall_filter; exact Hc).
    assert (Hnn : Forall (fun m => m_name m = n) (name_filter ms n)).
    { apply Forall_forall. intros m Hm. apply filter_In in Hm. apply str_eqb_eq. tauto. }
    pose proof (merge_name_ok idx n (name_filter ms n) None Hc' Hnn I) as Hm. cbv zeta in Hm.
    fold (name_filter ms n).
    assert (IH' := IH (fun n0 H0 => Hn n0 (or_intror H0))). clear IH.
    destruct (merge_name (label_values idx n) (name_filter ms n) None) as [[g|]|].
    + destruct Hm as ((W1 & W2 & W3) & Hsem & _).
      destruct (groups_for idx ms names) as [gs|].
      * destruct IH' as (G1 & G2). split.
        -- constructor; [|exact G1]. unfold good_group. split; [exact W1|]. split; [exact W2|]. split.
           ++ rewrite W3. apply Hn. left. reflexivity.
           ++ intros s Hs. unfold gval. rewrite W3.
              pose proof (Hsem _ (label_values_has idx n s Hs)) as Hx. simpl in Hx. exact Hx.
        -- intros n0 [<-|H0]; [exists g; split; [left; reflexivity|exact W3]|].
           destruct (G2 n0 H0) as (g0 & Hg0 & Hg1). exists g0. split; [right; exact Hg0|exact Hg1].
      * destruct IH' as (n0 & H0 & H1). exists n0. split; [right; exact H0|exact H1].
    + exfalso. destruct Hm as (_ & _ & H). destruct (H eq_refl) as [H1 _].
      destruct (Hn n (or_introl eq_refl)) as (m & Hm1 & Hm2).
      assert (In m (name_filter ms n)) by (apply filter_In; split; [exact Hm1|apply str_eqb_eq; exact Hm2]).
      rewrite H1 in H0. contradiction.
    + exists n. split; [left; reflexivity|]. intros s Hs.
      specialize (Hm (label_get (fst s) n) (label_values_has idx n s Hs)). exact Hm.
Qed.

(* ---------- matcher bookkeeping ---------- *)
Lemma matcher_same_refl m : matcher_same m m = true.
Proof. unfold matcher_same. rewrite !str_eqb_refl. destruct (m_type m); reflexivity. Qed.

Lemma mtype_eqb_eq a b : mtype_eqb a b = true -> a = b.
Proof. destruct a, b; simpl; congruence. Qed.

Lemma matcher_same_trans a b c : matcher_same a b = true -> matcher_same b c = true -> matcher_same a c = true.
Proof.
  unfold matcher_same. intros Hab Hbc.
  apply andb_true_iff in Hab. destruct Hab as [Hab H3]. apply andb_true_iff in Hab. destruct Hab as [H1 H2].
  apply andb_true_iff in Hbc. destruct Hbc as [Hbc H6]. apply andb_true_iff in Hbc. destruct Hbc as [H4 H5].
  apply mtype_eqb_eq in H1. apply mtype_eqb_eq in H4. apply str_eqb_eq in H2, H3, H5, H6.
  rewrite H1, H4, H2, H3, H5, H6, !str_eqb_refl. destruct (m_type c); reflexivity.
Qed.

Lemma dedup_sub m : forall ms, In m (dedup_matchers ms) -> In m ms.
Proof.
  induction ms as [|a ms IH]; simpl; [tauto|].
  destruct (existsb (matcher_same a) ms); [intro H; right; apply IH; exact H|].
  intros [<-|H]; [left; reflexivity|right; apply IH; exact H].
Qed.

Lemma dedup_repr : forall ms m, In m ms -> exists m', In m' (dedup_matchers ms) /\ matcher_same m m' = true.
Proof.
  induction ms as [|a ms IH]; intros m H; [contradiction|]. simpl.
  destruct (existsb (matcher_same a) ms) eqn:E.
  - destruct H as [<-|H]; [|apply IH; exact H].
    apply existsb_exists in E. destruct E as (b & Hb & Hab).
    destruct (IH b Hb) as (m' & Hm' & Hbm). exists m'. split; [exact Hm'|]. eapply matcher_same_trans; eauto.
  - destruct H as [<-|H].
    + exists a. split; [left; reflexivity|apply matcher_same_refl].
    + destruct (IH m H) as (m' & Hm' & Hs). exists m'. split; [right; exact Hm'|exact Hs].
Qed.

Lemma names_of_sub : forall ms seen n, In n (names_of ms seen) -> exists m, In m ms /\ m_name m = n.
Proof.
  induction ms as [|a ms IH]; intros seen n H; [contradiction|]. simpl in H.
  destruct (smem (m_name a) seen).
  - destruct (IH _ _ H) as (m & Hm & Hn). exists m. split; [right; exact Hm|exact Hn].
  - destruct H as [<-|H]; [exists a; split; [left; reflexivity|reflexivity]|].
    destruct (IH _ _ H) as (m & Hm & Hn). exists m. split; [right; exact Hm|exact Hn].
Qed.

Lemma names_of_cover : forall ms seen m, In m ms -> smem (m_name m) seen = true \/ In (m_name m) (names_of ms seen).
Proof.
  induction ms as [|a ms IH]; intros seen m H; [contradiction|]. simpl.
  destruct H as [<-|H].
  - destruct (smem (m_name a) seen) eqn:E; [left; reflexivity|right; left; reflexivity].
  - destruct (smem (m_name a) seen) eqn:E; [apply IH; exact H|].
    destruct (IH (m_name a :: seen) m H) as [H1|H1]; [|right; right; exact H1].
    simpl in H1. apply orb_true_iff in H1. destruct H1 as [H1|H1]; [|left; exact H1].
    apply str_eqb_eq in H1. right. left. symmetry. exact H1.
Qed.

(* ---------- the theorem ---------- *)
Lemma filter_none {A} (f : A -> bool) l : (forall a, In a l -> f a = false) -> filter f l = [].
Proof.
  induction l as [|a l IH]; intro H; [reflexivity|]. simpl. rewrite (H a (or_introl eq_refl)).
  apply IH. intros b Hb. apply H. right. exact Hb.
Qed.

Lemma matcher_same_name a b : matcher_same a b = true -> m_name a = m_name b.
Proof.
  unfold matcher_same. intro H. apply andb_true_iff in H. destruct H as [H _].
  apply andb_true_iff in H. destruct H as [_ H]. apply str_eqb_eq. exact H.
Qed.

Lemma select_eq_filter idx ms :
  ms <> [] -> Forall coherent ms -> consistent ms -> wf_index idx ->
  select idx ms = filter (fun s : series => forallb (fun m => m_fun m (label_get (fst s) (m_name m))) ms) idx.
Proof.
  intros Hne Hc Hcons Hidx.
  set (sat := fun s : series => forallb (fun m => m_fun m (label_get (fst s) (m_name m))) ms).
  set (ms' := dedup_matchers ms).
  assert (Hsub : forall m, In m ms' -> In m ms) by (intro m; apply dedup_sub).
  assert (Hc' : Forall coherent ms').
  { apply Forall_forall. intros m Hm. rewrite Forall_forall in Hc. apply Hc, Hsub, Hm. }
  (* every matcher holds on s  <->  every de-duplicated matcher holds on s *)
  assert (Hsat : forall s, sat s = true <-> forall m, In m ms' -> m_fun m (label_get (fst s) (m_name m)) = true).
  { intro s. unfold sat. rewrite forallb_forall. split; intros H m Hm.
    - apply H, Hsub, Hm.
    - destruct (dedup_repr ms m Hm) as (m' & Hm' & Hs).
      rewrite (matcher_same_name _ _ Hs). rewrite (Hcons m m' Hm (Hsub _ Hm') Hs). apply H. exact Hm'. }
  unfold select. destruct ms as [|m0 ms0]; [congruence|]. fold ms'.
  unfold matchers_to_groups. fold ms'.
  set (names := ssort (names_of ms' [])).
  assert (Hn1 : forall n, In n names -> exists m, In m ms' /\ m_name m = n).
  { intros n Hn. unfold names in Hn. rewrite ssort_in in Hn. exact (names_of_sub ms' [] n Hn). }
  assert (Hn2 : forall m, In m ms' -> In (m_name m) names).
  { intros m Hm. unfold names. rewrite ssort_in. destruct (names_of_cover ms' [] m Hm) as [H|H]; [discriminate|exact H]. }
  pose proof (groups_for_ok idx ms' Hc' names Hn1) as Hg.
  destruct (groups_for idx ms' names) as [gs|].
  2:{ (* some label name cannot be satisfied *)
    destruct Hg as (n & Hn & Hfalse). symmetry. apply filter_none. intros s Hs.
    specialize (Hfalse s Hs). fold (sat s). destruct (sat s) eqn:E; [|reflexivity]. exfalso.
    pose proof (proj1 (Hsat s) E) as E'. unfold conj_ms in Hfalse.
    assert (Ht : forallb (fun m => m_fun m (label_get (fst s) n)) (name_filter ms' n) = true).
    { apply forallb_forall. intros m Hm. apply filter_In in Hm. destruct Hm as [Hm Hnm]. apply str_eqb_eq in Hnm.
      rewrite <- Hnm. apply E'. exact Hm. }
    congruence. }
  destruct Hg as (Hgood & Hcover).
  rewrite Forall_forall in Hgood.
  (* all groups hold on s  <->  every matcher holds on s *)
  assert (Hgs : forall s, In s idx -> ((forall g, In g gs -> in_group g (gval s g) = true) <-> sat s = true)).
  { intros s Hs. rewrite Hsat. split.
    - intros H m Hm. destruct (Hcover _ (Hn2 m Hm)) as (g & Hg1 & Hg2).
      specialize (H g Hg1). destruct (Hgood g Hg1) as (_ & _ & _ & Hsem). rewrite (Hsem s Hs) in H.
      unfold conj_ms in H. rewrite forallb_forall in H. unfold gval in H. rewrite Hg2 in H. apply H.
      apply filter_In. split; [exact Hm|]. apply str_eqb_refl.
    - intros H g Hg. destruct (Hgood g Hg) as (_ & _ & _ & Hsem). rewrite (Hsem s Hs).
      unfold conj_ms. apply forallb_forall. intros m Hm. apply filter_In in Hm. destruct Hm as [Hm Hnm].
      apply str_eqb_eq in Hnm. unfold gval. rewrite <- Hnm. apply H. exact Hm. }
  set (kept := filter (fun g => negb (is_nil (g_add g) && is_nil (g_rem g))) gs).
  set (allReq := existsb g_all gs). set (hasAdds := existsb (fun g => negb (is_nil (g_add g))) gs).
  set (gs' := if allReq && negb hasAdds then kept ++ [all_group] else kept).
  set (adds := filter (fun g => negb (is_nil (g_add g))) gs').
  (* membership facts *)
  assert (Hkept : forall g, In g kept <-> In g gs /\ (g_add g <> [] \/ g_rem g <> [])).
  { intro g. unfold kept. rewrite filter_In. split; intros [H1 H2]; split; auto.
    - destruct (g_add g); [|left; discriminate]. destruct (g_rem g); [discriminate|right; discriminate].
    - destruct H2 as [H2|H2]; [destruct (g_add g); [congruence|reflexivity]|].
      destruct (g_add g); [|reflexivity]. destruct (g_rem g); [congruence|reflexivity]. }
  assert (Hgs'in : forall g, In g gs' -> In g kept \/ (g = all_group /\ allReq && negb hasAdds = true)).
  { intros g H. unfold gs' in H. destruct (allReq && negb hasAdds); [|left; exact H].
    apply in_app_or in H. destruct H as [H|[H|[]]]; [left; exact H|right; split; [symmetry; exact H|reflexivity]]. }
  assert (Hkept_gs' : forall g, In g kept -> In g gs').
  { intros g H. unfold gs'. destruct (allReq && negb hasAdds); [apply in_or_app; left; exact H|exact H]. }
  assert (Hgs_nonempty : gs <> []).
  { assert (Hm0 : In m0 (m0 :: ms0)) by (left; reflexivity).
    destruct (dedup_repr _ _ Hm0) as (m' & Hm' & _). destruct (Hcover _ (Hn2 m' Hm')) as (g & Hg & _).
    intro E. rewrite E in Hg. contradiction. }
  assert (Hadds_nonempty : adds <> []).
  { destruct (allReq && negb hasAdds) eqn:E.
    - assert (In all_group adds).
      { unfold adds. apply filter_In. split; [|reflexivity]. unfold gs'. try rewrite E. apply in_or_app. right. left. reflexivity. }
      intro E0. rewrite E0 in H. contradiction.
    - assert (Hex : exists g, In g gs /\ g_add g <> []).
      { apply andb_false_iff in E. destruct E as [E|E].
        - destruct gs as [|g gs0]; [congruence|]. exists g. split; [left; reflexivity|].
          assert (Hga : g_all g = false).
          { destruct (g_all g) eqn:Ega; [|reflexivity]. exfalso.
            assert (allReq = true) by (unfold allReq; apply existsb_exists; exists g; split; [left; reflexivity|exact Ega]). congruence. }
          destruct (Hgood g (or_introl eq_refl)) as (_ & Hnz & _). intro Ha. apply Hnz. split; assumption.
        - apply negb_false_iff in E. unfold hasAdds in E. apply existsb_exists in E. destruct E as (g & Hg & Hga).
          exists g. split; [exact Hg|]. destruct (g_add g); [discriminate|discriminate]. }
      destruct Hex as (g & Hg & Hga).
      assert (In g adds).
      { unfold adds. apply filter_In. split.
        - apply Hkept_gs'. apply Hkept. split; [exact Hg|left; exact Hga].
        - destruct (g_add g); [congruence|reflexivity]. }
      intro E0. rewrite E0 in H. contradiction. }
  destruct adds as [|a0 adds0] eqn:Eadds; [congruence|]. cbn [is_nil]. rewrite <- Eadds.
  apply filter_ext_in. intros s Hs. fold (sat s).
  apply eq_true_iff_eq. rewrite <- (Hgs s Hs). rewrite andb_true_iff, !forallb_forall.
  split.
  - intros [Ha Hr] g Hg. destruct (Hgood g Hg) as ((W1 & W2 & W3 & W4) & Hnz & _).
    unfold in_group. destruct (g_all g) eqn:Ega.
    + destruct (g_rem g) as [|r0 rr] eqn:Er; [reflexivity|]. rewrite <- Er.
      apply (Hr g). apply Hkept_gs'. apply Hkept. split; [exact Hg|right; rewrite Er; discriminate].
    + assert (Hga : g_add g <> []) by (intro Ha0; apply Hnz; split; assumption).
      apply (Ha g). unfold adds. apply filter_In. split.
      * apply Hkept_gs'. apply Hkept. split; [exact Hg|left; exact Hga].
      * destruct (g_add g); [congruence|reflexivity].
  - intro H. split.
    + intros g Hg. unfold adds in Hg. apply filter_In in Hg. destruct Hg as [Hg Hga].
      destruct (Hgs'in g Hg) as [Hk|[-> _]].
      * apply Hkept in Hk. destruct Hk as [Hk _]. specialize (H g Hk).
        destruct (Hgood g Hk) as ((W1 & W2 & W3 & W4) & _). unfold in_group, gval in H.
        destruct (g_all g) eqn:Ega; [|exact H]. rewrite (W3 eq_refl) in Hga. discriminate.
      * simpl. rewrite (Hidx s Hs). reflexivity.
    + intros g Hg. destruct (Hgs'in g Hg) as [Hk|[-> _]]; [|reflexivity].
      apply Hkept in Hk. destruct Hk as [Hk _]. specialize (H g Hk).
      destruct (Hgood g Hk) as ((W1 & W2 & W3 & W4) & _). unfold in_group, gval in H.
      destruct (g_all g) eqn:Ega; [exact H|]. rewrite (W4 eq_refl). reflexivity.
Qed.

(* ---------- the whole answer ---------- *)
Definition sat_all (ms : list matcher) (s : series) : bool :=
  forallb (fun m => m_fun m (label_get (fst s) (m_name m))) ms.

(* the specification: the series on which every matcher matches, with their chunks overlapping
   the range; series without such chunks dropped; external labels attached *)
Definition spec_answer (idx : list series) (ext : lset) (ms : list matcher) (mint maxt : Z) : list series :=
  flat_map (fun s : series =>
              match filter (overlaps mint maxt) (snd s) with
              | [] => []
              | cs => [(extend (fst s) ext, cs)]
              end) (filter (sat_all ms) idx).

Definition chunks_sorted (idx : list series) : Prop :=
  forall s, In s idx -> StronglySorted (fun a b => cmin_of a <= cmin_of b) (snd s).

Lemma flat_map_ext_in {A B} (f g : A -> list B) l : (forall a, In a l -> f a = g a) -> flat_map f l = flat_map g l.
Proof.
  induction l as [|a l IH]; intro H; [reflexivity|]. simpl. rewrite (H a (or_introl eq_refl)).
  rewrite IH; [reflexivity|]. intros b Hb. apply H. right. exact Hb.
Qed.

Lemma answer_eq_spec idx ext ms mint maxt :
  ms <> [] -> Forall coherent ms -> consistent ms -> wf_index idx -> chunks_sorted idx ->
  answer idx ext true ms mint maxt = spec_answer idx ext ms mint maxt.
Proof.
  intros H1 H2 H3 H4 H5. unfold answer, spec_answer. cbn [negb].
  rewrite (select_eq_filter idx ms H1 H2 H3 H4). apply flat_map_ext_in.
  intros s Hs. apply filter_In in Hs. destruct Hs as [Hs _].
  rewrite (chunks_for_filter (snd s) mint maxt (H5 s Hs)). reflexivity.
Qed.

Lemma kv_eqb_refl a : kv_eqb a a = true.
Proof. unfold kv_eqb. rewrite !str_eqb_refl. reflexivity. Qed.
Lemma chunk_eqb_refl a : chunk_eqb a a = true.
Proof. destruct a as [[a b] c]. simpl. rewrite !Z.eqb_refl. reflexivity. Qed.
Lemma list_eqb_refl' {A} (eqb : A -> A -> bool) : (forall x, eqb x x = true) -> forall l, list_eqb eqb l l = true.
Proof. intros H l. induction l; simpl; [reflexivity|]. rewrite H, IHl. reflexivity. Qed.
Lemma series_eqb_refl s : series_eqb s s = true.
Proof. unfold series_eqb. rewrite (list_eqb_refl' kv_eqb kv_eqb_refl), (list_eqb_refl' chunk_eqb chunk_eqb_refl). reflexivity. Qed.
Lemma set_eqb_refl l : set_eqb l l = true.
Proof.
  unfold set_eqb. rewrite Nat.eqb_refl.
  assert (H : forallb (fun x => existsb (series_eqb x) l) l = true).
  { apply forallb_forall. intros x Hx. apply existsb_exists. exists x. split; [exact Hx|apply series_eqb_refl]. }
  rewrite H. reflexivity.
Qed.

(* ---------- lazy posting groups ---------- *)
(* Any set of label names may be marked lazy: their groups' postings are not fetched and all
   matchers of those names are re-checked on every candidate series instead
   (keysToFetchFromPostingGroups + the lazy matcher loop of nextBatch). The selected set is
   the same for EVERY marking. *)
Lemma lazy_split_sem idx ms gs (lazy : str -> bool) :
  (forall g, In g gs -> good_group idx ms g) ->
  (forall m, In m ms -> exists g, In g gs /\ g_name g = m_name m) ->
  forall s, In s idx ->
  forallb (fun g => in_group g (gval s g)) (filter (fun g => negb (lazy (g_name g))) gs)
  && forallb (fun m => m_fun m (label_get (fst s) (m_name m))) (filter (fun m => lazy (m_name m)) ms)
  = forallb (fun g => in_group g (gval s g)) gs.
Proof.
  intros Hgood Hcover s Hs. apply eq_true_iff_eq. rewrite andb_true_iff, !forallb_forall. split.
  - intros [He Hl] g Hg. destruct (lazy (g_name g)) eqn:El.
    + destruct (Hgood g Hg) as (_ & _ & _ & Hsem). rewrite (Hsem s Hs). unfold conj_ms. apply forallb_forall.
      intros m Hm. apply filter_In in Hm. destruct Hm as [Hm Hn]. apply str_eqb_eq in Hn.
      unfold gval. rewrite <- Hn. apply Hl. apply filter_In. split; [exact Hm|]. rewrite Hn. exact El.
    + apply He. apply filter_In. split; [exact Hg|]. rewrite El. reflexivity.
  - intro H. split.
    + intros g Hg. apply filter_In in Hg. apply H. tauto.
    + intros m Hm. apply filter_In in Hm. destruct Hm as [Hm _].
      destruct (Hcover m Hm) as (g & Hg & Hn). specialize (H g Hg).
      destruct (Hgood g Hg) as (_ & _ & _ & Hsem). rewrite (Hsem s Hs) in H. unfold conj_ms in H.
      rewrite forallb_forall in H. unfold gval in H. rewrite Hn in H. apply H.
      apply filter_In. split; [exact Hm|]. apply str_eqb_refl.
Qed.

(* the groups built by matchersToPostingGroups satisfy the hypotheses of [lazy_split_sem] *)
Lemma groups_good idx ms : Forall coherent ms ->
  forall gs, matchers_to_groups idx ms = Some gs ->
  (forall g, In g gs -> good_group idx (dedup_matchers ms) g)
  /\ (forall m, In m (dedup_matchers ms) -> exists g, In g gs /\ g_name g = m_name m).
Proof.
  intros Hc gs E. unfold matchers_to_groups in E. set (ms' := dedup_matchers ms) in *.
  assert (Hc' : Forall coherent ms').
  { apply Forall_forall. intros m Hm. rewrite Forall_forall in Hc. apply Hc. apply dedup_sub. exact Hm. }
  set (names := ssort (names_of ms' [])) in *.
  assert (Hn1 : forall n, In n names -> exists m, In m ms' /\ m_name m = n).
  { intros n Hn. unfold names in Hn. rewrite ssort_in in Hn. exact (names_of_sub ms' [] n Hn). }
  pose proof (groups_for_ok idx ms' Hc' names Hn1) as Hg. rewrite E in Hg. destruct Hg as (G1 & G2).
  split.
  - rewrite Forall_forall in G1. exact G1.
  - intros m Hm. apply G2. unfold names. rewrite ssort_in.
    destruct (names_of_cover ms' [] m Hm) as [H|H]; [discriminate|exact H].
Qed.
