(* C34 — invariant proof for the compactor / store-gateway protocol model. *)
From Coq Require Import ZArith List Bool Lia Permutation.
Import ListNotations.
From Verif Require Import Lib.Corr Gen.C34 Model.C31 Proofs.C31 Model.C34.
Open Scope Z_scope.

Definition U_cov (u : list Z) (b : list mblk) : Prop :=
  forall s, In s u -> exists x, In x b /\ mark x = None /\ In s (srcs (blk_of x)).

Definition mark_young (p : params) (g : gateway) (x : mblk) : Prop :=
  match mark x with None => True | Some m => last_sync g - ignoreDelay p <= m end.

Definition gw_ok (p : params) (u : list Z) (b : list mblk) (t : Z) (g : gateway) : Prop :=
  last_sync g <= t <= last_sync g + syncLag p /\
  forall s, In s u -> exists x, In x b /\ In (bid (blk_of x)) (view g) /\ In s (srcs (blk_of x)) /\ mark_young p g x.

Definition Inv (p : params) (u : list Z) (st : state) : Prop :=
  U_cov u (bucket st) /\ NoDup (ids (bucket st)) /\ Forall (gw_ok p u (bucket st) (now st)) (gws st).

Definition good_params (p : params) : Prop :=
  0 <= ignoreDelay p /\ 0 <= syncLag p /\ ignoreDelay p + syncLag p <= deleteDelay p.

(* ---- helpers -------------------------------------------------------------------- *)

Lemma ids_map_blk b : ids b = map bid (map blk_of b).
Proof. unfold ids. now rewrite map_map. Qed.

Lemma NoDup_id_eq b x y : NoDup (ids b) -> In x b -> In y b -> bid (blk_of x) = bid (blk_of y) -> x = y.
Proof.
  unfold ids. induction b as [|a b IH]; simpl; intros Hn Hx Hy E; [contradiction|].
  inversion Hn; subst. destruct Hx as [->|Hx], Hy as [->|Hy]; auto.
  - exfalso. apply H1. rewrite E. now apply (in_map (fun z => bid (blk_of z))).
  - exfalso. apply H1. rewrite <- E. now apply (in_map (fun z => bid (blk_of z))).
Qed.

Lemma find_m_spec b i x : find_m b i = Some x -> In x b /\ bid (blk_of x) = i.
Proof.
  unfold find_m. intros H. apply find_some in H. destruct H as [H1 H2]. apply Z.eqb_eq in H2. auto.
Qed.

Lemma Forall_set_nth {A} (P : A -> Prop) k v l : Forall P l -> P v -> Forall P (set_nth k v l).
Proof.
  intros Hl Hv. revert k. induction Hl as [|a l Ha Hl IH]; intros k.
  - destruct k; constructor.
  - destruct k; simpl; constructor; auto.
Qed.

Lemma Forall_repeat {A} (P : A -> Prop) v n : P v -> Forall P (repeat v n).
Proof. intros H. induction n; simpl; constructor; auto. Qed.

(* what a gateway sync establishes (uses the C31 theorem that kept blocks cover all sources) *)
Lemma sync_establishes u b t delay : U_cov u b -> NoDup (ids b) ->
  forall s, In s u -> exists x, In x b /\ In (bid (blk_of x)) (sync_view t delay b) /\ In s (srcs (blk_of x)) /\
    match mark x with None => True | Some m => t - delay <= m end.
Proof.
  intros Hc Hn s Hs. destruct (Hc s Hs) as (x & Hx & Hm & Hsx).
  set (vis := filter (mark_visible t delay) b).
  assert (Hxv : In x vis). { apply filter_In. split; auto. unfold mark_visible. now rewrite Hm. }
  assert (Hnl : NoDup (map bid (map blk_of vis))).
  { rewrite <- ids_map_blk. unfold ids, vis. now apply (NoDup_map_filter (fun z => bid (blk_of z))). }
  destruct (kept_cover (map blk_of vis) (blk_of x) s Hnl (in_map blk_of _ _ Hxv) Hsx) as (pb & Hp & _ & Hk & Hsp).
  apply in_map_iff in Hp. destruct Hp as (y & <- & Hy).
  exists y. pose proof Hy as Hy'. apply filter_In in Hy'. destruct Hy' as [Hyb Hvis].
  repeat split; auto.
  - unfold sync_view. fold vis. apply in_map. apply kept_In. split; auto. now apply in_map.
  - unfold mark_visible in Hvis. destruct (mark y); auto. apply negb_true_iff, Z.ltb_ge in Hvis. lia.
Qed.

(* ---- preservation ---------------------------------------------------------------- *)

Lemma step_preserves p u st l st' : good_params p -> Inv p u st -> step p u st l = Some st' -> Inv p u st'.
Proof.
  intros (HI & HL & HD) (Hc & Hn & Hg) Hstep. destruct l as [dt|nb|i|i|k]; simpl in Hstep.
  - (* Tick *)
    destruct (0 <=? dt) eqn:E1; [|discriminate]. simpl in Hstep.
    destruct (forallb _ (gws st)) eqn:E2; [|discriminate]. inversion Hstep; subst; clear Hstep.
    apply Z.leb_le in E1. rewrite forallb_forall in E2.
    split; [|split]; simpl; auto.
    rewrite Forall_forall in *. intros g Hgin. destruct (Hg g Hgin) as [[H1 H2] H3].
    specialize (E2 g Hgin). apply Z.leb_le in E2. split; [lia | exact H3].
  - (* Upload *)
    destruct (negb (mem (bid nb) (ids (bucket st)))) eqn:E1; [|discriminate]. simpl in Hstep.
    destruct (subset (srcs nb) u && (grp nb =? 0)); [|discriminate]. inversion Hstep; subst; clear Hstep.
    apply negb_true_iff, mem_false in E1.
    split; [|split]; simpl.
    + intros s Hs. destruct (Hc s Hs) as (x & Hx & Hm & Hsx). exists x. repeat split; auto. now right.
    + constructor; auto.
    + rewrite Forall_forall in *. intros g Hgin. destruct (Hg g Hgin) as [Ht H3]. split; auto.
      intros s Hs. destruct (H3 s Hs) as (x & Hx & R). exists x. split; [now right | exact R].
  - (* Mark *)
    destruct (find_m (bucket st) i) as [x0|] eqn:F; [|discriminate].
    destruct (unmarked x0 && replaced (bucket st) x0) eqn:E; [|discriminate]. inversion Hstep; subst; clear Hstep.
    apply andb_true_iff in E. destruct E as [_ Hrep].
    destruct (find_m_spec _ _ _ F) as [Hx0 Hid0]. subst i.
    set (f := fun y : mblk => if bid (blk_of y) =? bid (blk_of x0) then mk_mblk (blk_of y) (Some (now st)) else y).
    assert (Hblk : forall y, blk_of (f y) = blk_of y). { intros y. unfold f. destruct (_ =? _); reflexivity. }
    split; [|split]; simpl; fold f.
    + intros s Hs. destruct (Hc s Hs) as (x & Hx & Hm & Hsx).
      destruct (bid (blk_of x) =? bid (blk_of x0)) eqn:E.
      * apply Z.eqb_eq in E. assert (x = x0) by (eapply NoDup_id_eq; eauto). subst x.
        unfold replaced in Hrep. rewrite forallb_forall in Hrep. specialize (Hrep s Hsx).
        apply existsb_exists in Hrep. destruct Hrep as (y & Hy & Hyc).
        apply andb_true_iff in Hyc. destruct Hyc as [Hyc Hys]. apply andb_true_iff in Hyc. destruct Hyc as [Hyu Hyne].
        exists (f y). split; [now apply in_map|]. unfold f. apply negb_true_iff in Hyne. rewrite Hyne.
        split; [unfold unmarked in Hyu; destruct (mark y); [discriminate|reflexivity] | now apply mem_In].
      * exists (f x). split; [now apply in_map|]. unfold f. rewrite E. auto.
    + unfold ids. rewrite map_map. erewrite map_ext; [exact Hn|]. intros y. simpl. now rewrite Hblk.
    + rewrite Forall_forall in *. intros g Hgin. destruct (Hg g Hgin) as [Ht H3]. split; auto.
      intros s Hs. destruct (H3 s Hs) as (x & Hx & Hv & Hsx & Hy).
      exists (f x). split; [now apply in_map|]. rewrite Hblk. repeat split; auto.
      unfold f, mark_young in *. destruct (_ =? _); simpl; auto. lia.
  - (* Clean *)
    destruct (find_m (bucket st) i) as [x0|] eqn:F; [|discriminate].
    destruct (mark x0) as [m|] eqn:M; [|discriminate].
    destruct (deleteDelay p <? now st - m) eqn:E; [|discriminate]. inversion Hstep; subst; clear Hstep.
    apply Z.ltb_lt in E. destruct (find_m_spec _ _ _ F) as [Hx0 Hid0].
    split; [|split]; simpl.
    + intros s Hs. destruct (Hc s Hs) as (x & Hx & Hm & Hsx). exists x. repeat split; auto.
      apply filter_In. split; auto. apply negb_true_iff, Z.eqb_neq. intros Eq.
      assert (x = x0) by (eapply NoDup_id_eq; eauto; congruence). subst x. congruence.
    + unfold ids. now apply (NoDup_map_filter (fun z => bid (blk_of z))).
    + rewrite Forall_forall in *. intros g Hgin. destruct (Hg g Hgin) as [[Ht1 Ht2] H3]. split; auto.
      intros s Hs. destruct (H3 s Hs) as (x & Hx & Hv & Hsx & Hy).
      exists x. repeat split; auto. apply filter_In. split; auto.
      apply negb_true_iff, Z.eqb_neq. intros Eq.
      assert (x = x0) by (eapply NoDup_id_eq; eauto; congruence). subst x.
      unfold mark_young in Hy. rewrite M in Hy. lia.
  - (* Sync *)
    destruct (k <? length (gws st))%nat; [|discriminate]. inversion Hstep; subst; clear Hstep.
    split; [|split]; simpl; auto.
    apply Forall_set_nth; auto. split; simpl; [lia|].
    intros s Hs. destruct (sync_establishes u (bucket st) (now st) (ignoreDelay p) Hc Hn s Hs) as (x & Hx & Hv & Hsx & Hm).
    exists x. repeat split; auto.
Qed.

Lemma run_preserves p u ls : good_params p -> forall st st', Inv p u st -> run p u st ls = Some st' -> Inv p u st'.
Proof.
  intros Hp. induction ls as [|l ls IH]; intros st st' Hi H; simpl in H.
  - now inversion H; subst.
  - destruct (step p u st l) as [st1|] eqn:E; [|discriminate]. eapply IH; [|exact H]. eapply step_preserves; eauto.
Qed.

Lemma init_inv p u b n : good_params p -> U_cov u b -> NoDup (ids b) -> Inv p u (init p b n).
Proof.
  intros (HI & HL & HD) Hc Hn. split; [|split]; simpl; auto.
  apply Forall_repeat. split; simpl; [lia|].
  intros s Hs. destruct (sync_establishes u b 0 (ignoreDelay p) Hc Hn s Hs) as (x & Hx & Hv & Hsx & Hm).
  exists x. repeat split; auto.
Qed.

Lemma inv_served p u st : Inv p u st -> all_served u st = true.
Proof.
  intros (_ & _ & Hg). unfold all_served. apply forallb_forall. intros g Hgin.
  rewrite Forall_forall in Hg. destruct (Hg g Hgin) as [_ H3].
  apply forallb_forall. intros s Hs. destruct (H3 s Hs) as (x & Hx & Hv & Hsx & _).
  unfold served_by. apply existsb_exists. exists x. split; auto.
  apply andb_true_iff. split; now apply mem_In.
Qed.

Lemma covers_U_cov u b : covers u b = true -> U_cov u b.
Proof.
  unfold covers. rewrite forallb_forall. intros H s Hs. specialize (H s Hs).
  apply existsb_exists in H. destruct H as (x & Hx & Hc). apply andb_true_iff in Hc. destruct Hc as [Hu Hm].
  exists x. repeat split; auto; [|now apply mem_In]. unfold unmarked in Hu. destruct (mark x); [discriminate|reflexivity].
Qed.

Lemma always_served p u b n ls st :
  good_params p -> covers u b = true -> NoDup (ids b) ->
  run p u (init p b n) ls = Some st -> all_served u st = true.
Proof.
  intros Hp Hc Hn H. eapply inv_served, run_preserves; eauto. apply init_inv; auto. now apply covers_U_cov.
Qed.

(* every view block passes the mark test, and covers what unmarked blocks cover:
   the predicate evaluated on the real filter chain holds of the model's sync *)
Lemma model_view_pred t delay b : NoDup (ids b) -> view_pred t delay b (sync_view t delay b) = true.
Proof.
  intros Hn. unfold view_pred. apply andb_true_iff. split.
  - apply forallb_forall. intros i Hi. unfold sync_view in Hi. apply in_map_iff in Hi.
    destruct Hi as (pb & <- & Hp). apply kept_In in Hp. destruct Hp as [Hp _].
    apply in_map_iff in Hp. destruct Hp as (y & <- & Hy). apply filter_In in Hy. destruct Hy as [Hyb Hvis].
    destruct (find_m b (bid (blk_of y))) as [z|] eqn:F.
    + destruct (find_m_spec _ _ _ F) as [Hz Hid]. assert (z = y) by (eapply NoDup_id_eq; eauto). now subst.
    + unfold find_m in F. eapply find_none in F; [|exact Hyb]. simpl in F. now rewrite Z.eqb_refl in F.
  - apply forallb_forall. intros x Hx. destruct (unmarked x) eqn:Hu; auto.
    apply forallb_forall. intros s Hs.
    assert (Hc : U_cov [s] b).
    { intros s' [<-|[]]. exists x. repeat split; auto. unfold unmarked in Hu. destruct (mark x); [discriminate|reflexivity]. }
    destruct (sync_establishes [s] b t delay Hc Hn s (or_introl eq_refl)) as (y & Hy & Hv & Hsy & _).
    apply existsb_exists. exists y. split; auto. apply andb_true_iff. split; now apply mem_In.
Qed.

(* ---- the bound is needed ------------------------------------------------------------ *)
Definition tight_params : params := mk_params 10 5 12.
Definition tight_bucket : list mblk := [mk_mblk (mk_blk 1 0 [7] 1) None].
Definition tight_schedule : list label :=
  [Upload (mk_blk 2 0 [7] 1); Mark 1; Tick 5; Sync 0; Tick 5; Sync 0; Tick 3; Clean 1].

Lemma tight_refuted :
  exists st, run tight_params [7] (init tight_params tight_bucket 1) tight_schedule = Some st
    /\ all_served [7] st = false
    /\ covers [7] tight_bucket = true /\ NoDup (ids tight_bucket)
    /\ deleteDelay tight_params < ignoreDelay tight_params + syncLag tight_params.
Proof.
  eexists. split; [vm_compute; reflexivity|]. split; [vm_compute; reflexivity|]. split; [vm_compute; reflexivity|].
  split; [repeat constructor; simpl; tauto | vm_compute; reflexivity].
Qed.

Lemma defaults_good : good_params default_params /\ store_marks_filter_before_dedup = true /\ compact_marks_filter_before_dedup = true.
Proof. unfold good_params. vm_compute. intuition congruence. Qed.

Ltac Zify.zify_post_hook ::= Z.to_euclidean_division_equations.
Lemma compactor_view_bound d : 0 <= d -> 0 <= compactor_ignore_delay d <= d.
Proof. intros H. unfold compactor_ignore_delay, compact_ignore_delay_expr. lia. Qed.

(* ---- the real compactor's operation logs ---------------------------------------------- *)

Lemma ids_mark_block t i b : ids (mark_block t i b) = ids b.
Proof.
  unfold ids, mark_block. rewrite map_map. apply map_ext. intros y. destruct (bid (blk_of y) =? i); reflexivity.
Qed.

(* a log accepted by the guards keeps "every source is in an unmarked block" *)
Lemma apply_op_keeps u b o b' : NoDup (ids b) -> U_cov u b -> apply_op b o = Some b' ->
  NoDup (ids b') /\ U_cov u b'.
Proof.
  intros Hn Hc H. destruct o as [nb|i|i]; simpl in H.
  - destruct (mem (bid nb) (ids b)) eqn:E; [discriminate|]. inversion H; subst. apply mem_false in E. split.
    + simpl. constructor; auto.
    + intros s Hs. destruct (Hc s Hs) as (x & Hx & R). exists x. split; [now right|exact R].
  - destruct (find_m b i) as [x0|] eqn:F; [|discriminate].
    destruct (unmarked x0 && replaced b x0) eqn:E; [|discriminate]. inversion H; subst; clear H.
    apply andb_true_iff in E. destruct E as [_ Hrep]. destruct (find_m_spec _ _ _ F) as [Hx0 Hid0]. subst i.
    split; [now rewrite ids_mark_block|].
    intros s Hs. destruct (Hc s Hs) as (x & Hx & Hm & Hsx). unfold mark_block.
    set (f := fun y : mblk => if bid (blk_of y) =? bid (blk_of x0) then mk_mblk (blk_of y) (Some 0) else y).
    destruct (bid (blk_of x) =? bid (blk_of x0)) eqn:E.
    + apply Z.eqb_eq in E. assert (x = x0) by (eapply NoDup_id_eq; eauto). subst x.
      unfold replaced in Hrep. rewrite forallb_forall in Hrep. specialize (Hrep s Hsx).
      apply existsb_exists in Hrep. destruct Hrep as (y & Hy & Hyc).
      apply andb_true_iff in Hyc. destruct Hyc as [Hyc Hys]. apply andb_true_iff in Hyc. destruct Hyc as [Hyu Hyne].
      exists (f y). split; [now apply in_map|]. unfold f. apply negb_true_iff in Hyne. rewrite Hyne.
      split; [unfold unmarked in Hyu; destruct (mark y); [discriminate|reflexivity] | now apply mem_In].
    + exists (f x). split; [now apply in_map|]. unfold f. rewrite E. auto.
  - destruct (find_m b i) as [x0|] eqn:F; [|discriminate].
    destruct (unmarked x0) eqn:E; [discriminate|]. inversion H; subst; clear H.
    destruct (find_m_spec _ _ _ F) as [Hx0 Hid0]. split.
    + unfold ids. now apply (NoDup_map_filter (fun z => bid (blk_of z))).
    + intros s Hs. destruct (Hc s Hs) as (x & Hx & Hm & Hsx). exists x. repeat split; auto.
      apply filter_In. split; auto. apply negb_true_iff, Z.eqb_neq. intros Eq.
      assert (x = x0) by (eapply NoDup_id_eq; eauto; congruence). subst x.
      unfold unmarked in E. rewrite Hm in E. discriminate.
Qed.

Lemma apply_log_keeps u ops : forall b b', NoDup (ids b) -> U_cov u b -> apply_log b ops = Some b' ->
  NoDup (ids b') /\ U_cov u b'.
Proof.
  induction ops as [|o r IH]; intros b b' Hn Hc H; simpl in H.
  - inversion H; subst. auto.
  - destruct (apply_op b o) as [b1|] eqn:E; [|discriminate].
    destruct (apply_op_keeps u b o b1 Hn Hc E) as [Hn1 Hc1]. eapply IH; eauto.
Qed.

(* the rewrite of a single block followed by the code's garbage collection: the
   second mark is rejected by the guard, and afterwards no unmarked block holds source 7 *)
Definition rw_bucket : list mblk := [mk_mblk (mk_blk 1 0 [7] 1) None].
Definition rw_ops : list lop := [OUpload (mk_blk 2 0 [7] 1); OMark 1; OMark 2].

Lemma rewrite_gc_rejected :
  apply_log rw_bucket rw_ops = None /\ first_rejected rw_bucket rw_ops 0 = Some 2%nat
  /\ covers [7] rw_bucket = true /\ covers [7] (apply_log_raw rw_bucket rw_ops) = false.
Proof. vm_compute. repeat split; reflexivity. Qed.

(* at the level of the protocol: with the code's garbage-collection rule as a step,
   good delays do not save the data *)
Definition gc_params : params := mk_params 10 5 20.
Definition gc_schedule : list clabel :=
  [L (Upload (mk_blk 2 0 [7] 1)); L (Mark 1); GC 2; L (Tick 5); L (Sync 0); L (Tick 5); L (Sync 0); L (Tick 5); L (Sync 0)].

Lemma code_gc_refuted :
  exists st, run_code gc_params [7] (init gc_params rw_bucket 1) gc_schedule = Some st
    /\ all_served [7] st = false
    /\ ignoreDelay gc_params + syncLag gc_params <= deleteDelay gc_params
    /\ covers [7] rw_bucket = true /\ NoDup (ids rw_bucket).
Proof.
  eexists. split; [vm_compute; reflexivity|]. split; [vm_compute; reflexivity|].
  split; [vm_compute; congruence|]. split; [vm_compute; reflexivity|]. repeat constructor. simpl. tauto.
Qed.

Lemma compactor_order_facts : compactor_order_ok = true.
Proof. vm_compute. reflexivity. Qed.
