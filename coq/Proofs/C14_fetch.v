(* C14 — fetchMissingSubranges: every fetched range is cut into exactly the right subranges. *)
From Coq Require Import ZArith NArith List Bool Lia.
Import ListNotations.
From Verif Require Import Lib.Corr Gen.C14 Model.C14 Proofs.C14 Proofs.C14_merge.
Open Scope Z_scope.

Ltac Zify.zify_post_hook ::= Z.to_euclidean_division_equations.

Section Fetch.
Variable obj : bytes.
Variable Sz ks ke : Z.
Hypothesis HS : 0 < Sz.
Hypothesis Hks : 0 <= ks.
Hypothesis Hke : ks < ke.
Let size := blen obj.
Hypothesis Hlast : (ke - 1) * Sz < size.     (* the last requested subrange starts inside the object *)
Variable known : list Z.
Hypothesis Hknown : forall k, ks <= k < ke -> In (k * Sz) known.

Let lastOff := (ke - 1) * Sz.
Let lastLen := Z.min (ke * Sz) size - lastOff.

Definition H_ok (h : hmap) : Prop := forall off b, hget h off = Some b -> b = sub_of obj Sz off.
Definition mono (h h' : hmap) : Prop := forall off b, hget h off = Some b -> hget h' off = Some b.
Definition st_ok (st : list (Z * bytes)) : Prop := Forall (fun p => snd p = sub_of obj Sz (fst p)) st.

Lemma mono_refl h : mono h h.
Proof. intros off b H. exact H. Qed.
Lemma mono_trans h1 h2 h3 : mono h1 h2 -> mono h2 h3 -> mono h1 h3.
Proof. intros A B off b H. apply B, A, H. Qed.

Lemma known_mem k : ks <= k < ke -> existsb (Z.eqb (k * Sz)) known = true.
Proof. intro H. apply existsb_exists. exists (k * Sz). split; [apply Hknown; exact H | apply Z.eqb_refl]. Qed.

Lemma cut_ok a b (Hab : ks <= a /\ a < b /\ b <= ke) :
  let buf := slice obj (a * Sz) (Z.min (b * Sz) size) in
  forall n k h st, n = Z.to_nat (b - k) -> a <= k <= b -> H_ok h -> st_ok st ->
  exists h' st',
    cut_subranges n (k * Sz) (a * Sz) Sz lastOff lastLen buf known h st = Some (h', st')
    /\ H_ok h' /\ st_ok st' /\ mono h h'
    /\ (forall k', k <= k' < b -> hget h' (k' * Sz) <> None).
Proof.
  intro buf.
  assert (Ha_in : a * Sz < size) by (unfold size in *; nia).
  assert (Hblen : blen buf = Z.min (b * Sz) size - a * Sz).
  { unfold buf. apply slice_length; unfold size in *; nia. }
  induction n as [|n IH]; intros k h st Hn Hk Hh Hst.
  - exists h, st. simpl. repeat split; auto using mono_refl. intros k' Hk'. lia.
  - assert (Hkb : k < b) by lia.
    cbn [cut_subranges]. rewrite known_mem by lia. cbn [negb].
    set (lo := k * Sz - a * Sz).
    set (hi := if k * Sz =? lastOff then lo + lastLen else lo + Sz).
    assert (Hhi : lo <= hi /\ hi <= blen buf /\ a * Sz + hi = Z.min (k * Sz + Sz) size).
    { unfold hi, lo, lastLen, lastOff. rewrite Hblen.
      destruct (k * Sz =? (ke - 1) * Sz) eqn:E.
      - apply Z.eqb_eq in E. assert (k = ke - 1) by nia. subst k. assert (b = ke) by lia. subst b.
        unfold size in *. nia.
      - apply Z.eqb_neq in E. assert (k < ke - 1) by nia. unfold size in *. nia. }
    destruct Hhi as (H1 & H2 & H3).
    replace ((hi >? blen buf) || (hi <? lo)) with false.
    2:{ symmetry. apply orb_false_iff. split; [rewrite Z.gtb_ltb; apply Z.ltb_ge; lia | apply Z.ltb_ge; lia]. }
    assert (Hsub : slice buf lo hi = sub_of obj Sz (k * Sz)).
    { unfold buf, sub_of. rewrite slice_slice; unfold lo in *; try nia.
      fold size. rewrite H3. f_equal. lia. }
    replace (k * Sz + Sz) with ((k + 1) * Sz) by ring.
    destruct (hget h (k * Sz)) as [bb|] eqn:Eh.
    + destruct (IH (k + 1) h st) as (h' & st' & E1 & E2 & E3 & E4 & E5); try lia; auto.
      exists h', st'. repeat split; auto.
      intros k' Hk'. destruct (Z.eq_dec k' k) as [->|Hne].
      * rewrite (E4 _ _ Eh). discriminate.
      * apply E5. lia.
    + assert (Hh' : H_ok ((k * Sz, slice buf lo hi) :: h)).
      { intros off b0 Hb. simpl in Hb. destruct (k * Sz =? off) eqn:Eo.
        - apply Z.eqb_eq in Eo. subst off. inversion Hb; subst. exact Hsub.
        - apply Hh. exact Hb. }
      assert (Hm : mono h ((k * Sz, slice buf lo hi) :: h)).
      { intros off b0 Hb. simpl. destruct (k * Sz =? off) eqn:Eo; [|exact Hb].
        apply Z.eqb_eq in Eo. subst off. congruence. }
      assert (Hst' : st_ok (st ++ [(k * Sz, slice buf lo hi)])).
      { apply Forall_app. split; [exact Hst|]. constructor; [exact Hsub|constructor]. }
      destruct (IH (k + 1) _ _ ltac:(lia) ltac:(lia) Hh' Hst') as (h' & st' & E1 & E2 & E3 & E4 & E5).
      exists h', st'. repeat split; auto.
      * eapply mono_trans; eauto.
      * intros k' Hk'. destruct (Z.eq_dec k' k) as [->|Hne].
        -- erewrite E4; [discriminate|]. simpl. rewrite Z.eqb_refl. reflexivity.
        -- apply E5. lia.
Qed.

Lemma fetch_one_ok m h st : wf_rng Sz ks ke m -> H_ok h -> st_ok st ->
  exists h' st',
    fetch_one obj Sz lastOff lastLen known m h st = Some (h', st')
    /\ H_ok h' /\ st_ok st' /\ mono h h'
    /\ (forall k', fst m <= k' * Sz < snd m -> hget h' (k' * Sz) <> None).
Proof.
  intros (a & b & Ea & Eb & Hab) Hh Hst. destruct m as [ms me]. simpl in Ea, Eb. subst ms me.
  unfold fetch_one.
  assert (Ha_in : a * Sz < size) by (unfold size in *; nia).
  assert (Hdata : under_get_range obj (a * Sz) (b * Sz - a * Sz) = slice obj (a * Sz) (Z.min (b * Sz) size)).
  { unfold under_get_range. fold size.
    replace (size <? a * Sz) with false by (symmetry; apply Z.ltb_ge; lia).
    replace (a * Sz + (b * Sz - a * Sz)) with (b * Sz) by ring.
    destruct (size <=? b * Sz) eqn:E; [apply Z.leb_le in E | apply Z.leb_gt in E]; f_equal; lia. }
  rewrite Hdata.
  set (data := slice obj (a * Sz) (Z.min (b * Sz) size)).
  assert (Hblen : blen data = Z.min (b * Sz) size - a * Sz).
  { unfold data. apply slice_length; unfold size in *; nia. }
  set (bufSize := if buf_full_cond lastOff (b * Sz) then buf_size_full (a * Sz) (b * Sz)
                  else buf_size_last (a * Sz) (b * Sz) Sz lastLen).
  assert (Hbs : bufSize = blen data).
  { unfold bufSize, buf_full_cond, buf_size_full, buf_size_last, lastLen, lastOff. rewrite Hblen.
    destruct ((ke - 1) * Sz >=? b * Sz) eqn:E.
    - rewrite Z.geb_leb in E. apply Z.leb_le in E. unfold size in *. nia.
    - rewrite Z.geb_leb in E. apply Z.leb_gt in E. assert (b = ke) by nia. subst b. lia. }
  rewrite Hbs.
  replace ((blen data <? 0) || (blen data <? blen data)) with false.
  2:{ symmetry. apply orb_false_iff. pose proof (blen_nonneg data). split; apply Z.ltb_ge; lia. }
  rewrite slice_full.
  replace (Z.to_nat (Z.quot (b * Sz - a * Sz + Sz - 1) Sz)) with (Z.to_nat (b - a)).
  2:{ f_equal. nia. }
  destruct (cut_ok a b Hab (Z.to_nat (b - a)) a h st eq_refl ltac:(lia) Hh Hst) as (h' & st' & E1 & E2 & E3 & E4 & E5).
  exists h', st'. repeat split; auto.
  intros k' Hk'. simpl in Hk'. apply E5. nia.
Qed.

Lemma fetch_all_ok : forall ms lo h st, chain Sz ks ke lo ms -> H_ok h -> st_ok st ->
  exists h' st',
    fetch_all obj Sz lastOff lastLen known ms h st = Some (h', st')
    /\ H_ok h' /\ st_ok st' /\ mono h h'
    /\ (forall k', covered ms (k' * Sz) -> hget h' (k' * Sz) <> None).
Proof.
  induction ms as [|m ms IH]; intros lo h st Hc Hh Hst.
  - exists h, st. simpl. repeat split; auto using mono_refl. intros k' Hk'. inversion Hk'.
  - simpl in Hc. destruct Hc as (H1 & H2 & H3). cbn [fetch_all].
    destruct (fetch_one_ok m h st H2 Hh Hst) as (h1 & st1 & E1 & E2 & E3 & E4 & E5). rewrite E1.
    destruct (IH (snd m) h1 st1 H3 E2 E3) as (h2 & st2 & F1 & F2 & F3 & F4 & F5).
    exists h2, st2. repeat split; auto.
    + eapply mono_trans; eauto.
    + intros k' Hk'. inversion Hk' as [? ? Hh'|? ? Ht]; subst.
      * specialize (E5 k' Hh'). destruct (hget h1 (k' * Sz)) as [bb|] eqn:Eb; [|congruence].
        rewrite (F4 _ _ Eb). discriminate.
      * apply F5. exact Ht.
Qed.

End Fetch.
