(* C13 — lemmas for the cache key builders. *)
From Coq Require Import String.
From Coq Require Import NArith Arith List Bool Lia.
Import ListNotations.
From Verif Require Import Lib.Corr Gen.C13 Model.C13.
Open Scope N_scope.

Lemma str_eqb_spec a b : str_eqb a b = true <-> a = b.
Proof. apply (list_eqb_spec N.eqb). intros; apply N.eqb_eq. Qed.

Definition no_colon (s : str) : Prop := ~ In colon s.

Lemma split_colon : forall a a' r r', no_colon a -> no_colon a' ->
  a ++ colon :: r = a' ++ colon :: r' -> a = a' /\ r = r'.
Proof.
  unfold no_colon. induction a as [|c a IH]; intros [|c' a'] r r' Ha Ha' H; cbn in *.
  - inversion H. auto.
  - inversion H; subst. exfalso. apply Ha'. left. reflexivity.
  - inversion H; subst. exfalso. apply Ha. left. reflexivity.
  - inversion H; subst. destruct (IH a' r r') as [-> ->]; auto.
Qed.

Lemma suffix_inv h1 h2 c1 c2 : no_colon h1 -> no_colon h2 ->
  h1 ++ suffix c1 = h2 ++ suffix c2 -> h1 = h2 /\ c1 = c2.
Proof.
  intros N1 N2 H. destruct c1 as [|x1 c1], c2 as [|x2 c2]; cbn [suffix] in H.
  - rewrite !app_nil_r in H. auto.
  - rewrite app_nil_r in H. subst h1. exfalso. apply N1. apply in_app_iff. right. left. reflexivity.
  - rewrite app_nil_r in H. subst h2. exfalso. apply N2. apply in_app_iff. right. left. reflexivity.
  - apply split_colon in H as [-> H]; auto.
Qed.

(* ---- characters ------------------------------------------------------------------ *)

Definition is_op (c : N) : Prop := c = 61 \/ c = 33.

Lemma legacy_not_op f c : legacy_char f c = true -> ~ is_op c /\ c <> dquote.
Proof.
  unfold legacy_char, is_op, dquote. intro H. repeat rewrite orb_true_iff in H. repeat rewrite andb_true_iff in H.
  repeat rewrite N.leb_le in H. rewrite N.eqb_eq in H. lia.
Qed.

Lemma legacy_span : forall a b f x y, all_legacy f a = true -> all_legacy f b = true ->
  (exists c r, x = c :: r /\ is_op c) -> (exists c r, y = c :: r /\ is_op c) ->
  a ++ x = b ++ y -> a = b /\ x = y.
Proof.
  induction a as [|c a IH]; intros [|c' b] f x y Ha Hb Hx Hy H; cbn [app all_legacy] in *.
  - auto.
  - destruct Hx as (cx & rx & -> & Hop). inversion H; subst.
    apply andb_true_iff in Hb as [Hb _]. apply legacy_not_op in Hb as [Hb _]. contradiction.
  - destruct Hy as (cy & ry & -> & Hop). inversion H; subst.
    apply andb_true_iff in Ha as [Ha _]. apply legacy_not_op in Ha as [Ha _]. contradiction.
  - inversion H; subst. apply andb_true_iff in Ha as [_ Ha]. apply andb_true_iff in Hb as [_ Hb].
    destruct (IH b false x y Ha Hb Hx Hy H2) as [-> ->]. auto.
Qed.

Lemma type_str_op t r : exists c r', type_str t ++ r = c :: r' /\ is_op c.
Proof. destruct t; cbn; eexists; eexists; split; try reflexivity; unfold is_op; auto. Qed.

(* ---- parsing matcher strings -------------------------------------------------------- *)

Section Inj.
  Variable H : str -> str.
  Variable quote : str -> str.
  Variable dec : N -> str.
  Hypothesis H_inj : forall a b, H a = H b -> a = b.                (* collision resistance of blake2b-256 *)
  Hypothesis H_nocolon : forall a, no_colon (H a).                  (* base64url alphabet *)
  Hypothesis quote_prefix_free : forall a b x y, quote a ++ x = quote b ++ y -> a = b /\ x = y.
  Hypothesis quote_head : forall a, exists r, quote a = dquote :: r.
  Hypothesis dec_inj : forall a b, dec a = dec b -> a = b.

  Lemma type_value_inv t1 t2 v1 v2 r1 r2 :
    type_str t1 ++ quote v1 ++ r1 = type_str t2 ++ quote v2 ++ r2 -> t1 = t2 /\ v1 = v2 /\ r1 = r2.
  Proof.
    intro E. destruct (quote_head v1) as [q1 E1]. destruct (quote_head v2) as [q2 E2].
    destruct t1, t2; cbn [type_str app] in E;
      try (exfalso; rewrite E1, E2 in E; cbn [app] in E; unfold dquote in E; discriminate E).
    - injection E as E. apply quote_prefix_free in E as [-> ->]; auto.
    - injection E as E. apply quote_prefix_free in E as [-> ->]; auto.
    - injection E as E. apply quote_prefix_free in E as [-> ->]; auto.
    - injection E as E. apply quote_prefix_free in E as [-> ->]; auto.
  Qed.

  Definition nm (m : matcher) : str := if should_quote (mname m) then quote (mname m) else mname m.

  Lemma matcher_string_nm m : matcher_string quote m = nm m ++ type_str (mt m) ++ quote (mvalue m).
  Proof. reflexivity. Qed.

  Lemma unquoted_facts n : should_quote n = false -> all_legacy true n = true /\ exists c r, n = c :: r /\ c <> dquote.
  Proof.
    unfold should_quote. intro E. apply orb_false_iff in E as [E1 E2]. apply negb_false_iff in E1. split; [exact E1|].
    destruct n as [|c r]; [discriminate|]. exists c, r. split; [reflexivity|].
    cbn [all_legacy] in E1. apply andb_true_iff in E1 as [E1 _]. apply legacy_not_op in E1. tauto.
  Qed.

  Lemma matcher_parse m1 m2 r1 r2 :
    matcher_string quote m1 ++ r1 = matcher_string quote m2 ++ r2 -> m1 = m2 /\ r1 = r2.
  Proof.
    rewrite !matcher_string_nm. unfold nm. rewrite <- !app_assoc. intro E.
    destruct m1 as [t1 n1 v1], m2 as [t2 n2 v2]. cbn [mname mt mvalue] in *.
    assert (Hnt : n1 = n2 /\ type_str t1 ++ quote v1 ++ r1 = type_str t2 ++ quote v2 ++ r2).
    { destruct (should_quote n1) eqn:Q1, (should_quote n2) eqn:Q2.
      - apply quote_prefix_free in E. exact E.
      - exfalso. destruct (quote_head n1) as [q E1]. apply unquoted_facts in Q2 as (_ & c & r & -> & Hc).
        rewrite E1 in E. cbn in E. inversion E. congruence.
      - exfalso. destruct (quote_head n2) as [q E2]. apply unquoted_facts in Q1 as (_ & c & r & -> & Hc).
        rewrite E2 in E. cbn in E. inversion E. congruence.
      - apply unquoted_facts in Q1 as (L1 & _). apply unquoted_facts in Q2 as (L2 & _).
        apply (legacy_span n1 n2 true _ _ L1 L2); [apply type_str_op|apply type_str_op|exact E]. }
    destruct Hnt as [-> E']. apply type_value_inv in E' as (-> & -> & ->). auto.
  Qed.

  Lemma matcher_string_nonempty m : matcher_string quote m <> [].
  Proof.
    rewrite matcher_string_nm. intro E. apply app_eq_nil in E as [_ E]. apply app_eq_nil in E as [E _].
    destruct (mt m); discriminate.
  Qed.

  Lemma mts_cons m r : matchers_to_string quote (m :: r) =
    matcher_string quote m ++ match r with [] => [] | _ => semicolon :: matchers_to_string quote r end.
  Proof. destruct r; cbn [matchers_to_string]; [rewrite app_nil_r|]; reflexivity. Qed.

  Lemma matchers_to_string_inj : forall l1 l2,
    matchers_to_string quote l1 = matchers_to_string quote l2 -> l1 = l2.
  Proof.
    induction l1 as [|m1 r1 IH]; intros [|m2 r2] E.
    - reflexivity.
    - rewrite mts_cons in E. change (matchers_to_string quote []) with (@nil N) in E. symmetry in E. apply app_eq_nil in E as [E _].
      exfalso. apply (matcher_string_nonempty _ E).
    - rewrite mts_cons in E. change (matchers_to_string quote []) with (@nil N) in E. apply app_eq_nil in E as [E _].
      exfalso. apply (matcher_string_nonempty _ E).
    - rewrite !mts_cons in E. apply matcher_parse in E as [-> E]. f_equal.
      destruct r1 as [|a1 r1], r2 as [|a2 r2]; try discriminate; [reflexivity|].
      inversion E as [E']. apply IH. exact E'.
  Qed.

  (* ---- keys ------------------------------------------------------------------------------- *)

  Lemma key_postings_inv b1 n1 v1 c1 b2 n2 v2 c2 : no_colon b1 -> no_colon b2 ->
    key_postings H b1 n1 v1 c1 = key_postings H b2 n2 v2 c2 ->
    b1 = b2 /\ c1 = c2 /\ postings_preimage n1 v1 = postings_preimage n2 v2.
  Proof.
    intros N1 N2 E. unfold key_postings in E. cbn [app] in E. inversion E as [E'].
    apply split_colon in E' as [-> E']; auto.
    apply suffix_inv in E' as [E' ->]; [|apply H_nocolon|apply H_nocolon]. apply H_inj in E'. auto.
  Qed.

  Lemma key_postings_inj b1 n1 v1 c1 b2 n2 v2 c2 : no_colon b1 -> no_colon b2 -> no_colon n1 -> no_colon n2 ->
    key_postings H b1 n1 v1 c1 = key_postings H b2 n2 v2 c2 -> b1 = b2 /\ n1 = n2 /\ v1 = v2 /\ c1 = c2.
  Proof.
    intros N1 N2 M1 M2 E. apply key_postings_inv in E as (-> & -> & E); auto.
    unfold postings_preimage in E. cbn [app] in E. apply split_colon in E as [-> ->]; auto.
  Qed.

  Lemma key_expanded_inj b1 m1 c1 b2 m2 c2 : no_colon b1 -> no_colon b2 ->
    key_expanded H quote b1 m1 c1 = key_expanded H quote b2 m2 c2 -> b1 = b2 /\ m1 = m2 /\ c1 = c2.
  Proof.
    intros N1 N2 E. unfold key_expanded in E. cbn [app] in E. inversion E as [E'].
    apply split_colon in E' as [-> E']; auto.
    apply suffix_inv in E' as [E' ->]; [|apply H_nocolon|apply H_nocolon]. apply H_inj in E'. apply matchers_to_string_inj in E'. auto.
  Qed.

  Lemma key_series_inj b1 i1 b2 i2 : no_colon b1 -> no_colon b2 ->
    key_series dec b1 i1 = key_series dec b2 i2 -> b1 = b2 /\ i1 = i2.
  Proof.
    intros N1 N2 E. unfold key_series in E. cbn [app] in E. inversion E as [E'].
    apply split_colon in E' as [-> E']; auto.
  Qed.

  Lemma matcher_cache_key_inj m1 m2 :
    matcher_cache_key quote true m1 = matcher_cache_key quote true m2 -> m1 = m2.
  Proof.
    unfold matcher_cache_key. intro E.
    destruct m1 as [t1 n1 v1], m2 as [t2 n2 v2]. cbn [mt mname mvalue] in E.
    apply type_value_inv in E as (-> & -> & ->). reflexivity.
  Qed.

  (* items of the index cache: ULID block strings have no ':'; the positive theorem needs
     label names without ':' for postings items *)
  Definition valid_item (i : item) : Prop :=
    match i with
    | IPostings b n _ _ => no_colon b /\ no_colon n
    | IExpanded b _ _ => no_colon b
    | ISeries b _ => no_colon b
    | IMatcher _ => True
    end.

  Lemma kinds_disjoint i1 i2 : index_item i1 = true -> index_item i2 = true ->
    key_of H quote dec true i1 = key_of H quote dec true i2 ->
    match i1, i2 with
    | IPostings _ _ _ _, IPostings _ _ _ _ | IExpanded _ _ _, IExpanded _ _ _ | ISeries _ _, ISeries _ _ => True
    | _, _ => False
    end.
  Proof. destruct i1, i2; cbn; intros; try discriminate; auto. Qed.

  Lemma key_of_inj i1 i2 : valid_item i1 -> valid_item i2 -> same_cache i1 i2 = true ->
    key_of H quote dec true i1 = key_of H quote dec true i2 -> i1 = i2.
  Proof.
    intros V1 V2 S E. destruct i1, i2; cbn in S; try discriminate; cbn [key_of] in E; cbn [valid_item] in *;
      try (exfalso; cbn in E; discriminate).
    - destruct V1, V2. apply key_postings_inj in E as (-> & -> & -> & ->); auto.
    - apply key_expanded_inj in E as (-> & -> & ->); auto.
    - apply key_series_inj in E as (-> & ->); auto.
    - apply matcher_cache_key_inj in E. subst. reflexivity.
  Qed.
End Inj.

(* ---- through the checked predicate ---------------------------------------------------------- *)

Lemma mtype_eqb_spec a b : mtype_eqb a b = true <-> a = b.
Proof. destruct a, b; cbn; split; congruence. Qed.

Lemma matcher_eqb_spec a b : matcher_eqb a b = true <-> a = b.
Proof.
  destruct a as [t1 n1 v1], b as [t2 n2 v2]. unfold matcher_eqb. cbn [mt mname mvalue].
  rewrite !andb_true_iff, mtype_eqb_spec, !str_eqb_spec. split; [intros [[-> ->] ->]; reflexivity|].
  intro E; inversion E; auto.
Qed.

Lemma item_eqb_spec a b : item_eqb a b = true <-> a = b.
Proof.
  destruct a, b; cbn [item_eqb]; try (split; [discriminate|intro E; inversion E]).
  - rewrite !andb_true_iff, !str_eqb_spec. split; [intros [[[-> ->] ->] ->]; reflexivity|intro E; inversion E; auto].
  - rewrite !andb_true_iff, !str_eqb_spec, (list_eqb_spec matcher_eqb matcher_eqb_spec).
    split; [intros [[-> ->] ->]; reflexivity|intro E; inversion E; auto].
  - rewrite andb_true_iff, str_eqb_spec, N.eqb_eq. split; [intros [-> ->]; reflexivity|intro E; inversion E; auto].
  - rewrite matcher_eqb_spec. split; [intros ->; reflexivity|intro E; inversion E; auto].
Qed.

Lemma pred_holds H quote dec :
  (forall a b, H a = H b -> a = b) -> (forall a, no_colon (H a)) ->
  (forall a b x y, quote a ++ x = quote b ++ y -> a = b /\ x = y) ->
  (forall a, exists r, quote a = dquote :: r) -> (forall a b, dec a = dec b -> a = b) ->
  forall i1 i2 oH oQ oD, valid_item i1 -> valid_item i2 ->
  pred_ok (CPair i1 i2 (key_of H quote dec true i1) (key_of H quote dec true i2) oH oQ oD) = true.
Proof.
  intros H1 H2 H3 H4 H5 i1 i2 oH oQ oD V1 V2. cbn [pred_ok].
  destruct (same_cache i1 i2) eqn:S; [|reflexivity].
  destruct (item_eqb i1 i2) eqn:E; [reflexivity|]. cbn [negb andb].
  apply negb_true_iff. destruct (str_eqb _ _) eqn:K; [|reflexivity].
  apply str_eqb_spec in K. apply (key_of_inj H quote dec H1 H2 H3 H4 H5 i1 i2 V1 V2 S) in K.
  apply item_eqb_spec in K. congruence.
Qed.

(* ---- collisions ------------------------------------------------------------------------------ *)

(* "a:b","c" against "a","b:c": for every hash function and every block/compression *)
Lemma postings_collision H b comp :
  key_postings H b [97; 58; 98] [99] comp = key_postings H b [97] [98; 58; 99] comp
  /\ item_eqb (IPostings b [97; 58; 98] [99] comp) (IPostings b [97] [98; 58; 99] comp) = false.
Proof.
  split; [reflexivity|]. cbn [item_eqb].
  assert (E : str_eqb [97; 58; 98] [97] = false) by reflexivity. rewrite E, andb_false_r. reflexivity.
Qed.

(* matchers cache key before C13-fix.patch: a=~"b=~c" against a=~b=~"c" *)
Lemma matcher_key_unfixed_collision quote :
  matcher_cache_key quote false (mkM MRe [97] [98; 61; 126; 99]) =
  matcher_cache_key quote false (mkM MRe [97; 61; 126; 98] [99])
  /\ matcher_cache_key quote false (mkM MEq [97] [126; 98]) = matcher_cache_key quote false (mkM MRe [97] [98]).
Proof. split; reflexivity. Qed.

(* ---- tie T --------------------------------------------------------------------------------------- *)

Lemma source_shape :
  cacheKeyStringAssigns =
    ["lbl := c.Key.(CacheKeyPostings)";
     "lblHash := blake2b.Sum256([]byte(lbl.Name + "":"" + lbl.Value))";
     "key := ""P:"" + c.Block + "":"" + base64.RawURLEncoding.EncodeToString(lblHash[0:])";
     "key += "":"" + c.Compression";
     "matchers := c.Key.(CacheKeyExpandedPostings)";
     "matchersHash := blake2b.Sum256([]byte(matchers))";
     "key := ""EP:"" + c.Block + "":"" + base64.RawURLEncoding.EncodeToString(matchersHash[0:])";
     "key += "":"" + c.Compression"]%string /\
  cacheKeyStringReturns =
    ["key"; "key"; """S:"" + c.Block + "":"" + strconv.FormatUint(uint64(c.Key.(CacheKeySeries)), 10)"; """"""]%string /\
  matcherCacheKeyWrites =
    ["typeStr := t.String()"; "name := strconv.Quote(m.GetName())"; "WriteString(typeStr)"; "WriteString(name)";
     "WriteString(m.GetValue())"]%string /\
  labelMatchersToStringEvents =
    [("for", "range"); ("call", "lbl.String"); ("call", "sb.WriteString"); ("call", "len");
     ("if", "i < len(matchers)-1"); ("call", "sb.WriteRune"); ("endif", ""); ("endfor", "");
     ("call", "sb.String"); ("return", "sb.String()")]%string.
Proof. repeat split; reflexivity. Qed.

(* ---- statements with only the hypotheses they need ------------------------------------------------- *)

Definition quote_ok (quote : str -> str) : Prop :=
  (forall a b x y, quote a ++ x = quote b ++ y -> a = b /\ x = y) /\ (forall a, exists r, quote a = dquote :: r).

Definition hash_ok (H : str -> str) : Prop :=
  (forall a b, H a = H b -> a = b) /\ (forall a, no_colon (H a)).

Lemma matchers_string_inj quote : quote_ok quote ->
  forall l1 l2, matchers_to_string quote l1 = matchers_to_string quote l2 -> l1 = l2.
Proof. intros [Q1 Q2]. exact (matchers_to_string_inj (fun x => x) quote (fun a b e => e) Q1 Q2). Qed.

Lemma matcher_key_inj quote : quote_ok quote ->
  forall m1 m2, matcher_cache_key quote true m1 = matcher_cache_key quote true m2 -> m1 = m2.
Proof. intros [Q1 Q2]. exact (matcher_cache_key_inj (fun x => x) quote (fun a b e => e) Q1 Q2). Qed.

Lemma keys_inj H quote dec : hash_ok H -> quote_ok quote -> (forall a b, dec a = dec b -> a = b) ->
  forall i1 i2, valid_item i1 -> valid_item i2 -> same_cache i1 i2 = true ->
  key_of H quote dec true i1 = key_of H quote dec true i2 -> i1 = i2.
Proof. intros [H1 H2] [Q1 Q2] D. exact (key_of_inj H quote dec H1 H2 Q1 Q2 D). Qed.

Lemma keys_pred H quote dec : hash_ok H -> quote_ok quote -> (forall a b, dec a = dec b -> a = b) ->
  forall i1 i2 oH oQ oD, valid_item i1 -> valid_item i2 ->
  pred_ok (CPair i1 i2 (key_of H quote dec true i1) (key_of H quote dec true i2) oH oQ oD) = true.
Proof. intros [H1 H2] [Q1 Q2] D. exact (pred_holds H quote dec H1 H2 Q1 Q2 D). Qed.

Lemma kinds_never_collide H quote dec i1 i2 : index_item i1 = true -> index_item i2 = true ->
  key_of H quote dec true i1 = key_of H quote dec true i2 ->
  match i1, i2 with
  | IPostings _ _ _ _, IPostings _ _ _ _ | IExpanded _ _ _, IExpanded _ _ _ | ISeries _ _, ISeries _ _ => True
  | _, _ => False
  end.
Proof. exact (kinds_disjoint H quote dec i1 i2). Qed.

Lemma postings_pred_refuted H quote dec b comp oH oQ oD :
  let i1 := IPostings b [97; 58; 98] [99] comp in
  let i2 := IPostings b [97] [98; 58; 99] comp in
  pred_ok (CPair i1 i2 (key_of H quote dec true i1) (key_of H quote dec true i2) oH oQ oD) = false.
Proof.
  cbn zeta. cbn [pred_ok same_cache index_item Bool.eqb key_of].
  destruct (postings_collision H b comp) as [E1 E2]. rewrite E2, E1. cbn [negb andb].
  assert (K : str_eqb (key_postings H b [97] [98; 58; 99] comp) (key_postings H b [97] [98; 58; 99] comp) = true)
    by (apply str_eqb_spec; reflexivity).
  rewrite K. reflexivity.
Qed.


(* ---- the hypotheses are satisfiable (non-vacuity of the theorems above) ------------------------- *)

(* a ':'-free injective "hash": two letters A..P per byte *)
Definition hexenc (s : str) : str := flat_map (fun c => [c / 16 + 65; c mod 16 + 65]) s.

Lemma hexenc_inj : forall a b, hexenc a = hexenc b -> a = b.
Proof.
  induction a as [|c a IH]; intros [|c' b] E; unfold hexenc in E; cbn [flat_map app] in E; try discriminate; [reflexivity|].
  fold (hexenc a) in E. fold (hexenc b) in E.
  injection E as E1 E2 E3. f_equal; [|apply IH; exact E3].
  apply N.add_cancel_r in E1, E2.
  transitivity (16 * (c / 16) + c mod 16); [apply N.div_mod; lia|].
  rewrite E1, E2. symmetry. apply N.div_mod. lia.
Qed.

Lemma hexenc_nocolon a : no_colon (hexenc a).
Proof.
  unfold no_colon, colon. induction a as [|c a IH]; [intros []|].
  unfold hexenc. cbn [flat_map app In]. fold (hexenc a).
  intros [E|[E|E]]; [revert E; generalize (c / 16); intros; lia|revert E; generalize (c mod 16); intros; lia|exact (IH E)].
Qed.

(* a prefix-free injective "quote": a double quote, the length in unary, a 0, the text *)
Definition uquote (s : str) : str := dquote :: repeat 1 (length s) ++ 0 :: s.

Lemma repeat_sep : forall n m (r r' : str), repeat 1 n ++ 0 :: r = repeat 1 m ++ 0 :: r' -> n = m /\ r = r'.
Proof.
  induction n as [|n IH]; intros [|m] r r' E; cbn in E; try discriminate.
  - inversion E. auto.
  - inversion E as [E']. destruct (IH m r r' E') as [-> ->]. auto.
Qed.

Lemma app_inv_length {A} : forall (a b x y : list A), length a = length b -> a ++ x = b ++ y -> a = b /\ x = y.
Proof.
  induction a as [|c a IH]; intros [|c' b] x y L E; cbn in *; try discriminate; [auto|].
  inversion E as [[E1 E2]]. destruct (IH b x y ltac:(lia) E2) as [-> ->]. auto.
Qed.

Lemma uquote_ok : quote_ok uquote.
Proof.
  split.
  - intros a b x y E. unfold uquote in E. cbn [app] in E. inversion E as [E'].
    rewrite <- !app_assoc in E'. cbn [app] in E'. apply repeat_sep in E' as [L E'].
    apply (app_inv_length a b x y L E').
  - intro a. eexists. reflexivity.
Qed.

Definition udec (n : N) : str := repeat 49 (N.to_nat n).

Lemma udec_inj a b : udec a = udec b -> a = b.
Proof.
  unfold udec. intro E. apply (f_equal (@length N)) in E. rewrite !repeat_length in E. lia.
Qed.

Lemma hypotheses_satisfiable :
  exists H quote dec, hash_ok H /\ quote_ok quote /\ (forall a b : N, dec a = dec b -> a = b) /\
    (* and with them a concrete pair of distinct expanded-postings items gets distinct keys *)
    key_of H quote dec true (IExpanded [48] [mkM MEq [97] [98; 59; 99]] []) <>
    key_of H quote dec true (IExpanded [48] [mkM MEq [97] [98]; mkM MEq [99] []] []).
Proof.
  exists hexenc, uquote, udec. split; [split; [exact hexenc_inj|exact hexenc_nocolon]|].
  split; [exact uquote_ok|]. split; [exact udec_inj|].
  vm_compute. discriminate.
Qed.

(* ---- the matchers cache under concurrent lookups --------------------------------------------------- *)

Section FlightProofs.
  Variables sfk lruk : matcher -> str.
  Variable items : list matcher.
  (* the two key functions separate the different items of the history *)
  Hypothesis sfk_inj : forall a b, In a items -> In b items -> sfk a = sfk b -> a = b.
  Hypothesis lruk_inj : forall a b, In a items -> In b items -> lruk a = lruk b -> a = b.

  Definition item (i : nat) : option matcher := nth_error items i.

  Definition finv (st : fstate) : Prop :=
    (forall k m, In (k, m) (f_lru st) -> In m items /\ k = lruk m) /\
    (forall k j, In (k, j) (f_fl st) -> exists mj, item j = Some mj /\ k = sfk mj) /\
    (forall i j, f_ls st i = LWait j -> exists mi mj, item i = Some mi /\ item j = Some mj /\ sfk mi = sfk mj) /\
    (forall i r, f_ls st i = LDone r -> item i = Some r).

  Lemma assoc_s_in {A} : forall (l : list (str * A)) k v, assoc_s k l = Some v -> exists k', In (k', v) l /\ k' = k.
  Proof.
    induction l as [|[k' v'] l IH]; intros k v H; cbn [assoc_s] in H; [discriminate|].
    destruct (str_eqb k' k) eqn:E.
    - inversion H; subst. apply str_eqb_spec in E. exists k'. split; [left; reflexivity|exact E].
    - destruct (IH k v H) as (k2 & Hin & ->). exists k. split; [right; exact Hin|reflexivity].
  Qed.

  Lemma fstep_inv st e : finv st -> finv (fstep sfk lruk items st e).
  Proof.
    intros (I1 & I2 & I3 & I4). destruct e as [i|i]; cbn [fstep].
    - destruct (f_ls st i) eqn:Ls; try exact (conj I1 (conj I2 (conj I3 I4))).
      destruct (nth_error items i) as [m|] eqn:Ei; [|exact (conj I1 (conj I2 (conj I3 I4)))].
      assert (Hm : In m items) by (apply (nth_error_In _ _ Ei)).
      destruct (assoc_s (sfk m) (f_fl st)) as [j|] eqn:Af.
      + (* waits for j *)
        apply assoc_s_in in Af as (k' & Hin & ->). destruct (I2 _ _ Hin) as (mj & Ej & Ek).
        (split; [|split; [|split]]); cbn [f_lru f_fl f_ls]; auto.
        * intros x y Hx. unfold upd_ls in Hx. destruct (Nat.eqb_spec x i) as [->|_]; [|apply (I3 _ _ Hx)].
          inversion Hx; subst y. exists m, mj. auto.
        * intros x r Hx. unfold upd_ls in Hx. destruct (Nat.eqb_spec x i) as [->|_]; [discriminate|apply (I4 _ _ Hx)].
      + destruct (assoc_s (lruk m) (f_lru st)) as [r|] eqn:Al.
        * (* cache hit: the cached item has the same LRU key, hence is the same item *)
          apply assoc_s_in in Al as (k' & Hin & Ek). destruct (I1 _ _ Hin) as (Hr & Ek'). subst k'.
          assert (r = m) by (apply lruk_inj; auto). subst r.
          (split; [|split; [|split]]); cbn [f_lru f_fl f_ls]; auto.
          -- intros x y Hx. unfold upd_ls in Hx. destruct (Nat.eqb_spec x i) as [->|_]; [discriminate|apply (I3 _ _ Hx)].
          -- intros x r Hx. unfold upd_ls in Hx. destruct (Nat.eqb_spec x i) as [->|_]; [inversion Hx; subst; exact Ei|apply (I4 _ _ Hx)].
        * (split; [|split; [|split]]); cbn [f_lru f_fl f_ls]; auto.
          -- intros k j [Hx|Hx]; [inversion Hx; subst; exists m; auto|apply (I2 _ _ Hx)].
          -- intros x y Hx. unfold upd_ls in Hx. destruct (Nat.eqb_spec x i) as [->|_]; [discriminate|apply (I3 _ _ Hx)].
          -- intros x r Hx. unfold upd_ls in Hx. destruct (Nat.eqb_spec x i) as [->|_]; [discriminate|apply (I4 _ _ Hx)].
    - destruct (f_ls st i) eqn:Ls; try exact (conj I1 (conj I2 (conj I3 I4))).
      destruct (nth_error items i) as [m|] eqn:Ei; [|exact (conj I1 (conj I2 (conj I3 I4)))].
      assert (Hm : In m items) by (apply (nth_error_In _ _ Ei)).
      (split; [|split; [|split]]); cbn [f_lru f_fl f_ls].
      + intros k m' [Hx|Hx]; [inversion Hx; subst; auto|apply (I1 _ _ Hx)].
      + intros k j Hx. apply filter_In in Hx as [Hx _]. apply (I2 _ _ Hx).
      + intros x y Hx. destruct (Nat.eqb_spec x i) as [->|_]; [discriminate|].
        destruct (f_ls st x) eqn:Lx; try discriminate.
        destruct (Nat.eqb_spec j i) as [->|_]; [discriminate|]. inversion Hx; subst y. apply (I3 _ _ Lx).
      + intros x r Hx. destruct (Nat.eqb_spec x i) as [->|_]; [inversion Hx; subst; exact Ei|].
        destruct (f_ls st x) eqn:Lx; try discriminate.
        * destruct (Nat.eqb_spec j i) as [->|_]; [|discriminate]. inversion Hx; subst r.
          (* a waiter of i has the same singleflight key as i: it is the same item *)
          destruct (I3 _ _ Lx) as (mi & mj & Ex & Ej & Ek). unfold item in *. rewrite Ei in Ej. inversion Ej; subst mj.
          rewrite Ex. f_equal. apply sfk_inj; auto. apply (nth_error_In _ _ Ex).
        * inversion Hx; subst. apply (I4 _ _ Lx).
  Qed.

  Lemma frun_inv : forall evs st, finv st -> finv (fold_left (fstep sfk lruk items) evs st).
  Proof. induction evs as [|e r IH]; intros st I; cbn [fold_left]; [exact I|]. apply IH. apply fstep_inv. exact I. Qed.

  (* for EVERY interleaving of begin / finish events, every lookup that returns gets the
     matcher of its own item *)
  Lemma inflight_own_item evs i r : f_ls (frun sfk lruk items evs) i = LDone r -> nth_error items i = Some r.
  Proof.
    intro H. assert (I : finv finit) by (repeat split; cbn; intros; try contradiction; discriminate).
    destruct (frun_inv evs finit I) as (_ & _ & _ & I4). apply (I4 _ _ H).
  Qed.
End FlightProofs.

(* the converse: if the singleflight key conflates two different items, the interleaving
   "begin 0, begin 1, finish 0" answers lookup 1 with item 0 — whatever the LRU key is *)
Lemma inflight_conflated sfk lruk m0 m1 : sfk m0 = sfk m1 ->
  f_ls (frun sfk lruk [m0; m1] [FBegin 0; FBegin 1; FFinish 0]) 1 = LDone m0.
Proof.
  intro E. unfold frun. cbn [fold_left fstep finit f_ls f_fl f_lru nth_error assoc_s upd_ls Nat.eqb].
  rewrite <- E. assert (S : str_eqb (sfk m0) (sfk m0) = true) by (apply str_eqb_spec; reflexivity).
  cbn [assoc_s]. rewrite S. cbn [f_ls f_fl f_lru upd_ls Nat.eqb nth_error]. reflexivity.
Qed.

Lemma flight_key_inj a b : flight_key a = flight_key b -> a = b.
Proof. unfold flight_key. apply (matcher_key_inj uquote_m). exact uquote_ok. Qed.

Lemma flight_results_own items evs i r :
  nth_error (flight_results flight_key flight_key items evs) i = Some (Some r) -> nth_error items i = Some r.
Proof.
  unfold flight_results. intro H. rewrite nth_error_map in H.
  destruct (nth_error (seq 0 (length items)) i) as [n0|] eqn:E; [|discriminate].
  assert (Hi : (i < length (seq 0 (length items)))%nat) by (apply nth_error_Some; congruence).
  rewrite seq_length in Hi. apply (nth_error_nth _ _ 0%nat) in E. rewrite seq_nth in E by exact Hi. cbn in E. subst n0.
  cbn [option_map] in H.
  destruct (f_ls (frun flight_key flight_key items evs) i) eqn:L; inversion H; subst.
  apply (inflight_own_item flight_key flight_key items) with (evs := evs).
  - intros a b _ _ E. apply flight_key_inj. exact E.
  - intros a b _ _ E. apply flight_key_inj. exact E.
  - exact L.
Qed.

(* tie T: the singleflight key, the LRU lookup key and the LRU store key are the same expression *)
Lemma get_or_set_keys :
  getOrSetKeys = ["key := cacheKey(m)"; "c.sf.Do(key)"; "c.cache.Get(key)"; "c.cache.Add(key)"]%string.
Proof. reflexivity. Qed.
