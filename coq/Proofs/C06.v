(* C06 — instantiation of Lib/Proxy_Fail.v for the concrete model, with the strategy
   tests regenerated from the source (Gen/C06.v). *)
From Coq Require Import ZArith NArith List Bool Lia Permutation Sorted.
Import ListNotations.
From Verif Require Import Lib.Corr Lib.Proxy_Order Lib.Proxy_Model Lib.Proxy_Proofs Lib.Proxy_LoserTree Lib.Proxy_Fail
  Gen.C06 Model.C03 Proofs.C03_Inst Model.C06.
Open Scope Z_scope.

(* the two strategy tests of ProxyStore.Series agree: a request is either in abort mode
   for both open errors and stream warnings, or in warn mode for both *)
Lemma modes_consistent disabled strategy :
  open_warn_mode disabled strategy = negb (loop_abort_mode disabled strategy).
Proof. unfold open_warn_mode, loop_abort_mode. destruct disabled, (strategy =? ABORT); reflexivity. Qed.

Lemma abort_mode_spec disabled strategy :
  loop_abort_mode disabled strategy = true <-> disabled = true \/ strategy = ABORT.
Proof.
  unfold loop_abort_mode. rewrite orb_true_iff, Z.eqb_eq. tauto.
Qed.

Lemma limit_break_off6 limit : limit <= 0 -> forall i, Gen.C06.limit_break limit i = false.
Proof. intros H i. unfold Gen.C06.limit_break. destruct (limit >? 0) eqn:E; [apply Z.gtb_lt in E; lia | reflexivity]. Qed.

Lemma fail_warning_eq (s : script) : fail_warning s = fail_warn s.
Proof. reflexivity. Qed.

Theorem abort_fails6 lazy wrl disabled strategy limit batch (scripts : list script) :
  limit <= 0 ->
  disabled = true \/ strategy = ABORT ->
  (exists s w, In s scripts /\ fail_warning s = Some w) ->
  proxy6 lazy wrl disabled strategy limit batch scripts = None.
Proof.
  intros Hl Hm Hf. unfold proxy6. rewrite modes_consistent, negb_involutive.
  apply abort_mode_spec in Hm. rewrite Hm.
  apply (abort_fails lbl_cmp lbl_ord ckey keqb cleb wlen); [apply limit_break_off6; exact Hl | exact Hf].
Qed.

Theorem warn_succeeds6 lazy wrl disabled strategy limit batch (scripts : list script) :
  limit <= 0 ->
  disabled = false -> strategy <> ABORT ->
  exists frames,
    proxy6 lazy wrl disabled strategy limit batch scripts = Some frames
    /\ (forall s w, In s scripts -> fail_warning s = Some w -> In w (warns (unbatch frames)))
    /\ (forall s X cs, In s scripts -> sopen_err s = None -> In (X, cs) (presented (wrlb wrl) (rm_labels wrl) s) ->
          exists cs', In (X, cs') (sers (unbatch frames)) /\ forall c, In c cs -> In (ckey c) (map ckey cs')).
Proof.
  intros Hl Hd Hs. unfold proxy6. rewrite modes_consistent, negb_involutive.
  assert (loop_abort_mode disabled strategy = false) as ->.
  { destruct (loop_abort_mode disabled strategy) eqn:E; [|reflexivity]. apply abort_mode_spec in E. destruct E; congruence. }
  apply (warn_succeeds lbl_cmp lbl_ord ckey keqb keqb_spec cleb time_ord cleb_true cleb_false wlen).
  apply limit_break_off6. exact Hl.
Qed.

(* ---- through the querier ---- *)
Lemma in_uinsert x y l : In x (uinsert y l) <-> x = y \/ In x l.
Proof.
  induction l as [|z r IH]; cbn [uinsert]; [cbn; intuition congruence|].
  destruct (str_cmp y z) eqn:E; cbn [In]; try rewrite IH; try (intuition congruence).
  apply (cmp_eq _ str_ord) in E. subst z. cbn [In]. intuition congruence.
Qed.
Lemma in_uset x l : In x (uset l) <-> In x l.
Proof. induction l as [|y r IH]; cbn; [tauto|]. fold (uset r). rewrite in_uinsert, IH. intuition congruence. Qed.

Lemma in_frame_warnings w (fs : list frame) : In w (warns (unbatch fs)) -> In w (frame_warnings fs).
Proof.
  unfold unbatch. induction fs as [|f r IH]; [intros []|].
  unfold flatten_frames. cbn [map concat]. fold (flatten_frames r). rewrite warns_app. intros H. apply in_app_or in H as [H|H].
  - unfold frame_warnings. cbn [map concat]. apply in_or_app. left.
    destruct f as [l cs|ss|w']; cbn in H.
    + destruct H.
    + exfalso. induction ss as [|p ss IHs]; cbn in H; [exact H | apply IHs; exact H].
    + exact H.
  - unfold frame_warnings. cbn [map concat]. apply in_or_app. right. apply IH. exact H.
Qed.

Lemma warn_ne_abort : WARN <> ABORT.
Proof. unfold WARN, ABORT. discriminate. Qed.

Theorem querier_abort_fails lazy batch (scripts : list script) :
  (exists s w, In s scripts /\ fail_warning s = Some w) ->
  querier_select lazy false batch scripts = None.
Proof.
  intros Hf. unfold querier_select. rewrite abort_fails6; [reflexivity | lia | right; reflexivity | exact Hf].
Qed.

Theorem querier_warn_succeeds lazy batch (scripts : list script) :
  exists ls ws,
    querier_select lazy true batch scripts = Some (ls, ws)
    /\ (forall s w, In s scripts -> fail_warning s = Some w -> In w ws)
    /\ (forall s X cs, In s scripts -> sopen_err s = None -> In (X, cs) (presented false (rm_labels []) s) -> In X ls).
Proof.
  destruct (warn_succeeds6 lazy [] false WARN 0 batch scripts ltac:(lia) eq_refl warn_ne_abort) as (fs & E & Hw & Hs).
  unfold querier_select. rewrite E. eexists. eexists. split; [reflexivity|]. split.
  - intros s w Hin Hf. apply in_uset. apply in_frame_warnings. eapply Hw; eauto.
  - intros s X cs Hin Ho Hp. destruct (Hs s X cs Hin Ho Hp) as [cs' [H1 _]].
    apply in_map_iff. exists (X, cs'). split; [reflexivity | exact H1].
Qed.

(* ---- which Recv errors end a stream cleanly ---- *)
Lemma only_eof_ends_stream w : recv_eos_lazy false w = false /\ recv_eos_eager false w = false.
Proof. split; reflexivity. Qed.

Lemma effective_id lazy wrl w (s : script) : effective lazy wrl w s = s.
Proof.
  unfold effective. destruct (send s); [reflexivity|].
  destruct (only_eof_ends_stream w) as [A B]. rewrite A, B. destruct (lazy && _); reflexivity.
Qed.

Lemma effective_all_id lazy wrl ws (ss : list script) : effective_all lazy wrl ws ss = ss.
Proof.
  revert ws. induction ss as [|s r IH]; intros ws; [reflexivity|]. cbn [effective_all]. rewrite effective_id, IH. reflexivity.
Qed.

Lemma only_io_eof_ends_a_stream lazy wrl wraps (scripts : list script) :
  effective_all lazy wrl wraps scripts = scripts
  /\ forall w, recv_eos_lazy false w = false /\ recv_eos_eager false w = false.
Proof. split; [apply effective_all_id | exact only_eof_ends_stream]. Qed.
