(* C06 — instantiation of Lib/Proxy_Fail.v for the concrete model, with the strategy
   tests regenerated from the source (Gen/C06.v). *)
From Coq Require Import ZArith NArith List Bool Lia Permutation Sorted.
Import ListNotations.
From Verif Require Import Lib.Corr Lib.Proxy_Order Lib.Proxy_Model Lib.Proxy_Proofs Lib.Proxy_LoserTree Lib.Proxy_Fail
  Gen.C06 Model.C03 Proofs.C03_Inst Model.C06.
Open Scope Z_scope.

(* the two strategy tests of ProxyStore.Series agree: a request is either in abort mode
   for both open errors and stream warnings, or in warn mode for both *)
Lemma modes_consistent disabled strategy :
  open_warn_mode disabled strategy = negb (loop_abort_mode disabled strategy).
Proof. unfold open_warn_mode, loop_abort_mode. destruct disabled, (strategy =? ABORT); reflexivity. Qed.

Lemma abort_mode_spec disabled strategy :
  loop_abort_mode disabled strategy = true <-> disabled = true \/ strategy = ABORT.
Proof.
  unfold loop_abort_mode. rewrite orb_true_iff, Z.eqb_eq. tauto.
Qed.

Lemma limit_break_off6 limit : limit <= 0 -> forall i, Gen.C06.limit_break limit i = false.
Proof. intros H i. unfold Gen.C06.limit_break. destruct (limit >? 0) eqn:E; [apply Z.gtb_lt in E; lia | reflexivity]. Qed.

Lemma fail_warning_eq (s : script) : fail_warning s = fail_warn s.
Proof. reflexivity. Qed.

Theorem abort_fails6 lazy wrl disabled strategy limit batch (scripts : list script) :
  limit <= 0 ->
  disabled = true \/ strategy = ABORT ->
  (exists s w, In s scripts /\ fail_warning s = Some w) ->
  proxy6 lazy wrl disabled strategy limit batch scripts = None.
Proof.
  intros Hl Hm Hf. unfold proxy6. rewrite modes_consistent, negb_involutive.
  apply abort_mode_spec in Hm. rewrite Hm.
  apply (abort_fails lbl_cmp lbl_ord ckey keqb cleb wlen); [apply limit_break_off6; exact Hl | exact Hf].
Qed.

Theorem warn_succeeds6 lazy wrl disabled strategy limit batch (scripts : list script) :
  limit <= 0 ->
  disabled = false -> strategy <> ABORT ->
  exists frames,
    proxy6 lazy wrl disabled strategy limit batch scripts = Some frames
    /\ (forall s w, In s scripts -> fail_warning s = Some w -> In w (warns (unbatch frames)))
    /\ (forall s X cs, In s scripts -> sopen_err s = None -> In (X, cs) (presented (wrlb wrl) (rm_labels wrl) s) ->
          exists cs', In (X, cs') (sers (unbatch frames)) /\ forall c, In c cs -> In (ckey c) (map ckey cs')).
Proof.
  intros Hl Hd Hs. unfold proxy6. rewrite modes_consistent, negb_involutive.
  assert (loop_abort_mode disabled strategy = false) as ->.
  { destruct (loop_abort_mode disabled strategy) eqn:E; [|reflexivity]. apply abort_mode_spec in E. destruct E; congruence. }
  apply (warn_succeeds lbl_cmp lbl_ord ckey keqb keqb_spec cleb time_ord cleb_true cleb_false wlen).
  apply limit_break_off6. exact Hl.
Qed.
