(* C16 — proofs about the lazy-reader transition system of Model/C16.v. *)
From Coq Require Import ZArith List Bool String Arith Lia.
Import ListNotations.
From Verif Require Import Lib.Corr Gen.C16 Model.C16.
Close Scope Z_scope.

(* ---------- counting threads ---------- *)
Fixpoint cnt (f : pc -> bool) (l : list pc) : nat :=
  match l with [] => 0 | p :: r => (if f p then 1 else 0) + cnt f r end.

Lemma cnt_app f l r : cnt f (l ++ r) = cnt f l + cnt f r.
Proof. induction l as [|a l IH]; simpl; [reflexivity|]. rewrite IH. lia. Qed.

Lemma cnt_zero_forall f l : cnt f l = 0 -> Forall (fun p => f p = false) l.
Proof.
  induction l as [|a l IH]; simpl; intros H; constructor.
  - destruct (f a); [simpl in H; lia|reflexivity].
  - apply IH. destruct (f a); simpl in H; lia.
Qed.

Lemma cnt_repeat_idle f n : f Idle = false -> cnt f (repeat Idle n) = 0.
Proof. intros H. induction n; simpl; [reflexivity|]. rewrite H, IHn. reflexivity. Qed.

Lemma cnt_in_pos f l p : In p l -> f p = true -> 1 <= cnt f l.
Proof.
  induction l as [|a l IH]; simpl; intros Hin Hf; [contradiction|].
  destruct Hin as [E|Hin].
  - subst. rewrite Hf. lia.
  - specialize (IH Hin Hf). lia.
Qed.

(* ---------- the invariant ---------- *)
Definition rd_open (r : option nat) (cl : list nat) : Prop :=
  match r with Some h => is_closed h cl = false | None => True end.

(* a Reader method returns the answer of an open handle, the latched load error,
   or errUnloadedWhileLoading *)
Definition lookup_res (x : res) : Prop :=
  match x with ROk _ b => b = false | RErr ELoad | RErr EUnloaded => True | _ => False end.
Definition unload_res (x : res) : Prop :=
  match x with RNil | RErr ENotIdle | RErr EClose => True | _ => False end.
Definition good_res (x : res) : Prop :=
  match x with RPanic | RUAC _ => False | ROk _ b => b = false | _ => True end.

Definition err_ok (e : option errk) : Prop :=
  match e with None | Some ELoad => True | _ => False end.

Definition pc_ok (r : option nat) (cl : list nat) (p : pc) : Prop :=
  match p with
  | L_Touch | L_UseRead => r <> None
  | L_UseCall h => r = Some h
  | L_Check2 | U_CheckNil _ => rd_open r cl
  | L_Create => r = None
  | L_Unlock e => rd_open r cl /\ err_ok e
  | L_RLock2 e | L_Recheck e => err_ok e
  | U_CheckIdle _ | U_Close => rd_open r cl /\ r <> None
  | U_SetNil => exists h, r = Some h /\ is_closed h cl = true
  | U_Unlock x => rd_open r cl /\ unload_res x
  | L_RUnlockEnd x => lookup_res x
  | Done x => good_res x
  | Dangling _ => False
  | _ => True
  end.

Definition live (r : option nat) (cl : list nat) : nat :=
  match r with Some h => if is_closed h cl then 0 else 1 | None => 0 end.

Record Inv (s : shared) (ts : list pc) : Prop := mkInv {
  inv_r : readers s = cnt holdsR ts;
  inv_w : (if writer s then 1 else 0) = cnt holdsW ts;
  inv_x : writer s = true -> readers s = 0;
  inv_open : writer s = false -> rd_open (rd s) (closed s);
  inv_lt : Forall (fun h => h < nexth s) (closed s);
  inv_rdlt : forall h, rd s = Some h -> h < nexth s;
  inv_cnt1 : nexth s = List.length (closed s) + live (rd s) (closed s);
  inv_cnt2 : loads s = nexth s + loadfails s;
  inv_cnt3 : unloads s = List.length (closed s) + unloadfails s;
  inv_pc : Forall (pc_ok (rd s) (closed s)) ts }.

Lemma pc_ok_free r cl r' cl' p :
  holdsR p = false -> holdsW p = false -> pc_ok r cl p -> pc_ok r' cl' p.
Proof. destruct p; simpl; intros; try discriminate; auto. Qed.

Lemma others_free r cl r' cl' l :
  cnt holdsR l = 0 -> cnt holdsW l = 0 ->
  Forall (pc_ok r cl) l -> Forall (pc_ok r' cl') l.
Proof.
  intros HR HW H. apply cnt_zero_forall in HR. apply cnt_zero_forall in HW.
  induction l as [|a l IH]; constructor.
  - inversion HR; inversion HW; inversion H; subst. eapply pc_ok_free; eauto.
  - inversion HR; inversion HW; inversion H; subst. apply IH; auto.
Qed.

Lemma is_closed_lt h nh cl : Forall (fun x => x < nh) cl -> nh <= h -> is_closed h cl = false.
Proof.
  intros H Hle. induction H as [|a cl Ha _ IH]; simpl; [reflexivity|].
  rewrite IH, orb_false_r. apply Nat.eqb_neq. lia.
Qed.

Lemma is_closed_cons h a cl : is_closed h (a :: cl) = (h =? a) || is_closed h cl.
Proof. reflexivity. Qed.

(* a configuration seen from the stepping thread *)
Lemma holdR_facts n w a b : n = a + S b -> (w = true -> n = 0) -> w = false.
Proof. intros H Hx. destruct w; [specialize (Hx eq_refl); lia | reflexivity]. Qed.

Lemma holdW_facts (w : bool) a b : (if w then 1 else 0) = a + S b -> w = true /\ a = 0 /\ b = 0.
Proof. destruct w; intros H; [repeat split; lia | lia]. Qed.

Local Ltac split_inv H :=
  destruct H as [Hr Hw Hx Hopen Hlt Hrdlt Hc1 Hc2 Hc3 Hpc];
  simpl in Hr, Hw, Hx, Hopen, Hlt, Hrdlt, Hc1, Hc2, Hc3, Hpc;
  rewrite cnt_app in Hr, Hw; simpl cnt in Hr, Hw;
  apply Forall_app in Hpc; destruct Hpc as [Hpl Hpc];
  apply Forall_cons_iff in Hpc; destruct Hpc as [Hpp Hpr].

Local Ltac finish_pc :=
  apply Forall_app; split; [|apply Forall_cons_iff; split]; simpl; auto.

Lemma tstep_inv c s p s' p' l r :
  Inv s (l ++ p :: r) -> tstep false c s p = Some (s', p') -> Inv s' (l ++ p' :: r).
Proof.
  intros HI Hs. destruct s as [n w rdv e u nh cl lo lf un uf].
  split_inv HI.
  destruct p; simpl in Hs; simpl in Hpp;
    try (match type of Hs with context [Dangling] => destruct r0 as [? []| | | | |]; simpl in Hpp; try discriminate Hpp end);
    repeat match type of Hs with
      | context [if ?b then _ else _] => let E := fresh "E" in destruct b eqn:E
      | context [match ?b with Some _ => _ | None => _ end] => let E := fresh "E" in destruct b eqn:E
      end;
    try discriminate; injection Hs as Es Ep; subst s' p';
    try (apply orb_false_iff in E; destruct E as [Ew En]; apply negb_false_iff in En;
         apply Nat.eqb_eq in En);
    simpl in Hr, Hw, Hpp;
    (* the stepping thread holds the read lock: no writer, reader field open *)
    try (pose proof (holdR_facts _ _ _ _ Hr Hx) as Hwf; pose proof (Hopen Hwf) as Hop);
    (* the stepping thread holds the write lock: nobody else holds anything *)
    try (destruct (holdW_facts _ _ _ Hw) as (Hwt & HWl & HWr); pose proof (Hx Hwt) as Hn0;
         assert (HRl : cnt holdsR l = 0) by lia; assert (HRr : cnt holdsR r = 0) by lia);
    try subst w; try subst rdv; simpl in Hw.
  all: constructor; simpl; rewrite ?cnt_app; simpl cnt.
  all: try solve [ assumption | lia | discriminate
    | destruct (c_op c); simpl; lia
    | destruct cont; try destruct b; simpl; lia
    | intros Hq; try discriminate; try (specialize (Hx Hq)); lia
    | intros Hq; try discriminate; auto; tauto ].
  all: try solve [ finish_pc; try tauto; try (destruct (c_op c); exact I);
                   try (destruct cont; try destruct b; exact I) ].
  all: try solve [ finish_pc; destruct rdv; simpl in *; try discriminate; try tauto; congruence ].
  all: try solve [ eapply Forall_impl; [|exact Hlt]; simpl; intros; lia ].
  all: try solve [ intros h0 Hq; injection Hq as Hq; lia ].
  all: try solve [ rewrite (is_closed_lt nh nh cl Hlt (le_n _)); simpl in Hc1; lia ].
  all: try solve [ finish_pc; destruct e1; simpl in *; tauto ].
  all: try solve [ simpl in Hop; congruence ].
  all: try solve [ finish_pc; destruct r0 as [|[]| | | |]; simpl in *; tauto ].
  all: try solve [ constructor; [apply Hrdlt; reflexivity | assumption] ].
  all: try solve [ rewrite Nat.eqb_refl; simpl; destruct Hpp as [Hq _]; simpl in Hq, Hc1; rewrite Hq in Hc1; lia ].
  all: try solve [ destruct Hpp as (h0 & Hq & Hcq); subst; simpl in Hc1; rewrite Hcq in Hc1; lia ].
  all: try solve [ apply Forall_app; split; [eapply others_free; eauto
                   | apply Forall_cons_iff; split; [| eapply others_free; eauto]];
                   simpl; try tauto;
                   try (split; [apply (is_closed_lt nh nh cl Hlt (le_n _)) | exact I]);
                   try (exists n0; split; [reflexivity | simpl; rewrite Nat.eqb_refl; reflexivity]) ].
  - finish_pc. split; [assumption|]. destruct rdv; [intro; discriminate | discriminate].
  - destruct Hpp as (h0 & Hq & Hcq). rewrite Hq in Hc1. simpl in Hc1. rewrite Hcq in Hc1. lia.
Qed.


(* ---------- reachability ---------- *)
Lemma inv_init u0 n : Inv (init_shared u0) (repeat Idle n).
Proof.
  constructor; simpl; rewrite ?cnt_repeat_idle by reflexivity; auto; try discriminate.
  induction n; simpl; constructor; auto. exact I.
Qed.

Lemma step_inv x y : step false x y -> Inv (fst x) (snd x) -> Inv (fst y) (snd y).
Proof. intros H. destruct H; simpl. intros HI. eapply tstep_inv; eauto. Qed.

Lemma steps_inv x y : steps false x y -> Inv (fst x) (snd x) -> Inv (fst y) (snd y).
Proof. induction 1; auto. intros HI. eapply step_inv; eauto. Qed.

Lemma reachable_inv s ts : reachable false s ts -> Inv s ts.
Proof. intros (n & u0 & H). apply (steps_inv _ _ H). simpl. apply inv_init. Qed.

Lemma Forall_In_pc (P : pc -> Prop) l p : Forall P l -> In p l -> P p.
Proof. intros H Hin. rewrite Forall_forall in H. auto. Qed.

(* a thread holding the read lock sees an open reader field and no writer *)
Lemma inv_holdsR s ts p :
  Inv s ts -> In p ts -> holdsR p = true ->
  1 <= readers s /\ writer s = false /\ rd_open (rd s) (closed s).
Proof.
  intros HI Hin Hh. pose proof (cnt_in_pos _ _ _ Hin Hh) as Hc.
  destruct HI as [Hr Hw Hx Hopen _ _ _ _ _ _]. rewrite <- Hr in Hc.
  assert (Hwf : writer s = false) by (destruct (writer s); [specialize (Hx eq_refl); lia | reflexivity]).
  auto.
Qed.

Lemma no_use_after_close s ts h :
  reachable false s ts -> In (L_UseCall h) ts ->
  1 <= readers s /\ writer s = false /\ rd s = Some h /\ is_closed h (closed s) = false.
Proof.
  intros HR Hin. apply reachable_inv in HR.
  destruct (inv_holdsR _ _ _ HR Hin eq_refl) as (H1 & H2 & H3).
  pose proof (Forall_In_pc _ _ _ (inv_pc _ _ HR) Hin) as Hp. simpl in Hp.
  rewrite Hp in H3. simpl in H3. auto.
Qed.

Lemma reader_field_not_nil s ts p :
  reachable false s ts -> In p ts -> p = L_Touch \/ p = L_UseRead ->
  1 <= readers s /\ writer s = false /\ exists h, rd s = Some h /\ is_closed h (closed s) = false.
Proof.
  intros HR Hin Hp. apply reachable_inv in HR.
  assert (Hh : holdsR p = true) by (destruct Hp; subst; reflexivity).
  destruct (inv_holdsR _ _ _ HR Hin Hh) as (H1 & H2 & H3).
  pose proof (Forall_In_pc _ _ _ (inv_pc _ _ HR) Hin) as Hq.
  assert (Hn : rd s <> None) by (destruct Hp; subst; exact Hq).
  destruct (rd s) as [h|]; [|congruence]. simpl in H3. eauto.
Qed.

Lemma rw_excl s ts :
  reachable false s ts ->
  readers s = cnt holdsR ts /\ cnt holdsW ts = (if writer s then 1 else 0) /\
  (writer s = true -> cnt holdsR ts = 0).
Proof.
  intros HR. apply reachable_inv in HR. destruct HR as [Hr Hw Hx _ _ _ _ _ _ _].
  repeat split; auto. intros H. rewrite <- Hr. auto.
Qed.

Lemma results_ok s ts x :
  reachable false s ts ->
  (In (L_RUnlockEnd x) ts -> lookup_res x) /\
  (In (U_Unlock x) ts -> unload_res x) /\
  (In (Done x) ts -> good_res x).
Proof.
  intros HR. apply reachable_inv in HR. pose proof (inv_pc _ _ HR) as Hp.
  repeat split; intros Hin; pose proof (Forall_In_pc _ _ _ Hp Hin) as Hq; simpl in Hq; tauto.
Qed.

(* counters: successful loads = successful unloads + [loaded], whenever no
   unload is in flight (in particular whenever the write lock is free) *)
Lemma counts_quiescent s ts :
  reachable false s ts -> writer s = false ->
  loads s - loadfails s = (unloads s - unloadfails s) + (if is_some (rd s) then 1 else 0)
  /\ loadfails s <= loads s /\ unloadfails s <= unloads s.
Proof.
  intros HR Hwf. apply reachable_inv in HR.
  destruct HR as [_ _ _ Hopen _ _ Hc1 Hc2 Hc3 _]. specialize (Hopen Hwf).
  unfold live, rd_open in *. destruct (rd s) as [h|]; simpl.
  - rewrite Hopen in Hc1. lia.
  - lia.
Qed.

(* ---------- sequential runs are runs of the transition system ---------- *)
Lemma steps_trans bp x y z : steps bp x y -> steps bp y z -> steps bp x z.
Proof.
  intros H1 H2. induction H2 as [|a b d H IH Hs]; [exact H1|].
  eapply steps_step; [apply IH; exact H1 | exact Hs].
Qed.

Lemma run_steps bp fuel c : forall s p s' x,
  run bp fuel c s p = Some (s', x) -> steps bp (s, [p]) (s', [Done x]).
Proof.
  induction fuel as [|f IH]; simpl; intros s p s' x H; [discriminate|].
  assert (Hgen : (exists y, p = Done y /\ s = s' /\ y = x) \/
                 (exists s1 p1, tstep bp c s p = Some (s1, p1) /\ run bp f c s1 p1 = Some (s', x))).
  { destruct p; try (right; destruct (tstep bp c s _) as [[s1 p1]|] eqn:E; [eauto|discriminate]).
    left. injection H as <- <-. eauto. }
  destruct Hgen as [(y & -> & -> & ->)|(s1 & p1 & Hs & Hrun)].
  - apply steps_refl.
  - eapply steps_trans; [|apply IH; exact Hrun].
    eapply steps_step; [apply steps_refl|].
    apply (step_thread bp c s s1 [] p p1 []). exact Hs.
Qed.

(* the sequential invariant: the invariant with one idle thread *)
Definition quiet (s : shared) : Prop := Inv s [Idle].

Definition op_res_ok (o : op) (x : res) : Prop :=
  match o with
  | OLookup => lookup_res x
  | OUnload _ => unload_res x
  | OIsIdle _ => exists b, x = RBool b
  | OSweep _ => unload_res x \/ x = RBool false
  end.

Lemma run_S bp f c s p :
  run bp (S f) c s p =
  match p with
  | Done x => Some (s, x)
  | _ => match tstep bp c s p with Some (s', p') => run bp f c s' p' | None => None end
  end.
Proof. reflexivity. Qed.

Lemma quiet_facts s : quiet s -> readers s = 0 /\ writer s = false /\ rd_open (rd s) (closed s).
Proof.
  intros [Hr Hw Hx Hopen _ _ _ _ _ _]. simpl in Hr, Hw.
  assert (writer s = false) by (destruct (writer s); [discriminate|reflexivity]). auto.
Qed.

Local Ltac run_step :=
  rewrite run_S;
  cbv beta iota delta [tstep start c_op c_ok c_now c_bw is_some negb orb andb Nat.eqb Nat.pred pred].

Lemma run_op_cases o ok now s :
  readers s = 0 -> writer s = false -> rd_open (rd s) (closed s) ->
  Forall (fun h => h < nexth s) (closed s) ->
  exists s' x, run_op false o ok now s = Some (s', x) /\ op_res_ok o x.
Proof.
  intros Hn Hw Ho Hlt. destruct s as [n w r e u nh cl lo lf un uf]. simpl in *. subst n w.
  pose proof (is_closed_lt nh nh cl Hlt (le_n _)) as Hfresh.
  unfold run_op.
  destruct o as [|ts|ts|ts]; destruct r as [h|]; simpl in Ho.
  all: repeat (run_step; try rewrite Ho; try rewrite Hfresh;
               repeat match goal with
                 | |- context [if ?b then _ else _] => destruct b eqn:?
                 end; cbv beta iota).
  all: eexists; eexists; (split; [reflexivity|]); simpl; auto; try (eexists; reflexivity).
Qed.

Lemma tstep_idle bp c s : tstep bp c s Idle = Some (s, start (c_op c)).
Proof. destruct s; reflexivity. Qed.
Lemma tstep_done c s x : good_res x -> tstep false c s (Done x) = Some (s, Idle).
Proof. destruct s. destruct x as [h []| | | | |]; simpl; intros H; try discriminate H; reflexivity. Qed.

Lemma run_op_unfold bp o ok now s : run_op bp o ok now s = run bp 24 (mkC o ok now true) s (start o).
Proof. unfold run_op. reflexivity. Qed.

Lemma run_op_quiet o ok now s :
  quiet s -> exists s' x, run_op false o ok now s = Some (s', x) /\ quiet s' /\ op_res_ok o x.
Proof.
  intros HQ. destruct (quiet_facts _ HQ) as (Hn & Hw & Ho).
  destruct (run_op_cases o ok now s Hn Hw Ho (inv_lt _ _ HQ)) as (s' & x & Hrun & Hres).
  exists s', x. split; [exact Hrun|]. split; [|exact Hres].
  pose proof Hrun as Hst. rewrite run_op_unfold in Hst. apply run_steps in Hst.
  assert (H1 : Inv s [start o]).
  { apply (tstep_inv (mkC o ok now true) s Idle s (start o) [] [] HQ). apply tstep_idle. }
  pose proof (steps_inv _ _ Hst H1) as H2. simpl in H2.
  change (Inv s' ([] ++ Idle :: [])).
  apply (tstep_inv (mkC o ok now true) s' (Done x) s' Idle [] []); [exact H2|]. apply tstep_done.
  pose proof (inv_pc _ _ H2) as Hp. inversion Hp; subst. assumption.
Qed.

Local Opaque run_op.

Lemma quiet_init u0 : quiet (init_shared u0).
Proof. apply (inv_init u0 1). Qed.

(* the model's own observations always satisfy the predicate, and the
   correspondence check accepts them *)
Lemma op_class_of o x : op_res_ok o x -> op_class_ok o (class_of x) = true.
Proof.
  destruct o; simpl.
  - destruct x as [|[]| |[]| |]; simpl; intros; try contradiction; reflexivity.
  - destruct x as [|[]| |[]| |]; simpl; intros; try contradiction; reflexivity.
  - intros [[] ->]; reflexivity.
  - intros [H| ->]; [destruct x as [|[]| |[]| |]; simpl in *; try contradiction; reflexivity | reflexivity].
Qed.

Lemma obs_matches_refl s x : obs_matches s x (obs_of s x) = true.
Proof.
  unfold obs_matches, obs_of. simpl.
  rewrite !N.eqb_refl, Z.eqb_refl, !Bool.eqb_reflx.
  destruct (class_of x); reflexivity.
Qed.

Lemma seq_model_ok load_ok : forall ops s,
  quiet s ->
  exists obs, seq_model false load_ok s ops = Some obs
    /\ seq_ok false load_ok s obs = true
    /\ forallb (fun x => op_class_ok (fst (fst x)) (o_res (snd x))) obs = true
    /\ map (fun x => (fst (fst x), snd (fst x))) obs = ops.
Proof.
  induction ops as [|[o now] ops IH]; intros s HQ; simpl.
  - exists []. auto.
  - destruct (run_op_quiet o (op_ok load_ok o) now s HQ) as (s' & x & Hrun & HQ' & Hres).
    rewrite Hrun. destruct (IH s' HQ') as (obs & Hm & Hok & Hp & Hmap). rewrite Hm.
    eexists. split; [reflexivity|]. simpl. rewrite Hrun, obs_matches_refl, Hok, Hp, Hmap.
    rewrite (op_class_of _ _ Hres). auto.
Qed.

(* whenever the implementation's observations agree with the model, they satisfy the predicate *)
Lemma seq_ok_pred load_ok : forall obs s,
  quiet s -> seq_ok false load_ok s obs = true ->
  forallb (fun x => op_class_ok (fst (fst x)) (o_res (snd x))) obs = true.
Proof.
  induction obs as [|[[o now] ob] obs IH]; intros s HQ H; simpl in *; [reflexivity|].
  destruct (run_op_quiet o (op_ok load_ok o) now s HQ) as (s' & x & Hrun & HQ' & Hres).
  rewrite Hrun in H. apply andb_true_iff in H as [Hm Hrest].
  rewrite (IH s' HQ' Hrest), andb_true_r.
  unfold obs_matches in Hm. repeat (apply andb_true_iff in Hm as [Hm _]).
  pose proof (op_class_of _ _ Hres) as Hc.
  destruct (class_of x), (o_res ob); simpl in Hm; try discriminate; exact Hc.
Qed.

(* ---------- tie T ---------- *)
Lemma facts_hold : facts_ok = true.
Proof. vm_compute. reflexivity. Qed.

(* no delegating method hands out memory-backed answers *)
Lemma bp_src_false : bp_src = false.
Proof. vm_compute. reflexivity. Qed.

(* ---------- executing a schedule yields a run ---------- *)
Lemma upd_split : forall i ts p p', nth_error ts i = Some p ->
  exists l r, ts = l ++ p :: r /\ upd i p' ts = l ++ p' :: r.
Proof.
  induction i as [|i IH]; intros [|a ts] p p' H; simpl in H; try discriminate.
  - injection H as ->. exists [], ts. auto.
  - destruct (IH ts p p' H) as (l & r & -> & E). exists (a :: l), r. simpl. rewrite E. auto.
Qed.

Lemma exec_steps bp : forall sched s ts cfg, exec bp sched s ts = Some cfg -> steps bp (s, ts) cfg.
Proof.
  induction sched as [|[i c] rest IH]; simpl; intros s ts cfg H.
  - injection H as <-. apply steps_refl.
  - destruct (nth_error ts i) as [p|] eqn:En; [|discriminate].
    destruct (tstep bp c s p) as [[s' p']|] eqn:Et; [|discriminate].
    destruct (upd_split i ts p p' En) as (l & r & -> & Eu). rewrite Eu in H.
    eapply steps_trans; [|apply IH; exact H].
    eapply steps_step; [apply steps_refl|]. econstructor. exact Et.
Qed.

(* the caller never reads an answer backed by an unmapped header *)
Lemma no_dangling s ts h : reachable false s ts -> ~ In (Dangling h) ts.
Proof.
  intros HR Hin. apply reachable_inv in HR.
  exact (Forall_In_pc _ _ _ (inv_pc _ _ HR) Hin).
Qed.

(* tie T: every return of load() holds the read lock again *)
Lemma load_lock_balance_holds : load_lock_balance = true.
Proof. vm_compute. reflexivity. Qed.

(* the lock-balance invariant: a thread about to run a Reader method's deferred
   RUnlock holds a read lock (so the RUnlock releases its own hold) *)
Lemma lock_balance s ts x :
  reachable false s ts -> In (L_RUnlockEnd x) ts -> 1 <= readers s /\ writer s = false.
Proof.
  intros HR Hin. apply reachable_inv in HR.
  destruct (inv_holdsR _ _ _ HR Hin eq_refl) as (H1 & H2 & _). auto.
Qed.
