(* C11 — proofs about the model of BinaryReader.init / postingsOffset / LabelValues. *)
From Coq Require Import ZArith NArith List Bool Lia Sorted.
Import ListNotations.
From Verif Require Import Lib.Corr Lib.Storegw_Str Gen.C11 Model.C11.
Open Scope Z_scope.

Definition keys (tbl : list entry) : list str := map fst tbl.

Definition next_end (lastVal : Z) (d : list entry) : Z :=
  match d with [] => lastVal | (_, po) :: _ => po - crc32_size end.

(* ---------- generic list facts ---------- *)
Lemma repeat_snoc {A} (x : A) n : repeat x n ++ [x] = repeat x (S n).
Proof. induction n; simpl; [reflexivity|]. rewrite IHn. reflexivity. Qed.

Lemma repeat_plus {A} (x : A) n m : repeat x (n + m) = repeat x n ++ repeat x m.
Proof. induction n; simpl; [reflexivity|]. rewrite IHn. reflexivity. Qed.

Lemma ssorted_app_inv {A} (R : A -> A -> Prop) l1 l2 :
  StronglySorted R (l1 ++ l2) ->
  StronglySorted R l1 /\ StronglySorted R l2 /\ (forall x y, In x l1 -> In y l2 -> R x y).
Proof.
  induction l1 as [|a l1 IH]; simpl; intro H.
  - repeat split; [constructor | exact H | intros x y []].
  - inversion H as [|? ? Hs Hf]; subst. destruct (IH Hs) as (H1 & H2 & H3).
    rewrite Forall_app in Hf. destruct Hf as [Hf1 Hf2].
    repeat split; [constructor; assumption | exact H2 |].
    intros x y [->|Hx] Hy; [rewrite Forall_forall in Hf2; apply Hf2; exact Hy | apply H3; assumption].
Qed.

Lemma ssorted_tail {A} (R : A -> A -> Prop) a l : StronglySorted R (a :: l) -> StronglySorted R l.
Proof. intro H. inversion H; assumption. Qed.

Lemma ssorted_head {A} (R : A -> A -> Prop) a l : StronglySorted R (a :: l) -> Forall (R a) l.
Proof. intro H. inversion H; assumption. Qed.

Lemma ssorted_skipn {A} (R : A -> A -> Prop) k l : StronglySorted R l -> StronglySorted R (skipn k l).
Proof.
  revert l. induction k; intros l H; simpl; [exact H|].
  destruct l; [constructor|]. apply IHk. eapply ssorted_tail; eauto.
Qed.

(* ---------- the specification ---------- *)
Lemma spec_cons v po r lv w :
  spec_range ((v, po) :: r) lv w =
  if str_eqb v w then (po + posting_length_field_size, next_end lv r) else spec_range r lv w.
Proof. reflexivity. Qed.

Lemma spec_app_skip pre d lv w :
  Forall (fun e : entry => fst e <> w) pre -> spec_range (pre ++ d) lv w = spec_range d lv w.
Proof.
  induction pre as [|[v po] pre IH]; intro H; [reflexivity|].
  inversion H as [|? ? Hv Hr]; subst. simpl app. rewrite spec_cons.
  simpl in Hv. apply str_eqb_false_ne in Hv. rewrite Hv. apply IH. exact Hr.
Qed.

Lemma spec_absent tbl lv w : ~ In w (keys tbl) -> spec_range tbl lv w = NotFound.
Proof.
  induction tbl as [|[v po] tbl IH]; intro H; [reflexivity|].
  rewrite spec_cons. simpl in H.
  assert (Hv : v <> w) by (intro; apply H; left; assumption).
  apply str_eqb_false_ne in Hv. rewrite Hv. apply IH. intro; apply H; right; assumption.
Qed.

Lemma close_repeat e x n : close_rngs e (repeat (x, 0) n) = repeat (x, e) n.
Proof. induction n; simpl; [reflexivity|]. rewrite <- IHn. reflexivity. Qed.

Lemma close_app e a b : close_rngs e (a ++ b) = close_rngs e a ++ close_rngs e b.
Proof. apply map_app. Qed.

Lemma Forall_lt_ne (pre : list entry) w :
  Forall (fun e : entry => str_lt (fst e) w) pre -> Forall (fun e : entry => fst e <> w) pre.
Proof. apply Forall_impl. intros a H. apply str_lt_not_eq. exact H. Qed.

Lemma Forall_lt_le_trans (pre : list entry) w w' :
  Forall (fun e : entry => str_lt (fst e) w) pre -> str_le w w' ->
  Forall (fun e : entry => str_lt (fst e) w') pre.
Proof. intros H Hle. revert H. apply Forall_impl. intros a Ha. eapply str_lt_le_trans; eauto. Qed.

Lemma skipn_skipn' {A} a b (l : list A) : skipn a (skipn b l) = skipn (b + a) l.
Proof.
  revert l. induction b; intro l; simpl; [reflexivity|].
  destruct l; [destruct a; reflexivity|]. apply IHb.
Qed.

Lemma firstn_plus {A} a b (l : list A) : firstn a l ++ firstn b (skipn a l) = firstn (a + b) l.
Proof.
  revert l. induction a; intro l; simpl; [reflexivity|].
  destruct l; [destruct b; reflexivity|]. simpl. rewrite IHa. reflexivity.
Qed.

Lemma skipn_nth_split {A} (l : list A) p a :
  nth_error l p = Some a -> exists l1 l2, l = l1 ++ a :: l2 /\ skipn p l = a :: l2 /\ length l1 = p.
Proof.
  intro H. destruct (nth_error_split _ _ H) as (l1 & l2 & E & Hl).
  exists l1, l2. split; [exact E|]. split; [|exact Hl]. subst l. subst p.
  rewrite skipn_app. rewrite skipn_all. rewrite Nat.sub_diag. reflexivity.
Qed.

Lemma ssorted_nth_lt {A} (R : A -> A -> Prop) l i j a b :
  StronglySorted R l -> (i < j)%nat -> nth_error l i = Some a -> nth_error l j = Some b -> R a b.
Proof.
  intros Hs. revert i j. induction Hs as [|x l Hs IH Hf]; intros i j Hij Hi Hj.
  - destruct i; discriminate.
  - destruct j; [lia|]. destruct i.
    + simpl in Hi. inversion Hi; subst. simpl in Hj. apply nth_error_In in Hj.
      rewrite Forall_forall in Hf. apply Hf. exact Hj.
    + simpl in Hi, Hj. apply (IH i j); [lia | exact Hi | exact Hj].
Qed.

Lemma sorted_skipn_hd k : forall w rest w',
  StronglySorted str_le (w :: rest) -> hd_error (skipn k (w :: rest)) = Some w' -> str_le w w'.
Proof.
  induction k; intros w rest w' Hs Hh.
  - simpl in Hh. inversion Hh; subst. apply str_le_refl.
  - simpl in Hh. destruct rest as [|r rest']; [destruct k; discriminate|].
    eapply str_le_trans; [|eapply IHk; [eapply ssorted_tail; eauto | exact Hh]].
    apply ssorted_head in Hs. inversion Hs; assumption.
Qed.

Lemma in_keys_after pre d w nv :
  In nv (keys (pre ++ d)) -> Forall (fun e : entry => str_lt (fst e) w) pre -> str_le w nv ->
  In nv (keys d).
Proof.
  intros Hin Hpre Hle. unfold keys in *. rewrite map_app in Hin. apply in_app_or in Hin.
  destruct Hin as [Hin|Hin]; [|exact Hin]. exfalso.
  apply in_map_iff in Hin. destruct Hin as (e & He & Hin).
  rewrite Forall_forall in Hpre. specialize (Hpre e Hin). rewrite He in Hpre.
  apply str_le_not_gt in Hle. contradiction.
Qed.

Lemma search_spec : forall offs w,
  (search offs w <= length offs)%nat
  /\ (forall j v, (j < search offs w)%nat -> value_at offs j = Some v -> str_lt v w)
  /\ ((search offs w < length offs)%nat -> exists v, value_at offs (search offs w) = Some v /\ str_le w v).
Proof.
  induction offs as [|[v p] offs IH]; intro w; simpl.
  - repeat split; try lia; try (intros j v Hj; lia).
  - destruct (str_leb w v) eqn:E.
    + repeat split; try lia. intros _. exists v. split; [reflexivity|]. apply str_leb_le. exact E.
    + destruct (IH w) as (H1 & H2 & H3). repeat split; try lia.
      * intros j v0 Hj Hv. destruct j.
        -- unfold value_at in Hv. simpl in Hv. inversion Hv; subst. apply str_leb_false_lt. exact E.
        -- apply (H2 j); [lia|]. exact Hv.
      * intro Hlt. apply H3. lia.
Qed.

Section Table.
Variable tbl : list entry.
Variable lv : Z.
Hypothesis Hsorted : StronglySorted str_lt (keys tbl).

Let spec := spec_range tbl lv.

(* position facts of a sorted table split at the current entry *)
Lemma split_facts pre value po d' :
  tbl = pre ++ (value, po) :: d' ->
  Forall (fun e : entry => str_lt (fst e) value) pre /\
  Forall (fun e : entry => str_lt value (fst e)) d'.
Proof.
  intro E. unfold keys in Hsorted. rewrite E in Hsorted. rewrite map_app in Hsorted. simpl in Hsorted.
  apply ssorted_app_inv in Hsorted. destruct Hsorted as (_ & H2 & H3). split.
  - apply Forall_forall. intros e He. apply H3; [apply in_map; exact He | left; reflexivity].
  - apply ssorted_head in H2. rewrite Forall_map in H2. exact H2.
Qed.

Lemma spec_found pre value po d' :
  tbl = pre ++ (value, po) :: d' ->
  spec value = (po + posting_length_field_size, next_end lv d').
Proof.
  intro E. destruct (split_facts _ _ _ _ E) as [H1 _]. unfold spec. rewrite E.
  rewrite spec_app_skip by (apply Forall_lt_ne; exact H1).
  rewrite spec_cons. rewrite str_eqb_refl. reflexivity.
Qed.

Lemma spec_between pre value po d' w :
  tbl = pre ++ (value, po) :: d' ->
  Forall (fun e : entry => str_lt (fst e) w) pre -> str_lt w value ->
  spec w = NotFound.
Proof.
  intros E Hpre Hlt. destruct (split_facts _ _ _ _ E) as [_ H2]. unfold spec. rewrite E.
  rewrite spec_app_skip by (apply Forall_lt_ne; exact Hpre).
  apply spec_absent. simpl. intros [Hv|Hin].
  - subst. eapply str_lt_irrefl; eauto.
  - unfold keys in Hin. apply in_map_iff in Hin. destruct Hin as (e & He & Hin).
    rewrite Forall_forall in H2. specialize (H2 e Hin). rewrite He in H2.
    eapply str_lt_irrefl. eapply str_lt_trans; eauto.
Qed.

(* ---------- the inner `for string(value) >= wantedValue` loop ---------- *)
Lemma inner_ok : forall vs value po next pre d' m rngs,
  tbl = pre ++ (value, po) :: d' ->
  StronglySorted str_le vs ->
  (forall w, hd_error vs = Some w -> Forall (fun e : entry => str_lt (fst e) w) pre) ->
  ((m > 0)%nat -> Forall (str_le value) vs) ->
  (m = 0%nat -> forall w nv, hd_error vs = Some w -> next = Some nv -> str_lt w nv) ->
  let x := (po + posting_length_field_size, 0) in
  let E := next_end lv d' in
  match inner value po next vs (repeat x m) rngs with
  | IBreakIter vs' rngs' =>
      exists k, (k >= 1)%nat /\ vs' = skipn k vs /\ rngs' = rngs ++ map spec (firstn k vs) /\ m = 0%nat
  | IDone vs' ns rngs' =>
      exists k j, vs' = skipn k vs /\ ns = repeat x (m + j)
        /\ rngs' ++ close_rngs E ns = (rngs ++ close_rngs E (repeat x m)) ++ map spec (firstn k vs)
        /\ (forall w', hd_error vs' = Some w' -> str_lt value w')
        /\ (k = 0%nat -> j = 0%nat)
        /\ ((m + j = 0)%nat -> (k >= 1)%nat -> forall w' nv, hd_error vs' = Some w' -> next = Some nv -> str_lt w' nv)
        /\ (m = 0%nat -> (j > 0)%nat -> forall nv, next = Some nv -> str_lt value nv)
        /\ ((k >= 1)%nat -> forall w, hd_error vs = Some w -> str_le w value)
  end.
Proof.
  induction vs as [|w rest IH]; intros value po next pre d' m rngs Etbl Hvs Hpre Hm Hnext x E.
  - simpl. exists 0%nat, 0%nat. rewrite Nat.add_0_r, app_nil_r. simpl.
    repeat split; try reflexivity; try discriminate; try lia.
  - cbn [inner].
    assert (Hprew : Forall (fun e : entry => str_lt (fst e) w) pre) by (apply Hpre; reflexivity).
    destruct (str_leb w value) eqn:Ele.
    2:{ (* value < w: nothing consumed *)
      apply str_leb_false_lt in Ele.
      exists 0%nat, 0%nat. rewrite Nat.add_0_r. simpl. rewrite app_nil_r.
      repeat split; try reflexivity; try lia.
      intros w' Hw'. inversion Hw'; subst. exact Ele. }
    apply str_leb_le in Ele.
    assert (Hrest_sorted : StronglySorted str_le rest) by (eapply ssorted_tail; eauto).
    assert (Hw_rest : Forall (str_le w) rest) by (eapply ssorted_head; eauto).
    assert (Hpre_rest : forall w0, hd_error rest = Some w0 -> Forall (fun e : entry => str_lt (fst e) w0) pre).
    { intros w0 Hw0. destruct rest as [|r0 rest']; [discriminate|]. inversion Hw0; subst.
      eapply Forall_lt_le_trans; [exact Hprew|]. inversion Hw_rest; assumption. }
    destruct (str_eqb value w) eqn:Eeq.
    + (* value = w: found *)
      apply str_eqb_eq in Eeq. subst w.
      assert (Hspec : spec value = (po + posting_length_field_size, E)) by (eapply spec_found; eauto).
      fold x. rewrite repeat_snoc.
      destruct rest as [|w' rest'].
      * exists 1%nat, 1%nat. simpl skipn. simpl firstn. simpl map. rewrite Hspec.
        replace (m + 1)%nat with (S m) by lia.
        repeat split; try discriminate; try lia.
        -- rewrite <- repeat_snoc, close_app. simpl close_rngs. rewrite <- !app_assoc. reflexivity.
        -- intros Hm0 _ nv Hn. eapply Hnext; eauto.
        -- intros _ w0 Hw0; inversion Hw0; subst; exact Ele.
      * cbn [is_nil repeat andb].
        specialize (IH value po next pre d' (S m) rngs Etbl Hrest_sorted Hpre_rest).
        assert (H1 : (S m > 0)%nat -> Forall (str_le value) (w' :: rest')) by (intros _; exact Hw_rest).
        assert (H2 : S m = 0%nat -> forall w nv, hd_error (w' :: rest') = Some w -> next = Some nv -> str_lt w nv) by (intro; lia).
        specialize (IH H1 H2). cbv zeta in IH. fold x in IH. fold E in IH.
        change (x :: repeat x m) with (repeat x (S m)).
        destruct (inner value po next (w' :: rest') (repeat x (S m)) rngs) as [vs' rngs'|vs' ns rngs'].
        -- destruct IH as (k & _ & _ & _ & Hbad). lia.
        -- destruct IH as (k & j & Hvs' & Hns & Hr & Hhd & Hk0 & Hmj & Hj & _).
           exists (S k), (S j). simpl skipn. simpl firstn. simpl map. rewrite Hspec.
           repeat split.
           ++ exact Hvs'.
           ++ rewrite Hns. f_equal. lia.
           ++ rewrite Hr. rewrite <- repeat_snoc, close_app. simpl close_rngs.
              rewrite <- !app_assoc. reflexivity.
           ++ exact Hhd.
           ++ lia.
           ++ lia.
           ++ intros Hm0 _ nv Hn. eapply Hnext; eauto.
           ++ intros _ w0 Hw0; inversion Hw0; subst; exact Ele.
    + (* w < value: w is not in the table *)
      apply str_eqb_false_ne in Eeq.
      assert (Hlt : str_lt w value).
      { destruct (str_le_cases _ _ Ele) as [->|H]; [congruence|exact H]. }
      assert (Hm0 : m = 0%nat).
      { destruct m; [reflexivity|]. assert (Hf : Forall (str_le value) (w :: rest)) by (apply Hm; lia).
        inversion Hf as [|? ? Hvw _]; subst. exfalso. apply str_le_not_gt in Hvw. contradiction. }
      subst m. cbn [repeat].
      assert (Hspec : spec w = NotFound) by (eapply spec_between; eauto).
      destruct rest as [|w' rest'].
      * exists 1%nat, 0%nat. simpl. rewrite Hspec. rewrite !app_nil_r.
        repeat split; try discriminate; try lia.
        intros _ w0 Hw0; inversion Hw0; subst; exact Ele.
      * cbn [is_nil andb].
        destruct (match next with Some nv => str_leb nv w' | None => false end) eqn:Ebr.
        -- exists 1%nat. simpl. rewrite Hspec. repeat split; lia.
        -- specialize (IH value po next pre d' 0%nat (rngs ++ [NotFound]) Etbl Hrest_sorted Hpre_rest).
           assert (H1 : (0 > 0)%nat -> Forall (str_le value) (w' :: rest')) by lia.
           assert (H2 : 0%nat = 0%nat -> forall w0 nv, hd_error (w' :: rest') = Some w0 -> next = Some nv -> str_lt w0 nv).
           { intros _ w0 nv Hw0 Hn. inversion Hw0; subst. apply str_leb_false_lt. exact Ebr. }
           specialize (IH H1 H2). cbv zeta in IH. fold x in IH. fold E in IH. cbn [repeat] in IH.
           match goal with |- context [inner ?a ?b ?c ?d ?e ?f] => set (R := inner a b c d e f) in * end.
           change (inner value po next (w' :: rest') [] (rngs ++ [NotFound])) with R in IH.
           destruct R as [vs' rngs'|vs' ns rngs'].
           ++ destruct IH as (k & Hk & Hvs' & Hr & _). exists (S k). simpl skipn. simpl firstn. simpl map.
              rewrite Hspec. repeat split; try lia; try assumption.
              rewrite Hr. rewrite <- app_assoc. reflexivity.
           ++ destruct IH as (k & j & Hvs' & Hns & Hr & Hhd & Hk0 & Hmj & Hj & _).
              exists (S k), j. simpl skipn. simpl firstn. simpl map. rewrite Hspec.
              repeat split; try assumption; try lia.
              ** rewrite Hr. simpl. rewrite !app_nil_r. rewrite <- app_assoc. reflexivity.
              ** intros Hj0 _ w0 nv Hw0 Hn. destruct k.
                 --- simpl in Hvs'. subst vs'. eapply H2; eauto.
                 --- eapply Hmj; eauto; lia.
              ** intros _ w0 Hw0; inversion Hw0; subst; exact Ele.
Qed.

(* ---------- sampled offsets ---------- *)
Variable offs : list sample.

Definition good_samples : Prop :=
  Forall (fun s : sample => exists po, nth_error tbl (snd s) = Some (fst s, po)) offs
  /\ StronglySorted lt (map snd offs)
  /\ (exists v rest, offs = (v, 0%nat) :: rest)
  /\ (exists v front, offs = front ++ [(v, pred (length tbl))]).

Hypothesis Hgood : good_samples.

Lemma value_at_nth j v : value_at offs j = Some v -> exists p, nth_error offs j = Some (v, p).
Proof.
  unfold value_at. destruct (nth_error offs j) as [[v' p]|] eqn:E; [|discriminate].
  intro H. inversion H; subst. exists p. reflexivity.
Qed.

Lemma G_tbl j v p : nth_error offs j = Some (v, p) -> exists po, nth_error tbl p = Some (v, po).
Proof.
  intro H. destruct Hgood as (H1 & _). rewrite Forall_forall in H1.
  apply nth_error_In in H. apply (H1 _ H).
Qed.

Lemma G_in j v : value_at offs j = Some v -> In v (keys tbl).
Proof.
  intro H. destruct (value_at_nth _ _ H) as (p & Hp). destruct (G_tbl _ _ _ Hp) as (po & Hpo).
  apply nth_error_In in Hpo. unfold keys. apply in_map_iff. exists (v, po). split; [reflexivity|exact Hpo].
Qed.

Lemma G_mono j1 j2 v1 v2 : (j1 < j2)%nat ->
  value_at offs j1 = Some v1 -> value_at offs j2 = Some v2 -> str_lt v1 v2.
Proof.
  intros Hlt H1 H2.
  destruct (value_at_nth _ _ H1) as (p1 & Hp1). destruct (value_at_nth _ _ H2) as (p2 & Hp2).
  destruct (G_tbl _ _ _ Hp1) as (po1 & Hpo1). destruct (G_tbl _ _ _ Hp2) as (po2 & Hpo2).
  destruct Hgood as (_ & Hs & _).
  assert (Hp : (p1 < p2)%nat).
  { apply (ssorted_nth_lt lt (map snd offs) j1 j2 p1 p2 Hs Hlt).
    - exact (map_nth_error snd _ _ Hp1).
    - exact (map_nth_error snd _ _ Hp2). }
  apply (ssorted_nth_lt str_lt (keys tbl) p1 p2 v1 v2 Hsorted Hp).
  - exact (map_nth_error fst _ _ Hpo1).
  - exact (map_nth_error fst _ _ Hpo2).
Qed.

Lemma G_last i v : S i = length offs -> value_at offs i = Some v ->
  forall k, In k (keys tbl) -> str_le k v.
Proof.
  intros Hi Hv k Hk. destruct Hgood as (_ & _ & _ & (v' & front & E)).
  destruct (value_at_nth _ _ Hv) as (p & Hp).
  assert (Hlen : length offs = S (length front)) by (rewrite E, app_length; simpl; lia).
  assert (i = length front) by lia. subst i.
  rewrite E in Hp. rewrite nth_error_app2 in Hp by lia. rewrite Nat.sub_diag in Hp. simpl in Hp.
  inversion Hp; subst v' p. clear Hp.
  assert (Hin : In (v, pred (length tbl)) offs) by (rewrite E; apply in_or_app; right; left; reflexivity).
  destruct Hgood as (H1 & _). rewrite Forall_forall in H1. destruct (H1 _ Hin) as (po & Hpo). cbn [fst snd] in Hpo.
  unfold keys in Hk. apply In_nth_error in Hk. destruct Hk as (q & Hq).
  assert (Hql : (q < length (map fst tbl))%nat) by (apply nth_error_Some; congruence).
  rewrite map_length in Hql.
  destruct (Nat.eq_dec q (pred (length tbl))) as [->|Hne].
  - rewrite (map_nth_error fst _ _ Hpo) in Hq. simpl in Hq. inversion Hq. apply str_le_refl.
  - apply str_lt_le. apply (ssorted_nth_lt str_lt (keys tbl) q (pred (length tbl)) k v Hsorted); [unfold entry in *; lia|exact Hq|].
    exact (map_nth_error fst _ _ Hpo).
Qed.

Lemma G_first : exists v, value_at offs 0 = Some v /\ forall k, In k (keys tbl) -> str_le v k.
Proof.
  destruct Hgood as (H1 & _ & (v & rest & E) & _).
  exists v. split; [rewrite E; reflexivity|].
  intros k Hk. rewrite Forall_forall in H1.
  assert (Hin : In (v, 0%nat) offs) by (rewrite E; left; reflexivity).
  destruct (H1 _ Hin) as (po & Hpo). cbn [fst snd] in Hpo.
  unfold keys in Hk. apply In_nth_error in Hk. destruct Hk as (q & Hq).
  destruct q.
  - rewrite (map_nth_error fst _ _ Hpo) in Hq. simpl in Hq. inversion Hq. apply str_le_refl.
  - apply str_lt_le. apply (ssorted_nth_lt str_lt (keys tbl) 0 (S q) v k Hsorted); [lia| |exact Hq].
    exact (map_nth_error fst _ _ Hpo).
Qed.

(* decbuf positioned at a sampled entry *)
Lemma G_skip j v : value_at offs j = Some v ->
  exists pre po d', tbl = pre ++ (v, po) :: d' /\ skipn (pos_at offs j) tbl = (v, po) :: d'.
Proof.
  intro H. destruct (value_at_nth _ _ H) as (p & Hp). destruct (G_tbl _ _ _ Hp) as (po & Hpo).
  destruct (skipn_nth_split _ _ _ Hpo) as (l1 & l2 & E & Hs & _).
  exists l1, po, l2. split; [exact E|]. unfold pos_at. rewrite Hp. exact Hs.
Qed.

(* ---------- the Iter loop ---------- *)
Definition mode (i : nat) (w : str) (d : list entry) (C : Prop) : Prop :=
  (exists nv, value_at offs (S i) = Some nv /\ str_lt w nv)
  \/ (S i = length offs /\ value_at offs i = Some w /\ ((exists po d', d = (w, po) :: d') \/ C)).

Lemma iter_ok : forall d pre i vs newSame rngs done (C : Prop),
  tbl = pre ++ d ->
  StronglySorted str_le vs ->
  (exists w, hd_error vs = Some w /\ Forall (fun e : entry => str_lt (fst e) w) pre /\ mode i w d C) ->
  rngs ++ close_rngs (next_end lv d) newSame = map spec done ->
  exists k, iter offs lv d i vs newSame rngs = ROuter (skipn k vs) (map spec (done ++ firstn k vs))
            /\ (C \/ (k >= 1)%nat).
Proof.
  induction d as [|[value po] d' IH]; intros pre i vs newSame rngs done C Etbl Hvs (w & Hhd & Hpre & Hmode) Hinv.
  - (* the decbuf is never exhausted *)
    exfalso. rewrite app_nil_r in Etbl. subst pre.
    assert (Hex : exists nv, In nv (keys tbl) /\ str_le w nv).
    { destruct Hmode as [(nv & Hnv & Hlt)|(_ & Hv & _)].
      - exists nv. split; [eapply G_in; eauto | apply str_lt_le; exact Hlt].
      - exists w. split; [eapply G_in; eauto | apply str_le_refl]. }
    destruct Hex as (nv & Hin & Hle).
    unfold keys in Hin. apply in_map_iff in Hin. destruct Hin as (e & He & Hin).
    rewrite Forall_forall in Hpre. specialize (Hpre e Hin). rewrite He in Hpre.
    apply str_le_not_gt in Hle. contradiction.
  - destruct vs as [|w0 rest]; [discriminate|]. simpl in Hhd. inversion Hhd; subst w0. clear Hhd.
    cbn [iter].
    set (rngs1 := if is_nil newSame then rngs else rngs ++ close_rngs (po - crc32_size) newSame).
    assert (Hr1 : rngs1 = map spec done).
    { unfold rngs1. simpl in Hinv. destruct newSame; simpl; [|exact Hinv].
      simpl in Hinv. rewrite app_nil_r in Hinv. exact Hinv. }
    pose proof (inner_ok (w :: rest) value po (value_at offs (S i)) pre d' 0%nat rngs1 Etbl Hvs) as Hin.
    assert (Hp1 : forall w0, hd_error (w :: rest) = Some w0 -> Forall (fun e : entry => str_lt (fst e) w0) pre).
    { intros w0 Hw0. inversion Hw0; subst. exact Hpre. }
    assert (Hp2 : (0 > 0)%nat -> Forall (str_le value) (w :: rest)) by lia.
    assert (Hmode_excl : S i <> length offs -> exists nv, value_at offs (S i) = Some nv /\ str_lt w nv).
    { intro Hne. destruct Hmode as [H|(H & _)]; [exact H|contradiction]. }
    assert (Hp3 : 0%nat = 0%nat -> forall w0 nv, hd_error (w :: rest) = Some w0 -> value_at offs (S i) = Some nv -> str_lt w0 nv).
    { intros _ w0 nv Hw0 Hnv. inversion Hw0; subst w0.
      destruct Hmode as [(nv' & Hnv' & Hlt)|(Hlen & _)].
      - rewrite Hnv in Hnv'. inversion Hnv'; subst. exact Hlt.
      - exfalso. destruct (value_at_nth _ _ Hnv) as (p & Hp).
        assert ((S i < length offs)%nat) by (apply nth_error_Some; congruence). lia. }
    specialize (Hin Hp1 Hp2 Hp3). cbv zeta in Hin. cbn [repeat] in Hin.
    destruct (split_facts _ _ _ _ Etbl) as [Hpre_val Hd'_val].
    match goal with |- context [inner ?a ?b ?c ?d ?e ?f] => set (R := inner a b c d e f) in * end.
    change (inner value po (value_at offs (S i)) (w :: rest) [] rngs1) with R in Hin.
    destruct R as [vs' rngs'|vs' ns rngs'].
    + (* break Iter *)
      destruct Hin as (k & Hk & Hvs' & Hr & _). exists k. subst vs' rngs'. rewrite Hr1.
      rewrite map_app. split; [reflexivity | right; exact Hk].
    + destruct Hin as (k & j & Hvs' & Hns & Hr & Hhd' & Hk0 & Hmj & Hj & Hkle).
      simpl in Hns. simpl close_rngs in Hr. rewrite app_nil_r in Hr.
      assert (Hdone : rngs' ++ close_rngs (next_end lv d') ns = map spec (done ++ firstn k (w :: rest))).
      { rewrite Hr, Hr1, map_app. reflexivity. }
      assert (Hk_val : k = 0%nat -> str_lt value w).
      { intro Hk. subst k. simpl in Hvs'. subst vs'. apply Hhd'. reflexivity. }
      destruct (Nat.eqb (S i) (length offs)) eqn:Elen.
      * (* last sampled offset: no more offsets for this name *)
        apply Nat.eqb_eq in Elen.
        destruct Hmode as [(nv & Hnv & _)|(_ & Hv & Hc)].
        { exfalso. destruct (value_at_nth _ _ Hnv) as (p & Hp).
          assert ((S i < length offs)%nat) by (apply nth_error_Some; congruence). lia. }
        exists k. subst vs'. split.
        -- f_equal. rewrite <- Hdone. f_equal.
           destruct j; [subst ns; reflexivity|].
           (* something was found at this entry: it is the last entry of the name *)
           assert (Hk1 : (k >= 1)%nat) by lia.
           assert (Hwv : str_le w value) by (apply (Hkle Hk1 w); reflexivity).
           assert (Hvw : str_le value w).
           { eapply G_last; eauto. rewrite Etbl. unfold keys. rewrite map_app. apply in_or_app. right. left. reflexivity. }
           destruct d' as [|[v2 po2] d'']; [reflexivity|]. exfalso.
           inversion Hd'_val as [|? ? Hv2 _]; subst. simpl in Hv2.
           assert (Hv2w : str_le v2 w).
           { eapply G_last; eauto. rewrite Etbl. unfold keys. rewrite map_app. apply in_or_app. right. right. left. reflexivity. }
           eapply str_lt_irrefl. eapply str_lt_le_trans; [exact Hv2|]. eapply str_le_trans; eauto.
        -- destruct Hc as [(po' & d0 & Hd)|Hc]; [|left; exact Hc].
           right. inversion Hd; subst value. destruct k; [|lia]. exfalso.
           eapply str_lt_irrefl. apply Hk_val. reflexivity.
      * apply Nat.eqb_neq in Elen. destruct (Hmode_excl Elen) as (nv & Hnv & Hwnv). rewrite Hnv.
        assert (Hfinal : exists k0,
                   (if is_nil ns then ROuter vs' rngs'
                    else match d' with
                         | [] => RErr
                         | (_, po2) :: _ => ROuter vs' (rngs' ++ close_rngs (po2 - crc32_size) ns)
                         end) = ROuter (skipn k0 (w :: rest)) (map spec (done ++ firstn k0 (w :: rest)))
                   /\ ((vs' = [] \/ exists w', hd_error vs' = Some w' /\ str_lt nv w') -> C \/ (k0 >= 1)%nat)).
        { exists k. destruct j.
          - subst ns. simpl. simpl in Hdone. rewrite app_nil_r in Hdone. subst vs'. rewrite Hdone. split; [reflexivity|].
            intros Hcase. right. destruct k; [|lia]. exfalso. simpl in Hcase.
            destruct Hcase as [Hc|(w' & Hw' & Hlt)]; [discriminate|].
            inversion Hw'; subst w'. eapply str_lt_irrefl. eapply str_lt_trans; eauto.
          - subst ns. cbn [is_nil repeat].
            assert (Hvnv : str_lt value nv) by (apply (Hj eq_refl ltac:(lia) nv Hnv)).
            assert (Hinnv : In nv (keys ((value, po) :: d'))).
            { assert (Hnv_in : In nv (keys tbl)) by (eapply G_in; eauto). rewrite Etbl in Hnv_in.
              apply (in_keys_after _ _ w nv Hnv_in); [exact Hpre | apply str_lt_le; exact Hwnv]. }
            simpl in Hinnv. destruct Hinnv as [Heq|Hinnv]; [subst; exfalso; eapply str_lt_irrefl; eauto|].
            destruct d' as [|[v2 po2] d'']; [contradiction|].
            subst vs'. simpl in Hdone. rewrite <- Hdone. split; [reflexivity|].
            intros _. right. lia. }
        destruct vs' as [|w' vs''].
        { destruct Hfinal as (k0 & Hf & Hprog). exists k0. split; [exact Hf|]. apply Hprog. left. reflexivity. }
        destruct (str_leb w' nv) eqn:Eleb.
        2:{ destruct Hfinal as (k0 & Hf & Hprog). exists k0. split; [exact Hf|]. apply Hprog. right.
            exists w'. split; [reflexivity|]. apply str_leb_false_lt. exact Eleb. }
        apply str_leb_le in Eleb. clear Hfinal.
        (* continue with the next table entry *)
        assert (Hvw' : str_lt value w') by (apply Hhd'; reflexivity).
        assert (Hww' : str_le w w') by (eapply (sorted_skipn_hd k); [exact Hvs | rewrite <- Hvs'; reflexivity]).
        assert (Etbl' : tbl = (pre ++ [(value, po)]) ++ d') by (rewrite <- app_assoc; exact Etbl).
        assert (Hpre' : Forall (fun e : entry => str_lt (fst e) w') (pre ++ [(value, po)])).
        { apply Forall_app. split; [exact (Forall_lt_le_trans pre w w' Hpre Hww')|]. constructor; [exact Hvw'|constructor]. }
        assert (Hvs'' : StronglySorted str_le (w' :: vs'')) by (rewrite Hvs'; apply ssorted_skipn; exact Hvs).
        set (i' := if str_eqb w' nv then S i else i).
        assert (Hmode' : mode i' w' d' (C \/ (k >= 1)%nat)).
        { unfold i'. destruct (str_eqb w' nv) eqn:Eq.
          - apply str_eqb_eq in Eq. subst w'.
            destruct (value_at offs (S (S i))) as [nv2|] eqn:Env2.
            + left. exists nv2. split; [exact Env2|]. eapply (G_mono (S i) (S (S i))); eauto.
            + right. split; [|split; [exact Hnv|]].
              * destruct (value_at_nth _ _ Hnv) as (p & Hp).
                assert ((S i < length offs)%nat) by (apply nth_error_Some; congruence).
                unfold value_at in Env2. destruct (nth_error offs (S (S i))) as [[? ?]|] eqn:En; [discriminate|].
                apply nth_error_None in En. lia.
              * right. right. destruct k; [|lia]. exfalso.
                simpl in Hvs'. inversion Hvs'; subst. eapply str_lt_irrefl; exact Hwnv.
          - left. exists nv. split; [exact Hnv|]. apply str_eqb_false_ne in Eq.
            destruct (str_le_cases _ _ Eleb) as [->|H]; [congruence|exact H]. }
        destruct (IH (pre ++ [(value, po)]) i' (w' :: vs'') ns rngs' (done ++ firstn k (w :: rest)) (C \/ (k >= 1)%nat)
                     Etbl' Hvs'' (ex_intro _ w' (conj eq_refl (conj Hpre' Hmode'))) Hdone) as (k2 & Hit & Hprog).
        exists (k + k2)%nat. fold i'. rewrite Hit. split.
        -- rewrite Hvs'. rewrite skipn_skipn'. rewrite <- app_assoc. rewrite firstn_plus. reflexivity.
        -- destruct Hprog as [[Hc|Hk]|Hk2]; [left; exact Hc | right; lia | right; lia].
Qed.

End Table.
