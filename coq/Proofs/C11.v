(* C11 — proofs about the model of BinaryReader.init / postingsOffset / LabelValues. *)
From Coq Require Import ZArith NArith List Bool Lia Sorted.
Import ListNotations.
From Verif Require Import Lib.Corr Lib.Storegw_Str Gen.C11 Model.C11.
Open Scope Z_scope.

Definition keys (tbl : list entry) : list str := map fst tbl.

Definition next_end (lastVal : Z) (d : list entry) : Z :=
  match d with [] => lastVal | (_, po) :: _ => po - crc32_size end.

(* ---------- generic list facts ---------- *)
Lemma repeat_snoc {A} (x : A) n : repeat x n ++ [x] = repeat x (S n).
Proof. induction n; simpl; [reflexivity|]. rewrite IHn. reflexivity. Qed.

Lemma repeat_plus {A} (x : A) n m : repeat x (n + m) = repeat x n ++ repeat x m.
Proof. induction n; simpl; [reflexivity|]. rewrite IHn. reflexivity. Qed.

Lemma ssorted_app_inv {A} (R : A -> A -> Prop) l1 l2 :
  StronglySorted R (l1 ++ l2) ->
  StronglySorted R l1 /\ StronglySorted R l2 /\ (forall x y, In x l1 -> In y l2 -> R x y).
Proof.
  induction l1 as [|a l1 IH]; simpl; intro H.
  - repeat split; [constructor | exact H | intros x y []].
  - inversion H as [|? ? Hs Hf]; subst. destruct (IH Hs) as (H1 & H2 & H3).
    rewrite Forall_app in Hf. destruct Hf as [Hf1 Hf2].
    repeat split; [constructor; assumption | exact H2 |].
    intros x y [->|Hx] Hy; [rewrite Forall_forall in Hf2; apply Hf2; exact Hy | apply H3; assumption].
Qed.

Lemma ssorted_tail {A} (R : A -> A -> Prop) a l : StronglySorted R (a :: l) -> StronglySorted R l.
Proof. intro H. inversion H; assumption. Qed.

Lemma ssorted_head {A} (R : A -> A -> Prop) a l : StronglySorted R (a :: l) -> Forall (R a) l.
Proof. intro H. inversion H; assumption. Qed.

Lemma ssorted_skipn {A} (R : A -> A -> Prop) k l : StronglySorted R l -> StronglySorted R (skipn k l).
Proof.
  revert l. induction k; intros l H; simpl; [exact H|].
  destruct l; [constructor|]. apply IHk. eapply ssorted_tail; eauto.
Qed.

(* ---------- the specification ---------- *)
Lemma spec_cons v po r lv w :
  spec_range ((v, po) :: r) lv w =
  if str_eqb v w then (po + posting_length_field_size, next_end lv r) else spec_range r lv w.
Proof. reflexivity. Qed.

Lemma spec_app_skip pre d lv w :
  Forall (fun e : entry => fst e <> w) pre -> spec_range (pre ++ d) lv w = spec_range d lv w.
Proof.
  induction pre as [|[v po] pre IH]; intro H; [reflexivity|].
  inversion H as [|? ? Hv Hr]; subst. simpl app. rewrite spec_cons.
  simpl in Hv. apply str_eqb_false_ne in Hv. rewrite Hv. apply IH. exact Hr.
Qed.

Lemma spec_absent tbl lv w : ~ In w (keys tbl) -> spec_range tbl lv w = NotFound.
Proof.
  induction tbl as [|[v po] tbl IH]; intro H; [reflexivity|].
  rewrite spec_cons. simpl in H.
  assert (Hv : v <> w) by (intro; apply H; left; assumption).
  apply str_eqb_false_ne in Hv. rewrite Hv. apply IH. intro; apply H; right; assumption.
Qed.

Lemma close_repeat e x n : close_rngs e (repeat (x, 0) n) = repeat (x, e) n.
Proof. induction n; simpl; [reflexivity|]. rewrite <- IHn. reflexivity. Qed.

Lemma close_app e a b : close_rngs e (a ++ b) = close_rngs e a ++ close_rngs e b.
Proof. apply map_app. Qed.

Lemma Forall_lt_ne (pre : list entry) w :
  Forall (fun e : entry => str_lt (fst e) w) pre -> Forall (fun e : entry => fst e <> w) pre.
Proof. apply Forall_impl. intros a H. apply str_lt_not_eq. exact H. Qed.

Lemma Forall_lt_le_trans (pre : list entry) w w' :
  Forall (fun e : entry => str_lt (fst e) w) pre -> str_le w w' ->
  Forall (fun e : entry => str_lt (fst e) w') pre.
Proof. intros H Hle. revert H. apply Forall_impl. intros a Ha. eapply str_lt_le_trans; eauto. Qed.

Lemma skipn_skipn' {A} a b (l : list A) : skipn a (skipn b l) = skipn (b + a) l.
Proof.
  revert l. induction b; intro l; simpl; [reflexivity|].
  destruct l; [destruct a; reflexivity|]. apply IHb.
Qed.

Lemma firstn_plus {A} a b (l : list A) : firstn a l ++ firstn b (skipn a l) = firstn (a + b) l.
Proof.
  revert l. induction a; intro l; simpl; [reflexivity|].
  destruct l; [destruct b; reflexivity|]. simpl. rewrite IHa. reflexivity.
Qed.

Lemma skipn_nth_split {A} (l : list A) p a :
  nth_error l p = Some a -> exists l1 l2, l = l1 ++ a :: l2 /\ skipn p l = a :: l2 /\ length l1 = p.
Proof.
  intro H. destruct (nth_error_split _ _ H) as (l1 & l2 & E & Hl).
  exists l1, l2. split; [exact E|]. split; [|exact Hl]. subst l. subst p.
  rewrite skipn_app. rewrite skipn_all. rewrite Nat.sub_diag. reflexivity.
Qed.

Lemma ssorted_nth_lt {A} (R : A -> A -> Prop) l i j a b :
  StronglySorted R l -> (i < j)%nat -> nth_error l i = Some a -> nth_error l j = Some b -> R a b.
Proof.
  intros Hs. revert i j. induction Hs as [|x l Hs IH Hf]; intros i j Hij Hi Hj.
  - destruct i; discriminate.
  - destruct j; [lia|]. destruct i.
    + simpl in Hi. inversion Hi; subst. simpl in Hj. apply nth_error_In in Hj.
      rewrite Forall_forall in Hf. apply Hf. exact Hj.
    + simpl in Hi, Hj. apply (IH i j); [lia | exact Hi | exact Hj].
Qed.

Lemma sorted_skipn_hd k : forall w rest w',
  StronglySorted str_le (w :: rest) -> hd_error (skipn k (w :: rest)) = Some w' -> str_le w w'.
Proof.
  induction k; intros w rest w' Hs Hh.
  - simpl in Hh. inversion Hh; subst. apply str_le_refl.
  - simpl in Hh. destruct rest as [|r rest']; [destruct k; discriminate|].
    eapply str_le_trans; [|eapply IHk; [eapply ssorted_tail; eauto | exact Hh]].
    apply ssorted_head in Hs. inversion Hs; assumption.
Qed.

Lemma in_keys_after pre d w nv :
  In nv (keys (pre ++ d)) -> Forall (fun e : entry => str_lt (fst e) w) pre -> str_le w nv ->
  In nv (keys d).
Proof.
  intros Hin Hpre Hle. unfold keys in *. rewrite map_app in Hin. apply in_app_or in Hin.
  destruct Hin as [Hin|Hin]; [|exact Hin]. exfalso.
  apply in_map_iff in Hin. destruct Hin as (e & He & Hin).
  rewrite Forall_forall in Hpre. specialize (Hpre e Hin). rewrite He in Hpre.
  apply str_le_not_gt in Hle. contradiction.
Qed.

Lemma search_spec : forall offs w,
  (search offs w <= length offs)%nat
  /\ (forall j v, (j < search offs w)%nat -> value_at offs j = Some v -> str_lt v w)
  /\ ((search offs w < length offs)%nat -> exists v, value_at offs (search offs w) = Some v /\ str_le w v).
Proof.
  induction offs as [|[v p] offs IH]; intro w; simpl.
  - repeat split; try lia; try (intros j v Hj; lia).
  - destruct (str_leb w v) eqn:E.
    + repeat split; try lia. intros _. exists v. split; [reflexivity|]. apply str_leb_le. exact E.
    + destruct (IH w) as (H1 & H2 & H3). repeat split; try lia.
      * intros j v0 Hj Hv. destruct j.
        -- unfold value_at in Hv. simpl in Hv. inversion Hv; subst. apply str_leb_false_lt. exact E.
        -- apply (H2 j); [lia|]. exact Hv.
      * intro Hlt. apply H3. lia.
Qed.

Section Table.
Variable tbl : list entry.
Variable lv : Z.
Hypothesis Hsorted : StronglySorted str_lt (keys tbl).

Let spec := spec_range tbl lv.

(* position facts of a sorted table split at the current entry *)
Lemma split_facts pre value po d' :
  tbl = pre ++ (value, po) :: d' ->
  Forall (fun e : entry => str_lt (fst e) value) pre /\
  Forall (fun e : entry => str_lt value (fst e)) d'.
Proof.
  intro E. unfold keys in Hsorted. rewrite E in Hsorted. rewrite map_app in Hsorted. simpl in Hsorted.
  apply ssorted_app_inv in Hsorted. destruct Hsorted as (_ & H2 & H3). split.
  - apply Forall_forall. intros e He. apply H3; [apply in_map; exact He | left; reflexivity].
  - apply ssorted_head in H2. rewrite Forall_map in H2. exact H2.
Qed.

Lemma spec_found pre value po d' :
  tbl = pre ++ (value, po) :: d' ->
  spec value = (po + posting_length_field_size, next_end lv d').
Proof.
  intro E. destruct (split_facts _ _ _ _ E) as [H1 _]. unfold spec. rewrite E.
  rewrite spec_app_skip by (apply Forall_lt_ne; exact H1).
  rewrite spec_cons. rewrite str_eqb_refl. reflexivity.
Qed.

Lemma spec_between pre value po d' w :
  tbl = pre ++ (value, po) :: d' ->
  Forall (fun e : entry => str_lt (fst e) w) pre -> str_lt w value ->
  spec w = NotFound.
Proof.
  intros E Hpre Hlt. destruct (split_facts _ _ _ _ E) as [_ H2]. unfold spec. rewrite E.
  rewrite spec_app_skip by (apply Forall_lt_ne; exact Hpre).
  apply spec_absent. simpl. intros [Hv|Hin].
  - subst. eapply str_lt_irrefl; eauto.
  - unfold keys in Hin. apply in_map_iff in Hin. destruct Hin as (e & He & Hin).
    rewrite Forall_forall in H2. specialize (H2 e Hin). rewrite He in H2.
    eapply str_lt_irrefl. eapply str_lt_trans; eauto.
Qed.

(* ---------- the inner `for string(value) >= wantedValue` loop ---------- *)
Lemma inner_ok : forall vs value po next pre d' m rngs,
  tbl = pre ++ (value, po) :: d' ->
  StronglySorted str_le vs ->
  (forall w, hd_error vs = Some w -> Forall (fun e : entry => str_lt (fst e) w) pre) ->
  ((m > 0)%nat -> Forall (str_le value) vs) ->
  (m = 0%nat -> forall w nv, hd_error vs = Some w -> next = Some nv -> str_lt w nv) ->
  let x := (po + posting_length_field_size, 0) in
  let E := next_end lv d' in
  match inner value po next vs (repeat x m) rngs with
  | IBreakIter vs' rngs' =>
      exists k, (k >= 1)%nat /\ vs' = skipn k vs /\ rngs' = rngs ++ map spec (firstn k vs) /\ m = 0%nat
  | IDone vs' ns rngs' =>
      exists k j, vs' = skipn k vs /\ ns = repeat x (m + j)
        /\ rngs' ++ close_rngs E ns = (rngs ++ close_rngs E (repeat x m)) ++ map spec (firstn k vs)
        /\ (forall w', hd_error vs' = Some w' -> str_lt value w')
        /\ (k = 0%nat -> j = 0%nat)
        /\ ((m + j = 0)%nat -> (k >= 1)%nat -> forall w' nv, hd_error vs' = Some w' -> next = Some nv -> str_lt w' nv)
        /\ (m = 0%nat -> (j > 0)%nat -> forall nv, next = Some nv -> str_lt value nv)
        /\ ((k >= 1)%nat -> forall w, hd_error vs = Some w -> str_le w value)
  end.
Proof.
  induction vs as [|w rest IH]; intros value po next pre d' m rngs Etbl Hvs Hpre Hm Hnext x E.
  - simpl. exists 0%nat, 0%nat. rewrite Nat.add_0_r, app_nil_r. simpl.
    repeat split; try reflexivity; try discriminate; try lia.
  - cbn [inner].
    assert (Hprew : Forall (fun e : entry => str_lt (fst e) w) pre) by (apply Hpre; reflexivity).
    destruct (str_leb w value) eqn:Ele.
    2:{ (* value < w: nothing consumed *)
      apply str_leb_false_lt in Ele.
      exists 0%nat, 0%nat. rewrite Nat.add_0_r. simpl. rewrite app_nil_r.
      repeat split; try reflexivity; try lia.
      intros w' Hw'. inversion Hw'; subst. exact Ele. }
    apply str_leb_le in Ele.
    assert (Hrest_sorted : StronglySorted str_le rest) by (eapply ssorted_tail; eauto).
    assert (Hw_rest : Forall (str_le w) rest) by (eapply ssorted_head; eauto).
    assert (Hpre_rest : forall w0, hd_error rest = Some w0 -> Forall (fun e : entry => str_lt (fst e) w0) pre).
    { intros w0 Hw0. destruct rest as [|r0 rest']; [discriminate|]. inversion Hw0; subst.
      eapply Forall_lt_le_trans; [exact Hprew|]. inversion Hw_rest; assumption. }
    destruct (str_eqb value w) eqn:Eeq.
    + (* value = w: found *)
      apply str_eqb_eq in Eeq. subst w.
      assert (Hspec : spec value = (po + posting_length_field_size, E)) by (eapply spec_found; eauto).
      fold x. rewrite repeat_snoc.
      destruct rest as [|w' rest'].
      * exists 1%nat, 1%nat. simpl skipn. simpl firstn. simpl map. rewrite Hspec.
        replace (m + 1)%nat with (S m) by lia.
        repeat split; try discriminate; try lia.
        -- rewrite <- repeat_snoc, close_app. simpl close_rngs. rewrite <- !app_assoc. reflexivity.
        -- intros Hm0 _ nv Hn. eapply Hnext; eauto.
        -- intros _ w0 Hw0; inversion Hw0; subst; exact Ele.
      * cbn [is_nil repeat andb].
        specialize (IH value po next pre d' (S m) rngs Etbl Hrest_sorted Hpre_rest).
        assert (H1 : (S m > 0)%nat -> Forall (str_le value) (w' :: rest')) by (intros _; exact Hw_rest).
        assert (H2 : S m = 0%nat -> forall w nv, hd_error (w' :: rest') = Some w -> next = Some nv -> str_lt w nv) by (intro; lia).
        specialize (IH H1 H2). cbv zeta in IH. fold x in IH. fold E in IH.
        change (x :: repeat x m) with (repeat x (S m)).
        destruct (inner value po next (w' :: rest') (repeat x (S m)) rngs) as [vs' rngs'|vs' ns rngs'].
        -- destruct IH as (k & _ & _ & _ & Hbad). lia.
        -- destruct IH as (k & j & Hvs' & Hns & Hr & Hhd & Hk0 & Hmj & Hj & _).
           exists (S k), (S j). simpl skipn. simpl firstn. simpl map. rewrite Hspec.
           repeat split.
           ++ exact Hvs'.
           ++ rewrite Hns. f_equal. lia.
           ++ rewrite Hr. rewrite <- repeat_snoc, close_app. simpl close_rngs.
              rewrite <- !app_assoc. reflexivity.
           ++ exact Hhd.
           ++ lia.
           ++ lia.
           ++ intros Hm0 _ nv Hn. eapply Hnext; eauto.
           ++ intros _ w0 Hw0; inversion Hw0; subst; exact Ele.
    + (* w < value: w is not in the table *)
      apply str_eqb_false_ne in Eeq.
      assert (Hlt : str_lt w value).
      { destruct (str_le_cases _ _ Ele) as [->|H]; [congruence|exact H]. }
      assert (Hm0 : m = 0%nat).
      { destruct m; [reflexivity|]. assert (Hf : Forall (str_le value) (w :: rest)) by (apply Hm; lia).
        inversion Hf as [|? ? Hvw _]; subst. exfalso. apply str_le_not_gt in Hvw. contradiction. }
      subst m. cbn [repeat].
      assert (Hspec : spec w = NotFound) by (eapply spec_between; eauto).
      destruct rest as [|w' rest'].
      * exists 1%nat, 0%nat. simpl. rewrite Hspec. rewrite !app_nil_r.
        repeat split; try discriminate; try lia.
        intros _ w0 Hw0; inversion Hw0; subst; exact Ele.
      * cbn [is_nil andb].
        destruct (match next with Some nv => str_leb nv w' | None => false end) eqn:Ebr.
        -- exists 1%nat. simpl. rewrite Hspec. repeat split; lia.
        -- specialize (IH value po next pre d' 0%nat (rngs ++ [NotFound]) Etbl Hrest_sorted Hpre_rest).
           assert (H1 : (0 > 0)%nat -> Forall (str_le value) (w' :: rest')) by lia.
           assert (H2 : 0%nat = 0%nat -> forall w0 nv, hd_error (w' :: rest') = Some w0 -> next = Some nv -> str_lt w0 nv).
           { intros _ w0 nv Hw0 Hn. inversion Hw0; subst. apply str_leb_false_lt. exact Ebr. }
           specialize (IH H1 H2). cbv zeta in IH. fold x in IH. fold E in IH. cbn [repeat] in IH.
           match goal with |- context [inner ?a ?b ?c ?d ?e ?f] => set (R := inner a b c d e f) in * end.
           change (inner value po next (w' :: rest') [] (rngs ++ [NotFound])) with R in IH.
           destruct R as [vs' rngs'|vs' ns rngs'].
           ++ destruct IH as (k & Hk & Hvs' & Hr & _). exists (S k). simpl skipn. simpl firstn. simpl map.
              rewrite Hspec. repeat split; try lia; try assumption.
              rewrite Hr. rewrite <- app_assoc. reflexivity.
           ++ destruct IH as (k & j & Hvs' & Hns & Hr & Hhd & Hk0 & Hmj & Hj & _).
              exists (S k), j. simpl skipn. simpl firstn. simpl map. rewrite Hspec.
              repeat split; try assumption; try lia.
              ** rewrite Hr. simpl. rewrite !app_nil_r. rewrite <- app_assoc. reflexivity.
              ** intros Hj0 _ w0 nv Hw0 Hn. destruct k.
                 --- simpl in Hvs'. subst vs'. eapply H2; eauto.
                 --- eapply Hmj; eauto; lia.
              ** intros _ w0 Hw0; inversion Hw0; subst; exact Ele.
Qed.

(* ---------- sampled offsets ---------- *)
Variable offs : list sample.

Definition good_samples : Prop :=
  Forall (fun s : sample => exists po, nth_error tbl (snd s) = Some (fst s, po)) offs
  /\ StronglySorted lt (map snd offs)
  /\ (exists v rest, offs = (v, 0%nat) :: rest)
  /\ (exists v front, offs = front ++ [(v, pred (length tbl))]).

Hypothesis Hgood : good_samples.

Lemma value_at_nth j v : value_at offs j = Some v -> exists p, nth_error offs j = Some (v, p).
Proof.
  unfold value_at. destruct (nth_error offs j) as [[v' p]|] eqn:E; [|discriminate].
  intro H. inversion H; subst. exists p. reflexivity.
Qed.

Lemma G_tbl j v p : nth_error offs j = Some (v, p) -> exists po, nth_error tbl p = Some (v, po).
Proof.
  intro H. destruct Hgood as (H1 & _). rewrite Forall_forall in H1.
  apply nth_error_In in H. apply (H1 _ H).
Qed.

Lemma G_in j v : value_at offs j = Some v -> In v (keys tbl).
Proof.
  intro H. destruct (value_at_nth _ _ H) as (p & Hp). destruct (G_tbl _ _ _ Hp) as (po & Hpo).
  apply nth_error_In in Hpo. unfold keys. apply in_map_iff. exists (v, po). split; [reflexivity|exact Hpo].
Qed.

Lemma G_mono j1 j2 v1 v2 : (j1 < j2)%nat ->
  value_at offs j1 = Some v1 -> value_at offs j2 = Some v2 -> str_lt v1 v2.
Proof.
  intros Hlt H1 H2.
  destruct (value_at_nth _ _ H1) as (p1 & Hp1). destruct (value_at_nth _ _ H2) as (p2 & Hp2).
  destruct (G_tbl _ _ _ Hp1) as (po1 & Hpo1). destruct (G_tbl _ _ _ Hp2) as (po2 & Hpo2).
  destruct Hgood as (_ & Hs & _).
  assert (Hp : (p1 < p2)%nat).
  { apply (ssorted_nth_lt lt (map snd offs) j1 j2 p1 p2 Hs Hlt).
    - exact (map_nth_error snd _ _ Hp1).
    - exact (map_nth_error snd _ _ Hp2). }
  apply (ssorted_nth_lt str_lt (keys tbl) p1 p2 v1 v2 Hsorted Hp).
  - exact (map_nth_error fst _ _ Hpo1).
  - exact (map_nth_error fst _ _ Hpo2).
Qed.

Lemma G_last i v : S i = length offs -> value_at offs i = Some v ->
  forall k, In k (keys tbl) -> str_le k v.
Proof.
  intros Hi Hv k Hk. destruct Hgood as (_ & _ & _ & (v' & front & E)).
  destruct (value_at_nth _ _ Hv) as (p & Hp).
  assert (Hlen : length offs = S (length front)) by (rewrite E, app_length; simpl; lia).
  assert (i = length front) by lia. subst i.
  rewrite E in Hp. rewrite nth_error_app2 in Hp by lia. rewrite Nat.sub_diag in Hp. simpl in Hp.
  inversion Hp; subst v' p. clear Hp.
  assert (Hin : In (v, pred (length tbl)) offs) by (rewrite E; apply in_or_app; right; left; reflexivity).
  destruct Hgood as (H1 & _). rewrite Forall_forall in H1. destruct (H1 _ Hin) as (po & Hpo). cbn [fst snd] in Hpo.
  unfold keys in Hk. apply In_nth_error in Hk. destruct Hk as (q & Hq).
  assert (Hql : (q < length (map fst tbl))%nat) by (apply nth_error_Some; congruence).
  rewrite map_length in Hql.
  destruct (Nat.eq_dec q (pred (length tbl))) as [->|Hne].
  - rewrite (map_nth_error fst _ _ Hpo) in Hq. simpl in Hq. inversion Hq. apply str_le_refl.
  - apply str_lt_le. apply (ssorted_nth_lt str_lt (keys tbl) q (pred (length tbl)) k v Hsorted); [unfold entry in *; lia|exact Hq|].
    exact (map_nth_error fst _ _ Hpo).
Qed.

Lemma G_first : exists v, value_at offs 0 = Some v /\ forall k, In k (keys tbl) -> str_le v k.
Proof.
  destruct Hgood as (H1 & _ & (v & rest & E) & _).
  exists v. split; [rewrite E; reflexivity|].
  intros k Hk. rewrite Forall_forall in H1.
  assert (Hin : In (v, 0%nat) offs) by (rewrite E; left; reflexivity).
  destruct (H1 _ Hin) as (po & Hpo). cbn [fst snd] in Hpo.
  unfold keys in Hk. apply In_nth_error in Hk. destruct Hk as (q & Hq).
  destruct q.
  - rewrite (map_nth_error fst _ _ Hpo) in Hq. simpl in Hq. inversion Hq. apply str_le_refl.
  - apply str_lt_le. apply (ssorted_nth_lt str_lt (keys tbl) 0 (S q) v k Hsorted); [lia| |exact Hq].
    exact (map_nth_error fst _ _ Hpo).
Qed.

(* decbuf positioned at a sampled entry *)
Lemma G_skip j v : value_at offs j = Some v ->
  exists pre po d', tbl = pre ++ (v, po) :: d' /\ skipn (pos_at offs j) tbl = (v, po) :: d'.
Proof.
  intro H. destruct (value_at_nth _ _ H) as (p & Hp). destruct (G_tbl _ _ _ Hp) as (po & Hpo).
  destruct (skipn_nth_split _ _ _ Hpo) as (l1 & l2 & E & Hs & _).
  exists l1, po, l2. split; [exact E|]. unfold pos_at. rewrite Hp. exact Hs.
Qed.

(* ---------- the Iter loop ---------- *)
Definition mode (i : nat) (w : str) (d : list entry) (C : Prop) : Prop :=
  (exists nv, value_at offs (S i) = Some nv /\ str_lt w nv)
  \/ (S i = length offs /\ value_at offs i = Some w /\ ((exists po d', d = (w, po) :: d') \/ C)).

Lemma iter_ok : forall d pre i vs newSame rngs done (C : Prop),
  tbl = pre ++ d ->
  StronglySorted str_le vs ->
  (exists w, hd_error vs = Some w /\ Forall (fun e : entry => str_lt (fst e) w) pre /\ mode i w d C) ->
  rngs ++ close_rngs (next_end lv d) newSame = map spec done ->
  exists k, iter offs lv d i vs newSame rngs = ROuter (skipn k vs) (map spec (done ++ firstn k vs))
            /\ (C \/ (k >= 1)%nat).
Proof.
  induction d as [|[value po] d' IH]; intros pre i vs newSame rngs done C Etbl Hvs (w & Hhd & Hpre & Hmode) Hinv.
  - (* the decbuf is never exhausted *)
    exfalso. rewrite app_nil_r in Etbl. subst pre.
    assert (Hex : exists nv, In nv (keys tbl) /\ str_le w nv).
    { destruct Hmode as [(nv & Hnv & Hlt)|(_ & Hv & _)].
      - exists nv. split; [eapply G_in; eauto | apply str_lt_le; exact Hlt].
      - exists w. split; [eapply G_in; eauto | apply str_le_refl]. }
    destruct Hex as (nv & Hin & Hle).
    unfold keys in Hin. apply in_map_iff in Hin. destruct Hin as (e & He & Hin).
    rewrite Forall_forall in Hpre. specialize (Hpre e Hin). rewrite He in Hpre.
    apply str_le_not_gt in Hle. contradiction.
  - destruct vs as [|w0 rest]; [discriminate|]. simpl in Hhd. inversion Hhd; subst w0. clear Hhd.
    cbn [iter].
    set (rngs1 := if is_nil newSame then rngs else rngs ++ close_rngs (po - crc32_size) newSame).
    assert (Hr1 : rngs1 = map spec done).
    { unfold rngs1. simpl in Hinv. destruct newSame; simpl; [|exact Hinv].
      simpl in Hinv. rewrite app_nil_r in Hinv. exact Hinv. }
    pose proof (inner_ok (w :: rest) value po (value_at offs (S i)) pre d' 0%nat rngs1 Etbl Hvs) as Hin.
    assert (Hp1 : forall w0, hd_error (w :: rest) = Some w0 -> Forall (fun e : entry => str_lt (fst e) w0) pre).
    { intros w0 Hw0. inversion Hw0; subst. exact Hpre. }
    assert (Hp2 : (0 > 0)%nat -> Forall (str_le value) (w :: rest)) by lia.
    assert (Hmode_excl : S i <> length offs -> exists nv, value_at offs (S i) = Some nv /\ str_lt w nv).
    { intro Hne. destruct Hmode as [H|(H & _)]; [exact H|contradiction]. }
    assert (Hp3 : 0%nat = 0%nat -> forall w0 nv, hd_error (w :: rest) = Some w0 -> value_at offs (S i) = Some nv -> str_lt w0 nv).
    { intros _ w0 nv Hw0 Hnv. inversion Hw0; subst w0.
      destruct Hmode as [(nv' & Hnv' & Hlt)|(Hlen & _)].
      - rewrite Hnv in Hnv'. inversion Hnv'; subst. exact Hlt.
      - exfalso. destruct (value_at_nth _ _ Hnv) as (p & Hp).
        assert ((S i < length offs)%nat) by (apply nth_error_Some; congruence). lia. }
    specialize (Hin Hp1 Hp2 Hp3). cbv zeta in Hin. cbn [repeat] in Hin.
    destruct (split_facts _ _ _ _ Etbl) as [Hpre_val Hd'_val].
    match goal with |- context [inner ?a ?b ?c ?d ?e ?f] => set (R := inner a b c d e f) in * end.
    change (inner value po (value_at offs (S i)) (w :: rest) [] rngs1) with R in Hin.
    destruct R as [vs' rngs'|vs' ns rngs'].
    + (* break Iter *)
      destruct Hin as (k & Hk & Hvs' & Hr & _). exists k. subst vs' rngs'. rewrite Hr1.
      rewrite map_app. split; [reflexivity | right; exact Hk].
    + destruct Hin as (k & j & Hvs' & Hns & Hr & Hhd' & Hk0 & Hmj & Hj & Hkle).
      simpl in Hns. simpl close_rngs in Hr. rewrite app_nil_r in Hr.
      assert (Hdone : rngs' ++ close_rngs (next_end lv d') ns = map spec (done ++ firstn k (w :: rest))).
      { rewrite Hr, Hr1, map_app. reflexivity. }
      assert (Hk_val : k = 0%nat -> str_lt value w).
      { intro Hk. subst k. simpl in Hvs'. subst vs'. apply Hhd'. reflexivity. }
      destruct (Nat.eqb (S i) (length offs)) eqn:Elen.
      * (* last sampled offset: no more offsets for this name *)
        apply Nat.eqb_eq in Elen.
        destruct Hmode as [(nv & Hnv & _)|(_ & Hv & Hc)].
        { exfalso. destruct (value_at_nth _ _ Hnv) as (p & Hp).
          assert ((S i < length offs)%nat) by (apply nth_error_Some; congruence). lia. }
        exists k. subst vs'. split.
        -- f_equal. rewrite <- Hdone. f_equal.
           destruct j; [subst ns; reflexivity|].
           (* something was found at this entry: it is the last entry of the name *)
           assert (Hk1 : (k >= 1)%nat) by lia.
           assert (Hwv : str_le w value) by (apply (Hkle Hk1 w); reflexivity).
           assert (Hvw : str_le value w).
           { eapply G_last; eauto. rewrite Etbl. unfold keys. rewrite map_app. apply in_or_app. right. left. reflexivity. }
           destruct d' as [|[v2 po2] d'']; [reflexivity|]. exfalso.
           inversion Hd'_val as [|? ? Hv2 _]; subst. simpl in Hv2.
           assert (Hv2w : str_le v2 w).
           { eapply G_last; eauto. rewrite Etbl. unfold keys. rewrite map_app. apply in_or_app. right. right. left. reflexivity. }
           eapply str_lt_irrefl. eapply str_lt_le_trans; [exact Hv2|]. eapply str_le_trans; eauto.
        -- destruct Hc as [(po' & d0 & Hd)|Hc]; [|left; exact Hc].
           right. inversion Hd; subst value. destruct k; [|lia]. exfalso.
           eapply str_lt_irrefl. apply Hk_val. reflexivity.
      * apply Nat.eqb_neq in Elen. destruct (Hmode_excl Elen) as (nv & Hnv & Hwnv). rewrite Hnv.
        assert (Hfinal : exists k0,
                   (if is_nil ns then ROuter vs' rngs'
                    else match d' with
                         | [] => RErr
                         | (_, po2) :: _ => ROuter vs' (rngs' ++ close_rngs (po2 - crc32_size) ns)
                         end) = ROuter (skipn k0 (w :: rest)) (map spec (done ++ firstn k0 (w :: rest)))
                   /\ ((vs' = [] \/ exists w', hd_error vs' = Some w' /\ str_lt nv w') -> C \/ (k0 >= 1)%nat)).
        { exists k. destruct j.
          - subst ns. simpl. simpl in Hdone. rewrite app_nil_r in Hdone. subst vs'. rewrite Hdone. split; [reflexivity|].
            intros Hcase. right. destruct k; [|lia]. exfalso. simpl in Hcase.
            destruct Hcase as [Hc|(w' & Hw' & Hlt)]; [discriminate|].
            inversion Hw'; subst w'. eapply str_lt_irrefl. eapply str_lt_trans; eauto.
          - subst ns. cbn [is_nil repeat].
            assert (Hvnv : str_lt value nv) by (apply (Hj eq_refl ltac:(lia) nv Hnv)).
            assert (Hinnv : In nv (keys ((value, po) :: d'))).
            { assert (Hnv_in : In nv (keys tbl)) by (eapply G_in; eauto). rewrite Etbl in Hnv_in.
              apply (in_keys_after _ _ w nv Hnv_in); [exact Hpre | apply str_lt_le; exact Hwnv]. }
            simpl in Hinnv. destruct Hinnv as [Heq|Hinnv]; [subst; exfalso; eapply str_lt_irrefl; eauto|].
            destruct d' as [|[v2 po2] d'']; [contradiction|].
            subst vs'. simpl in Hdone. rewrite <- Hdone. split; [reflexivity|].
            intros _. right. lia. }
        destruct vs' as [|w' vs''].
        { destruct Hfinal as (k0 & Hf & Hprog). exists k0. split; [exact Hf|]. apply Hprog. left. reflexivity. }
        destruct (str_leb w' nv) eqn:Eleb.
        2:{ destruct Hfinal as (k0 & Hf & Hprog). exists k0. split; [exact Hf|]. apply Hprog. right.
            exists w'. split; [reflexivity|]. apply str_leb_false_lt. exact Eleb. }
        apply str_leb_le in Eleb. clear Hfinal.
        (* continue with the next table entry *)
        assert (Hvw' : str_lt value w') by (apply Hhd'; reflexivity).
        assert (Hww' : str_le w w') by (eapply (sorted_skipn_hd k); [exact Hvs | rewrite <- Hvs'; reflexivity]).
        assert (Etbl' : tbl = (pre ++ [(value, po)]) ++ d') by (rewrite <- app_assoc; exact Etbl).
        assert (Hpre' : Forall (fun e : entry => str_lt (fst e) w') (pre ++ [(value, po)])).
        { apply Forall_app. split; [exact (Forall_lt_le_trans pre w w' Hpre Hww')|]. constructor; [exact Hvw'|constructor]. }
        assert (Hvs'' : StronglySorted str_le (w' :: vs'')) by (rewrite Hvs'; apply ssorted_skipn; exact Hvs).
        set (i' := if str_eqb w' nv then S i else i).
        assert (Hmode' : mode i' w' d' (C \/ (k >= 1)%nat)).
        { unfold i'. destruct (str_eqb w' nv) eqn:Eq.
          - apply str_eqb_eq in Eq. subst w'.
            destruct (value_at offs (S (S i))) as [nv2|] eqn:Env2.
            + left. exists nv2. split; [exact Env2|]. eapply (G_mono (S i) (S (S i))); eauto.
            + right. split; [|split; [exact Hnv|]].
              * destruct (value_at_nth _ _ Hnv) as (p & Hp).
                assert ((S i < length offs)%nat) by (apply nth_error_Some; congruence).
                unfold value_at in Env2. destruct (nth_error offs (S (S i))) as [[? ?]|] eqn:En; [discriminate|].
                apply nth_error_None in En. lia.
              * right. right. destruct k; [|lia]. exfalso.
                simpl in Hvs'. inversion Hvs'; subst. eapply str_lt_irrefl; exact Hwnv.
          - left. exists nv. split; [exact Hnv|]. apply str_eqb_false_ne in Eq.
            destruct (str_le_cases _ _ Eleb) as [->|H]; [congruence|exact H]. }
        destruct (IH (pre ++ [(value, po)]) i' (w' :: vs'') ns rngs' (done ++ firstn k (w :: rest)) (C \/ (k >= 1)%nat)
                     Etbl' Hvs'' (ex_intro _ w' (conj eq_refl (conj Hpre' Hmode'))) Hdone) as (k2 & Hit & Hprog).
        exists (k + k2)%nat. fold i'. rewrite Hit. split.
        -- rewrite Hvs'. rewrite skipn_skipn'. rewrite <- app_assoc. rewrite firstn_plus. reflexivity.
        -- destruct Hprog as [[Hc|Hk]|Hk2]; [left; exact Hc | right; lia | right; lia].
Qed.

(* ---------- the outer loop ---------- *)
Lemma map_const_repeat {A B} (f : A -> B) c l : (forall v, In v l -> f v = c) -> map f l = repeat c (length l).
Proof.
  induction l as [|a l IH]; intro H; simpl; [reflexivity|].
  rewrite H by (left; reflexivity). rewrite IH; [reflexivity|]. intros v Hv. apply H. right. exact Hv.
Qed.

Lemma offs_nonempty : (length offs >= 1)%nat.
Proof. destruct Hgood as (_ & _ & (v & rest & E) & _). rewrite E. simpl. lia. Qed.

Lemma value_at_some j : (j < length offs)%nat -> exists v, value_at offs j = Some v.
Proof.
  intro H. unfold value_at. destruct (nth_error offs j) as [[v p]|] eqn:E; [exists v; reflexivity|].
  apply nth_error_None in E. lia.
Qed.

Lemma value_at_lt j v : value_at offs j = Some v -> (j < length offs)%nat.
Proof. intro H. destruct (value_at_nth _ _ H) as (p & Hp). apply nth_error_Some. congruence. Qed.

Lemma spec_below_first first w :
  value_at offs 0 = Some first -> str_lt w first -> spec w = NotFound.
Proof.
  intros Hf Hlt. apply spec_absent. intro Hin.
  destruct G_first as (v & Hv & Hmin). rewrite Hf in Hv. inversion Hv; subst v.
  specialize (Hmin _ Hin). apply str_le_not_gt in Hmin. contradiction.
Qed.

Lemma outer_ok : forall fuel vs done rngs total,
  (length vs < fuel)%nat -> StronglySorted str_le vs ->
  (forall w first, hd_error vs = Some w -> value_at offs 0 = Some first -> str_le first w) ->
  rngs = map spec done -> total = (length done + length vs)%nat ->
  outer fuel offs lv tbl total vs rngs = OK (map spec (done ++ vs)).
Proof.
  induction fuel as [|f IH]; intros vs done rngs total Hfuel Hvs Hfirst Hr Htot; [lia|].
  destruct vs as [|w rest].
  { simpl. rewrite app_nil_r. subst rngs. reflexivity. }
  cbn [outer].
  destruct (search_spec offs w) as (Hs1 & Hs2 & Hs3).
  set (i := search offs w) in *.
  destruct (Nat.eqb i (length offs)) eqn:Ei.
  - (* past the end: every remaining value is absent *)
    apply Nat.eqb_eq in Ei. f_equal.
    pose proof offs_nonempty as Hne.
    destruct (value_at_some (pred (length offs))) as (vl & Hvl); [lia|].
    assert (Hvlw : str_lt vl w) by (apply (Hs2 (pred (length offs))); [lia|exact Hvl]).
    assert (Habs : forall v, In v (w :: rest) -> spec v = NotFound).
    { intros v Hv. apply spec_absent. intro Hin.
      assert (Hle : str_le v vl) by (eapply (G_last (pred (length offs))); eauto; lia).
      assert (Hwv : str_le w v).
      { destruct Hv as [->|Hv]; [apply str_le_refl|]. apply ssorted_head in Hvs.
        rewrite Forall_forall in Hvs. apply Hvs. exact Hv. }
      eapply str_lt_irrefl. eapply str_lt_le_trans; [exact Hvlw|]. eapply str_le_trans; eauto. }
    rewrite map_app. rewrite (map_const_repeat spec NotFound (w :: rest) Habs).
    subst rngs. rewrite map_length. subst total.
    replace (length done + length (w :: rest) - length done)%nat with (length (w :: rest)) by lia.
    reflexivity.
  - apply Nat.eqb_neq in Ei. assert (Hilt : (i < length offs)%nat) by lia.
    destruct (Hs3 Hilt) as (v & Hv & Hwv).
    set (i2 := if (Nat.ltb 0 i) && negb (option_eqb str_eqb (value_at offs i) (Some w)) then pred i else i).
    assert (Hstart : exists vi pre po d',
               tbl = pre ++ (vi, po) :: d' /\ skipn (pos_at offs i2) tbl = (vi, po) :: d'
               /\ Forall (fun e : entry => str_lt (fst e) w) pre
               /\ mode i2 w ((vi, po) :: d') False).
    { unfold i2. rewrite Hv. simpl option_eqb.
      destruct (str_eqb v w) eqn:Evw.
      - (* exact hit *)
        apply str_eqb_eq in Evw. subst v. rewrite andb_false_r.
        destruct (G_skip _ _ Hv) as (pre & po & d' & E1 & E2).
        exists w, pre, po, d'. split; [exact E1|]. split; [exact E2|].
        destruct (split_facts _ _ _ _ E1) as [Hp _]. split; [exact Hp|].
        destruct (value_at offs (S i)) as [nv|] eqn:Env.
        + left. exists nv. split; [exact Env|]. eapply (G_mono i (S i)); eauto.
        + right. split; [|split; [exact Hv|left; eauto]].
          unfold value_at in Env. destruct (nth_error offs (S i)) as [[? ?]|] eqn:En; [discriminate|].
          apply nth_error_None in En. lia.
      - apply str_eqb_false_ne in Evw.
        assert (Hlt : str_lt w v) by (destruct (str_le_cases _ _ Hwv) as [->|H]; [congruence|exact H]).
        destruct i as [|i0].
        + exfalso. specialize (Hfirst w v eq_refl Hv). apply str_le_not_gt in Hfirst. contradiction.
        + simpl. destruct (value_at_some i0) as (v' & Hv'); [lia|].
          assert (Hv'w : str_lt v' w) by (apply (Hs2 i0); [lia|exact Hv']).
          destruct (G_skip _ _ Hv') as (pre & po & d' & E1 & E2).
          exists v', pre, po, d'. split; [exact E1|]. split; [exact E2|].
          destruct (split_facts _ _ _ _ E1) as [Hp _]. split.
          * eapply Forall_lt_le_trans; [exact Hp|]. apply str_lt_le. exact Hv'w.
          * left. exists v. split; [exact Hv|exact Hlt]. }
    fold i2.
    destruct Hstart as (vi & pre & po & d' & E1 & E2 & Hp & Hmode). rewrite E2.
    destruct (iter_ok ((vi, po) :: d') pre i2 (w :: rest) [] rngs done False E1 Hvs
                (ex_intro _ w (conj eq_refl (conj Hp Hmode)))) as (k & Hit & Hprog).
    { simpl. rewrite app_nil_r. exact Hr. }
    rewrite Hit. destruct Hprog as [[]|Hk].
    rewrite (IH (skipn k (w :: rest)) (done ++ firstn k (w :: rest)) _ total).
    + rewrite <- app_assoc, firstn_skipn. reflexivity.
    + rewrite skipn_length. cbn [length] in Hfuel |- *. lia.
    + apply ssorted_skipn. exact Hvs.
    + intros w' first Hw' Hf. eapply str_le_trans; [apply (Hfirst w first eq_refl Hf)|].
      eapply sorted_skipn_hd; eauto.
    + reflexivity.
    + rewrite app_length, firstn_length, skipn_length. subst total. simpl length. lia.
Qed.

Lemma discard_spec first : forall vs, StronglySorted str_le vs ->
  exists a, (a <= length vs)%nat /\ fst (discard first vs) = repeat NotFound a /\ snd (discard first vs) = skipn a vs
    /\ (forall v, In v (firstn a vs) -> str_lt v first)
    /\ (forall w, hd_error (skipn a vs) = Some w -> str_le first w).
Proof.
  induction vs as [|v r IH]; intro Hs.
  - exists 0%nat. simpl. repeat split; try reflexivity; try lia; try discriminate; try (intros v []).
  - simpl. destruct (str_ltb v first) eqn:E.
    + destruct (IH (ssorted_tail _ _ _ Hs)) as (a & H0 & H1 & H2 & H3 & H4).
      destruct (discard first r) as [p q]. simpl in *. exists (S a). simpl. subst.
      repeat split; try reflexivity; try lia; [|exact H4].
      intros v0 [->|Hv0]; [apply str_ltb_lt; exact E|apply H3; exact Hv0].
    + exists 0%nat. simpl. split; [lia|]. split; [reflexivity|]. split; [reflexivity|]. split.
      * intros v0 [].
      * intros w Hw. inversion Hw; subst. apply str_ltb_false_le. exact E.
Qed.

Lemma postings_offset_ok : forall vs, StronglySorted str_le vs ->
  postings_offset offs lv tbl vs = OK (map spec vs).
Proof.
  intros vs Hvs. unfold postings_offset. destruct vs as [|v0 vs0]; [reflexivity|].
  set (vs := v0 :: vs0) in *.
  destruct Hgood as (_ & _ & (first & orest & E) & _). rewrite E.
  destruct (discard_spec first vs Hvs) as (a & Ha & H1 & H2 & H3 & H4).
  destruct (discard first vs) as [p q]. simpl in H1, H2. subst p q.
  assert (Hf0 : value_at offs 0 = Some first) by (rewrite E; reflexivity).
  rewrite <- E.
  rewrite (outer_ok (S (length (skipn a vs))) (skipn a vs) (firstn a vs) _ (length vs)).
  - rewrite firstn_skipn. reflexivity.
  - lia.
  - apply ssorted_skipn. exact Hvs.
  - intros w f Hw Hf. rewrite Hf0 in Hf. inversion Hf; subst f. apply H4. exact Hw.
  - rewrite (map_const_repeat spec NotFound (firstn a vs)).
    + rewrite firstn_length. f_equal. lia.
    + intros v Hv. eapply spec_below_first; eauto.
  - rewrite firstn_length, skipn_length. lia.
Qed.

(* ---------- LabelValues ---------- *)
Lemma lv_scan_ok lastv po : forall d1 d2 acc,
  Forall (fun e : entry => fst e <> lastv) d1 ->
  lv_scan (d1 ++ (lastv, po) :: d2) lastv acc = Some (acc ++ keys d1 ++ [lastv]).
Proof.
  induction d1 as [|[v p] d1 IH]; intros d2 acc H; simpl.
  - rewrite str_eqb_refl. reflexivity.
  - inversion H as [|? ? Hv Hr]; subst. simpl in Hv. apply str_eqb_false_ne in Hv. rewrite Hv.
    rewrite IH by exact Hr. rewrite <- app_assoc. reflexivity.
Qed.

Lemma label_values_unfold (o : list sample) t v0 rest vl :
  o = (v0, 0%nat) :: rest -> value_at o (pred (length o)) = Some vl ->
  label_values o t = lv_scan t vl [].
Proof. intros -> H. unfold label_values. rewrite H. reflexivity. Qed.

Lemma label_values_ok : label_values offs tbl = Some (keys tbl).
Proof.
  pose proof offs_nonempty as Hne.
  destruct Hgood as (H1 & _ & (v0 & orest & E0) & (vl & front & El)).
  assert (Hvl : value_at offs (pred (length offs)) = Some vl).
  { rewrite El at 2. unfold value_at. rewrite El, app_length. simpl length.
    replace (pred (length front + 1)) with (length front) by lia.
    rewrite nth_error_app2 by lia. rewrite Nat.sub_diag. reflexivity. }
  rewrite (label_values_unfold offs tbl v0 orest vl E0 Hvl).
  assert (Hin : In (vl, pred (length tbl)) offs) by (rewrite El; apply in_or_app; right; left; reflexivity).
  rewrite Forall_forall in H1. destruct (H1 _ Hin) as (po & Hpo). cbn [fst snd] in Hpo.
  destruct (skipn_nth_split _ _ _ Hpo) as (l1 & l2 & Et & _ & Hl).
  assert (l2 = []).
  { assert (Hlen : length tbl = (length l1 + S (length l2))%nat) by (rewrite Et at 1; rewrite app_length; reflexivity).
    destruct l2; [reflexivity|]. simpl in Hlen. unfold entry in *. lia. }
  subst l2. destruct (split_facts _ _ _ _ Et) as [Hp _].
  rewrite Et at 1. rewrite lv_scan_ok by (apply Forall_lt_ne; exact Hp).
  simpl. rewrite Et. unfold keys. rewrite map_app. reflexivity.
Qed.

End Table.

(* ---------- BinaryReader.init: the sampled offsets are good ---------- *)
Lemma sample_last_switch_eq vc n : sample_last_switch vc n = sample_last_end vc n.
Proof. reflexivity. Qed.

Lemma sample_last_end_keep vc n : sample_last_end vc n = negb (sample_keep vc n).
Proof. reflexivity. Qed.

Lemma sample_keep_first n : sample_keep 1 n = true.
Proof. unfold sample_keep. destruct n; reflexivity. Qed.

Lemma ssorted_lt_snoc l y : StronglySorted lt l -> Forall (fun x => (x < y)%nat) l -> StronglySorted lt (l ++ [y]).
Proof.
  induction l as [|a l IH]; intros Hs Hf; simpl.
  - constructor; constructor.
  - inversion Hs as [|? ? Hs' Ha]; subst. inversion Hf as [|? ? Hay Hf']; subst.
    constructor; [apply IH; assumption|]. apply Forall_app. split; [exact Ha|]. constructor; [exact Hay|constructor].
Qed.

Section Init.
Variable n : Z.
Variable tbl0 : list entry.

Definition init_inv (done_t : list entry) (acc : list sample) (last : option sample) : Prop :=
  Forall (fun s : sample => exists po, nth_error tbl0 (snd s) = Some (fst s, po)) acc
  /\ StronglySorted lt (map snd acc)
  /\ Forall (fun s : sample => (snd s < length done_t)%nat
                               /\ (S (snd s) = length done_t -> sample_keep (Z.of_nat (length done_t)) n = true)) acc
  /\ (done_t = [] -> acc = [] /\ last = None)
  /\ (forall dt' v po, done_t = dt' ++ [(v, po)] ->
        last = Some (v, length dt')
        /\ (exists v0 rest, acc = (v0, 0%nat) :: rest)
        /\ (sample_keep (Z.of_nat (length done_t)) n = true -> exists front, acc = front ++ [(v, length dt')])).

Lemma init_loop_good : forall rem done_t acc last,
  tbl0 = done_t ++ rem -> tbl0 <> [] -> init_inv done_t acc last ->
  good_samples tbl0 (init_loop n rem (length done_t) (Z.of_nat (length done_t)) last acc).
Proof.
  induction rem as [|[v po] rem IH]; intros done_t acc last Et Hne (A1 & A2 & A3 & A4 & A5).
  - rewrite app_nil_r in Et. subst done_t. simpl.
    destruct (@exists_last _ tbl0 Hne) as (dt' & [vl pol] & El).
    destruct (A5 _ _ _ El) as (Hlast & (v0 & rest & Hfirst) & Hkeep). rewrite Hlast.
    assert (Hlen : length tbl0 = S (length dt')) by (rewrite El, app_length; simpl; lia).
    assert (Hnth : nth_error tbl0 (length dt') = Some (vl, pol)).
    { rewrite El. rewrite nth_error_app2 by lia. rewrite Nat.sub_diag. reflexivity. }
    rewrite sample_last_end_keep. destruct (sample_keep (Z.of_nat (length tbl0)) n) eqn:Ek; simpl.
    + destruct (Hkeep eq_refl) as (front & Hf).
      repeat split; try assumption.
      * exists v0, rest. exact Hfirst.
      * exists vl, front. rewrite Hlen. simpl. exact Hf.
    + repeat split.
      * apply Forall_app. split; [exact A1|]. constructor; [|constructor]. exists pol. exact Hnth.
      * rewrite map_app. simpl. apply ssorted_lt_snoc; [exact A2|].
        rewrite Forall_map. eapply Forall_impl; [|exact A3]. intros [sv sp] (Hlt & Himp). simpl in *.
        destruct (Nat.eq_dec (S sp) (length tbl0)) as [Heq|Hneq]; [specialize (Himp Heq); congruence|].
        unfold entry in *. lia.
      * exists v0, (rest ++ [(vl, length dt')]). rewrite Hfirst. reflexivity.
      * exists vl, acc. rewrite Hlen. reflexivity.
  - cbn [init_loop].
    assert (Et' : tbl0 = (done_t ++ [(v, po)]) ++ rem) by (rewrite <- app_assoc; exact Et).
    assert (Hlen' : length (done_t ++ [(v, po)]) = S (length done_t)) by (rewrite app_length; simpl; lia).
    assert (Hvc : Z.of_nat (length done_t) + 1 = Z.of_nat (length (done_t ++ [(v, po)]))) by (rewrite Hlen'; lia).
    rewrite Hvc. rewrite <- Hlen'.
    apply IH; [exact Et' | exact Hne |].
    assert (Hnth : nth_error tbl0 (length done_t) = Some (v, po)).
    { rewrite Et. rewrite nth_error_app2 by lia. rewrite Nat.sub_diag. reflexivity. }
    assert (A3' : Forall (fun s : sample => (snd s < length done_t)%nat) acc).
    { eapply Forall_impl; [|exact A3]. intros a [H _]. exact H. }
    unfold init_inv. rewrite Hlen'.
    destruct (sample_keep (Z.of_nat (S (length done_t))) n) eqn:Ek.
    + split; [|split; [|split; [|split]]].
      * apply Forall_app. split; [exact A1|]. constructor; [|constructor]. exists po. exact Hnth.
      * rewrite map_app. simpl. apply ssorted_lt_snoc; [exact A2|]. rewrite Forall_map. exact A3'.
      * apply Forall_app. split.
        -- eapply Forall_impl; [|exact A3']. intros a H. unfold entry, sample in *. split; [lia|]. intro; reflexivity.
        -- constructor; [|constructor]. simpl. split; [lia|]. intros _. reflexivity.
      * intro H. destruct done_t; discriminate.
      * intros dt' v1 po1 H. apply app_inj_tail in H. destruct H as [H1 H2]. inversion H2; subst dt' v1 po1.
        split; [reflexivity|]. split.
        -- destruct done_t as [|e0 dt0].
           ++ destruct (A4 eq_refl) as [-> _]. exists v, []. reflexivity.
           ++ destruct (@exists_last _ (e0 :: dt0) ltac:(discriminate)) as (dd & [vv pp] & Ed).
              destruct (A5 _ _ _ Ed) as (_ & (v0 & rest & Hf) & _). exists v0, (rest ++ [(v, length (e0 :: dt0))]).
              rewrite Hf. reflexivity.
        -- intros _. exists acc. reflexivity.
    + split; [|split; [|split; [|split]]].
      * exact A1.
      * exact A2.
      * eapply Forall_impl; [|exact A3']. intros a H. unfold entry, sample in *. split; [lia|]. intro; lia.
      * intro H. destruct done_t; discriminate.
      * intros dt' v1 po1 H. apply app_inj_tail in H. destruct H as [H1 H2]. inversion H2; subst dt' v1 po1.
        split; [reflexivity|]. split.
        -- destruct done_t as [|e0 dt0].
           ++ exfalso. simpl in Ek. rewrite sample_keep_first in Ek. discriminate.
           ++ destruct (@exists_last _ (e0 :: dt0) ltac:(discriminate)) as (dd & [vv pp] & Ed).
              destruct (A5 _ _ _ Ed) as (_ & Hf & _). exact Hf.
        -- intro Hc. discriminate.
Qed.

Lemma init_sample_good : tbl0 <> [] -> good_samples tbl0 (init_sample n tbl0).
Proof.
  intro Hne. unfold init_sample.
  apply (init_loop_good tbl0 [] [] None); [reflexivity | exact Hne |].
  split; [constructor|]. split; [constructor|]. split; [constructor|]. split; [intros _; split; reflexivity|].
  intros dt' v po H. destruct dt'; discriminate.
Qed.
End Init.

(* ---------- top-level statements ---------- *)
Lemma offsets_eq_spec : forall n tbl next_off vs,
  1 <= n -> tbl <> [] -> StronglySorted str_lt (keys tbl) -> StronglySorted str_le vs ->
  postings_offset (init_sample n tbl) (last_val_offset next_off) tbl vs
  = OK (map (spec_range tbl (last_val_offset next_off)) vs).
Proof.
  intros n tbl next_off vs _ Hne Hs Hvs.
  apply postings_offset_ok; [exact Hs | apply init_sample_good; exact Hne | exact Hvs].
Qed.

Lemma label_values_eq : forall n tbl,
  1 <= n -> tbl <> [] -> StronglySorted str_lt (keys tbl) ->
  label_values (init_sample n tbl) tbl = Some (keys tbl).
Proof.
  intros n tbl _ Hne Hs. apply label_values_ok; [exact Hs | apply init_sample_good; exact Hne].
Qed.

Lemma sampled_ok : forall n tbl, 1 <= n -> tbl <> [] -> good_samples tbl (init_sample n tbl).
Proof. intros n tbl _ Hne. apply init_sample_good. exact Hne. Qed.

(* readable reading of the specification *)
Lemma spec_found_at : forall tbl lv pre v po d',
  StronglySorted str_lt (keys tbl) -> tbl = pre ++ (v, po) :: d' ->
  spec_range tbl lv v = (po + 4, match d' with [] => lv | (_, po') :: _ => po' - 4 end).
Proof. intros tbl lv pre v po d' Hs E. apply (spec_found tbl lv Hs pre v po d' E). Qed.

Lemma spec_missing : forall tbl lv v, ~ In v (keys tbl) -> spec_range tbl lv v = (-1, -1).
Proof. intros. apply spec_absent. assumption. Qed.

Lemma range_eqb_refl r : range_eqb r r = true.
Proof. unfold range_eqb. rewrite !Z.eqb_refl. reflexivity. Qed.

Lemma list_eqb_refl {A} (eqb : A -> A -> bool) : (forall x, eqb x x = true) -> forall l, list_eqb eqb l l = true.
Proof. intros H l. induction l; simpl; [reflexivity|]. rewrite H, IHl. reflexivity. Qed.

Lemma sample_eqb_refl s : sample_eqb s s = true.
Proof. unfold sample_eqb. rewrite str_eqb_refl, Nat.eqb_refl. reflexivity. Qed.

Lemma name_case_ok : forall n tbl next_off vs,
  1 <= n -> tbl <> [] -> StronglySorted str_lt (keys tbl) -> StronglySorted str_le vs ->
  let offs := init_sample n tbl in
  let lv := last_val_offset next_off in
  exists out lvs,
    postings_offset offs lv tbl vs = OK out /\ label_values offs tbl = Some lvs /\
    out = map (spec_range tbl lv) vs /\ lvs = keys tbl /\
    (* the case the harness would emit if the implementation agrees with the model and
       the full index with the specification passes both checks *)
    corr_ok (CName n tbl next_off offs lv [(vs, Some out, map (spec_range tbl lv) vs)] (Some lvs) (keys tbl)) = true /\
    pred_ok (CName n tbl next_off offs lv [(vs, Some out, map (spec_range tbl lv) vs)] (Some lvs) (keys tbl)) = true.
Proof.
  intros n tbl next_off vs Hn Hne Hs Hvs offs lv.
  exists (map (spec_range tbl lv) vs), (keys tbl).
  pose proof (offsets_eq_spec n tbl next_off vs Hn Hne Hs Hvs) as H1.
  pose proof (label_values_eq n tbl Hn Hne Hs) as H2.
  fold offs in H1, H2. fold lv in H1.
  split; [exact H1|]. split; [exact H2|]. split; [reflexivity|]. split; [reflexivity|].
  split.
  - unfold offs, lv in *. cbn [corr_ok]. cbv zeta. cbn [forallb]. rewrite H1, H2. cbn [res_eqb option_eqb].
    rewrite (list_eqb_refl sample_eqb sample_eqb_refl), Z.eqb_refl.
    rewrite !(list_eqb_refl range_eqb range_eqb_refl), (list_eqb_refl str_eqb str_eqb_refl). reflexivity.
  - cbn [pred_ok forallb option_eqb].
    rewrite (list_eqb_refl range_eqb range_eqb_refl), (list_eqb_refl str_eqb str_eqb_refl). reflexivity.
Qed.

(* ---------- LabelNames ---------- *)
Lemma insert_in x y l : In y (insert_str x l) <-> y = x \/ In y l.
Proof.
  induction l as [|a l IH]; simpl; [intuition congruence|].
  destruct (str_leb x a); simpl; [intuition congruence|]. rewrite IH. intuition.
Qed.

Lemma sort_in y l : In y (sort_str l) <-> In y l.
Proof.
  induction l as [|a l IH]; simpl; [tauto|]. rewrite insert_in, IH. intuition congruence.
Qed.

Lemma insert_sorted x l : StronglySorted str_le l -> StronglySorted str_le (insert_str x l).
Proof.
  induction l as [|a l IH]; intro H; simpl; [constructor; constructor|].
  destruct (str_leb x a) eqn:E.
  - apply str_leb_le in E. constructor; [exact H|]. constructor; [exact E|].
    apply ssorted_head in H. eapply Forall_impl; [|exact H]. intros b Hb. eapply str_le_trans; eauto.
  - apply str_leb_false_lt in E. constructor; [apply IH; eapply ssorted_tail; eauto|].
    apply Forall_forall. intros b Hb. apply insert_in in Hb. destruct Hb as [->|Hb].
    + apply str_lt_le. exact E.
    + apply ssorted_head in H. rewrite Forall_forall in H. apply H. exact Hb.
Qed.

Lemma sort_sorted l : StronglySorted str_le (sort_str l).
Proof. induction l; simpl; [constructor|apply insert_sorted; assumption]. Qed.

Lemma mem_str_in x l : mem_str x l = true <-> In x l.
Proof.
  induction l as [|a l IH]; simpl; [intuition congruence|].
  rewrite orb_true_iff, IH, str_eqb_eq. intuition congruence.
Qed.

Lemma dedup_in y l : In y (dedup_str l) <-> In y l.
Proof.
  induction l as [|a l IH]; simpl; [tauto|].
  destruct (mem_str a l) eqn:E; simpl; rewrite IH.
  - apply mem_str_in in E. intuition congruence.
  - tauto.
Qed.

Lemma dedup_nodup l : NoDup (dedup_str l).
Proof.
  induction l as [|a l IH]; simpl; [constructor|].
  destruct (mem_str a l) eqn:E; [exact IH|]. constructor; [|exact IH].
  rewrite dedup_in. intro H. apply mem_str_in in H. congruence.
Qed.

Lemma label_names_ok : forall names,
  StronglySorted str_le (label_names names)
  /\ forall s, In s (label_names names) <-> (In s names /\ s <> []).
Proof.
  intro names. unfold label_names. split; [apply sort_sorted|].
  intro s. rewrite sort_in, filter_In, dedup_in. destruct s; simpl; intuition congruence.
Qed.

(* ---------- LookupSymbol: the direct-mapped symbol cache over lookup histories ---------- *)
Definition sc_ok (tbl : Z -> option str) (c : scache) : Prop :=
  forall slot idx s, sc_get c slot = Some (idx, s) -> tbl idx = Some s.

Lemma sc_ok_nil tbl : sc_ok tbl [].
Proof. intros slot idx s H. discriminate. Qed.

Lemma sc_ok_store tbl c slot o s : sc_ok tbl c -> tbl o = Some s -> sc_ok tbl ((slot, (o, s)) :: c).
Proof.
  intros Hc Ht slot' idx s' H. simpl in H. destruct (slot =? slot')%Z.
  - inversion H; subst. exact Ht.
  - eapply Hc; eauto.
Qed.

Lemma lookup_symbol_ok tbl names c o : sc_ok tbl c ->
  fst (lookup_symbol tbl names c o) = tbl o /\ sc_ok tbl (snd (lookup_symbol tbl names c o)).
Proof.
  intro Hc. unfold lookup_symbol.
  destruct (existsb (Z.eqb o) names); [split; [reflexivity|exact Hc]|].
  assert (Hmiss : fst (match tbl o with
                       | Some s' => (Some s', (Z.rem o sym_cache_size, (o, s')) :: c)
                       | None => (None, c)
                       end) = tbl o
                  /\ sc_ok tbl (snd (match tbl o with
                       | Some s' => (Some s', (Z.rem o sym_cache_size, (o, s')) :: c)
                       | None => (None, c)
                       end))).
  { destruct (tbl o) as [s'|] eqn:E; simpl; [|split; [reflexivity|exact Hc]].
    split; [reflexivity|]. apply sc_ok_store; assumption. }
  destruct (sc_get c (Z.rem o sym_cache_size)) as [[idx [|x s]]|] eqn:Eg; try exact Hmiss.
  destruct (idx =? o)%Z eqn:Ei; [|exact Hmiss].
  apply Z.eqb_eq in Ei. subst idx. simpl. split; [|exact Hc]. symmetry. eapply Hc; eauto.
Qed.

Lemma lookup_history_ok tbl names : forall h c, sc_ok tbl c -> run_lookups tbl names c h = map tbl h.
Proof.
  induction h as [|o h IH]; intros c Hc; [reflexivity|].
  cbn [run_lookups map]. destruct (lookup_symbol_ok tbl names c o Hc) as (H1 & H2).
  destruct (lookup_symbol tbl names c o) as [a c']. cbn [fst snd] in *. rewrite H1, (IH c' H2). reflexivity.
Qed.

(* without the index test a colliding reference gets another symbol's string *)
Lemma lookup_history_noidx_refuted :
  exists tbl h, run_lookups_noidx tbl [] [] h <> map tbl h.
Proof.
  exists (fun o => if (o =? 5)%Z then Some [97%N] else if (o =? 1029)%Z then Some [98%N] else None), [5%Z; 1029%Z].
  vm_compute. intro H. discriminate H.
Qed.

(* tie T: the hit test in the source is the one modelled *)
Lemma lookup_symbol_cond_checked : lookup_symbol_cond_ok = true.
Proof. reflexivity. Qed.
