(* C48 — lemmas about the model of the deletion modifier (Model/C48.v).
   Part 1: nothing outside the requested intervals is removed (no assumption on
   the order of intervals). *)
From Coq Require Import NArith ZArith List Bool Lia Sorted.
Import ListNotations.
From Verif Require Import Lib.Corr Lib.Misc_Cmp Gen.C48 Model.C48.
Open Scope Z_scope.

Lemma gtb_false a b : (a >? b) = false -> a <= b.
Proof. rewrite Z.gtb_ltb. intro H. apply Z.ltb_ge in H. exact H. Qed.

Lemma inb_iff i t : inb i t = true <-> fst i <= t <= snd i.
Proof. unfold inb. rewrite andb_true_iff, !Z.leb_le. tauto. Qed.

Lemma covered_iff ivs t : covered ivs t = true <-> exists i, In i ivs /\ fst i <= t <= snd i.
Proof.
  unfold covered. rewrite existsb_exists. split; intros [i [Hi H]]; exists i; (split; [exact Hi|]); apply inb_iff; exact H.
Qed.

Lemma covered_app a b t : covered (a ++ b) t = covered a t || covered b t.
Proof. unfold covered. apply existsb_app. Qed.

Lemma covered_cons i l t : covered (i :: l) t = inb i t || covered l t.
Proof. reflexivity. Qed.

(* ---- Intervals.Add never covers more than the union ---- *)

Lemma absorb_sound y : forall l hi0 hi rest,
  absorb y hi0 l = (hi, rest) ->
  (forall t, covered rest t = true -> covered l t = true)
  /\ (hi = hi0 \/ exists a, In (a, hi) l /\ a <= y + 1).
Proof.
  induction l as [|[a b] r IH]; intros hi0 hi rest H; simpl in H.
  - inversion H; subst. split; [auto | left; reflexivity].
  - destruct (a >? y + 1) eqn:E.
    + inversion H; subst. split; [auto | left; reflexivity].
    + apply IH in H as [H1 H2]. split.
      * intros t Ht. rewrite covered_cons. rewrite (H1 t Ht). apply orb_true_r.
      * right. destruct H2 as [H2|[a' [Hin Ha']]].
        -- subst hi. exists a. split; [left; reflexivity|]. apply gtb_false in E. lia.
        -- exists a'. split; [right; exact Hin | exact Ha'].
Qed.

Lemma add_go_sound x y : forall l t,
  covered (add_go x y l) t = true -> (x <= t <= y) \/ covered l t = true.
Proof.
  induction l as [|[a b] r IH]; intros t H; simpl in H.
  - rewrite orb_false_r in H. apply inb_iff in H. left. exact H.
  - destruct (b <? x - 1) eqn:E1.
    + rewrite covered_cons in H. apply orb_true_iff in H as [H|H].
      * right. rewrite covered_cons, H. reflexivity.
      * apply IH in H as [H|H]; [left; exact H | right; rewrite covered_cons, H; apply orb_true_r].
    + destruct (a >? y + 1) eqn:E2.
      * rewrite covered_cons in H. apply orb_true_iff in H as [H|H]; [left; apply inb_iff in H; exact H | right; exact H].
      * destruct (absorb y b r) as [hi rest] eqn:Ea.
        apply absorb_sound in Ea as [Hrest Hhi].
        rewrite covered_cons in H. apply orb_true_iff in H as [H|H].
        -- apply inb_iff in H. simpl in H.
           apply Z.ltb_ge in E1. apply gtb_false in E2.
           destruct (Z_lt_le_dec t x) as [Hlt|Hge].
           ++ right. rewrite covered_cons. assert (Hin : inb (a, b) t = true) by (apply inb_iff; simpl; lia).
              rewrite Hin. reflexivity.
           ++ destruct (Z_le_gt_dec t y) as [Hle|Hgt]; [left; lia|].
              right. destruct Hhi as [Hhi|[a' [Hin Ha']]].
              ** subst hi. rewrite covered_cons. assert (Hin : inb (a, b) t = true) by (apply inb_iff; simpl; lia).
                 rewrite Hin. reflexivity.
              ** rewrite covered_cons. assert (Hc : covered r t = true).
                 { apply covered_iff. exists (a', hi). split; [exact Hin | simpl; lia]. }
                 rewrite Hc. apply orb_true_r.
        -- right. rewrite covered_cons, (Hrest t H). apply orb_true_r.
Qed.

Lemma fold_add_sound ivs : forall acc t,
  covered (fold_left (fun a i => add_iv i a) ivs acc) t = true ->
  covered ivs t = true \/ covered acc t = true.
Proof.
  induction ivs as [|i ivs IH]; intros acc t H; simpl in H; [right; exact H|].
  apply IH in H as [H|H].
  - left. rewrite covered_cons, H. apply orb_true_r.
  - unfold add_iv in H. apply add_go_sound in H as [H|H]; [|right; exact H].
    left. rewrite covered_cons. assert (Hin : inb i t = true) by (apply inb_iff; exact H). rewrite Hin. reflexivity.
Qed.

Lemma buf_sound mn mx ivs t :
  covered (buf_intervals mn mx ivs) t = true -> covered ivs t = true.
Proof.
  unfold buf_intervals.
  assert (G : forall acc, covered (fold_left (fun a i => if overlaps mn mx i then add_iv i a else a) ivs acc) t = true ->
                          covered ivs t = true \/ covered acc t = true).
  { induction ivs as [|i ivs IH]; intros acc H; simpl in H; [right; exact H|].
    apply IH in H as [H|H].
    - left. rewrite covered_cons, H. apply orb_true_r.
    - destruct (overlaps mn mx i); [|right; exact H].
      unfold add_iv in H. apply add_go_sound in H as [H|H]; [|right; exact H].
      left. rewrite covered_cons. assert (Hin : inb i t = true) by (apply inb_iff; exact H). rewrite Hin. reflexivity. }
  intro H. apply G in H as [H|H]; [exact H | discriminate].
Qed.

(* ---- the request loop ---- *)
Section R.
  Variable re : str -> str -> bool.

  Lemma del_loop_none reqs ls : forall acc,
    del_loop re reqs ls acc = None <-> whole_deleted re reqs ls = true.
  Proof.
    unfold whole_deleted, applying.
    induction reqs as [|[ms ivs] reqs IH]; intros acc; simpl.
    - split; discriminate.
    - destruct (req_applies re ms ls) eqn:E; simpl.
      + destruct ivs as [|i ivs]; simpl.
        * split; reflexivity.
        * apply IH.
      + apply IH.
  Qed.

  Lemma del_loop_sound reqs ls : forall acc ivs t,
    del_loop re reqs ls acc = Some ivs -> covered ivs t = true ->
    covered acc t = true \/ covered (spec_intervals re reqs ls) t = true.
  Proof.
    unfold spec_intervals, applying.
    induction reqs as [|[ms ivs0] reqs IH]; intros acc ivs t H Hc; simpl in H.
    - inversion H; subst. left. exact Hc.
    - simpl. destruct (req_applies re ms ls) eqn:E; simpl.
      + destruct ivs0 as [|i0 ivs0]; [discriminate|].
        destruct (IH _ _ _ H Hc) as [H1|H1].
        * apply fold_add_sound in H1 as [H1|H1]; [|left; exact H1].
          right. rewrite covered_app, H1. reflexivity.
        * right. rewrite covered_app, H1. apply orb_true_r.
      + apply (IH _ _ _ H Hc).
  Qed.
End R.

(* ---- chunks ---- *)

Definition chunk_ok (c : chunk) : Prop :=
  c <> [] /\ StronglySorted (fun a b : sample => fst a < fst b) c.

Lemma cmax_cons s c : c <> [] -> cmax (s :: c) = cmax c.
Proof. unfold cmax. intro H. destruct c; [congruence | reflexivity]. Qed.

Lemma chunk_bounds c : chunk_ok c -> forall s, In s c -> cmin c <= fst s <= cmax c.
Proof.
  intros [Hne Hs]. induction Hs as [|a c Hs IH Hall]; [congruence|].
  intros s Hin. rewrite Forall_forall in Hall. simpl cmin.
  destruct c as [|b c].
  - destruct Hin as [Hin|[]]. subst. unfold cmax. simpl. lia.
  - rewrite cmax_cons by discriminate.
    assert (IH' := IH ltac:(discriminate)).
    destruct Hin as [Hin|Hin].
    + subst s. specialize (Hall b (or_introl eq_refl)). specialize (IH' b (or_introl eq_refl)). simpl in IH'. lia.
    + specialize (IH' s Hin). specialize (Hall s Hin). lia.
Qed.

Lemma di_sample_keep ivs ts : forall keep ivs',
  di_sample ivs ts = (keep, ivs') -> keep = false -> covered ivs ts = true.
Proof.
  induction ivs as [|tr rest IH]; intros keep ivs' H Hk; simpl in H.
  - inversion H; subst. discriminate.
  - rewrite covered_cons. destruct (inb tr ts) eqn:E; [reflexivity|].
    destruct (ts <=? snd tr); [inversion H; subst; discriminate|].
    simpl. eapply IH; eauto.
Qed.

Lemma di_sample_suffix ivs ts : forall keep ivs' t,
  di_sample ivs ts = (keep, ivs') -> covered ivs' t = true -> covered ivs t = true.
Proof.
  induction ivs as [|tr rest IH]; intros keep ivs' t H Hc; simpl in H.
  - inversion H; subst. exact Hc.
  - destruct (inb tr ts); [inversion H; subst; exact Hc|].
    destruct (ts <=? snd tr); [inversion H; subst; exact Hc|].
    rewrite covered_cons. rewrite (IH _ _ _ H Hc). apply orb_true_r.
Qed.

Lemma di_sound c : forall ivs,
  (forall s, In s (di ivs c) -> In s c)
  /\ (forall s, In s c -> In s (di ivs c) \/ covered ivs (fst s) = true).
Proof.
  induction c as [|s0 c IH]; intros ivs; simpl; [split; [auto | intros s []]|].
  destruct (di_sample ivs (fst s0)) as [keep ivs'] eqn:E.
  destruct (IH ivs') as [IH1 IH2]. split.
  - intros s Hs. destruct keep; [destruct Hs as [Hs|Hs]; [left; exact Hs | right; apply IH1; exact Hs] | right; apply IH1; exact Hs].
  - intros s [Hs|Hs].
    + subst s0. destruct keep; [left; left; reflexivity|].
      right. eapply di_sample_keep; eauto.
    + destruct (IH2 s Hs) as [H|H].
      * left. destruct keep; [right; exact H | exact H].
      * right. eapply di_sample_suffix; eauto.
Qed.

Lemma is_subrange_covers mn mx ivs t :
  is_subrange mn mx ivs = true -> mn <= t <= mx -> covered ivs t = true.
Proof.
  unfold is_subrange. rewrite existsb_exists. intros [r [Hr H]] Ht.
  apply andb_true_iff in H as [H1 H2]. apply inb_iff in H1, H2.
  apply covered_iff. exists r. split; [exact Hr | lia].
Qed.

(* one chunk: what comes out is part of the chunk; what does not come out is covered *)
Lemma chunk_step_sound ivs c :
  chunk_ok c ->
  (forall o, chunk_step ivs c = Out o -> forall s, In s (snd o) -> In s c)
  /\ (forall s, In s c ->
        (exists o, chunk_step ivs c = Out o /\ In s (snd o)) \/ covered ivs (fst s) = true).
Proof.
  intro Hok. unfold chunk_step.
  destruct (is_subrange (cmin c) (cmax c) ivs) eqn:Es.
  - split; [discriminate|]. intros s Hs. right.
    eapply is_subrange_covers; [exact Es | apply chunk_bounds; assumption].
  - destruct (buf_intervals (cmin c) (cmax c) ivs) as [|b0 buf] eqn:Eb.
    + split.
      * intros o H. inversion H; subst. simpl. auto.
      * intros s Hs. left. eexists. split; [reflexivity | exact Hs].
    + destruct (di_sound c (b0 :: buf)) as [D1 D2].
      destruct (di (b0 :: buf) c) as [|s1 r1] eqn:Ed.
      * split; [discriminate|]. intros s Hs. right.
        destruct (D2 s Hs) as [[]|H]. rewrite <- Eb in H. eapply buf_sound; eauto.
      * split.
        -- intros o H. inversion H; subst. simpl. exact D1.
        -- intros s Hs. destruct (D2 s Hs) as [H|H].
           ++ left. eexists. split; [reflexivity | exact H].
           ++ right. rewrite <- Eb in H. eapply buf_sound; eauto.
Qed.

Lemma series_chunks_sound ivs cs :
  Forall chunk_ok cs ->
  (forall s, In s (concat (map snd (series_chunks ivs cs))) -> In s (concat cs))
  /\ (forall s, In s (concat cs) ->
        In s (concat (map snd (series_chunks ivs cs))) \/ covered ivs (fst s) = true).
Proof.
  induction 1 as [|c cs Hc Hcs IH]; simpl; [split; [auto | intros s []]|].
  destruct IH as [IH1 IH2]. destruct (chunk_step_sound ivs c Hc) as [S1 S2]. split.
  - intros s Hs. apply in_or_app.
    destruct (chunk_step ivs c) as [| |o] eqn:E; try (right; apply IH1; exact Hs).
    simpl in Hs. apply in_app_or in Hs as [Hs|Hs]; [left; eapply S1; eauto | right; apply IH1; exact Hs].
  - intros s Hs. apply in_app_or in Hs as [Hs|Hs].
    + destruct (S2 s Hs) as [[o [Eo Hin]]|H]; [|right; exact H].
      left. rewrite Eo. simpl. apply in_or_app. left. exact Hin.
    + destruct (IH2 s Hs) as [H|H]; [|right; exact H].
      left. destruct (chunk_step ivs c); try exact H. simpl. apply in_or_app. right. exact H.
Qed.

Definition series_ok (s : series) : Prop := Forall chunk_ok (snd s).

(* ---- the whole rewrite ---- *)
Section W.
  Variable re : str -> str -> bool.

  Lemma rewrite_in reqs ss ls ocs :
    In (ls, ocs) (rewrite re reqs ss) ->
    exists s ivs, In s ss /\ fst s = ls /\ del_loop re reqs ls [] = Some ivs
                  /\ ocs = series_chunks ivs (snd s) /\ whole_deleted re reqs ls = false.
  Proof.
    unfold rewrite, rewrite_with. intro H. apply in_flat_map in H as [s [Hs H]].
    destruct (del_loop re reqs (fst s) []) as [ivs|] eqn:E; [|destruct H].
    destruct H as [H|[]]. inversion H; subst.
    exists s, ivs. repeat split; auto.
    destruct (whole_deleted re reqs (fst s)) eqn:W; [|reflexivity].
    apply (del_loop_none re reqs (fst s) []) in W. congruence.
  Qed.

  Lemma rewrite_keeps reqs ss s :
    In s ss -> whole_deleted re reqs (fst s) = false ->
    exists ivs, del_loop re reqs (fst s) [] = Some ivs
                /\ In (fst s, series_chunks ivs (snd s)) (rewrite re reqs ss).
  Proof.
    intros Hs W. destruct (del_loop re reqs (fst s) []) as [ivs|] eqn:E.
    - exists ivs. split; [reflexivity|]. unfold rewrite, rewrite_with. apply in_flat_map.
      exists s. split; [exact Hs|]. rewrite E. left. reflexivity.
    - apply del_loop_none in E. congruence.
  Qed.

  (* never removes a sample outside the requested intervals or from a series
     the selectors do not match *)
  Lemma keeps_outside reqs ss s :
    In s ss -> series_ok s -> whole_deleted re reqs (fst s) = false ->
    exists ocs, In (fst s, ocs) (rewrite re reqs ss)
      /\ (forall sm, In sm (concat (map snd ocs)) -> In sm (concat (snd s)))
      /\ (forall sm, In sm (concat (snd s)) ->
            covered (spec_intervals re reqs (fst s)) (fst sm) = false ->
            In sm (concat (map snd ocs))).
  Proof.
    intros Hs Hok W. destruct (rewrite_keeps reqs ss s Hs W) as [ivs [E Hin]].
    exists (series_chunks ivs (snd s)). split; [exact Hin|].
    destruct (series_chunks_sound ivs (snd s) Hok) as [S1 S2]. split; [exact S1|].
    intros sm Hsm Hnc. destruct (S2 sm Hsm) as [H|H]; [exact H|].
    destruct (del_loop_sound re reqs (fst s) [] ivs (fst sm) E H) as [H'|H']; [discriminate | congruence].
  Qed.
End W.

(* ---- before the repair: a chunk emptied by two intervals ends the series ---- *)
Definition w_reqs : list request := [([Matcher 0 [97%N] [120%N]], [(10, 10); (20, 20)])].
Definition w_series : list series := [([([97%N], [120%N])], [[(10, 1); (20, 2)]; [(30, 3); (40, 4)]])].

Lemma unfixed_loses_samples :
  rewrite_unfixed (fun _ _ => false) w_reqs w_series = [([([97%N], [120%N])], [])]
  /\ covered (spec_intervals (fun _ _ => false) w_reqs [([97%N], [120%N])]) 30 = false
  /\ rewrite (fun _ _ => false) w_reqs w_series = [([([97%N], [120%N])], [(30, 40, [(30, 3); (40, 4)])])].
Proof. vm_compute. repeat split; reflexivity. Qed.

(* ---- tie T: the emptied-chunk branch of delChunkSeriesIterator.Next ---- *)
From Coq Require Import String.

(* events strictly inside the `if p.currDelIter.Next() == chunkenc.ValNone { ... }` block *)
Fixpoint block_after (evs : list (string * string)) (depth : nat) : list (string * string) :=
  match evs with
  | [] => []
  | (k, t) :: r =>
    if String.eqb k "if" then (k, t) :: block_after r (S depth)
    else if String.eqb k "endif" then
      match depth with O => [] | S d => (k, t) :: block_after r d end
    else (k, t) :: block_after r depth
  end.

Fixpoint emptied_block (evs : list (string * string)) : list (string * string) :=
  match evs with
  | [] => []
  | (k, t) :: r =>
    if String.eqb k "if" && String.eqb t "p.currDelIter.Next() == chunkenc.ValNone"
    then block_after r 0 else emptied_block r
  end.

(* the block ends by moving on to the next chunk (`return p.Next()`); its only
   `return false` is the one guarded by the iterator's error *)
Definition emptied_branch_ok : bool :=
  match rev (emptied_block chunkNext_events) with
  | (k, t) :: _ => String.eqb k "return" && String.eqb t "p.Next()"
  | [] => false
  end
  && (List.length (filter (fun e => String.eqb (fst e) "return" && String.eqb (snd e) "false")
                          (emptied_block chunkNext_events)) =? 1)%nat.

Lemma emptied_branch : emptied_branch_ok = true.
Proof. vm_compute. reflexivity. Qed.
