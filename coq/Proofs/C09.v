(* C09 — lemmas for Limiter and limitedServer. *)
From Coq Require Import String.
From Coq Require Import ZArith NArith List Bool Lia.
Import ListNotations.
From Verif Require Import Lib.Corr Gen.C09 Model.C09.
Open Scope N_scope.

Lemma two64_pos : 0 < two64. Proof. reflexivity. Qed.

Lemma reserve_nowrap l n : lim l <> 0 -> reserved l + n < two64 ->
  reserve l n = (reserved l + n <=? lim l, mkL (lim l) (reserved l + n)).
Proof.
  intros Hl Hw. unfold reserve. assert (E : lim l =? 0 = false) by (apply N.eqb_neq; exact Hl). rewrite E.
  rewrite N.mod_small by exact Hw. reflexivity.
Qed.

Lemma reserve_unlimited l n : lim l = 0 -> reserve l n = (true, l).
Proof. intro H. unfold reserve. rewrite H. reflexivity. Qed.

(* ---- a sequence of Reserve calls -------------------------------------------------- *)

Fixpoint oks_spec (limit acc : N) (nums : list N) : list bool :=
  match nums with
  | [] => []
  | n :: r => (acc + n <=? limit) :: oks_spec limit (acc + n) r
  end.

Lemma reserves_spec limit : limit <> 0 -> forall nums acc, acc + sum_n nums < two64 ->
  reserves (mkL limit acc) nums = oks_spec limit acc nums.
Proof.
  intro Hl. induction nums as [|n r IH]; intros acc Hw; cbn [reserves oks_spec sum_n] in *; [reflexivity|].
  rewrite reserve_nowrap by (cbn [lim reserved]; lia). cbn [lim reserved]. f_equal. apply IH. lia.
Qed.

Lemma limiter_pred_spec limit : forall nums acc, limiter_pred limit acc nums (oks_spec limit acc nums) = true.
Proof.
  induction nums as [|n r IH]; intro acc; cbn [limiter_pred oks_spec]; [reflexivity|].
  rewrite eqb_reflx, IH. reflexivity.
Qed.

(* all calls succeeded => the total is within the limit *)
Lemma oks_all_true limit : forall nums acc, acc <= limit ->
  forallb (fun b => b) (oks_spec limit acc nums) = true -> acc + sum_n nums <= limit.
Proof.
  induction nums as [|n r IH]; intros acc Ha H; cbn [oks_spec forallb sum_n] in *; [lia|].
  apply andb_true_iff in H as [H1 H2]. apply N.leb_le in H1. specialize (IH (acc + n) H1 H2). lia.
Qed.

(* the total is within the limit => every call succeeded *)
Lemma oks_within limit : forall nums acc, acc + sum_n nums <= limit ->
  forallb (fun b => b) (oks_spec limit acc nums) = true.
Proof.
  induction nums as [|n r IH]; intros acc H; cbn [oks_spec forallb sum_n] in *; [reflexivity|].
  apply andb_true_iff. split; [apply N.leb_le; lia|apply IH; lia].
Qed.

(* failure is sticky *)
Lemma oks_sticky limit : forall nums acc, limit < acc -> Forall (fun b => b = false) (oks_spec limit acc nums).
Proof.
  induction nums as [|n r IH]; intros acc H; cbn [oks_spec]; constructor.
  - apply N.leb_gt. lia.
  - apply IH. lia.
Qed.

Lemma oks_after_failure limit : forall nums acc l1 l2,
  oks_spec limit acc nums = l1 ++ false :: l2 -> Forall (fun b => b = false) l2.
Proof.
  induction nums as [|n r IH]; intros acc l1 l2 H; cbn [oks_spec] in H.
  - destruct l1; discriminate.
  - destruct l1 as [|b l1]; cbn in H.
    + injection H as H1 H2. subst l2. apply N.leb_gt in H1. apply oks_sticky. exact H1.
    + injection H as _ H2. apply (IH _ _ _ H2).
Qed.

Lemma oks_length limit : forall nums acc, length (oks_spec limit acc nums) = length nums.
Proof. induction nums as [|n r IH]; intro acc; cbn [oks_spec length]; [reflexivity|]. f_equal. apply IH. Qed.

Lemma limiter_sound limit nums : limit <> 0 -> sum_n nums < two64 ->
  let oks := reserves (new_limiter limit) nums in
  length oks = length nums /\
  (forallb (fun b => b) oks = true <-> sum_n nums <= limit) /\
  (forall l1 l2, oks = l1 ++ false :: l2 -> Forall (fun b => b = false) l2) /\
  limiter_pred limit 0 nums oks = true.
Proof.
  intros Hl Hw. cbn zeta. unfold new_limiter. rewrite (reserves_spec limit Hl nums 0) by lia.
  split; [|split; [|split]].
  - apply oks_length.
  - split; intro H.
    + apply (oks_all_true limit nums 0) in H; lia.
    + apply oks_within. lia.
  - intros l1 l2 H. apply (oks_after_failure limit nums 0 l1 l2 H).
  - apply limiter_pred_spec.
Qed.

Lemma limiter_unlimited nums : forall l, lim l = 0 -> reserves l nums = map (fun _ => true) nums.
Proof.
  induction nums as [|n r IH]; intros l H; cbn [reserves map]; [reflexivity|].
  rewrite reserve_unlimited by exact H. f_equal. apply IH. exact H.
Qed.

Lemma limiter_case_pred limit nums : pred_ok (CLimiter limit nums (reserves (new_limiter limit) nums)) = true.
Proof.
  cbn [pred_ok]. destruct (limit =? 0) eqn:E.
  - apply N.eqb_eq in E. subst. rewrite limiter_unlimited by reflexivity.
    rewrite map_length, Nat.eqb_refl, andb_true_r. induction nums; cbn; auto.
  - apply N.eqb_neq in E. destruct (sum_n nums <? two64) eqn:W; [|reflexivity]. apply N.ltb_lt in W.
    apply (limiter_sound limit nums E W).
Qed.

(* ---- limitedServer over a stream of responses ------------------------------------------ *)

Definition tot_s (rs : list resp) : N := fst (totals rs).
Definition tot_c (rs : list resp) : N := snd (totals rs).

Definition r_s (r : resp) : N := match counts r with Some (s, _) => s | None => 0 end.
Definition r_c (r : resp) : N := match counts r with Some (_, c) => c | None => 0 end.

Lemma totals_cons r rest : totals (r :: rest) = (tot_s rest + r_s r, tot_c rest + r_c r).
Proof.
  cbn [totals]. unfold tot_s, tot_c, r_s, r_c. destruct (totals rest) as [s c]. cbn [fst snd].
  destruct (counts r) as [[s1 c1]|]; [reflexivity|]. rewrite !N.add_0_r. reflexivity.
Qed.

Lemma tot_s_cons r rest : tot_s (r :: rest) = tot_s rest + r_s r.
Proof. unfold tot_s at 1. rewrite totals_cons. reflexivity. Qed.
Lemma tot_c_cons r rest : tot_c (r :: rest) = tot_c rest + r_c r.
Proof. unfold tot_c at 1. rewrite totals_cons. reflexivity. Qed.

(* within the limit, counting what was reserved before *)
Definition within_acc (limit acc tot : N) : bool := (limit =? 0) || (acc + tot <=? limit).

Definition spc := samples_per_chunk.

Lemma stream_spec sl cl : forall rs sa ca,
  sa + tot_s rs < two64 -> ca + tot_c rs * spc < two64 ->
  within_acc sl sa 0 = true -> within_acc cl ca 0 = true ->
  let n := fst (stream (mkL sl sa) (mkL cl ca) rs) in
  let fin := snd (stream (mkL sl sa) (mkL cl ca) rs) in
  let pre := firstn (N.to_nat n) rs in
  within_acc sl sa (tot_s pre) = true /\ within_acc cl ca (tot_c pre * spc) = true /\
  fin = within_acc sl sa (tot_s rs) && within_acc cl ca (tot_c rs * spc) /\
  (fin = true -> n = N.of_nat (length rs)).
Proof.
  induction rs as [|r rest IH]; intros sa ca Ws Wc Is Ic; cbn zeta.
  - cbn [stream fst snd firstn length]. change (tot_s []) with 0. change (tot_c []) with 0.
    rewrite N.mul_0_l, Is, Ic. auto.
  - rewrite tot_s_cons in Ws. rewrite tot_c_cons in Wc.
    cbn [stream]. unfold send.
    destruct (counts r) as [[s1 c1]|] eqn:Ec.
    2:{ (* passed through *)
      assert (Rs : r_s r = 0) by (unfold r_s; rewrite Ec; reflexivity).
      assert (Rc : r_c r = 0) by (unfold r_c; rewrite Ec; reflexivity).
      rewrite Rs, Rc, N.add_0_r in *.
      specialize (IH sa ca Ws Wc Is Ic). cbn zeta in IH.
      destruct (stream (mkL sl sa) (mkL cl ca) rest) as [n fin] eqn:Es. cbn [fst snd] in *.
      destruct IH as (I1 & I2 & I3 & I4).
      replace (N.to_nat (n + 1)) with (S (N.to_nat n)) by lia. cbn [firstn length].
      rewrite !tot_s_cons, !tot_c_cons, Rs, Rc, !N.add_0_r.
      repeat split; auto. intro Hf. rewrite (I4 Hf). lia. }
    assert (Rs : r_s r = s1) by (unfold r_s; rewrite Ec; reflexivity).
    assert (Rc : r_c r = c1) by (unfold r_c; rewrite Ec; reflexivity).
    rewrite Rs, Rc in *.
    assert (Hc1 : (c1 * samples_per_chunk) mod two64 = c1 * spc).
    { apply N.mod_small. unfold spc in *. nia. }
    rewrite Hc1. rewrite ?tot_s_cons, ?tot_c_cons, ?Rs, ?Rc.
    unfold within_acc in *.
    destruct (sl =? 0) eqn:Esl.
    + (* series unlimited *)
      rewrite (reserve_unlimited (mkL sl sa)) by (apply N.eqb_eq; exact Esl).
      destruct (cl =? 0) eqn:Ecl.
      * rewrite (reserve_unlimited (mkL cl ca)) by (apply N.eqb_eq; exact Ecl).
        specialize (IH sa ca). cbn zeta in IH. rewrite ?Esl, ?Ecl in IH. cbn [orb] in IH.
        destruct (stream (mkL sl sa) (mkL cl ca) rest) as [n fin] eqn:Es. cbn [fst snd] in *.
        destruct IH as (_ & _ & I3 & I4); try lia; auto.
        cbn [orb andb]. repeat split; auto. intro Hf. rewrite (I4 Hf). cbn [length]. lia.
      * rewrite (reserve_nowrap (mkL cl ca)) by (cbn [lim reserved]; first [apply N.eqb_neq; assumption | nia]).
        cbn [lim reserved orb] in *.
        destruct (ca + c1 * spc <=? cl) eqn:Ek.
        -- apply N.leb_le in Ek.
           specialize (IH sa (ca + c1 * spc)). cbn zeta in IH. rewrite ?Esl, ?Ecl in IH. cbn [orb] in IH.
           destruct (stream (mkL sl sa) (mkL cl (ca + c1 * spc)) rest) as [n fin] eqn:Es. cbn [fst snd] in *.
           destruct IH as (_ & I2 & I3 & I4); try (nia); auto.
           { apply N.leb_le. lia. }
           replace (N.to_nat (n + 1)) with (S (N.to_nat n)) by lia. cbn [firstn length].
           rewrite !tot_c_cons, Rc.
           repeat split; auto.
           ++ apply N.leb_le. apply N.leb_le in I2. nia.
           ++ rewrite I3. cbn [andb]. apply eq_true_iff_eq. rewrite !N.leb_le. nia.
           ++ intro Hf. rewrite (I4 Hf). lia.
        -- apply N.leb_gt in Ek. cbn [fst snd firstn]. change (N.to_nat 0) with 0%nat. cbn [firstn].
           change (tot_c []) with 0. rewrite N.mul_0_l.
           repeat split; auto; try discriminate.
           cbn [andb]. symmetry. apply N.leb_gt. nia.
    + (* series limited *)
      rewrite (reserve_nowrap (mkL sl sa)) by (cbn [lim reserved]; first [apply N.eqb_neq; assumption | lia]).
      cbn [lim reserved orb] in *.
      destruct (sa + s1 <=? sl) eqn:Eks.
      2:{ apply N.leb_gt in Eks. cbn [fst snd firstn]. change (N.to_nat 0) with 0%nat. cbn [firstn].
          change (tot_s []) with 0. change (tot_c []) with 0. rewrite N.mul_0_l.
          repeat split; auto; try discriminate.
          assert (E : sa + (tot_s rest + s1) <=? sl = false) by (apply N.leb_gt; lia). rewrite E. reflexivity. }
      apply N.leb_le in Eks.
      destruct (cl =? 0) eqn:Ecl.
      * rewrite (reserve_unlimited (mkL cl ca)) by (apply N.eqb_eq; exact Ecl).
        specialize (IH (sa + s1) ca). cbn zeta in IH. rewrite ?Esl, ?Ecl in IH. cbn [orb] in IH.
        destruct (stream (mkL sl (sa + s1)) (mkL cl ca) rest) as [n fin] eqn:Es. cbn [fst snd] in *.
        destruct IH as (I1 & _ & I3 & I4); try lia; auto.
        { apply N.leb_le. lia. }
        replace (N.to_nat (n + 1)) with (S (N.to_nat n)) by lia. cbn [firstn length].
        rewrite !tot_s_cons, Rs. cbn [orb].
        repeat split; auto.
        -- apply N.leb_le. apply N.leb_le in I1. lia.
        -- rewrite I3, !andb_true_r. apply eq_true_iff_eq. rewrite !N.leb_le. lia.
        -- intro Hf. rewrite (I4 Hf). lia.
      * rewrite (reserve_nowrap (mkL cl ca)) by (cbn [lim reserved]; first [apply N.eqb_neq; assumption | nia]).
        cbn [lim reserved orb] in *.
        destruct (ca + c1 * spc <=? cl) eqn:Ek.
        -- apply N.leb_le in Ek.
           specialize (IH (sa + s1) (ca + c1 * spc)). cbn zeta in IH. rewrite ?Esl, ?Ecl in IH. cbn [orb] in IH.
           destruct (stream (mkL sl (sa + s1)) (mkL cl (ca + c1 * spc)) rest) as [n fin] eqn:Es. cbn [fst snd] in *.
           destruct IH as (I1 & I2 & I3 & I4); try (nia); auto.
           { apply N.leb_le. lia. } { apply N.leb_le. lia. }
           replace (N.to_nat (n + 1)) with (S (N.to_nat n)) by lia. cbn [firstn length].
           rewrite !tot_s_cons, !tot_c_cons, Rs, Rc.
           repeat split; auto.
           ++ apply N.leb_le. apply N.leb_le in I1. lia.
           ++ apply N.leb_le. apply N.leb_le in I2. nia.
           ++ rewrite I3. apply eq_true_iff_eq. rewrite !andb_true_iff, !N.leb_le. nia.
           ++ intro Hf. rewrite (I4 Hf). lia.
        -- apply N.leb_gt in Ek. cbn [fst snd firstn]. change (N.to_nat 0) with 0%nat. cbn [firstn].
           change (tot_s []) with 0. change (tot_c []) with 0. rewrite N.mul_0_l.
           repeat split; auto; try discriminate.
           assert (E : ca + (tot_c rest + c1) * spc <=? cl = false) by (apply N.leb_gt; nia).
           rewrite E, andb_false_r. reflexivity.
Qed.

Lemma within_acc_0 limit tot : within_acc limit 0 tot = within limit tot.
Proof. unfold within_acc, within. rewrite N.add_0_l. reflexivity. Qed.

Lemma totals_pair rs : totals rs = (tot_s rs, tot_c rs).
Proof. unfold tot_s, tot_c. destruct (totals rs); reflexivity. Qed.

(* What reaches the client respects both limits; Series returns nil exactly when the
   totals are within the limits, and then nothing was dropped. *)
Lemma server_sound sl cl rs : tot_s rs < two64 -> tot_c rs * samples_per_chunk < two64 ->
  let n := fst (stream (new_limiter sl) (new_limiter cl) rs) in
  let fin := snd (stream (new_limiter sl) (new_limiter cl) rs) in
  let pre := firstn (N.to_nat n) rs in
  within sl (tot_s pre) = true /\ within cl (tot_c pre * samples_per_chunk) = true /\
  fin = within sl (tot_s rs) && within cl (tot_c rs * samples_per_chunk) /\
  (fin = true -> n = N.of_nat (length rs)).
Proof.
  intros Ws Wc. unfold new_limiter.
  pose proof (stream_spec sl cl rs 0 0) as H. cbn zeta in H. rewrite !within_acc_0 in H.
  apply H; try (rewrite N.add_0_l; assumption).
  - unfold within. destruct (sl =? 0); cbn [orb]; [reflexivity|apply N.leb_le; lia].
  - unfold within. destruct (cl =? 0); cbn [orb]; [reflexivity|apply N.leb_le; lia].
Qed.

Lemma server_case_pred sl cl rs :
  pred_ok (CServer sl cl rs (fst (stream (new_limiter sl) (new_limiter cl) rs))
                            (snd (stream (new_limiter sl) (new_limiter cl) rs))) = true.
Proof.
  cbn [pred_ok]. rewrite totals_pair.
  destruct ((tot_c rs * samples_per_chunk <? two64) && (tot_s rs <? two64)) eqn:W; [|reflexivity].
  apply andb_true_iff in W as [W1 W2]. apply N.ltb_lt in W1, W2.
  destruct (server_sound sl cl rs W2 W1) as (A & B & C & D).
  rewrite totals_pair, A, B. cbn [andb]. rewrite <- C, eqb_reflx. cbn [andb].
  destruct (snd (stream (new_limiter sl) (new_limiter cl) rs)) eqn:F; [|reflexivity].
  rewrite (D eq_refl). apply N.eqb_refl.
Qed.

(* a request whose totals exceed a limit is refused, not shortened *)
Lemma server_no_silent_truncation sl cl rs : tot_s rs < two64 -> tot_c rs * samples_per_chunk < two64 ->
  (sl <> 0 /\ sl < tot_s rs) \/ (cl <> 0 /\ cl < tot_c rs * samples_per_chunk) ->
  snd (stream (new_limiter sl) (new_limiter cl) rs) = false.
Proof.
  intros Ws Wc H. destruct (server_sound sl cl rs Ws Wc) as (_ & _ & C & _). rewrite C. unfold within.
  destruct H as [[H1 H2]|[H1 H2]].
  - apply N.eqb_neq in H1. rewrite H1. cbn [orb]. assert (E : tot_s rs <=? sl = false) by (apply N.leb_gt; exact H2).
    rewrite E. reflexivity.
  - apply N.eqb_neq in H1. rewrite H1. cbn [orb].
    assert (E : tot_c rs * samples_per_chunk <=? cl = false) by (apply N.leb_gt; exact H2).
    rewrite E. apply andb_false_r.
Qed.

(* ---- tie T ------------------------------------------------------------------------------ *)

Lemma source_shape :
  MaxSamplesPerChunk = 120%Z /\
  reserveEvents =
    [("if", "l == nil"); ("return", "nil"); ("endif", ""); ("if", "l.limit == 0"); ("return", "nil"); ("endif", "");
     ("call", "l.reserved.Add"); ("if", "reserved > l.limit"); ("call", "l.failedOnce.Do"); ("call", "errors.Errorf");
     ("return", "errors.Errorf(""limit %v violated (got %v)"", l.limit, reserved)"); ("endif", ""); ("return", "nil")]%string /\
  (exists pre post, sendEvents = pre ++
     [("call", "i.seriesLimiter.Reserve"); ("if", "err != nil"); ("call", "errors.Wrapf");
      ("return", "errors.Wrapf(err, ""failed to send series"")"); ("endif", "");
      ("call", "i.samplesLimiter.Reserve"); ("if", "err != nil"); ("call", "errors.Wrapf");
      ("return", "errors.Wrapf(err, ""failed to send samples"")"); ("endif", "");
      ("call", "i.Store_SeriesServer.Send"); ("return", "i.Store_SeriesServer.Send(response)")]%string ++ post /\ post = []).
Proof.
  split; [reflexivity|]. split; [reflexivity|].
  eexists (firstn 18 sendEvents), []. split; [|reflexivity]. reflexivity.
Qed.

(* ---- reservation schedule of BucketStore.Series --------------------------------------------- *)

Lemma all_ok_within limit nums : sum_n nums < two64 ->
  forallb (fun b => b) (reserves (new_limiter limit) nums) = within limit (sum_n nums).
Proof.
  intro W. unfold within. destruct (limit =? 0) eqn:E.
  - apply N.eqb_eq in E. subst. rewrite limiter_unlimited by reflexivity. cbn [orb]. clear W.
    induction nums as [|x r IHr]; [reflexivity|]. cbn [map forallb andb]. exact IHr.
  - apply N.eqb_neq in E. cbn [orb]. destruct (limiter_sound limit nums E W) as (_ & H & _).
    apply eq_true_iff_eq. rewrite H, N.leb_le. reflexivity.
Qed.

Lemma within_mono limit a b : a <= b -> within limit b = true -> within limit a = true.
Proof.
  unfold within. intros L H. apply orb_true_iff in H as [H|H]; [rewrite H; reflexivity|].
  apply N.leb_le in H. apply orb_true_iff. right. apply N.leb_le. lia.
Qed.

Lemma sum_n_app l1 l2 : sum_n (l1 ++ l2) = sum_n l1 + sum_n l2.
Proof. induction l1 as [|x l1 IH]; cbn [app sum_n]; [reflexivity|]. rewrite IH. lia. Qed.

(* series of a batch that are sent: pass the lazy matchers and have a chunk in range *)
Definition wlist (es : list (bool * N)) : list N :=
  map snd (filter (fun e : bool * N => fst e && (0 <? snd e)) es).
Definition cnt (es : list (bool * N)) : N := N.of_nat (length (wlist es)).

Lemma wlist_app a b : wlist (a ++ b) = wlist a ++ wlist b.
Proof. unfold wlist. rewrite filter_app, map_app. reflexivity. Qed.

Lemma cnt_app a b : cnt (a ++ b) = cnt a + cnt b.
Proof. unfold cnt. rewrite wlist_app, app_length. lia. Qed.

Lemma cnt_le_len es : cnt es <= N.of_nat (length es).
Proof.
  unfold cnt, wlist. rewrite map_length.
  induction es as [|e es IH]; cbn [filter length]; [lia|]. destruct (fst e && (0 <? snd e)); cbn [length]; lia.
Qed.

Section Batch.
  Variable skip : bool.
  Variable reqlim : N.

  Definition b_m (r : N * list N * N * bool) : N := fst (fst (fst r)).
  Definition b_c (r : N * list N * N * bool) : list N := snd (fst (fst r)).
  Definition b_n (r : N * list N * N * bool) : N := snd (fst r).

  (* entries appended never exceed seriesMatched, nor the batch *)
  Lemma batch_go_le : forall es m, m + b_n (batch_go skip reqlim es m) <= b_m (batch_go skip reqlim es m)
    /\ b_n (batch_go skip reqlim es m) <= cnt es.
  Proof.
    unfold b_m, b_n.
    induction es as [|[lm k] r IH]; intro m; cbn [batch_go fst snd]; [cbn; lia|].
    unfold cnt, wlist. cbn [filter fst snd].
    destruct (negb lm || negb (0 <? k)) eqn:E.
    - assert (E' : lm && (0 <? k) = false) by (destruct lm, (0 <? k); cbn in *; congruence). rewrite E'.
      apply IH.
    - assert (E' : lm && (0 <? k) = true) by (destruct lm, (0 <? k); cbn in *; congruence). rewrite E'.
      cbn [map length].
      destruct ((0 <? reqlim) && (reqlim <? m + 1)); cbn [fst snd]; [lia|].
      specialize (IH (m + 1)). destruct (batch_go skip reqlim r (m + 1)) as [[[mf cr] ne] st]. cbn [fst snd] in *.
      unfold cnt, wlist in IH. lia.
  Qed.
End Batch.

Lemma batch_go_nolimit skip : forall es m,
  batch_go skip 0 es m = (m + cnt es, (if skip then [] else wlist es), cnt es, false).
Proof.
  induction es as [|[lm k] r IH]; intro m; cbn [batch_go].
  - unfold cnt, wlist. cbn. rewrite N.add_0_r. destruct skip; reflexivity.
  - unfold cnt, wlist in *. cbn [filter fst snd].
    destruct (negb lm || negb (0 <? k)) eqn:E.
    + assert (E' : lm && (0 <? k) = false) by (destruct lm, (0 <? k); cbn in *; congruence). rewrite E'. apply IH.
    + assert (E' : lm && (0 <? k) = true) by (destruct lm, (0 <? k); cbn in *; congruence). rewrite E'.
      cbn [andb N.ltb N.compare]. change (0 <? 0) with false. cbn [andb].
      rewrite IH. cbn [map length].
      set (n := length (map snd (filter (fun e : bool * N => fst e && (0 <? snd e)) r))).
      replace (m + 1 + N.of_nat n) with (m + N.of_nat (S n)) by lia.
      replace (N.of_nat n + 1) with (N.of_nat (S n)) by lia.
      destruct skip; reflexivity.
Qed.

Definition q_s (r : list N * list N * N) : list N := fst (fst r).
Definition q_c (r : list N * list N * N) : list N := snd (fst r).
Definition q_n (r : list N * list N * N) : N := snd r.

Lemma batches_go_le skip reqlim : forall lazy bs,
  q_n (batches_go lazy skip reqlim bs) <= cnt (concat bs) /\
  (lazy = true -> q_n (batches_go lazy skip reqlim bs) <= sum_n (q_s (batches_go lazy skip reqlim bs))) /\
  (lazy = false -> q_s (batches_go lazy skip reqlim bs) = []).
Proof.
  unfold q_n, q_s.
  induction bs as [|b r IH]; cbn [batches_go concat fst snd]; [cbn; repeat split; auto; lia|].
  pose proof (batch_go_le skip reqlim b 0) as [L1 L2]. unfold b_m, b_n in *.
  destruct (batch_go skip reqlim b 0) as [[[m cr] ne] st]. cbn [fst snd] in *.
  rewrite cnt_app.
  destruct st.
  - cbn [fst snd]. repeat split.
    + lia.
    + intros ->. cbn [sum_n]. lia.
    + intros ->. reflexivity.
  - destruct IH as (I1 & I2 & I3). destruct (batches_go lazy skip reqlim r) as [[s2 c2] n2]. cbn [fst snd] in *.
    repeat split.
    + lia.
    + intros ->. cbn [app sum_n]. specialize (I2 eq_refl). lia.
    + intros ->. cbn [app]. apply I3. reflexivity.
Qed.

Lemma batches_go_nolimit skip : forall lazy bs,
  q_n (batches_go lazy skip 0 bs) = cnt (concat bs) /\
  q_c (batches_go lazy skip 0 bs) = (if skip then [] else wlist (concat bs)) /\
  (lazy = true -> sum_n (q_s (batches_go lazy skip 0 bs)) = cnt (concat bs)).
Proof.
  unfold q_n, q_c, q_s.
  induction bs as [|b r IH]; cbn [batches_go concat fst snd].
  - unfold cnt, wlist. cbn. destruct skip; auto.
  - rewrite batch_go_nolimit. destruct IH as (I1 & I2 & I3).
    destruct (batches_go lazy skip 0 r) as [[s2 c2] n2]. cbn [fst snd] in *.
    rewrite cnt_app, wlist_app. repeat split.
    + lia.
    + rewrite I2. destruct skip; reflexivity.
    + intros ->. cbn [app sum_n]. rewrite (I3 eq_refl). lia.
Qed.

Lemma chunked_concat {A} : forall fuel bsz (l : list A), (1 <= bsz)%nat -> (length l <= fuel)%nat ->
  concat (chunked fuel bsz l) = l.
Proof.
  induction fuel as [|f IH]; intros bsz l Hb Hl; cbn [chunked].
  - destruct l; [reflexivity|cbn in Hl; lia].
  - destruct l as [|x l']; [reflexivity|]. cbn [concat]. rewrite IH.
    + apply firstn_skipn.
    + exact Hb.
    + rewrite skipn_length. cbn [length] in *. lia.
Qed.

Lemma min_ge1 bsz n : (1 <= bsz)%nat -> (1 <= n)%nat -> (1 <= Nat.min bsz n)%nat.
Proof. lia. Qed.

(* one block: what it sends is covered by what it reserves *)
Lemma block_run_le bsz skip reqlim b : (1 <= bsz)%nat ->
  q_n (block_run bsz skip reqlim b) <= sum_n (q_s (block_run bsz skip reqlim b)).
Proof.
  intro Hb. unfold block_run, q_n, q_s. destruct (b_entries b) as [|e es] eqn:E; [cbn; lia|].
  destruct (b_lazy b).
  - destruct (batches_go_le skip reqlim true (chunked (length (e :: es)) (Nat.min bsz (length (e :: es))) (e :: es))) as (_ & H & _).
    apply H. reflexivity.
  - set (es' := if (0 <? reqlim) && (reqlim <? N.of_nat (length (e :: es))) then firstn (N.to_nat reqlim) (e :: es) else e :: es).
    assert (Hne : (1 <= length es')%nat).
    { unfold es'. destruct ((0 <? reqlim) && (reqlim <? N.of_nat (length (e :: es)))) eqn:C; [|cbn; lia].
      apply andb_true_iff in C as [C1 C2]. apply N.ltb_lt in C1, C2. rewrite firstn_length. cbn [length] in *. lia. }
    destruct (batches_go_le skip reqlim false (chunked (length es') (Nat.min bsz (length es')) es')) as (H1 & _ & H3).
    unfold q_n, q_s in *.
    destruct (batches_go false skip reqlim (chunked (length es') (Nat.min bsz (length es')) es')) as [[s c] n]. cbn [fst snd] in *.
    rewrite (H3 eq_refl). cbn [sum_n].
    rewrite chunked_concat in H1 by (try apply min_ge1; lia).
    pose proof (cnt_le_len es'). lia.
Qed.

(* one block without a request Limit: everything wanted is sent, its chunks are what is reserved *)
Lemma block_run_nolimit bsz skip b : (1 <= bsz)%nat ->
  q_n (block_run bsz skip 0 b) = cnt (b_entries b) /\
  q_c (block_run bsz skip 0 b) = (if skip then [] else wlist (b_entries b)).
Proof.
  intro Hb. unfold block_run, q_n, q_c. destruct (b_entries b) as [|e es] eqn:E.
  - unfold cnt, wlist. cbn. destruct skip; auto.
  - destruct (b_lazy b).
    + destruct (batches_go_nolimit skip true (chunked (length (e :: es)) (Nat.min bsz (length (e :: es))) (e :: es))) as (H1 & H2 & _).
      unfold q_n, q_c in *. rewrite chunked_concat in H1, H2 by (try apply min_ge1; cbn [length]; lia). auto.
    + change (0 <? 0) with false. cbn [andb].
      destruct (batches_go_nolimit skip false (chunked (length (e :: es)) (Nat.min bsz (length (e :: es))) (e :: es))) as (H1 & H2 & _).
      unfold q_n, q_c in *. rewrite chunked_concat in H1, H2 by (try apply min_ge1; cbn [length]; lia).
      destruct (batches_go false skip 0 (chunked (length (e :: es)) (Nat.min bsz (length (e :: es))) (e :: es))) as [[s c] n].
      cbn [fst snd] in *. auto.
Qed.

Lemma request_run_le bsz skip reqlim : (1 <= bsz)%nat -> forall blocks,
  returned_series bsz skip reqlim blocks <= sum_n (series_reservations bsz skip reqlim blocks).
Proof.
  intro Hb. unfold returned_series, series_reservations.
  induction blocks as [|b r IH]; cbn [request_run fst snd]; [cbn; lia|].
  pose proof (block_run_le bsz skip reqlim b Hb) as L. unfold q_n, q_s in L.
  destruct (block_run bsz skip reqlim b) as [[s1 c1] n1]. destruct (request_run bsz skip reqlim r) as [[s2 c2] n2].
  cbn [fst snd] in *. rewrite sum_n_app. lia.
Qed.

Lemma wanted_wlist b : wanted b = wlist (b_entries b).
Proof. reflexivity. Qed.

Lemma request_run_nolimit bsz skip : (1 <= bsz)%nat -> forall blocks,
  returned_series bsz skip 0 blocks = true_series blocks /\
  sum_n (chunk_reservations bsz skip 0 blocks) = true_chunks skip blocks.
Proof.
  intro Hb. unfold returned_series, chunk_reservations, true_series, true_chunks.
  induction blocks as [|b r IH]; cbn [request_run fst snd map concat].
  - cbn. destruct skip; auto.
  - destruct (block_run_nolimit bsz skip b Hb) as [B1 B2]. unfold q_n, q_c in *.
    destruct (block_run bsz skip 0 b) as [[s1 c1] n1]. destruct (request_run bsz skip 0 r) as [[s2 c2] n2].
    cbn [fst snd] in *. destruct IH as [I1 I2]. rewrite app_length, wanted_wlist. unfold cnt in B1. split; [lia|].
    rewrite sum_n_app, I2, B2. destruct skip; [reflexivity|]. rewrite sum_n_app. reflexivity.
Qed.

Definition nowrap bsz skip reqlim blocks : Prop :=
  sum_n (series_reservations bsz skip reqlim blocks) < two64 /\ sum_n (chunk_reservations bsz skip reqlim blocks) < two64.

Lemma store_ok_spec sl cl bsz skip reqlim blocks : nowrap bsz skip reqlim blocks ->
  store_ok sl cl bsz skip reqlim blocks =
  within sl (sum_n (series_reservations bsz skip reqlim blocks)) && within cl (sum_n (chunk_reservations bsz skip reqlim blocks)).
Proof. intros [W1 W2]. unfold store_ok. rewrite !all_ok_within by assumption. reflexivity. Qed.

(* a request that succeeds sends at most the limits: returned <= reserved <= limit; eager and lazy
   postings, any request Limit, any batch size *)
Lemma store_bound sl cl bsz skip reqlim blocks : (1 <= bsz)%nat -> nowrap bsz skip reqlim blocks ->
  store_ok sl cl bsz skip reqlim blocks = true ->
  within sl (returned_series bsz skip reqlim blocks) = true /\
  within cl (sum_n (chunk_reservations bsz skip reqlim blocks)) = true.
Proof.
  intros Hb W H. rewrite (store_ok_spec _ _ _ _ _ _ W) in H. apply andb_true_iff in H as [H1 H2].
  split; [|exact H2]. apply (within_mono sl _ _ (request_run_le bsz skip reqlim Hb blocks) H1).
Qed.

(* without a request Limit: a request whose result exceeds a limit is refused, and a request that
   succeeds sends everything the blocks hold for it *)
Lemma store_no_silent_truncation sl cl bsz skip blocks : (1 <= bsz)%nat -> nowrap bsz skip 0 blocks ->
  returned_series bsz skip 0 blocks = true_series blocks /\
  sum_n (chunk_reservations bsz skip 0 blocks) = true_chunks skip blocks /\
  ((sl <> 0 /\ sl < true_series blocks) \/ (cl <> 0 /\ cl < true_chunks skip blocks) ->
   store_ok sl cl bsz skip 0 blocks = false).
Proof.
  intros Hb W. destruct (request_run_nolimit bsz skip Hb blocks) as [R1 R2]. split; [exact R1|]. split; [exact R2|].
  intro H. rewrite (store_ok_spec _ _ _ _ _ _ W). unfold within.
  pose proof (request_run_le bsz skip 0 Hb blocks) as L. rewrite R1 in L. rewrite R2.
  destruct H as [[H1 H2]|[H1 H2]].
  - apply N.eqb_neq in H1. rewrite H1. cbn [orb].
    assert (E : sum_n (series_reservations bsz skip 0 blocks) <=? sl = false) by (apply N.leb_gt; lia). rewrite E. reflexivity.
  - apply N.eqb_neq in H1. rewrite H1. cbn [orb].
    assert (E : true_chunks skip blocks <=? cl = false) by (apply N.leb_gt; lia). rewrite E. apply andb_false_r.
Qed.

Lemma store_case_pred sl cl bsz skip blocks sres cres tseries : (1 <= bsz)%nat -> nowrap bsz skip 0 blocks ->
  tseries <= true_series blocks ->
  pred_ok (CStore sl cl bsz skip 0 blocks (store_ok sl cl bsz skip 0 blocks) (negb (store_ok sl cl bsz skip 0 blocks)) sres cres
                  tseries (true_chunks skip blocks) tseries (true_chunks skip blocks)) = true.
Proof.
  intros Hb W T. cbn [pred_ok]. destruct (store_ok sl cl bsz skip 0 blocks) eqn:E; [|reflexivity].
  destruct (store_bound sl cl bsz skip 0 blocks Hb W E) as [B1 B2].
  destruct (store_no_silent_truncation sl cl bsz skip blocks Hb W) as (R1 & R2 & _).
  rewrite R1 in B1. rewrite R2 in B2.
  rewrite (within_mono sl _ _ T B1), B2. change (0 =? 0) with true. rewrite !N.eqb_refl. reflexivity.
Qed.

Lemma store_source_shape :
  blockClientReservations =
    ["blockSeriesClient.ExpandPostings: seriesLimiter.Reserve(uint64(len(b.lazyPostings.postings)))";
     "blockSeriesClient.nextBatch: b.chunksLimiter.Reserve(uint64(len(b.chkMetas)))";
     "blockSeriesClient.nextBatch: b.seriesLimiter.Reserve(uint64(seriesMatched))"]%string.
Proof. reflexivity. Qed.
