(* C06 — the frame-timeout timer of a lazy response set's receiver goroutine
   (pkg/store/proxy_merge.go newLazyRespSet / handleRecvResponse) as a transition system, for
   every schedule of the consumer of the merge (pops) and every passage of time (ticks):
   the timer is armed while the receiver waits in cl.Recv(), it is paused after Recv returned
   when [pause buffer_full] holds, the responses of a (batch) frame are appended one by one and
   an append blocks while the buffer is full, the timer is re-armed when the frame is done
   (the deferred t.Reset(frameTimeout)), and it fires — cancelling the store's stream — when it
   has been armed for the timeout. [pause] is instantiated with Gen.C06.timer_pause_cond,
   regenerated from the source. Time is discrete; a store is healthy when each of its Recv calls
   returns before the timeout (ticks during Recv are bounded), the consumer may stall for any
   time (ticks are unbounded while the receiver queues responses). *)
From Coq Require Import ZArith List Bool Lia Arith.
Import ListNotations.
From Verif Require Import Gen.C06.
Open Scope nat_scope.

Section Timer.
Context {A : Type}.
Variable T : nat.                      (* the frame timeout in ticks, >= 1 *)
Variable cap : nat.                    (* the buffer holds at most cap responses *)
Variable pause : bool -> bool.         (* is the timer paused after Recv, given "the buffer is full" *)

Inductive timer := Armed (elapsed : nat) | Paused.
Inductive phase := InRecv | Queuing (items : list A).

Record state := MkT {
  pending : list (list A);             (* frames the store will still answer with (a frame = the series of a batch) *)
  ph : phase;
  tm : timer;
  buf : list A;
  cancelled : bool
}.

Definition is_full (b : list A) : bool := cap <=? length b.

Inductive step : state -> state -> Prop :=
(* cl.Recv() returns the next frame *)
| s_recv st f p : pending st = f :: p -> ph st = InRecv ->
    step st (MkT p (Queuing f) (if pause (is_full (buf st)) then Paused else tm st) (buf st) (cancelled st))
(* rb.append of the next response of the frame: only when the buffer has a free slot *)
| s_append st x r : ph st = Queuing (x :: r) -> is_full (buf st) = false ->
    step st (MkT (pending st) (Queuing r) (tm st) (buf st ++ [x]) (cancelled st))
(* handleRecvResponse returns: deferred t.Reset(frameTimeout), next Recv *)
| s_done st : ph st = Queuing [] ->
    step st (MkT (pending st) InRecv (Armed 0) (buf st) (cancelled st))
(* the consumer of the merge pops a response — whenever it likes *)
| s_pop st x b : buf st = x :: b ->
    step st (MkT (pending st) (ph st) (tm st) b (cancelled st))
(* time passes; while the receiver is inside Recv of a healthy store, Recv returns before the timeout *)
| s_tick st e : tm st = Armed e -> (ph st = InRecv -> S e < T) ->
    step st (MkT (pending st) (ph st) (Armed (S e)) (buf st) (cancelled st))
(* the timer fires: closeSeries() cancels the store's stream *)
| s_fire st e : tm st = Armed e -> T <= e ->
    step st (MkT (pending st) (ph st) (tm st) (buf st) true).

Inductive reach (s0 : state) : state -> Prop :=
| r_refl : reach s0 s0
| r_step s s' : reach s0 s -> step s s' -> reach s0 s'.

Definition init (frames : list (list A)) : state := MkT frames InRecv (Armed 0) [] false.

(* the discipline of the code: paused whatever the buffer state *)
Theorem healthy_store_never_cancelled frames st :
  1 <= T -> (forall b, pause b = true) ->
  reach (init frames) st -> cancelled st = false.
Proof.
  intros HT Hp Hr.
  assert (Inv : cancelled st = false
                /\ (forall e, tm st = Armed e -> ph st = InRecv /\ e < T)).
  { induction Hr as [|s s' Hr IH Hs].
    - split; [reflexivity|]. cbn. intros e E. inversion E; subst. split; [reflexivity | lia].
    - destruct IH as [IC IA]. destruct Hs; cbn [cancelled tm ph].
      + rewrite Hp. split; [exact IC | intros e E; discriminate].
      + split; [exact IC|]. intros e E. destruct (IA e E) as [P _]. congruence.
      + split; [exact IC|]. intros e E. inversion E; subst. split; [reflexivity | lia].
      + split; [exact IC | exact IA].
      + split; [exact IC|]. intros e' E. inversion E; subst. destruct (IA e H) as [P _]. split; [exact P | apply H0; exact P].
      + exfalso. destruct (IA e H) as [_ L]. lia. }
  apply Inv.
Qed.
End Timer.

(* the source's discipline meets the hypothesis *)
Lemma source_pauses_always : forall b, timer_pause_cond b = true.
Proof. intros b. unfold timer_pause_cond. reflexivity. Qed.

Lemma source_pause_position : timer_pause_after_recv_before_append = true.
Proof. reflexivity. Qed.

Theorem lazy_receiver_no_spurious_timeout (A : Type) (T cap : nat) (frames : list (list A)) st :
  1 <= T -> reach T cap timer_pause_cond (init frames) st -> cancelled st = false.
Proof. intros HT. apply healthy_store_never_cancelled; [exact HT | exact source_pauses_always]. Qed.

(* the other discipline — pause only when the buffer is already full before queuing — lets a
   healthy store be cancelled: a frame of two responses, a buffer of one, a stalled consumer *)
Theorem pause_only_when_full_refuted :
  exists st, reach 1 1 (fun full : bool => full) (init [[0; 1]]) st /\ cancelled st = true.
Proof.
  eexists. split.
  - eapply r_step; [eapply r_step; [eapply r_step; [eapply r_step; [apply r_refl|]|]|]|].
    + eapply s_recv; reflexivity.
    + eapply s_append; reflexivity.
    + eapply s_tick; [reflexivity | cbn; discriminate].
    + eapply s_fire; [reflexivity | cbn; lia].
  - reflexivity.
Qed.
