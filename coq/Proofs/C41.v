(* C41 — proofs about Model/C41.v (which uses the generated nextIntervalBoundary). *)
From Coq Require Import ZArith List Bool Lia Arith.
Import ListNotations.
From Verif Require Import Lib.Corr Gen.C41 Model.C41.
Open Scope Z_scope.

Ltac Zify.zify_post_hook ::= Z.to_euclidean_division_equations.

(* ---- nextIntervalBoundary ---- *)

Lemma nib_spec t step interval :
  0 < step -> 0 < Z.quot interval ns_per_ms ->
  let ms := Z.quot interval ns_per_ms in
  let e := nextIntervalBoundary t step interval in
  t <= e /\ Z.rem (e - t) step = 0 /\ (Z.quot t ms + 1) * ms <= e + step /\ e < (Z.quot t ms + 1) * ms.
Proof.
  intros Hs Hms. cbv zeta. unfold nextIntervalBoundary, ns_per_ms in *.
  set (ms := Z.quot interval 1000000) in *.
  set (sni := (Z.quot t ms + 1) * ms).
  assert (Hsni : t < sni) by (unfold sni; nia).
  set (r := Z.rem (sni - t) step).
  assert (Hr : 0 <= r < step) by (unfold r; apply Z.rem_bound_pos; lia).
  assert (Hq : sni - t = step * Z.quot (sni - t) step + r)
    by (unfold r; apply Z.quot_rem'; lia).
  assert (Hq0 : 0 <= Z.quot (sni - t) step) by (apply Z.quot_pos; lia).
  destruct (sni - r =? sni) eqn:E.
  - apply Z.eqb_eq in E. assert (r = 0) by lia.
    assert (1 <= Z.quot (sni - t) step) by nia.
    repeat split; try lia; try nia.
    replace (sni - r - step - t) with ((Z.quot (sni - t) step - 1) * step) by nia.
    apply Z.rem_mul; lia.
  - apply Z.eqb_neq in E.
    repeat split; try lia; try nia.
    replace (sni - r - t) with (Z.quot (sni - t) step * step) by nia.
    apply Z.rem_mul; lia.
Qed.

(* ---- steps ---- *)

Lemma map_seq_shift {A} (f : nat -> A) a n :
  map f (seq a n) = map (fun k => f (k + a)%nat) (seq 0 n).
Proof.
  revert f a. induction n as [|n IH]; intros f a; [reflexivity|].
  cbn [seq map]. f_equal.
  rewrite (IH f (S a)). rewrite (IH (fun k => f (k + a)%nat) 1%nat).
  apply map_ext. intros k. f_equal. lia.
Qed.

Lemma steps_app s e1 e2 st :
  0 < st -> s <= e1 -> e1 <= e2 -> Z.rem (e1 - s) st = 0 ->
  steps s e2 st = steps s e1 st ++ steps (e1 + st) e2 st.
Proof.
  intros Hst H1 H2 Hrem. unfold steps.
  destruct (e2 <? s) eqn:A; [apply Z.ltb_lt in A; lia|].
  destruct (e1 <? s) eqn:B; [apply Z.ltb_lt in B; lia|].
  assert (Hk : e1 - s = st * ((e1 - s) / st)).
  { rewrite Z.rem_mod_nonneg in Hrem by lia. apply Z.div_exact; lia. }
  set (k1 := (e1 - s) / st) in *.
  assert (Hk1 : 0 <= k1) by (unfold k1; apply Z.div_pos; lia).
  destruct (e2 <? e1 + st) eqn:C.
  - apply Z.ltb_lt in C. rewrite app_nil_r.
    replace ((e2 - s) / st) with k1; [reflexivity|].
    apply Z.div_unique with (r := e2 - s - st * k1); lia.
  - apply Z.ltb_ge in C.
    set (k2 := (e2 - (e1 + st)) / st).
    assert (Hk2 : 0 <= k2) by (unfold k2; apply Z.div_pos; lia).
    assert (Hsum : (e2 - s) / st = k1 + 1 + k2).
    { symmetry. apply Z.div_unique with (r := (e2 - (e1 + st)) mod st).
      - left. apply Z.mod_pos_bound; lia.
      - pose proof (Z.div_mod (e2 - (e1 + st)) st ltac:(lia)) as Hdm. fold k2 in Hdm. lia. }
    rewrite Hsum.
    replace (Z.to_nat (k1 + 1 + k2) + 1)%nat with ((Z.to_nat k1 + 1) + (Z.to_nat k2 + 1))%nat by lia.
    rewrite seq_app, map_app. f_equal.
    rewrite (map_seq_shift _ (0 + (Z.to_nat k1 + 1))%nat).
    apply map_ext. intros k. lia.
Qed.

(* ---- the range-query loop ---- *)

Definition aligned (start step : Z) (p : Z * Z) : Prop := (step | fst p - start).

Lemma split_loop_sound fuel : forall start end_ step interval l,
  0 < step -> 0 < Z.quot interval ns_per_ms -> start < end_ ->
  split_loop fuel start end_ step interval = Some l ->
  concat (map (fun p => steps (fst p) (snd p) step) l) = steps start end_ step
  /\ Forall (aligned start step) l.
Proof.
  induction fuel as [|f IH]; intros start end_ step interval l Hst Hms Hlt H; [discriminate|].
  cbn [split_loop] in H.
  destruct (start <? end_) eqn:E; [|apply Z.ltb_ge in E; lia].
  pose proof (nib_spec start step interval Hst Hms) as Hn. cbv zeta in Hn.
  set (e := nextIntervalBoundary start step interval) in *.
  destruct Hn as (Hle & Hrem & _ & _).
  destruct (split_loop f (e + step) end_ step interval) as [r|] eqn:R; [|discriminate].
  inversion H; subst l; clear H.
  assert (Hdiv : (step | e - start)) by (apply Z.rem_divide; lia).
  destruct (e + step >=? end_) eqn:G.
  - (* last sub-query, end clamped to the request's end: the loop stops *)
    assert (G' : end_ <= e + step) by lia.
    assert (r = []).
    { destruct f as [|f']; [discriminate|]. cbn [split_loop] in R.
      destruct (e + step <? end_) eqn:E2; [apply Z.ltb_lt in E2; lia|]. congruence. }
    subst r. cbn [map concat fst snd]. rewrite app_nil_r. split; [reflexivity|].
    constructor; [|constructor]. unfold aligned; cbn [fst]. exists 0. lia.
  - assert (G' : e + step < end_) by lia.
    destruct (IH _ _ _ _ _ Hst Hms G' R) as [IH1 IH2].
    cbn [map concat fst snd]. rewrite IH1. split.
    + symmetry. apply steps_app; lia.
    + constructor.
      * unfold aligned; cbn [fst]. exists 0. lia.
      * eapply Forall_impl; [|exact IH2]. unfold aligned. intros p [k Hk].
        destruct Hdiv as [k' Hk']. exists (k + k' + 1). lia.
Qed.

Lemma split_loop_total fuel : forall start end_ step interval,
  0 < step -> 0 < Z.quot interval ns_per_ms ->
  (1 <= fuel)%nat ->
  (start < end_ -> end_ / Z.quot interval ns_per_ms - start / Z.quot interval ns_per_ms + 2 <= Z.of_nat fuel) ->
  split_loop fuel start end_ step interval <> None.
Proof.
  induction fuel as [|f IH]; intros start end_ step interval Hst Hms H1 H2; [lia|].
  cbn [split_loop].
  destruct (start <? end_) eqn:E; [|discriminate].
  apply Z.ltb_lt in E. specialize (H2 E).
  pose proof (nib_spec start step interval Hst Hms) as Hn. cbv zeta in Hn.
  set (e := nextIntervalBoundary start step interval) in *.
  set (ms := Z.quot interval ns_per_ms) in *.
  destruct Hn as (_ & _ & Hge & _).
  assert (Hq : start / ms + 1 <= (e + step) / ms).
  { apply Z.div_le_lower_bound; [lia|].
    assert (start / ms <= Z.quot start ms) by (clear - Hms; nia).
    nia. }
  assert (Hend : start / ms <= end_ / ms) by (apply Z.div_le_mono; lia).
  assert (Hne : split_loop f (e + step) end_ step interval <> None).
  { apply IH; try assumption; fold ms; lia. }
  destruct (split_loop f (e + step) end_ step interval); [discriminate|congruence].
Qed.

Theorem split_query_correct start end_ step interval :
  0 < step -> 0 < Z.quot interval ns_per_ms -> start <= end_ ->
  exists l, split_query start end_ step interval = Some l
    /\ concat (map (fun p => steps (fst p) (snd p) step) l) = steps start end_ step
    /\ Forall (aligned start step) l.
Proof.
  intros Hst Hms Hle. unfold split_query.
  destruct (start =? end_) eqn:E.
  - apply Z.eqb_eq in E. subst end_. eexists; split; [reflexivity|]. split.
    + cbn [map concat fst snd]. unfold steps. rewrite Z.ltb_irrefl, Z.sub_diag.
      rewrite Z.div_0_l by lia. reflexivity.
    + constructor; [|constructor]. exists 0. cbn [fst]. lia.
  - apply Z.eqb_neq in E. assert (Hlt : start < end_) by lia.
    destruct (split_loop (split_fuel start end_ interval) start end_ step interval) as [l|] eqn:R.
    + exists l. split; [reflexivity|]. eapply split_loop_sound; eauto.
    + exfalso. revert R. apply split_loop_total; try assumption; unfold split_fuel; cbv zeta; lia.
Qed.

(* boolean form: the predicate the check evaluates on the implementation's output *)
Lemma zeqb_spec x y : Z.eqb x y = true <-> x = y.
Proof. apply Z.eqb_eq. Qed.

Theorem range_pred_ok start end_ step interval_ms :
  0 < step -> 0 < interval_ms -> start <= end_ ->
  exists out, split_query start end_ step (interval_ms * ns_per_ms) = Some out
    /\ pred_ok (CRange start end_ step interval_ms out) = true.
Proof.
  intros Hst Hi Hle.
  assert (Hms : 0 < Z.quot (interval_ms * ns_per_ms) ns_per_ms)
    by (unfold ns_per_ms; rewrite Z.quot_mul by lia; lia).
  destruct (split_query_correct start end_ step _ Hst Hms Hle) as (l & H1 & H2 & H3).
  exists l. split; [exact H1|]. cbn [pred_ok]. apply andb_true_iff. split.
  - apply (list_eqb_spec Z.eqb zeqb_spec). exact H2.
  - apply forallb_forall. intros p Hp. rewrite Forall_forall in H3. specialize (H3 p Hp).
    apply Z.eqb_eq. apply Z.rem_divide; [lia|exact H3].
Qed.

(* ---- labels / series ranges ---- *)

Lemma range_loop_correct fuel : forall start end_ dur,
  0 < dur -> (1 <= fuel)%nat ->
  (start < end_ -> (end_ - start) / dur + 2 <= Z.of_nat fuel) ->
  exists l, range_loop fuel start end_ dur = Some l /\ contiguous start end_ l = true.
Proof.
  induction fuel as [|f IH]; intros start end_ dur Hd H1 H2; [lia|].
  cbn [range_loop]. destruct (start <? end_) eqn:E.
  - apply Z.ltb_lt in E. specialize (H2 E).
    assert (Hq : 0 <= (end_ - start) / dur) by (apply Z.div_pos; lia).
    destruct (IH (start + dur) end_ dur Hd) as (r & Hr & Hc); [lia| |].
    + intros Hlt. replace (end_ - (start + dur)) with ((end_ - start) + (-1) * dur) by lia.
      rewrite Z.div_add by lia. lia.
    + rewrite Hr. eexists; split; [reflexivity|]. cbn [contiguous].
      rewrite Z.eqb_refl. cbn [andb].
      destruct (Z.min_spec (start + dur) end_) as [[Hm1 Hm2]|[Hm1 Hm2]]; rewrite Hm2.
      * assert (A : (start <? start + dur) = true) by (apply Z.ltb_lt; lia).
        assert (B : (start + dur <=? end_) = true) by (apply Z.leb_le; lia).
        rewrite A, B. exact Hc.
      * assert (A : (start <? end_) = true) by (apply Z.ltb_lt; lia).
        rewrite A, Z.leb_refl. cbn [andb].
        (* the loop has reached the end: the remainder is empty *)
        destruct f as [|f']; [lia|]. cbn [range_loop] in Hr.
        destruct (start + dur <? end_) eqn:E2; [apply Z.ltb_lt in E2; lia|].
        inversion Hr; subst r. cbn [contiguous]. apply Z.leb_refl.
  - apply Z.ltb_ge in E. eexists; split; [reflexivity|]. cbn [contiguous]. apply Z.leb_le; lia.
Qed.

Theorem split_range_correct start end_ interval_ms :
  0 < interval_ms ->
  exists out, split_range start end_ (interval_ms * ns_per_ms) = Some out
    /\ pred_ok (CSplit start end_ interval_ms out) = true.
Proof.
  intros Hi. unfold split_range. cbv zeta.
  assert (Hq : Z.quot (interval_ms * ns_per_ms) ns_per_ms = interval_ms)
    by (unfold ns_per_ms; apply Z.quot_mul; lia).
  rewrite Hq. cbn [pred_ok].
  apply range_loop_correct; lia.
Qed.

(* ---- step alignment ---- *)

Theorem step_align_correct start end_ step :
  0 < step ->
  pred_ok (CAlign start end_ step (step_align start end_ step)) = true
  /\ Z.abs (start - fst (step_align start end_ step)) < step
  /\ Z.abs (end_ - snd (step_align start end_ step)) < step.
Proof.
  intros Hst. unfold step_align. cbn [pred_ok fst snd]. repeat split.
  - rewrite !Z.rem_mul by lia. reflexivity.
  - pose proof (Z.quot_rem' start step). pose proof (Z.rem_bound_abs start step ltac:(lia)).
    replace (start - Z.quot start step * step) with (Z.rem start step) by lia. lia.
  - pose proof (Z.quot_rem' end_ step). pose proof (Z.rem_bound_abs end_ step ltac:(lia)).
    replace (end_ - Z.quot end_ step * step) with (Z.rem end_ step) by lia. lia.
Qed.
