(* C49 — Coq's primitive binary64 evaluation of jumpHash's float expression
   ([nextj_prim], which the check uses to re-compute every oracle value) equals
   its IEEE-754 reading over Flocq's rounding ([nextj_ieee], for which
   b < nextj b key is proved). Uses Flocq's bridge between primitive floats and
   binary_float, hence the specification axioms of Coq's primitive integers and
   floats (Uint63 / FloatAxioms) and the classical reals. *)
From Coq Require Import ZArith Reals Lia Lra Floats Uint63 List.
From Flocq Require Import Core BinarySingleNaN.
From Flocq Require IEEE754.PrimFloat.
From Verif Require Import Lib.Corr Lib.Misc_Cmp Gen.C49 Model.C49 Proofs.C49 Proofs.C49_ieee.
Module FP := Flocq.IEEE754.PrimFloat.
Open Scope Z_scope.

Notation bf := (binary_float prec emax).
Notation Hprec := FP.Hprec.
Notation Hmax := FP.Hmax.

#[local] Instance prec53' : Prec_gt_0 53.
Proof. unfold Prec_gt_0. lia. Qed.
#[local] Instance valid64 : Valid_exp fexp64.
Proof. unfold fexp64. typeclasses eauto. Qed.

#[local] Existing Instance FP.Hprec.
#[local] Existing Instance FP.Hmax.

Lemma fexp_eq : fexp prec emax = fexp64.
Proof. reflexivity. Qed.

Lemma rnd_eq x : round radix2 (fexp prec emax) (round_mode mode_NE) x = rnd64 x.
Proof. reflexivity. Qed.

Lemma bpow_emax_big (x : R) : (Rabs x <= IZR (2 ^ 84))%R -> (Rabs x < bpow radix2 emax)%R.
Proof.
  intro H. eapply Rle_lt_trans; [exact H|].
  change (2 ^ 84) with (Zpower radix2 84). rewrite IZR_Zpower by lia. apply bpow_lt. reflexivity.
Qed.

(* conversion of a small non-negative integer is exact *)
Lemma of_Z_exact n :
  0 <= n < 2 ^ 53 ->
  B2R (FP.Prim2B (f_of_Z n)) = IZR n /\ is_finite (FP.Prim2B (f_of_Z n)) = true.
Proof.
  intro Hn. unfold f_of_Z. rewrite FP.of_int63_equiv.
  rewrite Uint63.of_Z_spec. rewrite Z.mod_small by (unfold wB; simpl; lia).
  pose proof (binary_normalize_correct prec emax Hprec Hmax mode_NE n 0 false) as H.
  cbv zeta in H.
  assert (Hx : F2R (Float radix2 n 0) = IZR n) by (unfold F2R; simpl; lra).
  rewrite Hx in H. rewrite rnd_eq in H.
  assert (Hr : rnd64 (IZR n) = IZR n).
  { unfold rnd64. apply round_generic; [typeclasses eauto|]. apply int_format. lia. }
  rewrite Hr in H. rewrite Rlt_bool_true in H.
  - destruct H as [H1 [H2 _]]. split; assumption.
  - apply bpow_emax_big. rewrite Rabs_pos_eq by (apply IZR_le; lia). apply IZR_le. lia.
Qed.

Lemma rnd64_le x y : (x <= y)%R -> (rnd64 x <= rnd64 y)%R.
Proof. intro H. unfold rnd64. apply round_le; [typeclasses eauto | typeclasses eauto | exact H]. Qed.

Lemma rnd64_int n : Z.abs n < 2 ^ 53 -> rnd64 (IZR n) = IZR n.
Proof. intro H. unfold rnd64. apply round_generic; [typeclasses eauto|]. apply int_format. exact H. Qed.

Lemma rnd64_pow2 e : 0 <= e <= 100 -> rnd64 (IZR (2 ^ e)) = IZR (2 ^ e).
Proof.
  intro H. unfold rnd64. apply round_generic; [typeclasses eauto|].
  change (2 ^ e) with (Zpower radix2 e). rewrite IZR_Zpower by lia.
  apply generic_format_bpow. unfold fexp64, FLT_exp. lia.
Qed.

(* the quotient *)
Lemma div_exact (x y : bf) d :
  1 <= d <= 2 ^ 31 ->
  B2R x = IZR (2 ^ 31) -> is_finite x = true -> B2R y = IZR d -> is_finite y = true ->
  B2R (Bdiv mode_NE x y) = rnd64 (IZR (2 ^ 31) / IZR d)
  /\ is_finite (Bdiv mode_NE x y) = true
  /\ (1 <= rnd64 (IZR (2 ^ 31) / IZR d) <= IZR (2 ^ 31))%R.
Proof.
  intros Hd Hx Fx Hy Fy.
  assert (Hd0 : (0 < IZR d)%R) by (apply IZR_lt; lia).
  assert (Hq1 : (1 <= IZR (2 ^ 31) / IZR d)%R).
  { apply Rmult_le_reg_r with (IZR d); [exact Hd0|].
    unfold Rdiv. rewrite Rmult_assoc, Rinv_l, Rmult_1_r, Rmult_1_l; [apply IZR_le; lia | lra]. }
  assert (Hq2 : (IZR (2 ^ 31) / IZR d <= IZR (2 ^ 31))%R).
  { apply Rmult_le_reg_r with (IZR d); [exact Hd0|].
    unfold Rdiv. rewrite Rmult_assoc, Rinv_l, Rmult_1_r by lra.
    rewrite <- mult_IZR. apply IZR_le. nia. }
  assert (Hb : (1 <= rnd64 (IZR (2 ^ 31) / IZR d) <= IZR (2 ^ 31))%R).
  { split.
    - eapply Rle_trans; [|apply rnd64_le; exact Hq1]. rewrite (rnd64_int 1) by (simpl; lia). lra.
    - eapply Rle_trans; [apply rnd64_le; exact Hq2|]. rewrite (rnd64_pow2 31) by lia. lra. }
  pose proof (Bdiv_correct prec emax Hprec Hmax mode_NE x y) as H.
  rewrite Hx, Hy, rnd_eq in H. specialize (H ltac:(lra)).
  rewrite Rlt_bool_true in H.
  - destruct H as [H1 [H2 _]]. rewrite H2, Fx. auto.
  - apply bpow_emax_big. rewrite Rabs_pos_eq by lra.
    eapply Rle_trans; [apply Hb|]. apply IZR_le. lia.
Qed.

(* the product *)
Lemma mul_exact (x y : bf) n (q : R) :
  1 <= n <= 2 ^ 53 -> (1 <= q <= IZR (2 ^ 31))%R ->
  B2R x = IZR n -> is_finite x = true -> B2R y = q -> is_finite y = true ->
  B2R (Bmult mode_NE x y) = rnd64 (IZR n * q).
Proof.
  intros Hn Hq Hx Fx Hy Fy.
  pose proof (Bmult_correct prec emax Hprec Hmax mode_NE x y) as H.
  rewrite Hx, Hy, rnd_eq in H.
  assert (Hn0 : (1 <= IZR n <= IZR (2 ^ 53))%R) by (split; apply IZR_le; lia).
  rewrite Rlt_bool_true in H; [apply H|].
  apply bpow_emax_big.
  assert (H0 : (0 <= IZR n * q)%R) by nra.
  assert (H1 : (IZR n * q <= IZR (2 ^ 84))%R).
  { replace (2 ^ 84) with (2 ^ 53 * 2 ^ 31) by reflexivity. rewrite mult_IZR. nra. }
  rewrite Rabs_pos_eq.
  - eapply Rle_trans; [apply rnd64_le; exact H1|]. rewrite (rnd64_pow2 84) by lia. lra.
  - eapply Rle_trans; [|apply rnd64_le; exact H0]. rewrite (rnd64_int 0) by (simpl; lia). lra.
Qed.

(* truncation of a spec float *)
Definition trunc_sf (f : spec_float) : Z :=
  match f with
  | S754_finite false m e => if 0 <=? e then Z.pos m * 2 ^ e else Z.pos m / 2 ^ (- e)
  | S754_finite true m e => if 0 <=? e then - (Z.pos m * 2 ^ e) else - (Z.pos m / 2 ^ (- e))
  | _ => 0
  end.

Lemma trunc_pos m e : Ztrunc (F2R (Float radix2 (Z.pos m) e)) = if 0 <=? e then Z.pos m * 2 ^ e else Z.pos m / 2 ^ (- e).
Proof.
  destruct (0 <=? e) eqn:E.
  - apply Z.leb_le in E. unfold F2R. cbn [Fnum Fexp]. rewrite <- IZR_Zpower by exact E.
    change (Zpower radix2 e) with (2 ^ e). rewrite <- mult_IZR. rewrite Ztrunc_IZR. reflexivity.
  - apply Z.leb_gt in E. unfold F2R. cbn [Fnum Fexp].
    assert (Hb : bpow radix2 e = (/ IZR (2 ^ (- e)))%R).
    { rewrite <- (Z.opp_involutive e) at 1. rewrite bpow_opp. f_equal.
      change (2 ^ (- e)) with (Zpower radix2 (- e)). rewrite IZR_Zpower by lia. reflexivity. }
    rewrite Hb. fold (Rdiv (IZR (Z.pos m)) (IZR (2 ^ (- e)))).
    assert (Hp : 0 < 2 ^ (- e)) by (apply Z.pow_pos_nonneg; lia).
    rewrite Ztrunc_floor.
    + apply Zfloor_div. lia.
    + apply Rmult_le_pos; [apply IZR_le; lia|]. apply Rlt_le, Rinv_0_lt_compat, IZR_lt. exact Hp.
Qed.

Lemma trunc_sf_correct (z : bf) : trunc_sf (B2SF z) = Ztrunc (B2R z).
Proof.
  destruct z as [s|s| |s m e H]; simpl; try (rewrite Ztrunc_IZR; reflexivity).
  destruct s; simpl.
  - change (Z.neg m) with (- Z.pos m). rewrite F2R_Zopp, Ztrunc_opp, trunc_pos. destruct (0 <=? e); reflexivity.
  - apply eq_sym, trunc_pos.
Qed.

Lemma trunc_f_correct f : trunc_f f = Ztrunc (B2R (FP.Prim2B f)).
Proof. rewrite <- trunc_sf_correct, FP.B2SF_Prim2B. reflexivity. Qed.

(* Coq's primitive-float evaluation of the expression is the IEEE-754 reading *)
Theorem nextj_prim_ieee b key :
  0 <= b < 2 ^ 53 - 1 -> 0 <= key < two64 -> nextj_prim b key = nextj_ieee b key.
Proof.
  intros Hb Hk. unfold two64 in Hk. unfold nextj_prim, nextj_ieee.
  change 8589934592 with (2 ^ 33). change 2147483648 with (2 ^ 31).
  set (r := key / 2 ^ 33).
  assert (Hr : 0 <= r < 2 ^ 31).
  { unfold r. split; [apply Z.div_pos; lia|]. apply Z.div_lt_upper_bound; lia. }
  rewrite trunc_f_correct, FP.mul_equiv, FP.div_equiv.
  destruct (of_Z_exact (b + 1) ltac:(lia)) as [B1 B2].
  destruct (of_Z_exact (2 ^ 31) ltac:(lia)) as [P1 P2].
  destruct (of_Z_exact (r + 1) ltac:(lia)) as [D1 D2].
  destruct (div_exact _ _ (r + 1) ltac:(lia) P1 P2 D1 D2) as [Q1 [Q2 Q3]].
  rewrite (mul_exact _ _ (b + 1) _ ltac:(lia) Q3 B1 B2 Q1 Q2). reflexivity.
Qed.
