(* C40, part 1: the penalty merge picks samples by timestamp only. Streams with
   the same timestamps — up to the repeated last timestamp that the counter
   aggregate carries — merge to outputs with the same timestamps. *)
From Coq Require Import ZArith List Bool Lia.
Import ListNotations.
From Verif Require Import Lib.Dedup_Iter Lib.Dedup_SpecFacts.
Open Scope Z_scope.

Definition tss (l : list sample) : list Z := map ts l.

(* same timestamps; the right list may end with one repeated timestamp *)
Inductive trel : list sample -> list sample -> Prop :=
| trel_nil : trel [] []
| trel_cons x y l l' : ts x = ts y -> trel l l' -> trel (x :: l) (y :: l')
| trel_dup x y d : ts x = ts y -> ts d = ts y -> trel [x] [y; d].

Lemma trel_of_tss : forall l l', tss l = tss l' -> trel l l'.
Proof.
  induction l as [|x l IH]; intros [|y l'] H; simpl in H; try discriminate; [constructor|].
  inversion H. constructor; [assumption|apply IH; assumption].
Qed.

Lemma trel_app_dup : forall l l' d, l <> [] -> tss l = tss l' -> ts d = ts (last l (0, 0)) -> trel l (l' ++ [d]).
Proof.
  induction l as [|x l IH]; intros l' d Hne H Hd; [congruence|].
  destruct l' as [|y l']; simpl in H; [discriminate|]. inversion H.
  destruct l as [|x2 l].
  - destruct l'; [|discriminate]. simpl. simpl in Hd. apply trel_dup; congruence.
  - simpl. constructor; [assumption|]. apply IH; [discriminate|assumption|exact Hd].
Qed.

Lemma trel_drop t : forall l l', trel l l' -> trel (drop_lt t l) (drop_lt t l').
Proof.
  intros l l' H. induction H.
  - constructor.
  - simpl. rewrite <- H. destruct (ts x <? t); [exact IHtrel|constructor; assumption].
  - simpl. rewrite H0, <- H. destruct (ts x <? t); [constructor|apply trel_dup; assumption].
Qed.

Lemma trel_sdrop lt p l l' : trel l l' -> trel (sdrop lt p l) (sdrop lt p l').
Proof. intro H. destruct lt; simpl; [apply trel_drop|]; exact H. Qed.

Lemma pm_trel cfg : forall f lt pA pB la la' lb lb',
  trel la la' -> trel lb lb' ->
  tss (pm cfg f lt pA pB la lb) = tss (pm cfg f lt pA pB la' lb').
Proof.
  induction f as [|f IH]; intros lt pA pB la la' lb lb' Ha Hb; [reflexivity|].
  cbn [pm].
  pose proof (trel_sdrop lt pA _ _ Ha) as Ha'. pose proof (trel_sdrop lt pB _ _ Hb) as Hb'.
  destruct Ha' as [|xa ya ra ra' Hxa Hra|xa ya da Hxa Hda]; destruct Hb' as [|xb yb rb rb' Hxb Hrb|xb yb db Hxb Hdb];
    try reflexivity;
    repeat match goal with
    | |- context [ts ?u <=? ts ?v] => fail
    | _ => idtac
    end.
  all: try (cbn [tss map]; rewrite ?Hxa, ?Hxb; f_equal; apply IH; constructor; assumption).
  all: try (rewrite Hxa, Hxb; destruct (ts ya <=? ts yb); cbn [tss map]; rewrite ?Hxa, ?Hxb; f_equal; apply IH; constructor; assumption).
Qed.

Lemma trel_length l l' : trel l l' -> (length l <= length l')%nat.
Proof. intro H. induction H; simpl; lia. Qed.

Lemma pmerge_trel cfg la la' lb lb' :
  trel la la' -> trel lb lb' -> tss (pmerge cfg la lb) = tss (pmerge cfg la' lb').
Proof.
  intros Ha Hb. unfold pmerge.
  pose proof (trel_length _ _ Ha). pose proof (trel_length _ _ Hb).
  rewrite (pm_fuel cfg (S (length la + length lb)) (S (length la' + length lb')) None 0 0 la lb).
  - apply pm_trel; assumption.
  - pose proof (mu_le None 0 0 la lb). lia.
  - pose proof (mu_le None 0 0 la lb). lia.
Qed.

(* the fold over all overlapping chunks (at least two) *)
Lemma pmerge_all_tss cfg : forall rest rest' acc acc',
  tss acc = tss acc' -> Forall2 trel rest rest' ->
  tss (pmerge_all cfg acc rest) = tss (pmerge_all cfg acc' rest').
Proof.
  induction rest as [|b rest IH]; intros rest' acc acc' Ha Hr; inversion Hr; subst.
  - exact Ha.
  - simpl. apply IH; [|assumption]. apply pmerge_trel; [apply trel_of_tss; exact Ha|assumption].
Qed.

Lemma pmerge_all_trel cfg first first' b b' rest rest' :
  trel first first' -> trel b b' -> Forall2 trel rest rest' ->
  tss (pmerge_all cfg first (b :: rest)) = tss (pmerge_all cfg first' (b' :: rest')).
Proof.
  intros Hf Hb Hr. simpl. apply pmerge_all_tss; [|exact Hr]. apply pmerge_trel; assumption.
Qed.
