(* C18 — lemmas. *)
From Coq Require Import ZArith NArith List Bool Lia Arith Permutation Sorting.Sorted.
Import ListNotations.
From Verif Require Import Lib.Corr Lib.Hashring_Ketama Lib.Hashring_KetamaFacts Gen.C18 Model.C18.
From Verif Require Export Lib.Hashring_AnswersFacts.
Close Scope Z_scope.

(* ------------------------------------------------------------------ *)
(* A. HashWithPrefix feeds the same bytes on both paths                 *)

Lemma hwp_loop_eq H cap : forall lbls b,
  hwp_loop H cap b lbls = H (b ++ concat (map label_bytes lbls)).
Proof.
  induction lbls as [|l r IH]; intro b; simpl.
  - rewrite app_nil_r. reflexivity.
  - destruct (cap <=? _); [reflexivity|].
    rewrite IH. f_equal. unfold label_bytes. simpl. rewrite <- !app_assoc. simpl. rewrite <- !app_assoc. reflexivity.
Qed.

Lemma hash_with_prefix_eq H cap prefix lbls :
  hash_with_prefix H cap prefix lbls = H (hash_input prefix lbls).
Proof. unfold hash_with_prefix, hash_input. rewrite hwp_loop_eq, <- app_assoc. reflexivity. Qed.

(* ------------------------------------------------------------------ *)
(* C/D. hashmod                                                         *)

Lemma simple_ring_perm addrs : Permutation addrs (simple_ring addrs).
Proof. apply ZSort.Permuted_sort. Qed.

Lemma sorted_perm_eq : forall l l' : list Z,
  StronglySorted Z.le l -> StronglySorted Z.le l' -> Permutation l l' -> l = l'.
Proof.
  induction l as [|a l IH]; intros l' S S' P.
  - apply Permutation_nil in P. subst. reflexivity.
  - destruct l' as [|b l'']; [apply Permutation_sym, Permutation_nil in P; discriminate|].
    inversion S as [|? ? Sl Fa]; subst. inversion S' as [|? ? Sl' Fb]; subst.
    assert (a = b).
    { assert (Ia : In a (b :: l'')) by (eapply Permutation_in; [exact P|now left]).
      assert (Ib : In b (a :: l)) by (eapply Permutation_in; [apply Permutation_sym; exact P|now left]).
      rewrite Forall_forall in Fa, Fb.
      destruct Ia as [->|Ia]; [reflexivity|]. destruct Ib as [->|Ib]; [reflexivity|].
      specialize (Fa _ Ib). specialize (Fb _ Ia). lia. }
    subst b. f_equal. apply IH; auto. eapply Permutation_cons_inv; eauto.
Qed.

Lemma simple_ring_sorted addrs : StronglySorted Z.le (simple_ring addrs).
Proof.
  unfold simple_ring.
  assert (T : RelationClasses.Transitive (fun x y : Z => is_true (x <=? y)%Z)).
  { intros x y z Hxy Hyz. unfold is_true in *. apply Z.leb_le in Hxy, Hyz. apply Z.leb_le. lia. }
  pose proof (ZSort.StronglySorted_sort addrs T) as S.
  induction S as [|a l S IH F]; constructor; auto.
  eapply Forall_impl; [|exact F]. intros b Hb. apply Z.leb_le. exact Hb.
Qed.

Lemma simple_ring_order_independent addrs addrs' :
  Permutation addrs addrs' -> simple_ring addrs = simple_ring addrs'.
Proof.
  intro P. apply sorted_perm_eq; try apply simple_ring_sorted.
  eapply Permutation_trans; [apply Permutation_sym, simple_ring_perm|].
  eapply Permutation_trans; [exact P|apply simple_ring_perm].
Qed.

Lemma simple_getn_distinct ring h n1 n2 :
  NoDup ring -> (0 <= h)%Z -> n1 < n2 < length ring ->
  exists a b, simple_getn ring h n1 = Some a /\ simple_getn ring h n2 = Some b /\ a <> b.
Proof.
  intros Hnd Hh Hn. unfold simple_getn, simple_insufficient, simple_idx, simple_index.
  set (len := length ring) in *.
  destruct (Z.of_nat n1 >=? Z.of_nat len)%Z eqn:E1; [apply Z.geb_le in E1; lia|].
  destruct (Z.of_nat n2 >=? Z.of_nat len)%Z eqn:E2; [apply Z.geb_le in E2; lia|].
  eexists. eexists. split; [reflexivity|]. split; [reflexivity|].
  rewrite !Z.rem_mod_nonneg by lia.
  set (i1 := ((h + Z.of_nat n1) mod Z.of_nat len)%Z). set (i2 := ((h + Z.of_nat n2) mod Z.of_nat len)%Z).
  assert (B1 : (0 <= i1 < Z.of_nat len)%Z) by (apply Z.mod_pos_bound; lia).
  assert (B2 : (0 <= i2 < Z.of_nat len)%Z) by (apply Z.mod_pos_bound; lia).
  intro Heq. apply (proj1 (NoDup_nth ring 0%Z)) in Heq; [|exact Hnd|fold len; lia|fold len; lia].
  apply Z2Nat.inj in Heq; try lia.
  unfold i1, i2 in Heq.
  assert (D : ((h + Z.of_nat n2) - (h + Z.of_nat n1) = Z.of_nat (n2 - n1))%Z) by lia.
  assert (M : (((h + Z.of_nat n2) - (h + Z.of_nat n1)) mod Z.of_nat len = 0)%Z).
  { rewrite Zminus_mod, Heq, Z.sub_diag. apply Z.mod_0_l. lia. }
  rewrite D in M. rewrite Z.mod_small in M by lia. lia.
Qed.

(* ------------------------------------------------------------------ *)
(* statements used by Properties/C18.v                                   *)

Lemma ketama_pred_clauses eps rf v a :
  sections_of 0 eps <> [] ->
  ketama_answers eps rf v = Some a ->
  (length a =? rf) && nodup_nat a && forallb (fun e => e <? length eps) a && balanced eps a = true.
Proof.
  intros Hne H. destruct (ketama_answers_distinct _ _ _ _ Hne H) as [H1 [H2 H3]].
  rewrite (proj2 (Nat.eqb_eq _ _) H1), (proj2 (nodup_nat_spec _) H2). simpl.
  rewrite (balanced_true eps a (ketama_answers_balanced _ _ _ _ Hne H)), andb_true_r.
  apply forallb_forall. intros e He. apply Nat.ltb_lt. auto.
Qed.

Lemma hashmod_distinct addrs h n1 n2 :
  NoDup addrs -> (0 <= h)%Z -> n1 < n2 < length addrs ->
  exists a b, simple_getn (simple_ring addrs) h n1 = Some a /\
              simple_getn (simple_ring addrs) h n2 = Some b /\ a <> b.
Proof.
  intros Hnd Hh Hn. apply simple_getn_distinct; [|exact Hh|].
  - eapply Permutation_NoDup; [apply simple_ring_perm|exact Hnd].
  - rewrite <- (Permutation_length (simple_ring_perm addrs)). exact Hn.
Qed.

Lemma hashmod_order_independent addrs addrs' h n :
  Permutation addrs addrs' ->
  simple_getn (simple_ring addrs) h n = simple_getn (simple_ring addrs') h n.
Proof. intro P. rewrite (simple_ring_order_independent _ _ P). reflexivity. Qed.

Lemma hashmod_wrap_witness :
  exists len h n1 n2, n1 < n2 < len /\ (0 <= h < 2 ^ 64)%Z /\
    simple_idx_wrap len h n1 = simple_idx_wrap len h n2.
Proof. exists 3, (2 ^ 64 - 1)%Z, 0, 1. split; [lia|]. split; [vm_compute; split; congruence|]. vm_compute. reflexivity. Qed.

(* tie T: the predicate of sort.Search in ketamaHashring.GetN, as read from the
   source, is the one the model's search_ge uses *)
Lemma search_pred_tie h v : ketama_search_pred h v = (v <=? h)%Z.
Proof. unfold ketama_search_pred. apply Z.geb_leb. Qed.
