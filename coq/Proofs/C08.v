(* C08 — proofs about Model/C08.v. *)
From Coq Require Import ZArith NArith List Bool Lia.
Import ListNotations.
From Verif Require Import Lib.Corr Lib.Proxy_Order Gen.C08 Model.C05 Model.C08 Proofs.C08_Labels.
Open Scope Z_scope.

(* ---- frames ---- *)
Lemma split_spec base : forall cs acc left, cs <> [] ->
  concat (split base left acc cs) = acc ++ cs /\ Forall (fun f => f <> []) (split base left acc cs).
Proof.
  induction cs as [|c r IH]; intros acc left Hne; [exfalso; apply Hne; reflexivity|]. cbn [split].
  destruct r as [|c2 r'].
  - cbn. rewrite app_nil_r. split; [reflexivity|]. constructor; [|constructor]. destruct acc; discriminate.
  - destruct (frame_continue (left - csize c) true).
    + destruct (IH (acc ++ [c]) (left - csize c) ltac:(discriminate)) as [H1 H2].
      split; [rewrite H1, <- app_assoc; reflexivity | exact H2].
    + destruct (IH [] base ltac:(discriminate)) as [H1 H2]. cbn [concat]. rewrite H1. cbn [app].
      split; [rewrite <- app_assoc; reflexivity|]. constructor; [destruct acc; discriminate | exact H2].
Qed.

Theorem frames_preserve maxBytes lbls cs :
  concat (map snd (frames_of maxBytes false lbls cs)) = cs
  /\ Forall (fun f => fst f = lbls /\ snd f <> []) (frames_of maxBytes false lbls cs).
Proof.
  unfold frames_of. cbn [negb]. set (base := maxBytes - _).
  destruct cs as [|c r]; [cbn; split; [reflexivity|constructor]|].
  destruct (split_spec base (c :: r) [] base ltac:(discriminate)) as [H1 H2].
  split.
  - rewrite map_map. cbn [snd]. rewrite map_id. exact H1.
  - apply Forall_forall. intros f Hf. apply in_map_iff in Hf as [g [E Hg]]. subst f. cbn. split; [reflexivity|].
    rewrite Forall_forall in H2. apply H2. exact Hg.
Qed.

(* the frame budget: a chunk is only added to a frame while bytes are left, so every frame
   without its last chunk is strictly smaller than the budget (frame limit minus labels) *)
Definition fsum (f : list chunk) : Z := fold_right Z.add 0 (map csize f).
Lemma fsum_app a b : fsum (a ++ b) = fsum a + fsum b.
Proof. unfold fsum. rewrite map_app. induction (map csize a); cbn; lia. Qed.

Lemma frame_continue_pos x : frame_continue x true = true -> 0 < x.
Proof. unfold frame_continue. rewrite andb_true_r. intros H. apply Z.gtb_lt in H. lia. Qed.

Lemma split_budget base : forall cs acc left,
  left = base - fsum acc -> (acc <> [] -> 0 < left) ->
  Forall (fun f => removelast f <> [] -> fsum (removelast f) < base) (split base left acc cs).
Proof.
  induction cs as [|c r IH]; intros acc left Hl Ha; [constructor|]. cbn [split].
  assert (Hhead : removelast (acc ++ [c]) <> [] -> fsum (removelast (acc ++ [c])) < base).
  { rewrite removelast_last. intros Hne. specialize (Ha Hne). lia. }
  destruct r as [|c2 r']; [constructor; [exact Hhead|constructor]|].
  destruct (frame_continue (left - csize c) true) eqn:E.
  - apply IH.
    + rewrite fsum_app. unfold fsum at 2. cbn. lia.
    + intros _. apply frame_continue_pos. exact E.
  - constructor; [exact Hhead|]. apply IH; [unfold fsum; cbn; lia | intros H; exfalso; apply H; reflexivity].
Qed.

Theorem frames_budget maxBytes lbls cs :
  let base := maxBytes - fold_right Z.add 0 (map label_size lbls) in
  Forall (fun f => removelast (snd f) <> [] -> fsum (removelast (snd f)) < base) (frames_of maxBytes false lbls cs).
Proof.
  cbv zeta. unfold frames_of. cbn [negb]. set (base := maxBytes - _).
  apply Forall_forall. intros f Hf. apply in_map_iff in Hf as [g [E Hg]]. subst f. cbn [snd].
  pose proof (split_budget base cs [] base ltac:(unfold fsum; cbn; lia) ltac:(intros H; exfalso; apply H; reflexivity)) as HB.
  rewrite Forall_forall in HB. apply HB. exact Hg.
Qed.

(* ---- the response ---- *)
Theorem series_spec ext drop ms maxBytes skip stored fs :
  tsdb_series ext drop ms maxBytes skip stored = ROkFrames fs ->
  (matches_external_labels mname mmatch ms ext = None -> fs = [])
  /\ forall l f, In (l, f) fs ->
       exists sl cs, In (sl, cs) stored /\ l = present ext drop sl
                     /\ (skip = false -> f <> [] /\ incl f cs).
Proof.
  unfold tsdb_series. destruct (matches_external_labels mname mmatch ms ext) as [kept|] eqn:E.
  - destruct kept as [|k0 kr]; [discriminate|]. intros H. inversion H; subst fs. clear H.
    split; [discriminate|]. intros l f Hin. apply in_concat in Hin as [x [Hx Hin]].
    apply in_map_iff in Hx as [[sl cs] [Ex Hs]]. subst x. cbn [fst snd] in Hin.
    cbv beta in Hin. cbn [fst snd] in Hin.
    change (mmatch k0 (lget sl (mname k0)) && selected kr sl) with (selected (k0 :: kr) sl) in Hin.
    destruct (selected (k0 :: kr) sl) eqn:Esel; [|exact (False_ind _ Hin)]. exists sl, cs. split; [exact Hs|].
    unfold frames_of in Hin. destruct skip.
    + destruct Hin as [Hin|[]]. inversion Hin; subst. split; [reflexivity | discriminate].
    + pose proof (frames_preserve maxBytes (present ext drop sl) cs) as [P1 P2]. unfold frames_of in P1, P2. cbn [negb] in *.
      rewrite Forall_forall in P2. destruct (P2 _ Hin) as [Q1 Q2]. cbn in Q1, Q2. split; [exact Q1|].
      intros _. split; [exact Q2|]. intros c Hc. rewrite <- P1. apply in_concat. exists f. split; [|exact Hc].
      apply in_map_iff. exists (l, f). split; [reflexivity|exact Hin].
  - intros H. inversion H; subst. split; [reflexivity|]. intros l f [].
Qed.
