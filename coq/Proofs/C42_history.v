(* C42 — whole-history exactness of the results cache model (Model/C42.v):
   every answer of every history of step-aligned range queries equals direct evaluation,
   with the invariant "every cached extent is exact for its key". *)
From Coq Require Import ZArith List Bool Lia Znumtheory.
Import ListNotations.
From Verif Require Import Lib.Corr Gen.C41 Model.C41 Proofs.C41 Gen.C42 Model.C42 Proofs.C42.
Open Scope Z_scope.

(* ================= A. matrices as finite maps ================= *)

Fixpoint stream_of (s : Z) (m : matrix) : samples :=
  match m with
  | [] => []
  | (s', l) :: m' => if s =? s' then l else stream_of s m'
  end.

Definition wf (m : matrix) : Prop := incr (map fst m) /\ Forall (fun sl => snd sl <> []) m.

Lemma stream_of_notin s m : ~ In s (map fst m) -> stream_of s m = [].
Proof.
  induction m as [|[s' l] m IH]; cbn; [auto|]. intro H.
  destruct (s =? s') eqn:E; [exfalso; apply H; left; lia|]. apply IH. intro K. apply H. right. exact K.
Qed.

Lemma wf_tail a m : wf (a :: m) -> wf m.
Proof. intros [H1 H2]. cbn in H1. destruct H1 as [_ H1]. inversion H2; subst. split; auto. Qed.

Lemma matrix_ext : forall m1 m2, wf m1 -> wf m2 -> (forall s, stream_of s m1 = stream_of s m2) -> m1 = m2.
Proof.
  induction m1 as [|[s1 l1] m1 IH]; intros [|[s2 l2] m2] W1 W2 E.
  - reflexivity.
  - exfalso. specialize (E s2). cbn in E. rewrite Z.eqb_refl in E. destruct W2 as [_ W2]. inversion W2; subst. cbn in *. congruence.
  - exfalso. specialize (E s1). cbn in E. rewrite Z.eqb_refl in E. destruct W1 as [_ W1]. inversion W1; subst. cbn in *. congruence.
  - pose proof W1 as [K1 N1]. pose proof W2 as [K2 N2]. cbn in K1, K2. destruct K1 as [K1 K1'], K2 as [K2 K2'].
    inversion N1 as [|? ? Hl1 N1']; subst. inversion N2 as [|? ? Hl2 N2']; subst. cbn in Hl1, Hl2.
    assert (A1 : ~ In s1 (map fst m1)) by (intro K; specialize (K1 _ K); lia).
    assert (A2 : ~ In s2 (map fst m2)) by (intro K; specialize (K2 _ K); lia).
    assert (s1 = s2).
    { destruct (Z.lt_trichotomy s1 s2) as [L|[L|L]]; [|exact L|]; exfalso.
      - pose proof (E s1) as E1. cbn in E1. rewrite Z.eqb_refl in E1.
        assert (X : (s1 =? s2) = false) by lia. rewrite X in E1.
        rewrite stream_of_notin in E1; [congruence|]. intro K. specialize (K2 _ K). lia.
      - pose proof (E s2) as E1. cbn in E1. rewrite Z.eqb_refl in E1.
        assert (X : (s2 =? s1) = false) by lia. rewrite X in E1.
        rewrite stream_of_notin in E1; [congruence|]. intro K. specialize (K1 _ K). lia. }
    subst s2. pose proof (E s1) as E1. cbn in E1. rewrite Z.eqb_refl in E1. subst l2. f_equal.
    apply IH; [eapply wf_tail; eauto | eapply wf_tail; eauto |].
    intro s. destruct (s =? s1) eqn:X.
    + assert (s = s1) by lia. subst. rewrite !stream_of_notin; auto.
    + specialize (E s). cbn in E. rewrite X in E. exact E.
Qed.

Lemma merge_stream_nonempty_r l new : new <> [] -> merge_stream l new <> [].
Proof.
  intro H. destruct l as [|p l]; [cbn; exact H | apply merge_stream_nonempty].
Qed.

Lemma upsert_keys s l out x : In x (map fst (upsert s l out)) <-> x = s \/ In x (map fst out).
Proof.
  induction out as [|[s' l'] out IH]; cbn; [intuition congruence|].
  destruct (s =? s') eqn:E1; cbn; [assert (s = s') by lia; subst; intuition congruence|].
  destruct (s <? s') eqn:E2; cbn; [intuition congruence|]. rewrite IH. intuition congruence.
Qed.

Lemma upsert_wf s l out : wf out -> l <> [] -> wf (upsert s l out).
Proof.
  induction out as [|[s' l'] out IH]; intros W Hl.
  - cbn. split; [cbn; split; [intros ? []|exact I] | constructor; [cbn; exact Hl | constructor]].
  - pose proof W as [K N]. cbn in K. destruct K as [K K']. inversion N as [|? ? Hl' N']; subst. cbn in Hl'.
    cbn [upsert]. destruct (s =? s') eqn:E1.
    + split; [cbn; split; auto | constructor; [cbn; apply merge_stream_nonempty_r; exact Hl | exact N']].
    + destruct (s <? s') eqn:E2.
      * split; [cbn; split; [|split; auto] | constructor; [cbn; exact Hl | exact N]].
        intros y [<-|Hy]; [lia | specialize (K _ Hy); lia].
      * destruct (IH (wf_tail _ _ W) Hl) as [K2 N2].
        split; [cbn; split; [|exact K2] | constructor; [exact Hl' | exact N2]].
        intros y Hy. apply upsert_keys in Hy as [->|Hy]; [lia | auto].
Qed.

Lemma upsert_stream s l out x : wf out ->
  stream_of x (upsert s l out) = if x =? s then merge_stream (stream_of x out) l else stream_of x out.
Proof.
  induction out as [|[s' l'] out IH]; intro W.
  - cbn. destruct (x =? s); reflexivity.
  - pose proof W as [K N]. cbn in K. destruct K as [K K'].
    cbn [upsert]. destruct (s =? s') eqn:E1.
    + assert (s = s') by lia. subst s'. cbn [stream_of]. destruct (x =? s); reflexivity.
    + destruct (s <? s') eqn:E2.
      * cbn [stream_of]. destruct (x =? s) eqn:E3; [|reflexivity].
        assert (x = s) by lia. subst x. assert (X : (s =? s') = false) by lia. rewrite X.
        rewrite stream_of_notin; [reflexivity|]. intro Hy. specialize (K _ Hy). lia.
      * cbn [stream_of]. destruct (x =? s') eqn:E3.
        -- assert (X : (x =? s) = false) by lia. rewrite X. reflexivity.
        -- apply IH. eapply wf_tail; eauto.
Qed.

Lemma upsert_all_stream : forall m out x, wf m -> wf out ->
  stream_of x (upsert_all m out) = merge_stream (stream_of x out) (stream_of x m)
  /\ wf (upsert_all m out).
Proof.
  induction m as [|[s1 l1] m IH]; intros out x Wm Wo.
  - cbn. rewrite merge_stream_nil_r. auto.
  - pose proof Wm as [K N]. cbn in K. destruct K as [K K']. inversion N as [|? ? Hl N']; subst. cbn in Hl.
    change (upsert_all ((s1, l1) :: m) out) with (upsert_all m (upsert s1 l1 out)).
    destruct (IH (upsert s1 l1 out) x (wf_tail _ _ Wm) (upsert_wf _ _ _ Wo Hl)) as [A B]. split; [|exact B].
    rewrite A, upsert_stream by exact Wo. cbn [stream_of]. destruct (x =? s1) eqn:E.
    + assert (x = s1) by lia. subst. rewrite (stream_of_notin s1 m); [apply merge_stream_nil_r|].
      intro Hy. specialize (K _ Hy). lia.
    + reflexivity.
Qed.

Lemma matrix_merge_fold ps : forall out, Forall wf ps -> wf out ->
  let R := fold_left (fun out m => upsert_all m out) ps out in
  wf R /\ forall x, stream_of x R = fold_left (fun acc m => merge_stream acc (stream_of x m)) ps (stream_of x out).
Proof.
  induction ps as [|m ps IH]; intros out F Wo; cbn zeta.
  - cbn. auto.
  - inversion F as [|? ? Wm F']; subst. cbn [fold_left].
    destruct (IH (upsert_all m out) F' (proj2 (upsert_all_stream m out 0 Wm Wo))) as [A B].
    cbn zeta in *. split; [exact A|]. intro x. rewrite B.
    rewrite (proj1 (upsert_all_stream m out x Wm Wo)). reflexivity.
Qed.

Lemma matrix_merge_streams ps : Forall wf ps ->
  wf (matrix_merge ps) /\
  forall x, stream_of x (matrix_merge ps) = fold_left (fun acc m => merge_stream acc (stream_of x m)) ps [].
Proof.
  intro F. unfold matrix_merge.
  change (fold_left (fun out m => fold_left (fun out0 sl => upsert (fst sl) (snd sl) out0) m out) ps [])
    with (fold_left (fun out m => upsert_all m out) ps []).
  apply (matrix_merge_fold ps []); [exact F|]. split; [exact I | constructor].
Qed.

(* ================= C. insertion sort ================= *)

Section Sort.
  Context {A : Type} (lt : A -> A -> bool).
  Hypothesis lt_asym : forall x y, lt x y = true -> lt y x = false.
  Hypothesis le_trans : forall x y z, lt y x = false -> lt z y = false -> lt z x = false.

  Fixpoint sortedr (l : list A) : Prop :=
    match l with
    | [] => True
    | x :: l' => (forall y, In y l' -> lt y x = false) /\ sortedr l'
    end.

  Lemma ins_in x l z : In z (ins_by lt x l) <-> z = x \/ In z l.
  Proof.
    induction l as [|y l IH]; cbn; [intuition|].
    destruct (lt x y); cbn; [intuition|]. rewrite IH. intuition.
  Qed.

  Lemma ins_sorted x l : sortedr l -> sortedr (ins_by lt x l).
  Proof.
    induction l as [|y l IH]; intro S; cbn; [split; [intros ? []|exact I]|].
    cbn in S. destruct S as [S1 S2]. destruct (lt x y) eqn:E.
    - cbn. split; [|split; auto]. intros z [<-|Hz]; [apply lt_asym; exact E|].
      apply (le_trans x y z); [apply lt_asym; exact E | apply S1; exact Hz].
    - cbn. split; [|apply IH; exact S2]. intros z Hz. apply ins_in in Hz as [->|Hz]; [exact E | apply S1; exact Hz].
  Qed.

  Lemma sort_fold_spec l : forall acc, sortedr acc ->
    sortedr (fold_left (fun acc x => ins_by lt x acc) l acc)
    /\ forall z, In z (fold_left (fun acc x => ins_by lt x acc) l acc) <-> In z l \/ In z acc.
  Proof.
    induction l as [|x l IH]; intros acc S; cbn [fold_left]; [split; [exact S | intros; cbn; tauto]|].
    destruct (IH (ins_by lt x acc) (ins_sorted x acc S)) as [HA HB]. split; [exact HA|].
    intro z. rewrite HB, ins_in. cbn. intuition congruence.
  Qed.

  Lemma sort_by_spec l : sortedr (sort_by lt l) /\ forall z, In z (sort_by lt l) <-> In z l.
  Proof.
    unfold sort_by. destruct (sort_fold_spec l [] I) as [HA HB]. split; [exact HA|].
    intro z. rewrite HB. cbn. tauto.
  Qed.
End Sort.

(* ================= B. exact pieces ================= *)

Lemma incr_app l1 l2 : incr l1 -> incr l2 -> (forall x y, In x l1 -> In y l2 -> x < y) -> incr (l1 ++ l2).
Proof.
  induction l1 as [|a l1 IH]; intros H1 H2 H; [exact H2|]. cbn in *. destruct H1 as [A B]. split.
  - intros y Hy. apply in_app_or in Hy as [Hy|Hy]; [auto | apply H; auto].
  - apply IH; auto.
Qed.

Lemma incr_filter p l : incr l -> incr (filter p l).
Proof.
  induction l as [|a l IH]; intro H; [exact I|]. cbn in *. destruct H as [A B].
  destruct (p a); [cbn; split; [|auto] | auto]. intros y Hy. apply filter_In in Hy as [Hy _]. auto.
Qed.

Lemma samples_on_in_iff f s ts t v : In (t, v) (samples_on f s ts) <-> In t ts /\ f s t = Some v.
Proof.
  split; [apply samples_on_in|]. intros [H1 H2]. unfold samples_on. apply in_flat_map.
  exists t. split; [exact H1|]. rewrite H2. left. reflexivity.
Qed.

Section Pieces.
  Variable f : downstream.
  Variable sids : list Z.
  Hypothesis Hsids : incr sids.

  Lemma M_wf g : wf (M g sids).
  Proof.
    clear f. revert Hsids. induction sids as [|s l IH]; intro Hi; [split; [exact I|constructor]|].
    cbn in Hi. destruct Hi as [H1 H2]. destruct (IH H2) as [K N].
    unfold M in *. cbn [flat_map]. destruct (g s) as [|p q] eqn:E; cbn [nonempty_stream app]; [split; assumption|].
    split; [cbn; split; [|exact K] | constructor; [cbn; discriminate | exact N]].
    intros y Hy. apply in_map_iff in Hy as (x & <- & Hx). apply H1. eapply M_keys. exact Hx.
  Qed.

  Lemma M_stream g s : stream_of s (M g sids) = if existsb (Z.eqb s) sids then g s else [].
  Proof.
    clear f. revert Hsids. induction sids as [|a l IH]; intro Hi; [reflexivity|].
    cbn in Hi. destruct Hi as [H1 H2]. unfold M in *. cbn [flat_map existsb].
    destruct (s =? a) eqn:E.
    - assert (s = a) by lia. subst a. cbn [orb]. destruct (g s) as [|p q] eqn:G; cbn [nonempty_stream app].
      + rewrite stream_of_notin; [reflexivity|]. intro K. apply in_map_iff in K as (x & Ex & Hx).
        apply M_keys in Hx. rewrite Ex in Hx. specialize (H1 _ Hx). lia.
      + cbn. rewrite Z.eqb_refl. reflexivity.
    - cbn [orb]. rewrite <- (IH H2). destruct (g a) as [|p q]; cbn [nonempty_stream app]; [reflexivity|].
      cbn. rewrite E. reflexivity.
  Qed.

  Lemma eval_on_wf ts : wf (eval_on f sids ts).
  Proof. rewrite eval_on_M. apply M_wf. Qed.

  Lemma eval_on_stream_in ts s t v :
    In (t, v) (stream_of s (eval_on f sids ts)) <-> In s sids /\ In t ts /\ f s t = Some v.
  Proof.
    rewrite eval_on_M, M_stream. destruct (existsb (Z.eqb s) sids) eqn:E.
    - apply existsb_exists in E as (x & Hx & E). assert (s = x) by lia. subst x.
      rewrite samples_on_in_iff. tauto.
    - split; [intros []|]. intros (H & _). exfalso.
      assert (existsb (Z.eqb s) sids = true) by (apply existsb_exists; exists s; split; [auto|lia]). congruence.
  Qed.

  Lemma eval_on_stream_incr ts s : incr ts -> incr (map fst (stream_of s (eval_on f sids ts))).
  Proof.
    intro H. rewrite eval_on_M, M_stream. destruct (existsb (Z.eqb s) sids); [apply samples_on_incr; exact H | exact I].
  Qed.

  (* grid intervals: the timestamps of a piece *)
  Definition is_iv (st lo hi : Z) (ts : list Z) : Prop :=
    incr ts /\ forall t, In t ts <-> lo <= t <= hi /\ (st | t).

  Definition iv (st : Z) (ts : list Z) : Prop := exists lo hi, 0 <= lo /\ is_iv st lo hi ts.

  (* minTime of a piece: below every sample, and itself the time of a sample of the piece *)
  Lemma piece_min_time st ts s t v : iv st ts ->
    In (t, v) (stream_of s (eval_on f sids ts)) ->
    0 <= min_time (eval_on f sids ts) <= t /\ In (min_time (eval_on f sids ts)) ts.
  Proof.
    intros (lo & hi & Hlo & Hinc & Hmem) Hin.
    apply eval_on_stream_in in Hin as (Hs & Ht & Hf).
    assert (NN : forall x, In x ts -> 0 <= x) by (intros x Hx; apply Hmem in Hx; lia).
    assert (F1 : forall x, In x (firsts (eval_on f sids ts)) -> 0 <= x).
    { intros x Hx. apply firsts_eval_in in Hx as (s' & v' & _ & Hx & _). auto. }
    destruct (mt_fold (eval_on f sids ts) (-1) (or_introl eq_refl) F1) as (A1 & A2 & _ & A4). cbn zeta in *.
    rewrite min_time_fold.
    destruct (firsts_eval_le f ts Hinc sids s t v Hs Ht Hf) as (t0 & T0 & T1).
    assert (NE : firsts (eval_on f sids ts) <> []) by (intro K; rewrite K in T0; contradiction).
    specialize (A4 eq_refl NE). pose proof (A2 _ T0). pose proof (F1 _ A4).
    split; [lia|]. apply firsts_eval_in in A4 as (s' & v' & _ & Hx & _). exact Hx.
  Qed.

  (* ================= D. MergeResponse of any number of exact pieces ================= *)

  Definition mt_lt (a b : matrix) : bool := min_time a <? min_time b.

  Lemma mt_lt_asym x y : mt_lt x y = true -> mt_lt y x = false.
  Proof. unfold mt_lt. lia. Qed.
  Lemma mt_le_trans x y z : mt_lt y x = false -> mt_lt z y = false -> mt_lt z x = false.
  Proof. unfold mt_lt. lia. Qed.

  Lemma last_ts_app_in (l : samples) d : l <> [] -> In (last_ts l d) (map fst l).
  Proof.
    intro H. destruct l as [|[t v] l]; [congruence|]. cbn [last_ts].
    destruct (last_ts_in l t) as [->|K]; [left; reflexivity | right; exact K].
  Qed.

  (* processing sorted (by minTime) pieces one after the other, for one series *)
  Lemma fold_pieces st s : 0 < st -> forall tss,
    Forall (iv st) tss ->
    sortedr mt_lt (map (eval_on f sids) tss) ->
    let acc := fold_left (fun acc m => merge_stream acc (stream_of s m)) (map (eval_on f sids) tss) [] in
    incr (map fst acc) /\
    forall p, In p acc <-> exists ts, In ts tss /\ In p (stream_of s (eval_on f sids ts)).
  Proof.
    intros Hst tss. induction tss as [|ts tss IH] using rev_ind; intros F S; cbn zeta.
    - cbn. split; [exact I|]. intro p. split; [intros [] | intros (ts & [] & _)].
    - rewrite map_app, fold_left_app. cbn [map fold_left].
      apply Forall_app in F as [F Fts]. inversion Fts as [|? ? Hiv _]; subst.
      rewrite map_app in S. cbn [map] in S.
      assert (S' : sortedr mt_lt (map (eval_on f sids) tss) /\
                   forall m, In m (map (eval_on f sids) tss) -> mt_lt (eval_on f sids ts) m = false).
      { clear - S. induction (map (eval_on f sids) tss) as [|a l IHl]; cbn in *; [split; [exact I|intros ? []]|].
        destruct S as [S1 S2]. destruct (IHl S2) as [A B]. split.
        - split; [|exact A]. intros y Hy. apply S1. apply in_or_app. left. exact Hy.
        - intros m [<-|Hm]; [apply S1; apply in_or_app; right; left; reflexivity | apply B; exact Hm]. }
      destruct S' as [S1 S2]. destruct (IH F S1) as [I1 I2]. cbn zeta in *.
      set (acc := fold_left (fun acc m => merge_stream acc (stream_of s m)) (map (eval_on f sids) tss) []) in *.
      set (new := stream_of s (eval_on f sids ts)).
      destruct Hiv as (lo & hi & Hlo & Hinc & Hmem).
      assert (Inew : incr (map fst new)) by (apply eval_on_stream_incr; exact Hinc).
      rewrite merge_stream_sorted by assumption.
      destruct acc as [|[te ve] acc'] eqn:Eacc.
      + split; [exact Inew|]. intro p. split.
        * intro Hp. exists ts. split; [apply in_or_app; right; left; reflexivity | exact Hp].
        * intros (ts' & Hts' & Hp). apply in_app_or in Hts' as [Hts'|[<-|[]]]; [|exact Hp].
          exfalso. apply (proj2 (I2 p)). exists ts'. auto.
      + rewrite <- Eacc in *. set (L := last_ts acc te).
        assert (HL : In L (map fst acc)).
        { unfold L. rewrite Eacc. cbn [last_ts]. destruct (last_ts_in acc' te) as [->|K]; [left; reflexivity | right; exact K]. }
        assert (Hle : forall p, In p acc -> fst p <= L).
        { intros p Hp. unfold L. rewrite Eacc in *. cbn [last_ts].
          destruct (last_ts_ge acc' te) as [A B]; [exact I1|]. destruct Hp as [<-|Hp]; cbn; [lia | auto]. }
        split.
        * apply (incr_app (map fst acc) (map fst (filter (fun p => L <? fst p) new))) in I1.
          -- rewrite <- map_app in I1. exact I1.
          -- clear - Inew. induction new as [|q new IHn]; [exact I|]. cbn in *. destruct Inew as [A B].
             destruct (L <? fst q); [cbn; split; [|auto] | auto].
             intros y Hy. apply A. apply in_map_iff in Hy as (z & <- & Hz). apply filter_In in Hz as [Hz _].
             apply in_map. exact Hz.
          -- intros x y Hx Hy. apply in_map_iff in Hx as (px & <- & Hpx). apply in_map_iff in Hy as (py & <- & Hpy).
             apply filter_In in Hpy as [_ Hpy]. specialize (Hle _ Hpx). lia.
        * intro p. rewrite in_app_iff, filter_In. split.
          -- intros [Hp|[Hp _]].
             ++ apply I2 in Hp as (ts' & Hts' & Hp). exists ts'. split; [apply in_or_app; left; exact Hts' | exact Hp].
             ++ exists ts. split; [apply in_or_app; right; left; reflexivity | exact Hp].
          -- intros (ts' & Hts' & Hp). apply in_app_or in Hts' as [Hts'|[<-|[]]].
             ++ left. apply I2. exists ts'. auto.
             ++ destruct (L <? fst p) eqn:Q; [right; auto|]. left.
                (* p is not after the last sample so far: it is already there *)
                destruct p as [t v]. cbn [fst] in Q.
                apply in_map_iff in HL as ([tL vL] & EL & HpL). cbn [fst] in EL. subst tL.
                apply I2 in HpL as (tsP & HtsP & HpL).
                assert (IvP : iv st tsP) by (rewrite Forall_forall in F; apply F; exact HtsP).
                destruct (piece_min_time st tsP s L vL IvP HpL) as [[P0 P1] P2].
                destruct (piece_min_time st ts s t v (ex_intro _ lo (ex_intro _ hi (conj Hlo (conj Hinc Hmem)))) Hp) as [[B0 B1] B2].
                assert (Ord : mt_lt (eval_on f sids ts) (eval_on f sids tsP) = false)
                  by (apply S2; apply in_map; exact HtsP).
                unfold mt_lt in Ord.
                destruct IvP as (loP & hiP & HloP & HincP & HmemP).
                apply eval_on_stream_in in HpL as (_ & HLin & _).
                apply eval_on_stream_in in Hp as (Hs & Htin & Hf).
                assert (In t tsP).
                { apply HmemP. apply HmemP in P2. apply HmemP in HLin. apply Hmem in Htin. split; [lia | tauto]. }
                apply I2. exists tsP. split; [exact HtsP|]. apply eval_on_stream_in. auto.
  Qed.

  Lemma sorted_fst_unique : forall l1 l2 : samples,
    incr (map fst l1) -> incr (map fst l2) -> (forall p, In p l1 <-> In p l2) -> l1 = l2.
  Proof.
    induction l1 as [|h1 l1 IH]; intros [|h2 l2] I1 I2 E.
    - reflexivity.
    - exfalso. apply (proj2 (E h2)). left. reflexivity.
    - exfalso. apply (proj1 (E h1)). left. reflexivity.
    - cbn in I1, I2. destruct I1 as [A1 B1], I2 as [A2 B2].
      assert (H12 : In h1 (h2 :: l2)) by (apply E; left; reflexivity).
      assert (H21 : In h2 (h1 :: l1)) by (apply E; left; reflexivity).
      assert (h1 = h2).
      { destruct H12 as [->|H12]; [reflexivity|]. destruct H21 as [->|H21]; [reflexivity|]. exfalso.
        assert (fst h2 < fst h1) by (apply A2; apply in_map; exact H12).
        assert (fst h1 < fst h2) by (apply A1; apply in_map; exact H21). lia. }
      subst h2. f_equal. apply IH; auto. intro p. split; intro Hp.
      + assert (K : In p (h1 :: l2)) by (apply E; right; exact Hp). destruct K as [<-|K]; [|exact K].
        exfalso. assert (fst h1 < fst h1) by (apply A1; apply in_map; exact Hp). lia.
      + assert (K : In p (h1 :: l1)) by (apply E; right; exact Hp). destruct K as [<-|K]; [|exact K].
        exfalso. assert (fst h1 < fst h1) by (apply A2; apply in_map; exact Hp). lia.
  Qed.

  Lemma list_preimage {X Y} (g : X -> Y) (xs : list X) : forall l,
    (forall z, In z l -> exists x, In x xs /\ z = g x) ->
    exists xs', l = map g xs' /\ forall x, In x xs' -> In x xs.
  Proof.
    induction l as [|z l IH]; intro H; [exists []; split; [reflexivity | intros ? []]|].
    destruct (H z (or_introl eq_refl)) as (x & Hx & ->).
    destruct IH as (xs' & -> & Sub); [intros z' Hz'; apply H; right; exact Hz'|].
    exists (x :: xs'). split; [reflexivity|]. intros y [<-|Hy]; auto.
  Qed.

  (* MergeResponse of exact pieces (any number, any order) whose timestamps are grid intervals
     is exact on every timestamp list that is their union *)
  Theorem merge_pieces_exact st tss ts : 0 < st ->
    Forall (iv st) tss -> incr ts ->
    (forall t, In t ts <-> exists ts', In ts' tss /\ In t ts') ->
    merge_response (map (eval_on f sids) tss) = eval_on f sids ts.
  Proof.
    intros Hst F Hinc U. unfold merge_response. fold mt_lt.
    destruct (sort_by_spec mt_lt mt_lt_asym mt_le_trans (map (eval_on f sids) tss)) as [Ssorted Smem].
    destruct (list_preimage (eval_on f sids) tss (sort_by mt_lt (map (eval_on f sids) tss))) as (tss' & E & Sub).
    { intros z Hz. apply Smem in Hz. apply in_map_iff in Hz as (x & <- & Hx). exists x. auto. }
    rewrite E in *.
    assert (F' : Forall (iv st) tss') by (rewrite Forall_forall in *; intros x Hx; apply F; apply Sub; exact Hx).
    assert (W : Forall wf (map (eval_on f sids) tss')).
    { rewrite Forall_forall. intros m Hm. apply in_map_iff in Hm as (x & <- & _). apply eval_on_wf. }
    destruct (matrix_merge_streams _ W) as [WR SR].
    apply matrix_ext; [exact WR | apply eval_on_wf |].
    intro s. rewrite SR.
    destruct (fold_pieces st s Hst tss' F' Ssorted) as [I1 I2]. cbn zeta in *.
    apply sorted_fst_unique; [exact I1 | apply eval_on_stream_incr; exact Hinc |].
    intros [t v]. rewrite I2. split.
    - intros (ts' & Hts' & Hp). apply eval_on_stream_in in Hp as (Hs & Ht & Hf).
      apply eval_on_stream_in. repeat split; auto. apply U. exists ts'. split; [apply Sub; exact Hts' | exact Ht].
    - intro Hp. apply eval_on_stream_in in Hp as (Hs & Ht & Hf). apply U in Ht as (ts' & Hts' & Ht).
      assert (K : In (eval_on f sids ts') (map (eval_on f sids) tss')) by (apply Smem; apply in_map; exact Hts').
      apply in_map_iff in K as (ts'' & EE & Hts'').
      exists ts''. split; [exact Hts''|]. rewrite EE. apply eval_on_stream_in. auto.
  Qed.
End Pieces.

(* ================= E. step grids, extraction, partition ================= *)

Lemma incr_map_seq a st : 0 < st -> forall n s, incr (map (fun k => a + Z.of_nat k * st) (seq s n)).
Proof.
  intros Hst. induction n as [|n IH]; intro s; [exact I|]. cbn [seq map incr]. split; [|apply IH].
  intros y Hy. apply in_map_iff in Hy as (k & <- & Hk). apply in_seq in Hk. nia.
Qed.

Lemma steps_incr a b st : 0 < st -> incr (steps a b st).
Proof. intro H. unfold steps. destruct (b <? a); [exact I | apply incr_map_seq; exact H]. Qed.

Lemma steps_in a b st t : 0 < st -> In t (steps a b st) <-> a <= t <= b /\ (st | t - a).
Proof.
  intro Hst. unfold steps. destruct (b <? a) eqn:E.
  - split; [intros [] | intros [H _]; lia].
  - assert (Hab : a <= b) by lia. assert (Hq : 0 <= (b - a) / st) by (apply Z.div_pos; lia).
    pose proof (Z.mul_div_le (b - a) st Hst) as Hm.
    rewrite in_map_iff. split.
    + intros (k & <- & Hk). apply in_seq in Hk. split; [nia|]. exists (Z.of_nat k). lia.
    + intros [[H1 H2] [q Hq']]. assert (0 <= q) by nia.
      assert (q <= (b - a) / st) by (apply Z.div_le_lower_bound; lia).
      exists (Z.to_nat q). split; [lia|]. apply in_seq. lia.
Qed.

Lemma steps_iv a b st : 0 < st -> (st | a) -> forall t, In t (steps a b st) <-> a <= t <= b /\ (st | t).
Proof.
  intros Hst Ha t. rewrite steps_in by exact Hst. split; intros [H1 H2]; (split; [exact H1|]).
  - replace t with ((t - a) + a) by lia. apply Z.divide_add_r; assumption.
  - apply Z.divide_sub_r; assumption.
Qed.

Lemma isTS_spec start re mstep t :
  isTimestampAtStep start re mstep t = true <->
  start <= t <= re /\ (mstep <= 0 \/ Z.rem (t - start) mstep = 0).
Proof.
  unfold isTimestampAtStep. destruct ((t <? start) || (t >? re)) eqn:E.
  - split; [discriminate|]. intros [H _]. apply orb_true_iff in E as [E|E]; lia.
  - apply orb_false_iff in E as [E1 E2]. rewrite orb_true_iff. split.
    + intros [H|H]; (split; [lia|]); [left; lia | right; lia].
    + intros [_ [H|H]]; [left; lia | right; lia].
Qed.

Definition mode_ok (st st' mstep : Z) : Prop := (mstep = 0 /\ st' = st) \/ (mstep = st /\ (st' | st)).

Lemma filtered_iv st st' mstep start re es ee :
  0 < st -> 0 < st' -> (st' | es) -> (st | start) -> mode_ok st st' mstep ->
  let ts := filter (isTimestampAtStep start re mstep) (steps es ee st') in
  incr ts /\ forall t, In t ts <-> Z.max start es <= t <= Z.min ee re /\ (st | t).
Proof.
  intros Hst Hst' Hes Hstart Hm. cbn zeta. split; [apply incr_filter; apply steps_incr; exact Hst'|].
  intro t. rewrite filter_In, (steps_iv es ee st' Hst' Hes t), isTS_spec.
  destruct Hm as [[-> ->]|[-> Hdiv]].
  - split; [intros [[A B] [C _]]; split; [lia|exact B] | intros [A B]; repeat split; try lia; auto].
  - split.
    + intros [[A B] [C [D|D]]]; [lia|]. split; [lia|].
      apply Z.rem_divide in D; [|lia]. replace t with ((t - start) + start) by lia. apply Z.divide_add_r; assumption.
    + intros [A B]. repeat split; try lia.
      * eapply Z.divide_trans; eauto.
      * right. apply Z.rem_divide; [lia|]. apply Z.divide_sub_r; assumption.
Qed.

Section Partition.
  Variable f : downstream.
  Variable sids : list Z.

  (* a cached extent of an entry with step st' is exact *)
  Definition ext_ok (st' : Z) (e : extent) : Prop :=
    let '(es, ee, em) := e in
    (st' | es) /\ (st' | ee) /\ 0 <= es /\ em = eval_on f sids (steps es ee st').

  Definition covered (rq : list (Z * Z)) (tss : list (list Z)) (t : Z) : Prop :=
    (exists ab, In ab rq /\ fst ab <= t <= snd ab) \/ (exists ts, In ts tss /\ In t ts).

  Definition req_ok (st st' rs re : Z) (ab : Z * Z) : Prop :=
    (st | fst ab) /\ (st' | snd ab) /\ rs <= fst ab /\ snd ab <= re.

  Definition ts_ok (st rs re : Z) (ts : list Z) : Prop :=
    exists lo hi, rs <= lo /\ hi <= re /\ is_iv st lo hi ts.

  Lemma covered_mono rq rq' tss tss' t :
    (forall x, In x rq -> In x rq') -> (forall x, In x tss -> In x tss') -> covered rq tss t -> covered rq' tss' t.
  Proof. intros H1 H2 [(ab & A & B)|(ts & A & B)]; [left; exists ab; auto | right; exists ts; auto]. Qed.

  Lemma nstart_facts st rs start ee : 0 < st -> (st | rs) -> (st | start) -> rs <= start -> start <= ee ->
    let n := ee - Z.rem (ee - rs) st in start <= n <= ee /\ (st | n).
  Proof.
    intros Hst [a Ha] [b Hb] H1 H2. cbn zeta.
    pose proof (Z.quot_rem' (ee - rs) st) as Q.
    pose proof (Z.rem_bound_pos (ee - rs) st ltac:(lia) Hst) as R.
    split; [split; [|lia]|].
    - assert (b - a <= Z.quot (ee - rs) st) by nia. nia.
    - exists (a + Z.quot (ee - rs) st). nia.
  Qed.

  Lemma part_loop_spec st st' mstep rs re :
    0 < st -> 0 < st' -> mode_ok st st' mstep -> (st | rs) -> (st | re) ->
    forall exts start rq rp fin,
    Forall (ext_ok st') exts -> (st | start) -> rs <= start ->
    part_loop rs re mstep start exts = (rq, rp, fin) ->
    exists tss, rp = map (eval_on f sids) tss /\ Forall (ts_ok st rs re) tss
      /\ Forall (req_ok st st' rs re) rq /\ start <= fin /\ (st | fin) /\ (rp = [] -> fin = start)
      /\ forall t, (st | t) -> start <= t <= fin -> t <= re -> (rp = [] -> t < fin) -> covered rq tss t.
  Proof.
    intros Hst Hst' Hm Hrs Hre. induction exts as [|[[es ee] em] rest IH]; intros start rq rp fin F Gs Ls E.
    - cbn in E. inversion E; subst. exists [].
      split; [reflexivity|]. split; [constructor|]. split; [constructor|]. split; [lia|]. split; [exact Gs|].
      split; [reflexivity|]. intros t Ht H1 H2 H3. specialize (H3 eq_refl). lia.
    - inversion F as [|? ? Hok F']; subst. cbn [part_loop] in E.
      destruct ((ee <? start) || (es >? re)) eqn:C1; [eapply IH; eauto|].
      destruct (negb (rs =? re) && (re - rs >? min_cache_extent) && (ee - es <? min_cache_extent)); [eapply IH; eauto|].
      apply orb_false_iff in C1 as [C1 C2].
      destruct Hok as (Hes & Hee & Hes0 & Hem).
      set (nstart := if mstep >? 0 then ee - Z.rem (ee - rs) mstep else ee) in *.
      assert (HN : start <= nstart <= ee /\ (st | nstart)).
      { unfold nstart. destruct Hm as [[-> ->]|[-> Hdiv]].
        - cbn. split; [lia | exact Hee].
        - assert (X : (st >? 0) = true) by lia. rewrite X. apply nstart_facts; auto; lia. }
      destruct HN as [[N1 N2] N3].
      destruct (part_loop rs re mstep nstart rest) as [[rq' rp'] fin'] eqn:R.
      inversion E as [[E1 E2 E3]]. subst rq rp fin. clear E.
      destruct (IH nstart rq' rp' fin' F' N3 ltac:(lia) R) as (tss' & Erp & Fts & Frq & L1 & G1 & Z1 & Cov).
      subst em.
      pose proof (filtered_iv st st' mstep start re es ee Hst Hst' Hes Gs Hm) as [FI FM].
      set (ts0 := filter (isTimestampAtStep start re mstep) (steps es ee st')) in *.
      exists (ts0 :: tss'). split; [cbn [map]; f_equal; [apply extract_eval_on | exact Erp]|].
      split; [constructor; [|exact Fts]|].
      { exists (Z.max start es), (Z.min ee re). split; [lia|]. split; [lia|]. split; assumption. }
      split.
      { apply Forall_app. split; [|exact Frq]. destruct (start <? es) eqn:Q; [|constructor].
        constructor; [|constructor]. unfold req_ok. cbn [fst snd].
        repeat split; try lia; try assumption. }
      split; [lia|]. split; [exact G1|]. split; [discriminate|].
      intros t Ht [T1 T2] T3 _.
      destruct (Z_lt_le_dec t es) as [Q|Q].
      + left. exists (start, es). split; [|cbn; lia]. apply in_or_app. left.
        assert (X : (start <? es) = true) by lia. rewrite X. left. reflexivity.
      + destruct (Z_le_gt_dec t ee) as [Q2|Q2].
        * right. exists ts0. split; [left; reflexivity|]. apply FM. split; [lia | exact Ht].
        * assert (K : covered rq' tss' t).
          { apply Cov; [exact Ht | lia | exact T3 |]. intros Hnil. specialize (Z1 Hnil). lia. }
          eapply covered_mono; [| |exact K]; [intros x Hx; apply in_or_app; right; exact Hx | intros x Hx; right; exact Hx].
  Qed.
End Partition.

(* ================= F. handleHit ================= *)

Section Hit.
  Variable f : downstream.
  Variable sids : list Z.
  Hypothesis Hsids : incr sids.

  Lemma partition_spec st st' mstep rs re exts reqs cached :
    0 < st -> 0 < st' -> mode_ok st st' mstep -> (st | rs) -> (st | re) -> rs <= re ->
    Forall (ext_ok f sids st') exts ->
    partition rs re mstep exts = (reqs, cached) ->
    exists tss, cached = map (eval_on f sids) tss /\ Forall (ts_ok st rs re) tss
      /\ Forall (req_ok st st' rs re) reqs
      /\ forall t, (st | t) -> rs <= t <= re -> covered reqs tss t.
  Proof.
    intros Hst Hst' Hm Hrs Hre Hle F E. unfold partition in E.
    destruct (part_loop rs re mstep rs exts) as [[rq rp] fin] eqn:R.
    destruct (part_loop_spec f sids st st' mstep rs re Hst Hst' Hm Hrs Hre exts rs rq rp fin F Hrs ltac:(lia) R)
      as (tss & Erp & Fts & Frq & L1 & G1 & Z1 & Cov).
    assert (Hre' : (st' | re)) by (destruct Hm as [[_ ->]|[_ D]]; [exact Hre | eapply Z.divide_trans; eauto]).
    inversion E as [[E1 E2]]. clear E. subst cached. exists tss. split; [exact Erp|]. split; [exact Fts|].
    set (rq1 := if fin <? re then rq ++ [(fin, re)] else rq) in *.
    assert (F1 : Forall (req_ok st st' rs re) rq1).
    { unfold rq1. destruct (fin <? re) eqn:Q; [|exact Frq]. apply Forall_app. split; [exact Frq|].
      constructor; [|constructor]. unfold req_ok. cbn. repeat split; auto; lia. }
    split.
    { destruct ((rs =? re) && Nat.eqb (length rp) 0); [|exact F1]. apply Forall_app. split; [exact F1|].
      constructor; [|constructor]. unfold req_ok. cbn. repeat split; auto; lia. }
    intros t Ht [T1 T2].
    assert (Sub1 : forall x, In x rq -> In x rq1) by (intros x Hx; unfold rq1; destruct (fin <? re); [apply in_or_app; left|]; exact Hx).
    assert (Sub2 : forall x, In x rq1 -> In x (if (rs =? re) && Nat.eqb (length rp) 0 then rq1 ++ [(rs, re)] else rq1))
      by (intros x Hx; destruct ((rs =? re) && Nat.eqb (length rp) 0); [apply in_or_app; left|]; exact Hx).
    destruct (Z_lt_le_dec fin t) as [Q|Q].
    - (* after the last extent: the tail request *)
      left. exists (fin, re). split; [|cbn; lia]. apply Sub2. unfold rq1.
      assert (X : (fin <? re) = true) by lia. rewrite X. apply in_or_app. right. left. reflexivity.
    - destruct rp as [|c rp'] eqn:Erp'.
      + specialize (Z1 eq_refl). subst fin.
        assert (t = rs) by lia. subst t.
        left. destruct (Z.eq_dec rs re) as [->|Ne].
        * exists (re, re). split; [|cbn; lia]. rewrite Z.eqb_refl. cbn. apply in_or_app. right. left. reflexivity.
        * exists (rs, re). split; [|cbn; lia]. apply Sub2. unfold rq1.
          assert (X : (rs <? re) = true) by lia. rewrite X. apply in_or_app. right. left. reflexivity.
      + assert (K : covered rq tss t) by (apply Cov; [exact Ht | lia | lia | discriminate]).
        eapply covered_mono; [| |exact K]; [intros x Hx; apply Sub2, Sub1; exact Hx | auto].
  Qed.

  Lemma steps_is_iv a b st : 0 < st -> (st | a) -> is_iv st a b (steps a b st).
  Proof. intros H1 H2. split; [apply steps_incr; exact H1 | apply steps_iv; assumption]. Qed.

  Lemma hit_response st st' rs re reqs tss :
    0 < st -> (st | rs) -> 0 <= rs ->
    Forall (ts_ok st rs re) tss -> Forall (req_ok st st' rs re) reqs ->
    (forall t, (st | t) -> rs <= t <= re -> covered reqs tss t) ->
    merge_response (map (eval_on f sids) tss ++ map (fun ab => eval f sids (fst ab) (snd ab) st) reqs)
    = eval f sids rs re st.
  Proof.
    intros Hst Hrs Hrs0 Fts Frq Cov.
    replace (map (fun ab => eval f sids (fst ab) (snd ab) st) reqs)
      with (map (eval_on f sids) (map (fun ab => steps (fst ab) (snd ab) st) reqs))
      by (rewrite map_map; reflexivity).
    rewrite <- map_app. rewrite eval_eval_on.
    apply (merge_pieces_exact f sids Hsids st); [exact Hst | | apply steps_incr; exact Hst |].
    - apply Forall_app. split.
      + rewrite Forall_forall in *. intros ts Hts. destruct (Fts ts Hts) as (lo & hi & A & B & C).
        exists lo, hi. split; [lia | exact C].
      + rewrite Forall_forall in *. intros ts Hts. apply in_map_iff in Hts as (ab & <- & Hab).
        destruct (Frq ab Hab) as (A & B & C & D). exists (fst ab), (snd ab). split; [lia|].
        apply steps_is_iv; assumption.
    - intro t. rewrite (steps_iv rs re st Hst Hrs t). split.
      + intros [T1 T2]. destruct (Cov t T2 T1) as [(ab & A & B)|(ts & A & B)].
        * exists (steps (fst ab) (snd ab) st). split; [apply in_or_app; right; apply (in_map (fun ab => steps (fst ab) (snd ab) st)); exact A|].
          rewrite Forall_forall in Frq. destruct (Frq ab A) as (G & _). apply steps_iv; auto.
        * exists ts. split; [apply in_or_app; left; exact A | exact B].
      + intros (ts & Hts & Ht). apply in_app_or in Hts as [Hts|Hts].
        * rewrite Forall_forall in Fts. destruct (Fts ts Hts) as (lo & hi & A & B & _ & C). apply C in Ht. split; [lia | tauto].
        * apply in_map_iff in Hts as (ab & <- & Hab). rewrite Forall_forall in Frq.
          destruct (Frq ab Hab) as (G & _ & C & D). apply steps_iv in Ht; auto. split; [lia | tauto].
  Qed.

  (* ---- the extent list written back ---- *)

  Lemma ext_lt_asym x y : ext_lt x y = true -> ext_lt y x = false.
  Proof.
    destruct x as [[xs xe] xm], y as [[ys ye] ym]. cbn.
    destruct (xs =? ys) eqn:E1, (ys =? xs) eqn:E2; lia.
  Qed.

  Lemma ext_le_trans x y z : ext_lt y x = false -> ext_lt z y = false -> ext_lt z x = false.
  Proof.
    destruct x as [[xs xe] xm], y as [[ys ye] ym], z as [[zs ze] zm]. cbn.
    destruct (ys =? xs) eqn:E1, (zs =? ys) eqn:E2, (zs =? xs) eqn:E3; lia.
  Qed.

  Definition estart (e : extent) : Z := fst (fst e).

  Lemma ext_lt_false_start x y : ext_lt y x = false -> estart x <= estart y.
  Proof.
    destruct x as [[xs xe] xm], y as [[ys ye] ym]. cbn. destruct (ys =? xs) eqn:E; lia.
  Qed.

  Lemma merge_two_extents st as_ ae es ee :
    0 < st -> (st | as_) -> (st | ae) -> (st | es) -> 0 <= as_ -> 0 <= es ->
    as_ <= es -> es <= ae + st -> ae < ee ->
    merge_response [eval_on f sids (steps as_ ae st); eval_on f sids (steps es ee st)]
    = eval_on f sids (steps as_ ee st).
  Proof.
    intros Hst G1 G2 G3 N1 N2 O1 O2 O3.
    change [eval_on f sids (steps as_ ae st); eval_on f sids (steps es ee st)]
      with (map (eval_on f sids) [steps as_ ae st; steps es ee st]).
    apply (merge_pieces_exact f sids Hsids st); [exact Hst | | apply steps_incr; exact Hst |].
    - constructor; [exists as_, ae; split; [lia | apply steps_is_iv; assumption]|].
      constructor; [exists es, ee; split; [lia | apply steps_is_iv; assumption] | constructor].
    - intro t. rewrite (steps_iv as_ ee st Hst G1 t). split.
      + intros [T1 T2]. destruct (Z_le_gt_dec t ae) as [Q|Q].
        * exists (steps as_ ae st). split; [left; reflexivity|]. apply steps_iv; auto. split; [lia|exact T2].
        * exists (steps es ee st). split; [right; left; reflexivity|]. apply steps_iv; auto. split; [|exact T2].
          destruct T2 as [a Ha], G2 as [b Hb]. assert (a > b) by nia. nia.
      + intros (ts & [<-|[<-|[]]] & Ht); apply steps_iv in Ht; auto; split; try tauto; lia.
  Qed.

  Lemma merge_exts_ok st : 0 < st -> forall l acc,
    ext_ok f sids st acc -> Forall (ext_ok f sids st) l ->
    (forall y, In y l -> estart acc <= estart y) -> sortedr ext_lt l ->
    Forall (ext_ok f sids st) (merge_exts st acc l).
  Proof.
    intros Hst. induction l as [|e l IH]; intros acc Ha F Hs S.
    - cbn. constructor; [exact Ha | constructor].
    - inversion F as [|? ? He F']; subst. cbn in S. destruct S as [S1 S2].
      destruct acc as [[as_ ae] am], e as [[es ee] em]. cbn [merge_exts].
      assert (O1 : as_ <= es) by (apply (Hs (es, ee, em)); left; reflexivity).
      destruct (ae + st <? es) eqn:C1.
      + constructor; [exact Ha|]. apply IH; auto. intros y Hy. apply ext_lt_false_start. apply S1. exact Hy.
      + destruct (ae >=? ee) eqn:C2.
        * apply IH; auto. intros y Hy. apply Hs. right. exact Hy.
        * apply IH; auto; [|intros y Hy; apply (Hs y); right; exact Hy].
          destruct Ha as (A1 & A2 & A3 & A4), He as (B1 & B2 & B3 & B4). subst am em.
          unfold ext_ok. repeat split; auto. apply merge_two_extents; auto; lia.
  Qed.

  (* T fact: in handleHit's loop the fetched response is appended to the answer before the
     shouldCacheResponse test *)
  Lemma answer_first : answer_appended_before_store_test = true.
  Proof. reflexivity. Qed.

  Lemma handle_hit_spec (stor : Z -> Z -> bool) st st' rs re exts (matching : bool) resp wb :
    0 < st -> 0 < st' -> mode_ok st st' (if matching then st else 0) -> (st | rs) -> (st | re) -> 0 <= rs -> rs <= re ->
    Forall (ext_ok f sids st') exts ->
    handle_hit f sids stor rs re st exts matching = (resp, wb) ->
    resp = eval f sids rs re st /\
    (matching = false -> forall e', wb = Some e' -> Forall (ext_ok f sids st) e').
  Proof.
    intros Hst Hst' Hm Hrs Hre Hrs0 Hle F E. unfold handle_hit in E.
    destruct (partition rs re (if matching then st else 0) exts) as [reqs cached] eqn:P.
    destruct (partition_spec st st' _ rs re exts reqs cached Hst Hst' Hm Hrs Hre Hle F P) as (tss & Ec & Fts & Frq & Cov).
    subst cached.
    pose proof (hit_response st st' rs re reqs tss Hst Hrs Hrs0 Fts Frq Cov) as HR.
    destruct reqs as [|r0 reqs'] eqn:Ereqs.
    - inversion E; subst. cbn [map] in HR. rewrite app_nil_r in HR. split; [exact HR | intros _ e' K; discriminate].
    - rewrite <- Ereqs in *.
      set (rr := map (fun ab => (fst ab, snd ab, eval f sids (fst ab) (snd ab) st)) reqs) in *.
      set (storable := filter (fun x : extent => stor (fst (fst x)) (snd (fst x))) rr) in *.
      rewrite answer_first in E.
      assert (Emap : map snd rr = map (fun ab => eval f sids (fst ab) (snd ab) st) reqs)
        by (unfold rr; rewrite map_map; reflexivity).
      rewrite Emap in E.
      assert (Resp : resp = eval f sids rs re st).
      { destruct (sort_by ext_lt (exts ++ storable)); inversion E; subst; exact HR. }
      split; [exact Resp|]. intros -> e' K.
      destruct Hm as [[_ ->]|[Hbad _]]; [|lia].
      destruct (sort_by_spec ext_lt ext_lt_asym ext_le_trans (exts ++ storable)) as [Ss Sm].
      subst wb.
      destruct (sort_by ext_lt (exts ++ storable)) as [|e0 es] eqn:Es; inversion E as [[E1 E2]]; subst e'.
      assert (Fall : Forall (ext_ok f sids st) (e0 :: es)).
      { rewrite Forall_forall. intros x Hx. apply Sm in Hx. apply in_app_or in Hx as [Hx|Hx].
        - rewrite Forall_forall in F. apply F. exact Hx.
        - unfold storable in Hx. apply filter_In in Hx as [Hx _].
          unfold rr in Hx. apply in_map_iff in Hx as (ab & <- & Hab). rewrite Forall_forall in Frq.
          destruct (Frq ab Hab) as (A & B & C & D). unfold ext_ok. repeat split; auto. lia. }
      inversion Fall as [|? ? H0 Frest]; subst. cbn in Ss. destruct Ss as [S1 S2].
      apply merge_exts_ok; auto. intros y Hy. apply ext_lt_false_start. apply S1. exact Hy.
  Qed.
End Hit.

(* ================= G. the cache and whole histories ================= *)

Lemma ckey_eqb_eq a b : ckey_eqb a b = true <-> a = b.
Proof.
  destruct a as [a1 a2], b as [b1 b2]. unfold ckey_eqb. cbn. rewrite andb_true_iff, !Z.eqb_eq.
  split; [intros [-> ->]; reflexivity | intro H; inversion H; auto].
Qed.

Lemma lookup_store_same k v c : lookup k (store k v c) = Some v.
Proof.
  assert (R : ckey_eqb k k = true) by (apply ckey_eqb_eq; reflexivity).
  induction c as [|[k' v'] c IH]; cbn; [rewrite R; reflexivity|].
  destruct (ckey_eqb k k') eqn:E; cbn; [rewrite R; reflexivity|].
  destruct (ckey_lt k k'); cbn; [rewrite R; reflexivity | rewrite E; exact IH].
Qed.

Lemma lookup_store_other k k' v c : ckey_eqb k' k = false -> lookup k' (store k v c) = lookup k' c.
Proof.
  intro N. induction c as [|[k0 v0] c IH]; cbn; [rewrite N; reflexivity|].
  destruct (ckey_eqb k k0) eqn:E; cbn.
  - apply ckey_eqb_eq in E. subst k0. rewrite N. reflexivity.
  - destruct (ckey_lt k k0); cbn; [rewrite N; reflexivity|]. destruct (ckey_eqb k' k0); [reflexivity | exact IH].
Qed.

Lemma first_found_in ks c exts : first_found ks c = Some exts -> exists k, In k ks /\ lookup k c = Some exts.
Proof.
  induction ks as [|k ks IH]; cbn; [discriminate|]. destruct (lookup k c) eqn:E.
  - intro H. inversion H; subst. exists k. auto.
  - intro H. destruct (IH H) as (k' & A & B). exists k'. auto.
Qed.

Section History.
  Variable f : downstream.
  Variable sids : list Z.
  Hypothesis Hsids : incr sids.
  Variable sto : Z -> Z -> Z -> bool.   (* which fetched responses may be stored: arbitrary *)

  Definition cache_ok (c : cache) : Prop :=
    forall k exts, lookup k c = Some exts -> 0 < fst k /\ Forall (ext_ok f sids (fst k)) exts.

  Lemma cache_ok_store k v c : cache_ok c -> 0 < fst k -> Forall (ext_ok f sids (fst k)) v -> cache_ok (store k v c).
  Proof.
    intros H Hk Hv k' exts L. destruct (ckey_eqb k' k) eqn:E.
    - apply ckey_eqb_eq in E. subst k'. rewrite lookup_store_same in L. inversion L; subst. auto.
    - rewrite lookup_store_other in L by exact E. apply H. exact L.
  Qed.

  Lemma do_cache_spec split c rs re st resp c' :
    0 < st -> (st | rs) -> (st | re) -> 0 <= rs -> rs <= re -> cache_ok c ->
    do_cache f sids sto split c rs re st = (resp, c') ->
    resp = eval f sids rs re st /\ cache_ok c'.
  Proof.
    intros Hst Hrs Hre Hrs0 Hle Hc E. unfold do_cache in E.
    set (w := Z.quot rs split) in *.
    destruct (lookup (st, w) c) as [exts|] eqn:L.
    - destruct (Hc _ _ L) as [_ Fe]. cbn [fst] in Fe.
      destruct (handle_hit f sids (sto re) rs re st exts false) as [r wb] eqn:HH.
      inversion E; subst. clear E.
      destruct (handle_hit_spec f sids Hsids (sto re) st st rs re exts false resp wb Hst Hst (or_introl (conj eq_refl eq_refl)) Hrs Hre Hrs0 Hle Fe HH) as [A B].
      split; [exact A|]. destruct wb as [e'|]; [|exact Hc].
      apply cache_ok_store; [exact Hc | exact Hst | apply B; reflexivity].
    - destruct (first_found (map (fun a => (a, w)) (alt_steps rs st)) c) as [exts|] eqn:FF.
      + destruct (handle_hit f sids (sto re) rs re st exts true) as [r wb] eqn:HH. cbn [fst] in E.
        inversion E; subst. clear E. split; [|exact Hc].
        apply first_found_in in FF as (k & Hk & Lk).
        apply in_map_iff in Hk as (a & <- & Ha).
        destruct (Hc _ _ Lk) as [Ha0 Fe]. cbn [fst] in *.
        unfold alt_steps in Ha. destruct (existsb (Z.eqb st) common_query_steps); [|contradiction].
        apply filter_In in Ha as [_ Ha]. apply andb_true_iff in Ha as [Ha Ha3]. apply andb_true_iff in Ha as [Ha1 Ha2].
        assert (Hdiv : (a | st)) by (apply Z.rem_divide; lia).
        destruct (handle_hit_spec f sids Hsids (sto re) st a rs re exts true resp wb Hst Ha0 (or_intror (conj eq_refl Hdiv)) Hrs Hre Hrs0 Hle Fe HH) as [A _].
        exact A.
      + inversion E; subst. clear E. split; [reflexivity|].
        destruct (sto re rs re); [|exact Hc].
        apply cache_ok_store; [exact Hc | exact Hst|]. constructor; [|constructor].
        unfold ext_ok. cbn [fst]. repeat split; auto.
  Qed.

  Definition sub_ok (st : Z) (ab : Z * Z) : Prop :=
    (st | fst ab) /\ (st | snd ab) /\ 0 <= fst ab /\ fst ab <= snd ab.

  Lemma do_subs_spec split st : 0 < st -> forall subs c rs c',
    Forall (sub_ok st) subs -> cache_ok c ->
    do_subs f sids sto split c subs st = (rs, c') ->
    rs = map (fun ab => eval f sids (fst ab) (snd ab) st) subs /\ cache_ok c'.
  Proof.
    intros Hst. induction subs as [|[a b] subs IH]; intros c rs c' F Hc E.
    - cbn in E. inversion E; subst. auto.
    - inversion F as [|? ? Hab F']; subst. cbn [do_subs] in E.
      destruct (do_cache f sids sto split c a b st) as [r c1] eqn:D.
      destruct (do_subs f sids sto split c1 subs st) as [rs1 c2] eqn:D2.
      inversion E; subst. clear E.
      destruct Hab as (A1 & A2 & A3 & A4). cbn [fst snd] in *.
      destruct (do_cache_spec split c a b st r c1 Hst A1 A2 A3 A4 Hc D) as [-> Hc1].
      destruct (IH c1 rs1 c' F' Hc1 D2) as [-> Hc2]. auto.
  Qed.

  (* the sub-requests of the split middleware stay on the step grid *)
  Lemma split_loop_subs_ok step interval end_ : 0 < step -> 0 < Z.quot interval ns_per_ms -> (step | end_) ->
    forall fuel start l, (step | start) -> 0 <= start ->
    split_loop fuel start end_ step interval = Some l -> Forall (sub_ok step) l.
  Proof.
    intros Hst Hms Hend. induction fuel as [|fu IH]; intros start l Gs Ns E; [discriminate|].
    cbn [split_loop] in E. destruct (start <? end_) eqn:Q; [|inversion E; constructor].
    pose proof (nib_spec start step interval Hst Hms) as Hn. cbv zeta in Hn.
    set (e := nextIntervalBoundary start step interval) in *.
    destruct Hn as (Hle & Hrem & _ & _).
    destruct (split_loop fu (e + step) end_ step interval) as [r|] eqn:R; [|discriminate].
    inversion E; subst. clear E.
    assert (Ge : (step | e)).
    { apply Z.rem_divide in Hrem; [|lia]. replace e with ((e - start) + start) by lia. apply Z.divide_add_r; assumption. }
    constructor.
    - unfold sub_ok. cbn [fst snd]. destruct (e + step >=? end_) eqn:G; repeat split; auto; lia.
    - apply (IH (e + step) r); [apply Z.divide_add_r; [exact Ge | apply Z.divide_refl] | lia | exact R].
  Qed.

  Lemma do_query_spec split use_split c s0 e0 st r c' :
    0 < split -> 0 < st -> 0 <= s0 -> s0 <= e0 -> cache_ok c ->
    do_query f sids sto split use_split c (s0, e0, st) = Some (r, c') ->
    r = direct f sids (s0, e0, st) /\ cache_ok c'.
  Proof.
    intros Hsp Hst Hs0 Hse Hc E. unfold do_query, direct in *. unfold step_align in *.
    set (s := Z.quot s0 st * st) in *. set (e := Z.quot e0 st * st) in *.
    assert (Gs : (st | s)) by (exists (Z.quot s0 st); reflexivity).
    assert (Ge : (st | e)) by (exists (Z.quot e0 st); reflexivity).
    assert (Ns : 0 <= s) by (unfold s; pose proof (Z.quot_pos s0 st Hs0 ltac:(lia)); nia).
    assert (Hle : s <= e).
    { unfold s, e. assert (Z.quot s0 st <= Z.quot e0 st) by (apply Z.quot_le_mono; lia). nia. }
    destruct use_split.
    - assert (Hms : 0 < Z.quot (split * ns_per_ms) ns_per_ms)
        by (unfold ns_per_ms; rewrite Z.quot_mul by lia; lia).
      destruct (split_query_correct s e st _ Hst Hms Hle) as (l & Hl & Hcat & _).
      rewrite Hl in E.
      destruct (do_subs f sids sto split c l st) as [rs cc] eqn:D.
      inversion E; subst. clear E.
      assert (Fsub : Forall (sub_ok st) l).
      { unfold split_query in Hl. destruct (s =? e) eqn:Q.
        - inversion Hl; subst. constructor; [|constructor]. unfold sub_ok. cbn. repeat split; auto; lia.
        - exact (split_loop_subs_ok st (split * ns_per_ms) e Hst Hms Ge _ s l Gs Ns Hl). }
      destruct (do_subs_spec split st Hst l c rs c' Fsub Hc D) as [-> Hc']. split; [|exact Hc'].
      replace (map (fun ab => eval f sids (fst ab) (snd ab) st) l)
        with (map (eval_on f sids) (map (fun p => steps (fst p) (snd p) st) l)) by (rewrite map_map; reflexivity).
      rewrite eval_eval_on.
      apply (merge_pieces_exact f sids Hsids st); [exact Hst | | apply steps_incr; exact Hst |].
      + rewrite Forall_forall in *. intros ts Hts. apply in_map_iff in Hts as (ab & <- & Hab).
        destruct (Fsub ab Hab) as (A & B & C & D'). exists (fst ab), (snd ab). split; [exact C|].
        split; [apply steps_incr; exact Hst | apply steps_iv; assumption].
      + intro t. rewrite <- Hcat. rewrite in_concat. split; intros (x & A & B); exists x; auto.
    - destruct (do_cache f sids sto split c s e st) as [r1 c1] eqn:D. inversion E; subst. clear E.
      eapply do_cache_spec; eauto.
  Qed.

  Definition query_ok (q : Z * Z * Z) : Prop := let '(s, e, st) := q in 0 < st /\ 0 <= s /\ s <= e.

  Lemma do_query_total split use_split c s0 e0 st :
    0 < split -> 0 < st -> 0 <= s0 -> s0 <= e0 ->
    do_query f sids sto split use_split c (s0, e0, st) <> None.
  Proof.
    intros Hsp Hst Hs0 Hse. unfold do_query, step_align.
    set (s := Z.quot s0 st * st). set (e := Z.quot e0 st * st).
    assert (Hle : s <= e).
    { unfold s, e. assert (Z.quot s0 st <= Z.quot e0 st) by (apply Z.quot_le_mono; lia). nia. }
    destruct use_split; [|destruct (do_cache f sids sto split c s e st); discriminate].
    assert (Hms : 0 < Z.quot (split * ns_per_ms) ns_per_ms)
      by (unfold ns_per_ms; rewrite Z.quot_mul by lia; lia).
    destruct (split_query_correct s e st _ Hst Hms Hle) as (l & Hl & _). rewrite Hl.
    destruct (do_subs f sids sto split c l st). discriminate.
  Qed.

  Theorem history_exact split use_split : 0 < split -> forall qs c,
    Forall query_ok qs -> cache_ok c ->
    exists rs c', history f sids sto split use_split c qs = Some (rs, c')
      /\ rs = map (direct f sids) qs /\ cache_ok c'.
  Proof.
    intros Hsp. induction qs as [|[[s0 e0] st] qs IH]; intros c F Hc.
    - exists [], c. cbn. auto.
    - inversion F as [|? ? Hq F']; subst. cbn in Hq. destruct Hq as (Hst & Hs0 & Hse). cbn [history].
      destruct (do_query f sids sto split use_split c (s0, e0, st)) as [[r c1]|] eqn:D;
        [|exfalso; exact (do_query_total split use_split c s0 e0 st Hsp Hst Hs0 Hse D)].
      destruct (do_query_spec split use_split c s0 e0 st r c1 Hsp Hst Hs0 Hse Hc D) as [-> Hc1].
      destruct (IH c1 F' Hc1) as (rs & c' & E & -> & Hc'). rewrite E.
      exists (direct f sids (s0, e0, st) :: map (direct f sids) qs), c'. auto.
  Qed.

  Lemma cache_ok_empty : cache_ok [].
  Proof. intros k exts L. cbn in L. discriminate. Qed.
End History.

(* ---- the boolean predicate of the check ---- *)
Lemma list_eqb_refl {A} (eqb : A -> A -> bool) : (forall x, eqb x x = true) -> forall l, list_eqb eqb l l = true.
Proof. intros H. induction l as [|x l IH]; cbn; [reflexivity|]. rewrite H, IH. reflexivity. Qed.

Lemma matrix_eqb_refl m : matrix_eqb m m = true.
Proof.
  apply list_eqb_refl. intros [s l]. cbn. rewrite Z.eqb_refl. cbn.
  apply list_eqb_refl. intros [t v]. unfold zz_eqb'. cbn. rewrite !Z.eqb_refl. reflexivity.
Qed.

Theorem history_pred d ns atm split use_split qs :
  incr (map fst d) -> 0 < split -> Forall query_ok qs ->
  exists rs c, history (f_of d) (map fst d) (sto_of ns atm) split use_split [] qs = Some (rs, c)
    /\ pred_ok (CHist split use_split d ns atm qs rs c) = true.
Proof.
  intros Hs Hsp F.
  destruct (history_exact (f_of d) (map fst d) Hs (sto_of ns atm) split use_split Hsp qs [] F (cache_ok_empty _ _)) as (rs & c & E & -> & _).
  exists (map (direct (f_of d) (map fst d)) qs), c. split; [exact E|].
  cbn [pred_ok]. apply list_eqb_refl. apply matrix_eqb_refl.
Qed.

(* ---- float and native-histogram streams of the same series ---- *)
Opaque Z.mul.
Lemma both_kinds_incr (l : list (Z * list (Z * Z) * list (Z * Z))) :
  incr (map (fun x => fst (fst x)) l) ->
  incr (map fst (flat_map (fun x => [(2 * fst (fst x), snd (fst x)); (2 * fst (fst x) + 1, snd x)]) l)).
Proof.
  induction l as [|[[s a] b] l IH]; intro H; [exact I|]. cbn in H. destruct H as [H1 H2].
  cbn [flat_map app map fst snd incr]. specialize (IH H2).
  assert (K : forall y, In y (map fst (flat_map (fun x => [(2 * fst (fst x), snd (fst x)); (2 * fst (fst x) + 1, snd x)]) l)) -> 2 * s + 1 < y).
  { intros y Hy. apply in_map_iff in Hy as ([y' iv] & <- & Hy). apply in_flat_map in Hy as ([[s' a'] b'] & Hs' & Hy).
    assert (s < s') by (apply H1; apply in_map_iff; exists (s', a', b'); auto).
    cbn [In fst snd] in Hy. destruct Hy as [E|[E|[]]]; inversion E; subst; cbn [fst]; lia. }
  split; [|split; [exact K | exact IH]].
  intros y [<-|Hy]; [lia | specialize (K y Hy); lia].
Qed.
Transparent Z.mul.

Theorem history_kinds (l : list (Z * list (Z * Z) * list (Z * Z))) ns atm split use_split qs :
  incr (map (fun x => fst (fst x)) l) -> 0 < split -> Forall query_ok qs ->
  slice_keeps_equal = false /\
  exists rs c,
    history (f_of (flat_map (fun x => [(2 * fst (fst x), snd (fst x)); (2 * fst (fst x) + 1, snd x)]) l))
            (map fst (flat_map (fun x => [(2 * fst (fst x), snd (fst x)); (2 * fst (fst x) + 1, snd x)]) l))
            (sto_of ns atm) split use_split [] qs = Some (rs, c)
    /\ pred_ok (CHist split use_split (flat_map (fun x => [(2 * fst (fst x), snd (fst x)); (2 * fst (fst x) + 1, snd x)]) l) ns atm qs rs c) = true.
Proof.
  intros H Hsp F. split; [apply slice_strict|]. apply history_pred; auto. apply both_kinds_incr. exact H.
Qed.
