(* C21 — lemmas. *)
From Coq Require Import ZArith List Bool Lia Arith Permutation.
Import ListNotations.
From Verif Require Import Lib.Corr Lib.Hashring_Ketama Lib.Hashring_KetamaFacts Gen.C21 Model.C21.
From Verif Require Model.C18 Proofs.C18.
Close Scope Z_scope.

(* ------------------------------------------------------------------ *)
(* overrides: the source (as read on this run) implements the documented semantics *)

Lemma unset_is_exact_true : unset_is_exact = true.
Proof. reflexivity. Qed.

Lemma shard_size_is_documented ovs : forall globm tenant dflt,
  shard_size ovs globm tenant dflt = shard_size_doc ovs globm tenant dflt.
Proof.
  induction ovs as [|[[size mt] ts] r IH]; intros globm tenant dflt; simpl; [reflexivity|].
  rewrite IH. try rewrite unset_is_exact_true. destruct mt; reflexivity.
Qed.

(* first match wins *)
Lemma shard_size_first_match size mt ts r globm tenant dflt :
  (mt = MExact \/ mt = MUnset) -> In tenant ts ->
  shard_size ((size, mt, ts) :: r) globm tenant dflt = size.
Proof.
  intros Hmt Hin. simpl. try rewrite unset_is_exact_true.
  assert (E : existsb (Z.eqb tenant) ts = true).
  { apply existsb_exists. exists tenant. split; [exact Hin|apply Z.eqb_refl]. }
  destruct Hmt as [-> | ->]; rewrite E; reflexivity.
Qed.

(* ------------------------------------------------------------------ *)
(* the cache is transparent for every eviction policy                   *)

Lemma cache_transparent compute evict :
  (forall c p, In p (evict c) -> In p c) ->
  forall ts cache,
  (forall p, In p cache -> snd p = compute (fst p)) ->
  run_requests compute evict cache ts = map compute ts.
Proof.
  intros Hev. induction ts as [|t r IH]; intros cache Hinv; simpl; [reflexivity|].
  unfold cache_get. destruct (find (fun p => (fst p =? t)%Z) cache) as [p|] eqn:F.
  - apply find_some in F as [Hin Ht]. apply Z.eqb_eq in Ht. rewrite (Hinv p Hin), Ht. f_equal. apply IH. exact Hinv.
  - destruct (compute t) eqn:C; f_equal.
    + apply IH. intros p Hp. apply Hev in Hp. destruct Hp as [<-|Hp]; [simpl; symmetry; exact C|auto].
    + apply IH. exact Hinv.
Qed.

(* ------------------------------------------------------------------ *)
(* selection inside one zone                                            *)

Lemma pick_first_spec secs selected :
  match pick_first secs selected with
  | Some e => ~ In e selected /\ exists s, In s secs /\ s_ep s = e
  | None => forall s, In s secs -> In (s_ep s) selected
  end.
Proof.
  induction secs as [|s r IH]; simpl; [intros ? []|].
  destruct (existsb (Nat.eqb (s_ep s)) selected) eqn:E.
  - destruct (pick_first r selected) as [e|].
    + destruct IH as [H1 [s' [H2 H3]]]. split; [exact H1|]. exists s'. split; [now right|exact H3].
    + intros s' [<-|H]; [apply existsb_nat_In; exact E|auto].
  - split.
    + intro H. apply existsb_nat_In in H. congruence.
    + exists s. split; [now left|reflexivity].
Qed.

Lemma rot_In {A} (l : list A) i x : In x (rot l i) <-> In x l.
Proof.
  unfold rot. rewrite in_app_iff. rewrite <- (firstn_skipn i l) at 3. rewrite in_app_iff. tauto.
Qed.

(* [D]: the distinct endpoints that own a section of the zone *)
Lemma select_spec secs D : NoDup D -> (forall d, In d D -> exists s, In s secs /\ s_ep s = d) ->
  forall take positions selected,
  take <= length positions ->
  NoDup selected -> length selected + take <= length D ->
  let l := select secs positions take selected in
  NoDup l /\ length l = length selected + take /\
  (forall e, In e l -> In e selected \/ exists s, In s secs /\ s_ep s = e) /\
  (forall e, In e selected -> In e l).
Proof.
  intros HD Hown. induction take as [|t IH]; intros positions selected Hpos Hnd Hlen; simpl.
  - split; [exact Hnd|]. split; [lia|]. split; auto.
  - destruct positions as [|pos ps]; [simpl in Hpos; lia|]. simpl in Hpos.
    pose proof (pick_first_spec (rot secs (ring_index secs pos)) selected) as PF.
    destruct (pick_first (rot secs (ring_index secs pos)) selected) as [e|].
    + destruct PF as [Hn [s [Hs He]]]. apply rot_In in Hs.
      destruct (IH ps (selected ++ [e])) as [H1 [H2 [H3 H4]]].
      * lia.
      * apply NoDup_snoc; assumption.
      * rewrite app_length. simpl. lia.
      * split; [exact H1|]. split; [rewrite H2, app_length; simpl; lia|]. split.
        -- intros x Hx. destruct (H3 x Hx) as [Hx'|Hx']; [|now right].
           apply in_app_or in Hx' as [Hx'|[<-|[]]]; [now left|right; eauto].
        -- intros x Hx. apply H4. apply in_or_app. now left.
    + (* impossible: some endpoint of D is not selected yet *)
      exfalso.
      assert (Hincl : incl D selected).
      { intros d Hd. destruct (Hown d Hd) as [s [Hs <-]]. apply PF. apply rot_In. exact Hs. }
      apply NoDup_incl_length in Hincl; [lia|exact HD].
Qed.

(* ------------------------------------------------------------------ *)
(* every replica lies inside the tenant's shard                         *)

Lemma NoDup_map_nth (nodes a : list nat) :
  NoDup nodes -> NoDup a -> (forall e, In e a -> e < length nodes) ->
  NoDup (map (fun i => nth i nodes 0) a).
Proof.
  intros Hnd. induction a as [|x a IH]; simpl; intros H2 H3; [constructor|].
  inversion H2 as [|? ? H4 H5]; subst. constructor.
  - intro Hin. apply in_map_iff in Hin as [y [Ey Hy]].
    assert (E : y = x).
    { apply (proj1 (NoDup_nth nodes 0) Hnd); [apply H3; now right|apply H3; now left|exact Ey]. }
    rewrite E in Hy. exact (H4 Hy).
  - apply IH; [assumption|]. intros e He. apply H3. now right.
Qed.

Lemma answers_inside_shard (nodes : list nat) sub_eps rf v a :
  length sub_eps = length nodes ->
  sections_of 0 sub_eps <> [] ->
  Model.C18.ketama_answers sub_eps rf v = Some a ->
  length a = rf /\
  (forall i, In i a -> In (nth i nodes 0) nodes) /\
  (NoDup nodes -> NoDup (map (fun i => nth i nodes 0) a)).
Proof.
  intros Hlen Hne H.
  destruct (Proofs.C18.ketama_answers_distinct _ _ _ _ Hne H) as [H1 [H2 H3]].
  split; [exact H1|]. split.
  - intros i Hi. apply nth_In. rewrite <- Hlen. auto.
  - intro Hnd. apply NoDup_map_nth; [exact Hnd|exact H2|]. intros e He. rewrite <- Hlen. auto.
Qed.
