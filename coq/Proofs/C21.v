(* C21 — lemmas. *)
From Coq Require Import ZArith List Bool Lia Arith Permutation.
Import ListNotations.
From Verif Require Import Lib.Corr Lib.Hashring_Ketama Lib.Hashring_KetamaFacts Gen.C21 Model.C21.
From Verif Require Import Lib.Hashring_Answers Lib.Hashring_AnswersFacts.
Close Scope Z_scope.

(* ------------------------------------------------------------------ *)
(* overrides: the source (as read on this run) implements the documented semantics *)

Lemma unset_is_exact_true : unset_is_exact = true.
Proof. reflexivity. Qed.

Lemma shard_size_is_documented ovs : forall globm tenant dflt,
  shard_size ovs globm tenant dflt = shard_size_doc ovs globm tenant dflt.
Proof.
  induction ovs as [|[[size mt] ts] r IH]; intros globm tenant dflt; simpl; [reflexivity|].
  rewrite IH. try rewrite unset_is_exact_true. destruct mt; reflexivity.
Qed.

(* first match wins *)
Lemma shard_size_first_match size mt ts r globm tenant dflt :
  (mt = MExact \/ mt = MUnset) -> In tenant ts ->
  shard_size ((size, mt, ts) :: r) globm tenant dflt = size.
Proof.
  intros Hmt Hin. simpl. try rewrite unset_is_exact_true.
  assert (E : existsb (Z.eqb tenant) ts = true).
  { apply existsb_exists. exists tenant. split; [exact Hin|apply Z.eqb_refl]. }
  destruct Hmt as [-> | ->]; rewrite E; reflexivity.
Qed.

(* ------------------------------------------------------------------ *)
(* the cache is transparent for every eviction policy                   *)

Lemma cache_transparent compute evict :
  (forall c p, In p (evict c) -> In p c) ->
  forall ts cache,
  (forall p, In p cache -> snd p = compute (fst p)) ->
  run_requests compute evict cache ts = map compute ts.
Proof.
  intros Hev. induction ts as [|t r IH]; intros cache Hinv; simpl; [reflexivity|].
  unfold cache_get. destruct (find (fun p => (fst p =? t)%Z) cache) as [p|] eqn:F.
  - apply find_some in F as [Hin Ht]. apply Z.eqb_eq in Ht. rewrite (Hinv p Hin), Ht. f_equal. apply IH. exact Hinv.
  - destruct (compute t) eqn:C; f_equal.
    + apply IH. intros p Hp. apply Hev in Hp. destruct Hp as [<-|Hp]; [simpl; symmetry; exact C|auto].
    + apply IH. exact Hinv.
Qed.

(* ------------------------------------------------------------------ *)
(* selection inside one zone                                            *)

Lemma pick_first_spec secs selected :
  match pick_first secs selected with
  | Some e => ~ In e selected /\ exists s, In s secs /\ s_ep s = e
  | None => forall s, In s secs -> In (s_ep s) selected
  end.
Proof.
  induction secs as [|s r IH]; simpl; [intros ? []|].
  destruct (existsb (Nat.eqb (s_ep s)) selected) eqn:E.
  - destruct (pick_first r selected) as [e|].
    + destruct IH as [H1 [s' [H2 H3]]]. split; [exact H1|]. exists s'. split; [now right|exact H3].
    + intros s' [<-|H]; [apply existsb_nat_In; exact E|auto].
  - split.
    + intro H. apply existsb_nat_In in H. congruence.
    + exists s. split; [now left|reflexivity].
Qed.

Lemma rot_In {A} (l : list A) i x : In x (rot l i) <-> In x l.
Proof.
  unfold rot. rewrite in_app_iff. rewrite <- (firstn_skipn i l) at 3. rewrite in_app_iff. tauto.
Qed.

(* [D]: the distinct endpoints that own a section of the zone *)
Lemma select_spec secs D : NoDup D -> (forall d, In d D -> exists s, In s secs /\ s_ep s = d) ->
  forall take positions selected,
  take <= length positions ->
  NoDup selected -> length selected + take <= length D ->
  let l := select secs positions take selected in
  NoDup l /\ length l = length selected + take /\
  (forall e, In e l -> In e selected \/ exists s, In s secs /\ s_ep s = e) /\
  (forall e, In e selected -> In e l).
Proof.
  intros HD Hown. induction take as [|t IH]; intros positions selected Hpos Hnd Hlen; simpl.
  - split; [exact Hnd|]. split; [lia|]. split; auto.
  - destruct positions as [|pos ps]; [simpl in Hpos; lia|]. simpl in Hpos.
    pose proof (pick_first_spec (rot secs (ring_index secs pos)) selected) as PF.
    destruct (pick_first (rot secs (ring_index secs pos)) selected) as [e|].
    + destruct PF as [Hn [s [Hs He]]]. apply rot_In in Hs.
      destruct (IH ps (selected ++ [e])) as [H1 [H2 [H3 H4]]].
      * lia.
      * apply NoDup_snoc; assumption.
      * rewrite app_length. simpl. lia.
      * split; [exact H1|]. split; [rewrite H2, app_length; simpl; lia|]. split.
        -- intros x Hx. destruct (H3 x Hx) as [Hx'|Hx']; [|now right].
           apply in_app_or in Hx' as [Hx'|[<-|[]]]; [now left|right; eauto].
        -- intros x Hx. apply H4. apply in_or_app. now left.
    + (* impossible: some endpoint of D is not selected yet *)
      exfalso.
      assert (Hincl : incl D selected).
      { intros d Hd. destruct (Hown d Hd) as [s [Hs <-]]. apply PF. apply rot_In. exact Hs. }
      apply NoDup_incl_length in Hincl; [lia|exact HD].
Qed.

(* ------------------------------------------------------------------ *)
(* every replica lies inside the tenant's shard                         *)

Lemma NoDup_map_nth (nodes a : list nat) :
  NoDup nodes -> NoDup a -> (forall e, In e a -> e < length nodes) ->
  NoDup (map (fun i => nth i nodes 0) a).
Proof.
  intros Hnd. induction a as [|x a IH]; simpl; intros H2 H3; [constructor|].
  inversion H2 as [|? ? H4 H5]; subst. constructor.
  - intro Hin. apply in_map_iff in Hin as [y [Ey Hy]].
    assert (E : y = x).
    { apply (proj1 (NoDup_nth nodes 0) Hnd); [apply H3; now right|apply H3; now left|exact Ey]. }
    rewrite E in Hy. exact (H4 Hy).
  - apply IH; [assumption|]. intros e He. apply H3. now right.
Qed.

Lemma answers_inside_shard (nodes : list nat) sub_eps rf v a :
  length sub_eps = length nodes ->
  sections_of 0 sub_eps <> [] ->
  ketama_answers sub_eps rf v = Some a ->
  length a = rf /\
  (forall i, In i a -> In (nth i nodes 0) nodes) /\
  (NoDup nodes -> NoDup (map (fun i => nth i nodes 0) a)).
Proof.
  intros Hlen Hne H.
  destruct (ketama_answers_distinct _ _ _ _ Hne H) as [H1 [H2 H3]].
  split; [exact H1|]. split.
  - intros i Hi. apply nth_In. rewrite <- Hlen. auto.
  - intro Hnd. apply NoDup_map_nth; [exact Hnd|exact H2|]. intros e He. rewrite <- Hlen. auto.
Qed.

(* ------------------------------------------------------------------ *)
(* the whole shard: zone after zone                                     *)

Definition az_at (eps : list (Z * list Z)) (e : nat) : Z := fst (nth e eps (0%Z, [])).

Lemma NoDup_app_disjoint {A} (l l' : list A) :
  NoDup l -> NoDup l' -> (forall x, In x l -> ~ In x l') -> NoDup (l ++ l').
Proof.
  induction l as [|a l IH]; simpl; intros H H' Hd; [exact H'|].
  inversion H; subst. constructor.
  - intro Hin. apply in_app_or in Hin as [Hin|Hin]; [contradiction|]. apply (Hd a); [now left|exact Hin].
  - apply IH; [assumption|assumption|]. intros x Hx. apply Hd. now right.
Qed.

Lemma filter_map_comm {A B} (f : B -> bool) (g : A -> B) l : filter f (map g l) = map g (filter (fun x => f (g x)) l).
Proof. induction l as [|a l IH]; simpl; [reflexivity|]. destruct (f (g a)); simpl; rewrite IH; reflexivity. Qed.

Lemma zone_nodes_as_positions disabled eps z :
  zone_nodes disabled eps z
  = length (filter (fun k => (zone_of disabled (az_at eps k) =? z)%Z) (seq 0 (length eps))).
Proof.
  unfold zone_nodes, az_at.
  rewrite <- (map_nth_seq (0%Z, @nil Z) eps) at 1.
  rewrite filter_map_comm, map_length. reflexivity.
Qed.

Lemma zones_of_NoDup disabled eps : forall seen, NoDup seen -> NoDup (zones_of disabled seen eps).
Proof.
  induction eps as [|[az hs] r IH]; intros seen Hnd; simpl.
  - apply NoDup_rev. exact Hnd.
  - destruct (existsb (Z.eqb (zone_of disabled az)) seen) eqn:E; [apply IH; exact Hnd|].
    apply IH. constructor; [|exact Hnd]. intro Hin.
    assert (existsb (Z.eqb (zone_of disabled az)) seen = true); [|congruence].
    apply existsb_exists. exists (zone_of disabled az). split; [exact Hin|apply Z.eqb_refl].
Qed.

Lemma count_zone_app disabled eps a b z :
  count_zone disabled eps (a ++ b) z = count_zone disabled eps a z + count_zone disabled eps b z.
Proof. unfold count_zone. rewrite filter_app, app_length. reflexivity. Qed.

Lemma count_zone_all disabled eps l z :
  (forall e, In e l -> zone_of disabled (az_at eps e) = z) -> count_zone disabled eps l z = length l.
Proof.
  intro H. unfold count_zone. f_equal. induction l as [|a l IH]; simpl; [reflexivity|].
  unfold az_at in H. rewrite (H a (or_introl eq_refl)), Z.eqb_refl. f_equal. apply IH. intros. apply H. now right.
Qed.

Lemma count_zone_none disabled eps l z :
  (forall e, In e l -> zone_of disabled (az_at eps e) <> z) -> count_zone disabled eps l z = 0.
Proof.
  intro H. unfold count_zone. induction l as [|a l IH]; simpl; [reflexivity|].
  unfold az_at in H. destruct (Z.eqb_spec (zone_of disabled (fst (nth a eps (0%Z, [])))) z) as [E|E].
  - exfalso. apply (H a); [now left|exact E].
  - apply IH. intros. apply H. now right.
Qed.

Section Shard.
  Variable disabled : bool.
  Variable eps : list (Z * list Z).
  Hypothesis Hsec : Forall (fun e => snd e <> []) eps.
  Variable rand : list (Z * list Z).
  Variable take : Z.
  Hypothesis Htake : (0 <= take)%Z.
  Let ring := sort_sections (sections_of 0 eps).

  Lemma ring_section_facts s : In s ring -> s_ep s < length eps /\ s_az s = az_at eps (s_ep s).
  Proof.
    intro Hs. apply (proj1 (sort_sections_In _ _)) in Hs.
    apply sections_of_In in Hs as [B [hs [Hn _]]]. rewrite Nat.sub_0_r in Hn. split; [lia|].
    unfold az_at. erewrite nth_error_nth; [|exact Hn]. reflexivity.
  Qed.

  Lemma node_has_section k : k < length eps -> exists s, In s ring /\ s_ep s = k /\ s_az s = az_at eps k.
  Proof.
    intro Hk. destruct (nth_error eps k) as [[az hs]|] eqn:N; [|apply nth_error_None in N; lia].
    assert (hs <> []). { rewrite Forall_forall in Hsec. apply (Hsec (az, hs)). eapply nth_error_In; eauto. }
    destruct (sections_of_has eps 0 k az hs N H) as [s [Hin [He Ha]]].
    exists s. split; [apply sort_sections_In; exact Hin|]. split; [exact He|].
    unfold az_at. erewrite nth_error_nth; [|exact N]. exact Ha.
  Qed.

  Lemma shard_zones_spec : forall zs nodes, NoDup zs ->
    (forall z, In z zs -> Z.to_nat take <= length (lookup_pos rand z)) ->
    shard_zones disabled eps ring rand take zs = Some nodes ->
    NoDup nodes /\
    (forall e, In e nodes -> e < length eps /\ In (zone_of disabled (az_at eps e)) zs) /\
    (forall z, In z zs -> count_zone disabled eps nodes z = Z.to_nat take) /\
    length nodes = length zs * Z.to_nat take.
  Proof.
    induction zs as [|z r IH]; intros nodes Hnd Hpos H; simpl in H.
    - inversion H; subst. split; [constructor|]. split; [intros ? []|]. split; [intros ? []|reflexivity].
    - destruct (Z.of_nat (zone_nodes disabled eps z) <? take)%Z eqn:G; [discriminate|]. apply Z.ltb_ge in G.
      destruct (shard_zones disabled eps ring rand take r) as [rest|] eqn:R; [|discriminate].
      inversion Hnd as [|? ? Hz Hnd']; subst.
      destruct (IH rest Hnd' (fun z' Hz' => Hpos z' (or_intror Hz')) eq_refl) as [I1 [I2 [I3 I4]]].
      set (secs := filter (fun s => (zone_of disabled (s_az s) =? z)%Z) ring) in *.
      set (D := filter (fun k => (zone_of disabled (az_at eps k) =? z)%Z) (seq 0 (length eps))).
      assert (HD : NoDup D) by (apply NoDup_filter, seq_NoDup).
      assert (HDlen : length D = zone_nodes disabled eps z) by (symmetry; apply zone_nodes_as_positions).
      assert (Hown : forall d, In d D -> exists s, In s secs /\ s_ep s = d).
      { intros d Hd. apply filter_In in Hd as [Hd Hz']. apply in_seq in Hd.
        destruct (node_has_section d) as [s [Hs [He Ha]]]; [lia|].
        exists s. split; [|exact He]. apply filter_In. split; [exact Hs|]. rewrite Ha. exact Hz'. }
      set (sel := if length secs =? 0 then [] else select secs (lookup_pos rand z) (Z.to_nat take) []) in *.
      assert (Hsel : NoDup sel /\ length sel = Z.to_nat take /\
                     forall e, In e sel -> exists s, In s secs /\ s_ep s = e).
      { unfold sel. destruct (length secs =? 0) eqn:E0.
        - apply Nat.eqb_eq in E0. split; [constructor|]. split; [|intros ? []].
          destruct D as [|d D'] eqn:ED.
          + simpl in HDlen. rewrite <- HDlen in G. simpl. lia.
          + destruct (Hown d (or_introl eq_refl)) as [s [Hs _]].
            apply length_zero_iff_nil in E0. rewrite E0 in Hs. contradiction.
        - destruct (select_spec secs D HD Hown (Z.to_nat take) (lookup_pos rand z) []) as [S1 [S2 [S3 _]]].
          + apply Hpos. now left.
          + constructor.
          + simpl. rewrite HDlen. lia.
          + split; [exact S1|]. split; [rewrite S2; reflexivity|].
            intros e He. destruct (S3 e He) as [[]|H']. exact H'. }
      destruct Hsel as [S1 [S2 S3]].
      assert (Hselzone : forall e, In e sel -> e < length eps /\ zone_of disabled (az_at eps e) = z).
      { intros e He. destruct (S3 e He) as [s [Hs <-]]. apply filter_In in Hs as [Hs Hz'].
        destruct (ring_section_facts s Hs) as [B Ha]. split; [exact B|]. rewrite <- Ha. apply Z.eqb_eq. exact Hz'. }
      inversion H; subst nodes. clear H. split; [|split; [|split]].
      + apply NoDup_app_disjoint; [exact S1|exact I1|].
        intros x Hx Hx'. destruct (Hselzone x Hx) as [_ Zx]. destruct (I2 x Hx') as [_ Zr].
        rewrite Zx in Zr. contradiction.
      + intros e He. apply in_app_or in He as [He|He].
        * destruct (Hselzone e He) as [B Zx]. split; [exact B|]. rewrite Zx. now left.
        * destruct (I2 e He) as [B Zr]. split; [exact B|now right].
      + intros z' [<-|Hz'].
        * rewrite count_zone_app, (count_zone_all disabled eps sel z), (count_zone_none disabled eps rest z); [lia| |].
          -- intros e He Ez. destruct (I2 e He) as [_ Zr]. rewrite Ez in Zr. contradiction.
          -- intros e He. apply Hselzone. exact He.
        * rewrite count_zone_app, (count_zone_none disabled eps sel z'), (I3 z' Hz'); [lia|].
          intros e He Ez. destruct (Hselzone e He) as [_ Zx]. rewrite Zx in Ez. subst. contradiction.
      + rewrite app_length, S2, I4. simpl. lia.
  Qed.
End Shard.

Lemma zones_of_keeps disabled r : forall seen z0, In z0 seen -> In z0 (zones_of disabled seen r).
Proof.
  induction r as [|[a h] r IH]; intros seen z0 Hin; simpl; [rewrite <- in_rev; exact Hin|].
  destruct (existsb (Z.eqb (zone_of disabled a)) seen); apply IH; [exact Hin|now right].
Qed.

Lemma per_zone_nonneg ss nz : (0 <= ss)%Z -> 0 < nz -> (0 <= per_zone ss nz)%Z.
Proof. intros H Hn. unfold per_zone. apply Z.div_pos; lia. Qed.

Lemma tenant_shard_sized eps rf dflt disabled ovs globm tenant rand nodes :
  Forall (fun e => snd e <> []) eps -> eps <> [] ->
  let zs := zones_of disabled [] eps in
  let ss := shard_size ovs globm tenant dflt in
  let take := if disabled then ss else per_zone ss (length zs) in
  (0 <= ss)%Z ->
  (forall z, In z zs -> Z.to_nat take <= length (lookup_pos rand z)) ->
  tenant_shard eps rf dflt disabled ovs globm tenant rand = SOk nodes ->
  NoDup nodes /\ (forall e, In e nodes -> e < length eps) /\
  (forall z, In z zs -> Z.of_nat (count_zone disabled eps nodes z) = take) /\
  Z.of_nat (length nodes) = (Z.of_nat (length zs) * take)%Z /\ rf <= length nodes.
Proof.
  intros Hsec Hne zs ss take Hss Hpos H. unfold tenant_shard in H. fold zs ss in H.
  change (if disabled then ss else per_zone ss (length zs)) with take in H.
  assert (Hzs : 0 < length zs).
  { destruct eps as [|[az hs] r]; [congruence|]. unfold zs. simpl.
    pose proof (zones_of_keeps disabled r [zone_of disabled az] (zone_of disabled az) (or_introl eq_refl)) as Hk.
    destruct (zones_of disabled [zone_of disabled az] r); [contradiction|simpl; lia]. }
  assert (Htake : (0 <= take)%Z).
  { unfold take. destruct disabled; [exact Hss|apply per_zone_nonneg; assumption]. }
  destruct (shard_zones disabled eps (sort_sections (sections_of 0 eps)) rand take zs) as [ns|] eqn:S; [|discriminate].
  destruct (length ns <? rf) eqn:L; [discriminate|]. apply Nat.ltb_ge in L. inversion H; subst ns.
  destruct (shard_zones_spec disabled eps Hsec rand take Htake zs nodes (zones_of_NoDup disabled eps [] (NoDup_nil _)) Hpos S)
    as [H1 [H2 [H3 H4]]].
  split; [exact H1|]. split; [intros e He; apply H2; exact He|]. split; [|split; [|exact L]].
  - intros z Hz. rewrite (H3 z Hz). apply Z2Nat.id. exact Htake.
  - rewrite H4, Nat2Z.inj_mul, Z2Nat.id by exact Htake. reflexivity.
Qed.

Lemma shard_search_pred_tie h pos : shard_search_pred h pos = (pos <=? h)%Z.
Proof. unfold shard_search_pred. apply Z.geb_leb. Qed.
