(* C28 — proofs: every scenario the model accepts satisfies the property
   predicate at every crash point; the invariant behind it; per-function
   statements. *)
From Coq Require Import ZArith NArith List Bool Lia Arith String.
Import ListNotations.
From Verif Require Import Lib.Corr Lib.Crash_Store Lib.Crash_Block Lib.Crash_BlockFacts Lib.Crash_BlockProgs Lib.Crash_BlockRace.
From Verif Require Import Gen.C28 Model.C28.

(* ---- tie T: the orders computed from the source are the ones the lemmas are about ---- *)
Lemma upload_phases_std : upload_phases = Some std_upload.
Proof. vm_compute. reflexivity. Qed.
Lemma delete_phases_std : delete_phases = Some std_delete.
Proof. vm_compute. reflexivity. Qed.
Lemma replicate_phases_std : replicate_phases = Some std_replicate.
Proof. vm_compute. reflexivity. Qed.

Opaque upload_phases delete_phases replicate_phases.

Definition sinv (U : univ) (st : state) : Prop := binv U (fst st) /\ binv U (snd st).

Lemma sinv_side U st s : sinv U st -> binv U (side_get st s).
Proof. intros [H1 H2]. destruct s; assumption. Qed.

Lemma sinv_set U st s b : sinv U st -> binv U b -> sinv U (side_set st s b).
Proof. intros [H1 H2] Hb. destruct s; split; simpl; assumption. Qed.

Lemma cut_states b crash l b' : In b' (bstates b (cut crash l)) -> In b' (bstates b l).
Proof.
  destruct crash as [k|]; simpl; [|auto]. apply states_firstn_incl.
Qed.

Lemma cut_full crash l : is_cut crash l = false -> cut crash l = l.
Proof.
  destruct crash as [k|]; simpl; [|reflexivity]. intros H. apply Nat.ltb_ge in H.
  apply firstn_all2. exact H.
Qed.

Lemma tl_In {A} (l : list A) x : In x (tl l) -> In x l.
Proof. destruct l; simpl; auto. Qed.

(* what each action guarantees: its log is guarded, and what holds when it ran to the end *)
Definition final_clause (st : state) (a : action) (ok : bool) (post : bucket) : Prop :=
  match a with
  | AUpload _ id _ _ => ok = true -> bhas post (id, FMeta) = true
  | ADelete _ id _ => block_gone_b post id = true
  | AMark _ id _ => bhas post (id, FDelMark) = true
  | AReplicate id =>
      ok = true ->
      same_content (match bget (fst st) (id, FMeta) with Some o => o | None => Blob 0 end)
                   (bget post (id, FMeta)) = true
  | ARepDel id _ _ => ok = true -> bhas post (id, FMeta) = true
  end.

Lemma action_sound U st a l ok :
  wf_univ U -> sinv U st -> action_safe st a = true -> action_ops U st a = Some (l, ok) ->
  let b := side_get st (action_side a) in
  guarded key obj key_eqb key_ltb (op_guard U) b l
  /\ final_clause st a ok (bapply_ops b l)
  /\ match a with
     | ADelete _ id _ => bhas b (id, FDelMark) = true ->
                         forall b', In b' (bstates b l) -> mark_or_gone_b b' id = true
     | _ => True
     end.
Proof.
  intros Hwf Hst Hsafe Ha. destruct a as [s id order cid|s id order|s id sz|id|id sched order]; simpl in *.
  - (* upload *)
    rewrite upload_phases_std in Ha. destruct (ublock U id) as [bl|] eqn:Hu.
    + destruct (upload_ops std_upload U id order cid (b_lbl bl)) as [l0|] eqn:Hl; [|discriminate].
      inversion Ha; subst l0 ok. split; [eapply upload_guarded; eauto|]. split; [|exact I].
      intros _. apply bhas_true. rewrite (upload_final U _ id order cid (b_lbl bl) l bl Hu Hl). discriminate.
    + inversion Ha; subst. split; [exact I|]. split; [discriminate|exact I].
  - (* delete *)
    rewrite delete_phases_std in Ha.
    destruct (delete_ops std_delete (side_get st s) id order) as [l0|] eqn:Hl; [|discriminate].
    inversion Ha; subst l0 ok. split; [eapply delete_guarded; eauto|]. split.
    + eapply delete_final; eauto.
    + intros Hm b' Hb'. eapply delete_mark_kept; eauto.
  - (* mark *)
    inversion Ha; subst. split; [apply mark_guarded|]. split; [apply mark_final|exact I].
  - (* replicate *)
    rewrite replicate_phases_std in Ha. destruct Hst as [Hsrc Hdst].
    destruct (bget (fst st) (id, FMeta)) as [om|] eqn:Hm.
    + destruct (same_content om (bget (snd st) (id, FMeta))) eqn:Hs.
      * inversion Ha; subst. split; [exact I|]. split; [|exact I]. intros _. exact Hs.
      * inversion Ha; subst. split; [apply replicate_guarded; assumption|]. split; [|exact I].
        intros _. eapply replicate_final; eauto.
    + inversion Ha; subst. split; [exact I|]. split; [discriminate|exact I].
  - (* replicate while the origin block is deleted *)
    rewrite replicate_phases_std, delete_phases_std in Ha. unfold std_replicate in Ha.
    destruct (delete_ops std_delete (fst st) id order) as [dels|] eqn:Hd; [|discriminate].
    inversion Ha as [Hr]. clear Ha.
    apply andb_true_iff in Hsafe as [Hif Hni]. apply negb_true_iff in Hni.
    destruct Hst as [Hsrc Hdst].
    destruct (repdel_safe U (fst st) (snd st) id sched order dels l ok Hwf Hsrc Hdst Hd Hif Hni Hr) as [G F].
    split; [exact G|]. split; [exact F|exact I].
Qed.

Lemma step_sound U st s st' :
  wf_univ U -> sinv U st -> action_safe st (fst (fst (fst (fst s)))) = true -> corr_step U st s = Some st' ->
  sinv U st' /\ pred_step st s = (true, st').
Proof.
  intros Hwf Hst Hsafe Hc. destruct s as [[[[a crash] ret] ops] snaps]. simpl in Hsafe. unfold corr_step in Hc.
  destruct (action_ops U st a) as [[l ok]|] eqn:Ha; [|discriminate].
  set (b := side_get st (action_side a)) in *.
  destruct (list_eqb bop_eqb ops (cut crash l) && list_eqb bucket_eqb snaps (tl (bstates b (cut crash l)))
            && Bool.eqb ret (ok && negb (is_cut crash l))) eqn:Hchk; [|discriminate].
  inversion Hc; subst st'. clear Hc.
  apply andb_true_iff in Hchk as [Hchk Hret]. apply andb_true_iff in Hchk as [Hops Hsn].
  apply ops_eqb_spec in Hops. apply buckets_eqb_spec in Hsn. apply Bool.eqb_prop in Hret.
  destruct (action_sound U st a l ok Hwf Hst Hsafe Ha) as [Hg [Hfin Hmk]]. fold b in Hg, Hfin, Hmk.
  assert (Hall : forall b', In b' (bstates b (cut crash l)) -> binv U b').
  { intros b' Hb'. apply (binv_states U b l Hwf (sinv_side U st _ Hst) Hg). apply (cut_states _ _ _ _ Hb'). }
  split.
  - apply sinv_set; [exact Hst|]. apply Hall. apply states_last.
  - unfold pred_step. fold b.
    assert (Hpost : last snaps b = bapply_ops b (cut crash l)).
    { rewrite Hsn. apply last_states. }
    rewrite Hpost. f_equal.
    assert (Hvis : forallb visible_complete_b snaps = true).
    { apply forallb_forall. intros b' Hb'. rewrite Hsn in Hb'. apply tl_In in Hb'.
      eapply binv_visible_complete. apply Hall. exact Hb'. }
    rewrite Hvis. simpl.
    assert (Hfull : ret = true -> ok = true /\ cut crash l = l).
    { intros Hr. rewrite Hr in Hret. symmetry in Hret. apply andb_true_iff in Hret as [H1 H2].
      split; [exact H1|]. apply cut_full. destruct (is_cut crash l); [discriminate|reflexivity]. }
    destruct a as [s id order cid|s id order|s id sz|id|id sched order]; simpl in *.
    + destruct ret; [|reflexivity]. destruct (Hfull eq_refl) as [Hok Hcut]. rewrite Hcut. apply Hfin. exact Hok.
    + apply andb_true_iff. split.
      * destruct (bhas b (id, FDelMark)) eqn:Hm; [|reflexivity].
        apply forallb_forall. intros b' Hb'. rewrite Hsn in Hb'. apply tl_In in Hb'.
        apply Hmk; [reflexivity|]. apply (cut_states _ _ _ _ Hb').
      * destruct ret; [|reflexivity]. destruct (Hfull eq_refl) as [Hok Hcut]. rewrite Hcut. exact Hfin.
    + destruct ret; [|reflexivity]. destruct (Hfull eq_refl) as [Hok Hcut]. rewrite Hcut. exact Hfin.
    + destruct ret; [|reflexivity]. destruct (Hfull eq_refl) as [Hok Hcut]. rewrite Hcut. apply Hfin. exact Hok.
    + destruct ret; [|reflexivity]. destruct (Hfull eq_refl) as [Hok Hcut]. rewrite Hcut. apply Hfin. exact Hok.
Qed.

Lemma steps_sound U : forall steps st,
  wf_univ U -> sinv U st -> corr_steps U st steps = true -> safe_steps U st steps = true ->
  pred_steps st steps = true.
Proof.
  induction steps as [|s r IH]; intros st Hwf Hst Hc Hsf; simpl in *; [reflexivity|].
  destruct (corr_step U st s) as [st'|] eqn:Hs; [|discriminate].
  apply andb_true_iff in Hsf as [Hs1 Hs2].
  destruct (step_sound U st s st' Hwf Hst Hs1 Hs) as [Hst' Hp]. rewrite Hp. simpl.
  apply IH; assumption.
Qed.

Lemma corr_implies_pred c : corr_ok c = true -> safe_case c = true -> pred_ok c = true.
Proof.
  destruct c as [U steps]. simpl. intros H Hsf. apply andb_true_iff in H as [Hwf Hc].
  apply (steps_sound U steps ([], []) (wf_univ_b_spec U Hwf)); [|exact Hc|exact Hsf].
  split; apply binv_empty.
Qed.

(* ---- readable statements ---- *)

(* the model run of a list of (action, crash point): every bucket state passed through *)
Fixpoint run_states (U : univ) (st : state) (acts : list (action * option nat)) : option (list bucket) :=
  match acts with
  | [] => Some []
  | (a, crash) :: r =>
      match (if action_safe st a then action_ops U st a else None) with
      | None => None
      | Some (l, _) =>
          let b := side_get st (action_side a) in
          match run_states U (side_set st (action_side a) (bapply_ops b (cut crash l))) r with
          | Some rest => Some (bstates b (cut crash l) ++ rest)
          | None => None
          end
      end
  end.

Lemma run_states_inv U : forall acts st all,
  wf_univ U -> sinv U st -> run_states U st acts = Some all -> forall b, In b all -> binv U b.
Proof.
  induction acts as [|[a crash] r IH]; intros st all Hwf Hst Hr b Hb; simpl in Hr.
  - inversion Hr; subst. contradiction.
  - destruct (action_safe st a) eqn:Hsafe; [|discriminate].
    destruct (action_ops U st a) as [[l ok]|] eqn:Ha; [|discriminate].
    set (b0 := side_get st (action_side a)) in *.
    destruct (run_states U (side_set st (action_side a) (bapply_ops b0 (cut crash l))) r) as [rest|] eqn:Hrest; [|discriminate].
    inversion Hr; subst all. clear Hr.
    destruct (action_sound U st a l ok Hwf Hst Hsafe Ha) as [Hg _]. fold b0 in Hg.
    assert (Hall : forall b', In b' (bstates b0 (cut crash l)) -> binv U b').
    { intros b' Hb'. apply (binv_states U b0 l Hwf (sinv_side U st _ Hst) Hg). apply (cut_states _ _ _ _ Hb'). }
    apply in_app_or in Hb as [Hb|Hb]; [apply Hall; exact Hb|].
    eapply IH; [exact Hwf| |exact Hrest|exact Hb].
    apply sinv_set; [exact Hst|]. apply Hall. apply states_last.
Qed.

Lemma all_prefixes_visible_complete U acts all :
  wf_univ_b U = true -> run_states U ([], []) acts = Some all ->
  forall b, In b all -> visible_complete b.
Proof.
  intros Hwf Hr b Hb. apply (binv_visible U).
  eapply run_states_inv; [apply wf_univ_b_spec; exact Hwf| |exact Hr|exact Hb].
  split; apply binv_empty.
Qed.

(* per function, from any bucket that satisfies the invariant *)
Lemma upload_prefix_safe U b id order cid lbl l k :
  wf_univ U -> binv U b -> upload_ops std_upload U id order cid lbl = Some l ->
  visible_complete (bapply_ops b (firstn k l)).
Proof.
  intros Hwf Hb Hl. apply (binv_visible U).
  apply (binv_states U b l Hwf Hb (upload_guarded U b id order cid lbl l Hwf Hl)).
  apply states_firstn_incl with (k := k). apply states_last.
Qed.

Lemma reupload_after_crash U b id order cid lbl l k order' cid' lbl' l' bl :
  wf_univ U -> binv U b -> ublock U id = Some bl ->
  upload_ops std_upload U id order cid lbl = Some l ->
  upload_ops std_upload U id order' cid' lbl' = Some l' ->
  let crashed := bapply_ops b (firstn k l) in
  (forall j, visible_complete (bapply_ops crashed (firstn j l')))
  /\ bget (bapply_ops crashed l') (id, FMeta) = Some (MetaO cid' (files_of bl) lbl')
  /\ visible_complete (bapply_ops crashed l').
Proof.
  intros Hwf Hb Hu Hl Hl' crashed.
  assert (Hc : binv U crashed).
  { apply (binv_states U b l Hwf Hb (upload_guarded U b id order cid lbl l Hwf Hl)).
    apply states_firstn_incl with (k := k). apply states_last. }
  split; [|split].
  - intros j. eapply upload_prefix_safe; eauto.
  - eapply upload_final; eauto.
  - apply (binv_visible U).
    apply (binv_states U crashed l' Hwf Hc (upload_guarded U crashed id order' cid' lbl' l' Hwf Hl')).
    apply states_last.
Qed.

Lemma delete_prefix_safe U b id order l k :
  wf_univ U -> binv U b -> delete_ops std_delete b id order = Some l ->
  let b' := bapply_ops b (firstn k l) in
  visible_complete b'
  /\ (bget b (id, FDelMark) <> None ->
      bget b' (id, FDelMark) <> None \/ forall f, is_dirmarker f = false -> bget b' (id, f) = None).
Proof.
  intros Hwf Hb Hl b'.
  assert (Hin : In b' (bstates b l)) by (apply states_firstn_incl with (k := k); apply states_last).
  split.
  - apply (binv_visible U). apply (binv_states U b l Hwf Hb (delete_guarded U b id order l Hl)). exact Hin.
  - intros Hm. apply bhas_true in Hm.
    pose proof (delete_mark_kept b id order l Hl Hm b' Hin) as H.
    unfold mark_or_gone_b in H. apply orb_true_iff in H as [H|H].
    + left. apply bhas_true. exact H.
    + right. intros f Hd. destruct (bget b' (id, f)) as [o|] eqn:Hg; [|reflexivity].
      unfold block_gone_b in H. rewrite forallb_forall in H.
      specialize (H (id, f) (get_some_keys key obj key_eqb key_eqb_spec _ _ _ Hg)).
      simpl in H. rewrite N.eqb_refl, Hd in H. discriminate.
Qed.

Lemma replicate_prefix_safe U src dst id k :
  wf_univ U -> binv U src -> binv U dst ->
  visible_complete (bapply_ops dst (firstn k (replicate_ops std_replicate src dst id))).
Proof.
  intros Hwf Hs Hd. apply (binv_visible U).
  apply (binv_states U dst _ Hwf Hd (replicate_guarded U src dst id Hwf Hs Hd)).
  apply states_firstn_incl with (k := k). apply states_last.
Qed.

(* ---- every input on which the model is defined yields an accepted case ---- *)
Fixpoint model_steps (U : univ) (st : state) (acts : list (action * option nat)) : option (list step) :=
  match acts with
  | [] => Some []
  | (a, crash) :: r =>
      match (if action_safe st a then action_ops U st a else None) with
      | None => None
      | Some (l, ok) =>
          let b := side_get st (action_side a) in
          let l' := cut crash l in
          match model_steps U (side_set st (action_side a) (bapply_ops b l')) r with
          | Some rest => Some ((a, crash, ok && negb (is_cut crash l), l', tl (bstates b l')) :: rest)
          | None => None
          end
      end
  end.

Lemma model_steps_corr U : forall acts st steps,
  model_steps U st acts = Some steps -> corr_steps U st steps = true /\ safe_steps U st steps = true.
Proof.
  induction acts as [|[a crash] r IH]; intros st steps H; simpl in H.
  - inversion H; subst. split; reflexivity.
  - destruct (action_safe st a) eqn:Hsafe; [|discriminate].
    destruct (action_ops U st a) as [[l ok]|] eqn:Ha; [|discriminate].
    destruct (model_steps U _ r) as [rest|] eqn:Hr; [|discriminate].
    inversion H; subst steps. clear H. simpl. rewrite Ha, Hsafe.
    rewrite (proj2 (ops_eqb_spec _ _) eq_refl), (proj2 (buckets_eqb_spec _ _) eq_refl), Bool.eqb_reflx. simpl.
    apply IH. exact Hr.
Qed.

Lemma model_case_ok U acts steps :
  wf_univ_b U = true -> model_steps U ([], []) acts = Some steps ->
  corr_ok (CScen U steps) = true /\ pred_ok (CScen U steps) = true.
Proof.
  intros Hwf H. destruct (model_steps_corr U acts _ steps H) as [H1 H2].
  assert (Hc : corr_ok (CScen U steps) = true) by (simpl; rewrite Hwf; exact H1).
  split; [exact Hc|apply corr_implies_pred; [exact Hc|exact H2]].
Qed.

(* ---- the per-function statements, for the phase orders computed from the source ---- *)
Lemma upload_prefix_safe_src ph U b id order cid lbl l k :
  upload_phases = Some ph -> wf_univ U -> binv U b -> upload_ops ph U id order cid lbl = Some l ->
  visible_complete (bapply_ops b (firstn k l)).
Proof.
  intros Hph. rewrite upload_phases_std in Hph. inversion Hph; subst ph. apply upload_prefix_safe.
Qed.

Lemma reupload_after_crash_src ph U b id order cid lbl l k order' cid' lbl' l' bl :
  upload_phases = Some ph -> wf_univ U -> binv U b -> ublock U id = Some bl ->
  upload_ops ph U id order cid lbl = Some l ->
  upload_ops ph U id order' cid' lbl' = Some l' ->
  let crashed := bapply_ops b (firstn k l) in
  (forall j, visible_complete (bapply_ops crashed (firstn j l')))
  /\ bget (bapply_ops crashed l') (id, FMeta) = Some (MetaO cid' (files_of bl) lbl')
  /\ visible_complete (bapply_ops crashed l').
Proof.
  intros Hph. rewrite upload_phases_std in Hph. inversion Hph; subst ph. apply reupload_after_crash.
Qed.

Lemma delete_prefix_safe_src ph U b id order l k :
  delete_phases = Some ph -> wf_univ U -> binv U b -> delete_ops ph b id order = Some l ->
  let b' := bapply_ops b (firstn k l) in
  visible_complete b'
  /\ (bget b (id, FDelMark) <> None ->
      bget b' (id, FDelMark) <> None \/ forall f, is_dirmarker f = false -> bget b' (id, f) = None).
Proof.
  intros Hph. rewrite delete_phases_std in Hph. inversion Hph; subst ph. apply delete_prefix_safe.
Qed.

Lemma delete_completes_src ph b id order l :
  delete_phases = Some ph -> delete_ops ph b id order = Some l ->
  forall f, is_dirmarker f = false -> bget (bapply_ops b l) (id, f) = None.
Proof.
  intros Hph Hl f Hd. rewrite delete_phases_std in Hph. inversion Hph; subst ph.
  pose proof (delete_final b id order l Hl) as H.
  destruct (bget (bapply_ops b l) (id, f)) as [o|] eqn:Hg; [|reflexivity].
  unfold block_gone_b in H. rewrite forallb_forall in H.
  specialize (H (id, f) (get_some_keys key obj key_eqb key_eqb_spec _ _ _ Hg)).
  simpl in H. rewrite N.eqb_refl, Hd in H. discriminate.
Qed.

Lemma replicate_prefix_safe_src ph U src dst id k :
  replicate_phases = Some ph -> wf_univ U -> binv U src -> binv U dst ->
  visible_complete (bapply_ops dst (firstn k (replicate_ops ph src dst id)))
  /\ binv U (bapply_ops dst (firstn k (replicate_ops ph src dst id))).
Proof.
  intros Hph Hwf Hs Hd. rewrite replicate_phases_std in Hph. inversion Hph; subst ph.
  split; [apply (replicate_prefix_safe U); assumption|].
  apply (binv_states U dst _ Hwf Hd (replicate_guarded U src dst id Hwf Hs Hd)).
  apply states_firstn_incl with (k := k). apply states_last.
Qed.

Lemma replicate_completes_src ph U src dst id om :
  replicate_phases = Some ph -> binv U src -> bget src (id, FMeta) = Some om ->
  same_content om (bget (bapply_ops dst (replicate_ops ph src dst id)) (id, FMeta)) = true.
Proof.
  intros Hph. rewrite replicate_phases_std in Hph. inversion Hph; subst ph. apply replicate_final.
Qed.

(* ---- replication racing with the deletion of the origin block ---- *)
Lemma replicate_during_delete_safe ph U src dst id sched order dels ops ok :
  delete_phases = Some ph -> wf_univ U -> binv U src -> binv U dst ->
  delete_ops ph src id order = Some dels ->
  index_first order = true -> bhas dst (id, FIndex) = false ->
  repdel_ops src dst id (combine sched dels) = (ops, ok) ->
  (forall k, visible_complete (bapply_ops dst (firstn k ops)))
  /\ (ok = true -> bhas (bapply_ops dst ops) (id, FMeta) = true).
Proof.
  intros Hph Hwf Hs Hd Hdel Hi Hn H. rewrite delete_phases_std in Hph. inversion Hph; subst ph.
  destruct (repdel_safe U src dst id sched order dels ops ok Hwf Hs Hd Hdel Hi Hn H) as [G F].
  split; [|exact F]. intros k. apply (binv_visible U).
  apply (binv_states U dst ops Hwf Hd G). apply states_firstn_incl with (k := k). apply states_last.
Qed.

(* without "index before chunks" (a bucket that lists "chunks/" before "index", as S3 and GCS do)
   there is a schedule that makes an incomplete block visible in the target: the deleter removes
   meta.json and chunks/000001 between the replicator's Get of meta.json and its listing of chunks/ *)
Definition race_U : univ := [(0%N, mkblk [(1%N, 11%Z); (2%N, 7%Z)] 9%Z 0%N)].
Definition race_acts : list (action * option nat) :=
  [(AUpload false 0 [1; 2]%N 0, None); (AMark false 0 40, None)].
Definition race_order : list file := [FChunk 1; FChunk 2; FIndex].

Lemma replicate_delete_race_refuted :
  exists st ops,
    sinv race_U st /\ bhas (snd st) (0%N, FIndex) = false
    /\ action_ops race_U st (ARepDel 0 [1; 1]%nat race_order) = Some (ops, true)
    /\ visible_complete_b (bapply_ops (snd st) ops) = false
    /\ index_first race_order = false.
Proof.
  destruct (run_states race_U ([], []) race_acts) as [all|] eqn:Hr; [|vm_compute in Hr; discriminate].
  pose proof (run_states_inv race_U race_acts ([], []) all
                (wf_univ_b_spec race_U eq_refl) (conj (binv_empty race_U) (binv_empty race_U)) Hr) as Hall.
  vm_compute in Hr. inversion Hr as [Hall']. clear Hr.
  set (src := [kv 0 (FChunk 1) (Blob 11); kv 0 (FChunk 2) (Blob 7); kv 0 FDelMark (Blob 40); kv 0 FIndex (Blob 9);
               kv 0 FMeta (MetaO 0 [(FChunk 1, 11%Z); (FChunk 2, 7%Z); (FIndex, 9%Z); (FMeta, 0%Z)] 0)]).
  exists (src, []). eexists. split.
  - split; [|apply binv_empty]. apply Hall. rewrite <- Hall'. unfold src, kv. simpl.
    repeat (first [left; reflexivity | right]).
  - split; [reflexivity|]. split; [vm_compute; reflexivity|]. split; vm_compute; reflexivity.
Qed.
