(* C24 — lemmas. *)
From Coq Require Import List Bool Arith Lia String.
Import ListNotations.
From Verif Require Import Lib.Corr Gen.C24 Model.C24.

(* tie T: in the CURRENT source both handlers defer Done only after the
   failed-Start return (closed by computation on Gen/C24.v) *)
Lemma current_source_safe : forall e, done_on_failed_start e = false.
Proof. intros [|]; vm_compute; reflexivity. Qed.

Definition inv (max : nat) (s : state) : Prop :=
  tokens s = working s + exiting s /\ tokens s <= max /\ panics s = 0.

Lemma inv_init : forall max, inv max init.
Proof. intro max. unfold inv, init; cbn. lia. Qed.

Lemma step_inv : forall dofs max s l s', (forall e, dofs e = false) ->
  inv max s -> step dofs max s l = Some s' -> inv max s'.
Proof.
  intros dofs max s l s' Hd [H1 [H2 H3]] Hs. destruct s as [t wt wk ex fi ca pa]. cbn in *.
  destruct l as [e| |e| |]; cbn [step waiting tokens working exiting finished cancelled panics] in Hs.
  - inversion Hs; subst; unfold inv; cbn; lia.
  - destruct wt as [|w]; [discriminate|]. destruct (t <? max) eqn:El; [|discriminate].
    apply Nat.ltb_lt in El. inversion Hs; subst; unfold inv; cbn; lia.
  - destruct wt as [|w]; [discriminate|]. rewrite Hd in Hs.
    inversion Hs; subst; unfold inv; cbn; lia.
  - destruct wk as [|w]; [discriminate|]. inversion Hs; subst; unfold inv; cbn; lia.
  - destruct ex as [|x]; [discriminate|]. destruct t as [|t]; [lia|].
    cbn [gate_done tokens waiting working exiting finished cancelled panics] in Hs. inversion Hs; subst; unfold inv; cbn; lia.
Qed.

Lemma run_inv : forall dofs max ls s s', (forall e, dofs e = false) ->
  inv max s -> run dofs max s ls = Some s' -> inv max s'.
Proof.
  intros dofs max ls. induction ls as [|l ls IH]; intros s s' Hd Hi Hr; cbn in Hr.
  - inversion Hr; subst; exact Hi.
  - destruct (step dofs max s l) as [s1|] eqn:E; [|discriminate].
    apply (IH s1 s' Hd); [|exact Hr]. exact (step_inv dofs max s l s1 Hd Hi E).
Qed.

Lemma bound_all_interleavings : forall dofs max ls s, (forall e, dofs e = false) ->
  run dofs max init ls = Some s -> working s <= max /\ panics s = 0 /\ tokens s = working s + exiting s.
Proof.
  intros dofs max ls s Hd Hr. destruct (run_inv dofs max ls init s Hd (inv_init max) Hr) as [H1 [H2 H3]].
  lia.
Qed.

Lemma bound_current_source : forall max ls s,
  run done_on_failed_start max init ls = Some s -> working s <= max /\ panics s = 0.
Proof.
  intros max ls s Hr. destruct (bound_all_interleavings _ max ls s current_source_safe Hr) as [H1 [H2 _]]. auto.
Qed.

Lemma exec_op_inv : forall dofs max s o s', (forall e, dofs e = false) ->
  inv max s -> exec_op dofs max s o = Some s' -> inv max s'.
Proof.
  intros dofs max s o s' Hd Hi He. unfold exec_op in He.
  destruct (op_enabled s o); [|discriminate].
  destruct (run dofs max s (op_labels o)) as [s1|] eqn:E1; [|discriminate].
  eapply run_inv; [exact Hd| |exact He]. eapply run_inv; eauto.
Qed.

(* what the harness' schedule controller does is a run of the LTS *)
Lemma exec_op_is_run : forall dofs max s o s', exec_op dofs max s o = Some s' ->
  exists ls, run dofs max s ls = Some s'.
Proof.
  intros dofs max s o s' He. unfold exec_op in He.
  destruct (op_enabled s o); [|discriminate].
  destruct (run dofs max s (op_labels o)) as [s1|] eqn:E1; [|discriminate].
  exists (op_labels o ++ admits max s1).
  revert s E1. induction (op_labels o) as [|l ls IH]; intros s0 E1; cbn in *.
  - inversion E1; subst. exact He.
  - destruct (step dofs max s0 l) as [s2|]; [|discriminate]. apply IH. exact E1.
Qed.

Lemma follows_pred : forall dofs max steps s, (forall e, dofs e = false) -> inv max s ->
  follows dofs max s steps = true -> forallb (fun st => snap_ok max (snd st)) steps = true.
Proof.
  intros dofs max steps. induction steps as [|[o obs] r IH]; intros s Hd Hi Hf; [reflexivity|].
  cbn [follows] in Hf. destruct (exec_op dofs max s o) as [s'|] eqn:E; [|discriminate].
  apply andb_true_iff in Hf as [Hs Hf].
  pose proof (exec_op_inv dofs max s o s' Hd Hi E) as Hi'.
  cbn [forallb snd]. apply andb_true_iff. split; [|eapply IH; eauto].
  destruct obs as [[[[w wt] f] c] p]. unfold snap_of, snap_eqb in Hs.
  repeat (apply andb_true_iff in Hs as [Hs ?]).
  apply Nat.eqb_eq in Hs. apply Nat.eqb_eq in H.
  destruct Hi' as [I1 [I2 I3]]. unfold snap_ok. apply andb_true_iff. split.
  - apply Nat.leb_le. lia.
  - apply Nat.eqb_eq. lia.
Qed.

Lemma corr_implies_pred : forall c, corr_ok c = true -> pred_ok c = true.
Proof.
  intros [max steps] H. cbn in *. eapply follows_pred; eauto.
  - exact current_source_safe.
  - apply inv_init.
Qed.

(* every schedule of operations can be followed by the model (it never gets
   stuck on an enabled operation), so the statement above is not vacuous *)
Lemma exec_op_defined : forall dofs max s o, (forall e, dofs e = false) -> inv max s ->
  op_enabled s o = true ->
  (match o with OCancel _ => 0 < waiting s | OFinish => 0 < working s | _ => True end) ->
  exists s', exec_op dofs max s o = Some s'.
Proof.
  intros dofs max s o Hd Hi Hen Hpre. unfold exec_op. rewrite Hen.
  assert (Hadm : forall s1, inv max s1 -> exists s2, run dofs max s1 (admits max s1) = Some s2).
  { intros s1. unfold admits. generalize (eq_refl (Nat.min (waiting s1) (max - tokens s1))).
    generalize (Nat.min (waiting s1) (max - tokens s1)) at 1 3 as k. intro k. revert s1.
    induction k as [|k IH]; intros s1 Hk Hi1; cbn [repeat run].
    - eexists; reflexivity.
    - destruct s1 as [t wt wk ex fi ca pa]. cbn in Hk. cbn [step waiting tokens].
      destruct wt as [|w]; [lia|]. destruct (Nat.ltb_spec t max); [|lia].
      apply IH.
      + cbn. lia.
      + destruct Hi1 as [A [B C]]. cbn in *. unfold inv; cbn. lia. }
  destruct s as [t wt wk ex fi ca pa]. destruct Hi as [A [B C]]. cbn in A, B, C.
  destruct o as [e|e|e| | |]; cbn [op_labels run step waiting working tokens exiting] in *.
  - apply Hadm. unfold inv; cbn; lia.
  - rewrite Hd. apply Hadm. unfold inv; cbn; lia.
  - destruct wt as [|w]; [lia|]. rewrite Hd. apply Hadm. unfold inv; cbn; lia.
  - apply Hadm. unfold inv; cbn; lia.
  - destruct wk as [|w]; [lia|]. cbn. destruct t as [|t]; [lia|]. cbn. apply Hadm. unfold inv; cbn; lia.
  - apply Hadm. unfold inv; cbn; lia.
Qed.

(* ---- the order that was in the source before the repair ---- *)
Lemma buggy_over_admission :
  exists s, run (fun _ => true) 1 init
    [LArrive Http; LAdmit; LArrive Http; LCancel Http; LArrive Otlp; LAdmit] = Some s
    /\ working s = 2.
Proof. eexists. split; [vm_compute; reflexivity|reflexivity]. Qed.

Lemma buggy_panic :
  exists s, run (fun _ => true) 1 init [LArrive Http; LCancel Http] = Some s /\ panics s = 1.
Proof. eexists. split; [vm_compute; reflexivity|reflexivity]. Qed.
