(* C24 — lemmas. *)
From Coq Require Import List Bool Arith Lia String.
Open Scope nat_scope.
Import ListNotations.
From Verif Require Import Lib.Corr Gen.C24 Model.C24.

(* tie T: in the CURRENT source both handlers defer Done only after the
   failed-Start return (closed by computation on Gen/C24.v) *)
Lemma current_source_safe : forall e, done_on_failed_start e = false.
Proof. intros [|]; vm_compute; reflexivity. Qed.

Definition inv (max : nat) (s : state) : Prop :=
  tokens s = working s + exiting s /\ tokens s <= max /\ panics s = 0.

Lemma inv_init : forall max, inv max init.
Proof. intro max. unfold inv, init; cbn. lia. Qed.

Lemma step_inv : forall dofs max s l s', (forall e, dofs e = false) ->
  inv max s -> step dofs max s l = Some s' -> inv max s'.
Proof.
  intros dofs max s l s' Hd [H1 [H2 H3]] Hs. destruct s as [t wt wk ex fi ca pa]. cbn in *.
  destruct l as [e| |e| |]; cbn [step waiting tokens working exiting finished cancelled panics] in Hs.
  - inversion Hs; subst; unfold inv; cbn; lia.
  - destruct wt as [|w]; [discriminate|]. destruct (t <? max) eqn:El; [|discriminate].
    apply Nat.ltb_lt in El. inversion Hs; subst; unfold inv; cbn; lia.
  - destruct wt as [|w]; [discriminate|]. rewrite Hd in Hs.
    inversion Hs; subst; unfold inv; cbn; lia.
  - destruct wk as [|w]; [discriminate|]. inversion Hs; subst; unfold inv; cbn; lia.
  - destruct ex as [|x]; [discriminate|]. destruct t as [|t]; [lia|].
    cbn [gate_done tokens waiting working exiting finished cancelled panics] in Hs. inversion Hs; subst; unfold inv; cbn; lia.
Qed.

Lemma run_inv : forall dofs max ls s s', (forall e, dofs e = false) ->
  inv max s -> run dofs max s ls = Some s' -> inv max s'.
Proof.
  intros dofs max ls. induction ls as [|l ls IH]; intros s s' Hd Hi Hr; cbn in Hr.
  - inversion Hr; subst; exact Hi.
  - destruct (step dofs max s l) as [s1|] eqn:E; [|discriminate].
    apply (IH s1 s' Hd); [|exact Hr]. exact (step_inv dofs max s l s1 Hd Hi E).
Qed.

Lemma bound_all_interleavings : forall dofs max ls s, (forall e, dofs e = false) ->
  run dofs max init ls = Some s -> working s <= max /\ panics s = 0 /\ tokens s = working s + exiting s.
Proof.
  intros dofs max ls s Hd Hr. destruct (run_inv dofs max ls init s Hd (inv_init max) Hr) as [H1 [H2 H3]].
  lia.
Qed.

Lemma bound_current_source : forall max ls s,
  run done_on_failed_start max init ls = Some s -> working s <= max /\ panics s = 0.
Proof.
  intros max ls s Hr. destruct (bound_all_interleavings _ max ls s current_source_safe Hr) as [H1 [H2 _]]. auto.
Qed.

(* ---- several gates (configuration reloads) ---- *)
(* tie T: in the CURRENT source Start and the deferred Done are called on one
   binding of the gate in both handlers *)
Lemma current_source_same_gate : forall e, same_gate e = true.
Proof. intros [|]; vm_compute; reflexivity. Qed.

Definition minv (gs : mstate) : Prop := Forall (fun g => inv (fst g) (snd g)) gs.

Lemma minv_init : forall max, minv (minit max).
Proof. intro max. constructor; [apply inv_init|constructor]. Qed.

Lemma upd_gate_inv : forall f i gs gs',
  (forall g g', inv (fst g) (snd g) -> f g = Some g' -> inv (fst g') (snd g')) ->
  minv gs -> upd_gate i f gs = Some gs' -> minv gs'.
Proof.
  intros f i gs. revert i. induction gs as [|g r IH]; intros i gs' Hf Hi Hu; [destruct i; discriminate|].
  inversion Hi as [|? ? Hg Hr]; subst. destruct i as [|j]; cbn [upd_gate] in Hu.
  - destruct (f g) as [g'|] eqn:E; [|discriminate]. inversion Hu; subst. constructor; [eapply Hf; eauto|exact Hr].
  - destruct (upd_gate j f r) as [r'|] eqn:E; [|discriminate]. inversion Hu; subst.
    constructor; [exact Hg|]. eapply IH; eauto.
Qed.

Lemma on_gate_inv : forall dofs l g g', (forall e, dofs e = false) ->
  inv (fst g) (snd g) -> on_gate dofs l g = Some g' -> inv (fst g') (snd g').
Proof.
  intros dofs l [cap s] g' Hd Hi H. unfold on_gate in H. cbn [fst snd] in *.
  destruct (step dofs cap s l) as [s'|] eqn:E; [|discriminate]. inversion H; subst. cbn [fst snd].
  eapply step_inv; eauto.
Qed.

Lemma mstep_inv : forall dofs same gs l gs', (forall e, dofs e = false) -> (forall e, same e = true) ->
  minv gs -> mstep dofs same gs l = Some gs' -> minv gs'.
Proof.
  intros dofs same gs l gs' Hd Hs Hi H. destruct l as [i l|i e|max]; cbn [mstep] in H.
  - destruct l; try discriminate;
      (eapply upd_gate_inv; [|exact Hi|exact H]; intros g g' Hg Hgg; eapply on_gate_inv; eauto).
  - rewrite Hs in H. eapply upd_gate_inv; [|exact Hi|exact H]. intros g g' Hg Hgg. eapply on_gate_inv; eauto.
  - inversion H; subst. apply Forall_app. split; [exact Hi|]. constructor; [apply inv_init|constructor].
Qed.

Lemma mrun_inv : forall dofs same ls gs gs', (forall e, dofs e = false) -> (forall e, same e = true) ->
  minv gs -> mrun dofs same gs ls = Some gs' -> minv gs'.
Proof.
  intros dofs same ls. induction ls as [|l ls IH]; intros gs gs' Hd Hs Hi Hr; cbn [mrun] in Hr.
  - inversion Hr; subst; exact Hi.
  - destruct (mstep dofs same gs l) as [g1|] eqn:E; [|discriminate].
    apply (IH g1 gs' Hd Hs); [|exact Hr]. exact (mstep_inv dofs same gs l g1 Hd Hs Hi E).
Qed.

(* every gate, old or new, in every interleaving of arrivals, admissions,
   cancellations, completions, deferred Dones and configuration reloads *)
Lemma per_gate_bound : forall dofs same max ls gs, (forall e, dofs e = false) -> (forall e, same e = true) ->
  mrun dofs same (minit max) ls = Some gs ->
  Forall (fun g => working (snd g) <= fst g /\ panics (snd g) = 0 /\ tokens (snd g) = working (snd g) + exiting (snd g)) gs.
Proof.
  intros dofs same max ls gs Hd Hs Hr.
  pose proof (mrun_inv dofs same ls (minit max) gs Hd Hs (minv_init max) Hr) as Hi.
  eapply Forall_impl; [|exact Hi]. intros [cap s] [H1 [H2 H3]]. cbn [fst snd] in *. lia.
Qed.

Lemma per_gate_bound_current_source : forall max ls gs,
  mrun done_on_failed_start same_gate (minit max) ls = Some gs ->
  Forall (fun g => working (snd g) <= fst g /\ panics (snd g) = 0) gs.
Proof.
  intros max ls gs Hr.
  pose proof (per_gate_bound _ _ max ls gs current_source_safe current_source_same_gate Hr) as H.
  eapply Forall_impl; [|exact H]. intros g [A [B _]]. auto.
Qed.

Lemma exec_op_inv : forall dofs same gs o gs', (forall e, dofs e = false) -> (forall e, same e = true) ->
  minv gs -> exec_op dofs same gs o = Some gs' -> minv gs'.
Proof.
  intros dofs same gs o gs' Hd Hs Hi He. unfold exec_op in He.
  destruct (op_enabled gs o); [|discriminate].
  destruct (mrun dofs same gs (op_labels gs o)) as [g1|] eqn:E1; [|discriminate].
  eapply mrun_inv; [exact Hd|exact Hs| |exact He]. eapply mrun_inv; eauto.
Qed.

(* what the harness' schedule controller does is a run of the LTS *)
Lemma exec_op_is_run : forall dofs same gs o gs', exec_op dofs same gs o = Some gs' ->
  exists ls, mrun dofs same gs ls = Some gs'.
Proof.
  intros dofs same gs o gs' He. unfold exec_op in He.
  destruct (op_enabled gs o); [|discriminate].
  destruct (mrun dofs same gs (op_labels gs o)) as [g1|] eqn:E1; [|discriminate].
  exists (op_labels gs o ++ all_admits 0 g1).
  remember (op_labels gs o) as l0 eqn:El. clear El. revert gs E1.
  induction l0 as [|l ls IH]; intros gs0 E1; cbn [mrun app] in *.
  - inversion E1; subst. exact He.
  - destruct (mstep dofs same gs0 l) as [g2|]; [|discriminate]. apply IH. exact E1.
Qed.

Lemma sum_panics_zero : forall gs, Forall (fun g => panics (snd g) = 0) gs -> sum_of panics gs = 0.
Proof. intros gs H. induction H as [|g r Hg _ IH]; cbn [sum_of fold_right]; [reflexivity|]. fold (sum_of panics r). lia. Qed.

Lemma follows_pred : forall dofs same steps gs, (forall e, dofs e = false) -> (forall e, same e = true) -> minv gs ->
  follows dofs same gs steps = true -> forallb (fun st => snap_ok (snd st)) steps = true.
Proof.
  intros dofs same steps. induction steps as [|[o obs] r IH]; intros gs Hd Hs Hi Hf; [reflexivity|].
  cbn [follows] in Hf. destruct (exec_op dofs same gs o) as [gs'|] eqn:E; [|discriminate].
  apply andb_true_iff in Hf as [Hsn Hf].
  pose proof (exec_op_inv dofs same gs o gs' Hd Hs Hi E) as Hi'.
  cbn [forallb snd]. apply andb_true_iff. split; [|eapply IH; eauto].
  destruct obs as [[[og ofin] oc] op]. unfold snap_of, snap_eqb in Hsn.
  apply andb_true_iff in Hsn as [Hsn Hp]. apply andb_true_iff in Hsn as [Hsn _]. apply andb_true_iff in Hsn as [Hg _].
  apply Nat.eqb_eq in Hp.
  unfold snap_ok. apply andb_true_iff. split.
  - (* every observed gate entry equals the model's, which is within its capacity *)
    clear -Hg Hi'. revert og Hg. induction Hi' as [|[cap s] gr Hinv _ IHg]; intros og Hg.
    + destruct og; [reflexivity|discriminate].
    + destruct og as [|[[c w] wt] og']; [discriminate|]. cbn [map list_eqb] in Hg.
      apply andb_true_iff in Hg as [H1 H2]. cbn [forallb]. apply andb_true_iff. split; [|apply IHg; exact H2].
      unfold gsnap_eqb in H1. cbn [fst snd] in H1.
      apply andb_true_iff in H1 as [H1 _]. apply andb_true_iff in H1 as [Hc Hw].
      apply Nat.eqb_eq in Hc. apply Nat.eqb_eq in Hw. destruct Hinv as [I1 [I2 I3]]. cbn [fst snd] in *.
      apply Nat.leb_le. lia.
  - apply Nat.eqb_eq. rewrite <- Hp. apply sum_panics_zero.
    eapply Forall_impl; [|exact Hi']. intros g [_ [_ H]]. exact H.
Qed.

Lemma corr_implies_pred : forall c, corr_ok c = true -> pred_ok c = true.
Proof.
  intros [max steps] H. cbn in *. eapply follows_pred; eauto.
  - exact current_source_safe.
  - exact current_source_same_gate.
  - apply minv_init.
Qed.

(* ---- a handler that looks the gate up again for its Done (Start on one
   gate value, Done on whatever gate is installed then) breaks both halves as
   soon as a request straddles a reload ---- *)
Lemma double_lookup_over_admission :
  exists gs, mrun (fun _ => false) (fun _ => false) (minit 1)
    [MOn 0 (LArrive Http); MOn 0 LAdmit; MReload 1; MOn 1 (LArrive Http); MOn 1 LAdmit;
     MOn 0 LFinish; MRelease 0 Http; MOn 1 (LArrive Otlp); MOn 1 LAdmit] = Some gs
    /\ map (fun g => (fst g, working (snd g))) gs = [(1, 0); (1, 2)].
Proof. eexists. split; [vm_compute; reflexivity|reflexivity]. Qed.

Lemma double_lookup_panic :
  exists gs, mrun (fun _ => false) (fun _ => false) (minit 1)
    [MOn 0 (LArrive Http); MOn 0 LAdmit; MReload 1; MOn 0 LFinish; MRelease 0 Http] = Some gs
    /\ sum_of panics gs = 1.
Proof. eexists. split; [vm_compute; reflexivity|reflexivity]. Qed.

(* ---- the order that was in the source before the repair ---- *)
Lemma buggy_over_admission :
  exists s, run (fun _ => true) 1 init
    [LArrive Http; LAdmit; LArrive Http; LCancel Http; LArrive Otlp; LAdmit] = Some s
    /\ working s = 2.
Proof. eexists. split; [vm_compute; reflexivity|reflexivity]. Qed.

Lemma buggy_panic :
  exists s, run (fun _ => true) 1 init [LArrive Http; LCancel Http] = Some s /\ panics s = 1.
Proof. eexists. split; [vm_compute; reflexivity|reflexivity]. Qed.
