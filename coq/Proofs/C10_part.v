(* C10 — gapBasedPartitioner.Partition covers every requested range. *)
From Coq Require Import ZArith NArith List Bool Lia Sorted.
Import ListNotations.
From Verif Require Import Lib.Corr Lib.Storegw_Str Gen.C10 Model.C10.
Open Scope Z_scope.

Definition by_start (a b : Z * Z) : Prop := fst a <= fst b.

Lemma grow_spec g : forall rs pend k pend' rest k',
  grow g pend rs k = (pend', rest, k') ->
  exists taken, rs = taken ++ rest /\ k' = (k + length taken)%nat /\ pend <= pend'
                /\ Forall (fun r : Z * Z => snd r <= pend') taken.
Proof.
  induction rs as [|[s e] r IH]; intros pend k pend' rest k' H.
  - simpl in H. inversion H; subst. exists []. simpl. repeat split; try constructor; try lia.
  - cbn [grow] in H. destruct (pend + g <? s).
    + inversion H; subst. exists []. simpl. repeat split; try constructor; try lia.
    + apply IH in H. destruct H as (taken & E & Hk & Hp & Hf).
      exists ((s, e) :: taken). repeat split.
      * simpl. rewrite E. reflexivity.
      * simpl. lia.
      * destruct (pend <=? e) eqn:El; [apply Z.leb_le in El|apply Z.leb_gt in El]; lia.
      * constructor; [|exact Hf]. simpl. destruct (pend <=? e) eqn:El; [apply Z.leb_le in El|apply Z.leb_gt in El]; lia.
Qed.

Lemma firstn_app_exact {A} (a b : list A) : firstn (length a) (a ++ b) = a.
Proof. induction a; simpl; [destruct b; reflexivity|]. rewrite IHa. reflexivity. Qed.

Lemma skipn_app_exact {A} (a b : list A) : skipn (length a) (a ++ b) = b.
Proof. induction a; simpl; [reflexivity|exact IHa]. Qed.

Lemma partition_ok g : forall fuel rs j all done,
  all = done ++ rs -> j = length done -> (length rs <= fuel)%nat ->
  StronglySorted by_start all ->
  exists ps, partition fuel g rs j = Some ps /\ parts_cover_from all ps j = true.
Proof.
  induction fuel as [|f IH]; intros rs j all done Ea Ej Hf Hs.
  - destruct rs; [|simpl in Hf; lia]. exists []. split; [reflexivity|]. simpl.
    subst. rewrite app_nil_r. apply Nat.eqb_refl.
  - destruct rs as [|[s e] r].
    + exists []. split; [reflexivity|]. simpl. subst. rewrite app_nil_r. apply Nat.eqb_refl.
    + cbn [partition]. destruct (grow g e r (S j)) as [[pend rest] k] eqn:Eg.
      destruct (grow_spec g r e (S j) pend rest k Eg) as (taken & Er & Ek & Hp & Ht).
      assert (Ea' : all = (done ++ (s, e) :: taken) ++ rest).
      { rewrite Ea, Er. rewrite <- app_assoc. reflexivity. }
      assert (Ek' : k = length (done ++ (s, e) :: taken)).
      { rewrite app_length. simpl. lia. }
      destruct (IH rest k all (done ++ (s, e) :: taken) Ea' Ek') as (ps & P1 & P2).
      { simpl in Hf. rewrite Er, app_length in Hf. lia. }
      { exact Hs. }
      rewrite P1. exists ((s, pend, j, k) :: ps). split; [reflexivity|].
      cbn [parts_cover_from]. rewrite Nat.eqb_refl, P2, andb_true_r. cbn [andb].
      assert (Hlt : (j <? k)%nat = true) by (apply Nat.ltb_lt; lia). rewrite Hlt. cbn [andb].
      (* the elements of this part *)
      assert (Hel : firstn (k - j) (skipn j all) = (s, e) :: taken).
      { rewrite Ea, Ej, skipn_app_exact, Er.
        replace (k - length done)%nat with (S (length taken)) by lia. simpl. rewrite firstn_app_exact. reflexivity. }
      rewrite Hel. apply forallb_forall. intros x Hx.
      (* everything after (s, e) in [all] starts at or after s *)
      assert (Hsorted : Forall (by_start (s, e)) (taken ++ rest)).
      { rewrite Ea, Er in Hs. clear - Hs. induction done as [|d done IHd]; simpl in Hs.
        - inversion Hs; assumption.
        - apply IHd. inversion Hs; assumption. }
      destruct Hx as [<-|Hx].
      * simpl. apply andb_true_iff. split; apply Z.leb_le; lia.
      * apply andb_true_iff. split; apply Z.leb_le.
        -- rewrite Forall_forall in Hsorted. specialize (Hsorted x (in_or_app _ _ _ (or_introl Hx))).
           unfold by_start in Hsorted. simpl in Hsorted. exact Hsorted.
        -- rewrite Forall_forall in Ht. apply Ht. exact Hx.
Qed.

Lemma partition_covers g rs : StronglySorted by_start rs ->
  exists ps, partition (length rs) g rs 0%nat = Some ps /\ parts_cover rs ps = true.
Proof.
  intro Hs. apply (partition_ok g (length rs) rs 0%nat rs []); auto.
Qed.
