(* C49 — lemmas about the model of jumpHash and the memcached server selector. *)
From Coq Require Import NArith ZArith List Bool Lia Permutation Sorted String.
Import ListNotations.
From Verif Require Import Lib.Corr Lib.Misc_Cmp Gen.C49 Model.C49.
Open Scope Z_scope.

(* ---- tie T: facts about the source text ---- *)

Definition if_conds (evs : list (string * string)) : list string :=
  map snd (filter (fun e => String.eqb (fst e) "if") evs).

Definition callees (evs : list (string * string)) : list string :=
  map snd (filter (fun e => String.eqb (fst e) "call") evs).

Definition src_facts_ok : bool :=
  (* the float expression the harness copies as the oracle, and `b = j` *)
  String.eqb jump_j_expr "int64(float64(b+1) * (float64(int64(1)<<31) / float64((key>>33)+1)))"
  && String.eqb jump_b_expr "j"
  (* PickServer / PickServerForKeys: no servers, one server, otherwise the jump hash *)
  && list_eqb String.eqb (if_conds PickServer_events) ["len(s.addrs) == 0"; "len(s.addrs) == 1"]%string
  && list_eqb String.eqb (if_conds PickServerForKeys_events) ["len(s.addrs) <= 0"; "len(s.addrs) == 1"]%string
  && existsb (String.eqb "pickServerWithJumpHash") (callees PickServer_events)
  && existsb (String.eqb "pickServerWithJumpHash") (callees PickServerForKeys_events)
  && list_eqb String.eqb (callees pickServerWithJumpHash_events) ["xxhash.Sum64String"; "len"; "jumpHash"]%string
  && existsb (String.eqb "natsort.Sort") (callees SetServers_events).

Lemma src_facts : src_facts_ok = true.
Proof. vm_compute. reflexivity. Qed.

Lemma filter_all_true {A} (f : A -> bool) l : (forall x, f x = true) -> filter f l = l.
Proof. intro H. induction l as [|x l IH]; simpl; [reflexivity|]. rewrite H, IH. reflexivity. Qed.

Lemma filter_all_false {A} (f : A -> bool) l : (forall x, f x = false) -> filter f l = [].
Proof. intro H. induction l as [|x l IH]; simpl; [reflexivity|]. rewrite H, IH. reflexivity. Qed.

Lemma nodup_app_r {A} (l r : list A) : NoDup (l ++ r) -> NoDup r.
Proof. induction l as [|x l IH]; simpl; intro H; [exact H|]. inversion H; subst. apply IH. assumption. Qed.

(* ---- jump hash ---- *)
Section Jump.
  Variable nextj : Z -> Z -> Z.
  (* the expression is only ever evaluated on bucket numbers below the number of
     buckets and on 64-bit keys *)
  Variable N : Z.
  Hypothesis N_pos : 1 <= N.
  Hypothesis nextj_gt : forall b k, 0 <= b < N -> 0 <= k < two64 -> b < nextj b k.

  Lemma key_range key : 0 <= jump_key_step key mod two64 < two64.
  Proof. apply Z.mod_pos_bound. reflexivity. Qed.

  Lemma jump_loop_mono f : forall b j key n r,
    jump_loop nextj f b j key n = Some r -> jump_loop nextj (S f) b j key n = Some r.
  Proof.
    induction f as [|f IH]; intros b j key n r H; [discriminate|].
    cbn [jump_loop] in H. cbn [jump_loop].
    destruct (j <? n); [|exact H]. apply IH in H. exact H.
  Qed.

  Lemma jump_loop_spec f : forall b j key n,
    0 <= j -> n <= N ->
    (Z.to_nat (n - j) < f)%nat ->
    exists r, jump_loop nextj f b j key n = Some r
              /\ (j < n -> j <= r < n) /\ (n <= j -> r = b).
  Proof.
    induction f as [|f IH]; intros b j key n Hj0 HnN Hf; [lia|].
    cbn [jump_loop]. destruct (j <? n) eqn:E.
    - apply Z.ltb_lt in E.
      set (key' := jump_key_step key mod two64).
      pose proof (nextj_gt j key' ltac:(lia) (key_range key)) as Hj.
      destruct (IH j (nextj j key') key' n) as [r [Hr [H1 H2]]]; [lia|lia|lia|].
      exists r. split; [exact Hr|]. split; [|lia]. intros _.
      destruct (Z_lt_le_dec (nextj j key') n) as [Hlt|Hge]; [specialize (H1 Hlt); lia | specialize (H2 Hge); lia].
    - apply Z.ltb_ge in E. exists b. split; [reflexivity|]. split; [lia | reflexivity].
  Qed.

  Lemma jump_range key n :
    1 <= n <= N -> exists r, jump nextj key n = Some r /\ 0 <= r < n.
  Proof.
    intro Hn. unfold jump.
    destruct (jump_loop_spec (S (Z.to_nat n)) (-1) 0 key n) as [r [Hr [H1 _]]]; [lia|lia|lia|].
    exists r. split; [exact Hr | apply H1; lia].
  Qed.

  Lemma jump_loop_succ f : forall b j key n,
    0 <= j -> n + 1 <= N ->
    (Z.to_nat (n + 1 - j) < f)%nat ->
    jump_loop nextj f b j key (n + 1) = jump_loop nextj f b j key n
    \/ jump_loop nextj f b j key (n + 1) = Some n.
  Proof.
    induction f as [|f IH]; intros b j key n Hj0 HnN Hf; [lia|].
    cbn [jump_loop].
    destruct (j <? n) eqn:E.
    - apply Z.ltb_lt in E. assert (E' : (j <? n + 1) = true) by (apply Z.ltb_lt; lia).
      rewrite E'. set (key' := jump_key_step key mod two64).
      pose proof (nextj_gt j key' ltac:(lia) (key_range key)). apply IH; lia.
    - apply Z.ltb_ge in E. destruct (j <? n + 1) eqn:E'.
      + apply Z.ltb_lt in E'. assert (j = n) by lia. subst j. right.
        set (key' := jump_key_step key mod two64).
        pose proof (nextj_gt n key' ltac:(lia) (key_range key)) as Hj.
        destruct f as [|f]; [lia|]. cbn [jump_loop].
        assert (E2 : (nextj n key' <? n + 1) = false) by (apply Z.ltb_ge; lia).
        rewrite E2. reflexivity.
      + left. reflexivity.
  Qed.

  (* consistency: growing the number of buckets by one either keeps the bucket
     or moves the key to the new bucket *)
  Lemma jump_consistent key n :
    1 <= n -> n + 1 <= N -> jump nextj key (n + 1) = jump nextj key n \/ jump nextj key (n + 1) = Some n.
  Proof.
    intros Hn HnN.
    destruct (jump_range key n ltac:(lia)) as [r [Hr0 _]].
    unfold jump in *.
    assert (Hfuel : S (Z.to_nat (n + 1)) = S (S (Z.to_nat n))) by lia.
    rewrite Hfuel.
    pose proof (jump_loop_mono _ _ _ _ _ _ Hr0) as Hr1.
    destruct (jump_loop_succ (S (S (Z.to_nat n))) (-1) 0 key n) as [H|H]; [lia|lia|lia| |].
    - left. rewrite H, Hr1, Hr0. reflexivity.
    - right. exact H.
  Qed.

  (* ---- selector ---- *)

  Lemma pick_jump_some addrs k :
    addrs <> [] -> Z.of_nat (List.length addrs) <= N ->
    exists a, pick_jump nextj addrs k = Some a /\ In a addrs.
  Proof.
    intros Hne HN. unfold pick_jump.
    destruct (jump_range (snd k) (Z.of_nat (List.length addrs))) as [r [Hr Hrange]].
    { destruct addrs; [congruence | simpl List.length in *; lia]. }
    rewrite Hr.
    destruct (nth_error addrs (Z.to_nat r)) as [a|] eqn:E.
    - exists a. split; [reflexivity|]. eapply nth_error_In; eauto.
    - apply nth_error_None in E. lia.
  Qed.

  Lemma pick_some addrs k :
    addrs <> [] -> Z.of_nat (List.length addrs) <= N ->
    exists a, pick nextj addrs k = Some a /\ In a addrs.
  Proof.
    intros Hne HN. destruct addrs as [|a [|b t]]; [congruence| |].
    - exists a. split; [reflexivity | left; reflexivity].
    - apply pick_jump_some; [discriminate | exact HN].
  Qed.

  Lemma pick_jump_single a k : pick_jump nextj [a] k = Some a.
  Proof.
    destruct (pick_jump_some [a] k) as [x [Hx Hin]]; [discriminate | simpl; lia|].
    destruct Hin as [Hin|[]]. subst. exact Hx.
  Qed.

  (* pick = pick_jump whenever there is at least one server *)
  Lemma pick_is_jump addrs k : addrs <> [] -> pick nextj addrs k = pick_jump nextj addrs k.
  Proof.
    intro Hne. destruct addrs as [|a [|b t]]; [congruence| |reflexivity].
    simpl. symmetry. apply pick_jump_single.
  Qed.

  (* pushing a server at the end of the list only moves keys onto it *)
  Lemma pick_push addrs s k :
    Z.of_nat (List.length addrs) + 1 <= N ->
    pick nextj (addrs ++ [s]) k = pick nextj addrs k \/ pick nextj (addrs ++ [s]) k = Some s.
  Proof.
    intro HN. destruct addrs as [|a t].
    - right. reflexivity.
    - rewrite (pick_is_jump (a :: t)) by discriminate.
      rewrite (pick_is_jump ((a :: t) ++ [s])) by discriminate.
      unfold pick_jump. rewrite app_length. simpl List.length in *.
      replace (Z.of_nat (S (List.length t) + 1)) with (Z.of_nat (S (List.length t)) + 1) by lia.
      set (n := Z.of_nat (S (List.length t))) in *.
      destruct (jump_consistent (snd k) n) as [H|H]; [unfold n; lia|lia| |].
      + left. rewrite H.
        destruct (jump_range (snd k) n) as [r [Hr Hrange]]; [unfold n in *; lia|].
        rewrite Hr. apply nth_error_app1. simpl List.length. unfold n in Hrange. lia.
      + right. rewrite H. unfold n. rewrite Nat2Z.id.
        rewrite nth_error_app2 by (simpl; lia).
        replace (S (List.length t) - List.length (a :: t))%nat with 0%nat by (simpl; lia). reflexivity.
  Qed.

  (* ---- PickServerForKeys ---- *)

  Lemma mget_mset_same m a v : mget (mset m a v) a = v.
  Proof.
    induction m as [|[a' ks] m IH]; simpl.
    - rewrite str_eqb_refl. reflexivity.
    - destruct (str_eqb a a') eqn:E; simpl; rewrite E; [reflexivity | exact IH].
  Qed.

  Lemma mget_mset_other m a a' v : a <> a' -> mget (mset m a v) a' = mget m a'.
  Proof.
    intro Hne. induction m as [|[a0 ks] m IH]; simpl.
    - assert (E : str_eqb a' a = false) by (apply str_eqb_neq; congruence). rewrite E. reflexivity.
    - destruct (str_eqb a a0) eqn:E; simpl.
      + apply str_eqb_eq in E. subst a0.
        assert (E' : str_eqb a' a = false) by (apply str_eqb_neq; congruence). rewrite E'. reflexivity.
      + destruct (str_eqb a' a0); [reflexivity | exact IH].
  Qed.

  Definition goes_to (addrs : list str) (a : str) (k : ckey) : bool :=
    ostr_eqb (pick_jump nextj addrs k) (Some a).

  Lemma ostr_eqb_some a b : ostr_eqb (Some a) (Some b) = str_eqb a b.
  Proof. reflexivity. Qed.

  Lemma batch_fold addrs keys : forall m0 m,
    fold_left (fun om k =>
      match om, pick_jump nextj addrs k with
      | Some m, Some a => Some (mset m a (mget m a ++ [k]))
      | _, _ => None
      end) keys (Some m0) = Some m ->
    forall a, mget m a = mget m0 a ++ filter (goes_to addrs a) keys.
  Proof.
    induction keys as [|k keys IH]; intros m0 m H a; simpl in H.
    - inversion H; subst. simpl. rewrite app_nil_r. reflexivity.
    - destruct (pick_jump nextj addrs k) as [ak|] eqn:Ek.
      + rewrite (IH _ _ H a). simpl. unfold goes_to at 2. rewrite Ek, ostr_eqb_some.
        destruct (str_eqb ak a) eqn:E.
        * apply str_eqb_eq in E. subst ak. rewrite mget_mset_same, <- app_assoc. reflexivity.
        * apply str_eqb_neq in E. rewrite mget_mset_other by exact E. reflexivity.
      + exfalso. clear -H. induction keys as [|k' keys IHk]; simpl in H; [discriminate | auto].
  Qed.

  Lemma batch_fold_some addrs keys : addrs <> [] -> Z.of_nat (List.length addrs) <= N -> forall m0,
    exists m, fold_left (fun om k =>
      match om, pick_jump nextj addrs k with
      | Some m, Some a => Some (mset m a (mget m a ++ [k]))
      | _, _ => None
      end) keys (Some m0) = Some m.
  Proof.
    intros Hne HN. induction keys as [|k keys IH]; intros m0; simpl.
    - exists m0. reflexivity.
    - destruct (pick_jump_some addrs k Hne HN) as [a [Ha _]]. rewrite Ha. apply IH.
  Qed.

  (* a key is under server [a] in the batch result iff PickServer sends it to [a];
     order and multiplicity of the keys are preserved *)
  Lemma batch_eq_single addrs keys :
    addrs <> [] -> Z.of_nat (List.length addrs) <= N ->
    exists m, pick_for_keys nextj addrs keys = Some m
      /\ forall a, mget m a = filter (fun k => ostr_eqb (pick nextj addrs k) (Some a)) keys.
  Proof.
    intros Hne HN. destruct addrs as [|a0 [|a1 t]]; [congruence| |].
    - exists [(a0, keys)]. split; [reflexivity|]. intro a. simpl.
      destruct (str_eqb a a0) eqn:E.
      + apply str_eqb_eq in E. subst. symmetry. apply filter_all_true.
        intros k. apply str_eqb_refl.
      + assert (E' : str_eqb a0 a = false).
        { apply str_eqb_neq. apply str_eqb_neq in E. congruence. }
        symmetry. apply filter_all_false. intros k. exact E'.
    - destruct (batch_fold_some (a0 :: a1 :: t) keys ltac:(discriminate) HN []) as [m Hm].
      exists m. split; [exact Hm|]. intro a.
      rewrite (batch_fold _ _ _ _ Hm a). reflexivity.
  Qed.
End Jump.

(* ---- insertion sort: permutation, sortedness, uniqueness ---- *)
Section SortFacts.
  Variable less : str -> str -> bool.

  Definition asym_on (d : list str) : Prop :=
    forall x y, In x d -> In y d -> x <> y -> less x y = negb (less y x).
  Definition trans_on (d : list str) : Prop :=
    forall x y z, In x d -> In y d -> In z d -> x <> y -> y <> z -> x <> z ->
      less x y = true -> less y z = true -> less x z = true.

  (* descending: every element is greater than all later ones *)
  Definition desc (a b : str) : Prop := less b a = true.

  Lemma go_insert_perm x rp : Permutation (x :: rp) (go_insert less x rp).
  Proof.
    induction rp as [|y rp IH]; simpl; [reflexivity|].
    destruct (less x y); [|reflexivity]. rewrite perm_swap. constructor. exact IH.
  Qed.

  Lemma go_fold_perm l : forall rp,
    Permutation (l ++ rp) (fold_left (fun rp x => go_insert less x rp) l rp).
  Proof.
    induction l as [|x l IH]; intro rp; simpl; [reflexivity|].
    rewrite <- IH. rewrite <- go_insert_perm. apply Permutation_middle.
  Qed.

  Lemma go_isort_perm l : Permutation l (go_isort less l).
  Proof.
    unfold go_isort. rewrite <- Permutation_rev. rewrite <- go_fold_perm, app_nil_r. reflexivity.
  Qed.

  Lemma go_insert_sorted d x rp :
    asym_on d -> trans_on d -> In x d -> incl rp d -> ~ In x rp -> NoDup rp ->
    StronglySorted desc rp -> StronglySorted desc (go_insert less x rp).
  Proof.
    intros Ha Ht Hx. induction rp as [|y rp IH]; intros Hincl Hnin Hnd Hs; simpl.
    - constructor; constructor.
    - assert (Hy : In y d) by (apply Hincl; left; reflexivity).
      assert (Hxy : x <> y) by (intro; subst; apply Hnin; left; reflexivity).
      inversion Hs as [|? ? Hs' Hall]; subst. inversion Hnd as [|? ? Hny Hnd']; subst.
      destruct (less x y) eqn:E.
      + constructor.
        * apply IH; auto. { intros z Hz. apply Hincl. right. exact Hz. } { intro; apply Hnin; right; assumption. }
        * eapply Permutation_Forall; [apply go_insert_perm|]. constructor; [exact E | exact Hall].
      + assert (Eyx : less y x = true).
        { rewrite (Ha y x Hy Hx) by congruence. rewrite E. reflexivity. }
        constructor; [exact Hs|]. constructor; [exact Eyx|].
        apply Forall_forall. intros z Hz. rewrite Forall_forall in Hall. specialize (Hall z Hz).
        unfold desc in *.
        assert (Hzd : In z d) by (apply Hincl; right; exact Hz).
        apply (Ht z y x); auto.
        * intro; subst. contradiction.
        * intro; subst. apply Hnin. right. exact Hz.
  Qed.

  Lemma go_fold_sorted d l : forall rp,
    asym_on d -> trans_on d -> incl (l ++ rp) d -> NoDup (l ++ rp) ->
    StronglySorted desc rp ->
    StronglySorted desc (fold_left (fun rp x => go_insert less x rp) l rp).
  Proof.
    induction l as [|x l IH]; intros rp Ha Ht Hincl Hnd Hs; simpl; [exact Hs|].
    simpl in Hnd. inversion Hnd as [|? ? Hnin Hnd']; subst.
    assert (Hp : Permutation (l ++ x :: rp) (l ++ go_insert less x rp)).
    { apply Permutation_app_head. apply go_insert_perm. }
    apply IH; auto.
    - intros z Hz. apply Hincl. simpl.
      eapply Permutation_in in Hz; [|symmetry; exact Hp].
      apply in_app_or in Hz as [Hz|[Hz|Hz]]; [right; apply in_or_app; left; exact Hz | left; exact Hz | right; apply in_or_app; right; exact Hz].
    - eapply Permutation_NoDup; [exact Hp|]. apply NoDup_Add with (a := x) (l := l ++ rp).
      + apply Add_app.
      + constructor; assumption.
    - eapply go_insert_sorted with (d := d); eauto.
      + apply Hincl. left. reflexivity.
      + intros z Hz. apply Hincl. right. apply in_or_app. right. exact Hz.
      + intro Hin. apply Hnin. apply in_or_app. right. exact Hin.
      + apply nodup_app_r in Hnd'. exact Hnd'.
  Qed.

  Lemma sorted_unique (R : str -> str -> Prop) : forall l1 l2,
    Permutation l1 l2 -> NoDup l1 ->
    (forall x y, In x l1 -> In y l1 -> x <> y -> R x y -> R y x -> False) ->
    StronglySorted R l1 -> StronglySorted R l2 -> l1 = l2.
  Proof.
    induction l1 as [|a t1 IH]; intros l2 Hp Hnd Hasym H1 H2.
    - apply Permutation_nil in Hp. congruence.
    - destruct l2 as [|b t2]; [apply Permutation_sym, Permutation_nil in Hp; discriminate|].
      inversion H1 as [|? ? H1' Hall1]; subst. inversion H2 as [|? ? H2' Hall2]; subst.
      rewrite Forall_forall in Hall1, Hall2.
      assert (Hab : a = b).
      { destruct (list_eq_dec N.eq_dec a b) as [E|Hne]; [exact E|]. exfalso.
        assert (Ha2 : In a (b :: t2)) by (eapply Permutation_in; [exact Hp | left; reflexivity]).
        assert (Hb1 : In b (a :: t1)) by (eapply Permutation_in; [symmetry; exact Hp | left; reflexivity]).
        destruct Ha2 as [Ha2|Ha2]; [congruence|]. destruct Hb1 as [Hb1|Hb1]; [congruence|].
        apply (Hasym a b); [left; reflexivity | right; exact Hb1 | exact Hne | apply Hall1; exact Hb1 | apply Hall2; exact Ha2]. }
      subst b. f_equal. apply Permutation_cons_inv in Hp.
      inversion Hnd; subst.
      apply IH; auto.
      intros x y Hx Hy. apply Hasym; right; assumption.
  Qed.

  (* with a comparison that is a strict total order on the (distinct) listed
     servers, the stored order does not depend on the listing order *)
  Lemma go_isort_order_independent l1 l2 :
    NoDup l1 -> Permutation l1 l2 -> asym_on l1 -> trans_on l1 ->
    go_isort less l1 = go_isort less l2.
  Proof.
    intros Hnd Hp Ha Ht. unfold go_isort. f_equal.
    set (r1 := fold_left (fun rp x => go_insert less x rp) l1 []).
    set (r2 := fold_left (fun rp x => go_insert less x rp) l2 []).
    assert (Hp1 : Permutation l1 r1) by (unfold r1; rewrite <- go_fold_perm, app_nil_r; reflexivity).
    assert (Hp2 : Permutation l2 r2) by (unfold r2; rewrite <- go_fold_perm, app_nil_r; reflexivity).
    assert (Hnd2 : NoDup l2) by (eapply Permutation_NoDup; eauto).
    assert (Ha2 : asym_on l2).
    { intros x y Hx Hy. apply Ha; eapply Permutation_in; try (symmetry; exact Hp); assumption. }
    assert (Ht2 : trans_on l2).
    { intros x y z Hx Hy Hz. apply Ht; eapply Permutation_in; try (symmetry; exact Hp); assumption. }
    apply (sorted_unique desc).
    - rewrite <- Hp1, Hp. exact Hp2.
    - eapply Permutation_NoDup; eauto.
    - intros x y Hx Hy Hne Hxy Hyx. unfold desc in *.
      assert (Hx1 : In x l1) by (eapply Permutation_in; [symmetry; exact Hp1 | exact Hx]).
      assert (Hy1 : In y l1) by (eapply Permutation_in; [symmetry; exact Hp1 | exact Hy]).
      rewrite (Ha y x Hy1 Hx1) in Hxy by congruence. rewrite Hyx in Hxy. discriminate.
    - unfold r1. apply go_fold_sorted with (d := l1); auto.
      + rewrite app_nil_r. apply incl_refl.
      + rewrite app_nil_r. exact Hnd.
      + constructor.
    - unfold r2. apply go_fold_sorted with (d := l2); auto.
      + rewrite app_nil_r. apply incl_refl.
      + rewrite app_nil_r. exact Hnd2.
      + constructor.
  Qed.

  Lemma strict_total_b_sound l :
    strict_total_b less l = true -> asym_on l /\ trans_on l.
  Proof.
    unfold strict_total_b. intro H. apply andb_true_iff in H as [H1 H2]. split.
    - intros x y Hx Hy Hne.
      rewrite forallb_forall in H1. specialize (H1 x Hx). rewrite forallb_forall in H1. specialize (H1 y Hy).
      apply orb_true_iff in H1 as [H1|H1].
      + apply str_eqb_eq in H1. contradiction.
      + apply eqb_prop in H1. exact H1.
    - intros x y z Hx Hy Hz Hxy Hyz Hxz Lxy Lyz.
      rewrite forallb_forall in H2. specialize (H2 x Hx). rewrite forallb_forall in H2. specialize (H2 y Hy).
      rewrite forallb_forall in H2. specialize (H2 z Hz).
      rewrite Lxy, Lyz in H2. simpl in H2.
      assert (E1 : str_eqb x y = false) by (apply str_eqb_neq; exact Hxy).
      assert (E2 : str_eqb y z = false) by (apply str_eqb_neq; exact Hyz).
      assert (E3 : str_eqb x z = false) by (apply str_eqb_neq; exact Hxz).
      rewrite E1, E2, E3 in H2. rewrite !orb_false_r in H2. exact H2.
  Qed.

  Lemma nodup_b_sound l : nodup_b l = true -> NoDup l.
  Proof.
    induction l as [|x l IH]; simpl; intro H; [constructor|].
    apply andb_true_iff in H as [H1 H2]. constructor; [|apply IH; exact H2].
    intro Hin. apply mem_str_In in Hin. rewrite Hin in H1. discriminate.
  Qed.
End SortFacts.

Lemma set_servers_order_independent servers servers2 :
  nodup_b servers = true -> strict_total_b nat_less servers = true ->
  Permutation servers servers2 -> set_servers servers = set_servers servers2.
Proof.
  intros Hnd Hst Hp. apply strict_total_b_sound in Hst as [Ha Ht].
  apply go_isort_order_independent; auto. apply nodup_b_sound. exact Hnd.
Qed.

(* ---- refutations (witnesses replayed on the implementation: corpus/C49) ---- *)

(* "/s1" and "/s01" *)
Definition s1 : str := [47; 115; 49]%N.
Definition s01 : str := [47; 115; 48; 49]%N.

Lemma natsort_not_antisymmetric :
  nat_less s1 s01 = true /\ nat_less s01 s1 = true /\ nat_less s1 s1 = true
  /\ set_servers [s1; s01] <> set_servers [s01; s1].
Proof. vm_compute. repeat split; try reflexivity. discriminate. Qed.

(* servers "/0" and "/2", new server "/1"; the key "S:89806" with
   xxhash 8383206456773353393; the two table entries are the values the float
   expression takes on this key's first two iterations (taken from the run on
   the implementation, corpus/C49/05-add-middle.json) *)
Definition w_tab : nj_tab :=
  [((0, 8172498615477174766), 2); ((2, 18350023138622507063), 3)].
Definition w_key : ckey := ([83; 58; 56; 57; 56; 48; 54]%N, 8383206456773353393).
Definition srv0 : str := [47; 48]%N.
Definition srv1 : str := [47; 49]%N.
Definition srv2 : str := [47; 50]%N.

Lemma add_middle_moves_between_old :
  pick (nextj_of w_tab) (set_servers [srv2; srv0]) w_key = Some srv0
  /\ pick (nextj_of w_tab) (set_servers ([srv2; srv0] ++ [srv1])) w_key = Some srv2.
Proof. vm_compute. split; reflexivity. Qed.

(* ---- the check's predicates hold of the model's outputs ---- *)
Section Preds.
  Variable nextj : Z -> Z -> Z.
  Variable N : Z.
  Hypothesis N_pos : 1 <= N.
  Hypothesis nextj_gt : forall b k, 0 <= b < N -> 0 <= k < two64 -> b < nextj b k.

  Lemma jump_outs_ok_model key : forall outs n prev,
    1 <= n -> n + Z.of_nat (List.length outs) <= N + 1 ->
    (match prev with None => True | Some p => 2 <= n /\ jump nextj key (n - 1) = Some p end) ->
    map Some outs = map (jump nextj key) (seqZ n (List.length outs)) ->
    jump_outs_ok n prev outs = true.
  Proof.
    induction outs as [|o outs IH]; intros n prev Hn HN Hprev Hmap; [reflexivity|].
    simpl in Hmap. inversion Hmap as [[Ho Hrest]]. clear Hmap. simpl List.length in HN.
    destruct (jump_range nextj N nextj_gt key n ltac:(lia)) as [r [Hr Hrange]].
    rewrite Hr in Ho. inversion Ho; subst o. clear Ho.
    cbn [jump_outs_ok].
    assert (E1 : (0 <=? r) = true) by (apply Z.leb_le; lia).
    assert (E2 : (r <? n) = true) by (apply Z.ltb_lt; lia).
    rewrite E1, E2. cbn [andb].
    apply andb_true_iff. split.
    - destruct prev as [p|]; [|reflexivity]. destruct Hprev as [Hn2 Hp].
      destruct (jump_consistent nextj N nextj_gt key (n - 1)) as [H|H]; [lia|lia| |];
        replace (n - 1 + 1) with n in H by lia; rewrite Hr in H.
      + rewrite Hp in H. inversion H; subst. rewrite Z.eqb_refl. reflexivity.
      + inversion H; subst. rewrite Z.eqb_refl. apply orb_true_r.
    - apply IH; [lia|lia| |exact Hrest].
      split; [lia|]. replace (n + 1 - 1) with n by lia. exact Hr.
  Qed.

  Lemma jump_pred key tab outs :
    Z.of_nat (List.length outs) <= N ->
    map Some outs = map (jump nextj key) (seqZ 1 (List.length outs)) ->
    pred_ok (CJump key tab outs) = true.
  Proof. intros HN H. simpl. apply (jump_outs_ok_model key); [lia | lia | exact I | exact H]. Qed.

  Lemma ostr_eqb_refl o : ostr_eqb o o = true.
  Proof. destruct o as [a|]; simpl; [apply str_eqb_refl | reflexivity]. Qed.

  Lemma set_servers_length l : List.length (set_servers l) = List.length l.
  Proof. symmetry. apply Permutation_length. apply go_isort_perm. Qed.

  Lemma add_pred servers new keys tab :
    Z.of_nat (List.length servers) + 1 <= N ->
    set_servers (servers ++ [new]) = set_servers servers ++ [new] ->
    pred_ok (CAdd servers new keys tab
               (map (pick nextj (set_servers servers)) keys)
               (map (pick nextj (set_servers (servers ++ [new]))) keys)) = true.
  Proof.
    intros HN E. simpl. rewrite E. induction keys as [|k keys IH]; simpl; [reflexivity|].
    rewrite IH, andb_true_r.
    destruct (pick_push nextj N N_pos nextj_gt (set_servers servers) new k) as [H|H];
      [rewrite set_servers_length; exact HN | |]; rewrite H.
    - rewrite ostr_eqb_refl. reflexivity.
    - simpl. rewrite str_eqb_refl. apply orb_true_r.
  Qed.
End Preds.
