(* C01 — proofs. The heavy lifting (refinement of the iterator model to the
   specification-level penalty merge, and the properties of that merge) is in
   Lib/Dedup_SpecFacts.v and Lib/Dedup_Refine.v; here it is instantiated with the
   penalty configuration regenerated from the source and connected to the
   predicates that the check evaluates. *)
From Coq Require Import ZArith List Bool Lia Sorted.
Import ListNotations.
From Verif Require Import Lib.Corr Lib.Dedup_Iter Lib.Dedup_SpecFacts Lib.Dedup_Refine Gen.C01 Model.C01.
Open Scope Z_scope.

Lemma cfg_is_ok : cfg_ok cfg.
Proof.
  unfold cfg_ok, cfg; cbn [ipen penfA penfB]. unfold initialPenalty, penA_formula, penB_formula.
  repeat split; intros; lia.
Qed.

Lemma source_shape : seek_shape_ok = true /\ next_shape_ok = true.
Proof. split; vm_compute; reflexivity. Qed.

(* ---- bool <-> Prop ---- *)
Lemma sample_eqb_spec x y : sample_eqb x y = true <-> x = y.
Proof.
  unfold sample_eqb. destruct x as [a b], y as [c d]; simpl. rewrite andb_true_iff, !Z.eqb_eq.
  split; [intros [-> ->]; reflexivity|intro H; inversion H; auto].
Qed.

Lemma samples_eqb_spec l1 l2 : samples_eqb l1 l2 = true <-> l1 = l2.
Proof. apply list_eqb_spec. exact sample_eqb_spec. Qed.

Lemma obs_eqb_spec x y : obs_eqb x y = true <-> x = y.
Proof.
  unfold obs_eqb, option_eqb. destruct x, y; try (split; [discriminate|discriminate]); try tauto.
  rewrite sample_eqb_spec. split; [intros ->; reflexivity|intro H; inversion H; reflexivity].
Qed.

Lemma strict_from_Sorted : forall l lo,
  strict_incr_from lo l = true ->
  Sorted Z.lt (map ts l) /\ match lo with Some t => HdRel Z.lt t (map ts l) | None => True end.
Proof.
  induction l as [|s r IH]; intros lo H; simpl.
  - split; [constructor|destruct lo; [constructor|exact I]].
  - simpl in H. apply andb_true_iff in H as [H1 H2].
    destruct (IH _ H2) as [Hs Hh]. split.
    + constructor; assumption.
    + destruct lo; [|exact I]. constructor. apply Z.ltb_lt. exact H1.
Qed.

Lemma strict_Sorted l : strict_incr l = true -> Sorted Z.lt (map ts l).
Proof. intro H. exact (proj1 (strict_from_Sorted l None H)). Qed.

Lemma all_from_intro out reps :
  (forall s, In s out -> exists l, In l reps /\ In s l) -> all_from out reps = true.
Proof.
  intro H. unfold all_from. apply forallb_forall. intros s Hs.
  destruct (H s Hs) as (l & Hl & Hsl). apply existsb_exists. exists l. split; [exact Hl|].
  unfold mem_sample. apply existsb_exists. exists s. split; [exact Hsl|]. apply sample_eqb_spec. reflexivity.
Qed.

Lemma identical_repeat f r : identical f r = true -> r = repeat f (length r).
Proof.
  unfold identical. induction r as [|x r IH]; simpl; intro H; [reflexivity|].
  apply andb_true_iff in H as [H1 H2]. apply samples_eqb_spec in H1. subst x. f_equal. apply IH. exact H2.
Qed.

(* ---- the model iterates to the specification-level merge ---- *)
Lemma drain_pmerge f r : drain (dedup_iter f r) = Some (pmerge_all cfg f r).
Proof. apply tower_drain. Qed.

Lemma strictly_increasing f r :
  r <> [] \/ strict_incr f = true ->
  exists out, drain (dedup_iter f r) = Some out /\ Sorted Z.lt (map ts out).
Proof.
  intro H. exists (pmerge_all cfg f r). split; [apply drain_pmerge|].
  apply strict_Sorted. apply pmerge_all_strict; [exact cfg_is_ok|exact H].
Qed.

Lemma provenance f r out :
  drain (dedup_iter f r) = Some out -> forall s, In s out -> exists l, In l (f :: r) /\ In s l.
Proof.
  rewrite drain_pmerge. intro H; inversion H; subst. intros s Hs. eapply pmerge_all_In; exact Hs.
Qed.

Lemma single_identity f : drain (dedup_iter f []) = Some f.
Proof. rewrite drain_pmerge. reflexivity. Qed.

Lemma identical_identity f n :
  strict_incr f = true -> drain (dedup_iter f (repeat f n)) = Some f.
Proof. intro H. rewrite drain_pmerge. f_equal. apply pmerge_all_same; [exact cfg_is_ok|exact H]. Qed.

Lemma reader_is_list_reader f r ops out :
  drain (dedup_iter f r) = Some out -> proto_ok false None out ops = true ->
  run_prog (dedup_iter f r) ops = spec_run None out ops.
Proof.
  rewrite drain_pmerge. intro H; inversion H; subst. apply tower_reader.
Qed.

Lemma proto_nexts : forall n st cur fut, proto_ok st cur fut (repeat ONext n) = true.
Proof.
  induction n as [|n IH]; intros st cur fut; [reflexivity|].
  simpl. destruct fut; apply IH.
Qed.

Lemma spec_nexts : forall n cur fut, spec_run cur fut (repeat ONext n) = take_obs n fut.
Proof.
  induction n as [|n IH]; intros cur fut; [reflexivity|].
  simpl. destruct fut; rewrite IH; reflexivity.
Qed.

Lemma next_reader f r n out :
  drain (dedup_iter f r) = Some out -> run_prog (dedup_iter f r) (repeat ONext n) = take_obs n out.
Proof.
  intro H. rewrite (reader_is_list_reader _ _ _ _ H); [apply spec_nexts|apply proto_nexts].
Qed.

Lemma seek_suffix f r t n out :
  drain (dedup_iter f r) = Some out ->
  run_prog (dedup_iter f r) (OSeek t :: repeat ONext n) = take_obs (S n) (drop_lt t out)
  /\ (strict_incr out = true -> drop_lt t out = filter (fun s => t <=? ts s) out).
Proof.
  intro H. split.
  - rewrite (reader_is_list_reader _ _ _ _ H).
    + cbn [spec_run lstream take_obs]. destruct (drop_lt t out); rewrite spec_nexts; reflexivity.
    + cbn [proto_ok lstream negb orb andb]. destruct (drop_lt t out); apply proto_nexts.
  - intro Hs. eapply drop_lt_filter. exact Hs.
Qed.

(* ---- the predicate that the check evaluates holds of the model's output ---- *)
Lemma list_eqb_refl {A} (eqb : A -> A -> bool) (H : forall x y, eqb x y = true <-> x = y) l : list_eqb eqb l l = true.
Proof. apply (list_eqb_spec eqb H). reflexivity. Qed.

Lemma model_pred f r ops :
  exists full reader,
    drain (dedup_iter f r) = Some full /\ run_prog (dedup_iter f r) ops = reader /\
    corr_ok (Case (f :: r) ops full reader) = true /\
    pred_ok (Case (f :: r) ops full reader) = true.
Proof.
  exists (pmerge_all cfg f r), (run_prog (dedup_iter f r) ops).
  pose proof (drain_pmerge f r) as Hd.
  split; [exact Hd|]. split; [reflexivity|]. split.
  - cbn [corr_ok]. rewrite Hd. cbn [option_eqb].
    rewrite (proj2 (samples_eqb_spec _ _) eq_refl). apply (list_eqb_refl obs_eqb obs_eqb_spec).
  - cbn [pred_ok]. destruct (forallb strict_incr (f :: r)) eqn:Ewf; [|reflexivity].
    cbn [forallb] in Ewf. apply andb_true_iff in Ewf as [Hf Hr].
    repeat (apply andb_true_iff; split).
    + apply pmerge_all_strict; [exact cfg_is_ok|right; exact Hf].
    + apply all_from_intro. intros s Hs. eapply pmerge_all_In; exact Hs.
    + destruct (identical f r) eqn:Eid; [|reflexivity].
      rewrite (identical_repeat _ _ Eid). rewrite pmerge_all_same by (exact cfg_is_ok || exact Hf).
      apply samples_eqb_spec. reflexivity.
    + destruct (proto_ok false None (pmerge_all cfg f r) ops) eqn:Ep; [|reflexivity].
      rewrite (reader_is_list_reader _ _ _ _ Hd Ep). apply (list_eqb_refl obs_eqb obs_eqb_spec).
Qed.
