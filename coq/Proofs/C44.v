(* C44 — proofs about Model/C44.v. *)
From Coq Require Import ZArith NArith List Bool Lia.
Import ListNotations.
From Verif Require Import Lib.Corr Gen.C44 Model.C44.

(* ---- strings and sets ---- *)
Lemma N_eqb_spec' x y : N.eqb x y = true <-> x = y.
Proof. apply N.eqb_eq. Qed.

Lemma str_eqb_eq a b : str_eqb a b = true <-> a = b.
Proof. apply (list_eqb_spec N.eqb N_eqb_spec'). Qed.

Lemma mem_in x l : mem x l = true <-> In x l.
Proof.
  unfold mem. rewrite existsb_exists. split.
  - intros (y & Hy & E). apply str_eqb_eq in E. subst. exact Hy.
  - intro H. exists x. split; [exact H | apply str_eqb_eq; reflexivity].
Qed.

Lemma mem_false x l : mem x l = false <-> ~ In x l.
Proof.
  rewrite <- mem_in. destruct (mem x l); split; intro H.
  - discriminate.
  - exfalso. apply H. reflexivity.
  - intro K. discriminate.
  - reflexivity.
Qed.

Lemma subset_spec a b : subset a b = true <-> (forall x, In x a -> In x b).
Proof. unfold subset. rewrite forallb_forall. split; intros H x Hx; [apply mem_in | apply mem_in]; auto. Qed.

Lemma disjoint_spec a b : disjoint a b = true <-> (forall x, In x a -> ~ In x b).
Proof.
  unfold disjoint. rewrite forallb_forall. split; intros H x Hx.
  - apply mem_false. apply negb_true_iff. auto.
  - apply negb_true_iff. apply mem_false. auto.
Qed.

Lemma inter_in x a b : In x (inter a b) <-> In x a /\ In x b.
Proof. unfold inter. rewrite filter_In, mem_in. tauto. Qed.

Lemma minus_in x a b : In x (minus a b) <-> In x a /\ ~ In x b.
Proof. unfold minus. rewrite filter_In, negb_true_iff, mem_false. tauto. Qed.

Lemma union_in x a b : In x (union a b) <-> In x a \/ In x b.
Proof.
  unfold union. rewrite in_app_iff, minus_in. split; [tauto|].
  intros [H|H]; [auto|]. destruct (mem x a) eqn:E; [left; apply mem_in; auto | right; split; [auto | apply mem_false; auto]].
Qed.

(* ---- the shard matcher ---- *)

Lemma shard_buf_filter by_ set ls :
  shard_buf by_ set ls =
  flat_map (fun l => fst l ++ sep :: snd l ++ [sep]) (filter (fun l => selected by_ set (fst l)) ls).
Proof.
  unfold shard_buf. induction ls as [|l ls IH]; [reflexivity|].
  change (flat_map ?f (l :: ls)) with (f l ++ flat_map f ls). cbn beta. rewrite IH.
  cbn [filter]. destruct l as [a b]. cbn [fst snd]. destruct (selected by_ set a); reflexivity.
Qed.

(* series that agree on the sharding labels (same selected label pairs) are in the same shard — any hash *)
Theorem same_projection_same_shard (H : str -> N) by_ set n ls1 ls2 :
  filter (fun l => selected by_ set (fst l)) ls1 = filter (fun l => selected by_ set (fst l)) ls2 ->
  shard_of H by_ set n ls1 = shard_of H by_ set n ls2.
Proof. intro E. unfold shard_of. rewrite !shard_buf_filter, E. reflexivity. Qed.

(* every series is matched by exactly one shard index below n — any hash *)
Theorem exactly_one_shard (H : str -> N) by_ set n ls : (0 < n)%N ->
  let i := shard_of H by_ set n ls in
  (i < n)%N /\ matches H by_ set n i ls = true /\ (forall j, matches H by_ set n j ls = true -> j = i).
Proof.
  intro Hn. cbv zeta. split; [|split].
  - unfold shard_of. apply N.mod_lt. lia.
  - unfold matches. apply N.eqb_refl.
  - intros j Hj. unfold matches in Hj. apply N.eqb_eq in Hj. auto.
Qed.

Lemma count_eq_seq (k : N) : forall m a,
  count_true (map (fun i => N.eqb k (N.of_nat i)) (seq a m)) =
  if (N.of_nat a <=? k)%N && (k <? N.of_nat (a + m))%N then 1%nat else 0%nat.
Proof.
  induction m as [|m IH]; intros a.
  - cbn. destruct (N.of_nat a <=? k)%N eqn:E1; cbn; [|reflexivity].
    destruct (k <? N.of_nat (a + 0))%N eqn:E2; [|reflexivity]. exfalso.
    apply N.leb_le in E1. apply N.ltb_lt in E2. lia.
  - cbn [seq map]. unfold count_true in *. cbn [filter].
    destruct (N.eqb k (N.of_nat a)) eqn:E.
    + apply N.eqb_eq in E. cbn [length]. rewrite IH.
      assert (X : (N.of_nat (S a) <=? k)%N = false) by (apply N.leb_gt; lia). rewrite X. cbn [andb].
      assert (Y : (N.of_nat a <=? k)%N = true) by (apply N.leb_le; lia).
      assert (Z : (k <? N.of_nat (a + S m))%N = true) by (apply N.ltb_lt; lia). rewrite Y, Z. reflexivity.
    + apply N.eqb_neq in E. rewrite IH. replace (S a + m)%nat with (a + S m)%nat by lia.
      destruct (k <? N.of_nat (a + S m))%N eqn:Z; [|rewrite !andb_false_r; reflexivity]. rewrite !andb_true_r.
      destruct (N.of_nat (S a) <=? k)%N eqn:X, (N.of_nat a <=? k)%N eqn:Y; try reflexivity;
        [apply N.leb_le in X; apply N.leb_gt in Y; lia | apply N.leb_gt in X; apply N.leb_le in Y; lia].
Qed.

Lemma bool_list_eqb_refl l : list_eqb Bool.eqb l l = true.
Proof. induction l as [|b l IH]; [reflexivity|]. cbn. rewrite IH. destruct b; reflexivity. Qed.

Theorem shard_pred (H : str -> N) by_ set n ls tbl : (0 < n)%N ->
  let m := map (fun i => matches H by_ set n (N.of_nat i) ls) (seq 0 (N.to_nat n)) in
  pred_ok (CShard by_ set n ls tbl m m) = true.
Proof.
  intro Hn. cbn zeta. cbn [pred_ok]. rewrite bool_list_eqb_refl, andb_true_r. unfold matches. rewrite count_eq_seq.
  assert (A : (N.of_nat 0 <=? shard_of H by_ set n ls)%N = true) by (apply N.leb_le; lia).
  assert (B : (shard_of H by_ set n ls <? N.of_nat (0 + N.to_nat n))%N = true).
  { apply N.ltb_lt. cbn [plus]. rewrite N2Nat.id. unfold shard_of. apply N.mod_lt. lia. }
  rewrite A, B. reflexivity.
Qed.

(* ---- the analyzer: the result is compatible with every scope seen ---- *)

Lemma compatible_app ss1 ss2 by_ ls : compatible (ss1 ++ ss2) by_ ls = compatible ss1 by_ ls && compatible ss2 by_ ls.
Proof. unfold compatible. destruct by_; apply forallb_app. Qed.

Lemma compatible_by_anti ss S S' : (forall x, In x S' -> In x S) -> compatible ss true S = true -> compatible ss true S' = true.
Proof.
  intros Hsub. unfold compatible. rewrite !forallb_forall. intros H s Hs. specialize (H s Hs).
  destruct (snd s).
  - apply subset_spec. intros x Hx. rewrite subset_spec in H. auto.
  - apply disjoint_spec. intros x Hx. rewrite disjoint_spec in H. auto.
Qed.

Lemma compatible_without_mono ss S S' : (forall x, In x S -> In x S') -> compatible ss false S = true -> compatible ss false S' = true.
Proof.
  intros Hsub. unfold compatible. rewrite !forallb_forall. intros H s Hs. specialize (H s Hs).
  apply andb_true_iff in H as [H1 H2]. apply andb_true_iff. split; [exact H1|].
  apply subset_spec. intros x Hx. rewrite subset_spec in H2. auto.
Qed.

Lemma scope_step seen by_ S L b : compatible seen by_ S = true ->
  exists by' S', scope (St by_ S) (L, b) = St by' S' /\ compatible (seen ++ [(L, b)]) by' S' = true.
Proof.
  intro C. destruct by_, b; cbn [scope].
  - exists true, (inter S L). split; [reflexivity|]. rewrite compatible_app. apply andb_true_iff. split.
    + eapply compatible_by_anti; [|exact C]. intros x Hx. apply inter_in in Hx. tauto.
    + cbn. rewrite andb_true_r. apply subset_spec. intros x Hx. apply inter_in in Hx. tauto.
  - exists true, (minus S L). split; [reflexivity|]. rewrite compatible_app. apply andb_true_iff. split.
    + eapply compatible_by_anti; [|exact C]. intros x Hx. apply minus_in in Hx. tauto.
    + cbn. rewrite andb_true_r. apply disjoint_spec. intros x Hx. apply minus_in in Hx. tauto.
  - exists true, (minus L S). split; [reflexivity|]. rewrite compatible_app. apply andb_true_iff. split.
    + (* everything seen so far was a without-scope inside S, so disjoint from L \ S *)
      unfold compatible in *. rewrite forallb_forall in *. intros s Hs. specialize (C s Hs).
      apply andb_true_iff in C as [C1 C2]. apply negb_true_iff in C1. rewrite C1.
      apply disjoint_spec. intros x Hx. apply minus_in in Hx. rewrite subset_spec in C2. intro K. apply Hx. auto.
    + cbn. rewrite andb_true_r. apply subset_spec. intros x Hx. apply minus_in in Hx. tauto.
  - exists false, (union S L). split; [reflexivity|]. rewrite compatible_app. apply andb_true_iff. split.
    + eapply compatible_without_mono; [|exact C]. intros x Hx. apply union_in. auto.
    + cbn. rewrite andb_true_r. apply subset_spec. intros x Hx. apply union_in. auto.
Qed.

Lemma fold_scope_compatible : forall ss seen by_ S,
  compatible seen by_ S = true ->
  exists by' S', fold_left scope ss (St by_ S) = St by' S' /\ compatible (seen ++ ss) by' S' = true.
Proof.
  induction ss as [|[L b] ss IH]; intros seen by_ S C.
  - exists by_, S. rewrite app_nil_r. auto.
  - cbn [fold_left]. destruct (scope_step seen by_ S L b C) as (by1 & S1 & E & C1). rewrite E.
    destruct (IH _ _ _ C1) as (by2 & S2 & E2 & C2). exists by2, S2. rewrite <- app_assoc in C2. auto.
Qed.

Lemma compatible_first L b : compatible [(L, b)] b L = true.
Proof.
  unfold compatible. destruct b; cbn; rewrite andb_true_r; apply subset_spec; auto.
Qed.

Theorem analyze_compatible e by_ S : analyze e = St by_ S -> compatible (all_scopes e) by_ S = true.
Proof.
  unfold analyze. destruct (unshardable e); [discriminate|].
  destruct (all_scopes e) as [|[L b] ss]; [cbn; discriminate|]. cbn [fold_left scope].
  intro E. destruct (fold_scope_compatible ss [(L, b)] b L (compatible_first L b)) as (by' & S' & E' & C).
  rewrite E' in E. inversion E; subst. exact C.
Qed.

Theorem analyze_pred e : forall by_ S, analyze e = St by_ S ->
  pred_ok (CAnalyze e (shardable (analyze e)) by_ S) = true.
Proof.
  intros by_ S E. cbn [pred_ok]. destruct (shardable (analyze e)); [|reflexivity].
  apply analyze_compatible. exact E.
Qed.

(* reading [compatible]: what it says about one scope *)
Theorem compatible_in ss by_ S L b : compatible ss by_ S = true -> In (L, b) ss ->
  if by_ then (if b then forall x, In x S -> In x L else forall x, In x S -> ~ In x L)
  else b = false /\ forall x, In x L -> In x S.
Proof.
  unfold compatible. intros C Hin. destruct by_; rewrite forallb_forall in C; specialize (C _ Hin); cbn [fst snd] in C.
  - destruct b; [apply subset_spec | apply disjoint_spec]; exact C.
  - apply andb_true_iff in C as [C1 C2]. apply negb_true_iff in C1. split; [exact C1 | apply subset_spec; exact C2].
Qed.
