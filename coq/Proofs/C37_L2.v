(* C37 — proofs, second level (structural part): the counter chunk written by
   downsampleFloatAggrBatch for a part of first-level chunks has the documented format and
   retains the part's first and last RAW values; reading the second-level chunks
   therefore stitches them like first-level chunks. *)
From Coq Require Import ZArith List Bool Lia Sorted.
Import ListNotations.
From Verif Require Import Lib.Corr Lib.Downsample_Core Lib.Downsample_Batch Lib.Downsample_Raw
  Lib.Downsample_Windows Lib.Downsample_Aggr Lib.Downsample_Iter Lib.Downsample_Counter Gen.C37 Model.C37
  Proofs.C37.
Open Scope Z_scope.

(* ---- the iterator's final lastV (it.lastV after exhaustion) ---- *)

Definition FIN (toks : list tok) (st : acr) : option Z :=
  match acr_run (S (length toks)) toks st with
  | Some (_, fin) => Some (c_lastV fin)
  | None => None
  end.

Lemma FIN_eq toks st :
  FIN toks st =
  match NEXT toks st with
  | None => None
  | Some (false, _, st') => Some (c_lastV st')
  | Some (true, toks', st') => FIN toks' st'
  end.
Proof.
  unfold FIN. rewrite acr_run_eq by lia.
  destruct (NEXT toks st) as [[[b t1] s1]|]; [|reflexivity]. destruct b; [|reflexivity].
  destruct (acr_run (S (length t1)) t1 s1) as [[out fin]|]; reflexivity.
Qed.

Lemma FIN_step t v r st :
  FIN (TS t v :: r) st =
  if c_total st =? 0 then FIN r (mkI 1 t v v true)
  else if t >? c_lastT st then
    FIN r (mkI (c_total st + 1) t v (c_totalV st + step (c_lastV st) v) true)
  else if t =? c_lastT st then FIN r (mkI (c_total st) (c_lastT st) v (c_totalV st) true)
  else FIN r (mkI (c_total st) (c_lastT st) (c_lastV st) (c_totalV st) true).
Proof.
  rewrite FIN_eq, NEXT_sample. unfold step.
  destruct (c_total st =? 0); [reflexivity|]. destruct (t >? c_lastT st); [reflexivity|].
  destruct (t =? c_lastT st); rewrite <- FIN_eq; reflexivity.
Qed.

Lemma FIN_end_nil st : FIN [TEnd] st = Some (c_lastV st).
Proof.
  rewrite FIN_eq, NEXT_end, SEEK_eq. cbn [c_lastT].
  replace (c_lastT st >=? c_lastT st + 1) with false by (symmetry; rewrite Z.geb_leb; apply Z.leb_gt; lia).
  rewrite NEXT_nil. reflexivity.
Qed.

Lemma FIN_end_next n T Lv Tot l t0 v0 r :
  0 < n -> T < t0 ->
  FIN (TEnd :: TS t0 v0 :: r) (mkI n T Lv Tot l) = FIN r (mkI (n + 1) t0 v0 (Tot + step Lv v0) true).
Proof.
  intros Hn Ht. rewrite FIN_eq, NEXT_end, SEEK_eq. cbn [c_lastT c_total c_lastV c_totalV].
  replace (T >=? T + 1) with false by (symmetry; rewrite Z.geb_leb; apply Z.leb_gt; lia).
  rewrite NEXT_sample. cbn [c_lastT c_total c_lastV c_totalV].
  replace (n =? 0) with false by (symmetry; apply Z.eqb_neq; lia).
  replace (t0 >? T) with true by (symmetry; apply Z.gtb_lt; lia).
  rewrite SEEK_eq. cbn [c_lastT c_lvt].
  replace (t0 >=? T + 1) with true by (symmetry; apply Z.geb_le; lia).
  unfold step. reflexivity.
Qed.

Lemma FIN_mids : forall mids n T Lv Tot l rest,
  0 < n -> mids_ok T Lv mids ->
  exists n' l' T' Lv' Tot', 0 < n' /\ T' = last (map fst mids) T /\
    FIN (map tokS mids ++ rest) (mkI n T Lv Tot l) = FIN rest (mkI n' T' Lv' Tot' l').
Proof.
  induction mids as [|[w c] mids IH]; intros n T Lv Tot l rest Hn (Hs & Hv & Hhd).
  - exists n, l, T, Lv, Tot. repeat split; assumption.
  - cbn [fst snd] in Hhd. destruct Hhd as [HT Heq].
    cbn [map] in Hs, Hv. apply StronglySorted_inv in Hs as [Hs Hw].
    apply StronglySorted_inv in Hv as [Hv HLv]. apply Forall_cons_iff in HLv as [HLc HLv].
    apply StronglySorted_inv in Hv as [Hv Hc]. cbn [fst snd] in *.
    cbn [map app]. unfold tokS at 1. cbn [fst snd]. rewrite FIN_step. cbn [c_total c_lastT c_lastV c_totalV].
    replace (n =? 0) with false by (symmetry; apply Z.eqb_neq; lia).
    assert (Hnext : mids_ok w c mids).
    { split; [exact Hs|]. split; [constructor; assumption|].
      destruct mids as [|[w2 c2] mids']; [exact I|]. cbn [fst snd map] in *.
      apply Forall_cons_iff in Hw as [Hw _]. split; [lia|intros; lia]. }
    assert (Hlast_f : last (w :: map fst mids) T = last (map fst mids) w) by apply last_cons.
    rewrite Hlast_f.
    destruct (w >? T) eqn:E.
    + destruct (IH (n + 1) w c (Tot + step Lv c) true rest ltac:(lia) Hnext) as (n' & l' & T' & Lv' & Tot' & Hn' & HT' & R).
      exists n', l', T', Lv', Tot'. repeat split; assumption.
    + rewrite Z.gtb_ltb in E. apply Z.ltb_ge in E. assert (w = T) by lia. subst w.
      rewrite Z.eqb_refl.
      destruct (IH n T c Tot true rest Hn Hnext) as (n' & l' & T' & Lv' & Tot' & Hn' & HT' & R).
      exists n', l', T', Lv', Tot'. repeat split; assumption.
Qed.

Lemma fin_chain : forall qs n T Lv Tot l,
  0 < n -> q_chain (Some T) qs ->
  FIN (TEnd :: toks_of (map q_samples qs)) (mkI n T Lv Tot l) = Some (last (map q_vl qs) Lv).
Proof.
  induction qs as [|q r IH]; intros n T Lv Tot l Hn Hc.
  - apply FIN_end_nil.
  - cbn [q_chain] in Hc. destruct Hc as (Hok & HT & Hc).
    cbn [map]. rewrite toks_of_q. rewrite FIN_end_next by assumption.
    destruct (FIN_mids (q_mids q) (n + 1) (q_t0 q) (q_v0 q) (Tot + step Lv (q_v0 q)) true
                (TS (q_end q) (q_vl q) :: TEnd :: toks_of (map q_samples r)) ltac:(lia) Hok)
      as (n' & l' & T' & Lv' & Tot' & Hn' & HT' & R).
    rewrite R. fold (q_end q) in HT'. subst T'.
    rewrite FIN_step. cbn [c_total c_lastT c_lastV c_totalV].
    replace (n' =? 0) with false by (symmetry; apply Z.eqb_neq; lia).
    replace (q_end q >? q_end q) with false by (symmetry; rewrite Z.gtb_ltb; apply Z.ltb_irrefl).
    rewrite Z.eqb_refl. rewrite (IH n' (q_end q) (q_vl q) Tot' true Hn' Hc).
    rewrite last_cons. reflexivity.
Qed.

(* it.lastV after reading a non-empty time-ordered chunk sequence: the last chunk's last raw value *)
Lemma fin_chunks q r :
  q_chain None (q :: r) ->
  FIN (toks_of (map q_samples (q :: r))) acr0 = Some (last (map q_vl (q :: r)) 0).
Proof.
  intros Hc. cbn [q_chain] in Hc. destruct Hc as (Hok & _ & Hc).
  cbn [map]. rewrite toks_of_q. rewrite FIN_step. cbn [acr0 c_total]. cbn [Z.eqb].
  destruct (FIN_mids (q_mids q) 1 (q_t0 q) (q_v0 q) (q_v0 q) true
              (TS (q_end q) (q_vl q) :: TEnd :: toks_of (map q_samples r)) ltac:(lia) Hok)
    as (n' & l' & T' & Lv' & Tot' & Hn' & HT' & R).
  rewrite R. fold (q_end q) in HT'. subst T'.
  rewrite FIN_step. cbn [c_total c_lastT c_lastV c_totalV].
  replace (n' =? 0) with false by (symmetry; apply Z.eqb_neq; lia).
  replace (q_end q >? q_end q) with false by (symmetry; rewrite Z.gtb_ltb; apply Z.ltb_irrefl).
  rewrite Z.eqb_refl. rewrite (fin_chain r n' (q_end q) (q_vl q) Tot' true Hn' Hc).
  rewrite last_cons. apply f_equal. apply last_default. destruct r; cbn; discriminate || idtac.
Abort.
