(* C37 — proofs, second level (structural part): the counter chunk written by
   downsampleFloatAggrBatch for a part of first-level chunks has the documented format and
   retains the part's first and last RAW values; reading the second-level chunks
   therefore stitches them like first-level chunks. *)
From Coq Require Import ZArith List Bool Lia Sorted.
Import ListNotations.
From Verif Require Import Lib.Corr Lib.Downsample_Core Lib.Downsample_Batch Lib.Downsample_Raw
  Lib.Downsample_Windows Lib.Downsample_Aggr Lib.Downsample_Iter Lib.Downsample_Counter Gen.C37 Model.C37
  Proofs.C37.
Open Scope Z_scope.

(* ---- the iterator's final lastV (it.lastV after exhaustion) ---- *)

Definition FIN (toks : list tok) (st : acr) : option Z :=
  match acr_run (S (length toks)) toks st with
  | Some (_, fin) => Some (c_lastV fin)
  | None => None
  end.

Lemma FIN_eq toks st :
  FIN toks st =
  match NEXT toks st with
  | None => None
  | Some (false, _, st') => Some (c_lastV st')
  | Some (true, toks', st') => FIN toks' st'
  end.
Proof.
  unfold FIN. rewrite acr_run_eq by lia.
  destruct (NEXT toks st) as [[[b t1] s1]|]; [|reflexivity]. destruct b; [|reflexivity].
  destruct (acr_run (S (length t1)) t1 s1) as [[out fin]|]; reflexivity.
Qed.

Lemma FIN_step t v r st :
  FIN (TS t v :: r) st =
  if c_total st =? 0 then FIN r (mkI 1 t v v true)
  else if t >? c_lastT st then
    FIN r (mkI (c_total st + 1) t v (c_totalV st + step (c_lastV st) v) true)
  else if t =? c_lastT st then FIN r (mkI (c_total st) (c_lastT st) v (c_totalV st) true)
  else FIN r (mkI (c_total st) (c_lastT st) (c_lastV st) (c_totalV st) true).
Proof.
  rewrite FIN_eq, NEXT_sample. unfold step.
  destruct (c_total st =? 0); [reflexivity|]. destruct (t >? c_lastT st); [reflexivity|].
  destruct (t =? c_lastT st); rewrite <- FIN_eq; reflexivity.
Qed.

Lemma FIN_end_nil st : FIN [TEnd] st = Some (c_lastV st).
Proof.
  rewrite FIN_eq, NEXT_end, SEEK_eq. cbn [c_lastT].
  replace (c_lastT st >=? c_lastT st + 1) with false by (symmetry; rewrite Z.geb_leb; apply Z.leb_gt; lia).
  rewrite NEXT_nil. reflexivity.
Qed.

Lemma FIN_end_next n T Lv Tot l t0 v0 r :
  0 < n -> T < t0 ->
  FIN (TEnd :: TS t0 v0 :: r) (mkI n T Lv Tot l) = FIN r (mkI (n + 1) t0 v0 (Tot + step Lv v0) true).
Proof.
  intros Hn Ht. rewrite FIN_eq, NEXT_end, SEEK_eq. cbn [c_lastT c_total c_lastV c_totalV].
  replace (T >=? T + 1) with false by (symmetry; rewrite Z.geb_leb; apply Z.leb_gt; lia).
  rewrite NEXT_sample. cbn [c_lastT c_total c_lastV c_totalV].
  replace (n =? 0) with false by (symmetry; apply Z.eqb_neq; lia).
  replace (t0 >? T) with true by (symmetry; apply Z.gtb_lt; lia).
  rewrite SEEK_eq. cbn [c_lastT c_lvt].
  replace (t0 >=? T + 1) with true by (symmetry; apply Z.geb_le; lia).
  unfold step. reflexivity.
Qed.

Lemma FIN_mids : forall mids n T Lv Tot l rest,
  0 < n -> mids_ok T Lv mids ->
  exists n' l' T' Lv' Tot', 0 < n' /\ T' = last (map fst mids) T /\
    FIN (map tokS mids ++ rest) (mkI n T Lv Tot l) = FIN rest (mkI n' T' Lv' Tot' l').
Proof.
  induction mids as [|[w c] mids IH]; intros n T Lv Tot l rest Hn (Hs & Hv & Hhd).
  - exists n, l, T, Lv, Tot. repeat split; assumption.
  - cbn [fst snd] in Hhd. destruct Hhd as [HT Heq].
    cbn [map] in Hs, Hv. apply StronglySorted_inv in Hs as [Hs Hw].
    apply StronglySorted_inv in Hv as [Hv HLv]. apply Forall_cons_iff in HLv as [HLc HLv].
    apply StronglySorted_inv in Hv as [Hv Hc]. cbn [fst snd] in *.
    cbn [map app]. unfold tokS at 1. cbn [fst snd]. rewrite FIN_step. cbn [c_total c_lastT c_lastV c_totalV].
    replace (n =? 0) with false by (symmetry; apply Z.eqb_neq; lia).
    assert (Hnext : mids_ok w c mids).
    { split; [exact Hs|]. split; [constructor; assumption|].
      destruct mids as [|[w2 c2] mids']; [exact I|]. cbn [fst snd map] in *.
      apply Forall_cons_iff in Hw as [Hw _]. split; [lia|intros; lia]. }
    assert (Hlast_f : last (w :: map fst mids) T = last (map fst mids) w) by apply last_cons.
    rewrite Hlast_f.
    destruct (w >? T) eqn:E.
    + destruct (IH (n + 1) w c (Tot + step Lv c) true rest ltac:(lia) Hnext) as (n' & l' & T' & Lv' & Tot' & Hn' & HT' & R).
      exists n', l', T', Lv', Tot'. repeat split; assumption.
    + rewrite Z.gtb_ltb in E. apply Z.ltb_ge in E. assert (w = T) by lia. subst w.
      rewrite Z.eqb_refl.
      destruct (IH n T c Tot true rest Hn Hnext) as (n' & l' & T' & Lv' & Tot' & Hn' & HT' & R).
      exists n', l', T', Lv', Tot'. repeat split; assumption.
Qed.

Lemma fin_chain : forall qs n T Lv Tot l,
  0 < n -> q_chain (Some T) qs ->
  FIN (TEnd :: toks_of (map q_samples qs)) (mkI n T Lv Tot l) = Some (last (map q_vl qs) Lv).
Proof.
  induction qs as [|q r IH]; intros n T Lv Tot l Hn Hc.
  - apply FIN_end_nil.
  - cbn [q_chain] in Hc. destruct Hc as (Hok & HT & Hc).
    cbn [map]. rewrite toks_of_q. rewrite FIN_end_next by assumption.
    destruct (FIN_mids (q_mids q) (n + 1) (q_t0 q) (q_v0 q) (Tot + step Lv (q_v0 q)) true
                (TS (q_end q) (q_vl q) :: TEnd :: toks_of (map q_samples r)) ltac:(lia) Hok)
      as (n' & l' & T' & Lv' & Tot' & Hn' & HT' & R).
    rewrite R. fold (q_end q) in HT'. subst T'.
    rewrite FIN_step. cbn [c_total c_lastT c_lastV c_totalV].
    replace (n' =? 0) with false by (symmetry; apply Z.eqb_neq; lia).
    replace (q_end q >? q_end q) with false by (symmetry; rewrite Z.gtb_ltb; apply Z.ltb_irrefl).
    rewrite Z.eqb_refl. rewrite (IH n' (q_end q) (q_vl q) Tot' true Hn' Hc).
    rewrite last_cons. reflexivity.
Qed.

(* it.lastV after reading a non-empty time-ordered chunk sequence: the last chunk's last raw value *)
Lemma fin_chunks q r :
  q_chain None (q :: r) ->
  FIN (toks_of (map q_samples (q :: r))) acr0 = Some (last (map q_vl r) (q_vl q)).
Proof.
  intros Hc. cbn [q_chain] in Hc. destruct Hc as (Hok & _ & Hc).
  cbn [map]. rewrite toks_of_q. rewrite FIN_step. cbn [acr0 c_total]. cbn [Z.eqb].
  destruct (FIN_mids (q_mids q) 1 (q_t0 q) (q_v0 q) (q_v0 q) true
              (TS (q_end q) (q_vl q) :: TEnd :: toks_of (map q_samples r)) ltac:(lia) Hok)
    as (n' & l' & T' & Lv' & Tot' & Hn' & HT' & R).
  rewrite R. fold (q_end q) in HT'. subst T'.
  rewrite FIN_step. cbn [c_total c_lastT c_lastV c_totalV].
  replace (n' =? 0) with false by (symmetry; apply Z.eqb_neq; lia).
  replace (q_end q >? q_end q) with false by (symmetry; rewrite Z.gtb_ltb; apply Z.ltb_irrefl).
  rewrite Z.eqb_refl. apply (fin_chain r n' (q_end q) (q_vl q) Tot' true Hn' Hc).
Qed.

(* ---- helper facts ---- *)

Lemma expand_xor_id : forall (l : list (Z * Z)) lastT,
  Forall (fun s => lastT <= fst s) l -> StronglySorted Z.le (map fst l) -> expand_xor lastT l = l.
Proof.
  induction l as [|[t v] r IH]; intros lastT Hl Hs; [reflexivity|].
  apply Forall_cons_iff in Hl as [Ht Hl]. cbn [fst] in Ht. cbn [map] in Hs.
  apply StronglySorted_inv in Hs as [Hs Hle]. cbn [expand_xor].
  replace (t >=? lastT) with true by (symmetry; apply Z.geb_le; lia).
  f_equal. apply IH; [|exact Hs]. rewrite Forall_map in Hle. exact Hle.
Qed.

Lemma adj_nonneg vs : Forall (fun v => 0 <= v) vs -> 0 <= adj vs.
Proof.
  destruct vs as [|v r]; intros H; [cbn; lia|]. apply Forall_cons_iff in H as [Hv H].
  cbn [adj]. rewrite adj_from_total. pose proof (adj_from_nonneg r v H). lia.
Qed.

Lemma adj_at_nonneg d t : Forall (fun s : Z * Z => 0 <= snd s) d -> 0 <= adj_at d t.
Proof.
  intros H. unfold adj_at. apply adj_nonneg. rewrite Forall_map.
  rewrite Forall_forall in *. intros s Hs. apply filter_In in Hs as [Hs _]. apply H. exact Hs.
Qed.

Section Part.
Variables res1 res2 : Z.
Hypothesis res1_pos : 0 < res1.
Hypothesis res2_pos : 0 < res2.

(* what the inner iterator of downsampleFloatAggrBatch emits for a part of first-level batches *)
Definition emitted_of (Bp : list (list (Z * Z))) : list (Z * Z) := expect None (map (q_of res1) Bp).

Lemma part_read Bp :
  Bp <> [] -> Forall counter_batch Bp -> seps cw res1 Bp ->
  exists fin,
    acr_run (S (length (toks_of (present k_counter (map (float_batch cw res1) Bp)))))
            (toks_of (present k_counter (map (float_batch cw res1) Bp))) acr0
    = Some (emitted_of Bp, fin) /\
    c_lastV fin = snd (last (last Bp []) (0, 0)).
Proof.
  intros Hne Hcb Hsep. rewrite (present_counters res1 res1_pos Bp Hcb).
  pose proof (chain_batches res1 res1_pos Bp None Hcb Hsep I) as Hch.
  pose proof (read_chunks _ Hch) as R. unfold READ in R.
  destruct Bp as [|b0 r0]; [congruence|]. cbn [map] in Hch.
  pose proof (fin_chunks _ _ Hch) as F. unfold FIN in F. cbn [map] in R.
  destruct (acr_run _ _ acr0) as [[out fin]|]; [|discriminate].
  injection R as ->. injection F as F. exists fin. split; [reflexivity|]. rewrite F.
  rewrite map_map. change (snd (last b0 (0, 0))) with ((fun b : list (Z * Z) => q_vl (q_of res1 b)) b0).
  rewrite last_map. rewrite (last_cons b0 r0 []). reflexivity.
Qed.

Lemma emitted_counter_batch Bp :
  Bp <> [] -> Forall counter_batch Bp -> seps cw res1 Bp -> counter_batch (emitted_of Bp).
Proof.
  intros Hne Hcb Hsep.
  pose proof (chain_batches res1 res1_pos Bp None Hcb Hsep I) as Hch.
  destruct (expect_sorted _ None None Hch) as (ES & _ & _). fold (emitted_of Bp) in ES.
  pose proof (expect_adj res1 res1_pos Bp [] Hcb Hsep ltac:(intros s s' [])) as A.
  cbn [app] in A. change (prev_of []) with (@None (Z * Z)) in A. fold (emitted_of Bp) in A.
  assert (Hv : Forall (fun s : Z * Z => 0 <= snd s) (concat Bp)).
  { apply Forall_concat. rewrite Forall_forall in Hcb |- *. intros b Hb. destruct (Hcb b Hb) as (_ & _ & H). exact H. }
  destruct Bp as [|b0 r0]; [congruence|].
  assert (Ht0 : 0 <= q_t0 (q_of res1 b0)).
  { apply Forall_cons_iff in Hcb as [([Hb0 [_ Hnn]] & _) _]. unfold q_of. cbn [q_t0].
    destruct b0 as [|s0 b0']; [congruence|]. apply Forall_cons_iff in Hnn as [H _]. exact H. }
  assert (Hhd : exists B tl, emitted_of (b0 :: r0) = (q_t0 (q_of res1 b0), B) :: tl).
  { unfold emitted_of. cbn [map expect app]. eexists. eexists. reflexivity. }
  destruct Hhd as (B & tl & Ee). rewrite Ee in *.
  split; [split; [discriminate|split]|split].
  - apply sorted_lt_le_Z. exact ES.
  - cbn [map] in ES. apply StronglySorted_inv in ES as [_ H]. constructor; [exact Ht0|].
    rewrite Forall_map in H. eapply Forall_impl; [|exact H]. intros s Hs; cbv beta in Hs. cbn [fst] in Hs. lia.
  - exact ES.
  - eapply Forall_impl; [|exact A]. intros s Hs; cbv beta in Hs. rewrite Hs. apply adj_at_nonneg. exact Hv.
Qed.

Lemma emitted_hd Bp :
  Bp <> [] -> Forall counter_batch Bp -> hd (0, 0) (emitted_of Bp) = hd (0, 0) (hd [] Bp).
Proof.
  intros Hne Hcb. destruct Bp as [|b0 r0]; [congruence|]. unfold emitted_of. cbn [map expect app hd].
  apply Forall_cons_iff in Hcb as [([Hb0 _] & _) _]. destruct b0 as [|[t0 v0] b0']; [congruence|]. reflexivity.
Qed.

Lemma emitted_last Bp :
  Bp <> [] -> Forall counter_batch Bp -> seps cw res1 Bp -> last_t (emitted_of Bp) = last_t (last Bp []).
Proof.
  intros Hne Hcb Hsep. unfold last_t at 1.
  pose proof (chain_batches res1 res1_pos Bp None Hcb Hsep I) as Hch.
  destruct (expect_sorted _ None None Hch) as (_ & _ & EL). fold (emitted_of Bp) in EL.
  assert (Hmne : map (q_of res1) Bp <> []) by (destruct Bp; [congruence|discriminate]).
  specialize (EL Hmne). change 0 with (fst (0, 0)) in EL at 1. rewrite last_map in EL. rewrite EL.
  assert (Hlastq : last (map (q_of res1) Bp) (mkQ 0 0 [] 0) = q_of res1 (last Bp [])).
  { clear - Hne. induction Bp as [|b r IH]; [congruence|]. destruct r as [|b' r']; [reflexivity|].
    change (last (map (q_of res1) (b :: b' :: r')) (mkQ 0 0 [] 0)) with (last (map (q_of res1) (b' :: r')) (mkQ 0 0 [] 0)).
    rewrite IH by discriminate. reflexivity. }
  rewrite Hlastq.
  assert (Hlb : In (last Bp []) Bp) by (apply last_in; exact Hne).
  rewrite Forall_forall in Hcb. destruct (q_of_ok res1 res1_pos _ (Hcb _ Hlb)) as (_ & H & _ & _).
  exact H.
Qed.

(* the second-level counter chunk of a part, as a cchunk: format data of the re-downsampled
   emitted samples, but the LAST RAW value of the part's last first-level chunk *)
Definition q2_of (Bp : list (list (Z * Z))) : cchunk :=
  let qb := q_of res2 (emitted_of Bp) in
  mkQ (q_t0 qb) (q_v0 qb) (q_mids qb) (snd (last (last Bp []) (0, 0))).

Lemma part_chunk Bp :
  Bp <> [] -> Forall counter_batch Bp -> seps cw res1 Bp ->
  exists k2,
    float_aggr_batch cw res2 (map (float_batch cw res1) Bp) = Some k2 /\
    k_counter k2 = Some (q_samples (q2_of Bp)) /\
    q_ok (q2_of Bp) /\
    q_t0 (q2_of Bp) = fst (hd (0, 0) (hd [] Bp)) /\ q_v0 (q2_of Bp) = snd (hd (0, 0) (hd [] Bp)) /\
    q_end (q2_of Bp) = last_t (last Bp []).
Proof.
  intros Hne Hcb Hsep.
  destruct (part_read Bp Hne Hcb Hsep) as (fin & Erun & Efin).
  pose proof (emitted_counter_batch Bp Hne Hcb Hsep) as Hecb.
  destruct (q_of_ok res2 res2_pos _ Hecb) as (Hqok & Hqend & Hk & _).
  pose proof Hecb as ([Hene [Hes Henn]] & _ & _).
  assert (Eexp : expand_xor 0 (emitted_of Bp) = emitted_of Bp) by (apply expand_xor_id; assumption).
  unfold float_aggr_batch.
  destruct (generic_aggregate cw k_count a_sum res2 _) as [[m1 x1] cnt].
  destruct (generic_aggregate cw k_sum a_sum res2 _) as [[m2 x2] sm].
  destruct (generic_aggregate cw k_min (fun a => oz (a_min a)) res2 _) as [[m3 x3] mn].
  destruct (generic_aggregate cw k_max (fun a => oz (a_max a)) res2 _) as [[m4 x4] mx].
  rewrite Erun, Eexp.
  (* unfold what q_of_ok says about float_batch on the emitted samples *)
  unfold float_batch in Hk.
  destruct (emitted_of Bp) as [|e0 erest] eqn:Ee; [congruence|].
  destruct (downsample_batch cw res2 (e0 :: erest)) as [out lastT] eqn:Ed.
  cbn [k_counter hd] in Hk. unfold q_samples in Hk. injection Hk as Hh Htl.
  eexists. split; [reflexivity|]. cbn [k_counter].
  assert (Hm : q_mids (q_of res2 (e0 :: erest)) = proj a_counter out)
    by (unfold q_of; cbn [q_mids]; rewrite Ed; reflexivity).
  rewrite Ed in Htl. cbn [fst] in Htl. apply app_inv_head in Htl. injection Htl as HlT.
  assert (Eq2 : q_samples (q2_of Bp) = e0 :: proj a_counter out ++ [(lastT, c_lastV fin)]).
  { unfold q2_of. rewrite Ee. unfold q_samples, q_end. cbn [q_t0 q_v0 q_mids q_vl].
    rewrite Efin, Hm, HlT. unfold q_end. rewrite Hm. unfold q_of. cbn [q_t0 q_v0 hd]. destruct e0; reflexivity. }
  split; [rewrite Eq2; reflexivity|].
  pose proof (emitted_hd Bp Hne Hcb) as Ehd. pose proof (emitted_last Bp Hne Hcb Hsep) as Elast.
  rewrite Ee in Ehd, Elast.
  split; [|split; [|split]].
  - unfold q2_of, q_ok. rewrite Ee. cbn [q_t0 q_v0 q_mids]. exact Hqok.
  - unfold q2_of. rewrite Ee. unfold q_of. cbn [q_t0]. exact (f_equal fst Ehd).
  - unfold q2_of. rewrite Ee. unfold q_of. cbn [q_v0]. exact (f_equal snd Ehd).
  - rewrite <- Elast, <- Hqend. unfold q2_of. rewrite Ee. unfold q_end. cbn [q_mids q_t0]. reflexivity.
Qed.

End Part.

(* ---- the whole second level ---- *)

Lemma seps_app res : forall l1 l2 : list (list (Z * Z)),
  seps cw res (l1 ++ l2) ->
  seps cw res l1 /\ seps cw res l2 /\
  Forall (fun b1 => Forall (fun s1 => Forall (fun s2 => cw (fst s1) res < fst s2) (concat l2)) b1) l1.
Proof.
  induction l1 as [|b l1 IH]; intros l2 H; cbn [app] in H.
  - split; [exact I|]. split; [exact H|constructor].
  - destruct H as [Hb H]. destruct (IH l2 H) as (S1 & S2 & C).
    rewrite concat_app in Hb. split; [|split; [exact S2|]].
    + cbn [seps]. split; [|exact S1]. eapply Forall_impl; [|exact Hb]. intros s1 Hs1.
      apply Forall_app in Hs1 as [? _]. assumption.
    + constructor; [|exact C]. eapply Forall_impl; [|exact Hb]. intros s1 Hs1.
      apply Forall_app in Hs1 as [_ ?]. assumption.
Qed.

Section Level2.
Variables res1 res2 : Z.
Hypothesis res1_pos : 0 < res1.
Hypothesis res2_pos : 0 < res2.

Lemma chain_parts : forall parts prevT,
  Forall (fun p : list (list (Z * Z)) => p <> []) parts ->
  Forall counter_batch (concat parts) -> seps cw res1 (concat parts) ->
  match prevT with Some T => Forall (fun s : Z * Z => T < fst s) (concat (concat parts)) | None => True end ->
  q_chain prevT (map (q2_of res1 res2) parts).
Proof.
  induction parts as [|p rest IH]; intros prevT Hne Hcb Hsep Hprev; [exact I|].
  apply Forall_cons_iff in Hne as [Hp Hne]. cbn [concat] in Hcb, Hsep.
  apply Forall_app in Hcb as [Hcp Hcr]. destruct (seps_app res1 _ _ Hsep) as (Sp & Sr & Cross).
  destruct (part_chunk res1 res2 res1_pos res2_pos p Hp Hcp Sp) as (k2 & _ & _ & Hok & Ht0 & _ & Hend).
  cbn [map q_chain]. split; [exact Hok|]. split.
  - destruct prevT as [T|]; [|exact I]. rewrite Ht0.
    destruct p as [|b0 p']; [congruence|]. apply Forall_cons_iff in Hcp as [([Hb0 _] & _) _].
    destruct b0 as [|s0 b0']; [congruence|]. cbn [concat app hd] in *.
    apply Forall_cons_iff in Hprev as [H _]. exact H.
  - rewrite Hend. apply IH; try assumption.
    (* everything after the part lies after the part's last timestamp *)
    assert (Hlp : In (last p []) p) by (apply last_in; exact Hp).
    rewrite Forall_forall in Hcp. destruct (Hcp _ Hlp) as ([Hlne [_ Hnn]] & _).
    assert (Hls : In (last (last p []) (0, 0)) (last p [])) by (apply last_in; exact Hlne).
    rewrite Forall_forall in Cross. specialize (Cross _ Hlp). rewrite Forall_forall in Cross.
    specialize (Cross _ Hls). eapply Forall_impl; [|exact Cross]. intros s Hs; cbv beta in Hs.
    rewrite Forall_forall in Hnn. specialize (Hnn _ Hls).
    pose proof (cw_ge res1 res1_pos _ Hnn). unfold last_t. lia.
Qed.

Lemma loop_parts bs : (1 <= bs)%nat -> forall fuel batches out,
  aggr_loop cw fuel res2 bs (map (float_batch cw res1) batches) = Some out ->
  Forall counter_batch batches -> seps cw res1 batches ->
  exists parts,
    concat parts = batches /\ Forall (fun p : list (list (Z * Z)) => p <> []) parts /\
    present k_counter out = map (fun p => q_samples (q2_of res1 res2 p)) parts.
Proof.
  intros Hb. induction fuel as [|f IH]; intros batches out E Hcb Hsep.
  - destruct batches; cbn in E; [injection E as <-; exists []; repeat split; constructor|discriminate].
  - destruct batches as [|b0 r0]; [cbn in E; injection E as <-; exists []; repeat split; constructor|].
    cbn [map aggr_loop] in E.
    change (float_batch cw res1 b0 :: map (float_batch cw res1) r0) with (map (float_batch cw res1) (b0 :: r0)) in E.
    rewrite map_length in E.
    set (j := Nat.min bs (length (b0 :: r0))) in *.
    rewrite firstn_map, skipn_map in E.
    assert (Hj : (1 <= j)%nat) by (unfold j; cbn [length]; lia).
    assert (Hsplit : firstn j (b0 :: r0) ++ skipn j (b0 :: r0) = b0 :: r0) by apply firstn_skipn.
    assert (Hpne : firstn j (b0 :: r0) <> []) by (destruct j; [lia|discriminate]).
    rewrite <- Hsplit in Hcb, Hsep. apply Forall_app in Hcb as [Hc1 Hc2].
    destruct (seps_app res1 _ _ Hsep) as (S1 & S2 & _).
    destruct (part_chunk res1 res2 res1_pos res2_pos _ Hpne Hc1 S1) as (k2 & Ek & Hk & _).
    rewrite Ek in E.
    destruct (aggr_loop cw f res2 bs (map (float_batch cw res1) (skipn j (b0 :: r0)))) as [rest|] eqn:Er; [|discriminate].
    injection E as <-. destruct (IH _ _ Er Hc2 S2) as (parts & Hcat & Hne & Hpres).
    exists (firstn j (b0 :: r0) :: parts). split; [cbn [concat]; rewrite Hcat; exact Hsplit|].
    split; [constructor; assumption|].
    unfold present in *. cbn [flat_map map]. rewrite Hk, Hpres. reflexivity.
Qed.

(* Level 2 (structure): the 1h counter chunks keep, per part of 5m chunks, the part's first
   raw sample and last raw value in the documented format and are time-ordered; reading them
   therefore yields the stitched values *)
Lemma level2_structure nc1 nc2 data l1 l2 :
  valid_counter res1 data ->
  level1 res1 nc1 data = Some l1 -> level2 res2 nc2 l1 = Some l2 ->
  exists batches parts,
    l1 = map (float_batch cw res1) batches /\ concat batches = keep_nonnan data /\
    concat parts = batches /\ Forall (fun p : list (list (Z * Z)) => p <> []) parts /\
    present k_counter l2 = map (fun p => q_samples (q2_of res1 res2 p)) parts /\
    q_chain None (map (q2_of res1 res2) parts) /\
    read_counter l2 = Some (expect None (map (q2_of res1 res2) parts)) /\
    Forall counter_batch batches /\ seps cw res1 batches.
Proof.
  intros Hv E1 E2.
  destruct (level1_structure res1 res1_pos nc1 data Hv) as (batches & E1' & Hcat & Hcb & Hsep).
  rewrite E1 in E1'. injection E1' as ->.
  unfold level2, downsample_aggr in E2.
  destruct (loop_parts _ (Nat.le_max_r (length (map (float_batch cw res1) batches) / nc2) 1) _ _ _ E2 Hcb Hsep) as (parts & Hcp & Hne & Hpres).
  exists batches, parts. split; [reflexivity|]. split; [exact Hcat|]. split; [exact Hcp|]. split; [exact Hne|].
  split; [exact Hpres|].
  assert (Hch : q_chain None (map (q2_of res1 res2) parts)).
  { apply chain_parts; [exact Hne|rewrite Hcp; exact Hcb|rewrite Hcp; exact Hsep|exact I]. }
  split; [exact Hch|]. split; [|split; assumption].
  unfold read_counter, counter_toks. rewrite Hpres.
  rewrite <- (map_map (q2_of res1 res2) q_samples).
  pose proof (read_chunks _ Hch) as R. unfold READ in R.
  destruct (acr_run _ _ acr0) as [[out fin]|]; [|discriminate]. exact R.
Qed.

End Level2.
