(* C19 — a sufficient condition for the constructor to succeed with several zones:
   every zone can hold its share ceil(rf / zones) of the replicas. *)
From Coq Require Import ZArith List Bool Lia Arith Permutation.
Import ListNotations.
From Verif Require Import Lib.Corr Lib.Hashring_Ketama Lib.Hashring_KetamaFacts Lib.Hashring_Answers Lib.Hashring_AnswersFacts
  Gen.C19 Model.C19 Proofs.C19.
Close Scope Z_scope.

(* sum of the per-zone counts *)
Fixpoint count_sum (eps : list (Z * list Z)) (reps : list nat) (azs : list Z) : nat :=
  match azs with
  | [] => 0
  | a :: r => zone_count eps reps a + count_sum eps reps r
  end.

Lemma count_sum_nil eps azs : count_sum eps [] azs = 0.
Proof. induction azs; simpl; [reflexivity|]. rewrite IHazs. reflexivity. Qed.

Lemma count_sum_snoc_notin eps reps e azs : ~ In (az_of eps e) azs ->
  count_sum eps (reps ++ [e]) azs = count_sum eps reps azs.
Proof.
  induction azs as [|b r IHr]; simpl; intro Hn; [reflexivity|].
  rewrite zone_count_snoc. destruct (az_of eps e =? b)%Z eqn:Eb.
  - apply Z.eqb_eq in Eb. exfalso. apply Hn. now left.
  - rewrite IHr; [lia|]. intro. apply Hn. now right.
Qed.

Lemma count_sum_snoc eps reps e azs : NoDup azs -> In (az_of eps e) azs ->
  count_sum eps (reps ++ [e]) azs = S (count_sum eps reps azs).
Proof.
  induction azs as [|a r IH]; simpl; intros Hnd Hin; [contradiction|].
  inversion Hnd as [|? ? Hn Hnd']; subst. rewrite zone_count_snoc.
  destruct (az_of eps e =? a)%Z eqn:Ea.
  - apply Z.eqb_eq in Ea. rewrite count_sum_snoc_notin; [lia|]. rewrite Ea. exact Hn.
  - destruct Hin as [E|Hin]; [apply Z.eqb_neq in Ea; congruence|].
    rewrite (IH Hnd' Hin). lia.
Qed.

Lemma count_sum_ge eps reps azs m :
  (forall a, In a azs -> m <= zone_count eps reps a) -> length azs * m <= count_sum eps reps azs.
Proof.
  induction azs as [|a r IH]; simpl; intro H; [lia|].
  specialize (IH (fun b Hb => H b (or_intror Hb))). specialize (H a (or_introl eq_refl)). lia.
Qed.

Lemma filter_len_le {A} (f : A -> bool) l : length (filter f l) <= length l.
Proof. induction l as [|a l IH]; simpl; [lia|]. destruct (f a); simpl; lia. Qed.

(* the minimum is attained *)
Lemma smin_attained sp : sp <> [] -> NoDup (map fst sp) -> (forall a, In a (map fst sp) -> (sget sp a <= MaxInt64)%Z) ->
  exists a, In a (map fst sp) /\ sget sp a = smin sp.
Proof.
  unfold smin. induction sp as [|[a c] r IH]; intros Hne Hnd Hb; [congruence|].
  simpl in Hnd. inversion Hnd as [|? ? Hn Hnd']; subst.
  assert (Hc : (c <= MaxInt64)%Z).
  { specialize (Hb a (or_introl eq_refl)). simpl in Hb. rewrite Z.eqb_refl in Hb. exact Hb. }
  destruct r as [|p r'].
  - exists a. split; [now left|]. simpl. rewrite Z.eqb_refl. lia.
  - destruct IH as [b [Hin Hb']]; [discriminate|exact Hnd'| |].
    { intros x Hx. specialize (Hb x (or_intror Hx)). simpl in Hb.
      destruct (a =? x)%Z eqn:E; [apply Z.eqb_eq in E; subst; contradiction|exact Hb]. }
    set (m := fold_right (fun p0 m0 => Z.min (snd p0) m0) MaxInt64 (p :: r')) in *.
    change (fold_right (fun p0 m0 => Z.min (snd p0) m0) MaxInt64 ((a, c) :: p :: r')) with (Z.min c m).
    destruct (Z.le_gt_cases c m) as [L|G].
    + exists a. split; [now left|]. simpl. rewrite Z.eqb_refl. lia.
    + exists b. split; [now right|].
      assert (Hab : (a =? b)%Z = false).
      { apply Z.eqb_neq. intro E. subst. contradiction. }
      change (sget ((a, c) :: p :: r') b) with (if (a =? b)%Z then c else sget (p :: r') b).
      rewrite Hab, Hb'. lia.
Qed.

Section Balanced.
  Variable eps : list (Z * list Z).
  Variable rf : nat.
  Hypothesis Hsec : Forall (fun e => snd e <> []) eps.
  Hypothesis Hrf : rf <= length eps.
  Hypothesis Hbig : (Z.of_nat rf <= MaxInt64)%Z.
  Let n := length eps.
  Let azs := az_set [] eps.
  Let ring := sort_sections (sections_of 0 eps).
  Definition zone_members (a : Z) : list nat := filter (fun k => (az_of eps k =? a)%Z) (seq 0 (length eps)).
  (* every zone can hold ceil(rf / zones) replicas *)
  Hypothesis Hcap : forall a, In a azs -> rf <= length azs * length (zone_members a).

  Definition P (reps : list nat) (sp : spread) : Prop :=
    bal_inv eps azs reps sp /\ NoDup reps /\ (forall e, In e reps -> e < n) /\
    count_sum eps reps azs = length reps.

  Lemma ring_facts s : In s ring -> s_ep s < n /\ s_az s = az_of eps (s_ep s) /\ In (s_az s) azs.
  Proof.
    intro Hs. destruct (ring_consistent eps s Hs) as [H1 H2]. split; [|split; assumption].
    apply (proj1 (sort_sections_In _ _)) in Hs. apply sections_of_In in Hs as [B _]. unfold n. lia.
  Qed.

  Lemma P_step reps sp s : P reps sp -> In s ring -> rejects reps sp s = false ->
    P (reps ++ [s_ep s]) (sincr sp (s_az s)).
  Proof.
    intros [Hb [Hnd [Hlt Hsum]]] Hs R. destruct (ring_facts s Hs) as [F1 [F2 F3]].
    split; [|split; [|split]].
    - eapply bal_inv_step; eauto. intros s0 Hs0. destruct (ring_facts s0 Hs0) as [_ [G2 G3]]. split; assumption.
    - apply NoDup_snoc; [exact Hnd|]. eapply rejects_false_notin; eauto.
    - intros e He. apply in_app_or in He as [He|[<-|[]]]; auto.
    - rewrite count_sum_snoc, Hsum, app_length; [simpl; lia|apply az_set_NoDup; constructor|].
      rewrite <- F2. exact F3.
  Qed.

  Lemma P_progress reps sp : P reps sp -> length reps < rf ->
    exists s, In s ring /\ rejects reps sp s = false.
  Proof.
    intros [[Hk [Hc Hbal]] [Hnd [Hlt Hsum]]] Hlen.
    assert (Hne : eps <> []) by (intro X; unfold n in *; rewrite X in Hrf; simpl in Hrf; lia).
    assert (Hazs : azs <> []).
    { destruct eps as [|[az hs] r]; [congruence|]. intro X.
      assert (In az azs) by (apply az_set_spec; right; exists hs; now left). rewrite X in H. contradiction. }
    assert (HndK : NoDup (map fst sp)) by (rewrite Hk; apply az_set_NoDup; constructor).
    assert (Hcnt : forall a, (sget sp a <= MaxInt64)%Z).
    { intro a. rewrite Hc. unfold zone_count.
      assert (length (filter (fun e => (az_of eps e =? a)%Z) reps) <= length reps) by apply filter_len_le.
      lia. }
    destruct (smin_attained sp) as [a [Ha Hm]].
    { intro X. rewrite X in Hk. simpl in Hk. symmetry in Hk. contradiction. }
    { exact HndK. }
    { intros; apply Hcnt. }
    rewrite Hk in Ha.
    set (m := zone_count eps reps a).
    assert (Hm' : smin sp = Z.of_nat m) by (rewrite <- Hm, Hc; reflexivity).
    (* every zone holds at least m replicas, so zones * m <= |reps| < rf <= zones * |zone a| *)
    assert (Hall : forall b, In b azs -> m <= zone_count eps reps b).
    { intros b Hb. pose proof (smin_le sp b ltac:(rewrite Hk; exact Hb)) as L. rewrite Hm', Hc in L. lia. }
    pose proof (count_sum_ge eps reps azs m Hall) as Hge. rewrite Hsum in Hge.
    pose proof (Hcap a Ha) as Hca.
    assert (Hlt' : m < length (zone_members a)) by nia.
    (* a member of zone a that is not a replica yet *)
    destruct (all_or_ex (fun k => existsb (Nat.eqb k) reps) (zone_members a)) as [Hin|[k [Hk' Hnot]]].
    { exfalso.
      assert (Hincl : incl (zone_members a) (filter (fun e => (az_of eps e =? a)%Z) reps)).
      { intros k Hk'. apply filter_In. split; [apply existsb_nat_In; apply Hin; exact Hk'|].
        apply filter_In in Hk' as [_ E]. exact E. }
      apply NoDup_incl_length in Hincl; [|apply NoDup_filter, seq_NoDup].
      unfold m, zone_count in Hlt'. lia. }
    apply filter_In in Hk' as [Hkn Hka]. apply in_seq in Hkn. apply Z.eqb_eq in Hka.
    destruct (nth_error eps k) as [[az hs]|] eqn:N; [|apply nth_error_None in N; lia].
    assert (hs <> []). { rewrite Forall_forall in Hsec. apply (Hsec (az, hs)). eapply nth_error_In; eauto. }
    destruct (sections_of_has eps 0 k az hs N H) as [s [Hs [He Hsa]]]. simpl in He.
    assert (Hs' : In s ring) by (apply sort_sections_In; exact Hs).
    destruct (ring_facts s Hs') as [_ [F2 _]].
    exists s. split; [exact Hs'|]. unfold rejects. rewrite He, Hnot. simpl.
    rewrite F2, He, Hka, Hm, Z.ltb_irrefl, andb_false_r. reflexivity.
  Qed.

  Lemma balanced_zones_build : exists ring0 reps, ketama_new eps rf = KOk ring0 reps.
  Proof.
    pose proof (ketama_new_total eps rf) as Htot. unfold ketama_new, ketama_new_fuel in *.
    assert (E : (length eps <? rf) = false) by (apply Nat.ltb_ge; exact Hrf). rewrite E in *.
    fold ring azs in Htot |- *.
    destruct (calc_replicas true (walk_fuel (sections_of 0 eps) rf) ring rf azs) eqn:C; [eauto|exfalso|congruence].
    unfold calc_replicas in C. apply calc_err_stuck in C as [i [_ W]].
    revert W. apply (walk_not_stuck ring rf P P_step P_progress).
    - apply lap_inv_zero.
    - split; [|split; [constructor|split; [intros ? []|]]].
      + split; [apply spread_init_keys|]. split; [intro az; rewrite sget_init; reflexivity|].
        intros a0 b0 _ _. rewrite !sget_init. lia.
      + rewrite count_sum_nil. reflexivity.
  Qed.
End Balanced.

Lemma src_balanced_zones eps rf :
  Forall (fun e => snd e <> []) eps -> rf <= length eps ->
  (Z.of_nat rf <= MaxInt64)%Z ->
  (forall a, In a (az_set [] eps) -> rf <= length (az_set [] eps) * length (zone_members eps a)) ->
  exists ring reps, ketama_new_src eps rf = KOk ring reps.
Proof. intros H1 H2 H3 H4. rewrite ketama_new_src_eq. exact (balanced_zones_build eps rf H1 H2 H3 H4). Qed.
