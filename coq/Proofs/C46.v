(* C46 — invariants of the alert-queue transition system (Model/C46.v). *)
From Coq Require Import NArith ZArith List Bool Lia String.
Import ListNotations.
From Verif Require Import Lib.Corr Gen.C46 Model.C46.
Open Scope Z_scope.

(* ---- tie T: statement order of Pop and Push ---- *)
Fixpoint index_of (x : string) (l : list string) : nat :=
  match l with
  | [] => O
  | y :: r => if String.eqb x y then O else S (index_of x r)
  end.

Definition nth_s (n : nat) (l : list string) : string := nth n l ""%string.

Definition stmts_ok : bool :=
  (* Pop, exactly: token received first, outside the mutex; then the critical
     section with no statement (in particular no return) between taking the mutex
     and the re-signal when alerts remain *)
  list_eqb String.eqb Pop_stmts
    ["select[recv:termc|recv:q.morec]"; "call:q.mtx.Lock()"; "defer:q.mtx.Unlock()";
     "assign:as"; "assign:n"; "assign:q.queue"; "call:q.popped.Add(float64(n))";
     "if:len(q.queue) > 0{select[send:q.morec|default]}"; "return"]%string
  (* Push: everything after the early return runs under the mutex and the signal is the last statement *)
  && String.eqb (nth_s 0 Push_stmts) "if:len(alerts) == 0"
  && String.eqb (nth_s 1 Push_stmts) "call:q.mtx.Lock()"
  && String.eqb (nth_s 2 Push_stmts) "defer:q.mtx.Unlock()"
  && String.eqb (nth_s (List.length Push_stmts - 1) Push_stmts) "select[send:q.morec|default]".

Lemma stmts_fact : stmts_ok = true.
Proof. vm_compute. reflexivity. Qed.

Lemma gtb_false a b : (a >? b) = false -> a <= b.
Proof. rewrite Z.gtb_ltb. intro H. apply Z.ltb_ge in H. exact H. Qed.

(* ---- subsequences ---- *)
Inductive Sub : list Z -> list Z -> Prop :=
| Sub_nil : Sub [] []
| Sub_skip x l1 l2 : Sub l1 l2 -> Sub l1 (x :: l2)
| Sub_take x l1 l2 : Sub l1 l2 -> Sub (x :: l1) (x :: l2).

Lemma Sub_refl l : Sub l l.
Proof. induction l; constructor; assumption. Qed.

Lemma Sub_nil_l l : Sub [] l.
Proof. induction l; constructor; assumption. Qed.

Lemma Sub_app a b c d : Sub a b -> Sub c d -> Sub (a ++ c) (b ++ d).
Proof.
  induction 1 as [|x l1 l2 H IH|x l1 l2 H IH]; intro Hcd; simpl.
  - exact Hcd.
  - apply Sub_skip. apply IH. exact Hcd.
  - apply Sub_take. apply IH. exact Hcd.
Qed.

Lemma Sub_app_r a b c : Sub a b -> Sub a (b ++ c).
Proof. intro H. rewrite <- (app_nil_r a). apply Sub_app; [exact H | apply Sub_nil_l]. Qed.

Lemma zlist_eqb_eq a b : zlist_eqb a b = true -> a = b.
Proof. apply list_eqb_spec. intros x y. apply Z.eqb_eq. Qed.

Section Inv.
  Variable cap batch : Z.
  Variable keep : Z -> bool.
  Hypothesis cap_nonneg : 0 <= cap.
  Hypothesis batch_nonneg : 0 <= batch.

  Definition kept1 (l : label) : list Z := match l with LPush a => filter keep a | _ => [] end.
  Definition popped1 (l : label) : list Z := match l with LCrit out => out | _ => [] end.

  (* state invariant with the ghost history: [k] kept pushes so far, [p] popped so far *)
  Definition Inv (s : st) (k p : list Z) : Prop :=
    len (q s) <= cap
    /\ (q s <> [] -> tok s = true \/ (0 < mid s)%nat)
    /\ exists pre, k = pre ++ q s /\ Sub p pre.

  Lemma len_app {A} (a b : list A) : len (a ++ b) = len a + len b.
  Proof. unfold len. rewrite app_length. lia. Qed.

  Lemma len_dropn {A} d (l : list A) : 0 <= d -> len (dropn d l) = Z.max 0 (len l - d).
  Proof. intro H. unfold len, dropn. rewrite skipn_length. lia. Qed.

  Lemma dropn_split {A} d (l : list A) : l = firstn (Z.to_nat d) l ++ dropn d l.
  Proof. unfold dropn. symmetry. apply firstn_skipn. Qed.

  Lemma push_inv s k p a :
    Inv s k p -> Inv (push cap keep s a) (k ++ filter keep a) p.
  Proof.
    intros [I1 [I2 [pre [Hk Hp]]]]. unfold push.
    destruct a as [|a0 a]; [simpl; rewrite app_nil_r; repeat split; eauto|].
    destruct (filter keep (a0 :: a)) as [|b0 al0] eqn:Ef; [rewrite app_nil_r; repeat split; eauto|].
    set (al := b0 :: al0) in *.
    cbv zeta.
    destruct (len al - cap >? 0) eqn:Ed.
    - (* the batch alone exceeds the capacity *)
      apply Z.gtb_lt in Ed.
      assert (Hlen : len (dropn (len al - cap) al) = cap) by (rewrite len_dropn by lia; lia).
      rewrite Hlen.
      assert (Hqu : (if len (q s) + cap - cap >? 0 then dropn (len (q s) + cap - cap) (q s) else q s) = []).
      { replace (len (q s) + cap - cap) with (len (q s)) by lia.
        destruct (len (q s) >? 0) eqn:E.
        - unfold dropn, len. rewrite Nat2Z.id. apply skipn_all.
        - destruct (q s) as [|z0 l0]; [reflexivity|]. apply gtb_false in E. unfold len in E.
          change (List.length (z0 :: l0)) with (S (List.length l0)) in E. lia. }
      rewrite Hqu. unfold Inv. cbn [q tok mid app]. repeat split.
      + lia.
      + intros _. left. reflexivity.
      + exists (pre ++ q s ++ firstn (Z.to_nat (len al - cap)) al). split.
        * rewrite Hk. cbn [app]. rewrite <- !app_assoc. f_equal. f_equal. apply dropn_split.
        * apply Sub_app_r. exact Hp.
    - apply gtb_false in Ed.
      destruct (len (q s) + len al - cap >? 0) eqn:Ed2; unfold Inv; cbn [q tok mid].
      + apply Z.gtb_lt in Ed2. repeat split.
        * rewrite len_app, len_dropn by lia. lia.
        * intros _. left. reflexivity.
        * exists (pre ++ firstn (Z.to_nat (len (q s) + len al - cap)) (q s)). split.
          -- rewrite Hk. rewrite <- !app_assoc. f_equal. rewrite app_assoc. f_equal. apply dropn_split.
          -- apply Sub_app_r. exact Hp.
      + apply gtb_false in Ed2. repeat split.
        * rewrite len_app. lia.
        * intros _. left. reflexivity.
        * exists pre. split; [rewrite Hk, app_assoc; reflexivity | exact Hp].
  Qed.

  Lemma step_inv s k p l s' :
    Inv s k p -> step cap batch keep s l = Some s' -> Inv s' (k ++ kept1 l) (p ++ popped1 l).
  Proof.
    intros HI Hs. destruct l as [a| |out|]; simpl in Hs; simpl kept1; simpl popped1;
      [| | |inversion Hs; subst; rewrite !app_nil_r; exact HI].
    - inversion Hs; subst. rewrite app_nil_r. apply push_inv. exact HI.
    - unfold take in Hs. destruct (tok s); [|discriminate]. inversion Hs; subst.
      rewrite !app_nil_r. destruct HI as [I1 [I2 I3]]. repeat split; simpl; auto.
      intros _. right. lia.
    - unfold crit in Hs. destruct (mid s) as [|m] eqn:Em; [discriminate|].
      destruct (zlist_eqb (firstn (Z.to_nat batch) (q s)) out) eqn:E; [|discriminate].
      apply zlist_eqb_eq in E. inversion Hs; subst. clear Hs.
      destruct HI as [I1 [I2 [pre [Hk Hp]]]]. rewrite app_nil_r. repeat split; simpl.
      + unfold len in *. rewrite skipn_length. lia.
      + intros Hne. left. destruct (skipn (Z.to_nat batch) (q s)); [congruence | reflexivity].
      + exists (pre ++ firstn (Z.to_nat batch) (q s)). split.
        * rewrite Hk, <- app_assoc. f_equal. symmetry. apply firstn_skipn.
        * apply Sub_app; [exact Hp | apply Sub_refl].
  Qed.

  Lemma kept_cons l tr : kept keep (l :: tr) = kept1 l ++ kept keep tr.
  Proof. destruct l; reflexivity. Qed.
  Lemma popped_cons l tr : popped (l :: tr) = popped1 l ++ popped tr.
  Proof. destruct l; reflexivity. Qed.

  Lemma run_inv tr : forall s s' k p,
    Inv s k p -> run cap batch keep s tr = Some s' ->
    Inv s' (k ++ kept keep tr) (p ++ popped tr).
  Proof.
    induction tr as [|l tr IH]; intros s s' k p HI Hr; simpl in Hr.
    - inversion Hr; subst. simpl. rewrite !app_nil_r. exact HI.
    - destruct (step cap batch keep s l) as [s1|] eqn:Es; [|discriminate].
      rewrite kept_cons, popped_cons, !app_assoc.
      eapply IH; [|exact Hr]. eapply step_inv; eauto.
  Qed.

  Lemma init_inv : Inv init [] [].
  Proof.
    unfold Inv, init, len. simpl. repeat split; [lia | congruence|].
    exists []. split; [reflexivity | constructor].
  Qed.

  (* every reachable state, whatever the interleaving *)
  Lemma reach_inv tr s :
    run cap batch keep init tr = Some s -> Inv s (kept keep tr) (popped tr).
  Proof. intro H. apply (run_inv tr init s [] [] init_inv H). Qed.

  Lemma batch_bound tr : forall s s',
    run cap batch keep s tr = Some s' ->
    Forall (fun l => match l with LCrit out => len out <= batch | _ => True end) tr.
  Proof.
    induction tr as [|l tr IH]; intros s s' Hr; [constructor|]. simpl in Hr.
    destruct (step cap batch keep s l) as [s1|] eqn:Es; [|discriminate].
    constructor; [|eapply IH; eauto].
    destruct l as [a| |out|]; auto. simpl in Es. unfold crit in Es.
    destruct (mid s); [discriminate|].
    destruct (zlist_eqb (firstn (Z.to_nat batch) (q s)) out) eqn:E; [|discriminate].
    apply zlist_eqb_eq in E. subst out. unfold len.
    pose proof (firstn_le_length (Z.to_nat batch) (q s)). lia.
  Qed.

  (* enabledness: with alerts queued, a popper can always move, and the popper
     that is between its two halves re-arms the token if alerts remain *)
  Lemma popper_enabled s k p :
    Inv s k p -> q s <> [] ->
    (exists s', take s = Some s')
    \/ (exists s' out, crit batch s = Some (s', out) /\ (q s' <> [] -> tok s' = true)).
  Proof.
    intros [_ [I2 _]] Hne. destruct (I2 Hne) as [Ht|Hm].
    - left. unfold take. rewrite Ht. eexists. reflexivity.
    - right. unfold crit. destruct (mid s) as [|m]; [lia|].
      eexists. eexists. split; [reflexivity|]. simpl. intro H.
      destruct (skipn (Z.to_nat batch) (q s)); [congruence | reflexivity].
  Qed.
End Inv.
