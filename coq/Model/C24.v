(* C24 — the remote-write concurrency gate.
   LTS of request threads around the gate (a buffered channel of capacity max:
   Start = send or ctx.Done, Done = receive or panic when empty), for the
   protobuf (receiveHTTP) and OTLP (receiveOTLPHTTP) endpoints sharing one gate.
   Whether a request whose Start FAILED (client gave up while queued) still runs
   Done is not written here: it is computed from the source-order event lists
   of the two handlers, regenerated into Gen/C24.v on every run (tie T).
   Executable definitions only. *)
From Coq Require Import List Bool Arith String Ascii ZArith.
Import ListNotations.
From Verif Require Import Lib.Corr Gen.C24.
Open Scope nat_scope.

Inductive ep := Http | Otlp.

(* ---- tie T: statement order of the gate protocol ---- *)
Definition ev := (string * string)%type.
Definition ev_is (k t : string) (e : ev) : bool := String.eqb (fst e) k && String.eqb (snd e) t.
Definition is_start := ev_is "call" "writeGate.Start".
Definition is_if_err := ev_is "if" "err != nil".
Definition is_endif (e : ev) := String.eqb (fst e) "endif".
Definition is_return (e : ev) := String.eqb (fst e) "return".
Definition is_defer_done := ev_is "defer" "writeGate.Done".
Definition is_any_done (e : ev) := String.eqb (snd e) "writeGate.Done".

Fixpoint after_first (p : ev -> bool) (l : list ev) : list ev :=
  match l with [] => [] | x :: r => if p x then r else after_first p r end.
Fixpoint before_first (p : ev -> bool) (l : list ev) : list ev :=
  match l with [] => [] | x :: r => if p x then [] else x :: before_first p r end.

(* safe order: after the call of Start, no Done (called or deferred) before the
   `if err != nil` test, that block returns, and the Done is deferred after it *)
Definition safe_order (evs : list ev) : bool :=
  let a := after_first is_start evs in
  let pre := before_first is_if_err a in
  let blk_on := after_first is_if_err a in
  let blk := before_first is_endif blk_on in
  let post := after_first is_endif blk_on in
  existsb is_start evs && existsb is_if_err a
  && negb (existsb is_any_done pre) && negb (existsb is_any_done blk)
  && existsb is_return blk && existsb is_defer_done post.

Definition done_on_failed_start (e : ep) : bool :=
  negb (safe_order (match e with Http => receiveHTTP_events | Otlp => receiveOTLPHTTP_events end)).

(* tie T: Start and the deferred Done are called on the SAME gate value: the
   expression they are called on is one plain identifier (no call, no field
   access re-evaluated at each use) that is assigned exactly once in the handler *)
Fixpoint plain_ident (s : string) : bool :=
  match s with
  | EmptyString => true
  | String c r =>
      negb (Ascii.eqb c "("%char) && negb (Ascii.eqb c ")"%char) && negb (Ascii.eqb c "."%char) && plain_ident r
  end.
Definition same_binding (start_recv done_recv : string) (bindings : Z) : bool :=
  String.eqb start_recv done_recv && plain_ident start_recv
  && negb (String.eqb start_recv "") && Z.eqb bindings 1%Z.
Definition same_gate (e : ep) : bool :=
  match e with
  | Http => same_binding receiveHTTP_start_receiver receiveHTTP_done_receiver receiveHTTP_gate_bindings
  | Otlp => same_binding receiveOTLPHTTP_start_receiver receiveOTLPHTTP_done_receiver receiveOTLPHTTP_gate_bindings
  end.

(* ---- the LTS ---- *)
Inductive label :=
| LArrive (e : ep)    (* a request calls writeGate.Start and queues *)
| LAdmit              (* a queued request gets a slot and enters the write path *)
| LCancel (e : ep)    (* a queued request's context is cancelled: Start returns an error *)
| LFinish             (* a request leaves the write path (its handler body returns) *)
| LRelease.           (* ... and its deferred Done runs *)

Record state := mk_state {
  tokens : nat;      (* elements in the gate's channel *)
  waiting : nat;     (* requests blocked in Start *)
  working : nat;     (* requests inside the gated write path *)
  exiting : nat;     (* left the write path, deferred Done not yet run *)
  finished : nat; cancelled : nat; panics : nat }.

Definition init : state := mk_state 0 0 0 0 0 0 0.

(* gate.Done: take one element out, or panic when there is none *)
Definition gate_done (s : state) : state :=
  match tokens s with
  | O => mk_state 0 (waiting s) (working s) (exiting s) (finished s) (cancelled s) (S (panics s))
  | S t => mk_state t (waiting s) (working s) (exiting s) (finished s) (cancelled s) (panics s)
  end.

Definition step (dofs : ep -> bool) (max : nat) (s : state) (l : label) : option state :=
  match l with
  | LArrive _ => Some (mk_state (tokens s) (S (waiting s)) (working s) (exiting s) (finished s) (cancelled s) (panics s))
  | LAdmit =>
      match waiting s with
      | S w => if tokens s <? max
               then Some (mk_state (S (tokens s)) w (S (working s)) (exiting s) (finished s) (cancelled s) (panics s))
               else None
      | O => None
      end
  | LCancel e =>
      match waiting s with
      | S w =>
          let s' := mk_state (tokens s) w (working s) (exiting s) (finished s) (cancelled s) (panics s) in
          if dofs e then
            (* the handler runs Done although Start failed; when Done panics the
               request is counted under panics, otherwise under cancelled *)
            match tokens s with
            | O => Some (gate_done s')
            | S _ => let s'' := gate_done s' in
                     Some (mk_state (tokens s'') (waiting s'') (working s'') (exiting s'') (finished s'') (S (cancelled s'')) (panics s''))
            end
          else Some (mk_state (tokens s') (waiting s') (working s') (exiting s') (finished s') (S (cancelled s')) (panics s'))
      | O => None
      end
  | LFinish =>
      match working s with
      | S w => Some (mk_state (tokens s) (waiting s) w (S (exiting s)) (finished s) (cancelled s) (panics s))
      | O => None
      end
  | LRelease =>
      match exiting s with
      | S x =>
          let s' := mk_state (tokens s) (waiting s) (working s) x (finished s) (cancelled s) (panics s) in
          match tokens s with
          | O => Some (gate_done s')
          | S _ => let s'' := gate_done s' in
                   Some (mk_state (tokens s'') (waiting s'') (working s'') (exiting s'') (S (finished s'')) (cancelled s'') (panics s''))
          end
      | O => None
      end
  end.

Fixpoint run (dofs : ep -> bool) (max : nat) (s : state) (ls : list label) : option state :=
  match ls with
  | [] => Some s
  | l :: r => match step dofs max s l with Some s' => run dofs max s' r | None => None end
  end.

(* ---- several gates: reloads of the limits configuration ----
   Limiter.loadConfig installs a FRESH gate (of the configured capacity) on
   every reload; requests that entered Start on an older gate stay queued on /
   admitted by that gate. A request's deferred Done goes to the gate it started
   on when the handler keeps the gate in one binding ([same_gate]); when the
   handler looks the gate up again, it goes to the newest gate instead. *)
Definition mstate := list (nat * state).      (* per gate, oldest first: capacity, counters *)
Definition minit (max : nat) : mstate := [(max, init)].

Inductive mlabel :=
| MOn (i : nat) (l : label)            (* arrive / admit / cancel / leave on gate i *)
| MRelease (i : nat) (e : ep)          (* deferred Done of a request that started on gate i *)
| MReload (max : nat).

Fixpoint upd_gate (i : nat) (f : nat * state -> option (nat * state)) (gs : mstate) : option mstate :=
  match gs, i with
  | [], _ => None
  | g :: r, O => match f g with Some g' => Some (g' :: r) | None => None end
  | g :: r, S j => match upd_gate j f r with Some r' => Some (g :: r') | None => None end
  end.

Definition on_gate (dofs : ep -> bool) (l : label) (g : nat * state) : option (nat * state) :=
  match step dofs (fst g) (snd g) l with Some s' => Some (fst g, s') | None => None end.

(* the request leaves gate i's books; Done itself is applied elsewhere *)
Definition leave_exiting (g : nat * state) : option (nat * state) :=
  match exiting (snd g) with
  | S x => let s := snd g in
           Some (fst g, mk_state (tokens s) (waiting s) (working s) x (finished s) (cancelled s) (panics s))
  | O => None
  end.
(* gate.Done on a gate, on behalf of a request of another gate: counted as
   finished (or as a panic) on the gate that is hit *)
Definition foreign_done (g : nat * state) : option (nat * state) :=
  let s := snd g in
  match tokens s with
  | O => Some (fst g, mk_state 0 (waiting s) (working s) (exiting s) (finished s) (cancelled s) (S (panics s)))
  | S t => Some (fst g, mk_state t (waiting s) (working s) (exiting s) (S (finished s)) (cancelled s) (panics s))
  end.

Definition mstep (dofs same : ep -> bool) (gs : mstate) (l : mlabel) : option mstate :=
  match l with
  | MOn i LRelease => None                 (* releases carry the endpoint: MRelease *)
  | MOn i l => upd_gate i (on_gate dofs l) gs
  | MRelease i e =>
      if same e then upd_gate i (on_gate dofs LRelease) gs
      else match upd_gate i leave_exiting gs with
           | Some gs' => upd_gate (List.length gs' - 1) foreign_done gs'
           | None => None
           end
  | MReload max => Some (gs ++ [(max, init)])
  end.

Fixpoint mrun (dofs same : ep -> bool) (gs : mstate) (ls : list mlabel) : option mstate :=
  match ls with
  | [] => Some gs
  | l :: r => match mstep dofs same gs l with Some gs' => mrun dofs same gs' r | None => None end
  end.

(* ---- the schedule controller of the harness, as label sequences ----
   after every operation the harness waits until no queued request can be
   admitted any more; so each operation is followed, on every gate, by as many
   LAdmit as fit *)
Inductive op :=
| OArrive (e : ep)
| OArriveDead (e : ep)   (* arrives with an already cancelled context and Start chose ctx.Done *)
| OCancel (e : ep) (i : nat) | OCancelNone
| OFinish (e : ep) (i : nat) | OFinishNone
  (* OFinish also covers a client that gives up inside the write path: the
     handler leaves through an error return and its deferred Done runs *)
| OReload (max : nat).

Definition last_gate (gs : mstate) : nat := List.length gs - 1.

Definition admits_of (i : nat) (g : nat * state) : list mlabel :=
  repeat (MOn i LAdmit) (Nat.min (waiting (snd g)) (fst g - tokens (snd g))).

Fixpoint all_admits (i : nat) (gs : mstate) : list mlabel :=
  match gs with
  | [] => []
  | g :: r => admits_of i g ++ all_admits (S i) r
  end.

Definition op_labels (gs : mstate) (o : op) : list mlabel :=
  match o with
  | OArrive e => [MOn (last_gate gs) (LArrive e)]
  | OArriveDead e => [MOn (last_gate gs) (LArrive e); MOn (last_gate gs) (LCancel e)]
  | OCancel e i => [MOn i (LCancel e)]
  | OFinish e i => [MOn i LFinish; MRelease i e]
  | OReload max => [MReload max]
  | OCancelNone | OFinishNone => []
  end.

Definition op_enabled (gs : mstate) (o : op) : bool :=
  match o with
  | OCancelNone => forallb (fun g => Nat.eqb (waiting (snd g)) 0) gs
  | OFinishNone => forallb (fun g => Nat.eqb (working (snd g)) 0) gs
  | _ => true
  end.

Definition exec_op (dofs same : ep -> bool) (gs : mstate) (o : op) : option mstate :=
  if op_enabled gs o then
    match mrun dofs same gs (op_labels gs o) with
    | Some gs' => mrun dofs same gs' (all_admits 0 gs')
    | None => None
    end
  else None.

(* per gate: capacity, in the write path, queued; then finished, cancelled, panicked (totals) *)
Definition snapshot := (list (nat * nat * nat) * nat * nat * nat)%type.
Definition sum_of (f : state -> nat) (gs : mstate) : nat := fold_right (fun g acc => f (snd g) + acc) 0 gs.
Definition snap_of (gs : mstate) : snapshot :=
  (map (fun g => (fst g, working (snd g), waiting (snd g))) gs,
   sum_of finished gs, sum_of cancelled gs, sum_of panics gs).

Definition gsnap_eqb (a b : nat * nat * nat) : bool :=
  match a, b with (a1, a2, a3), (b1, b2, b3) => Nat.eqb a1 b1 && Nat.eqb a2 b2 && Nat.eqb a3 b3 end.
Definition snap_eqb (a b : snapshot) : bool :=
  match a, b with
  | (ga, fa, ca, pa), (gb, fb, cb, pb) =>
      list_eqb gsnap_eqb ga gb && Nat.eqb fa fb && Nat.eqb ca cb && Nat.eqb pa pb
  end.

(* model and implementation agree on the observable counts after every operation *)
Fixpoint follows (dofs same : ep -> bool) (gs : mstate) (steps : list (op * snapshot)) : bool :=
  match steps with
  | [] => true
  | (o, obs) :: r =>
      match exec_op dofs same gs o with
      | Some gs' => snap_eqb (snap_of gs') obs && follows dofs same gs' r
      | None => false
      end
  end.

Inductive case := CGate (max : nat) (steps : list (op * snapshot)).

Definition corr_ok (c : case) : bool :=
  match c with CGate max steps => follows done_on_failed_start same_gate (minit max) steps end.

(* the property on the implementation's own observations: on every single gate
   never more requests inside the write path than its capacity, never a panic *)
Definition snap_ok (o : snapshot) : bool :=
  match o with
  | (gs, _, _, p) => forallb (fun g => match g with (cap, w, _) => w <=? cap end) gs && Nat.eqb p 0
  end.

Definition pred_ok (c : case) : bool :=
  match c with CGate max steps => forallb (fun st => snap_ok (snd st)) steps end.
