(* C24 — the remote-write concurrency gate.
   LTS of request threads around the gate (a buffered channel of capacity max:
   Start = send or ctx.Done, Done = receive or panic when empty), for the
   protobuf (receiveHTTP) and OTLP (receiveOTLPHTTP) endpoints sharing one gate.
   Whether a request whose Start FAILED (client gave up while queued) still runs
   Done is not written here: it is computed from the source-order event lists
   of the two handlers, regenerated into Gen/C24.v on every run (tie T).
   Executable definitions only. *)
From Coq Require Import List Bool Arith String.
Import ListNotations.
From Verif Require Import Lib.Corr Gen.C24.

Inductive ep := Http | Otlp.

(* ---- tie T: statement order of the gate protocol ---- *)
Definition ev := (string * string)%type.
Definition ev_is (k t : string) (e : ev) : bool := String.eqb (fst e) k && String.eqb (snd e) t.
Definition is_start := ev_is "call" "writeGate.Start".
Definition is_if_err := ev_is "if" "err != nil".
Definition is_endif (e : ev) := String.eqb (fst e) "endif".
Definition is_return (e : ev) := String.eqb (fst e) "return".
Definition is_defer_done := ev_is "defer" "writeGate.Done".
Definition is_any_done (e : ev) := String.eqb (snd e) "writeGate.Done".

Fixpoint after_first (p : ev -> bool) (l : list ev) : list ev :=
  match l with [] => [] | x :: r => if p x then r else after_first p r end.
Fixpoint before_first (p : ev -> bool) (l : list ev) : list ev :=
  match l with [] => [] | x :: r => if p x then [] else x :: before_first p r end.

(* safe order: after the call of Start, no Done (called or deferred) before the
   `if err != nil` test, that block returns, and the Done is deferred after it *)
Definition safe_order (evs : list ev) : bool :=
  let a := after_first is_start evs in
  let pre := before_first is_if_err a in
  let blk_on := after_first is_if_err a in
  let blk := before_first is_endif blk_on in
  let post := after_first is_endif blk_on in
  existsb is_start evs && existsb is_if_err a
  && negb (existsb is_any_done pre) && negb (existsb is_any_done blk)
  && existsb is_return blk && existsb is_defer_done post.

Definition done_on_failed_start (e : ep) : bool :=
  negb (safe_order (match e with Http => receiveHTTP_events | Otlp => receiveOTLPHTTP_events end)).

(* ---- the LTS ---- *)
Inductive label :=
| LArrive (e : ep)    (* a request calls writeGate.Start and queues *)
| LAdmit              (* a queued request gets a slot and enters the write path *)
| LCancel (e : ep)    (* a queued request's context is cancelled: Start returns an error *)
| LFinish             (* a request leaves the write path (its handler body returns) *)
| LRelease.           (* ... and its deferred Done runs *)

Record state := mk_state {
  tokens : nat;      (* elements in the gate's channel *)
  waiting : nat;     (* requests blocked in Start *)
  working : nat;     (* requests inside the gated write path *)
  exiting : nat;     (* left the write path, deferred Done not yet run *)
  finished : nat; cancelled : nat; panics : nat }.

Definition init : state := mk_state 0 0 0 0 0 0 0.

(* gate.Done: take one element out, or panic when there is none *)
Definition gate_done (s : state) : state :=
  match tokens s with
  | O => mk_state 0 (waiting s) (working s) (exiting s) (finished s) (cancelled s) (S (panics s))
  | S t => mk_state t (waiting s) (working s) (exiting s) (finished s) (cancelled s) (panics s)
  end.

Definition step (dofs : ep -> bool) (max : nat) (s : state) (l : label) : option state :=
  match l with
  | LArrive _ => Some (mk_state (tokens s) (S (waiting s)) (working s) (exiting s) (finished s) (cancelled s) (panics s))
  | LAdmit =>
      match waiting s with
      | S w => if tokens s <? max
               then Some (mk_state (S (tokens s)) w (S (working s)) (exiting s) (finished s) (cancelled s) (panics s))
               else None
      | O => None
      end
  | LCancel e =>
      match waiting s with
      | S w =>
          let s' := mk_state (tokens s) w (working s) (exiting s) (finished s) (cancelled s) (panics s) in
          if dofs e then
            (* the handler runs Done although Start failed; when Done panics the
               request is counted under panics, otherwise under cancelled *)
            match tokens s with
            | O => Some (gate_done s')
            | S _ => let s'' := gate_done s' in
                     Some (mk_state (tokens s'') (waiting s'') (working s'') (exiting s'') (finished s'') (S (cancelled s'')) (panics s''))
            end
          else Some (mk_state (tokens s') (waiting s') (working s') (exiting s') (finished s') (S (cancelled s')) (panics s'))
      | O => None
      end
  | LFinish =>
      match working s with
      | S w => Some (mk_state (tokens s) (waiting s) w (S (exiting s)) (finished s) (cancelled s) (panics s))
      | O => None
      end
  | LRelease =>
      match exiting s with
      | S x =>
          let s' := mk_state (tokens s) (waiting s) (working s) x (finished s) (cancelled s) (panics s) in
          match tokens s with
          | O => Some (gate_done s')
          | S _ => let s'' := gate_done s' in
                   Some (mk_state (tokens s'') (waiting s'') (working s'') (exiting s'') (S (finished s'')) (cancelled s'') (panics s''))
          end
      | O => None
      end
  end.

Fixpoint run (dofs : ep -> bool) (max : nat) (s : state) (ls : list label) : option state :=
  match ls with
  | [] => Some s
  | l :: r => match step dofs max s l with Some s' => run dofs max s' r | None => None end
  end.

(* ---- the schedule controller of the harness, as label sequences ----
   after every operation the harness waits until no queued request can be
   admitted any more; so each operation is followed by as many LAdmit as fit *)
Inductive op :=
| OArrive (e : ep)
| OArriveDead (e : ep)   (* arrives with an already cancelled context and Start chose ctx.Done *)
| OCancel (e : ep) | OCancelNone
| OFinish | OFinishNone. (* OFinish also covers a client that gives up inside the write path: the
                            handler leaves through an error return and its deferred Done runs *)

Definition admits (max : nat) (s : state) : list label :=
  repeat LAdmit (Nat.min (waiting s) (max - tokens s)).

Definition op_labels (o : op) : list label :=
  match o with
  | OArrive e => [LArrive e]
  | OArriveDead e => [LArrive e; LCancel e]
  | OCancel e => [LCancel e]
  | OFinish => [LFinish; LRelease]
  | OCancelNone | OFinishNone => []
  end.

Definition op_enabled (s : state) (o : op) : bool :=
  match o with
  | OCancelNone => Nat.eqb (waiting s) 0
  | OFinishNone => Nat.eqb (working s) 0
  | _ => true
  end.

Definition exec_op (dofs : ep -> bool) (max : nat) (s : state) (o : op) : option state :=
  if op_enabled s o then
    match run dofs max s (op_labels o) with
    | Some s' => run dofs max s' (admits max s')
    | None => None
    end
  else None.

Definition snapshot := (nat * nat * nat * nat * nat)%type.  (* working, waiting, finished, cancelled, panics *)
Definition snap_of (s : state) : snapshot := (working s, waiting s, finished s, cancelled s, panics s).

Definition snap_eqb (a b : snapshot) : bool :=
  match a, b with
  | (a1, a2, a3, a4, a5), (b1, b2, b3, b4, b5) =>
      Nat.eqb a1 b1 && Nat.eqb a2 b2 && Nat.eqb a3 b3 && Nat.eqb a4 b4 && Nat.eqb a5 b5
  end.

(* model and implementation agree on the observable counts after every operation *)
Fixpoint follows (dofs : ep -> bool) (max : nat) (s : state) (steps : list (op * snapshot)) : bool :=
  match steps with
  | [] => true
  | (o, obs) :: r =>
      match exec_op dofs max s o with
      | Some s' => snap_eqb (snap_of s') obs && follows dofs max s' r
      | None => false
      end
  end.

Inductive case := CGate (max : nat) (steps : list (op * snapshot)).

Definition corr_ok (c : case) : bool :=
  match c with CGate max steps => follows done_on_failed_start max init steps end.

(* the property on the implementation's own observations: never more than max
   requests inside the write path, never a panic *)
Definition snap_ok (max : nat) (o : snapshot) : bool :=
  match o with (w, _, _, _, p) => (w <=? max) && Nat.eqb p 0 end.

Definition pred_ok (c : case) : bool :=
  match c with CGate max steps => forallb (fun st => snap_ok max (snd st)) steps end.
