(* C02 — model of counter deduplication in pkg/dedup/iter.go:
   counterErrAdjustSeriesIterator (errAdjust, adjustAtValue, At) and the deferred
   adjustAtValue on a replica switch in dedupSeriesIterator.Next, i.e. the shared
   iterator model of Lib/Dedup_Iter.v in counter mode. Values are exact (Z); the
   harness uses integer-valued floats for the correspondence, and a separate
   stream of non-integer floats for which only the predicate is evaluated on
   order-preserving integer keys of the implementation's values.
   The rounding guard of adjustAtValue (C02-fix.patch) never runs in exact
   arithmetic (after errAdjust += last - v the value equals last) and is not
   part of the model. Executable definitions only. *)
From Coq Require Import ZArith List Bool String.
Import ListNotations.
From Verif Require Import Lib.Corr Lib.Dedup_Iter Gen.C02.
Open Scope Z_scope.

Definition cfg : pcfg := mkCfg initialPenalty penA_formula penB_formula.

(* dedup.NewSeriesSet(set, "rate", penalty).At().Iterator(nil) *)
Definition counter_iter (first : list sample) (rest : list (list sample)) : iter :=
  tower true cfg first rest.

(* ---- source facts (tie T) ---- *)
Open Scope string_scope.
Definition adjust_shape_ok : bool :=
  list_eqb String.eqb adjust_src
    ["_, v := it.At()"; "if lastFloatValue > v"; "it.errAdjust += lastFloatValue - v";
     "step := math.Nextafter(lastFloatValue, math.Inf(1)) - lastFloatValue"; "step *= 2";
     "if !(nv < lastFloatValue)"; "_, nv := it.At()"; "it.errAdjust += step"]
  && list_eqb String.eqb counter_at_returns ["t, v + it.errAdjust"]
  && String.eqb next_defer_cond "it.useA != lastUseA && isFloatVal"
  && String.eqb isCounter_src "f == ""increase"" || f == ""rate"" || f == ""irate"" || f == ""resets""".
Close Scope string_scope.

(* ---- observables ---- *)
Inductive case :=
| CInt (reps : list (list sample)) (ops : list op) (full : list sample) (reader : list obs)
  (* non-integer floats: order-preserving keys of the replicas' values, of the
     fully iterated output and of what the reader saw *)
| CFloat (repkeys : list (list Z)) (fullkeys : list Z) (readerkeys : list (option Z)).

Definition obs_eqb (a b : obs) : bool := option_eqb sample_eqb a b.
Definition samples_eqb := list_eqb sample_eqb.

Definition corr_ok (c : case) : bool :=
  match c with
  | CInt [] _ _ _ => false
  | CInt (f :: r) ops full reader =>
      option_eqb samples_eqb (drain (counter_iter f r)) (Some full)
      && list_eqb obs_eqb (run_prog (counter_iter f r) ops) reader
  | CFloat _ _ _ => true
  end.

(* the values a reader sees never decrease (ValNone results are skipped) *)
Fixpoint obs_nondecr_from (lo : option Z) (l : list (option Z)) : bool :=
  match l with
  | [] => true
  | None :: r => obs_nondecr_from lo r
  | Some v :: r => (match lo with Some w => w <=? v | None => true end) && obs_nondecr_from (Some v) r
  end.
Definition obs_vals (l : list obs) : list (option Z) := map (option_map snd) l.

Definition pred_ok (c : case) : bool :=
  match c with
  | CInt reps ops full reader =>
      if forallb (fun l => nondecr (map snd l)) reps then
        nondecr (map snd full) && obs_nondecr_from None (obs_vals reader)
      else true
  | CFloat repkeys fullkeys readerkeys =>
      if forallb nondecr repkeys then nondecr fullkeys && obs_nondecr_from None readerkeys else true
  end.
