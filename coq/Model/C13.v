(* C13 — model of the cache key builders:
     pkg/store/cache/cache.go      CacheKey.String (P: / EP: / S: keys), LabelMatchersToString
     prometheus labels.Matcher.String / shouldQuoteName (used by LabelMatchersToString)
     pkg/store/cache/matchers_cache.go cacheKey (matchers cache), with C13-fix.patch
   Byte strings are [list N]. blake2b-256 followed by base64.RawURLEncoding ([H]),
   strconv.Quote ([quote]) and strconv.FormatUint(.,10) ([dec]) are parameters:
   theorems quantify over them under explicit hypotheses, the check receives
   their real values as oracle tables. Executable definitions only. *)
From Coq Require Import NArith List Bool Lia.
Import ListNotations.
From Verif Require Import Lib.Corr Gen.C13.
Open Scope N_scope.

Definition str := list N.
Definition str_eqb : str -> str -> bool := list_eqb N.eqb.

Definition colon : N := 58.
Definition semicolon : N := 59.
Definition dquote : N := 34.

Inductive mtype := MEq | MNeq | MRe | MNre.

(* labels.MatchType.String: "=", "!=", "=~", "!~" *)
Definition type_str (t : mtype) : str :=
  match t with
  | MEq => [61]
  | MNeq => [33; 61]
  | MRe => [61; 126]
  | MNre => [33; 126]
  end.

Record matcher := mkM { mt : mtype; mname : str; mvalue : str }.

Definition is_nil {A} (l : list A) : bool := match l with [] => true | _ => false end.

(* Matcher.shouldQuoteName: some rune is not [a-zA-Z_] and not a digit at i > 0, or the
   name is empty. A byte >= 128 belongs to a rune outside that set. *)
Definition legacy_char (first : bool) (c : N) : bool :=
  (c =? 95) || ((97 <=? c) && (c <=? 122)) || ((65 <=? c) && (c <=? 90)) ||
  (negb first && (48 <=? c) && (c <=? 57)).

Fixpoint all_legacy (first : bool) (s : str) : bool :=
  match s with
  | [] => true
  | c :: r => legacy_char first c && all_legacy false r
  end.

Definition should_quote (name : str) : bool := negb (all_legacy true name) || is_nil name.

Inductive item :=
| IPostings (block name value comp : str)               (* CacheKey{block, CacheKeyPostings{name,value}, comp} *)
| IExpanded (block : str) (ms : list matcher) (comp : str) (* CacheKey{block, CacheKeyExpandedPostings(LabelMatchersToString(ms)), comp} *)
| ISeries (block : str) (id : N)                        (* CacheKey{block, CacheKeySeries(id), ""} *)
| IMatcher (m : matcher).                               (* matchers cache: cacheKey(m) *)

Section Keys.
  Variable H : str -> str.        (* base64.RawURLEncoding(blake2b.Sum256(.)) *)
  Variable quote : str -> str.    (* strconv.Quote *)
  Variable dec : N -> str.        (* strconv.FormatUint(., 10) *)
  Variable fixed : bool.          (* matchers cache key with C13-fix.patch *)

  (* if len(c.Compression) > 0 { key += ":" + c.Compression } *)
  Definition suffix (comp : str) : str := match comp with [] => [] | _ => colon :: comp end.

  Definition postings_preimage (name value : str) : str := name ++ [colon] ++ value.

  Definition key_postings (block name value comp : str) : str :=
    [80; 58] ++ block ++ [colon] ++ H (postings_preimage name value) ++ suffix comp.

  Definition matcher_string (m : matcher) : str :=
    (if should_quote (mname m) then quote (mname m) else mname m) ++ type_str (mt m) ++ quote (mvalue m).

  Fixpoint matchers_to_string (ms : list matcher) : str :=
    match ms with
    | [] => []
    | m :: r => match r with
                | [] => matcher_string m
                | _ => matcher_string m ++ [semicolon] ++ matchers_to_string r
                end
    end.

  Definition key_expanded (block : str) (ms : list matcher) (comp : str) : str :=
    [69; 80; 58] ++ block ++ [colon] ++ H (matchers_to_string ms) ++ suffix comp.

  Definition key_series (block : str) (id : N) : str := [83; 58] ++ block ++ [colon] ++ dec id.

  Definition matcher_cache_key (m : matcher) : str :=
    if fixed then type_str (mt m) ++ quote (mname m) ++ mvalue m
    else mname m ++ type_str (mt m) ++ mvalue m.

  Definition key_of (i : item) : str :=
    match i with
    | IPostings b n v c => key_postings b n v c
    | IExpanded b ms c => key_expanded b ms c
    | ISeries b id => key_series b id
    | IMatcher m => matcher_cache_key m
    end.
End Keys.

(* ---- equality of items ------------------------------------------------------ *)

Definition mtype_eqb (a b : mtype) : bool :=
  match a, b with MEq, MEq | MNeq, MNeq | MRe, MRe | MNre, MNre => true | _, _ => false end.

Definition matcher_eqb (a b : matcher) : bool :=
  mtype_eqb (mt a) (mt b) && str_eqb (mname a) (mname b) && str_eqb (mvalue a) (mvalue b).

Definition item_eqb (a b : item) : bool :=
  match a, b with
  | IPostings b1 n1 v1 c1, IPostings b2 n2 v2 c2 => str_eqb b1 b2 && str_eqb n1 n2 && str_eqb v1 v2 && str_eqb c1 c2
  | IExpanded b1 m1 c1, IExpanded b2 m2 c2 => str_eqb b1 b2 && list_eqb matcher_eqb m1 m2 && str_eqb c1 c2
  | ISeries b1 i1, ISeries b2 i2 => str_eqb b1 b2 && (i1 =? i2)
  | IMatcher m1, IMatcher m2 => matcher_eqb m1 m2
  | _, _ => false
  end.

(* items of the index cache share one key space; the matchers cache is a separate cache *)
Definition index_item (i : item) : bool := match i with IMatcher _ => false | _ => true end.
Definition same_cache (a b : item) : bool := Bool.eqb (index_item a) (index_item b).

(* ---- oracles ------------------------------------------------------------------ *)

Fixpoint lookup_s (o : list (str * str)) (s : str) : str :=
  match o with
  | [] => [0]                                   (* no real value starts with a NUL byte *)
  | (k, v) :: r => if str_eqb k s then v else lookup_s r s
  end.

Fixpoint lookup_n (o : list (N * str)) (n : N) : str :=
  match o with
  | [] => [0]
  | (k, v) :: r => if k =? n then v else lookup_n r n
  end.

(* ---- the matchers cache under concurrent lookups ------------------------------------- *)

(* LruMatchersCache.GetOrSet: sf.Do(sfkey, func { if item, ok := cache.Get(lrukey) { return item };
   item := newItem(); cache.Add(lrukey, item); return item }). singleflight: a call whose key is
   in flight waits for the leader and gets the leader's result. A lookup is an item (the matcher
   to convert); the conversion of an item yields that item. Events: a lookup is issued (FBegin),
   the conversion of a leading lookup returns (FFinish). [sfk]/[lruk] are the two key functions;
   in the code both are cacheKey(m) (source fact getOrSetKeys). Eviction is not modelled. *)
Inductive fev := FBegin (i : nat) | FFinish (i : nat).

Inductive lstate := LIdle | LLeader | LWait (j : nat) | LDone (r : matcher).

Record fstate := mkF { f_lru : list (str * matcher); f_fl : list (str * nat); f_ls : nat -> lstate }.

Definition finit : fstate := mkF [] [] (fun _ => LIdle).

Fixpoint assoc_s {A} (k : str) (l : list (str * A)) : option A :=
  match l with
  | [] => None
  | (k', v) :: r => if str_eqb k' k then Some v else assoc_s k r
  end.

Definition upd_ls (f : nat -> lstate) (i : nat) (v : lstate) : nat -> lstate :=
  fun x => if Nat.eqb x i then v else f x.

Section Flight.
  Variables sfk lruk : matcher -> str.
  Variable items : list matcher.

  Definition fstep (st : fstate) (e : fev) : fstate :=
    match e with
    | FBegin i =>
      match f_ls st i, nth_error items i with
      | LIdle, Some m =>
        match assoc_s (sfk m) (f_fl st) with
        | Some j => mkF (f_lru st) (f_fl st) (upd_ls (f_ls st) i (LWait j))           (* waits for the call in flight *)
        | None =>
          match assoc_s (lruk m) (f_lru st) with
          | Some r => mkF (f_lru st) (f_fl st) (upd_ls (f_ls st) i (LDone r))          (* cache hit *)
          | None => mkF (f_lru st) ((sfk m, i) :: f_fl st) (upd_ls (f_ls st) i LLeader) (* converts *)
          end
        end
      | _, _ => st
      end
    | FFinish i =>
      match f_ls st i, nth_error items i with
      | LLeader, Some m =>
        mkF ((lruk m, m) :: f_lru st)
            (filter (fun e : str * nat => negb (Nat.eqb (snd e) i)) (f_fl st))
            (fun x => if Nat.eqb x i then LDone m
                      else match f_ls st x with
                           | LWait j => if Nat.eqb j i then LDone m else LWait j
                           | s => s
                           end)
      | _, _ => st
      end
    end.

  Definition frun (evs : list fev) : fstate := fold_left fstep evs finit.
End Flight.

Definition lstate_code (s : lstate) : N := match s with LIdle => 0 | LLeader => 1 | LWait _ => 2 | LDone _ => 3 end.

(* an injective, prefix-free stand-in for strconv.Quote (a double quote, the length in unary, a 0, the text) *)
Definition uquote_m (s : str) : str := dquote :: repeat 1 (length s) ++ 0 :: s.
Definition flight_key (m : matcher) : str := matcher_cache_key uquote_m true m.

Fixpoint codes_go (sfk lruk : matcher -> str) (items : list matcher) (st : fstate) (evs : list fev) : list N :=
  match evs with
  | [] => []
  | e :: r => let st' := fstep sfk lruk items st e in
              lstate_code (f_ls st' (match e with FBegin i | FFinish i => i end)) :: codes_go sfk lruk items st' r
  end.
Definition flight_codes sfk lruk items evs : list N := codes_go sfk lruk items finit evs.

Definition flight_results sfk lruk (items : list matcher) (evs : list fev) : list (option matcher) :=
  map (fun i => match f_ls (frun sfk lruk items evs) i with LDone r => Some r | _ => None end) (seq 0 (length items)).

(* ---- cases --------------------------------------------------------------------- *)

Inductive case :=
(* two items, the key strings the real code computed for them, and the values of
   blake2b+base64, strconv.Quote and strconv.FormatUint on the strings involved *)
| CPair (i1 i2 : item) (k1 k2 : str) (oH oQ : list (str * str)) (oD : list (N * str))
(* concurrent lookups on one real LruMatchersCache: the items; the schedule (a conversion parks
   inside newItem until its FFinish); after each event the state of the lookup it concerns
   (1 converting, 2 waiting for a call in flight, 3 returned); the matcher each lookup returned *)
| CFlight (items : list matcher) (evs : list fev) (codes : list N) (results : list (option matcher)).

Definition model_key (oH oQ : list (str * str)) (oD : list (N * str)) (i : item) : str :=
  key_of (lookup_s oH) (lookup_s oQ) (lookup_n oD) true i.

Definition corr_ok (c : case) : bool :=
  match c with
  | CPair i1 i2 k1 k2 oH oQ oD => str_eqb (model_key oH oQ oD i1) k1 && str_eqb (model_key oH oQ oD i2) k2
  | CFlight items evs codes results =>
    (* any injective key gives the same behaviour (theorem C13_inflight_own_item): the model is run with
       the key of the fixed cacheKey under an injective stand-in for strconv.Quote *)
    let k := flight_key in
    list_eqb N.eqb (flight_codes k k items evs) codes &&
    list_eqb (option_eqb matcher_eqb) (flight_results k k items evs) results
  end.

(* different items of one cache never share a key *)
Definition pred_ok (c : case) : bool :=
  match c with
  | CPair i1 i2 k1 k2 _ _ _ =>
    if same_cache i1 i2 && negb (item_eqb i1 i2) then negb (str_eqb k1 k2) else true
  | CFlight items _ _ results =>
    (* every lookup that returned got the matcher of ITS item *)
    list_eqb (option_eqb matcher_eqb) results
             (map (fun p : matcher * option matcher => match snd p with Some _ => Some (fst p) | None => None end)
                  (combine items results))
    && Nat.eqb (length results) (length items)
  end.
