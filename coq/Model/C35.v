(* C35 — The shipper uploads every eligible block completely, at least once.
   Model of Shipper.Sync / Shipper.upload (pkg/shipper/shipper.go) on top of the
   block.upload model of Lib/Crash_Block.v: local block directories, the shipper
   meta file (thanos.shipper.json), the bucket; every bucket operation (reads
   included) can be the crash point or fail once. A scenario is a sequence of
   syncs with fresh Shipper objects on the same directory and bucket.
   Executable definitions only. *)
From Coq Require Import ZArith NArith List Bool String.
Import ListNotations.
From Verif Require Import Lib.Corr Lib.Crash_Store Lib.Crash_Block Gen.C35.

(* ---- tie T ---- *)
Definition ev_eqb (a b : string * string) : bool :=
  String.eqb (fst a) (fst b) && String.eqb (snd a) (snd b).

Definition cls_upload (e : string * string) : option uphase :=
  if ev_eqb e ("objstore.UploadDir", "path.Join(id.String(), ChunksDirname)")%string then Some PChunks
  else if ev_eqb e ("objstore.UploadFile", "path.Join(id.String(), IndexFilename)")%string then Some PIndex
  else if ev_eqb e ("bkt.Upload", "path.Join(id.String(), MetaFilename)")%string then Some PMeta
  else None.

(* the control skeleton of Shipper.Sync and the calls of Shipper.upload that
   [sync_loop] below was written against *)
Definition sync_skeleton_expected : list (string * string) :=
  [("call", "ReadMetaFile"); ("if", "err != nil"); ("if", "errors.Is(err, fs.ErrNotExist)"); ("else", ""); ("endif", ""); ("endif", "");
   ("for", "range"); ("endfor", "");
   ("call", "s.blockMetasFromOldest");
   ("if", "err != nil && (!errors.Is(errors.Cause(err), ErrorSyncBlockCorrupted) || !s.skipCorruptedBlocks)");
   ("return", "0, err"); ("endif", "");
   ("for", "range");
   ("if", "uploaded"); ("call", "append"); ("endif", "");
   ("if", "m.Stats.NumSamples == 0"); ("endif", "");
   ("if", "m.Compaction.Level > 1"); ("if", "!s.uploadCompacted"); ("endif", ""); ("endif", "");
   ("call", "s.bucket.Exists");
   ("if", "err != nil"); ("return", "uploaded, errors.Wrap(err, ""check exists"")"); ("endif", "");
   ("if", "ok"); ("call", "append"); ("endif", "");
   ("if", "m.Compaction.Level > 1 && !s.allowOutOfOrderUploads");
   ("call", "checker.IsOverlapping"); ("if", "err != nil");
   ("return", "uploaded, errors.Errorf(""Found overlap or error during sync, cannot upload compacted block, details: %v"", err)");
   ("endif", ""); ("endif", "");
   ("call", "s.upload"); ("if", "err != nil"); ("if", "!s.allowOutOfOrderUploads");
   ("return", "uploaded, errors.Wrapf(err, ""upload %v"", m.ULID)"); ("endif", ""); ("endif", "");
   ("call", "append");
   ("endfor", "");
   ("call", "WriteMetaFile"); ("if", "err != nil"); ("endif", "");
   ("if", "uploadErrs > 0 || len(failedBlocks) > 0");
   ("return", "uploaded, errors.Errorf(""failed to sync %v/%v blocks"", uploadErrs, len(failedBlocks))"); ("endif", "");
   ("if", "s.uploadCompacted"); ("else", ""); ("endif", "");
   ("return", "uploaded, nil")]%string.

Definition shipper_upload_expected : list (string * string) :=
  [("s.dir.RemoveAll", "updir"); ("s.dir.MkdirAll", "updir"); ("s.dir.RemoveAll", "updir");
   ("hardlinkBlock", "dir"); ("s.labels", ""); ("meta.WriteToDir", "absUpdir"); ("block.Upload", "absUpdir")]%string.

(* the external labels are read at upload time: New stores the owner's callback itself in
   Shipper.labels and Shipper.upload calls it (so [c_lbl], the labels current at the sync, is
   what goes into the uploaded meta.json) *)
Definition sync_shape_ok : bool :=
  list_eqb ev_eqb sync_skeleton sync_skeleton_expected
  && list_eqb ev_eqb shipper_upload_calls shipper_upload_expected
  && String.eqb new_labels_field "options.lbls"
  && String.eqb upload_lset_rhs "s.labels()".

Definition upload_phases : option (list uphase) :=
  if sync_shape_ok then all_some (map cls_upload upload_calls) else None.

(* ---- local blocks ---- *)
(* what the shipper reads from the local meta.json: has samples, compaction level, time range *)
Record linfo := mklinfo { l_nonempty : bool; l_level : N; l_mint : Z; l_maxt : Z }.
Definition locals := list (N * linfo).

Fixpoint linfo_of (L : locals) (id : N) : option linfo :=
  match L with [] => None | (i, x) :: r => if N.eqb id i then Some x else linfo_of r id end.

(* blockMetasFromOldest: sort.Slice by MinTime (min times are distinct in generated inputs) *)
Fixpoint insert_by (L : locals) (id : N) (l : list N) : list N :=
  match l with
  | [] => [id]
  | j :: r =>
      let t x := match linfo_of L x with Some i => l_mint i | None => 0%Z end in
      if Z.leb (t id) (t j) then id :: j :: r else j :: insert_by L id r
  end.
Definition sort_blocks (L : locals) (ids : list N) : list N := fold_right (insert_by L) [] ids.

(* ---- faults: every bucket operation (Exists and uploads) has an index ---- *)
Inductive fault := NoFault | CrashAt (k : nat) | FailAt (k : nat).
Inductive tickres := OpOk | OpFail | OpCrash.
Definition tick (f : fault) (n : nat) : tickres :=
  match f with
  | CrashAt k => if Nat.eqb k n then OpCrash else OpOk
  | FailAt k => if Nat.eqb k n then OpFail else OpOk
  | NoFault => OpOk
  end.

Inductive ures := UDone | UFailed | UCrashed.

(* issue the mutating operations of one block.Upload *)
Fixpoint run_ups (f : fault) (n : nat) (b : bucket) (done : list bop) (l : list bop)
  : bucket * nat * list bop * ures :=
  match l with
  | [] => (b, n, done, UDone)
  | o :: r =>
      match tick f n with
      | OpCrash => (b, n, done, UCrashed)
      | OpFail => (b, S n, done, UFailed)          (* the failed call has no effect; upload returns the error *)
      | OpOk => run_ups f (S n) (bapply b o) (done ++ [o]) r
      end
  end.

(* ---- lazyOverlapChecker: compacted blocks are shipped only when they overlap nothing ---- *)
Definition dedupN (l : list N) : list N :=
  fold_right (fun x acc => if memN x acc then acc else x :: acc) [] l.

(* top-level "directories" of the bucket, as Bucket.Iter("") lists them *)
Definition block_dirs (b : bucket) : list N := dedupN (map (fun kv => fst (fst kv)) b).

Inductive ckres := CkOk (n : nat) (metas : list (Z * Z)) | CkStop.

(* lazyOverlapChecker.sync after the Iter call: one Get(meta.json) per block directory; a
   directory without meta.json - a partial upload, e.g. left by a crashed sync - is ignored
   (fix C35: it used to fail the whole Sync); an unparseable meta.json is an error; blocks
   with other external labels are skipped *)
Fixpoint checker_gets (f : fault) (L : locals) (lbl : option N) (b : bucket) (n : nat)
         (dirs : list N) (acc : list (Z * Z)) : ckres :=
  match dirs with
  | [] => CkOk n acc
  | d :: r =>
      match tick f n with
      | OpOk =>
          match bget b (d, FMeta), linfo_of L d with
          | Some (MetaO _ _ l), Some i =>
              let same := match lbl with Some l' => N.eqb l l' | None => false end in
              checker_gets f L lbl b (S n) r (if same then acc ++ [(l_mint i, l_maxt i)] else acc)
          | None, _ => checker_gets f L lbl b (S n) r acc     (* partial upload: not a block yet, ignored *)
          | _, _ => CkStop
          end
      | _ => CkStop
      end
  end.

(* tsdb.OverlappingBlocks on blocks with non-empty time ranges: some two ranges intersect *)
Definition ranges_meet (a c : Z * Z) : bool := Z.ltb (fst a) (snd c) && Z.ltb (fst c) (snd a).
Fixpoint overlaps (l : list (Z * Z)) : bool :=
  match l with
  | [] => false
  | a :: r => existsb (ranges_meet a) r || overlaps r
  end.

Inductive gate := GStop | GGo (n : nat) (ck : option (list (Z * Z))).

Record cfg := mkcfg {
  c_present : list N;        (* block directories in the TSDB dir at this sync *)
  c_uc : bool;               (* uploadCompacted *)
  c_ooo : bool;              (* allowOutOfOrderUploads *)
  c_lbl : option N;          (* external labels of the shipper (None: empty) *)
  c_fault : fault;
  c_cids : list N;           (* oracle: content ids of the meta.json files this sync uploads, in order *)
  c_skip : bool;             (* skipCorruptedBlocks *)
  c_corrupt : list N;        (* block directories whose local meta.json cannot be read *)
  c_conc : bool;             (* upload concurrency > 1: the chunk files of a block are uploaded in any order *)
  c_orders : list (list N)   (* oracle: per attempted upload, the order in which the chunk files went out *)
}.

(* the overlap check of Sync: skipped for level-1 blocks and with out-of-order uploads; the
   bucket is listed once per Sync (ck caches the result); GStop: Sync returns an error (or the
   process died) without further bucket mutation *)
Definition overlap_gate (L : locals) (c : cfg) (b : bucket) (n : nat) (ck : option (list (Z * Z))) (i : linfo) : gate :=
  if N.leb (l_level i) 1 || c_ooo c then GGo n ck
  else
    let r := match ck with
             | Some m => CkOk n m
             | None =>
                 match tick (c_fault c) n with          (* Bucket.Iter("") *)
                 | OpOk => checker_gets (c_fault c) L (c_lbl c) b (S n) (block_dirs b) []
                 | _ => CkStop
                 end
             end in
    match r with
    | CkOk n' m => if overlaps ((l_mint i, l_maxt i) :: m) then GStop else GGo n' (Some m)
    | CkStop => GStop
    end.

Record sres := mksres {
  r_bucket : bucket;
  r_ops : list bop;                 (* mutating operations that took effect *)
  r_meta : option (list N);         (* Some: the meta file was written with this list; None: left as it was *)
  r_ret : bool                      (* Sync returned nil *)
}.

Definition eligible (c : cfg) (i : linfo) : bool :=
  l_nonempty i && (N.leb (l_level i) 1 || c_uc c).

(* the for-loop of Sync. None: unknown block / bad order oracle. *)
Fixpoint sync_loop (ph : list uphase) (U : univ) (L : locals) (c : cfg) (has : list N)
         (blocks : list N) (b : bucket) (n : nat) (ops : list bop) (up : list N) (errs : nat)
         (cids : list N) (ck : option (list (Z * Z))) (ords : list (list N)) : option sres :=
  match blocks with
  | [] =>
      match tick (c_fault c) n with
      | OpCrash => Some (mksres b ops None false)        (* died before WriteMetaFile *)
      | _ => Some (mksres b ops (Some up) (Nat.eqb errs 0))
      end
  | id :: r =>
      match linfo_of L id, ublock U id with
      | Some i, Some bl =>
          if memN id has then sync_loop ph U L c has r b n ops (up ++ [id]) errs cids ck ords
          else if negb (l_nonempty i) then sync_loop ph U L c has r b n ops up errs cids ck ords
          else if negb (N.leb (l_level i) 1) && negb (c_uc c) then sync_loop ph U L c has r b n ops up errs cids ck ords
          else
            match tick (c_fault c) n with          (* s.bucket.Exists(meta.json) *)
            | OpCrash => Some (mksres b ops None false)
            | OpFail => Some (mksres b ops None false)
            | OpOk =>
                if bhas b (id, FMeta) then sync_loop ph U L c has r b (S n) ops (up ++ [id]) errs cids ck ords
                else
                  match overlap_gate L c b (S n) ck i with
                  | GStop => Some (mksres b ops None false)
                  | GGo n1 ck' =>
                  match c_lbl c with
                  | None =>          (* block.Upload refuses empty external labels before any bucket call *)
                      if c_ooo c then sync_loop ph U L c has r b n1 ops up (S errs) cids ck' ords
                      else Some (mksres b ops None false)
                  | Some lbl =>
                      let cid := hd 0%N cids in
                      (* with upload concurrency the chunk files go out in any order; a failing
                         operation then leaves the other in-flight uploads undetermined: not modelled *)
                      let order := if c_conc c then hd (map fst (b_chunks bl)) ords else map fst (b_chunks bl) in
                      if c_conc c && (match c_fault c with FailAt _ => true | _ => false end) then None else
                      match upload_ops ph U id order cid lbl with
                      | None => None
                      | Some l =>
                          match run_ups (c_fault c) n1 b [] l with
                          | (b', n', done, UDone) =>
                              sync_loop ph U L c has r b' n' (ops ++ done) (up ++ [id]) errs (tl cids) ck' (tl ords)
                          | (b', n', done, UFailed) =>
                              if c_ooo c then sync_loop ph U L c has r b' n' (ops ++ done) up (S errs) cids ck' ords
                              else Some (mksres b' (ops ++ done) None false)
                          | (b', n', done, UCrashed) => Some (mksres b' (ops ++ done) None false)
                          end
                      end
                  end
                  end
            end
      | _, _ => None
      end
  end.

Definition sync (U : univ) (L : locals) (c : cfg) (mf : option (list N)) (b : bucket) : option sres :=
  match upload_phases with
  | None => None
  | Some ph =>
      let has := match mf with Some l => l | None => [] end in
      (* blockMetasFromOldest: an unreadable local meta.json ends the Sync at once, unless
         skipCorruptedBlocks: then the block is left out and the Sync returns an error at the end *)
      if (match c_corrupt c with [] => false | _ => true end) && negb (c_skip c)
      then Some (mksres b [] None false)
      else sync_loop ph U L c has
             (sort_blocks L (filter (fun id => negb (memN id (c_corrupt c))) (c_present c)))
             b 0 [] [] (List.length (c_corrupt c)) (c_cids c) None (c_orders c)
  end.

(* ---- cases ---- *)
(* one sync: configuration; observed: returned nil, mutating ops, bucket after each, meta file afterwards *)
Definition step := (cfg * bool * list bop * list bucket * option (list N))%type.
Definition mkstep (c : cfg) (ret : bool) (ops : list bop) (snaps : list bucket) (mf : option (list N)) : step :=
  (c, ret, ops, snaps, mf).
Definition ublk (id : N) (b : blk) : N * blk := (id, b).
Definition lblk (id : N) (i : linfo) : N * linfo := (id, i).

Inductive case := CSync (U : univ) (L : locals) (steps : list step).

Definition nlist_eqb : list N -> list N -> bool := list_eqb N.eqb.

Definition state := (bucket * option (list N))%type.

Definition corr_step (U : univ) (L : locals) (st : state) (s : step) : option state :=
  match s with
  | (c, ret, ops, snaps, mf) =>
      match sync U L c (snd st) (fst st) with
      | None => None
      | Some r =>
          let mf' := match r_meta r with Some l => Some l | None => snd st end in
          if list_eqb bop_eqb ops (r_ops r)
             && list_eqb bucket_eqb snaps (tl (bstates (fst st) (r_ops r)))
             && Bool.eqb ret (r_ret r)
             && option_eqb nlist_eqb mf mf'
          then Some (bapply_ops (fst st) (r_ops r), mf')
          else None
      end
  end.

Fixpoint corr_steps (U : univ) (L : locals) (st : state) (l : list step) : bool :=
  match l with
  | [] => true
  | s :: r => match corr_step U L st s with Some st' => corr_steps U L st' r | None => false end
  end.

Definition corr_ok (c : case) : bool :=
  match c with CSync U L steps => wf_univ_b U && corr_steps U L ([], None) steps end.

(* ---- the property on the implementation's own observables ---- *)
Definition meta_lbl_ok (lbl : option N) (o : bop) : bool :=
  match o with
  | Up (_, FMeta) (MetaO _ _ l) => match lbl with Some l' => N.eqb l l' | None => false end
  | Up (_, FMeta) (Blob _) => false
  | _ => true
  end.

Definition mf_list (mf : option (list N)) : list N := match mf with Some l => l | None => [] end.

(* ---- no wedge: an undisturbed sync fails only for a reason that the operator can see ---- *)
(* time ranges of the visible blocks with the given external labels *)
Definition visible_ranges (L : locals) (b : bucket) (lbl : N) : list (Z * Z) :=
  flat_map (fun d => match bget b (d, FMeta), linfo_of L d with
                     | Some (MetaO _ _ l), Some i => if N.eqb l lbl then [(l_mint i, l_maxt i)] else []
                     | _, _ => []
                     end) (block_dirs b).

Definition is_nofault (f : fault) : bool := match f with NoFault => true | _ => false end.

(* a sync without fault and with external labels that returns an error must have a compacted
   block that is blocked by an overlap in the bucket (leftovers of crashed uploads are no reason) *)
Definition wedge_ok (L : locals) (c : cfg) (ret : bool) (post : bucket) : bool :=
  if is_nofault (c_fault c) && negb ret && (match c_corrupt c with [] => true | _ => false end) then
    match c_lbl c with
    | None => true
    | Some lbl =>
        existsb (fun id => match linfo_of L id with
                           | Some i => eligible c i && negb (N.leb (l_level i) 1) && negb (c_ooo c)
                                       && negb (bhas post (id, FMeta))
                                       && overlaps ((l_mint i, l_maxt i) :: visible_ranges L post lbl)
                           | None => false
                           end) (c_present c)
    end
  else true.

(* no two local blocks overlap in time *)
Fixpoint ranges_disjoint_b (L : locals) : bool :=
  match L with
  | [] => true
  | (_, i) :: r => forallb (fun q => negb (ranges_meet (l_mint i, l_maxt i) (l_mint (snd q), l_maxt (snd q)))) r
                   && ranges_disjoint_b r
  end.

(* [st]: the real bucket and meta file before the sync *)
Definition pred_step (L : locals) (st : state) (s : step) : bool * state :=
  match s with
  | (c, ret, ops, snaps, mf) =>
      let post := last snaps (fst st) in
      ((* C28 at every crash point of the sync *)
       forallb visible_complete_b snaps
       (* a sync that returned nil: every eligible local block is visible in the bucket
          (or was recorded as uploaded before this sync) *)
       && (if ret then
             forallb (fun id => match linfo_of L id with
                                | Some i => negb (eligible c i) || memN id (mf_list (snd st)) || bhas post (id, FMeta)
                                | None => true end) (c_present c)
           else true)
       (* never recorded as uploaded unless recorded before or seen in the bucket *)
       && forallb (fun id => memN id (mf_list (snd st)) || bhas post (id, FMeta)) (mf_list mf)
       (* uploaded with the current external labels *)
       && forallb (meta_lbl_ok (c_lbl c)) ops,
       (post, mf))
  end.

(* the same fold, for the no-wedge clause *)
Fixpoint wedge_steps (L : locals) (b : bucket) (l : list step) : bool :=
  match l with
  | [] => true
  | (c, ret, _, snaps, _) :: r =>
      let post := last snaps b in wedge_ok L c ret post && wedge_steps L post r
  end.

Fixpoint pred_steps (L : locals) (st : state) (l : list step) : bool :=
  match l with
  | [] => true
  | s :: r => let (ok, st') := pred_step L st s in ok && pred_steps L st' r
  end.

Definition pred_core (c : case) : bool :=
  match c with CSync _ L steps => pred_steps L ([], None) steps end.

Definition wedge_all (c : case) : bool :=
  match c with CSync _ L steps => wedge_steps L [] steps end.

Definition pred_ok (c : case) : bool := pred_core c && wedge_all c.
