(* C20 — Adding a node to a ketama ring (no availability zones) only moves series onto the new node.
   Two executable descriptions are used:
   * the shared loop-level model of newKetamaHashring/GetN (Lib/Hashring_Ketama.v), and
   * a two-line specification [spec_answers]: the first rf distinct endpoints met on
     the successor walk that starts at the first section with hash >= v.
   corr_ok requires the implementation's answers to equal BOTH. The theorems of
   Properties/C20.v are about the specification. *)
From Coq Require Import ZArith List Bool Arith Sorting.Mergesort Orders.
Import ListNotations.
From Verif Require Import Lib.Corr Lib.Hashring_Ketama Lib.Hashring_Answers Gen.C20.
Close Scope Z_scope.

(* first occurrences, in order *)
Fixpoint dedup (seen : list nat) (l : list nat) : list nat :=
  match l with
  | [] => []
  | x :: r => if existsb (Nat.eqb x) seen then dedup seen r else x :: dedup (x :: seen) r
  end.

(* the ring read cyclically from the first section with hash >= v
   (for a hash-sorted ring this is skipn i ring ++ firstn i ring with i = sort.Search, wrapping to 0) *)
Definition rot_v (ring : list section) (v : Z) : list section :=
  filter (fun s => (v <=? s_hash s)%Z) ring ++ filter (fun s => (s_hash s <? v)%Z) ring.

Definition spec_answers (ring : list section) (rf : nat) (v : Z) : list nat :=
  firstn rf (dedup [] (map s_ep (rot_v ring v))).

(* endpoints without zones: every endpoint is (0, hashes) *)
Definition nozone (hs : list (list Z)) : list (Z * list Z) := map (fun h => (0%Z, h)) hs.
Definition spec_ring (hs : list (list Z)) : list section := sort_sections (sections_of 0 (nozone hs)).

(* the configuration after adding endpoint [e] at position [p] of the list *)
Definition ins {A} (p : nat) (e : A) (l : list A) : list A := firstn p l ++ e :: skipn p l.
(* position of an old endpoint in the new list *)
Definition iota (p k : nat) : nat := if k <? p then k else S k.

(* ---- the ring inside the multi-hashring built by NewMultiHashring ----
   The ketama ring keeps the endpoint slice of the configuration and its sections
   refer to it by index. NewMultiHashring collects the nodes of all hashrings in
   m.nodes and finally sorts m.nodes by address. [copied] = m.nodes is a copy
   (read from the source: Gen.C20.nodes_copied); if it were the ring's own slice, the
   sort would reorder the ring's endpoints after the sections were built.
   Addresses are order-preserving integer ids. *)
Module AddrOrder <: TotalLeBool.
  Definition t := Z.
  Definition leb (a b : Z) : bool := (a <=? b)%Z.
  Theorem leb_total : forall a b, leb a b = true \/ leb b a = true.
  Proof. intros a b. unfold leb. destruct (Z.leb_spec a b); [now left|right]. apply Z.leb_le. apply Z.lt_le_incl. assumption. Qed.
End AddrOrder.
Module AddrSort := Sort AddrOrder.

(* the address stored at index i of the ring's endpoint slice once the constructor has returned *)
Definition ring_endpoint_gen (copied : bool) (addrs : list Z) (i : nat) : Z :=
  nth i (if copied then addrs else AddrSort.sort addrs) (-1)%Z.
Definition ring_endpoint := ring_endpoint_gen nodes_copied.

(* Hashring.GetN of the multi-hashring with a single ketama config, n = 0..rf-1, as addresses *)
Definition multi_getn_gen (copied : bool) (addrs : list Z) (eps : list (Z * list Z)) (rf : nat) (v : Z) : option (list Z) :=
  option_map (map (ring_endpoint_gen copied addrs)) (ketama_answers eps rf v).
Definition multi_getn := multi_getn_gen nodes_copied.

Fixpoint index_of_z (x : Z) (l : list Z) : nat :=
  match l with
  | [] => 0
  | y :: r => if (x =? y)%Z then 0 else S (index_of_z x r)
  end.
(* position in the configured endpoint list of the node answered for ring index i *)
Definition answered_pos (addrs : list Z) (i : nat) : nat := index_of_z (ring_endpoint addrs i) addrs.

Inductive case :=
| CAdd (hs : list (list Z))          (* old endpoints: ranks of their section hashes *)
       (p : nat) (e : list Z)        (* the added endpoint and its position in the new list *)
       (rf : nat)
       (qs : list (Z * list nat * list nat))
         (* per series: hash rank; GetN answers n = 0..rf-1 before (old positions) / after (new positions) *)
(* the same through the public NewMultiHashring (one ketama config, endpoint list in
   arbitrary order); additionally the address ids of the old endpoints and of the new one *)
| CAddM (addrs : list Z) (a_new : Z)
        (hs : list (list Z)) (p : nat) (e : list Z) (rf : nat)
        (qs : list (Z * list nat * list nat)).

Definition q_eqb (a b : list nat) := list_eqb Nat.eqb a b.

Definition loop_query (n rf : nat) (k : ketama_result) (v : Z) : option (list nat) :=
  match k with
  | KOk ring reps =>
      Some (map (fun x => match ketama_getn n ring reps v x with Some y => y | None => n end) (seq 0 rf))
  | _ => None
  end.

Definition loop_answers (hs : list (list Z)) (rf : nat) (v : Z) : option (list nat) :=
  loop_query (length hs) rf (ketama_new (nozone hs) rf) v.

Definition corr_ok (c : case) : bool :=
  match c with
  | CAdd hs p e rf qs =>
      let hs' := ins p e hs in
      (* the loop-level model is quadratic in the ring size; for rings of the real
         size (1000 sections per node) it is compared in C18/C19, here only the specification *)
      let small := length (concat hs') <=? 600 in
      let r := spec_ring hs in
      let r' := spec_ring hs' in
      let k := if small then ketama_new (nozone hs) rf else KErr in
      let k' := if small then ketama_new (nozone hs') rf else KErr in
      forallb (fun q =>
        match q with (v, a, a') =>
          q_eqb (spec_answers r rf v) a
          && q_eqb (spec_answers r' rf v) a'
          && (negb small ||
              option_eqb q_eqb (loop_query (length hs) rf k v) (Some a)
              && option_eqb q_eqb (loop_query (length hs') rf k' v) (Some a'))
        end) qs
  | CAddM addrs a_new hs p e rf qs =>
      let hs' := ins p e hs in
      let addrs' := ins p a_new addrs in
      let r := spec_ring hs in
      let r' := spec_ring hs' in
      forallb (fun q =>
        match q with (v, a, a') =>
          q_eqb (map (answered_pos addrs) (spec_answers r rf v)) a
          && q_eqb (map (answered_pos addrs') (spec_answers r' rf v)) a'
        end) qs
  end.

Definition mem (x : nat) (l : list nat) : bool := existsb (Nat.eqb x) l.

(* the property on the implementation's own answers:
   - every replica after the change is the new node or was a replica before;
   - at most one old replica lost its place;
   - if the new node is not a replica, nothing changed at all (same order). *)
Definition only_onto_new_gen (p : nat) (f : nat -> nat) (a a' : list nat) : bool :=
  forallb (fun x => (x =? p) || mem x (map f a)) a'
  && (length (filter (fun y => negb (mem (f y) a')) a) <=? 1)
  && (mem p a' || q_eqb a' (map f a)).
Definition only_onto_new (p : nat) (a a' : list nat) : bool := only_onto_new_gen p (iota p) a a'.

Definition pred_ok (c : case) : bool :=
  match c with
  | CAdd hs p e rf qs => forallb (fun q => match q with (_, a, a') => only_onto_new p a a' end) qs
  | CAddM _ _ hs p e rf qs => forallb (fun q => match q with (_, a, a') => only_onto_new p a a' end) qs
  end.
