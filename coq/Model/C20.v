(* C20 — Adding a node to a ketama ring (no availability zones) only moves series onto the new node.
   Two executable descriptions are used:
   * the shared loop-level model of newKetamaHashring/GetN (Lib/Hashring_Ketama.v), and
   * a two-line specification [spec_answers]: the first rf distinct endpoints met on
     the successor walk that starts at the first section with hash >= v.
   corr_ok requires the implementation's answers to equal BOTH. The theorems of
   Properties/C20.v are about the specification. *)
From Coq Require Import ZArith List Bool Arith.
Import ListNotations.
From Verif Require Import Lib.Corr Lib.Hashring_Ketama Gen.C20.
Close Scope Z_scope.

(* first occurrences, in order *)
Fixpoint dedup (seen : list nat) (l : list nat) : list nat :=
  match l with
  | [] => []
  | x :: r => if existsb (Nat.eqb x) seen then dedup seen r else x :: dedup (x :: seen) r
  end.

(* the ring read cyclically from the first section with hash >= v
   (for a hash-sorted ring this is skipn i ring ++ firstn i ring with i = sort.Search, wrapping to 0) *)
Definition rot_v (ring : list section) (v : Z) : list section :=
  filter (fun s => (v <=? s_hash s)%Z) ring ++ filter (fun s => (s_hash s <? v)%Z) ring.

Definition spec_answers (ring : list section) (rf : nat) (v : Z) : list nat :=
  firstn rf (dedup [] (map s_ep (rot_v ring v))).

(* endpoints without zones: every endpoint is (0, hashes) *)
Definition nozone (hs : list (list Z)) : list (Z * list Z) := map (fun h => (0%Z, h)) hs.
Definition spec_ring (hs : list (list Z)) : list section := sort_sections (sections_of 0 (nozone hs)).

(* the configuration after adding endpoint [e] at position [p] of the list *)
Definition ins {A} (p : nat) (e : A) (l : list A) : list A := firstn p l ++ e :: skipn p l.
(* position of an old endpoint in the new list *)
Definition iota (p k : nat) : nat := if k <? p then k else S k.

Inductive case :=
| CAdd (hs : list (list Z))          (* old endpoints: ranks of their section hashes *)
       (p : nat) (e : list Z)        (* the added endpoint and its position in the new list *)
       (rf : nat)
       (qs : list (Z * list nat * list nat)).
         (* per series: hash rank; GetN answers n = 0..rf-1 before (old positions) / after (new positions) *)

Definition q_eqb (a b : list nat) := list_eqb Nat.eqb a b.

Definition loop_query (n rf : nat) (k : ketama_result) (v : Z) : option (list nat) :=
  match k with
  | KOk ring reps =>
      Some (map (fun x => match ketama_getn n ring reps v x with Some y => y | None => n end) (seq 0 rf))
  | _ => None
  end.

Definition loop_answers (hs : list (list Z)) (rf : nat) (v : Z) : option (list nat) :=
  loop_query (length hs) rf (ketama_new (nozone hs) rf) v.

Definition corr_ok (c : case) : bool :=
  match c with
  | CAdd hs p e rf qs =>
      let hs' := ins p e hs in
      (* the loop-level model is quadratic in the ring size; for rings of the real
         size (1000 sections per node) it is compared in C18/C19, here only the specification *)
      let small := length (concat hs') <=? 600 in
      let r := spec_ring hs in
      let r' := spec_ring hs' in
      let k := if small then ketama_new (nozone hs) rf else KErr in
      let k' := if small then ketama_new (nozone hs') rf else KErr in
      forallb (fun q =>
        match q with (v, a, a') =>
          q_eqb (spec_answers r rf v) a
          && q_eqb (spec_answers r' rf v) a'
          && (negb small ||
              option_eqb q_eqb (loop_query (length hs) rf k v) (Some a)
              && option_eqb q_eqb (loop_query (length hs') rf k' v) (Some a'))
        end) qs
  end.

Definition mem (x : nat) (l : list nat) : bool := existsb (Nat.eqb x) l.

(* the property on the implementation's own answers:
   - every replica after the change is the new node or was a replica before;
   - at most one old replica lost its place;
   - if the new node is not a replica, nothing changed at all (same order). *)
Definition only_onto_new_gen (p : nat) (f : nat -> nat) (a a' : list nat) : bool :=
  forallb (fun x => (x =? p) || mem x (map f a)) a'
  && (length (filter (fun y => negb (mem (f y) a')) a) <=? 1)
  && (mem p a' || q_eqb a' (map f a)).
Definition only_onto_new (p : nat) (a a' : list nat) : bool := only_onto_new_gen p (iota p) a a'.

Definition pred_ok (c : case) : bool :=
  match c with
  | CAdd hs p e rf qs => forallb (fun q => match q with (_, a, a') => only_onto_new p a a' end) qs
  end.
