(* C48 — model of pkg/compactv2/modifiers.go: DeletionModifier
   (delModifierSeriesSet.Next, delGenericSeriesIterator.next,
   delChunkSeriesIterator.Next) together with the two TSDB helpers they lean on,
   tombstones.Intervals.Add and tsdb.DeletedIterator.Next, as they are written.
   Executable definitions only.

   External function: [re pat v], the anchored regular-expression match of
   labels.Matcher; its values are supplied per case by the harness.
   Sample values are integers (the generator uses integer-valued floats). *)
From Coq Require Import NArith ZArith List Bool.
Import ListNotations.
From Verif Require Import Lib.Corr Lib.Misc_Cmp Gen.C48.
Open Scope Z_scope.

Definition label := (str * str)%type.
Definition labels := list label.
Record matcher := Matcher { m_type : N; m_name : str; m_value : str }.

Definition interval := (Z * Z)%type.             (* closed [Mint, Maxt] *)
Definition sample := (Z * Z)%type.               (* (t, v) *)
Definition chunk := list sample.                 (* non-empty, t strictly increasing *)
Definition request := (list matcher * list interval)%type.
Definition series := (labels * list chunk)%type.

(* Interval.InBounds *)
Definition inb (i : interval) (t : Z) : bool := (fst i <=? t) && (t <=? snd i).
Definition covered (ivs : list interval) (t : Z) : bool := existsb (fun i => inb i t) ivs.

(* ---- tombstones.Intervals.Add on a sorted list ----
   mini = first index with in[i].Maxt >= n.Mint-1; maxi = number of intervals
   from there whose Mint <= n.Maxt+1; they are replaced by one interval
   [min(n.Mint, in[mini].Mint), max(n.Maxt, in[mini+maxi-1].Maxt)]. *)
Fixpoint absorb (y hi : Z) (l : list interval) : Z * list interval :=
  match l with
  | [] => (hi, [])
  | (a, b) :: r => if a >? y + 1 then (hi, l) else absorb y b r
  end.

Fixpoint add_go (x y : Z) (l : list interval) : list interval :=
  match l with
  | [] => [(x, y)]
  | (a, b) :: r =>
    if b <? x - 1 then (a, b) :: add_go x y r
    else if a >? y + 1 then (x, y) :: l
    else let (hi, rest) := absorb y b r in (Z.min x a, Z.max y hi) :: rest
  end.

Definition add_iv (i : interval) (l : list interval) : list interval := add_go (fst i) (snd i) l.

Section Model.
  Variable re : str -> str -> bool.

  Fixpoint lget (ls : labels) (n : str) : str :=
    match ls with
    | [] => []
    | (k, v) :: ls' => if str_eqb k n then v else lget ls' n
    end.

  Definition matcher_ok (m : matcher) (v : str) : bool :=
    match m_type m with
    | 0%N => str_eqb v (m_value m)
    | 1%N => negb (str_eqb v (m_value m))
    | 2%N => re (m_value m) v
    | _ => negb (re (m_value m) v)
    end.

  (* the loop over deletions.Matchers: `if v == "" || !m.Matches(v) { continue DeletionsLoop }` *)
  Fixpoint req_applies (ms : list matcher) (ls : labels) : bool :=
    match ms with
    | [] => true
    | m :: ms' =>
      let v := lget ls (m_name m) in
      if str_eqb v [] || negb (matcher_ok m v) then false else req_applies ms' ls
    end.

  (* DeletionsLoop; None = the whole series is deleted (continue SeriesLoop) *)
  Fixpoint del_loop (reqs : list request) (ls : labels) (acc : list interval) : option (list interval) :=
    match reqs with
    | [] => Some acc
    | (ms, ivs) :: rest =>
      if req_applies ms ls then
        match ivs with
        | [] => None
        | _ => del_loop rest ls (fold_left (fun a i => add_iv i a) ivs acc)
        end
      else del_loop rest ls acc
    end.
End Model.

(* ---- chunks ---- *)

Definition cmin (c : chunk) : Z := match c with [] => 0 | s :: _ => fst s end.
Definition cmax (c : chunk) : Z := fst (last c (0, 0)).

(* Interval.IsSubrange *)
Definition is_subrange (mn mx : Z) (ivs : list interval) : bool :=
  existsb (fun r => inb r mn && inb r mx) ivs.

(* Meta.OverlapsClosedInterval *)
Definition overlaps (mn mx : Z) (i : interval) : bool := (mn <=? snd i) && (fst i <=? mx).

(* the intervals copied into bufIter.Intervals for one chunk *)
Definition buf_intervals (mn mx : Z) (ivs : list interval) : list interval :=
  fold_left (fun a i => if overlaps mn mx i then add_iv i a else a) ivs [].

(* tsdb.DeletedIterator.Next for one sample timestamp: (emit?, remaining it.Intervals) *)
Fixpoint di_sample (ivs : list interval) (ts : Z) : bool * list interval :=
  match ivs with
  | [] => (true, [])
  | tr :: rest =>
    if inb tr ts then (false, ivs)
    else if ts <=? snd tr then (true, ivs)
    else di_sample rest ts
  end.

Fixpoint di (ivs : list interval) (c : chunk) : chunk :=
  match c with
  | [] => []
  | s :: r =>
    let (keep, ivs') := di_sample ivs (fst s) in
    if keep then s :: di ivs' r else di ivs' r
  end.

(* an output chunk: Meta.MinTime, Meta.MaxTime and the samples *)
Definition ochunk := (Z * Z * chunk)%type.

Inductive step_result :=
| Dropped                   (* chunk is a sub-range of one interval: `continue` *)
| Emptied                   (* re-encoding found no sample left *)
| Out (o : ochunk).

Definition chunk_step (ivs : list interval) (c : chunk) : step_result :=
  let mn := cmin c in
  let mx := cmax c in
  if is_subrange mn mx ivs then Dropped
  else
    match buf_intervals mn mx ivs with
    | [] => Out (mn, mx, c)                       (* currDelIter == nil: chunk passed through *)
    | buf =>
      match di buf c with
      | [] => Emptied
      | s :: r => Out (fst s, cmax (s :: r), s :: r)  (* re-encoded: MinTime/MaxTime of what is left *)
      end
    end.

(* delChunkSeriesIterator over the chunks of one series, after the repair: an
   emptied chunk is skipped *)
Fixpoint series_chunks (ivs : list interval) (cs : list chunk) : list ochunk :=
  match cs with
  | [] => []
  | c :: r =>
    match chunk_step ivs c with
    | Out o => o :: series_chunks ivs r
    | _ => series_chunks ivs r
    end
  end.

(* before the repair: an emptied chunk ended the series without an error *)
Fixpoint series_chunks_unfixed (ivs : list interval) (cs : list chunk) : list ochunk :=
  match cs with
  | [] => []
  | c :: r =>
    match chunk_step ivs c with
    | Out o => o :: series_chunks_unfixed ivs r
    | Dropped => series_chunks_unfixed ivs r
    | Emptied => []
    end
  end.

(* delModifierSeriesSet: SeriesLoop *)
Definition rewrite_with (f : list interval -> list chunk -> list ochunk)
           (re : str -> str -> bool) (reqs : list request) (ss : list series)
  : list (labels * list ochunk) :=
  flat_map (fun s =>
    match del_loop re reqs (fst s) [] with
    | None => []
    | Some ivs => [(fst s, f ivs (snd s))]
    end) ss.

Definition rewrite := rewrite_with series_chunks.
Definition rewrite_unfixed := rewrite_with series_chunks_unfixed.

(* ---- specification ---- *)

Section Spec.
  Variable re : str -> str -> bool.

  (* requests that apply to a series: every matcher names a label the series
     carries (non-empty value) and matches it *)
  Definition applying (reqs : list request) (ls : labels) : list request :=
    filter (fun r => req_applies re (fst r) ls) reqs.

  Definition whole_deleted (reqs : list request) (ls : labels) : bool :=
    existsb (fun r => match snd r with [] => true | _ => false end) (applying reqs ls).

  Definition spec_intervals (reqs : list request) (ls : labels) : list interval :=
    concat (map snd (applying reqs ls)).

  Definition spec_samples (reqs : list request) (s : series) : list sample :=
    filter (fun sm => negb (covered (spec_intervals reqs (fst s)) (fst sm))) (concat (snd s)).
End Spec.

(* ---- cases ---- *)

Definition re_tab := list ((str * str) * bool).

Fixpoint re_of (t : re_tab) (p v : str) : bool :=
  match t with
  | [] => false
  | ((p', v'), b) :: t' => if str_eqb p p' && str_eqb v v' then b else re_of t' p v
  end.

Inductive case :=
(* DeletionModifier.Modify on in-memory chunk series *)
| CDel (reqs : list request) (rt : re_tab) (ss : list series)
       (out : list (labels * list ochunk)) (failed : bool)
(* Compactor.WriteSeries with the deletion modifier from a real block into a new
   block, read back from disk: series left without chunks are not written *)
| CBlock (reqs : list request) (rt : re_tab) (ss : list series)
         (out : list (labels * list ochunk)) (failed : bool).

Definition has_chunks (o : labels * list ochunk) : bool :=
  match snd o with [] => false | _ => true end.

Definition label_eqb (a b : label) : bool := str_eqb (fst a) (fst b) && str_eqb (snd a) (snd b).
Definition labels_eqb : labels -> labels -> bool := list_eqb label_eqb.
Definition sample_eqb (a b : sample) : bool := (fst a =? fst b) && (snd a =? snd b).
Definition ochunk_eqb (a b : ochunk) : bool :=
  (fst (fst a) =? fst (fst b)) && (snd (fst a) =? snd (fst b)) && list_eqb sample_eqb (snd a) (snd b).
Definition oseries_eqb (a b : labels * list ochunk) : bool :=
  labels_eqb (fst a) (fst b) && list_eqb ochunk_eqb (snd a) (snd b).

Definition corr_ok (c : case) : bool :=
  match c with
  | CDel reqs rt ss out failed =>
      negb failed && list_eqb oseries_eqb (rewrite (re_of rt) reqs ss) out
  | CBlock reqs rt ss out failed =>
      negb failed && list_eqb oseries_eqb (filter has_chunks (rewrite (re_of rt) reqs ss)) out
  end.

(* ---- the property's predicate on the implementation's own observables ---- *)

Definition ochunk_wf (o : ochunk) : bool :=
  match snd o with
  | [] => false
  | s :: _ => (fst (fst o) =? fst s) && (snd (fst o) =? cmax (snd o))
  end.

(* output series in input order, one per series that is not wholly deleted, each
   with exactly the samples outside the requested intervals *)
Fixpoint exact (re : str -> str -> bool) (reqs : list request) (ss : list series)
         (out : list (labels * list ochunk)) : bool :=
  match ss with
  | [] => match out with [] => true | _ => false end
  | s :: ss' =>
    if whole_deleted re reqs (fst s) then exact re reqs ss' out
    else
      match out with
      | [] => false
      | o :: out' =>
        labels_eqb (fst s) (fst o)
        && list_eqb sample_eqb (concat (map snd (snd o))) (spec_samples re reqs s)
        && forallb ochunk_wf (snd o)
        && exact re reqs ss' out'
      end
  end.

(* the same for a block read back from disk: a series is present iff samples remain *)
Fixpoint exact_block (re : str -> str -> bool) (reqs : list request) (ss : list series)
         (out : list (labels * list ochunk)) : bool :=
  match ss with
  | [] => match out with [] => true | _ => false end
  | s :: ss' =>
    if whole_deleted re reqs (fst s) then exact_block re reqs ss' out
    else
      match spec_samples re reqs s with
      | [] => exact_block re reqs ss' out
      | _ =>
        match out with
        | [] => false
        | o :: out' =>
          labels_eqb (fst s) (fst o)
          && list_eqb sample_eqb (concat (map snd (snd o))) (spec_samples re reqs s)
          && forallb ochunk_wf (snd o)
          && exact_block re reqs ss' out'
        end
      end
  end.

Definition pred_ok (c : case) : bool :=
  match c with
  | CDel reqs rt ss out failed => negb failed && exact (re_of rt) reqs ss out
  | CBlock reqs rt ss out failed => negb failed && exact_block (re_of rt) reqs ss out
  end.
