(* C49 — model of pkg/cacheutil/jump_hash.go (jumpHash) and
   pkg/cacheutil/memcached_server_selector.go (SetServers / PickServer /
   PickServerForKeys), plus github.com/facette/natsort Compare and the
   insertion sort that sort.Sort runs on slices of at most 12 elements.
   Executable definitions only.

   External functions: the float64 expression of jumpHash
     j = int64(float64(b+1) * (float64(int64(1)<<31) / float64((key>>33)+1)))
   is a parameter [nextj b key]; xxhash is not modelled at all: keys carry
   their 64-bit hash. The harness supplies the values as data. The integer
   key update [key*2862933555777941757 + 1] is regenerated from the source
   (Gen.C49.jump_key_step). *)
From Coq Require Import NArith ZArith List Bool Floats Uint63.
Import ListNotations.
From Verif Require Import Lib.Corr Lib.Misc_Cmp Gen.C49.
Open Scope Z_scope.

Definition two64 : Z := 18446744073709551616.

Section Jump.
  Variable nextj : Z -> Z -> Z.

  (* `for j < int64(numBuckets) { b = j; key = key*C + 1; j = <float expr> }` *)
  Fixpoint jump_loop (fuel : nat) (b j key n : Z) : option Z :=
    match fuel with
    | O => None
    | S f =>
      if j <? n then
        let key' := (jump_key_step key) mod two64 in
        jump_loop f j (nextj j key') key' n
      else Some b
    end.

  (* enough iterations: j grows by at least one per iteration *)
  Definition jump (key n : Z) : option Z :=
    jump_loop (S (Z.to_nat n)) (-1) 0 key n.
End Jump.

(* ---- natsort.Compare ---- *)

Definition is_digit (c : N) : bool := (48 <=? c)%N && (c <=? 57)%N.

(* regexp (\d+|\D+) FindAllString: maximal runs of digits / non-digits *)
Fixpoint chunks (s : str) : list (bool * str) :=
  match s with
  | [] => []
  | c :: s' =>
    let d := is_digit c in
    match chunks s' with
    | (d', ch) :: rest => if Bool.eqb d d' then (d, c :: ch) :: rest else (d, [c]) :: (d', ch) :: rest
    | [] => [(d, [c])]
    end
  end.

Definition digits_val (s : str) : Z :=
  fold_left (fun acc c => acc * 10 + (Z.of_N c - 48)) s 0.

(* strconv.Atoi: succeeds on a run of digits whose value fits int64 *)
Definition atoi (ch : bool * str) : option Z :=
  if fst ch then
    let v := digits_val (snd ch) in
    if v <=? 9223372036854775807 then Some v else None
  else None.

Definition is_nil {A} (l : list A) : bool := match l with [] => true | _ => false end.

Fixpoint cmp_chunks (ca cb : list (bool * str)) : bool :=
  match ca with
  | [] => false
  | a :: ca' =>
    match cb with
    | [] => false                                   (* i >= nChunksB *)
    | b :: cb' =>
      match atoi a, atoi b with
      | Some x, Some y =>
        if x =? y then
          (if is_nil ca' then true else if is_nil cb' then false else cmp_chunks ca' cb')
        else x <? y
      | _, _ =>
        if str_eqb (snd a) (snd b) then
          (if is_nil ca' then true else if is_nil cb' then false else cmp_chunks ca' cb')
        else is_lt (str_cmp (snd a) (snd b))
      end
    end
  end.

Definition nat_less (a b : str) : bool := cmp_chunks (chunks a) (chunks b).

(* ---- sort.Sort on <= 12 elements: insertionSort ----
   [rp] is the already sorted prefix, reversed (last element first):
   `for j := i; j > a && Less(j, j-1); j-- { Swap(j, j-1) }` *)
Section Sort.
  Context {A : Type}.
  Variable less : A -> A -> bool.

  Fixpoint go_insert (x : A) (rp : list A) : list A :=
    match rp with
    | [] => [x]
    | y :: rp' => if less x y then y :: go_insert x rp' else x :: rp
    end.

  Definition go_isort (l : list A) : list A :=
    rev (fold_left (fun rp x => go_insert x rp) l []).
End Sort.

(* ---- the selector ---- *)

(* a cache key: its bytes and xxhash.Sum64String of them *)
Definition ckey := (str * Z)%type.

Section Selector.
  Variable nextj : Z -> Z -> Z.

  (* SetServers: natural sort of the listed servers *)
  Definition set_servers (servers : list str) : list str := go_isort nat_less servers.

  (* pickServerWithJumpHash: addrs[jumpHash(xxhash(key), len(addrs))] *)
  Definition pick_jump (addrs : list str) (k : ckey) : option str :=
    match jump nextj (snd k) (Z.of_nat (length addrs)) with
    | Some i => nth_error addrs (Z.to_nat i)
    | None => None
    end.

  (* PickServer; None = ErrNoServers (or an impossible index) *)
  Definition pick (addrs : list str) (k : ckey) : option str :=
    match addrs with
    | [] => None
    | [a] => Some a
    | _ => pick_jump addrs k
    end.

  (* the map of PickServerForKeys as an association list, in first-insertion order *)
  Fixpoint mget (m : list (str * list ckey)) (a : str) : list ckey :=
    match m with
    | [] => []
    | (a', ks) :: m' => if str_eqb a a' then ks else mget m' a
    end.

  Fixpoint mset (m : list (str * list ckey)) (a : str) (v : list ckey) : list (str * list ckey) :=
    match m with
    | [] => [(a, v)]
    | (a', ks) :: m' => if str_eqb a a' then (a', v) :: m' else (a', ks) :: mset m' a v
    end.

  (* `for _, key := range keys { picked := ...; m[picked] = append(m[picked], key) }` *)
  Definition batch_loop (addrs : list str) (keys : list ckey) : option (list (str * list ckey)) :=
    fold_left (fun om k =>
      match om, pick_jump addrs k with
      | Some m, Some a => Some (mset m a (mget m a ++ [k]))
      | _, _ => None
      end) keys (Some []).

  Definition pick_for_keys (addrs : list str) (keys : list ckey) : option (list (str * list ckey)) :=
    match addrs with
    | [] => None
    | [a] => Some [(a, keys)]
    | _ => batch_loop addrs keys
    end.
End Selector.

(* ---- "less is a strict total order on the listed servers" as a decidable test ---- *)
Definition strict_total_b (less : str -> str -> bool) (l : list str) : bool :=
  forallb (fun x => forallb (fun y =>
      str_eqb x y || Bool.eqb (less x y) (negb (less y x))) l) l
  && forallb (fun x => forallb (fun y => forallb (fun z =>
      negb (less x y && less y z) || less x z || str_eqb x y || str_eqb y z || str_eqb x z) l) l) l.

Fixpoint nodup_b (l : list str) : bool :=
  match l with
  | [] => true
  | x :: l' => negb (mem_str x l') && nodup_b l'
  end.

(* ---- cases ---- *)

Definition nj_tab := list ((Z * Z) * Z).

(* a (b, key) pair missing from the table gives -1, which stops the loop making no
   progress visible as a disagreement (fuel runs out) *)
Fixpoint nextj_of (t : nj_tab) (b key : Z) : Z :=
  match t with
  | [] => -1
  | ((b', k'), j) :: t' => if (b =? b') && (key =? k') then j else nextj_of t' b key
  end.

(* the float64 expression evaluated with Coq's primitive binary64 floats
   (execution only): float64() of the integers, `/`, `*`, truncating int64() *)
Definition f_of_Z (n : Z) : float := PrimFloat.of_uint63 (Uint63.of_Z n).
Definition trunc_f (f : float) : Z :=
  match Prim2SF f with
  | S754_finite false m e => if 0 <=? e then Z.pos m * 2 ^ e else Z.pos m / 2 ^ (- e)
  | S754_finite true m e => if 0 <=? e then - (Z.pos m * 2 ^ e) else - (Z.pos m / 2 ^ (- e))
  | _ => 0
  end.
Definition nextj_prim (b key : Z) : Z :=
  trunc_f (PrimFloat.mul (f_of_Z (b + 1))
             (PrimFloat.div (f_of_Z 2147483648) (f_of_Z (key / 8589934592 + 1)))).

(* every oracle value is what binary64 arithmetic gives, and exceeds b *)
Definition tab_ok (t : nj_tab) : bool :=
  forallb (fun e => (nextj_prim (fst (fst e)) (snd (fst e)) =? snd e) && (fst (fst e) <? snd e)) t.

Inductive case :=
(* jumpHash(key, n) for n = 1, 2, ..., length outs *)
| CJump (key : Z) (tab : nj_tab) (outs : list Z)
(* natsort.Compare(a, b) *)
| CNat (a b : str) (out : bool)
(* SetServers(servers) then Each, PickServer per key and PickServerForKeys(keys);
   the same after SetServers(servers2), a permutation of servers *)
| CPick (servers servers2 : list str) (keys : list ckey) (tab : nj_tab)
        (sorted sorted2 : list str) (single single2 : list (option str))
        (batch : option (list (str * list str)))
(* SetServers(servers) vs SetServers(servers ++ [new]) : picks before and after *)
| CAdd (servers : list str) (new : str) (keys : list ckey) (tab : nj_tab)
       (before after : list (option str)).

Definition ostr_eqb := option_eqb str_eqb.

Fixpoint seqZ (from : Z) (len : nat) : list Z :=
  match len with O => [] | S l => from :: seqZ (from + 1) l end.

Definition batch_entry_ok (model : list (str * list ckey)) (e : str * list str) : bool :=
  list_eqb str_eqb (map fst (mget model (fst e))) (snd e).

Definition corr_ok (c : case) : bool :=
  match c with
  | CJump key tab outs =>
      tab_ok tab &&
      list_eqb (option_eqb Z.eqb)
        (map (fun n => jump (nextj_of tab) key n) (seqZ 1 (length outs))) (map Some outs)
  | CNat a b out => Bool.eqb (nat_less a b) out
  | CPick servers servers2 keys tab sorted sorted2 single single2 batch =>
      let nj := nextj_of tab in
      tab_ok tab &&
      (* sort.Sort is the insertion sort only up to 12 elements *)
      ((12 <? Z.of_nat (length servers)) || (list_eqb str_eqb (set_servers servers) sorted
                                             && list_eqb str_eqb (set_servers servers2) sorted2))
      && list_eqb ostr_eqb (map (pick nj sorted) keys) single
      && list_eqb ostr_eqb (map (pick nj sorted2) keys) single2
      && match pick_for_keys nj sorted keys, batch with
         | None, None => true
         | Some m, Some b =>
             forallb (batch_entry_ok m) b
             && forallb (fun e => mem_str (fst e) (map fst b)) m
         | _, _ => false
         end
  | CAdd servers new keys tab before after =>
      let nj := nextj_of tab in
      tab_ok tab &&
      ((12 <? Z.of_nat (length servers)) ||
       (list_eqb ostr_eqb (map (pick nj (set_servers servers)) keys) before
        && list_eqb ostr_eqb (map (pick nj (set_servers (servers ++ [new]))) keys) after))
  end.

(* ---- the property's predicate on the implementation's own observables ---- *)

(* jump consistency on a run of outputs for n = from, from+1, ... *)
Fixpoint jump_outs_ok (n : Z) (prev : option Z) (outs : list Z) : bool :=
  match outs with
  | [] => true
  | o :: outs' =>
    (0 <=? o) && (o <? n)
    && match prev with None => true | Some p => (o =? p) || (o =? n - 1) end
    && jump_outs_ok (n + 1) (Some o) outs'
  end.

Definition keys_of (a : str) (keys : list ckey) (single : list (option str)) : list str :=
  map (fun p => fst (fst p))
      (filter (fun p => ostr_eqb (snd p) (Some a)) (combine keys single)).

Definition pred_ok (c : case) : bool :=
  match c with
  | CJump _ _ outs => jump_outs_ok 1 None outs
  | CNat _ _ _ => true
  | CPick servers servers2 keys _ sorted sorted2 single single2 batch =>
      (* alone = in a batch *)
      match batch with
      | None => forallb (fun o => ostr_eqb o None) single
      | Some b =>
          forallb (fun e => list_eqb str_eqb (keys_of (fst e) keys single) (snd e)) b
          && forallb (fun o => match o with Some a => mem_str a (map fst b) | None => false end) single
      end
      (* regardless of the listing order *)
      && list_eqb str_eqb sorted sorted2
      && list_eqb ostr_eqb single single2
  | CAdd servers new keys _ before after =>
      (* adding a server only moves keys onto the new server *)
      list_eqb (fun x y => ostr_eqb x y || ostr_eqb y (Some new)) before after
  end.
