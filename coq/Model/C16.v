(* C16 — model of pkg/block/indexheader/lazy_binary_reader.go (LazyBinaryReader:
   Reader methods, load, unloadIfIdleSince, isIdleSince) and of the per-reader
   part of ReaderPool.closeIdleReaders, as a labelled transition system:

     shared state : RW lock (reader count, writer flag), r.reader (None | Some h),
                    r.readerErr, usedAt, the set of closed BinaryReader handles,
                    the metric counters;
     a thread     : a program counter (with its locals); any number of threads;
     a step       : one thread executes one atomic action ([tstep]); blocked
                    lock acquisitions are [None].

   sync.RWMutex is modelled WITHOUT writer preference (RLock is enabled whenever
   no writer holds the lock): every schedule of the real mutex is a schedule of
   this model, so safety invariants proved here hold a fortiori.
   Executable definitions only; proofs are in Proofs/C16.v. *)
From Coq Require Import ZArith List Bool String Arith.
Import ListNotations.
From Verif Require Import Lib.Corr Gen.C16.
Close Scope Z_scope.

(* ---------- results ---------- *)
Inductive errk := ELoad | EUnloaded | ENotIdle | EClose.
Inductive res :=
| ROk (h : nat) (b : bool)  (* answered by BinaryReader handle h, open at that moment;
                              b: the answer is BACKED BY h's mmap-ed memory (not copied) *)
| RErr (e : errk)
| RNil                 (* unload returned nil *)
| RBool (b : bool)     (* isIdleSince *)
| RPanic               (* nil dereference of r.reader *)
| RUAC (h : nat).      (* answered from a CLOSED handle: use after close *)

(* ---------- operations a thread may start ---------- *)
Inductive op :=
| OLookup              (* any Reader method: IndexVersion, PostingsOffset(s), LookupSymbol, LabelValues, LabelNames *)
| OUnload (ts : Z)     (* unloadIfIdleSince(ts); Close() = OUnload 0 *)
| OIsIdle (ts : Z)     (* isIdleSince(ts) *)
| OSweep (ts : Z).     (* closeIdleReaders for this reader: isIdleSince(ts), then unloadIfIdleSince(ts) *)

(* ---------- program counters ---------- *)
Inductive pc :=
| Idle
(* Reader method + load() *)
| L_RLock                         (* r.readerMx.RLock(); defer RUnlock *)
| L_Check1                        (* load(): r.reader != nil / r.readerErr != nil, read lock held *)
| L_RUnlock1                      (* load(): r.readerMx.RUnlock() *)
| L_Lock                          (* load(): r.readerMx.Lock() *)
| L_Check2                        (* load(): re-check under the write lock *)
| L_Create                        (* load(): NewBinaryReader(...) and assignment *)
| L_Unlock (e : option errk)      (* deferred: r.readerMx.Unlock() *)
| L_RLock2 (e : option errk)      (* deferred: r.readerMx.RLock() *)
| L_Recheck (e : option errk)     (* deferred: if returnErr == nil && r.reader == nil *)
| L_Touch                         (* r.usedAt.Store(now) *)
| L_UseRead                       (* evaluate r.reader (receiver of the delegate call) *)
| L_UseCall (h : nat)             (* THE USE POINT: BinaryReader method on handle h *)
| L_RUnlockEnd (r : res)          (* deferred r.readerMx.RUnlock() *)
(* unloadIfIdleSince *)
| U_Lock (ts : Z)
| U_CheckNil (ts : Z)
| U_CheckIdle (ts : Z)
| U_Close                         (* unloadCount.Inc(); r.reader.Close() *)
| U_SetNil                        (* r.reader = nil *)
| U_Unlock (r : res)              (* deferred Unlock *)
(* isIdleSince; cont = true when called from the pool sweep (unload follows) *)
| S_ReadUsed (cont : bool) (ts : Z)
| S_RLock (cont : bool) (ts : Z)
| S_ReadLoaded (cont : bool) (ts : Z)
| S_RUnlock (cont : bool) (ts : Z) (b : bool)
| Done (r : res)
| Dangling (h : nat).   (* the caller reads an answer backed by the memory of a closed (unmapped) handle *)

Record shared := mkS {
  readers : nat; writer : bool;
  rd : option nat;           (* r.reader: handle of the loaded BinaryReader *)
  rerr : bool;               (* r.readerErr != nil *)
  usedAt : Z;
  nexth : nat;               (* next fresh handle = number of successful loads *)
  closed : list nat;         (* handles on which Close() succeeded *)
  loads : nat; loadfails : nat; unloads : nat; unloadfails : nat  (* the four counters *)
}.

(* outcomes not determined by the model: which operation an idle thread
   starts, whether NewBinaryReader / Close succeed, the clock, whether the
   called method is one whose BinaryReader answer points into the mmap *)
Record choice := mkC { c_op : op; c_ok : bool; c_now : Z; c_bw : bool }.

Definition is_closed (h : nat) (cl : list nat) : bool := existsb (Nat.eqb h) cl.

Definition start (o : op) : pc :=
  match o with
  | OLookup => L_RLock
  | OUnload ts => U_Lock ts
  | OIsIdle ts => S_ReadUsed false ts
  | OSweep ts => S_ReadUsed true ts
  end.

Definition is_some {A} (o : option A) : bool := match o with Some _ => true | None => false end.

(* [bp]: the wrapper may hand memory-backed answers to its caller, i.e. some
   delegating method returns the BinaryReader's zero-copy strings without
   copying them while the read lock is held. Computed from the source ([bp_src]). *)
Definition tstep (bp : bool) (c : choice) (s : shared) (p : pc) : option (shared * pc) :=
  let '(mkS n w r e u nh cl lo lf un uf) := s in
  match p with
  | Idle => Some (s, start (c_op c))
  | Done x =>
      (* the call has returned; the caller now reads the answer *)
      Some (s, match x with
               | ROk h true => if is_closed h cl then Dangling h else Idle
               | _ => Idle
               end)
  | Dangling _ => None
  (* ---- lookup ---- *)
  | L_RLock => if w then None else Some (mkS (S n) w r e u nh cl lo lf un uf, L_Check1)
  | L_Check1 =>
      if is_some r then Some (s, L_Touch)
      else if e then Some (s, L_RUnlockEnd (RErr ELoad))
      else Some (s, L_RUnlock1)
  | L_RUnlock1 => Some (mkS (pred n) w r e u nh cl lo lf un uf, L_Lock)
  | L_Lock => if w || negb (n =? 0) then None else Some (mkS n true r e u nh cl lo lf un uf, L_Check2)
  | L_Check2 =>
      if is_some r then Some (s, L_Unlock None)
      else if e then Some (s, L_Unlock (Some ELoad))
      else Some (s, L_Create)
  | L_Create =>
      if c_ok c then Some (mkS n w (Some nh) e u (S nh) cl (S lo) lf un uf, L_Unlock None)
      else Some (mkS n w r true u nh cl (S lo) (S lf) un uf, L_Unlock (Some ELoad))
  | L_Unlock er => Some (mkS n false r e u nh cl lo lf un uf, L_RLock2 er)
  | L_RLock2 er => if w then None else Some (mkS (S n) w r e u nh cl lo lf un uf, L_Recheck er)
  | L_Recheck er =>
      match er with
      | Some k => Some (s, L_RUnlockEnd (RErr k))
      | None => if is_some r then Some (s, L_Touch) else Some (s, L_RUnlockEnd (RErr EUnloaded))
      end
  | L_Touch => Some (mkS n w r e (c_now c) nh cl lo lf un uf, L_UseRead)
  | L_UseRead =>
      match r with
      | Some h => Some (s, L_UseCall h)
      | None => Some (s, L_RUnlockEnd RPanic)
      end
  | L_UseCall h => Some (s, L_RUnlockEnd (if is_closed h cl then RUAC h else ROk h (bp && c_bw c)))
  | L_RUnlockEnd x => Some (mkS (pred n) w r e u nh cl lo lf un uf, Done x)
  (* ---- unloadIfIdleSince ---- *)
  | U_Lock ts => if w || negb (n =? 0) then None else Some (mkS n true r e u nh cl lo lf un uf, U_CheckNil ts)
  | U_CheckNil ts => if is_some r then Some (s, U_CheckIdle ts) else Some (s, U_Unlock RNil)
  | U_CheckIdle ts =>
      if (0 <? ts)%Z && (ts <? u)%Z then Some (s, U_Unlock (RErr ENotIdle)) else Some (s, U_Close)
  | U_Close =>
      match r with
      | None => Some (s, U_Unlock RPanic)
      | Some h =>
          if c_ok c then Some (mkS n w r e u nh (h :: cl) lo lf (S un) uf, U_SetNil)
          else Some (mkS n w r e u nh cl lo lf (S un) (S uf), U_Unlock (RErr EClose))
      end
  | U_SetNil => Some (mkS n w None e u nh cl lo lf un uf, U_Unlock RNil)
  | U_Unlock x => Some (mkS n false r e u nh cl lo lf un uf, Done x)
  (* ---- isIdleSince / pool sweep ---- *)
  | S_ReadUsed ct ts => if (ts <? u)%Z then Some (s, Done (RBool false)) else Some (s, S_RLock ct ts)
  | S_RLock ct ts => if w then None else Some (mkS (S n) w r e u nh cl lo lf un uf, S_ReadLoaded ct ts)
  | S_ReadLoaded ct ts => Some (s, S_RUnlock ct ts (is_some r))
  | S_RUnlock ct ts b =>
      Some (mkS (pred n) w r e u nh cl lo lf un uf,
            if ct then (if b then U_Lock ts else Done (RBool false)) else Done (RBool b))
  end.

(* ---------- the interleaving semantics ---------- *)
Definition config := (shared * list pc)%type.

Inductive step (bp : bool) : config -> config -> Prop :=
| step_thread : forall c s s' l p p' r,
    tstep bp c s p = Some (s', p') ->
    step bp (s, l ++ p :: r) (s', l ++ p' :: r).

Inductive steps (bp : bool) : config -> config -> Prop :=
| steps_refl : forall x, steps bp x x
| steps_step : forall x y z, steps bp x y -> step bp y z -> steps bp x z.

Definition init_shared (u0 : Z) : shared := mkS 0 false None false u0 0 [] 0 0 0 0.

(* every configuration reachable by n threads, each running any sequence of
   operations, under any interleaving *)
Definition reachable (bp : bool) (s : shared) (ts : list pc) : Prop :=
  exists n u0, steps bp (init_shared u0, repeat Idle n) (s, ts).

(* which program counters hold which lock *)
Definition holdsR (p : pc) : bool :=
  match p with
  | L_Check1 | L_RUnlock1 | L_Recheck _ | L_Touch | L_UseRead | L_UseCall _ | L_RUnlockEnd _
  | S_ReadLoaded _ _ | S_RUnlock _ _ _ => true
  | _ => false
  end.
Definition holdsW (p : pc) : bool :=
  match p with
  | L_Check2 | L_Create | L_Unlock _ | U_CheckNil _ | U_CheckIdle _ | U_Close | U_SetNil | U_Unlock _ => true
  | _ => false
  end.

(* ---------- sequential execution of one operation (used by the correspondence) ---------- *)
Fixpoint run (bp : bool) (fuel : nat) (c : choice) (s : shared) (p : pc) : option (shared * res) :=
  match fuel with
  | O => None
  | S f =>
      match p with
      | Done x => Some (s, x)
      | _ => match tstep bp c s p with
             | Some (s', p') => run bp f c s' p'
             | None => None
             end
      end
  end.

Definition run_op (bp : bool) (o : op) (ok : bool) (now : Z) (s : shared) : option (shared * res) :=
  run bp 24 (mkC o ok now true) s (start o).

(* ---------- executing a given schedule (for examples and witnesses) ---------- *)
Fixpoint upd (i : nat) (p : pc) (l : list pc) : list pc :=
  match l, i with
  | [], _ => []
  | _ :: r, O => p :: r
  | a :: r, S j => a :: upd j p r
  end.

(* schedule = list of (thread index, outcome oracle) *)
Fixpoint exec (bp : bool) (sched : list (nat * choice)) (s : shared) (ts : list pc) : option config :=
  match sched with
  | [] => Some (s, ts)
  | (i, c) :: rest =>
      match nth_error ts i with
      | Some p => match tstep bp c s p with
                  | Some (s', p') => exec bp rest s' (upd i p' ts)
                  | None => None
                  end
      | None => None
      end
  end.

(* ---------- tie T: the source skeletons the programs above implement ---------- *)
Definition ev_eqb (a b : string * string) : bool :=
  String.eqb (fst a) (fst b) && String.eqb (snd a) (snd b).
Definition evs_eqb := list_eqb ev_eqb.

Open Scope string_scope.
Definition exp_load : list (string * string) :=
  [("if", "r.reader != nil"); ("return", "nil"); ("endif", "");                  (* L_Check1 *)
   ("if", "r.readerErr != nil"); ("return", "r.readerErr"); ("endif", "");
   ("call", "r.readerMx.RUnlock");                                               (* L_RUnlock1 *)
   ("call", "r.readerMx.Lock");                                                  (* L_Lock *)
   ("defer", "funclit");
   ("call", "r.readerMx.Unlock");                                                (* L_Unlock *)
   ("call", "r.readerMx.RLock");                                                 (* L_RLock2 *)
   ("if", "returnErr == nil && r.reader == nil");                                (* L_Recheck *)
   ("assign", "returnErr = errUnloadedWhileLoading"); ("endif", "");
   ("enddefer", "funclit");
   ("if", "r.reader != nil"); ("return", "nil"); ("endif", "");                  (* L_Check2 *)
   ("if", "r.readerErr != nil"); ("return", "r.readerErr"); ("endif", "");
   ("call", "NewBinaryReader");                                                  (* L_Create *)
   ("if", "err != nil"); ("assign", "r.readerErr = err");
   ("return", "errors.Wrapf(err, ""lazy load index-header for block %s"", r.id)"); ("endif", "");
   ("assign", "r.reader = reader"); ("return", "nil")].

Definition exp_unload : list (string * string) :=
  [("call", "r.readerMx.Lock"); ("defer", "r.readerMx.Unlock");                  (* U_Lock / U_Unlock *)
   ("if", "r.reader == nil"); ("return", "nil"); ("endif", "");                  (* U_CheckNil *)
   ("call", "r.usedAt.Load");
   ("if", "ts > 0 && r.usedAt.Load() > ts"); ("return", "errNotIdle"); ("endif", "");  (* U_CheckIdle *)
   ("call", "r.reader.Close"); ("define", "err := r.reader.Close()");            (* U_Close *)
   ("if", "err != nil"); ("return", "err"); ("endif", "");
   ("assign", "r.reader = nil"); ("return", "nil")].                             (* U_SetNil *)

Definition exp_isidle : list (string * string) :=
  [("call", "r.usedAt.Load"); ("if", "r.usedAt.Load() > ts"); ("return", "false"); ("endif", "");  (* S_ReadUsed *)
   ("call", "r.readerMx.RLock");                                                 (* S_RLock *)
   ("define", "loaded := r.reader != nil");                                      (* S_ReadLoaded *)
   ("call", "r.readerMx.RUnlock"); ("return", "loaded")].                        (* S_RUnlock *)

Definition exp_close : list (string * string) :=
  [("if", "r.onClosed != nil"); ("defer", "r.onClosed"); ("endif", "");
   ("call", "r.unloadIfIdleSince"); ("return", "r.unloadIfIdleSince(0)")].

Definition exp_method : list (string * string) :=
  [("call", "r.readerMx.RLock"); ("defer", "r.readerMx.RUnlock");                (* L_RLock / L_RUnlockEnd *)
   ("call", "r.load"); ("if", "err != nil"); ("return", "ZERO, err"); ("endif", "");
   ("call", "r.usedAt.Store");                                                   (* L_Touch *)
   ("call", "r.reader.METHOD"); ("return", "r.reader.METHOD(...)")].             (* L_UseRead / L_UseCall *)

(* the same with the answer copied before the deferred RUnlock (LabelValues after the fix) *)
Definition exp_method_clone : list (string * string) :=
  [("call", "r.readerMx.RLock"); ("defer", "r.readerMx.RUnlock");
   ("call", "r.load"); ("if", "err != nil"); ("return", "ZERO, err"); ("endif", "");
   ("call", "r.usedAt.Store");
   ("call", "r.reader.METHOD"); ("define", "values, err := r.reader.METHOD(name)");
   ("if", "err != nil"); ("return", "ZERO, err"); ("endif", "");
   ("for", "range values"); ("call", "strings.Clone"); ("assign", "values[i] = strings.Clone(values[i])"); ("endfor", "");
   ("return", "values, nil")].

Definition exp_method_names : list string :=
  ["IndexVersion"; "PostingsOffsets"; "PostingsOffset"; "LookupSymbol"; "LabelValues"; "LabelNames"].

Definition exp_pool_close_idle : list (string * string) :=
  [("call", "p.getIdleReadersSince"); ("for", "range p.getIdleReadersSince(idleTimeoutAgo)");
   ("call", "r.unloadIfIdleSince");
   ("if", "err != nil && !errors.Is(err, errNotIdle)"); ("endif", ""); ("endfor", "")].

Definition exp_pool_get_idle : list (string * string) :=
  [("call", "p.lazyReadersMx.Lock"); ("defer", "p.lazyReadersMx.Unlock");
   ("for", "range p.lazyReaders"); ("call", "r.isIdleSince"); ("if", "r.isIdleSince(ts)");
   ("call", "append"); ("assign", "idle = append(idle, r)"); ("endif", ""); ("endfor", "");
   ("return", "idle")].
Close Scope string_scope.

(* the source, as it is now, has exactly the skeleton that [tstep] implements:
   every method of *LazyBinaryReader other than load / unloadIfIdleSince /
   isIdleSince / Close is one of the six delegating methods and has the
   RLock; defer RUnlock; load; usedAt.Store; delegate shape *)
Definition method_skeleton (m : string) : option (list (string * string)) :=
  option_map snd (find (fun x => String.eqb (fst x) m) ev_methods).

(* BinaryReader methods that return zero-copy strings (Gen: yolo_methods) and
   whose LazyBinaryReader wrapper does not copy them under the lock *)
Definition unsafe_methods : list string :=
  filter (fun m => match method_skeleton m with
                   | Some sk => negb (evs_eqb sk exp_method_clone)
                   | None => false
                   end) yolo_methods.

Definition bp_src : bool := match unsafe_methods with [] => false | _ => true end.

Definition facts_ok : bool :=
  evs_eqb ev_load exp_load
  && evs_eqb ev_unloadIfIdleSince exp_unload
  && evs_eqb ev_isIdleSince exp_isidle
  && evs_eqb ev_Close exp_close
  && list_eqb String.eqb (map fst ev_methods) exp_method_names
  && forallb (fun m => evs_eqb (snd m) exp_method || evs_eqb (snd m) exp_method_clone) ev_methods
  && forallb (fun m => is_some (method_skeleton m)) yolo_methods
  && evs_eqb ev_pool_closeIdleReaders exp_pool_close_idle
  && evs_eqb ev_pool_getIdleReadersSince exp_pool_get_idle.

(* ---------- tie T: load() returns holding the read lock ----------
   load() is entered with the read lock held (its contract) and every caller
   runs a deferred RUnlock afterwards, so every return of load() must again hold
   the read lock. Checked on the regenerated event list of load(): walking the
   events in source order, tracking whether the read lock is held ([held]),
   whether a deferred function that ends holding it has been registered ([dfr]),
   and restoring the state after an if-block that returned. *)
Open Scope string_scope.
Definition is_ev (k t : string) (e : string * string) : bool := String.eqb (fst e) k && String.eqb (snd e) t.

Fixpoint balance (evs : list (string * string)) (held dfr indef dheld : bool) (stk : list (bool * bool)) : bool :=
  match evs with
  | [] => true
  | e :: r =>
      if indef then
        if is_ev "enddefer" "funclit" e then balance r held dheld false false stk
        else if is_ev "call" "r.readerMx.RLock" e then balance r held dfr true true stk
        else if is_ev "call" "r.readerMx.RUnlock" e then balance r held dfr true false stk
        else balance r held dfr true dheld stk
      else if is_ev "defer" "funclit" e then balance r held dfr true false stk
      else if is_ev "call" "r.readerMx.RLock" e then balance r true dfr false false stk
      else if is_ev "call" "r.readerMx.RUnlock" e then balance r false dfr false false stk
      else if String.eqb (fst e) "if" then balance r held dfr false false ((held, false) :: stk)
      else if String.eqb (fst e) "return" then
        (held || dfr)
        && balance r held dfr false false (match stk with (h, _) :: s => (h, true) :: s | [] => [] end)
      else if String.eqb (fst e) "endif" then
        match stk with
        | (h, true) :: s => balance r h dfr false false s
        | (_, false) :: s => balance r held dfr false false s
        | [] => balance r held dfr false false []
        end
      else balance r held dfr false false stk
  end.
Close Scope string_scope.

Definition load_lock_balance : bool := balance ev_load true false false false [].

(* ---------- correspondence cases ---------- *)
(* classes of observed results *)
Inductive rclass := KOk | KDiff | KLoadErr | KUnloaded | KNil | KNotIdle | KTrue | KFalse | KPanic | KOther | KCloseErr.

Definition rclass_eqb (a b : rclass) : bool :=
  match a, b with
  | KOk, KOk | KDiff, KDiff | KLoadErr, KLoadErr | KUnloaded, KUnloaded | KNil, KNil
  | KNotIdle, KNotIdle | KTrue, KTrue | KFalse, KFalse | KPanic, KPanic | KOther, KOther
  | KCloseErr, KCloseErr => true
  | _, _ => false
  end.

Definition class_of (x : res) : rclass :=
  match x with
  | ROk _ _ => KOk
  | RErr ELoad => KLoadErr
  | RErr EUnloaded => KUnloaded
  | RErr ENotIdle => KNotIdle
  | RErr EClose => KCloseErr
  | RNil => KNil
  | RBool true => KTrue
  | RBool false => KFalse
  | RPanic => KPanic
  | RUAC _ => KDiff
  end.

(* observation after one sequential operation *)
Record obs := mkO {
  o_res : rclass; o_loaded : bool; o_failed : bool; o_used : Z;
  o_loads : N; o_loadfails : N; o_unloads : N; o_unloadfails : N }.

Inductive case :=
(* one thread: initial usedAt, whether NewBinaryReader can succeed, and the
   operations with (clock value stored by a successful lookup, observation) *)
| CSeq (u0 : Z) (load_ok : bool) (ops : list (op * Z * obs))
(* many threads: numbers of lookup results per class, of unload results per
   class, final counters, final loaded flag *)
| CConc (lookups n_ok n_diff n_loaderr n_unloaded n_panic n_other : N)
        (u_nil u_notidle u_other : N)
        (c_loads c_loadfails c_unloads c_unloadfails : N) (loaded : bool).

Definition obs_matches (s : shared) (x : res) (o : obs) : bool :=
  rclass_eqb (class_of x) (o_res o)
  && Bool.eqb (is_some (rd s)) (o_loaded o)
  && Bool.eqb (rerr s) (o_failed o)
  && (usedAt s =? o_used o)%Z
  && (N.of_nat (loads s) =? o_loads o)%N && (N.of_nat (loadfails s) =? o_loadfails o)%N
  && (N.of_nat (unloads s) =? o_unloads o)%N && (N.of_nat (unloadfails s) =? o_unloadfails o)%N.

Definition obs_of (s : shared) (x : res) : obs :=
  mkO (class_of x) (is_some (rd s)) (rerr s) (usedAt s)
      (N.of_nat (loads s)) (N.of_nat (loadfails s)) (N.of_nat (unloads s)) (N.of_nat (unloadfails s)).

Definition op_ok (load_ok : bool) (o : op) : bool := match o with OLookup => load_ok | _ => true end.

(* the model's own observations for a sequence of operations *)
Fixpoint seq_model (bp : bool) (load_ok : bool) (s : shared) (ops : list (op * Z)) : option (list (op * Z * obs)) :=
  match ops with
  | [] => Some []
  | (o, now) :: rest =>
      match run_op bp o (op_ok load_ok o) now s with
      | Some (s', x) =>
          match seq_model bp load_ok s' rest with
          | Some l => Some ((o, now, obs_of s' x) :: l)
          | None => None
          end
      | None => None
      end
  end.

Fixpoint seq_ok (bp : bool) (load_ok : bool) (s : shared) (ops : list (op * Z * obs)) : bool :=
  match ops with
  | [] => true
  | (o, now, ob) :: rest =>
      match run_op bp o (op_ok load_ok o) now s with
      | Some (s', x) => obs_matches s' x ob && seq_ok bp load_ok s' rest
      | None => false
      end
  end.

Definition corr_ok (c : case) : bool :=
  match c with
  | CSeq u0 load_ok ops => seq_ok bp_src load_ok (init_shared u0) ops
  | CConc lookups n_ok n_diff n_le n_un n_pa n_ot u_nil u_ni u_ot lo lf un uf loaded =>
      (* the counter invariant of every quiescent reachable state
         (Proofs: inv_counts): successful loads = successful unloads + [loaded] *)
      ((lo - lf =? (un - uf) + (if loaded then 1 else 0)) && (lf <=? lo) && (uf <=? un)
       && (lookups =? n_ok + n_diff + n_le + n_un + n_pa + n_ot))%N
  end.

Definition lookup_class_ok (k : rclass) : bool :=
  match k with KOk | KLoadErr | KUnloaded => true | _ => false end.

Definition op_class_ok (o : op) (k : rclass) : bool :=
  match o with
  | OLookup => lookup_class_ok k
  | OUnload _ => match k with KNil | KNotIdle | KCloseErr => true | _ => false end
  | OSweep _ => match k with KNil | KNotIdle | KCloseErr | KFalse => true | _ => false end
  | OIsIdle _ => match k with KTrue | KFalse => true | _ => false end
  end.

(* the property on the implementation's own observables: every lookup was
   answered as by the always-loaded reader, or with a declared error *)
Definition pred_ok (c : case) : bool :=
  match c with
  | CSeq _ _ ops => forallb (fun x => op_class_ok (fst (fst x)) (o_res (snd x))) ops
  | CConc _ _ n_diff _ _ n_pa n_ot _ _ u_ot _ _ _ _ _ =>
      ((n_diff =? 0) && (n_pa =? 0) && (n_ot =? 0) && (u_ot =? 0))%N
  end.
