(* C41 — model of pkg/queryfrontend/split_by_interval.go (splitQuery) and
   internal/cortex/querier/queryrange/step_align.go.
   [nextIntervalBoundary] is NOT written here: it is regenerated from the Go
   source into Gen/C41.v on every run (tie T). Executable definitions only. *)
From Coq Require Import ZArith List Bool Lia.
Import ListNotations.
From Verif Require Import Lib.Corr Gen.C41.
Open Scope Z_scope.

Definition ns_per_ms : Z := 1000000.

(* the `for ; start < end; start = nextIntervalBoundary(start)+step` loop of
   the *ThanosQueryRangeRequest arm; [interval] is the time.Duration in ns *)
Fixpoint split_loop (fuel : nat) (start end_ step interval : Z) : option (list (Z * Z)) :=
  match fuel with
  | O => None
  | S f =>
    if start <? end_ then
      let e := nextIntervalBoundary start step interval in
      let e' := if e + step >=? end_ then end_ else e in
      match split_loop f (e + step) end_ step interval with
      | Some r => Some ((start, e') :: r)
      | None => None
      end
    else Some []
  end.

(* iterations needed: each one moves start to at least the next interval boundary *)
Definition split_fuel (start end_ interval : Z) : nat :=
  let ms := Z.quot interval ns_per_ms in
  Z.to_nat (Z.max 0 (end_ / ms - start / ms) + 2).

Definition split_query (start end_ step interval : Z) : option (list (Z * Z)) :=
  if start =? end_ then Some [(start, start)]
  else split_loop (split_fuel start end_ interval) start end_ step interval.

(* the SplitRequest arm (labels / series): dur = interval in ms *)
Fixpoint range_loop (fuel : nat) (start end_ dur : Z) : option (list (Z * Z)) :=
  match fuel with
  | O => None
  | S f =>
    if start <? end_ then
      match range_loop f (start + dur) end_ dur with
      | Some r => Some ((start, Z.min (start + dur) end_) :: r)
      | None => None
      end
    else Some []
  end.

Definition split_range (start end_ interval : Z) : option (list (Z * Z)) :=
  let dur := Z.quot interval ns_per_ms in
  range_loop (Z.to_nat (Z.max 0 ((end_ - start) / dur) + 2)) start end_ dur.

Definition step_align (start end_ step : Z) : Z * Z :=
  (Z.quot start step * step, Z.quot end_ step * step).

(* evaluation timestamps of a range query: start, start+step, ... <= end *)
Definition steps (s e st : Z) : list Z :=
  if e <? s then []
  else map (fun k => s + Z.of_nat k * st) (seq 0 (Z.to_nat ((e - s) / st) + 1)).

(* ---- correspondence and predicate on implementation observables ---- *)

Inductive case :=
| CRange (start end_ step interval_ms : Z) (out : list (Z * Z))
| CSplit (start end_ interval_ms : Z) (out : list (Z * Z))
| CAlign (start end_ step : Z) (out : Z * Z).

Definition zz_eqb (p q : Z * Z) : bool := (fst p =? fst q) && (snd p =? snd q).

Definition corr_ok (c : case) : bool :=
  match c with
  | CRange s e st i out =>
      option_eqb (list_eqb zz_eqb) (split_query s e st (i * ns_per_ms)) (Some out)
  | CSplit s e i out =>
      option_eqb (list_eqb zz_eqb) (split_range s e (i * ns_per_ms)) (Some out)
  | CAlign s e st out => zz_eqb (step_align s e st) out
  end.

(* contiguous cover of [s,e] by ranges: first starts at s, each next starts
   where the previous ended, last ends at e *)
Fixpoint contiguous (s e : Z) (l : list (Z * Z)) : bool :=
  match l with
  | [] => e <=? s
  | (a, b) :: r => (a =? s) && (a <? b) && (b <=? e) && contiguous b e r
  end.

Definition pred_ok (c : case) : bool :=
  match c with
  | CRange s e st _ out =>
      list_eqb Z.eqb (concat (map (fun p => steps (fst p) (snd p) st) out)) (steps s e st)
      && forallb (fun p => Z.rem (fst p - s) st =? 0) out
  | CSplit s e _ out => contiguous s e out
  | CAlign s e st out =>
      (Z.rem (fst out) st =? 0) && (Z.rem (snd out) st =? 0)
  end.
