(* C43 — model of pkg/queryfrontend/cache.go: thanosCacheKeyGenerator.GenerateCacheKey
   (the three key formats, with the tenant field escaped by escapeCacheKeyTenant),
   generateQueryRangeCacheKey, generateShardInfoKey, writeCacheKey*, and of
   internal/cortex/tenant/resolver.go: containsUnsafePathSegments.
   Byte strings are [list N]. Executable definitions only. *)
From Coq Require Import ZArith NArith List Bool Decimal DecimalZ.
Import ListNotations.
From Verif Require Import Lib.Corr Gen.C43.
Open Scope Z_scope.

Definition str := list N.

Definition str_eqb : str -> str -> bool := list_eqb N.eqb.

(* ---- byte constants ---- *)
Definition c_colon : N := 58%N.   (* ':' *)
Definition c_comma : N := 44%N.   (* ',' *)
Definition c_pct   : N := 37%N.   (* '%' *)
Definition c_minus : N := 45%N.   (* '-' *)
Definition c_slash : N := 47%N.   (* '/' *)
Definition c_bslash : N := 92%N.  (* '\' *)
Definition c_dot   : N := 46%N.   (* '.' *)
Definition c_lbrack : N := 91%N.  (* '[' *)

Definition s_fe : str := [102; 101]%N.                (* "fe" *)
Definition s_true : str := [116; 114; 117; 101]%N.    (* "true" *)
Definition s_false : str := [102; 97; 108; 115; 101]%N. (* "false" *)
Definition s_dash : str := [c_minus].                  (* "-" *)

(* ---- strconv.AppendInt(_, v, 10) ---- *)
Fixpoint uint_bytes (d : Decimal.uint) : str :=
  match d with
  | Nil => []
  | D0 d => 48%N :: uint_bytes d | D1 d => 49%N :: uint_bytes d
  | D2 d => 50%N :: uint_bytes d | D3 d => 51%N :: uint_bytes d
  | D4 d => 52%N :: uint_bytes d | D5 d => 53%N :: uint_bytes d
  | D6 d => 54%N :: uint_bytes d | D7 d => 55%N :: uint_bytes d
  | D8 d => 56%N :: uint_bytes d | D9 d => 57%N :: uint_bytes d
  end.

Definition int_bytes (i : Decimal.int) : str :=
  match i with
  | Pos d => uint_bytes d
  | Neg d => c_minus :: uint_bytes d
  end.

Definition dec (z : Z) : str := int_bytes (Z.to_int z).

Definition bool_bytes (b : bool) : str := if b then s_true else s_false.

(* ---- escapeCacheKeyTenant: strings.NewReplacer("%", "%25", ":", "%3A") ---- *)
Definition esc_byte (b : N) : str :=
  if N.eqb b c_pct then [c_pct; 50; 53]%N
  else if N.eqb b c_colon then [c_pct; 51; 65]%N
  else [b].

Definition esc_tenant (t : str) : str := flat_map esc_byte t.

(* ---- sort.Strings on replica labels: Go string order = bytewise lexicographic ---- *)
Fixpoint str_leb (a b : str) : bool :=
  match a, b with
  | [], _ => true
  | _ :: _, [] => false
  | x :: a', y :: b' => if N.ltb x y then true else if N.ltb y x then false else str_leb a' b'
  end.

Fixpoint insert_str (x : str) (l : list str) : list str :=
  match l with
  | [] => [x]
  | y :: l' => if str_leb x y then x :: l else y :: insert_str x l'
  end.

Definition sort_strs (l : list str) : list str := fold_right insert_str [] l.

(* writeCacheKeyReplicaLabels: elements separated by ',' *)
Fixpoint join_comma (l : list str) : str :=
  match l with
  | [] => []
  | [x] => x
  | x :: l' => x ++ c_comma :: join_comma l'
  end.

(* the `for ; i < len(t.resolutions) && t.resolutions[i] > tr.MaxSourceResolution; i++ {}` loop;
   [key_resolutions] is regenerated from the source (Gen/C43.v) *)
Fixpoint res_class_from (rs : list Z) (msr : Z) : Z :=
  match rs with
  | [] => 0
  | r :: rs' => if r >? msr then 1 + res_class_from rs' msr else 0
  end.

Definition res_class (msr : Z) : Z := res_class_from key_resolutions msr.

(* generateShardInfoKey *)
Definition shard_key (sh : option (Z * Z)) : str :=
  match sh with
  | None => s_dash
  | Some (total, index) => dec total ++ c_colon :: dec index
  end.

(* ---- requests (the fields GenerateCacheKey reads) ---- *)
Inductive req :=
| RRange (query : str) (start step split_ms msr : Z) (shard : option (Z * Z)) (lookback : Z)
         (engine : str) (partial : bool) (replicas : list str) (analyze : bool)
| RLabels (label : str) (matchers : str) (start split_ms : Z) (partial : bool)
| RSeries (matchers : str) (start split_ms : Z) (partial : bool) (replicas : list str).
(* [matchers] is the fmt %s rendering of [][]*labels.Matcher, supplied by the harness;
   [split_ms] = GetSplitInterval().Milliseconds(). *)

Definition fld (s : str) : str := c_colon :: s.   (* ":" ++ s *)

(* the request-dependent part of the key, after "fe:<tenant>" (starts with ':') *)
Definition key_body (r : req) : str :=
  match r with
  | RRange q start step split msr sh lb eng part reps an =>
      fld q ++ fld (dec step) ++ fld (dec split) ++ fld (dec (Z.quot start split))
      ++ fld (dec (res_class msr)) ++ fld (shard_key sh) ++ fld (dec lb) ++ fld eng
      ++ fld (bool_bytes part) ++ fld (join_comma (sort_strs reps)) ++ fld (bool_bytes an)
  | RLabels l m start split _ =>
      fld l ++ fld m ++ fld (dec split) ++ fld (dec (Z.quot start split))
  | RSeries m start split _ _ =>
      fld m ++ fld (dec split) ++ fld (dec (Z.quot start split))
  end.

Definition key (tenant : str) (r : req) : str := s_fe ++ fld (esc_tenant tenant) ++ key_body r.

(* the key as it was before the tenant field was escaped (kept for the refutation theorem) *)
Definition key_unescaped (tenant : str) (r : req) : str := s_fe ++ fld tenant ++ key_body r.

(* tenant.SingleResolver.TenantID: containsUnsafePathSegments *)
Definition tenant_accepted (t : str) : bool :=
  negb (str_eqb t [c_dot] || str_eqb t [c_dot; c_dot]
        || existsb (fun b => N.eqb b c_slash || N.eqb b c_bslash) t).

(* ---- what "the same request as far as the answer is concerned" means ---- *)
Definition opt_zz_eqb (a b : option (Z * Z)) : bool :=
  option_eqb (fun p q => (fst p =? fst q) && (snd p =? snd q)) a b.

Definition strs_eqb : list str -> list str -> bool := list_eqb str_eqb.

(* every result-changing parameter the property lists, per request kind; max source
   resolution counts through its class, replica labels as a set-like sorted list;
   the split window (split interval, window index) is included too *)
Definition same_params (r1 r2 : req) : bool :=
  match r1, r2 with
  | RRange q1 st1 step1 sp1 msr1 sh1 lb1 e1 p1 rl1 an1, RRange q2 st2 step2 sp2 msr2 sh2 lb2 e2 p2 rl2 an2 =>
      str_eqb q1 q2 && (step1 =? step2) && (sp1 =? sp2) && (Z.quot st1 sp1 =? Z.quot st2 sp2)
      && (res_class msr1 =? res_class msr2) && opt_zz_eqb sh1 sh2 && (lb1 =? lb2)
      && str_eqb e1 e2 && Bool.eqb p1 p2 && strs_eqb (sort_strs rl1) (sort_strs rl2) && Bool.eqb an1 an2
  | RLabels l1 m1 st1 sp1 p1, RLabels l2 m2 st2 sp2 p2 =>
      str_eqb l1 l2 && str_eqb m1 m2 && (sp1 =? sp2) && (Z.quot st1 sp1 =? Z.quot st2 sp2) && Bool.eqb p1 p2
  | RSeries m1 st1 sp1 p1 rl1, RSeries m2 st2 sp2 p2 rl2 =>
      str_eqb m1 m2 && (sp1 =? sp2) && (Z.quot st1 sp1 =? Z.quot st2 sp2) && Bool.eqb p1 p2
      && strs_eqb (sort_strs rl1) (sort_strs rl2)
  | _, _ => false
  end.

(* ---- cases ---- *)
Inductive case :=
| CPair (t1 : str) (r1 : req) (k1 : str) (t2 : str) (r2 : req) (k2 : str)
| CTenant (t : str) (accepted : bool).

Definition corr_ok (c : case) : bool :=
  match c with
  | CPair t1 r1 k1 t2 r2 k2 => str_eqb (key t1 r1) k1 && str_eqb (key t2 r2) k2
  | CTenant t acc => Bool.eqb (tenant_accepted t) acc
  end.

(* the property on the implementation's own keys: equal keys only for the same tenant
   and the same result-changing parameters *)
Definition pred_ok (c : case) : bool :=
  match c with
  | CPair t1 r1 k1 t2 r2 k2 =>
      if str_eqb k1 k2 then str_eqb t1 t2 && same_params r1 r2 else true
  | CTenant _ _ => true
  end.
