(* C04 — tie T: the statement skeletons (source-order call / if / assign / return
   events) of the functions that Model/C04.v and Model/C04_Csi.v transcribe, as
   they were when the model was written. Gen/C04.v regenerates the current ones
   from the Go source on every run; [facts_ok] compares them. *)
From Coq Require Import List Bool.
Import ListNotations.
From Verif Require Import Lib.Corr Gen.C04.

(* ---------- tie T: statement skeletons of the transcribed functions ---------- *)
From Coq Require Import String.
Definition ev_eqb (a b : string * string) : bool := String.eqb (fst a) (fst b) && String.eqb (snd a) (snd b).
Definition evs_eqb := list_eqb ev_eqb.
Open Scope string_scope.
Definition exp_overlap_next : list (string * string) :=
  [("if", "!o.ok");
   ("return", "false");
   ("endif", "");
   ("assign", "o.currI++");
   ("call", "len");
   ("if", "o.currI < len(o.replicas)");
   ("return", "true");
   ("endif", "");
   ("assign", "o.currI = 0");
   ("assign", "o.replicas = o.replicas[:0]");
   ("call", "append");
   ("assign", "o.replicas = append(o.replicas, nil)");
   ("call", "o.set.Next");
   ("assign", "o.ok = o.set.Next()");
   ("if", "!o.ok");
   ("return", "false");
   ("endif", "");
   ("decl", "var chunks");
   ("call", "o.set.At");
   ("assign", "o.currLabels, chunks = o.set.At()");
   ("call", "len");
   ("if", "len(chunks) == 0");
   ("return", "true");
   ("endif", "");
   ("call", "append");
   ("assign", "o.replicas[0] = append(o.replicas[0], chunks[0])");
   ("label", "chunksLoop");
   ("define", "i := 1");
   ("call", "len");
   ("for", "i < len(chunks)");
   ("define", "currMinTime := chunks[i].MinTime");
   ("for", "range o.replicas");
   ("call", "len");
   ("call", "len");
   ("if", "len(o.replicas[ri]) == 0 || o.replicas[ri][len(o.replicas[ri])-1].MaxTime < currMinTime");
   ("call", "append");
   ("assign", "o.replicas[ri] = append(o.replicas[ri], chunks[i])");
   ("branch", "continue chunksLoop");
   ("endif", "");
   ("endfor", "");
   ("call", "append");
   ("assign", "o.replicas = append(o.replicas, []storepb.AggrChunk{chunks[i]})");
   ("assign", "i++");
   ("endfor", "");
   ("return", "true")].
Definition exp_dedup_next : list (string * string) :=
  [("call", "it.lastFloatVal");
   ("define", "lastFloatVal, isFloatVal := it.lastFloatVal()");
   ("define", "lastUseA := it.useA");
   ("defer", "funclit");
   ("if", "it.useA != lastUseA && isFloatVal");
   ("call", "it.adjustAtValue");
   ("endif", "");
   ("enddefer", "funclit");
   ("if", "it.aval != chunkenc.ValNone");
   ("call", "it.a.Seek");
   ("assign", "it.aval = it.a.Seek(it.lastT + 1 + it.penA)");
   ("endif", "");
   ("if", "it.bval != chunkenc.ValNone");
   ("call", "it.b.Seek");
   ("assign", "it.bval = it.b.Seek(it.lastT + 1 + it.penB)");
   ("endif", "");
   ("if", "it.aval == chunkenc.ValNone");
   ("assign", "it.useA = false");
   ("if", "it.bval != chunkenc.ValNone");
   ("call", "it.b.AtT");
   ("assign", "it.lastT = it.b.AtT()");
   ("assign", "it.lastIter = it.b");
   ("assign", "it.penB = 0");
   ("endif", "");
   ("return", "it.bval");
   ("endif", "");
   ("if", "it.bval == chunkenc.ValNone");
   ("assign", "it.useA = true");
   ("call", "it.a.AtT");
   ("assign", "it.lastT = it.a.AtT()");
   ("assign", "it.lastIter = it.a");
   ("assign", "it.penA = 0");
   ("return", "it.aval");
   ("endif", "");
   ("call", "it.a.AtT");
   ("define", "ta := it.a.AtT()");
   ("call", "it.b.AtT");
   ("define", "tb := it.b.AtT()");
   ("assign", "it.useA = ta <= tb");
   ("decl", "const initialPenalty");
   ("if", "it.useA");
   ("if", "it.lastT != math.MinInt64");
   ("assign", "it.penB = 2 * (ta - it.lastT)");
   ("else", "");
   ("assign", "it.penB = initialPenalty");
   ("endif", "");
   ("assign", "it.penA = 0");
   ("assign", "it.lastT = ta");
   ("assign", "it.lastIter = it.a");
   ("return", "it.aval");
   ("endif", "");
   ("if", "it.lastT != math.MinInt64");
   ("assign", "it.penA = 2 * (tb - it.lastT)");
   ("else", "");
   ("assign", "it.penA = initialPenalty");
   ("endif", "");
   ("assign", "it.penB = 0");
   ("assign", "it.lastT = tb");
   ("assign", "it.lastIter = it.b");
   ("return", "it.bval")].
Definition exp_dedup_seek : list (string * string) :=
  [("call", "it.Next");
   ("if", "it.lastT == math.MinInt64 && it.Next() == chunkenc.ValNone");
   ("return", "chunkenc.ValNone");
   ("endif", "");
   ("for", "");
   ("call", "it.AtT");
   ("define", "ts := it.AtT()");
   ("if", "ts >= t");
   ("if", "it.useA");
   ("call", "it.a.Seek");
   ("return", "it.a.Seek(ts)");
   ("endif", "");
   ("call", "it.b.Seek");
   ("return", "it.b.Seek(ts)");
   ("endif", "");
   ("call", "it.Next");
   ("if", "it.Next() == chunkenc.ValNone");
   ("return", "chunkenc.ValNone");
   ("endif", "");
   ("endfor", "")].
Definition exp_bounded_next : list (string * string) :=
  [("call", "it.it.Next");
   ("define", "valueType := it.it.Next()");
   ("if", "valueType == chunkenc.ValNone");
   ("return", "chunkenc.ValNone");
   ("endif", "");
   ("call", "it.it.AtT");
   ("define", "t := it.it.AtT()");
   ("if", "t < it.mint");
   ("call", "it.Seek");
   ("if", "it.Seek(it.mint) == chunkenc.ValNone");
   ("return", "chunkenc.ValNone");
   ("endif", "");
   ("call", "it.it.AtT");
   ("assign", "t = it.it.AtT()");
   ("endif", "");
   ("if", "t <= it.maxt");
   ("return", "valueType");
   ("endif", "");
   ("return", "chunkenc.ValNone")].
Definition exp_bounded_seek : list (string * string) :=
  [("if", "t > it.maxt");
   ("return", "chunkenc.ValNone");
   ("endif", "");
   ("if", "t < it.mint");
   ("assign", "t = it.mint");
   ("endif", "");
   ("call", "it.it.Seek");
   ("define", "valueType := it.it.Seek(t)");
   ("if", "valueType == chunkenc.ValNone");
   ("return", "chunkenc.ValNone");
   ("endif", "");
   ("call", "it.it.AtT");
   ("if", "it.it.AtT() > it.maxt");
   ("return", "chunkenc.ValNone");
   ("endif", "");
   ("return", "valueType")].
Definition exp_dedupset_next : list (string * string) :=
  [("call", "s.set.Next");
   ("assign", "s.ok = s.set.Next()");
   ("if", "!s.ok");
   ("call", "len");
   ("return", "len(s.replicas) > 0");
   ("endif", "");
   ("call", "s.set.At");
   ("assign", "s.peek = s.set.At()");
   ("call", "s.peek.Labels");
   ("define", "nextLset := s.peek.Labels()");
   ("call", "labels.Equal");
   ("if", "!labels.Equal(s.lset, nextLset)");
   ("return", "true");
   ("endif", "");
   ("call", "append");
   ("assign", "s.replicas = append(s.replicas, s.peek)");
   ("call", "s.next");
   ("return", "s.next()")].
Definition exp_csi_next : list (string * string) :=
  [("call", "it.AtT");
   ("define", "lastT := it.AtT()");
   ("call", "it.chunks[it.i].Next");
   ("define", "valueType := it.chunks[it.i].Next()");
   ("if", "valueType != chunkenc.ValNone");
   ("assign", "it.lastVal = valueType");
   ("return", "valueType");
   ("endif", "");
   ("call", "it.Err");
   ("if", "it.Err() != nil");
   ("return", "chunkenc.ValNone");
   ("endif", "");
   ("call", "len");
   ("if", "it.i >= len(it.chunks)-1");
   ("return", "chunkenc.ValNone");
   ("endif", "");
   ("assign", "it.i++");
   ("assign", "it.cur = it.chunks[it.i]");
   ("call", "it.Seek");
   ("return", "it.Seek(lastT + 1)")].
Definition exp_csi_seek : list (string * string) :=
  [("for", "");
   ("call", "it.AtT");
   ("define", "ct := it.AtT()");
   ("if", "ct >= t");
   ("return", "it.lastVal");
   ("endif", "");
   ("call", "it.Next");
   ("assign", "it.lastVal = it.Next()");
   ("if", "it.lastVal == chunkenc.ValNone");
   ("return", "chunkenc.ValNone");
   ("endif", "");
   ("endfor", "")].
Definition exp_selectfn : list (string * string) :=
  [("call", "q.isDedupEnabled");
   ("if", "q.isDedupEnabled()");
   ("assign", "req.WithoutReplicaLabels = q.replicaLabels");
   ("call", "q.isDedupEnabled");
   ("if", "!q.isDedupEnabled()");
   ("call", "newStoreSeriesSet");
   ("call", "NewPromSeriesSet");
   ("return", "NewPromSeriesSet( newStoreSeriesSet(resp.seriesSet), q.mint, q.maxt, aggrs, warns, ), resp.seriesSetStats, nil");
   ("call", "newStoreSeriesSet");
   ("call", "dedup.NewOverlapSplit");
   ("call", "NewPromSeriesSet");
   ("define", "set := NewPromSeriesSet( dedup.NewOverlapSplit(newStoreSeriesSet(resp.seriesSet)), q.mint, q.maxt, aggrs, warns, )");
   ("call", "dedup.NewSeriesSet");
   ("return", "dedup.NewSeriesSet(set, hints.Func, q.deduplicationFunc), resp.seriesSetStats, nil")].
Close Scope string_scope.
(* the source, as it is now, has exactly the statements the model transcribes *)
Definition facts_ok : bool :=
  evs_eqb ev_overlap_next exp_overlap_next
  && evs_eqb ev_dedup_next exp_dedup_next
  && evs_eqb ev_dedup_seek exp_dedup_seek
  && evs_eqb ev_bounded_next exp_bounded_next
  && evs_eqb ev_bounded_seek exp_bounded_seek
  && evs_eqb ev_dedupset_next exp_dedupset_next
  && evs_eqb ev_csi_next exp_csi_next
  && evs_eqb ev_csi_seek exp_csi_seek
  && evs_eqb ev_selectfn exp_selectfn.
