(* C30 — model of pkg/compact/planner.go: tsdbBasedPlanner.plan, selectMetas,
   selectOverlappingMetas, splitByRange, the tombstone rule, and
   largeTotalIndexSizeFilter.plan.  Executable definitions only.
   The three one-line integer decisions (start of the aligned window, the
   "does not fit the window" test, the "range not yet full" test) are NOT
   written here: they are regenerated from the Go source into Gen/C30.v. *)
From Coq Require Import ZArith List Bool Lia.
Import ListNotations.
From Verif Require Import Lib.Corr Lib.Compact_List Gen.C30.
Open Scope Z_scope.

(* a block meta as far as the planner looks at it.  [bid] is the ULID
   (the harness numbers the ULIDs of a case 1,2,3,...). *)
Record meta := mk_meta {
  bid : Z; mint : Z; maxt : Z; failed : bool; tomb : Z; nseries : Z; isize : Z }.

Definition marked (marks : list Z) (m : meta) : bool := existsb (Z.eqb (bid m)) marks.
Definition unmarked (marks : list Z) (m : meta) : bool := negb (marked marks m).

(* ---- selectOverlappingMetas -------------------------------------------
   One Go loop with the mode "len(overlappingMetas) > 0"; the two modes are the
   two functions below.  [g] is globalMaxt. *)
Fixpoint ov_take (g : Z) (l : list meta) : list meta :=
  match l with
  | [] => []
  | m :: r => if mint m <? g then m :: ov_take (Z.max g (maxt m)) r else []
  end.

Fixpoint ov_scan (prev : meta) (g : Z) (l : list meta) : list meta :=
  match l with
  | [] => []
  | m :: r => if mint m <? g then prev :: m :: ov_take (Z.max g (maxt m)) r
              else ov_scan m (Z.max g (maxt m)) r
  end.

Definition select_overlapping (l : list meta) : list meta :=
  match l with
  | [] => []
  | m0 :: r => ov_scan m0 (maxt m0) r
  end.

(* ---- splitByRange ------------------------------------------------------ *)
(* inner `for ; i < len; i++ { if MaxTime > t0+tr {break}; group = append }` *)
Fixpoint take_fit (t0 tr : Z) (l : list meta) : list meta * list meta :=
  match l with
  | [] => ([], [])
  | m :: r => if splitByRange_break (maxt m) t0 tr then ([], l)
              else let (g, rest) := take_fit t0 tr r in (m :: g, rest)
  end.

(* outer loop; fuel = number of blocks still to look at *)
Fixpoint sbr (fuel : nat) (l : list meta) (tr : Z) : list (list meta) :=
  match fuel with
  | O => []
  | S f =>
    match l with
    | [] => []
    | m :: r =>
      let t0 := splitByRange_t0 (mint m) tr in
      if splitByRange_skip (maxt m) t0 tr then sbr f r tr
      else let (g, rest) := take_fit t0 tr r in (m :: g) :: sbr f rest tr
    end
  end.

Definition split_by_range (l : list meta) (tr : Z) : list (list meta) := sbr (length l) l tr.

(* ---- selectMetas ------------------------------------------------------- *)
(* the "excluded" loop over one part p: [cur] is p[lastExcluded:i] reversed *)
Fixpoint first_seg (marks : list Z) (cur : list meta) (p : list meta) : option (list meta) :=
  match p with
  | [] => if (2 <=? length cur)%nat then Some (rev cur) else None
  | m :: r =>
    if marked marks m then
      (if (2 <=? length cur)%nat then Some (rev cur) else first_seg marks [] r)
    else first_seg marks (m :: cur) r
  end.

Definition dummy : meta := mk_meta 0 0 0 false 0 0 0.

Definition try_part (marks : list Z) (iv high : Z) (p : list meta) : option (list meta) :=
  if existsb failed p then None
  else if (length p <? 2)%nat then None
  else
    let mn := mint (hd dummy p) in
    let mx := maxt (last p dummy) in
    if selectMetas_skip mn mx iv high then None
    else first_seg marks [] p.

Definition select_metas (ranges marks : list Z) (l : list meta) : list meta :=
  match ranges with
  | [] | [_] => []
  | _ :: rs =>
    match l with
    | [] => []
    | _ =>
      let high := mint (last l dummy) in
      match first_some (fun iv => first_some (try_part marks iv high) (split_by_range l iv)) rs with
      | Some p => p
      | None => []
      end
    end
  end.

(* ---- tombstone rule ------------------------------------------------------
   float64(NumTombstones)/float64(NumSeries+1) > 0.05, exact for the
   magnitudes that occur (see props/C30.json). *)
Definition heavy (m : meta) : bool := nseries m + 1 <? 20 * tomb m.

(* loop `for i := len-1; i >= 0; i--` over the reversed list; [thr] is
   ranges[len(ranges)/2] (None: index out of range = panic) *)
Fixpoint tomb_loop (thr : option Z) (l : list meta) : option (list meta) :=
  match l with
  | [] => Some []
  | m :: r =>
    match thr with
    | None => None
    | Some t => if maxt m - mint m <? t then Some []
                else if heavy m then Some [m] else tomb_loop thr r
    end
  end.

Definition mid_range (ranges : list Z) : option Z := nth_error ranges (Nat.div (length ranges) 2).

(* ---- tsdbBasedPlanner.plan; None = the Go code panics ---------------- *)
Definition plan (ranges marks : list Z) (l : list meta) : option (list meta) :=
  match l with
  | [] => None
  | _ =>
    let ne := filter (unmarked marks) l in
    match select_overlapping ne with
    | (_ :: _) as res => Some res
    | [] =>
      let ne' := if marked marks (last l dummy) then ne else removelast ne in
      match select_metas ranges marks (removelast l) with
      | (_ :: _) as res => Some res
      | [] => tomb_loop (mid_range ranges) (rev ne')
      end
    end
  end.

(* ---- applying a plan: the planned blocks are replaced by one block spanning
   them (what Group.compact uploads: MinTime = min, MaxTime = max of the
   sources; tombstones are gone after a rewrite), kept sorted by MinTime ---- *)
Definition hull (p : list meta) (newid : Z) : meta :=
  mk_meta newid
    (fold_right Z.min (mint (hd dummy p)) (map mint p))
    (fold_right Z.max (maxt (hd dummy p)) (map maxt p))
    false 0 (fold_right Z.add 0 (map nseries p)) (fold_right Z.add 0 (map isize p)).

Fixpoint insert_by_mint (b : meta) (l : list meta) : list meta :=
  match l with
  | [] => [b]
  | m :: r => if mint b <? mint m then b :: l else m :: insert_by_mint b r
  end.

Definition in_plan (p : list meta) (m : meta) : bool := existsb (fun q => bid q =? bid m) p.

Definition apply_plan (l p : list meta) (newid : Z) : list meta :=
  insert_by_mint (hull p newid) (filter (fun m => negb (in_plan p m)) l).

(* plan / apply until the planner has nothing to do *)
Fixpoint iterate (fuel : nat) (ranges marks : list Z) (l : list meta) (newid : Z)
  : option (list (list Z) * list meta) :=
  match fuel with
  | O => None
  | S f =>
    match plan ranges marks l with
    | None => None
    | Some [] => Some ([], l)
    | Some p =>
      match iterate f ranges marks (apply_plan l p newid) (newid + 1) with
      | Some (h, fin) => Some (map bid p :: h, fin)
      | None => None
      end
    end
  end.

(* the decreasing measure: 2*|blocks| + number of tombstone-heavy blocks *)
Definition measure (l : list meta) : nat := (2 * length l + length (filter heavy l))%nat.

(* ---- largeTotalIndexSizeFilter.plan -------------------------------------
   scan of one plan: running total, biggest index so far; Some id = mark that
   block and plan again.  [lim] = int64(float64(totalMax)*0.85) is computed by
   the real code and handed over by the harness. *)
Fixpoint idx_scan (lim total mx : Z) (big : Z) (p : list meta) : option Z :=
  match p with
  | [] => None
  | m :: r =>
    let big' := if mx <? isize m then bid m else big in
    let mx' := Z.max mx (isize m) in
    let total' := total + isize m in
    if total' >=? lim then Some big' else idx_scan lim total' mx' big' r
  end.

Definition int64_min : Z := - 2 ^ 63.

(* returns the final plan and the ids marked on the way, in order *)
Fixpoint idx_plan (fuel : nat) (ranges marks : list Z) (lim : Z) (l : list meta)
  : option (option (list meta) * list Z) :=
  match fuel with
  | O => None
  | S f =>
    match plan ranges marks l with
    | None => Some (None, [])
    | Some p =>
      match idx_scan lim 0 int64_min (bid (hd dummy p)) p with
      | None => Some (Some p, [])
      | Some b =>
        match idx_plan f ranges (b :: marks) lim l with
        | Some (res, ms) => Some (res, b :: ms)
        | None => None
        end
      end
    end
  end.

(* ---- predicates on implementation observables ---------------------------- *)
Definition find_meta (l : list meta) (i : Z) : option meta := find (fun m => bid m =? i) l.

Fixpoint lookup_all (l : list meta) (ids : list Z) : option (list meta) :=
  match ids with
  | [] => Some []
  | i :: r => match find_meta l i, lookup_all l r with
              | Some m, Some ms => Some (m :: ms)
              | _, _ => None
              end
  end.

(* is [a] a subsequence of [b] (by block id)? *)
Fixpoint subseq_ids (a : list Z) (b : list meta) : bool :=
  match a, b with
  | [], _ => true
  | _ :: _, [] => false
  | x :: a', m :: b' => if x =? bid m then subseq_ids a' b' else subseq_ids a b'
  end.

(* all blocks of p inside one aligned window [t0, t0+iv]: the span of p starts
   in the window that contains its end *)
Definition fits_window (iv : Z) (p : list meta) : bool :=
  match p with
  | [] => true
  | _ => let h := hull p 0 in maxt h <=? splitByRange_t0 (mint h) iv + iv
  end.

Definition size_ok (ranges : list Z) (p : list meta) : bool :=
  match p with
  | [] => true
  | [m] => heavy m && match mid_range ranges with Some t => t <=? maxt m - mint m | None => false end
  | _ => true
  end.

Definition plan_pred (ranges marks : list Z) (l : list meta) (out : list Z) : bool :=
  match lookup_all l out with
  | None => false                                  (* names a block that is not in the group *)
  | Some p =>
    size_ok ranges p
    && forallb (unmarked marks) p
    && subseq_ids out l
    && (match select_overlapping (filter (unmarked marks) l) with
        | [] => subseq_ids out (removelast l)
                && ((length p <? 2)%nat || existsb (fun iv => fits_window iv p) (tl ranges))
        | _ => true
        end)
  end.

Inductive case :=
| CPlan (ranges marks : list Z) (l : list meta) (out : option (list Z))
| CIter (ranges marks : list Z) (l : list meta) (newid : Z) (hist : list (list Z))
| CIndex (ranges marks : list Z) (lim : Z) (l : list meta) (out : option (list Z)) (newmarks : list Z).

Definition ids_eqb := list_eqb Z.eqb.

Definition corr_ok (c : case) : bool :=
  match c with
  | CPlan ranges marks l out =>
      option_eqb ids_eqb (option_map (map bid) (plan ranges marks l)) out
  | CIter ranges marks l newid hist =>
      match iterate (S (measure l)) ranges marks l newid with
      | Some (h, _) => list_eqb ids_eqb h hist
      | None => false
      end
  | CIndex ranges marks lim l out newmarks =>
      match idx_plan (S (length l)) ranges marks lim l with
      | Some (res, ms) => option_eqb ids_eqb (option_map (map bid) res) out && ids_eqb ms newmarks
      | None => false
      end
  end.

(* replay the implementation's own plans through apply_plan *)
Fixpoint replay_pred (ranges marks : list Z) (l : list meta) (newid : Z) (hist : list (list Z)) : bool :=
  match hist with
  | [] => match select_overlapping (filter (unmarked marks) l) with [] => true | _ => false end
  | out :: h =>
    match out, lookup_all l out with
    | _ :: _, Some p => plan_pred ranges marks l out && replay_pred ranges marks (apply_plan l p newid) (newid + 1) h
    | _, _ => false
    end
  end.

(* the state after replaying the implementation's plans *)
Fixpoint replay_fin (l : list meta) (newid : Z) (hist : list (list Z)) : option (list meta) :=
  match hist with
  | [] => Some l
  | out :: h =>
    match lookup_all l out with
    | Some p => replay_fin (apply_plan l p newid) (newid + 1) h
    | None => None
    end
  end.

(* boolean form of "every block lies inside one window of the largest range, ranges
   positive and each dividing the largest, blocks sorted and of positive length" *)
Definition max_range (ranges : list Z) : Z := fold_right Z.max 0 ranges.

Definition in_max_window (R : Z) (m : meta) : bool := maxt m <=? R * (mint m / R) + R.

Fixpoint sorted_mint_b (l : list meta) : bool :=
  match l with
  | [] => true
  | a :: r => forallb (fun b => mint a <=? mint b) r && sorted_mint_b r
  end.

Definition win_regime (ranges : list Z) (l : list meta) : bool :=
  let R := max_range ranges in
  forallb (fun iv => (0 <? iv) && (R mod iv =? 0)) ranges
  && sorted_mint_b l && forallb (fun m => mint m <? maxt m) l && forallb (in_max_window R) l.

Definition pred_ok (c : case) : bool :=
  match c with
  | CPlan ranges marks l out =>
      match l, ranges, out with
      | [], _, _ => true                 (* outside the domain: the callers never plan an empty group *)
      | _, [], _ => true                 (* no range configured: rejected at start-up *)
      | _, _, None => false              (* panic on a non-empty group *)
      | _, _, Some ids => plan_pred ranges marks l ids
      end
  | CIter ranges marks l newid hist =>
      (length hist <=? measure l)%nat && replay_pred ranges marks l newid hist
      && (if win_regime ranges l then
            match replay_fin l newid hist with
            | Some fin => forallb (in_max_window (max_range ranges)) fin
            | None => false
            end
          else true)
  | CIndex ranges marks lim l out newmarks =>
      match l, ranges, out with
      | [], _, _ => true
      | _, [], _ => true
      | _, _, None => false
      | _, _, Some ids =>
          plan_pred ranges (newmarks ++ marks) l ids
          && (length newmarks <=? length l)%nat
          && match lookup_all l ids with
             | Some p => (fold_right Z.add 0 (map isize p) <? lim) || match p with [] => true | _ => false end
             | None => false
             end
      end
  end.
