(* C46 — model of pkg/alert/alert.go Queue (Push / Pop with the one-slot
   channel morec) as a labelled transition system over atomic steps:
     push l    the whole body of Push (runs under q.mtx, signals inside it)
     take      the `case <-q.morec` of Pop's select: consumes the token, before
               the mutex is taken (statement order: Gen.C46.Pop_stmts)
     crit out  the critical section of Pop: takes at most maxBatchSize alerts,
               re-signals when alerts remain
   Any number of pushers and poppers: [mid] counts the poppers that hold a
   consumed token and have not yet run their critical section.
   Alerts are integers; [keep a] says whether the relabel configuration keeps
   alert [a] (parameter). Executable definitions only. *)
From Coq Require Import NArith ZArith List Bool.
Import ListNotations.
From Verif Require Import Lib.Corr Gen.C46.
Open Scope Z_scope.

Record st := St { q : list Z; tok : bool; mid : nat }.

Definition init : st := St [] false 0.

Definition len {A} (l : list A) : Z := Z.of_nat (length l).
Definition dropn {A} (d : Z) (l : list A) : list A := skipn (Z.to_nat d) l.

Section Steps.
  Variable cap batch : Z.
  Variable keep : Z -> bool.

  (* Push *)
  Definition push (s : st) (alerts : list Z) : st :=
    match alerts with
    | [] => s                                           (* len(alerts) == 0: return *)
    | _ =>
      let al := filter keep alerts in                   (* relabel.Process ... keep *)
      match al with
      | [] => s                                         (* nothing left: return, no signal *)
      | _ =>
        let d := len al - cap in
        let al := if d >? 0 then dropn d al else al in  (* batch larger than the capacity *)
        let d2 := len (q s) + len al - cap in
        let qu := if d2 >? 0 then dropn d2 (q s) else q s in   (* drop the oldest *)
        St (qu ++ al) true (mid s)                      (* append; non-blocking send *)
      end
    end.

  (* Pop, first half: receive from morec *)
  Definition take (s : st) : option st :=
    if tok s then Some (St (q s) false (S (mid s))) else None.

  (* Pop, second half *)
  Definition crit (s : st) : option (st * list Z) :=
    match mid s with
    | O => None
    | S m =>
      let n := Z.to_nat batch in
      let out := firstn n (q s) in
      let rest := skipn n (q s) in
      let t := match rest with [] => tok s | _ => true end in
      Some (St rest t m, out)
    end.

  (* LTerm: a popper waiting in Pop's select sees its termination channel and
     returns nil WITHOUT having received the token: nothing changes. Once a
     popper has received the token (LTake) it always goes on to LCrit. *)
  Inductive label := LPush (alerts : list Z) | LTake | LCrit (out : list Z) | LTerm.

  Definition zlist_eqb := list_eqb Z.eqb.

  (* one step; a crit label must carry the batch the step produces *)
  Definition step (s : st) (l : label) : option st :=
    match l with
    | LPush a => Some (push s a)
    | LTake => take s
    | LTerm => Some s
    | LCrit out =>
      match crit s with
      | Some (s', o) => if zlist_eqb o out then Some s' else None
      | None => None
      end
    end.

  Fixpoint run (s : st) (tr : list label) : option st :=
    match tr with
    | [] => Some s
    | l :: tr' => match step s l with Some s' => run s' tr' | None => None end
    end.

  (* ghost history of a trace *)
  Fixpoint kept (tr : list label) : list Z :=
    match tr with
    | [] => []
    | LPush a :: tr' => filter keep a ++ kept tr'
    | _ :: tr' => kept tr'
    end.

  Fixpoint popped (tr : list label) : list Z :=
    match tr with
    | [] => []
    | LCrit out :: tr' => out ++ popped tr'
    | _ :: tr' => popped tr'
    end.

  (* a sequential call of Pop *)
  Definition pop (s : st) : option (st * list Z) :=
    match take s with Some s' => crit s' | None => None end.
End Steps.


(* ---- cases ---- *)

(* observed state after an operation: queue contents and token *)
Definition ostate := (list Z * bool)%type.

Inductive op :=
| OPush (alerts : list Z) (after : ostate)
| OPop (out : list Z) (after : ostate)
| OPopBlocked (after : ostate).

Inductive case :=
(* operations executed one after the other on a fresh queue *)
| CSeq (cap batch : Z) (ops : list op)
(* Pop started on the empty queue, then one Push *)
| CWake (cap batch : Z) (alerts : list Z) (woken : bool) (out : list Z) (after : ostate)
(* concurrent pushers (ids p*10^6 + i) and poppers, capacity >= number of alerts *)
| CConc (cap batch pushers per_pusher : Z) (batches : list (list (list Z))) (completed : bool)
(* [pre] pushes executed one after the other; then Pop is started with the queue
   mutex held by the harness (it receives the token and blocks on the mutex) and
   the pushes [mids] are started one by one, each blocking on the mutex; the
   mutex is released; observed: Pop's batch and the final queue and token. The
   order in which the blocked calls got the mutex is not observed. With [term]
   the popper's termination channel is closed while it waits for the mutex
   (after it received the token); [nilret]: Pop returned nil. *)
| CMid (cap batch : Z) (pre mids : list (list Z)) (term : bool) (out : list Z) (nilret : bool) (after : ostate)
| CSkip.

(* negative ids carry the label the relabel configuration drops *)
Definition keep_nonneg (a : Z) : bool := 0 <=? a.

Definition ostate_eqb (s : st) (o : ostate) : bool :=
  list_eqb Z.eqb (q s) (fst o) && Bool.eqb (tok s) (snd o) && Nat.eqb (mid s) 0.

Fixpoint seq_ok (cap batch : Z) (s : st) (ops : list op) : bool :=
  match ops with
  | [] => true
  | OPush a after :: r =>
    let s' := push cap keep_nonneg s a in
    ostate_eqb s' after && seq_ok cap batch s' r
  | OPop out after :: r =>
    match pop batch s with
    | Some (s', o) => list_eqb Z.eqb o out && ostate_eqb s' after && seq_ok cap batch s' r
    | None => false
    end
  | OPopBlocked after :: r =>
    negb (tok s) && ostate_eqb s after && seq_ok cap batch s r
  end.

(* all ways to insert x into l *)
Fixpoint inserts {A} (x : A) (l : list A) : list (list A) :=
  match l with
  | [] => [[x]]
  | y :: r => (x :: l) :: map (cons y) (inserts x r)
  end.

Fixpoint perms {A} (l : list A) : list (list A) :=
  match l with
  | [] => [[]]
  | x :: r => concat (map (inserts x) (perms r))
  end.

(* candidate schedules of a CMid run: the pushes in any order, Pop's critical
   section at any position among them *)
Definition mid_candidates (pre mids : list (list Z)) (out : list Z) : list (list label) :=
  map (fun tl => map LPush pre ++ LTake :: tl)
      (concat (map (inserts (LCrit out)) (perms (map LPush mids)))).

Definition accepts (cap batch : Z) (tr : list label) (after : ostate) : bool :=
  match run cap batch keep_nonneg init tr with
  | Some s => ostate_eqb s after
  | None => false
  end.

Definition corr_ok (c : case) : bool :=
  match c with
  | CSeq cap batch ops => seq_ok cap batch init ops
  | CWake cap batch alerts woken out after =>
      (* model: the push happens, then the blocked popper (if the token is set) takes and pops *)
      let s1 := push cap keep_nonneg init alerts in
      match pop batch s1 with
      | Some (s2, o) => woken && list_eqb Z.eqb o out && ostate_eqb s2 after
      | None => negb woken && ostate_eqb s1 after
      end
  | CConc _ _ _ _ _ _ => true      (* schedule chosen by the Go runtime: only the predicate applies *)
  | CMid cap batch pre mids _ out nilret after =>
      (* a popper holding the token never gives up; the observation is explained by
         one of the schedules of the model *)
      negb nilret &&
      existsb (fun tr => accepts cap batch tr after) (mid_candidates pre mids out)
  | CSkip => true
  end.

(* ---- the property's predicate on the implementation's own observables ---- *)

Definition op_after (o : op) : ostate :=
  match o with OPush _ a => a | OPop _ a => a | OPopBlocked a => a end.

Fixpoint is_suffix (s l : list Z) : bool :=
  list_eqb Z.eqb s l || match l with [] => false | _ :: l' => is_suffix s l' end.

Fixpoint is_subseq (s l : list Z) : bool :=
  match s, l with
  | [], _ => true
  | _, [] => false
  | x :: s', y :: l' => if x =? y then is_subseq s' l' else is_subseq s l'
  end.

(* kept pushes and popped alerts of an observed sequential run *)
Fixpoint ops_kept (ops : list op) : list Z :=
  match ops with
  | [] => []
  | OPush a _ :: r => filter keep_nonneg a ++ ops_kept r
  | _ :: r => ops_kept r
  end.
Fixpoint ops_popped (ops : list op) : list Z :=
  match ops with
  | [] => []
  | OPop out _ :: r => out ++ ops_popped r
  | _ :: r => ops_popped r
  end.

(* after every prefix of the run: bounded, batch size, token while non-empty,
   queue = the newest kept alerts, popped alerts in push order *)
Fixpoint prefixes {A} (l : list A) : list (list A) :=
  match l with [] => [[]] | x :: r => [] :: map (cons x) (prefixes r) end.

Definition prefix_ok (cap batch : Z) (ops : list op) : bool :=
  match rev ops with
  | [] => true
  | last_op :: _ =>
    let after := op_after last_op in
    (len (fst after) <=? cap)
    && (match fst after with [] => true | _ => snd after end)
    && (match last_op with OPop out _ => len out <=? batch | _ => true end)
    && is_suffix (fst after) (ops_kept ops)
    && is_subseq (ops_popped ops ++ fst after) (ops_kept ops)
  end.

(* exact accounting between consecutive observed states: a push leaves the newest
   min(cap, ...) of (queue ++ kept alerts) — nothing is dropped unless the
   capacity forces it, and then the oldest go first; a pop removes a prefix and
   returns exactly it *)
Definition lastn {A} (n : nat) (l : list A) : list A := skipn (length l - n) l.

Fixpoint steps_exact (cap : Z) (prev : list Z) (ops : list op) : bool :=
  match ops with
  | [] => true
  | OPush a after :: r =>
    let all := prev ++ filter keep_nonneg a in
    list_eqb Z.eqb (fst after) (lastn (Z.to_nat (Z.min cap (len all))) all)
    && steps_exact cap (fst after) r
  | OPop out after :: r =>
    list_eqb Z.eqb (out ++ fst after) prev && steps_exact cap (fst after) r
  | OPopBlocked after :: r =>
    list_eqb Z.eqb (fst after) prev && steps_exact cap (fst after) r
  end.

Fixpoint seqZ (from : Z) (n : nat) : list Z :=
  match n with O => [] | S k => from :: seqZ (from + 1) k end.

Fixpoint count_occ_z (x : Z) (l : list Z) : nat :=
  match l with [] => O | y :: r => (if x =? y then 1 else 0) + count_occ_z x r end.

(* the property on a schedule and what was observed at its end, with no popper
   left between its two halves: capacity, batch sizes, token while non-empty,
   the queue is the newest part of the kept pushes, the popped alerts and the
   queue are in push order *)
Definition crit_sizes_ok (batch : Z) (tr : list label) : bool :=
  forallb (fun l => match l with LCrit out => len out <=? batch | _ => true end) tr.

Definition obs_pred (cap batch : Z) (tr : list label) (after : ostate) : bool :=
  (len (fst after) <=? cap)
  && (match fst after with [] => true | _ => snd after end)
  && crit_sizes_ok batch tr
  && is_suffix (fst after) (kept keep_nonneg tr)
  && is_subseq (popped tr ++ fst after) (kept keep_nonneg tr).

Definition pred_ok (c : case) : bool :=
  match c with
  | CSeq cap batch ops => forallb (prefix_ok cap batch) (prefixes ops) && steps_exact cap [] ops
  | CWake cap batch alerts woken out after =>
      let k := filter keep_nonneg alerts in
      (* alerts were queued => the waiting popper was woken *)
      ((match k with [] => true | _ => false end) || (cap <=? 0) || woken)
      && (len out <=? batch) && (len (fst after) <=? cap)
      && is_subseq (out ++ fst after) k
      && (match fst after with [] => true | _ => snd after end)
  | CConc cap batch pushers per_pusher batches completed =>
      let all := concat (concat batches) in
      completed
      && forallb (fun bs => forallb (fun b => len b <=? batch) bs) batches
      (* every alert of every pusher exactly once *)
      && forallb (fun p => forallb (fun i => Nat.eqb (count_occ_z (p * 1000000 + i) all) 1)
                                   (seqZ 0 (Z.to_nat per_pusher)))
                 (seqZ 0 (Z.to_nat pushers))
      && Nat.eqb (length all) (Z.to_nat (pushers * per_pusher))
      (* each popper sees each pusher's alerts in push order *)
      && forallb (fun bs =>
           forallb (fun p =>
             let mine := filter (fun a => (p * 1000000 <=? a) && (a <? (p + 1) * 1000000)) (concat bs) in
             is_subseq mine (map (fun i => p * 1000000 + i) (seqZ 0 (Z.to_nat per_pusher))))
             (seqZ 0 (Z.to_nat pushers))) batches
  | CMid cap batch pre mids _ out _ after =>
      (* holds for the order in which the blocked calls actually ran: one of the candidates *)
      existsb (fun tr => obs_pred cap batch tr after) (mid_candidates pre mids out)
  | CSkip => true
  end.
