(* C40 — model of pkg/dedup/chunk_iter.go for downsampled (aggregate) chunks:
   overlappingMerger.addChunk / iterator (ChunkEncAggr arm), newAggrChunkIterator,
   aggrChunkIterator.Next and toChunk (WITH repo_patches/C40-fix.patch: toChunk
   keeps the sample it read beyond maxTime for the next output chunk), on one
   group of mutually overlapping aggregate chunks as dedupChunksIterator.Next
   assembles it (base chunk = the one popped first, the others in heap order).
   Per aggregate the samples are merged by the penalty iterator of
   Lib/Dedup_Iter.v (shared with C01; non-counter mode); the count aggregate is
   re-chunked by storage.NewSeriesToChunkEncoder (a cut every
   seriesToChunkEncoderSplit samples; constant from Gen/C40.v).
   Executable definitions only. *)
From Coq Require Import ZArith List Bool String.
Import ListNotations.
From Verif Require Import Lib.Corr Lib.Dedup_Iter Gen.C40.
Open Scope Z_scope.

Definition cfg : pcfg := mkCfg initialPenalty penA_formula penB_formula.

(* an aggregate chunk: the samples of count, sum, min, max, counter (None = aggregate absent) *)
Definition achunk := list (option (list sample)).
Definition aggr (i : nat) (c : achunk) : option (list sample) := nth i c None.

(* overlappingMerger: aggrIterators[i] = the overlapping chunks' iterators in
   the order they were added, then the base chunk's; merged left to right *)
Definition agg_lists (i : nat) (base : achunk) (others : list achunk) : list (list sample) :=
  flat_map (fun c => match aggr i c with Some l => [l] | None => [] end) others
  ++ match aggr i base with Some l => [l] | None => [] end.

Definition agg_iter (i : nat) (base : achunk) (others : list achunk) : option iter :=
  match agg_lists i base others with
  | [] => None
  | f :: r => Some (tower false cfg f r)
  end.

(* storage.NewSeriesToChunkEncoder: cut the drained series every [split] samples *)
Fixpoint cut_loop (fuel : nat) (n : nat) (l : list sample) : list (list sample) :=
  match fuel with
  | O => []
  | S f => match l with
           | [] => []
           | _ => firstn n l :: cut_loop f n (skipn n l)
           end
  end.
Definition cut (n : nat) (l : list sample) : list (list sample) := cut_loop (List.length l) n l.

Definition first_t (l : list sample) : Z := match l with [] => 0 | s :: _ => ts s end.
Definition last_t (l : list sample) : Z := ts (last l (0, 0)).

(* state of one non-count aggregate: the shared sample iterator and whether it
   has been advanced to its first sample yet *)
Record astate := mkA { a_started : bool; a_it : iter }.

(* the loop of toChunk (repaired): append the samples up to maxTime that are not
   before minTime; stop AT the first sample beyond maxTime without consuming it *)
Fixpoint to_chunk_loop (o : iobj) (fuel : nat) (x : X o) (mint maxt : Z) (racc : list sample)
  : X o * list sample :=
  match fuel with
  | O => (x, racc)
  | S f =>
    if valid o x then
      let s := at_ o x in
      if ts s >? maxt then (x, racc)
      else to_chunk_loop o f (next o x) mint maxt (if ts s >=? mint then s :: racc else racc)
    else (x, racc)
  end.

Definition to_chunk (counter : bool) (st : astate) (mint maxt : Z) : astate * option (list sample) :=
  let o := io (a_it st) in
  let x0 := if a_started st then ist (a_it st) else next o (ist (a_it st)) in
  let '(x1, racc) := to_chunk_loop o (S (size o x0)) x0 mint maxt [] in
  (mkA true (mkIter o x1),
   match racc with
   | [] => None                     (* no sample in the required time range *)
   | l :: _ => Some (rev (if counter then l :: racc else racc))   (* counter: last sample once more *)
   end).

(* one output chunk: time range and the five aggregates *)
Definition ochunk := (Z * Z * list (option (list sample)))%type.

Definition opt_to_chunk (counter : bool) (st : option astate) (mint maxt : Z)
  : option astate * option (list sample) :=
  match st with
  | None => (None, None)
  | Some s => let '(s', c) := to_chunk counter s mint maxt in (Some s', c)
  end.

(* aggrChunkIterator.Next for every chunk of the re-chunked count aggregate *)
Fixpoint windows (ws : list (list sample)) (s1 s2 s3 s4 : option astate) : list ochunk :=
  match ws with
  | [] => []
  | w :: r =>
    let mint := first_t w in
    let maxt := last_t w in
    let '(s1', c1) := opt_to_chunk false s1 mint maxt in
    let '(s2', c2) := opt_to_chunk false s2 mint maxt in
    let '(s3', c3) := opt_to_chunk false s3 mint maxt in
    let '(s4', c4) := opt_to_chunk true s4 mint maxt in
    (mint, maxt, [Some w; c1; c2; c3; c4]) :: windows r s1' s2' s3' s4'
  end.

Definition init_state (i : nat) (base : achunk) (others : list achunk) : option astate :=
  option_map (mkA false) (agg_iter i base others).

(* the chunks produced for one overlap group; None = the count aggregate could not be drained *)
Definition merge_group (base : achunk) (others : list achunk) : option (list ochunk) :=
  match agg_iter 0 base others with
  | None => None
  | Some ci =>
    match drain ci with
    | None => None
    | Some cnt =>
      Some (windows (cut (Z.to_nat seriesToChunkEncoderSplit) cnt)
              (init_state 1 base others) (init_state 2 base others)
              (init_state 3 base others) (init_state 4 base others))
    end
  end.

(* ---- dedupChunksIterator.Next over all chunks of the merged series ----
   [chunks] are the chunks of all input series in the order the heap pops them
   (by MinTime). A group = the first chunk (base) and the following chunks whose
   MinTime is not beyond the group's MaxTime so far; a chunk that is byte-identical
   to the previously added one (same time range) is skipped. A group without
   added count aggregates is passed through unchanged. The chunks produced for a
   group all precede the next input chunk, so pushing the group's remaining
   output chunks back into the heap returns them unchanged and in order. *)
Definition c_count (c : achunk) : list sample := match aggr 0 c with Some l => l | None => [] end.
Definition c_mint (c : achunk) : Z := first_t (c_count c).
Definition c_maxt (c : achunk) : Z := last_t (c_count c).
Definition samples_eqb := list_eqb sample_eqb.
Definition achunk_eqb (a b : achunk) : bool := list_eqb (option_eqb samples_eqb) a b.

Fixpoint take_group (omax : Z) (prev : achunk) (rest : list achunk) : list achunk * list achunk :=
  match rest with
  | [] => ([], [])
  | c :: r =>
    if c_mint c >? omax then ([], rest)
    else if achunk_eqb c prev then take_group omax prev r
    else let '(g, r') := take_group (Z.max omax (c_maxt c)) c r in (c :: g, r')
  end.

Definition om_empty (g : list achunk) : bool :=
  forallb (fun c => match aggr 0 c with None => true | Some _ => false end) g.
Definition passthrough (c : achunk) : ochunk := (c_mint c, c_maxt c, c).

Fixpoint merge_series_loop (fuel : nat) (chunks : list achunk) : option (list ochunk) :=
  match chunks with
  | [] => Some []
  | base :: rest =>
    match fuel with
    | O => None
    | S f =>
      let '(grp, rest') := take_group (c_maxt base) base rest in
      let og := if om_empty grp then Some [passthrough base] else merge_group base grp in
      match og, merge_series_loop f rest' with
      | Some a, Some b => Some (a ++ b)
      | _, _ => None
      end
    end
  end.
Definition merge_series (chunks : list achunk) : option (list ochunk) :=
  merge_series_loop (List.length chunks) chunks.

(* ---- source facts (tie T) ---- *)
Open Scope string_scope.
Definition to_chunk_shape_ok : bool :=
  list_eqb String.eqb to_chunk_src
    ["if a.iters[at] == nil"; "if err != nil"; "if !a.started[at]"; "a.vals[at] = it.Next()";
     "for a.vals[at] != chunkenc.ValNone";
     "if t > maxTime"; "break"; "if t >= minTime"; "a.vals[at] = it.Next()"; "if err := it.Err(); err != nil";
     "if c.NumSamples() == 0"; "if at == downsample.AggrCounter"].
Close Scope string_scope.

(* ---- correspondence and predicate ---- *)
(* Compact encoding of the observed data (Coq parses long literal lists slowly):
   an input chunk is its list of timestamps and the values of each aggregate
   (the counter aggregate has one value more: its last timestamp is repeated);
   all timestamps are relative to [base]. *)
Definition enc_chunk := (list Z * list (option (list Z)))%type.

Definition dec_aggr (base : Z) (tsl : list Z) (i : nat) (vs : option (list Z)) : option (list sample) :=
  match vs with
  | None => None
  | Some v =>
    let tl := map (Z.add base) tsl in
    Some (combine (if Nat.eqb i 4 then tl ++ [last tl 0] else tl) v)
  end.
Fixpoint dec_aggrs (base : Z) (tsl : list Z) (i : nat) (l : list (option (list Z))) : achunk :=
  match l with
  | [] => []
  | v :: r => dec_aggr base tsl i v :: dec_aggrs base tsl (S i) r
  end.
Definition dec_chunk (base : Z) (c : enc_chunk) : achunk := dec_aggrs base (fst c) 0 (snd c).

Definition shift_samples (base : Z) (l : list sample) : list sample :=
  map (fun s => (base + fst s, snd s)) l.

(* an output chunk as observed: the count aggregate's samples; every other
   aggregate either by its values only (when its timestamps are exactly the
   count's, for the counter plus the repeated last one) or by its samples *)
Inductive oaggr := OAbsent | OSame (vals : list Z) | OPairs (l : list sample).
Definition enc_ochunk := (Z * Z * list sample * list oaggr)%type.

Definition dec_oaggr (base : Z) (cnt : list sample) (i : nat) (a : oaggr) : option (list sample) :=
  match a with
  | OAbsent => None
  | OPairs l => Some (shift_samples base l)
  | OSame vals =>
    let tl := map (fun s => base + fst s) cnt in
    Some (combine (if Nat.eqb i 4 then tl ++ [last tl 0] else tl) vals)
  end.
Fixpoint dec_oaggrs (base : Z) (cnt : list sample) (i : nat) (l : list oaggr) : list (option (list sample)) :=
  match l with
  | [] => []
  | a :: r => dec_oaggr base cnt i a :: dec_oaggrs base cnt (S i) r
  end.
Definition dec_ochunk (base : Z) (oc : enc_ochunk) : ochunk :=
  let '(m, x, cnt, l) := oc in
  (base + m, base + x, Some (shift_samples base cnt) :: dec_oaggrs base cnt 1 l).

Inductive case :=
| Case (base : Z) (chunks : list enc_chunk) (out : list enc_ochunk).

Definition ochunk_eqb (a b : ochunk) : bool :=
  let '(m1, x1, l1) := a in let '(m2, x2, l2) := b in
  (m1 =? m2) && (x1 =? x2) && list_eqb (option_eqb samples_eqb) l1 l2.

Definition case_input (c : case) : list achunk :=
  match c with Case base chunks _ => map (dec_chunk base) chunks end.
Definition case_output (c : case) : list ochunk :=
  match c with Case base _ out => map (dec_ochunk base) out end.

Definition corr_ok (c : case) : bool :=
  option_eqb (list_eqb ochunk_eqb) (merge_series (case_input c)) (Some (case_output c)).

(* well-formed downsampled input chunk: all five aggregates present, count
   timestamps strictly increasing, sum/min/max at exactly the count's timestamps,
   counter at the count's timestamps plus the repeated last one *)
Definition tss (l : list sample) : list Z := map ts l.
Definition wf_chunk (c : achunk) : bool :=
  match c with
  | [Some cnt; Some sm; Some mn; Some mx; Some ctr] =>
      nonempty cnt && strict_incr cnt
      && list_eqb Z.eqb (tss sm) (tss cnt) && list_eqb Z.eqb (tss mn) (tss cnt)
      && list_eqb Z.eqb (tss mx) (tss cnt)
      && list_eqb Z.eqb (tss ctr) (tss cnt ++ [last_t cnt])
  | _ => false
  end.

(* every aggregate of an output chunk has a sample at each timestamp of its count aggregate *)
Definition ochunk_ok (oc : ochunk) : bool :=
  match oc with
  | (_, _, [Some cnt; Some sm; Some mn; Some mx; Some ctr]) =>
      list_eqb Z.eqb (tss sm) (tss cnt) && list_eqb Z.eqb (tss mn) (tss cnt)
      && list_eqb Z.eqb (tss mx) (tss cnt)
      && list_eqb Z.eqb (tss ctr) (tss cnt ++ [last_t cnt])
  | _ => false
  end.

Definition pred_ok (c : case) : bool :=
  if forallb wf_chunk (case_input c) then forallb ochunk_ok (case_output c) else true.
