(* C31 — model of pkg/block/fetcher.go: DefaultDeduplicateFilter.Filter,
   filterGroup, contains.  Executable definitions only.
   A block is (ULID as the 128-bit big-endian number, so ULID.Compare is < on Z;
   compaction group key as supplied by the real Thanos.GroupKey() — an oracle
   value, the harness numbers the distinct key strings; Compaction.Sources). *)
From Coq Require Import ZArith List Bool Lia.
Import ListNotations.
From Verif Require Import Lib.Corr Gen.C31.
Open Scope Z_scope.

(* [lvl] = Compaction.Level *)
Record blk := mk_blk { bid : Z; grp : Z; srcs : list Z; lvl : Z }.

Definition mem (x : Z) (l : list Z) : bool := existsb (Z.eqb x) l.

(* contains(s1, s2): every element of s2 occurs in s1 *)
Definition contains (s1 s2 : list Z) : bool := forallb (fun a => mem a s1) s2.

(* the sort.Slice comparator of filterGroup (more sources first, then smaller
   ULID); its decisions (incl. the compaction-level tie-break, when present) are regenerated from the source into Gen/C31.v *)
Definition ulid_cmp (a b : Z) : Z :=
  match a ?= b with Lt => -1 | Eq => 0 | Gt => 1 end.

Definition before (a b : blk) : bool :=
  let ilen := Z.of_nat (length (srcs a)) in
  let jlen := Z.of_nat (length (srcs b)) in
  if filterGroup_tie ilen jlen then
    (if filterGroup_level_differs (lvl a) (lvl b) then filterGroup_level_first (lvl a) (lvl b)
     else filterGroup_ulid_first (ulid_cmp (bid a) (bid b)))
  else filterGroup_len_first ilen jlen.

Fixpoint insert (x : blk) (l : list blk) : list blk :=
  match l with
  | [] => [x]
  | y :: r => if before x y then x :: l else y :: insert x r
  end.

Definition isort (l : list blk) : list blk := fold_right insert [] l.

(* the childLoop of filterGroup over the sorted slice; [cov] is coveringSet
   (kept in reverse: only membership matters).  Result: covering set and
   duplicate ids in order of discovery. *)
Definition covered (cov : list blk) (c : blk) : bool :=
  existsb (fun p => contains (srcs p) (srcs c)) cov.

Fixpoint child_loop (cov : list blk) (l : list blk) : list blk * list Z :=
  match l with
  | [] => (cov, [])
  | c :: r =>
    if covered cov c then let (k, d) := child_loop cov r in (k, bid c :: d)
    else child_loop (c :: cov) r
  end.

Definition filter_group (g : list blk) : list blk * list Z := child_loop [] (isort g).

Definition in_group (k : Z) (b : blk) : bool := grp b =? k.

(* Filter: groups are handled independently, in the order [keys] (any order a
   worker schedule produces); the duplicates of all groups are removed. *)
Definition dups_in_order (keys : list Z) (l : list blk) : list Z :=
  flat_map (fun k => snd (filter_group (filter (in_group k) l))) keys.

Definition group_keys (l : list blk) : list Z := nodup Z.eq_dec (map grp l).

Definition dups (l : list blk) : list Z := dups_in_order (group_keys l) l.

Definition hidden (l : list blk) (b : blk) : bool := mem (bid b) (dups l).

Definition kept (l : list blk) : list blk := filter (fun b => negb (hidden l b)) l.

(* ---- observables and predicates ---------------------------------------- *)

Definition subset (a b : list Z) : bool := forallb (fun x => mem x b) a.
Definition set_eqb (a b : list Z) : bool := subset a b && subset b a.

(* one run of the real filter: concurrency, ids left in the map, DuplicateIDs() *)
Definition run := (Z * list Z * list Z)%type.

(* CDedup: one Filter call on fresh filter instances.  CHistory: successive Filter calls
   (syncs) on the same long-lived instances: per sync the blocks present and the outcome
   on each instance. *)
Inductive case :=
| CDedup (l : list blk) (runs : list run)
| CHistory (steps : list (list blk * list run)).

(* kept ids and duplicate ids of the model, computed once per case
   (fst = map bid (kept l), snd = dups l) *)
Definition model_view (l : list blk) : list Z * list Z :=
  let d := dups l in (map bid (filter (fun b => negb (mem (bid b) d)) l), d).

(* the filter with its remembered result [prev] (the field duplicateIDs): a call overwrites
   it and does not look at it; a history of syncs on one instance *)
Definition filter_call (prev : list Z) (l : list blk) : (list Z * list Z) * list Z :=
  (model_view l, dups l).

Fixpoint run_history (prev : list Z) (ls : list (list blk)) : list (list Z * list Z) :=
  match ls with
  | [] => []
  | l :: r => let '(res, st) := filter_call prev l in res :: run_history st r
  end.

Definition run_matches (mv : list Z * list Z) (r : run) : bool :=
  let '(_, k, d) := r in
  set_eqb k (fst mv) && set_eqb d (snd mv) && (length d =? length (snd mv))%nat.

Definition corr_ok (c : case) : bool :=
  match c with
  | CDedup l runs => let mv := model_view l in forallb (run_matches mv) runs
  | CHistory steps =>
      let mvs := run_history [] (map fst steps) in
      (length mvs =? length steps)%nat
      && forallb (fun p => forallb (run_matches (fst p)) (snd (snd p))) (combine mvs steps)
  end.

Definition find_blk (l : list blk) (i : Z) : option blk := find (fun b => bid b =? i) l.

(* the property on one run's own output:
   - kept and hidden ids partition the input ids;
   - every hidden block has a kept block of the same group containing all its sources;
   - every source of every block is still a source of a kept block of the same group *)
Definition run_pred (l : list blk) (r : run) : bool :=
  let '(_, k, d) := r in
  set_eqb (k ++ d) (map bid l)
  && forallb (fun i => negb (mem i d)) k
  && forallb (fun i =>
       match find_blk l i with
       | None => false
       | Some b => existsb (fun p => in_group (grp b) p && mem (bid p) k && contains (srcs p) (srcs b)) l
       end) d
  && forallb (fun b => forallb (fun s =>
       existsb (fun p => in_group (grp b) p && mem (bid p) k && mem s (srcs p)) l) (srcs b)) l.

(* same outcome for every listing order / concurrency level *)
Definition runs_agree (runs : list run) : bool :=
  match runs with
  | [] => true
  | (_, k0, d0) :: rs => forallb (fun r => let '(_, k, d) := r in set_eqb k k0 && set_eqb d d0) rs
  end.

(* run_pred looks at a run's kept / hidden ids only through membership, so for runs that
   agree as sets with the first one it is enough to evaluate it on the first *)
Definition pred_ok (c : case) : bool :=
  match c with
  | CDedup l runs => match runs with [] => true | r :: _ => run_pred l r end && runs_agree runs
  | CHistory steps =>
      (* every clause after every sync *)
      forallb (fun st => match snd st with [] => true | r :: _ => run_pred (fst st) r end && runs_agree (snd st)) steps
  end.
