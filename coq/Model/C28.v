(* C28 — A block is visible in object storage only when all its files are.
   Model of the bucket operations of block.Upload, block.Delete,
   block.MarkForDeletion (pkg/block/block.go) and
   replicationScheme.ensureBlockIsReplicated (pkg/replicate/scheme.go) over the
   object store of Lib/Crash_Store.v; a scenario is a sequence of such actions
   on an origin and a target bucket, each possibly cut by a crash after k
   mutating operations. The order of the bucket mutations inside each function
   is computed from the call lists of Gen/C28.v (regenerated from the source).
   Executable definitions only. *)
From Coq Require Import ZArith NArith List Bool String.
Import ListNotations.
From Verif Require Import Lib.Corr Lib.Crash_Store Lib.Crash_Block Gen.C28.

(* ---- tie T: phases from the source-order call lists ---- *)
Definition ev_eqb (a b : string * string) : bool :=
  String.eqb (fst a) (fst b) && String.eqb (snd a) (snd b).

(* every listed call must be one the model knows; an unknown bucket mutation gives None *)
Definition cls_upload (e : string * string) : option uphase :=
  if ev_eqb e ("objstore.UploadDir", "path.Join(id.String(), ChunksDirname)")%string then Some PChunks
  else if ev_eqb e ("objstore.UploadFile", "path.Join(id.String(), IndexFilename)")%string then Some PIndex
  else if ev_eqb e ("bkt.Upload", "path.Join(id.String(), MetaFilename)")%string then Some PMeta
  else None.

Definition upload_phases : option (list uphase) := all_some (map cls_upload upload_calls).

Definition cls_delete (e : string * string) : option dphase :=
  if ev_eqb e ("bkt.Delete", "metaFile")%string then Some DMeta
  else if ev_eqb e ("deleteDirRec", "id.String()")%string then Some DRest
  else if ev_eqb e ("bkt.Delete", "deletionMarkFile")%string then Some DMark
  else if ev_eqb e ("bkt.Delete", "p")%string then Some DDirs
  else None.

(* the names behind the identifiers, the keep function handed to deleteDirRec and
   deleteDirRec's own body must be the ones [delete_phase_ops] was written for *)
Definition delete_shape_ok : bool :=
  String.eqb delete_metaFile "path.Join(id.String(), MetaFilename)"
  && String.eqb delete_deletionMarkFile "path.Join(id.String(), metadata.DeletionMarkFilename)"
  && String.eqb delete_keep "name == metaFile || name == deletionMarkFile"
  && list_eqb ev_eqb deleteDirRec_calls
       [("bkt.Iter", "dir"); ("deleteDirRec", "name"); ("keep", "name"); ("bkt.Delete", "name")]%string.

Definition delete_phases : option (list dphase) :=
  if delete_shape_ok then all_some (map cls_delete delete_calls) else None.

Inductive rcls := RSkip | RPhase (p : rphase).
Definition cls_replicate (e : string * string) : option rcls :=
  if ev_eqb e ("rs.fromBkt.Iter", "chunksDir")%string then Some (RPhase RChunks)
  else if ev_eqb e ("rs.ensureObjectReplicated", "objectName")%string then Some RSkip  (* body of the Iter callback *)
  else if ev_eqb e ("rs.ensureObjectReplicated", "indexFile")%string then Some (RPhase RIndex)
  else if ev_eqb e ("rs.toBkt.Upload", "metaFile")%string then Some (RPhase RMeta)
  else None.

Definition replicate_shape_ok : bool :=
  String.eqb replicate_chunksDir "path.Join(blockID, thanosblock.ChunksDirname)"
  && String.eqb replicate_indexFile "path.Join(blockID, thanosblock.IndexFilename)"
  && String.eqb replicate_metaFile "path.Join(blockID, thanosblock.MetaFilename)"
  && list_eqb ev_eqb ensureObjectReplicated_calls
       [("rs.toBkt.Exists", "objectName"); ("rs.fromBkt.Get", "objectName"); ("rs.toBkt.Upload", "objectName")]%string.

Definition replicate_phases : option (list rphase) :=
  if replicate_shape_ok then
    match all_some (map cls_replicate replicate_calls) with
    | Some l => Some (flat_map (fun c => match c with RSkip => [] | RPhase p => [p] end) l)
    | None => None
    end
  else None.

(* ---- scenarios ---- *)
Inductive action :=
| AUpload (side : bool) (id : N) (order : list N) (cid : N)   (* block.Upload of the local directory of block id;
                                                               order: upload order of the chunk files, cid: content id
                                                               of the meta.json it writes (upload time inside) *)
| ADelete (side : bool) (id : N) (order : list file)          (* block.Delete; order: deleteDirRec's deletion order *)
| AMark (side : bool) (id : N) (sz : Z)                      (* block.MarkForDeletion; sz = size of the mark *)
| AReplicate (id : N)                                        (* ensureBlockIsReplicated origin -> target *)
| ARepDel (id : N) (sched : list nat) (order : list file).   (* the same, interleaved with block.Delete of the block on
                                                               the origin: delete operation i takes effect right before
                                                               the replicator's origin operation sched[i]; [order] as in
                                                               ADelete. The deleter's own log is the next step (ADelete). *)

(* side: false = origin bucket, true = target bucket *)
Definition action_side (a : action) : bool :=
  match a with AUpload s _ _ _ | ADelete s _ _ | AMark s _ _ => s | AReplicate _ | ARepDel _ _ _ => true end.

Definition state := (bucket * bucket)%type.
Definition side_get (st : state) (s : bool) : bucket := if s then snd st else fst st.
Definition side_set (st : state) (s : bool) (b : bucket) : state :=
  if s then (fst st, b) else (b, snd st).

(* all mutating operations of the action when nothing interrupts it, and whether it
   then returns without error *)
Definition action_ops (U : univ) (st : state) (a : action) : option (list bop * bool) :=
  match a with
  | AUpload s id order cid =>
      match upload_phases, ublock U id with
      | Some ph, Some b =>
          match upload_ops ph U id order cid (b_lbl b) with Some l => Some (l, true) | None => None end
      | Some _, None => Some ([], false)
      | None, _ => None
      end
  | ADelete s id order =>
      match delete_phases with
      | Some ph =>
          match delete_ops ph (side_get st s) id order with Some l => Some (l, true) | None => None end
      | None => None
      end
  | AMark s id sz => Some (mark_ops (side_get st s) id sz, true)
  | AReplicate id =>
      match replicate_phases with
      | Some ph =>
          let src := fst st in let dst := snd st in
          match bget src (id, FMeta) with
          | None => Some ([], false)
          | Some om =>
              if same_content om (bget dst (id, FMeta)) then Some ([], true)
              else Some (replicate_ops ph src dst id,
                         match all_some (map (replicate_phase src dst id om) ph) with Some _ => true | None => false end)
          end
      | None => None
      end
  | ARepDel id sched order =>
      match replicate_phases, delete_phases with
      | Some [RChunks; RIndex; RMeta], Some dph =>
          match delete_ops dph (fst st) id order with
          | Some dels => Some (repdel_ops (fst st) (snd st) id (combine sched dels))
          | None => None
          end
      | _, _ => None
      end
  end.

(* crash after k mutating operations *)
Definition cut (crash : option nat) (l : list bop) : list bop :=
  match crash with Some k => firstn k l | None => l end.
Definition is_cut (crash : option nat) (l : list bop) : bool :=
  match crash with Some k => Nat.ltb k (List.length l) | None => false end.

(* one step: action, crash point, observed: returned nil, mutating ops, bucket after each of them *)
Definition step := (action * option nat * bool * list bop * list bucket)%type.

Definition mkstep (a : action) (crash : option nat) (ret : bool) (ops : list bop) (snaps : list bucket) : step :=
  (a, crash, ret, ops, snaps).
Definition ublk (id : N) (b : blk) : N * blk := (id, b).

Inductive case := CScen (U : univ) (steps : list step).

Definition corr_step (U : univ) (st : state) (s : step) : option state :=
  match s with
  | (a, crash, ret, ops, snaps) =>
      match action_ops U st a with
      | None => None
      | Some (l, ok) =>
          let l' := cut crash l in
          let b := side_get st (action_side a) in
          if list_eqb bop_eqb ops l'
             && list_eqb bucket_eqb snaps (tl (bstates b l'))
             && Bool.eqb ret (ok && negb (is_cut crash l))
          then Some (side_set st (action_side a) (bapply_ops b l'))
          else None
      end
  end.

Fixpoint corr_steps (U : univ) (st : state) (l : list step) : bool :=
  match l with
  | [] => true
  | s :: r => match corr_step U st s with Some st' => corr_steps U st' r | None => false end
  end.

(* the two-actor action is covered by the theorems only when the deleter removes the index
   before any chunk file and the target does not hold the index yet; otherwise there are
   schedules that publish an incomplete block (C28_replicate_delete_race_refuted) *)
Definition action_safe (st : state) (a : action) : bool :=
  match a with
  | ARepDel id _ order => index_first order && negb (bhas (snd st) (id, FIndex))
  | _ => true
  end.

Fixpoint safe_steps (U : univ) (st : state) (l : list step) : bool :=
  match l with
  | [] => true
  | s :: r =>
      action_safe st (fst (fst (fst (fst s))))
      && match corr_step U st s with Some st' => safe_steps U st' r | None => true end
  end.

Definition safe_case (c : case) : bool :=
  match c with CScen U steps => safe_steps U ([], []) steps end.

Definition corr_ok (c : case) : bool :=
  match c with CScen U steps => wf_univ_b U && corr_steps U ([], []) steps end.

(* ---- the property on the implementation's own observables ---- *)
(* [st]: the real buckets before the step (last snapshots) *)
Definition pred_step (st : state) (s : step) : bool * state :=
  match s with
  | (a, _, ret, _, snaps) =>
      let pre := side_get st (action_side a) in
      let post := last snaps pre in
      let st' := side_set st (action_side a) post in
      (forallb visible_complete_b snaps
       && match a with
          | ADelete _ id _ =>
              (* a started deletion keeps the mark until everything else is gone *)
              (if bhas pre (id, FDelMark) then forallb (fun b => mark_or_gone_b b id) snaps else true)
              && (if ret then block_gone_b post id else true)
          | AUpload _ id _ _ =>
              (* an upload that returned nil left the block visible *)
              if ret then bhas post (id, FMeta) else true
          | AReplicate id =>
              if ret then same_content (match bget (fst st) (id, FMeta) with Some o => o | None => Blob 0 end)
                                       (bget post (id, FMeta))
              else true
          | AMark _ id _ => if ret then bhas post (id, FDelMark) else true
          | ARepDel id _ _ => if ret then bhas post (id, FMeta) else true
          end,
       st')
  end.

Fixpoint pred_steps (st : state) (l : list step) : bool :=
  match l with
  | [] => true
  | s :: r => let (ok, st') := pred_step st s in ok && pred_steps st' r
  end.

Definition pred_ok (c : case) : bool :=
  match c with CScen _ steps => pred_steps ([], []) steps end.
