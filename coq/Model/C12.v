(* C12 — model of pkg/store/postings_codec.go: the diff+varint postings codecs
   (diffVarintEncodeNoHeader / diffVarintPostings, and the streamed decoder
   streamedDiffVarintPostings working chunk by chunk with a remainder carry),
   encoding/binary.PutUvarint / Uvarint as used through tsdb/encoding, and the
   reference iterator index.ListPostings.
   Executable definitions only. Bytes and series references are [N].
   Not modelled (trusted): snappy/s2 block compression, the snappy framing
   (chunk headers, CRC) and buffer pooling: the streamed decoder is modelled
   over the list of *decoded chunk payloads*, whose boundaries the harness
   reads from the real encoder's output. *)
From Coq Require Import NArith List Bool Lia.
Import ListNotations.
From Verif Require Import Lib.Corr Gen.C12.
Open Scope N_scope.

Definition two64 : N := 18446744073709551616.

(* ---- encoding/binary varints ---------------------------------------- *)

(* binary.PutUvarint: for x >= 0x80 { buf[i] = byte(x)|0x80; x >>= 7; i++ }; buf[i] = byte(x).
   byte(x)|0x80 is written x mod 128 + 128. The buffer has MaxVarintLen64 = 10
   bytes: at most 9 continuation bytes. *)
Fixpoint put_uvarint_fuel (fuel : nat) (x : N) : list N :=
  match fuel with
  | O => [x]
  | S f => if x <? 128 then [x] else (x mod 128 + 128) :: put_uvarint_fuel f (x / 128)
  end.
Definition put_uvarint (x : N) : list N := put_uvarint_fuel 9 x.

(* binary.Uvarint (dennwc/varint.Uvarint is its unrolled form):
     for i, b := range buf {
       if i == MaxVarintLen64 { overflow }
       if b < 0x80 { if i == MaxVarintLen64-1 && b > 1 { overflow }; return x | uint64(b)<<s, i+1 }
       x |= uint64(b&0x7f) << s; s += 7 }
     return 0, 0
   Both failure kinds (n = 0, n < 0) become Decbuf's ErrInvalidSize: [None].
   [x | b<<s] is written [x + b * 2^s] (the operands have disjoint bits). *)
Fixpoint uvarint_go (i : nat) (x s : N) (bs : list N) : option (N * list N) :=
  match bs with
  | [] => None
  | b :: r =>
    if Nat.eqb i 10 then None
    else if b <? 128 then
      if Nat.eqb i 9 && (1 <? b) then None else Some (x + b * 2 ^ s, r)
    else uvarint_go (S i) (x + (b mod 128) * 2 ^ s) (s + 7) r
  end.
Definition uvarint (bs : list N) : option (N * list N) := uvarint_go 0 0 0 bs.

(* ---- encoder --------------------------------------------------------- *)

(* diffVarintEncodeNoHeader (and the loop of diffVarintSnappyStreamedEncode):
   error when v < prev, otherwise PutUvarint64(v - prev). *)
Fixpoint encode_from (prev : N) (l : list N) : option (list N) :=
  match l with
  | [] => Some []
  | v :: r =>
    if v <? prev then None
    else match encode_from v r with
         | Some bs => Some (put_uvarint (v - prev) ++ bs)
         | None => None
         end
  end.
Definition diff_varint_encode (l : list N) : option (list N) := encode_from 0 l.

(* ---- the loops shared by both decoded iterators ------------------------- *)

(* Seek of diffVarintPostings and of streamedDiffVarintPostings (same text):
     if it.cur >= x { return true }
     for it.Next() { if it.At() >= x { return true } }
     return false *)
Fixpoint seek_loop {S : Type} (next : S -> bool * S) (cur : S -> N) (fuel : nat) (x : N) (st : S) : option (bool * S) :=
  match fuel with
  | O => None
  | S f =>
    let '(ok, st') := next st in
    if ok then (if x <=? cur st' then Some (true, st') else seek_loop next cur f x st')
    else Some (false, st')
  end.
Definition seek_gen {S : Type} (next : S -> bool * S) (cur : S -> N) (fuel : nat) (x : N) (st : S) : option (bool * S) :=
  if x <=? cur st then Some (true, st) else seek_loop next cur fuel x st.

(* for p.Next() { out = append(out, p.At()) }: the values and the final state *)
Fixpoint read_all {S : Type} (next : S -> bool * S) (cur : S -> N) (fuel : nat) (st : S) : option (list N * S) :=
  match fuel with
  | O => None
  | S f =>
    let '(ok, st') := next st in
    if ok then match read_all next cur f st' with
               | Some (l, fin) => Some (cur st' :: l, fin)
               | None => None
               end
    else Some ([], st')
  end.

(* ---- diffVarintPostings ---------------------------------------------- *)

Record dv := mkDv { dv_cur : N; dv_buf : list N; dv_err : bool }.
Definition dv_init (bs : list N) : dv := mkDv 0 bs false.

Definition is_nil {A} (l : list A) : bool := match l with [] => true | _ => false end.

Definition dv_next (st : dv) : bool * dv :=
  if dv_err st || is_nil (dv_buf st) then (false, st)
  else match uvarint (dv_buf st) with
       | None => (false, mkDv (dv_cur st) (dv_buf st) true)
       | Some (v, r) => (true, mkDv ((dv_cur st + v) mod two64) r false)
       end.

(* each successful Next consumes at least one byte of the buffer *)
Definition dv_seek (x : N) (st : dv) : option (bool * dv) :=
  seek_gen dv_next dv_cur (S (length (dv_buf st))) x st.

(* ---- streamedDiffVarintPostings -------------------------------------- *)

(* sd_B / sd_E: it.db.B and it.db.E (sticky Decbuf error); sd_chunks: decoded
   payloads of the data chunks still in it.input. *)
Record sd := mkSd { sd_cur : N; sd_B : list N; sd_E : bool; sd_chunks : list (list N) }.
Definition sd_init (chunks : list (list N)) : sd := mkSd 0 [] false chunks.

(* Next: for { val := db.Uvarint64(); if db.Err() != nil { if !readNextChunk(db.B) { return false }; db.E = nil; continue }; cur += val; return true }
   readNextChunk(remainder) sets db.B = remainder ++ payload. *)
Fixpoint sd_next_go (cur : N) (B : list N) (E : bool) (chunks : list (list N)) {struct chunks} : bool * sd :=
  match (if E then None else uvarint B) with
  | Some (v, r) => (true, mkSd ((cur + v) mod two64) r false chunks)
  | None =>
    match chunks with
    | [] => (false, mkSd cur B true [])
    | c :: cs => sd_next_go cur (B ++ c) false cs
    end
  end.
Definition sd_next (st : sd) : bool * sd := sd_next_go (sd_cur st) (sd_B st) (sd_E st) (sd_chunks st).

Definition sd_bytes (st : sd) : nat := length (sd_B st ++ concat (sd_chunks st)).
Definition sd_seek (x : N) (st : sd) : option (bool * sd) :=
  seek_gen sd_next sd_cur (S (sd_bytes st)) x st.

(* ---- index.ListPostings (the reference: "seeking in the original") ---- *)

Record lp := mkLp { lp_cur : N; lp_list : list N }.
Definition lp_init (l : list N) : lp := mkLp 0 l.

Definition lp_next (st : lp) : bool * lp :=
  match lp_list st with
  | v :: r => (true, mkLp v r)
  | [] => (false, mkLp 0 [])
  end.

(* slices.BinarySearch on a sorted list = drop the elements < x *)
Fixpoint drop_lt (x : N) (l : list N) : list N :=
  match l with
  | v :: r => if v <? x then drop_lt x r else l
  | [] => []
  end.

Definition lp_seek (x : N) (st : lp) : bool * lp :=
  if x <=? lp_cur st then (true, st)
  else match lp_list st with
       | [] => (false, st)
       | _ => match drop_lt x (lp_list st) with
              | [] => (false, mkLp (lp_cur st) [])
              | v :: r => (true, mkLp v r)
              end
       end.

(* ---- programs of iterator calls --------------------------------------- *)

Inductive op := ONext | OSeek (x : N).

(* Runs the calls up to and including the first one that returns false (after
   that the Postings contract leaves the iterator exhausted); each entry is the
   returned bool and At() right after the call. *)
Fixpoint run {S : Type} (step : op -> S -> option (bool * S)) (at_ : S -> N)
         (prog : list op) (st : S) : option (list (bool * N)) :=
  match prog with
  | [] => Some []
  | o :: p =>
    match step o st with
    | None => None
    | Some (true, st') =>
      match run step at_ p st' with
      | Some t => Some ((true, at_ st') :: t)
      | None => None
      end
    | Some (false, st') => Some [(false, at_ st')]
    end
  end.

Definition dv_step (o : op) (st : dv) := match o with ONext => Some (dv_next st) | OSeek x => dv_seek x st end.
Definition sd_step (o : op) (st : sd) := match o with ONext => Some (sd_next st) | OSeek x => sd_seek x st end.
Definition lp_step (o : op) (st : lp) := match o with ONext => Some (lp_next st) | OSeek x => Some (lp_seek x st) end.

Definition run_dv prog bs := run dv_step dv_cur prog (dv_init bs).
Definition run_sd prog chunks := run sd_step sd_cur prog (sd_init chunks).
Definition run_lp prog l := run lp_step lp_cur prog (lp_init l).

(* what a caller may rely on: the bool, and At() only after a true *)
Definition visible (t : list (bool * N)) : list (bool * N) :=
  map (fun e : bool * N => if fst e then e else (false, 0)) t.

(* ---- reading a whole iterator with Next ------------------------------- *)

(* observable: the values read and Err() != nil *)
Definition dv_decode (bs : list N) : option (list N * bool) :=
  match read_all dv_next dv_cur (S (length bs)) (dv_init bs) with
  | Some (l, fin) => Some (l, dv_err fin)
  | None => None
  end.

(* streamed: Err() is it.err, which only chunk-framing errors set: always nil here *)
Definition sd_decode (chunks : list (list N)) : option (list N * bool) :=
  match read_all sd_next sd_cur (S (length (concat chunks))) (sd_init chunks) with
  | Some (l, _) => Some (l, false)
  | None => None
  end.

(* cut a byte string at the given chunk lengths *)
Fixpoint split_by (lens : list N) (bs : list N) : list (list N) :=
  match lens with
  | [] => []
  | n :: r => firstn (N.to_nat n) bs :: split_by r (skipn (N.to_nat n) bs)
  end.
Definition sum_lens (lens : list N) : N := fold_right N.add 0 lens.

(* ---- validity of inputs ------------------------------------------------ *)

Fixpoint sorted_from (prev : N) (l : list N) : bool :=
  match l with
  | [] => true
  | v :: r => (prev <=? v) && sorted_from v r
  end.
Definition valid (l : list N) : bool := sorted_from 0 l && forallb (fun v => v <? two64) l.

(* long lists are described, not spelled out: the prefix sums of a pattern of
   differences repeated [reps] times (keeps the case terms small) *)
Fixpoint prefix_sums (cur : N) (ds : list N) : list N :=
  match ds with
  | [] => []
  | d :: r => (cur + d) :: prefix_sums (cur + d) r
  end.
Fixpoint repeat_list {A} (n : nat) (l : list A) : list A :=
  match n with
  | O => []
  | S k => l ++ repeat_list k l
  end.
Definition big_list (start : N) (pattern : list N) (reps : N) : list N :=
  prefix_sums start (repeat_list (N.to_nat reps) pattern).

(* ---- histories of pooled streamed decoders -------------------------------------- *)

(* decodePostings / Next / close on several streamedDiffVarintPostings that take their decode
   buffer from the shared decodedBufPool (pooling on). *)
Inductive hev :=
| HNew (l : nat)            (* decodePostings(encoding of list l): a new decoder *)
| HNext (d : nat) (k : N)   (* up to k calls of Next on decoder d (stops at the first false) *)
| HExhaust (d : nat)        (* Next on decoder d until it returns false *)
| HClose (d : nat).         (* decoder d .close() *)

(* What each decoder has returned: (values read, exhausted). Decoders do not influence each
   other in the model: each reads its own list. *)
Record hdec := mkHD { hd_list : nat; hd_read : N; hd_done : bool }.

Definition list_len (lists : list (list N)) (l : nat) : N := N.of_nat (length (nth l lists [])).

Fixpoint upd_nth {A} (k : nat) (f : A -> A) (l : list A) : list A :=
  match l, k with
  | [], _ => []
  | x :: r, O => f x :: r
  | x :: r, S k' => x :: upd_nth k' f r
  end.

Definition hout_step (lists : list (list N)) (ds : list hdec) (e : hev) : list hdec :=
  match e with
  | HNew l => ds ++ [mkHD l 0 false]
  | HNext d k =>
    upd_nth d (fun x => let len := list_len lists (hd_list x) in
                        if hd_read x + k <=? len then mkHD (hd_list x) (hd_read x + k) (hd_done x)
                        else mkHD (hd_list x) len true) ds
  | HExhaust d => upd_nth d (fun x => mkHD (hd_list x) (list_len lists (hd_list x)) true) ds
  | HClose _ => ds
  end.

Definition hout (lists : list (list N)) (evs : list hev) : list hdec := fold_left (hout_step lists) evs [].

Fixpoint outs_match (ds : list hdec) (outs : list (N * bool * bool)) : bool :=
  match ds, outs with
  | [], [] => true
  | x :: dr, o :: orr => (hd_read x =? fst (fst o)) && snd (fst o) && negb (snd o) && outs_match dr orr
  | _, _ => false
  end.

(* the discipline of the callers: a decoder is closed at most once and not used after close *)
Fixpoint hist_wf (closed : list bool) (evs : list hev) : bool :=
  match evs with
  | [] => true
  | HNew _ :: r => hist_wf (closed ++ [false]) r
  | HNext d _ :: r | HExhaust d :: r => negb (nth d closed true) && hist_wf closed r
  | HClose d :: r => negb (nth d closed true) && hist_wf (upd_nth d (fun _ => true) closed) r
  end.

(* The buffer pool under such a history. close() is NOT idempotent in the code (it puts
   &it.buf whenever it.buf != nil and never clears it: source fact closeAssigns = []), so
   the discipline above is what keeps a buffer from being pooled twice. A decoder takes its
   buffer when it reads its first compressed chunk: from the pool (any pooled buffer) or new.
   [early = true] is a Next that calls close() itself when the input is exhausted. *)
Record pdec := mkPD { pd_buf : option N; pd_live : bool (* may still use its buffer *); pd_closed : bool }.
Record hpool := mkHP { hp_pool : list N; hp_decs : list pdec; hp_fresh : N }.
Definition hp_init : hpool := mkHP [] [] 0.

Fixpoint remove_first (x : N) (l : list N) : option (list N) :=
  match l with
  | [] => None
  | y :: r => if y =? x then Some r
              else match remove_first x r with Some r' => Some (y :: r') | None => None end
  end.

(* decoder d may acquire buffer [id] before reading (acq = Some id) or not (None) *)
Definition hp_acquire (st : hpool) (d : nat) (acq : option N) : option hpool :=
  match acq with
  | None => Some st
  | Some id =>
    match nth_error (hp_decs st) d with
    | Some (mkPD None true false) =>
      match remove_first id (hp_pool st) with
      | Some p' => Some (mkHP p' (upd_nth d (fun _ => mkPD (Some id) true false) (hp_decs st)) (hp_fresh st))
      | None => if id =? hp_fresh st
                then Some (mkHP (hp_pool st) (upd_nth d (fun _ => mkPD (Some id) true false) (hp_decs st)) (hp_fresh st + 1))
                else None
      end
    | _ => None
    end
  end.

Definition put_buf (b : option N) (pool : list N) : list N := match b with Some id => id :: pool | None => pool end.

(* one event with the acquisition choice made for it; None = impossible / outside the discipline *)
Definition hp_step (early : bool) (st : hpool) (e : hev) (acq : option N) : option hpool :=
  match e with
  | HNew _ => Some (mkHP (hp_pool st) (hp_decs st ++ [mkPD None true false]) (hp_fresh st))
  | HNext d _ =>
    match nth_error (hp_decs st) d with
    | Some x => if pd_closed x then None else hp_acquire st d acq
    | None => None
    end
  | HExhaust d =>
    match nth_error (hp_decs st) d with
    | Some x =>
      if pd_closed x then None
      else match hp_acquire st d acq with
           | Some st1 =>
             if early then
               match nth_error (hp_decs st1) d with
               | Some y => Some (mkHP (put_buf (pd_buf y) (hp_pool st1))
                                      (upd_nth d (fun _ => mkPD (pd_buf y) false false) (hp_decs st1)) (hp_fresh st1))
               | None => None
               end
             else Some st1
           | None => None
           end
    | None => None
    end
  | HClose d =>
    match nth_error (hp_decs st) d with
    | Some x => if pd_closed x then None
                else Some (mkHP (put_buf (pd_buf x) (hp_pool st)) (upd_nth d (fun _ => mkPD (pd_buf x) false true) (hp_decs st)) (hp_fresh st))
    | None => None
    end
  end.

Fixpoint hp_run (early : bool) (st : hpool) (evs : list (hev * option N)) : option hpool :=
  match evs with
  | [] => Some st
  | (e, a) :: r => match hp_step early st e a with Some st' => hp_run early st' r | None => None end
  end.

(* buffers held by decoders that may still use them *)
Fixpoint live_bufs (ds : list pdec) : list N :=
  match ds with
  | [] => []
  | mkPD (Some id) true _ :: r => id :: live_bufs r
  | _ :: r => live_bufs r
  end.

(* ---- cases -------------------------------------------------------------- *)

Inductive case :=
(* l; diffVarintEncodeNoHeader(l) (None = error); Next-read of
   diffVarintSnappyDecode(diffVarintSnappyEncode(l)) with Err()!=nil;
   payload lengths of the data chunks of diffVarintSnappyStreamedEncode(l);
   Next-read of its diffVarintSnappyStreamedDecode with Err()!=nil.
   When the encoder fails the later fields are ([],false) [] ([],false). *)
| CRound (l : list N) (raw : option (list N)) (dv_out : list N * bool)
         (chunklens : list N) (st_out : list N * bool)
(* l (sorted); the harness frames diffVarintEncodeNoHeader(l) as a snappy
   stream flushed after the given byte counts; Next-read of the real streamed decoder *)
| CSplit (l : list N) (lens : list N) (st_out : list N * bool)
(* l (sorted), chunk payload lengths of the real streamed encoding, a program,
   and the traces of index.ListPostings, diffVarintPostings, streamedDiffVarintPostings *)
| CSeek (l : list N) (chunklens : list N) (prog : list op) (t_lp t_dv t_sd : list (bool * N))
(* a long list l = big_list start pattern reps (its encoding crosses the 65536-byte
   block of the real snappy stream writer); payload lengths of the real
   streamed encoding's data chunks; whether the Next-read of the real dvs / dss
   decoders equals l without error; a program and its three traces *)
| CBig (start : N) (pattern : list N) (reps : N) (chunklens : list N) (dv_same sd_same : bool)
       (prog : list op) (t_lp t_dv t_sd : list (bool * N))
(* a history of pooled streamed decoders over the lists big_list start pattern reps; per decoder:
   number of values read, whether they equal the beginning of its list, Err() != nil *)
| CHist (lists : list (N * list N * N)) (evs : list hev) (outs : list (N * bool * bool)).

Definition nlist_eqb := list_eqb N.eqb.
Definition out_eqb (a b : list N * bool) : bool := nlist_eqb (fst a) (fst b) && Bool.eqb (snd a) (snd b).
Definition ev_eqb (a b : bool * N) : bool := Bool.eqb (fst a) (fst b) && (snd a =? snd b).
Definition trace_eqb := list_eqb ev_eqb.

Definition lens_ok (lens : list N) (bs : list N) : bool := sum_lens lens =? N.of_nat (length bs).

Definition seek_corr (l bs lens : list N) (prog : list op) (tl td ts : list (bool * N)) : bool :=
  lens_ok lens bs &&
  option_eqb trace_eqb (run_lp prog l) (Some tl) &&
  option_eqb trace_eqb (run_dv prog bs) (Some td) &&
  option_eqb trace_eqb (run_sd prog (split_by lens bs)) (Some ts).

Definition seek_pred (tl td ts : list (bool * N)) : bool :=
  trace_eqb (visible td) (visible tl) && trace_eqb (visible ts) (visible tl).

Definition corr_ok (c : case) : bool :=
  match c with
  | CRound l raw dvo lens sto =>
    option_eqb nlist_eqb (diff_varint_encode l) raw &&
    match diff_varint_encode l with
    | None => out_eqb dvo ([], false) && is_nil lens && out_eqb sto ([], false)
    | Some bs =>
      option_eqb out_eqb (dv_decode bs) (Some dvo) && lens_ok lens bs &&
      option_eqb out_eqb (sd_decode (split_by lens bs)) (Some sto)
    end
  | CSplit l lens sto =>
    match diff_varint_encode l with
    | None => false
    | Some bs => lens_ok lens bs && option_eqb out_eqb (sd_decode (split_by lens bs)) (Some sto)
    end
  | CSeek l lens prog tl td ts =>
    match diff_varint_encode l with
    | None => false
    | Some bs => seek_corr l bs lens prog tl td ts
    end
  | CBig start pat reps lens dsame ssame prog tl td ts =>
    let l := big_list start pat reps in
    match diff_varint_encode l with
    | None => false
    | Some bs =>
      Bool.eqb (option_eqb out_eqb (dv_decode bs) (Some (l, false))) dsame &&
      Bool.eqb (option_eqb out_eqb (sd_decode (split_by lens bs)) (Some (l, false))) ssame &&
      seek_corr l bs lens prog tl td ts
    end
  | CHist lists evs outs =>
    let ls := map (fun t : N * list N * N => big_list (fst (fst t)) (snd (fst t)) (snd t)) lists in
    forallb valid ls && hist_wf [] evs &&
    outs_match (hout ls evs) outs
  end.

(* The property on the implementation's own observables: a valid (sorted,
   uint64) list is encoded without error and both codecs decode to it without
   error; the decoded iterators answer every Next/Seek program like
   ListPostings over the original list. *)
Definition pred_ok (c : case) : bool :=
  match c with
  | CRound l raw dvo _ sto =>
    if valid l then negb (option_eqb nlist_eqb raw None) && out_eqb dvo (l, false) && out_eqb sto (l, false)
    else true
  | CSplit l _ sto => if valid l then out_eqb sto (l, false) else true
  | CSeek l _ _ tl td ts =>
    if valid l then seek_pred tl td ts else true
  | CBig start pat reps _ dsame ssame _ tl td ts =>
    if valid (big_list start pat reps) then dsame && ssame && seek_pred tl td ts else true
  | CHist _ _ outs => forallb (fun o : N * bool * bool => snd (fst o) && negb (snd o)) outs
    (* every decoded list equals its original, as far as it was read, without error *)
  end.
