(* C44 — model of pkg/store/storepb/shard_info.go (ShardMatcher.MatchesZLabels, shardByLabel),
   pkg/querysharding/analyzer.go (QueryAnalyzer.Analyze: the Inspect walk) and
   pkg/querysharding/analysis.go (scopeToLabels, intersect / union / without).
   The hash (xxhash.Sum64) is a parameter; cases carry its values as a table.
   Byte strings are [list N]. Executable definitions only. *)
From Coq Require Import ZArith NArith List Bool.
Import ListNotations.
From Verif Require Import Lib.Corr Gen.C44.

Definition str := list N.
Definition str_eqb : str -> str -> bool := list_eqb N.eqb.
Definition label := (str * str)%type.

Definition mem (x : str) (l : list str) : bool := existsb (str_eqb x) l.

(* ---- ShardMatcher ---- *)
Definition sep : N := shard_sep.

(* shardByLabel *)
Definition selected (by_ : bool) (set : list str) (name : str) : bool :=
  if by_ then mem name set else negb (mem name set).

Definition shard_buf (by_ : bool) (set : list str) (ls : list label) : str :=
  flat_map (fun l => if selected by_ set (fst l) then fst l ++ sep :: snd l ++ [sep] else []) ls.

Definition shard_of (H : str -> N) (by_ : bool) (set : list str) (n : N) (ls : list label) : N :=
  N.modulo (H (shard_buf by_ set ls)) n.

(* MatchesZLabels for a sharded matcher (TotalShards >= 1) *)
Definition matches (H : str -> N) (by_ : bool) (set : list str) (n i : N) (ls : list label) : bool :=
  N.eqb (shard_of H by_ set n ls) i.

(* ---- the analyzer ---- *)
Inductive expr :=
| ELeaf                                                     (* selectors, literals *)
| ECall (fname : str) (dst : option str) (args : list expr) (* dst: the string literal Args[1] *)
| EBin (vm : option (bool * list str)) (l r : expr)         (* VectorMatching: (On, MatchingLabels) *)
| EAgg (without : bool) (grouping : list str) (param : option expr) (e : expr)
| EWrap (e : expr).                                         (* parentheses, unary minus, subquery *)

Definition s_name : str := [95;95;110;97;109;101;95;95]%N.          (* "__name__" *)
Definition s_le : str := [108;101]%N.                                (* "le" *)
Definition s_histogram_quantile : str := [104;105;115;116;111;103;114;97;109;95;113;117;97;110;116;105;108;101]%N.
Definition s_label_join : str := [108;97;98;101;108;95;106;111;105;110]%N.
Definition s_label_replace : str := [108;97;98;101;108;95;114;101;112;108;97;99;101]%N.
Definition s_absent : str := [97;98;115;101;110;116]%N.
Definition s_absent_over_time : str := [97;98;115;101;110;116;95;111;118;101;114;95;116;105;109;101]%N.
Definition s_scalar : str := [115;99;97;108;97;114]%N.

Definition scope_t := (list str * bool)%type.   (* labels, by *)

(* the scopeToLabels calls, in the order of parser.Inspect (node before its children) *)
Fixpoint scopes (e : expr) : list scope_t :=
  match e with
  | ELeaf => []
  | ECall f _ args =>
      (if str_eqb f s_histogram_quantile then [([s_le], false)] else [])
      ++ flat_map scopes args
  | EBin vm l r =>
      (match vm with
       | Some (on, ls) => [(if on then ls else ls ++ [s_name], on)]
       | None => []
       end) ++ scopes l ++ scopes r
  | EAgg wo g p e =>
      (g, negb wo) :: (match p with Some pe => scopes pe | None => [] end) ++ scopes e
  | EWrap e => scopes e
  end.

Fixpoint dynamic_labels (e : expr) : list str :=
  match e with
  | ELeaf => []
  | ECall f dst args =>
      (if str_eqb f s_label_join || str_eqb f s_label_replace
       then match dst with Some d => [d] | None => [] end else [])
      ++ flat_map dynamic_labels args
  | EBin _ l r => dynamic_labels l ++ dynamic_labels r
  | EAgg _ _ p e => (match p with Some pe => dynamic_labels pe | None => [] end) ++ dynamic_labels e
  | EWrap e => dynamic_labels e
  end.

Fixpoint unshardable (e : expr) : bool :=
  match e with
  | ELeaf => false
  | ECall f _ args =>
      str_eqb f s_absent || str_eqb f s_absent_over_time || str_eqb f s_scalar
      || existsb unshardable args
  | EBin _ l r => unshardable l || unshardable r
  | EAgg _ _ p e => (match p with Some pe => unshardable pe | None => false end) || unshardable e
  | EWrap e => unshardable e
  end.

(* QueryAnalysis: shardingLabels nil (SNone) or a slice, with the by flag *)
Inductive analysis := SNone | St (by_ : bool) (ls : list str).

Definition inter (a b : list str) : list str := filter (fun x => mem x b) a.
Definition minus (a b : list str) : list str := filter (fun x => negb (mem x b)) a.
Definition union (a b : list str) : list str := a ++ minus b a.

Definition scope (q : analysis) (s : scope_t) : analysis :=
  let '(labels, by_) := s in
  match q with
  | SNone => St by_ labels
  | St true ls => if by_ then St true (inter ls labels) else St true (minus ls labels)
  | St false ls => if by_ then St true (minus labels ls) else St false (union ls labels)
  end.

Definition all_scopes (e : expr) : list scope_t :=
  scopes e ++ (match dynamic_labels e with [] => [] | d => [(d, false)] end).

Definition analyze (e : expr) : analysis :=
  if unshardable e then SNone else fold_left scope (all_scopes e) SNone.

(* what QueryAnalysis exposes: IsShardable, ShardBy, ShardingLabels (as a set) *)
Definition shardable (a : analysis) : bool :=
  match a with St _ (_ :: _) => true | _ => false end.

Definition subset (a b : list str) : bool := forallb (fun x => mem x b) a.
Definition disjoint (a b : list str) : bool := forallb (fun x => negb (mem x b)) a.
Definition set_eqb (a b : list str) : bool := subset a b && subset b a.

(* the sharding labels are compatible with every grouping construct of the query:
   by-sharding: inside every by/on set, disjoint from every without/ignoring(+__name__)/dynamic/le set;
   without-sharding: there is no by/on construct and every without-set is inside the sharding set *)
Definition compatible (ss : list scope_t) (by_ : bool) (ls : list str) : bool :=
  if by_
  then forallb (fun s : scope_t => if snd s then subset ls (fst s) else disjoint ls (fst s)) ss
  else forallb (fun s : scope_t => negb (snd s) && subset (fst s) ls) ss.

(* ---- a mini-PromQL: instant-vector semantics at one evaluation time ---- *)
Definition series := list label.             (* sorted by name, includes __name__, no empty values *)
Definition sample := (series * Z)%type.
Definition vector := list sample.

Inductive matcher := MEq (n v : str) | MNeq (n v : str).

Definition lget (n : str) (ls : series) : str :=
  match find (fun l => str_eqb (fst l) n) ls with Some l => snd l | None => [] end.

Definition matches_m (m : matcher) (ls : series) : bool :=
  match m with
  | MEq n v => str_eqb (lget n ls) v
  | MNeq n v => negb (str_eqb (lget n ls) v)
  end.

Inductive aggop := ASum | ACount | AMin | AMax.

Inductive binop := BAdd | BSub | BMul.

Inductive qexpr :=
| QSel (ms : list matcher)
| QAgg (op : aggop) (without : bool) (g : list str) (e : qexpr)
| QBin (op : binop) (on : bool) (ls : list str) (l r : qexpr).  (* one-to-one: l op on(ls)/ignoring(ls) r *)

(* labels of an aggregation's output series: by (g) keeps g; without (g) drops g and the metric name.
   The same function gives the match signature of a binary operation: on(ls) = keep false ls,
   ignoring(ls) = keep true ls *)
Definition keep (wo : bool) (g : list str) (ls : series) : series :=
  if wo then filter (fun l => negb (mem (fst l) g) && negb (str_eqb (fst l) s_name)) ls
  else filter (fun l => mem (fst l) g) ls.

Definition label_eqb (a b : label) : bool := str_eqb (fst a) (fst b) && str_eqb (snd a) (snd b).
Definition series_eqb : series -> series -> bool := list_eqb label_eqb.

(* distinct keys in order of first occurrence *)
Fixpoint nodup_keys (ks : list series) : list series :=
  match ks with
  | [] => []
  | k :: r => k :: filter (fun k' => negb (series_eqb k k')) (nodup_keys r)
  end.

Definition agg_vals (op : aggop) (vs : list Z) : Z :=
  match op with
  | ASum => fold_right Z.add 0%Z vs
  | ACount => Z.of_nat (length vs)
  | AMin => match vs with [] => 0%Z | v :: r => fold_right Z.min v r end
  | AMax => match vs with [] => 0%Z | v :: r => fold_right Z.max v r end
  end.

Definition aggregate (op : aggop) (wo : bool) (g : list str) (v : vector) : vector :=
  map (fun k => (k, agg_vals op (map snd (filter (fun x => series_eqb (keep wo g (fst x)) k) v))))
      (nodup_keys (map (fun x => keep wo g (fst x)) v)).

(* VectorBinop, one-to-one *)
Fixpoint has_dup (ks : list series) : bool :=
  match ks with
  | [] => false
  | k :: r => existsb (series_eqb k) r || has_dup r
  end.

Definition bin_val (op : binop) (a b : Z) : Z :=
  match op with BAdd => (a + b)%Z | BSub => (a - b)%Z | BMul => (a * b)%Z end.

Definition drop_name (s : series) : series := filter (fun l => negb (str_eqb (fst l) s_name)) s.

(* match signature, "has a partner on the right", and the output sample of a matched left sample *)
Definition bsig (on : bool) (ls : list str) (x : sample) : series := keep (negb on) ls (fst x).

Definition bmatched (on : bool) (ls : list str) (vr : vector) (x : sample) : bool :=
  existsb (fun y => series_eqb (bsig on ls y) (bsig on ls x)) vr.

Definition bout (op : binop) (on : bool) (ls : list str) (vr : vector) (x : sample) : sample :=
  (drop_name (bsig on ls x),
   bin_val op (snd x)
     (match find (fun y => series_eqb (bsig on ls y) (bsig on ls x)) vr with
      | Some y => snd y | None => 0%Z end)).

Definition bin_eval (op : binop) (on : bool) (ls : list str) (vl vr : vector) : option vector :=
  match vl, vr with
  | [], _ => Some []                     (* short-circuit: nothing is going to match *)
  | _, [] => Some []
  | _, _ =>
      if has_dup (map (bsig on ls) vr) then None   (* duplicate series on the right-hand side *)
      else
        let matched := filter (bmatched on ls vr) vl in
        if has_dup (map (bsig on ls) matched) then None   (* many-to-one matching must be explicit *)
        else
          let out := map (bout op on ls vr) matched in
          if has_dup (map fst out) then None   (* vector cannot contain metrics with the same labelset *)
          else Some out
  end.

(* None = the engine returns an error *)
Fixpoint qeval (e : qexpr) (D : vector) : option vector :=
  match e with
  | QSel ms => Some (filter (fun x => forallb (fun m => matches_m m (fst x)) ms) D)
  | QAgg op wo g e' => option_map (aggregate op wo g) (qeval e' D)
  | QBin op on ls l r =>
      match qeval l D, qeval r D with
      | Some vl, Some vr => bin_eval op on ls vl vr
      | _, _ => None
      end
  end.

(* what the analyzer sees of such a query *)
Fixpoint erase (e : qexpr) : expr :=
  match e with
  | QSel _ => ELeaf
  | QAgg _ wo g e' => EAgg wo g None (erase e')
  | QBin _ on ls l r => EBin (Some (on, ls)) (erase l) (erase r)
  end.

(* series stored on shard i of n (the store applies the shard matcher to every series) *)
Definition in_shard (H : str -> N) (by_ : bool) (set : list str) (n i : N) (x : sample) : bool :=
  matches H by_ set n i (fst x).

Fixpoint all_some {A} (l : list (option A)) : option (list A) :=
  match l with
  | [] => Some []
  | None :: _ => None
  | Some x :: r => option_map (cons x) (all_some r)
  end.

Definition shard_results (H : str -> N) (by_ : bool) (set : list str) (n : N) (e : qexpr) (D : vector)
  : list (option vector) :=
  map (fun i => qeval e (filter (in_shard H by_ set n (N.of_nat i)) D)) (seq 0 (N.to_nat n)).

(* per-shard evaluation, results concatenated (the frontend merges the shard responses);
   None when a shard returns an error *)
Definition sharded (H : str -> N) (by_ : bool) (set : list str) (n : N) (e : qexpr) (D : vector) : option vector :=
  option_map (@concat sample) (all_some (shard_results H by_ set n e D)).

(* queryInstantCodec.MergeResponse / vectorMerge: one sample per label set, the first one seen
   (all samples carry the same timestamp) *)
Fixpoint dedup_first (l : vector) : vector :=
  match l with
  | [] => []
  | x :: r => x :: filter (fun y => negb (series_eqb (fst x) (fst y))) (dedup_first r)
  end.

Definition merge_vectors (rs : list vector) : vector := dedup_first (concat rs).

(* the sharding labels survive every aggregation and every binary operation of e (with the
   metric name, which without() aggregations and binary operations drop) *)
Fixpoint sound_for (by_ : bool) (set : list str) (e : qexpr) : bool :=
  match e with
  | QSel _ => true
  | QAgg _ wo g e' =>
      (if by_ then (if wo then disjoint set (s_name :: g) else subset set g)
       else wo && subset (s_name :: g) set)
      && sound_for by_ set e'
  | QBin _ on ls l r =>
      (if by_ then (if on then subset set ls && negb (mem s_name set) else disjoint set (s_name :: ls))
       else negb on && subset (s_name :: ls) set)
      && sound_for by_ set l && sound_for by_ set r
  end.

(* does some node of e drop the metric name from its output? *)
Fixpoint drops_name (e : qexpr) : bool :=
  match e with
  | QSel _ => false
  | QAgg _ wo _ e' => wo || drops_name e'
  | QBin _ _ _ _ _ => true
  end.

Definition name_ok (by_ : bool) (set : list str) (e : qexpr) : bool :=
  if by_ then negb (drops_name e) || negb (mem s_name set) else mem s_name set.

(* ---- cases ---- *)
Fixpoint lookup_hash (tbl : list (str * N)) (b : str) : option N :=
  match tbl with
  | [] => None
  | (k, v) :: t => if str_eqb k b then Some v else lookup_hash t b
  end.

Inductive case :=
| CShard (by_ : bool) (set : list str) (n : N) (ls : list label) (tbl : list (str * N))
         (obs_zlabels obs_labels : list bool)   (* MatchesZLabels / MatchesLabels for every shard index *)
| CAnalyze (e : expr) (obs_shardable obs_by : bool) (obs_labels : list str)
| CEval (e : qexpr) (D : vector) (n : N) (by_ : bool) (set : list str) (tbl : list (str * N))
        (unsharded : option vector) (shards : list (option vector)) (merged : option vector).

Definition H_of (tbl : list (str * N)) (b : str) : N :=
  match lookup_hash tbl b with Some v => v | None => 0%N end.

Definition sample_eqb (a b : sample) : bool := series_eqb (fst a) (fst b) && Z.eqb (snd a) (snd b).

(* the same samples, order ignored (lengths compared so that a duplicate is noticed) *)
Definition same_vector (a b : vector) : bool :=
  Nat.eqb (length a) (length b)
  && forallb (fun x => existsb (sample_eqb x) b) a && forallb (fun x => existsb (sample_eqb x) a) b.

Definition same_result (a b : option vector) : bool :=
  match a, b with
  | Some x, Some y => same_vector x y
  | None, None => true
  | _, _ => false
  end.

Definition corr_ok (c : case) : bool :=
  match c with
  | CShard by_ set n ls tbl obs obs2 =>
      match lookup_hash tbl (shard_buf by_ set ls) with
      | None => false
      | Some _ =>
          let m := map (fun i => matches (H_of tbl) by_ set n (N.of_nat i) ls) (seq 0 (N.to_nat n)) in
          list_eqb Bool.eqb m obs && list_eqb Bool.eqb m obs2
      end
  | CAnalyze e sh by_ ls =>
      let a := analyze e in
      Bool.eqb (shardable a) sh
      && (if sh then match a with St b l => Bool.eqb b by_ && set_eqb l ls | SNone => false end else true)
  | CEval e D n by_ set tbl unsharded shards merged =>
      (* the analyzer's answer, every hash value needed, the engine's unsharded result and the
         engine's result on every shard *)
      (match analyze (erase e) with St b l => shardable (St b l) && Bool.eqb b by_ && set_eqb l set | SNone => false end)
      && forallb (fun x => match lookup_hash tbl (shard_buf by_ set (fst x)) with Some _ => true | None => false end) D
      && same_result (qeval e D) unsharded
      && Nat.eqb (length shards) (N.to_nat n)
      && forallb (fun ir => same_result (qeval e (filter (in_shard (H_of tbl) by_ set n (N.of_nat (fst ir))) D)) (snd ir))
                 (combine (seq 0 (N.to_nat n)) shards)
      && same_result (option_map merge_vectors (all_some shards)) merged
  end.

Definition count_true (l : list bool) : nat := length (filter (fun b => b) l).

Definition pred_ok (c : case) : bool :=
  match c with
  | CShard _ _ _ _ _ obs obs2 =>
      (* each entry point puts the series on exactly one shard, and both on the same one *)
      Nat.eqb (count_true obs) 1 && Nat.eqb (count_true obs2) 1 && list_eqb Bool.eqb obs obs2
  | CAnalyze e sh by_ ls => if sh then compatible (all_scopes e) by_ ls else true
  | CEval _ _ _ _ _ _ unsharded shards merged =>
      (* when the unsharded evaluation succeeds, every shard succeeds, the shard results together
         are the unsharded result, and so is what the frontend's MergeResponse makes of them *)
      match unsharded with
      | None => true
      | Some u =>
          match all_some shards, merged with
          | Some rs, Some m => same_vector (concat rs) u && same_vector m u
          | _, _ => false
          end
      end
  end.
