(* C44 — model of pkg/store/storepb/shard_info.go (ShardMatcher.MatchesZLabels, shardByLabel),
   pkg/querysharding/analyzer.go (QueryAnalyzer.Analyze: the Inspect walk) and
   pkg/querysharding/analysis.go (scopeToLabels, intersect / union / without).
   The hash (xxhash.Sum64) is a parameter; cases carry its values as a table.
   Byte strings are [list N]. Executable definitions only. *)
From Coq Require Import ZArith NArith List Bool.
Import ListNotations.
From Verif Require Import Lib.Corr Gen.C44.

Definition str := list N.
Definition str_eqb : str -> str -> bool := list_eqb N.eqb.
Definition label := (str * str)%type.

Definition mem (x : str) (l : list str) : bool := existsb (str_eqb x) l.

(* ---- ShardMatcher ---- *)
Definition sep : N := shard_sep.

(* shardByLabel *)
Definition selected (by_ : bool) (set : list str) (name : str) : bool :=
  if by_ then mem name set else negb (mem name set).

Definition shard_buf (by_ : bool) (set : list str) (ls : list label) : str :=
  flat_map (fun l => if selected by_ set (fst l) then fst l ++ sep :: snd l ++ [sep] else []) ls.

Definition shard_of (H : str -> N) (by_ : bool) (set : list str) (n : N) (ls : list label) : N :=
  N.modulo (H (shard_buf by_ set ls)) n.

(* MatchesZLabels for a sharded matcher (TotalShards >= 1) *)
Definition matches (H : str -> N) (by_ : bool) (set : list str) (n i : N) (ls : list label) : bool :=
  N.eqb (shard_of H by_ set n ls) i.

(* ---- the analyzer ---- *)
Inductive expr :=
| ELeaf                                                     (* selectors, literals *)
| ECall (fname : str) (dst : option str) (args : list expr) (* dst: the string literal Args[1] *)
| EBin (vm : option (bool * list str)) (l r : expr)         (* VectorMatching: (On, MatchingLabels) *)
| EAgg (without : bool) (grouping : list str) (param : option expr) (e : expr)
| EWrap (e : expr).                                         (* parentheses, unary minus, subquery *)

Definition s_name : str := [95;95;110;97;109;101;95;95]%N.          (* "__name__" *)
Definition s_le : str := [108;101]%N.                                (* "le" *)
Definition s_histogram_quantile : str := [104;105;115;116;111;103;114;97;109;95;113;117;97;110;116;105;108;101]%N.
Definition s_label_join : str := [108;97;98;101;108;95;106;111;105;110]%N.
Definition s_label_replace : str := [108;97;98;101;108;95;114;101;112;108;97;99;101]%N.
Definition s_absent : str := [97;98;115;101;110;116]%N.
Definition s_absent_over_time : str := [97;98;115;101;110;116;95;111;118;101;114;95;116;105;109;101]%N.
Definition s_scalar : str := [115;99;97;108;97;114]%N.

Definition scope_t := (list str * bool)%type.   (* labels, by *)

(* the scopeToLabels calls, in the order of parser.Inspect (node before its children) *)
Fixpoint scopes (e : expr) : list scope_t :=
  match e with
  | ELeaf => []
  | ECall f _ args =>
      (if str_eqb f s_histogram_quantile then [([s_le], false)] else [])
      ++ flat_map scopes args
  | EBin vm l r =>
      (match vm with
       | Some (on, ls) => [(if on then ls else ls ++ [s_name], on)]
       | None => []
       end) ++ scopes l ++ scopes r
  | EAgg wo g p e =>
      (g, negb wo) :: (match p with Some pe => scopes pe | None => [] end) ++ scopes e
  | EWrap e => scopes e
  end.

Fixpoint dynamic_labels (e : expr) : list str :=
  match e with
  | ELeaf => []
  | ECall f dst args =>
      (if str_eqb f s_label_join || str_eqb f s_label_replace
       then match dst with Some d => [d] | None => [] end else [])
      ++ flat_map dynamic_labels args
  | EBin _ l r => dynamic_labels l ++ dynamic_labels r
  | EAgg _ _ p e => (match p with Some pe => dynamic_labels pe | None => [] end) ++ dynamic_labels e
  | EWrap e => dynamic_labels e
  end.

Fixpoint unshardable (e : expr) : bool :=
  match e with
  | ELeaf => false
  | ECall f _ args =>
      str_eqb f s_absent || str_eqb f s_absent_over_time || str_eqb f s_scalar
      || existsb unshardable args
  | EBin _ l r => unshardable l || unshardable r
  | EAgg _ _ p e => (match p with Some pe => unshardable pe | None => false end) || unshardable e
  | EWrap e => unshardable e
  end.

(* QueryAnalysis: shardingLabels nil (SNone) or a slice, with the by flag *)
Inductive analysis := SNone | St (by_ : bool) (ls : list str).

Definition inter (a b : list str) : list str := filter (fun x => mem x b) a.
Definition minus (a b : list str) : list str := filter (fun x => negb (mem x b)) a.
Definition union (a b : list str) : list str := a ++ minus b a.

Definition scope (q : analysis) (s : scope_t) : analysis :=
  let '(labels, by_) := s in
  match q with
  | SNone => St by_ labels
  | St true ls => if by_ then St true (inter ls labels) else St true (minus ls labels)
  | St false ls => if by_ then St true (minus labels ls) else St false (union ls labels)
  end.

Definition all_scopes (e : expr) : list scope_t :=
  scopes e ++ (match dynamic_labels e with [] => [] | d => [(d, false)] end).

Definition analyze (e : expr) : analysis :=
  if unshardable e then SNone else fold_left scope (all_scopes e) SNone.

(* what QueryAnalysis exposes: IsShardable, ShardBy, ShardingLabels (as a set) *)
Definition shardable (a : analysis) : bool :=
  match a with St _ (_ :: _) => true | _ => false end.

Definition subset (a b : list str) : bool := forallb (fun x => mem x b) a.
Definition disjoint (a b : list str) : bool := forallb (fun x => negb (mem x b)) a.
Definition set_eqb (a b : list str) : bool := subset a b && subset b a.

(* the sharding labels are compatible with every grouping construct of the query:
   by-sharding: inside every by/on set, disjoint from every without/ignoring(+__name__)/dynamic/le set;
   without-sharding: there is no by/on construct and every without-set is inside the sharding set *)
Definition compatible (ss : list scope_t) (by_ : bool) (ls : list str) : bool :=
  if by_
  then forallb (fun s : scope_t => if snd s then subset ls (fst s) else disjoint ls (fst s)) ss
  else forallb (fun s : scope_t => negb (snd s) && subset (fst s) ls) ss.

(* ---- cases ---- *)
Fixpoint lookup_hash (tbl : list (str * N)) (b : str) : option N :=
  match tbl with
  | [] => None
  | (k, v) :: t => if str_eqb k b then Some v else lookup_hash t b
  end.

Inductive case :=
| CShard (by_ : bool) (set : list str) (n : N) (ls : list label) (tbl : list (str * N)) (obs : list bool)
| CAnalyze (e : expr) (obs_shardable obs_by : bool) (obs_labels : list str).

Definition H_of (tbl : list (str * N)) (b : str) : N :=
  match lookup_hash tbl b with Some v => v | None => 0%N end.

Definition corr_ok (c : case) : bool :=
  match c with
  | CShard by_ set n ls tbl obs =>
      match lookup_hash tbl (shard_buf by_ set ls) with
      | None => false
      | Some _ =>
          list_eqb Bool.eqb (map (fun i => matches (H_of tbl) by_ set n (N.of_nat i) ls) (seq 0 (N.to_nat n))) obs
      end
  | CAnalyze e sh by_ ls =>
      let a := analyze e in
      Bool.eqb (shardable a) sh
      && (if sh then match a with St b l => Bool.eqb b by_ && set_eqb l ls | SNone => false end else true)
  end.

Definition count_true (l : list bool) : nat := length (filter (fun b => b) l).

Definition pred_ok (c : case) : bool :=
  match c with
  | CShard _ _ _ _ _ obs => Nat.eqb (count_true obs) 1
  | CAnalyze e sh by_ ls => if sh then compatible (all_scopes e) by_ ls else true
  end.
