(* C03 — StoreAPI fan-out merge: each series once, sorted, with all chunks.
   Concrete instance of the shared model Lib/Proxy_Model.v (ProxyStore.Series:
   respSets, array loser tree, responseDeduplicator, batchableServer) for
   labels = sorted (name,value) byte-string pairs under labels.Compare and
   chunks = storepb.AggrChunk with the checksum each field is keyed by.
   Executable definitions only. *)
From Coq Require Import ZArith NArith List Bool.
Import ListNotations.
From Verif Require Export Lib.Proxy_Order Lib.Proxy_Model.
From Verif Require Import Lib.Corr Gen.C03.
Open Scope Z_scope.

(* one *storepb.Chunk: (Type, effective checksum = Hash or xxhash(Data), Data) *)
Definition field := (Z * N * str)%type.
(* storepb.AggrChunk; fields in the order Raw, Count, Sum, Min, Max, Counter *)
Record chunk := MkChunk { cmin : Z; cmax : Z; cfields : list (option field) }.

(* the de-duplication key of the (fixed) responseDeduplicator: the checksums of all six fields *)
Definition ckey (c : chunk) : list (option N) :=
  map (fun f => match f with Some (_, h, _) => Some h | None => None end) (cfields c).
Definition keqb : list (option N) -> list (option N) -> bool := list_eqb (option_eqb N.eqb).

(* Go int results of the Compare methods: 1 = receiver smaller, -1 = larger (sic) *)
Definition cmp_to_go (c : comparison) : Z := match c with Lt => -1 | Eq => 0 | Gt => 1 end.
(* Chunk.Compare (pointer receiver) *)
Definition field_compare (m b : option field) : Z :=
  match m, b with
  | None, None => 0
  | _, None => 1
  | None, _ => -1
  | Some (tm, _, dm), Some (tb, _, db) =>
      if tm <? tb then 1 else if tm >? tb then -1
      else cmp_to_go (str_cmp dm db)        (* bytes.Compare(m.Data, b.Data) *)
  end.
Fixpoint fields_compare (m b : list (option field)) : Z :=
  match m, b with
  | x :: m', y :: b' => let c := field_compare x y in if c =? 0 then fields_compare m' b' else c
  | _, _ => 0
  end.
(* AggrChunk.Compare *)
Definition aggr_compare (m b : chunk) : Z :=
  if cmin m <? cmin b then 1 else if cmin m >? cmin b then -1
  else if cmax m <? cmax b then 1 else if cmax m >? cmax b then -1
  else fields_compare (cfields m) (cfields b).
(* sort.Slice(finalChunks, func(i, j) { return finalChunks[i].Compare(finalChunks[j]) > 0 }):
   a may stay before b when not less(b, a) *)
Definition cleb (a b : chunk) : bool := negb (aggr_compare b a >? 0).

Definition wlen (w : str) : N := N.of_nat (length w).

(* rmLabels *)
Definition str_eqb : str -> str -> bool := list_eqb N.eqb.
Definition rm_labels (names : list str) (l : labels) : labels :=
  filter (fun p => negb (existsb (str_eqb (fst p)) names)) l.

Definition resp := @Proxy_Model.resp labels chunk str.
Definition frame := @Proxy_Model.frame labels chunk str.
Definition script := @Proxy_Model.script labels chunk str.

Definition proxy (lazy : bool) (wrl : list str) (abort : bool) (limit : Z) (batch : nat) (ss : list script)
  : option (list frame) :=
  proxy_series lbl_cmp ckey keqb cleb wlen limit_break lazy (match wrl with [] => false | _ => true end) abort abort
               (rm_labels wrl) limit batch ss.

(* ---- observables ---- *)
Definition anon (f : frame) : frame := match f with FWarn _ => FWarn [] | _ => f end.
Definition frame_warnings (fs : list frame) : list str :=
  concat (map (fun f => match f with FWarn w => [w] | _ => [] end) fs).
Fixpoint sinsert (x : str) (l : list str) : list str :=
  match l with
  | [] => [x]
  | y :: r => match str_cmp x y with Gt => y :: sinsert x r | _ => x :: l end
  end.
Definition ssort (l : list str) : list str := fold_right sinsert [] l.

Definition field_eqb (a b : field) : bool :=
  let '(ta, ha, da) := a in let '(tb, hb, db) := b in (ta =? tb) && N.eqb ha hb && str_eqb da db.
Definition chunk_eqb (a b : chunk) : bool :=
  (cmin a =? cmin b) && (cmax a =? cmax b) && list_eqb (option_eqb field_eqb) (cfields a) (cfields b).
Definition labels_eqb : labels -> labels -> bool := list_eqb (pair_eqb str_eqb str_eqb).
Definition series_eqb (a b : labels * list chunk) : bool :=
  labels_eqb (fst a) (fst b) && list_eqb chunk_eqb (snd a) (snd b).
Definition frame_eqb (a b : frame) : bool :=
  match a, b with
  | FSeries la ca, FSeries lb cb => series_eqb (la, ca) (lb, cb)
  | FBatch sa, FBatch sb => list_eqb series_eqb sa sb
  | FWarn wa, FWarn wb => str_eqb wa wb
  | _, _ => false
  end.

Inductive case :=
| CSeries (lazy : bool) (buf : nat) (wrl : list str) (limit : Z) (batch : nat) (stores : list script)
          (* implementation observables: frames in order (warning texts blanked), warning texts sorted *)
          (o_frames : option (list frame)) (o_warns : list str).

Definition corr_ok (c : case) : bool :=
  match c with
  | CSeries lazy buf wrl limit batch stores o_frames o_warns =>
      match proxy lazy wrl false limit batch stores, o_frames with
      | Some fs, Some ofs =>
          (* with a limit, WHICH warnings fall under it depends on their relative order, which is
             not an observable (sort.Slice on an inconsistent less, ties in the tree) *)
          list_eqb frame_eqb (map anon fs) ofs
          && ((limit >? 0) || list_eqb str_eqb (ssort (frame_warnings fs)) o_warns)
      | None, None => true
      | _, _ => false
      end
  end.

(* ---- the property, evaluated on the implementation's own frames ---- *)
Definition out_series (fs : list frame) : list (labels * list chunk) :=
  concat (map (fun r => match r with RSeries l cs => [(l, cs)] | RWarn _ => [] end) (unbatch fs)).

(* what the stores sent, as the proxy must present it: labels of stores that cannot
   strip replica labels are stripped by the proxy *)
Definition in_series (wrl : list str) (s : script) : list (labels * list chunk) :=
  let strip := negb (ssupports s) && (match wrl with [] => false | _ => true end) in
  map (fun p => (if strip then rm_labels wrl (fst p) else fst p, snd p))
      (concat (map (fun r => match r with RSeries l cs => [(l, cs)] | RWarn _ => [] end) (flatten_frames (sframes s)))).

Fixpoint sorted_by {A} (le : A -> A -> bool) (l : list A) : bool :=
  match l with
  | [] => true
  | x :: r => match r with [] => true | y :: _ => le x y && sorted_by le r end
  end.
Definition lbl_lt (a b : labels) : bool := match lbl_cmp a b with Lt => true | _ => false end.
Definition lbl_le (a b : labels) : bool := match lbl_cmp a b with Gt => false | _ => true end.
Definition time_le (a b : chunk) : bool :=
  (cmin a <? cmin b) || ((cmin a =? cmin b) && (cmax a <=? cmax b)).
Fixpoint nodup_keys (seen : list (list (option N))) (cs : list chunk) : bool :=
  match cs with
  | [] => true
  | c :: r => negb (existsb (keqb (ckey c)) seen) && nodup_keys (ckey c :: seen) r
  end.

(* the streams meet the precondition of the merge: after the proxy's own re-sort of
   eager / non-stripping stores, every store's series are sorted by labels *)
Definition stream_sorted (lazy : bool) (wrl : list str) (s : script) : bool :=
  let resorted := negb lazy || (negb (ssupports s) && (match wrl with [] => false | _ => true end)) in
  resorted || sorted_by lbl_le (map fst (in_series wrl s)).

Definition keys_of (l : labels) (ss : list (labels * list chunk)) : list (list (option N)) :=
  concat (map (fun p => if labels_eqb (fst p) l then map ckey (snd p) else []) ss).
Definition subset_keys (a b : list (list (option N))) : bool :=
  forallb (fun k => existsb (keqb k) b) a.

Fixpoint distinct_labels (l : list labels) : list labels :=
  match l with
  | [] => []
  | x :: r => if existsb (labels_eqb x) r then distinct_labels r else x :: distinct_labels r
  end.

Definition pred_ok (c : case) : bool :=
  match c with
  | CSeries lazy buf wrl limit batch stores o_frames o_warns =>
      match o_frames with
      | None => false       (* no store fails in C03 inputs: the request must succeed *)
      | Some ofs =>
          if negb (forallb (stream_sorted lazy wrl) stores) then true else
          let outs := out_series ofs in
          let ins := concat (map (in_series wrl) stores) in
          (* sorted by labels, each label set once *)
          sorted_by lbl_lt (map fst outs)
          (* chunks ordered by time, each distinct chunk once *)
          && forallb (fun p => sorted_by time_le (snd p) && nodup_keys [] (snd p)) outs
          (* only chunks that some store returned for that label set *)
          && forallb (fun p => existsb (fun q => labels_eqb (fst q) (fst p)) ins
                               && subset_keys (map ckey (snd p)) (keys_of (fst p) ins)) outs
          (* batches are non-empty and at most the batch size *)
          && forallb (fun f => match f with
                               | FBatch ss => negb (Nat.eqb (length ss) 0) && (length ss <=? batch)%nat
                               | FSeries _ _ => (batch <=? 1)%nat
                               | FWarn _ => true end) ofs
          && (if limit >? 0 then
                (* a limit passes exactly the first `limit` responses (label sets + warnings) *)
                (Z.of_nat (length (unbatch ofs)) =?
                   Z.min limit (Z.of_nat (length (distinct_labels (map fst ins))
                                          + length (concat (map (fun s => frame_warnings (sframes s)) stores)))))
              else
                (* every label set and every chunk that a store returned is there; warnings are all passed on *)
                forallb (fun q => existsb (fun p => labels_eqb (fst p) (fst q)
                                                    && subset_keys (map ckey (snd q)) (map ckey (snd p))) outs) ins
                && list_eqb str_eqb o_warns
                     (ssort (concat (map (fun s => frame_warnings (sframes s)) stores))))
      end
  end.

(* ---- the de-duplication loop as it was before the fix (kept only to document the
   defect, see C03_unfixed_dedup_refuted): a chunk was stored under the checksum of its
   first field (order Raw, Count, Max, Min, Sum, Counter) not seen before, and dropped
   only when ALL its field checksums had been seen ---- *)
Definition field_hashes_unfixed (c : chunk) : list N :=
  concat (map (fun i => match nth i (cfields c) None with Some (_, h, _) => [h] | None => [] end)
              [0; 1; 4; 3; 2; 5]%nat).
Fixpoint first_unseen (seen hs : list N) : option N :=
  match hs with
  | [] => None
  | h :: r => if existsb (N.eqb h) seen then first_unseen seen r else Some h
  end.
Fixpoint dedup_unfixed (seen : list N) (cs : list chunk) : list chunk :=
  match cs with
  | [] => []
  | c :: r => match first_unseen seen (field_hashes_unfixed c) with
              | Some h => c :: dedup_unfixed (h :: seen) r
              | None => dedup_unfixed seen r
              end
  end.
