(* C14 — model of pkg/store/cache/caching_bucket.go:
     CachingBucket.GetRange / cachedGetRange / cachedAttributes / fetchMissingSubranges /
     mergeRanges / subrangesReader.Read, Get (+ getReader), Exists, Attributes, Iter
   over an immutable set of objects and a cache that may lose entries.
   The integer expressions of cachedGetRange / fetchMissingSubranges (range alignment,
   last-subrange clamp, buffer sizes) are NOT written here: they are regenerated from the
   Go source into Gen/C14.v on every run.
   Cache loss: every operation carries the list [hits] of keys the cache actually
   returned during that operation; a key outside [hits] is a miss even when stored.
   Executable definitions only. *)
From Coq Require Import ZArith NArith List Bool Lia.
Import ListNotations.
From Verif Require Import Lib.Corr Gen.C14.
Open Scope Z_scope.

Definition bytes := list N.
Definition blen (b : bytes) : Z := Z.of_nat (length b).
(* b[lo:hi] for 0 <= lo <= hi <= len b *)
Definition slice (b : bytes) (lo hi : Z) : bytes :=
  firstn (Z.to_nat (hi - lo)) (skipn (Z.to_nat lo) b).

(* ---- cache ---------------------------------------------------------------- *)
Inductive key :=
| KSub (name : N) (s e : Z)
| KAttr (name : N)
| KExists (name : N)
| KContent (name : N)
| KIter (dir : N) (recursive : bool).

Inductive cval :=
| VBytes (b : bytes)
| VSize (z : Z)
| VBool (b : bool)
| VList (l : list N).

Definition key_eqb (a b : key) : bool :=
  match a, b with
  | KSub n s e, KSub n' s' e' => N.eqb n n' && (s =? s') && (e =? e')
  | KAttr n, KAttr n' => N.eqb n n'
  | KExists n, KExists n' => N.eqb n n'
  | KContent n, KContent n' => N.eqb n n'
  | KIter d r, KIter d' r' => N.eqb d d' && Bool.eqb r r'
  | _, _ => false
  end.

Definition cache := list (key * cval).

Fixpoint lookup (c : cache) (k : key) : option cval :=
  match c with
  | [] => None
  | (k', v) :: r => if key_eqb k k' then Some v else lookup r k
  end.

Definition mem_key (k : key) (l : list key) : bool := existsb (key_eqb k) l.

(* cache.Fetch as seen by this operation *)
Definition fetch (c : cache) (hits : list key) (k : key) : option cval :=
  if mem_key k hits then lookup c k else None.

Definition store (c : cache) (k : key) (v : cval) : cache := (k, v) :: c.

(* ---- the world: immutable objects ------------------------------------------ *)
Definition world := list (N * bytes).
Fixpoint find_obj (w : world) (name : N) : option bytes :=
  match w with
  | [] => None
  | (n, b) :: r => if N.eqb n name then Some b else find_obj r name
  end.

(* objstore.InMemBucket.GetRange on an existing object, off >= 0, length > 0 *)
Definition under_get_range (obj : bytes) (off len : Z) : bytes :=
  if blen obj <? off then []
  else slice obj off (if blen obj <=? off + len then blen obj else off + len).

(* ---- mergeRanges ----------------------------------------------------------- *)
Definition rng := (Z * Z)%type.

Fixpoint merge_aux (last : rng) (rest : list rng) (limit : Z) : list rng :=
  match rest with
  | [] => [last]
  | r :: rest' =>
      if (fst r - snd last) <=? limit then merge_aux (fst last, snd r) rest' limit
      else last :: merge_aux r rest' limit
  end.

Definition merge_ranges (input : list rng) (limit : Z) : list rng :=
  match input with
  | [] => []
  | x :: r => merge_aux x r limit
  end.

(* for limit := S; M > 0 && len(missing) > M; limit *= 2 { missing = mergeRanges(missing, limit) } *)
Fixpoint merge_loop (fuel : nat) (missing : list rng) (limit M : Z) : option (list rng) :=
  if (M >? 0) && (Z.of_nat (length missing) >? M) then
    match fuel with
    | O => None
    | S f => merge_loop f (merge_ranges missing limit) (limit * 2) M
    end
  else Some missing.

(* ---- cachedGetRange --------------------------------------------------------- *)
(* for off := startRange; off < endRange; off += S *)
Fixpoint offsets_from (n : nat) (start S : Z) : list Z :=
  match n with
  | O => []
  | Datatypes.S n' => start :: offsets_from n' (start + S) S
  end.
Definition sub_offsets (startR endR S : Z) : list Z :=
  offsets_from (Z.to_nat (Z.quot (endR - startR + S - 1) S)) startR S.

(* subranges held in memory during one GetRange: offset -> bytes *)
Definition hmap := list (Z * bytes).
Fixpoint hget (h : hmap) (off : Z) : option bytes :=
  match h with
  | [] => None
  | (o, b) :: r => if o =? off then Some b else hget r off
  end.

Inductive result :=
| RBytes (b : bytes)
| RErr
| RBool (b : bool)
| RSize (z : Z)
| RList (l : list N)
| RPanic
| RUnmodelled.

(* subrangesReader.Read driven to EOF (io.ReadAll); the size of the caller's buffer
   only splits the copies further and is not modelled *)
Fixpoint read_loop (fuel : nat) (S : Z) (h : hmap) (readOffset remaining : Z) (acc : bytes) : result :=
  if remaining <=? 0 then RBytes acc
  else match fuel with
       | O => RUnmodelled
       | Datatypes.S f =>
           let cur := Z.quot readOffset S * S in
           match hget h cur with
           | None => RErr
           | Some b =>
               let ofs := readOffset - cur in
               let toCopy := blen b - ofs in
               if toCopy <=? 0 then RErr
               else
                 let toCopy := if remaining <? toCopy then remaining else toCopy in
                 read_loop f S h (readOffset + toCopy) (remaining - toCopy) (acc ++ slice b ofs (ofs + toCopy))
           end
       end.

(* one goroutine of fetchMissingSubranges: fetch [m_start, m_end) and cut it into subranges.
   Returns None when io.ReadFull fails or a slice expression would be out of range. *)
Fixpoint cut_subranges (n : nat) (off : Z) (m_start S lastOff lastLen : Z) (buf : bytes)
         (known : list Z) (h : hmap) (stored : list (Z * bytes)) : option (hmap * list (Z * bytes)) :=
  match n with
  | O => Some (h, stored)
  | Datatypes.S n' =>
      if negb (existsb (Z.eqb off) known) then None       (* caching key for offset not found *)
      else
        let lo := off - m_start in
        let hi := if off =? lastOff then lo + lastLen else lo + S in
        if (hi >? blen buf) || (hi <? lo) then None        (* slice bounds out of range: panic *)
        else
          let sub := slice buf lo hi in
          match hget h off with
          | Some _ => cut_subranges n' (off + S) m_start S lastOff lastLen buf known h stored
          | None => cut_subranges n' (off + S) m_start S lastOff lastLen buf known
                                  ((off, sub) :: h) (stored ++ [(off, sub)])
          end
  end.

Definition fetch_one (obj : bytes) (S lastOff lastLen : Z) (known : list Z) (m : rng)
           (h : hmap) (stored : list (Z * bytes)) : option (hmap * list (Z * bytes)) :=
  let '(m_start, m_end) := m in
  let data := under_get_range obj m_start (m_end - m_start) in
  let bufSize := if buf_full_cond lastOff m_end then buf_size_full m_start m_end
                 else buf_size_last m_start m_end S lastLen in
  if (bufSize <? 0) || (blen data <? bufSize) then None     (* makeslice panic / io.ReadFull: unexpected EOF *)
  else
    let buf := slice data 0 bufSize in
    cut_subranges (Z.to_nat (Z.quot (m_end - m_start + S - 1) S)) m_start m_start S lastOff lastLen buf known h stored.

Fixpoint fetch_all (obj : bytes) (S lastOff lastLen : Z) (known : list Z) (ms : list rng)
         (h : hmap) (stored : list (Z * bytes)) : option (hmap * list (Z * bytes)) :=
  match ms with
  | [] => Some (h, stored)
  | m :: r =>
      match fetch_one obj S lastOff lastLen known m h stored with
      | None => None
      | Some (h', st') => fetch_all obj S lastOff lastLen known r h' st'
      end
  end.

(* ---- the same with a faulty bucket: the BODY of every underlying GetRange issued by this
   operation ends after [cut] bytes (reader returns fewer bytes than requested, then EOF).
   io.ReadFull then fails (io.ErrUnexpectedEOF, or io.EOF when nothing was read) unless the
   buffer was filled; a failed fetch makes fetchMissingSubranges return the error. *)
Definition cut_body (cut : Z) (data : bytes) : bytes := slice data 0 (Z.min cut (blen data)).

Definition fetch_one_f (cut : Z) (obj : bytes) (S lastOff lastLen : Z) (known : list Z) (m : rng)
           (h : hmap) (stored : list (Z * bytes)) : option (hmap * list (Z * bytes)) :=
  let '(m_start, m_end) := m in
  let data := cut_body cut (under_get_range obj m_start (m_end - m_start)) in
  let bufSize := if buf_full_cond lastOff m_end then buf_size_full m_start m_end
                 else buf_size_last m_start m_end S lastLen in
  if (bufSize <? 0) || (blen data <? bufSize) then None     (* io.ReadFull: the error is returned, nothing is cut or stored *)
  else
    let buf := slice data 0 bufSize in
    cut_subranges (Z.to_nat (Z.quot (m_end - m_start + S - 1) S)) m_start m_start S lastOff lastLen buf known h stored.

Fixpoint fetch_all_f (cut : Z) (obj : bytes) (S lastOff lastLen : Z) (known : list Z) (ms : list rng)
         (h : hmap) (stored : list (Z * bytes)) : option (hmap * list (Z * bytes)) :=
  match ms with
  | [] => Some (h, stored)
  | m :: r =>
      match fetch_one_f cut obj S lastOff lastLen known m h stored with
      | None => None
      | Some (h', st') => fetch_all_f cut obj S lastOff lastLen known r h' st'
      end
  end.

Record cfg := { c_S : Z; c_M : Z; c_maxsize : Z }.

(* what one operation produced: result, GetRange calls that reached the underlying
   bucket (start, length), keys stored into the cache *)
Definition outcome := (result * list (Z * Z) * list key)%type.

Definition cached_attributes (w : world) (c : cache) (hits : list key) (name : N)
  : option Z * cache * list key :=
  match fetch c hits (KAttr name) with
  | Some (VSize z) => (Some z, c, [])
  | _ =>
      match find_obj w name with
      | Some o => (Some (blen o), store c (KAttr name) (VSize (blen o)), [KAttr name])
      | None => (None, c, [])
      end
  end.

Definition get_range (g : cfg) (w : world) (c : cache) (hits : list key) (name : N) (offset length : Z)
  : outcome * cache :=
  let S := c_S g in
  if (offset <? 0) || (length <=? 0) then ((RUnmodelled, [], []), c)
  else
  let '(osz, c1, st1) := cached_attributes w c hits name in
  match osz, find_obj w name with
  | None, _ => ((RErr, [], st1), c1)
  | Some _, None => ((RUnmodelled, [], st1), c1)     (* attributes cached for an object that does not exist *)
  | Some size, Some obj =>
    if past_end_cond offset size then
      ((RBytes (under_get_range obj offset length), [(offset, length)], st1), c1)
    else
    let length := if clamp_cond offset length size then clamped_length offset size else length in
    let startR := start_range offset S in
    let endR := if bump_cond offset length S then end_range0 offset length S + S else end_range0 offset length S in
    let lastOff := if last_clamp_cond endR size then last_off_clamped size S else last_off_default endR S in
    let lastLen := if last_clamp_cond endR size then last_len_clamped size lastOff else last_len_default S in
    let offs := sub_offsets startR endR S in
    let h0 : hmap :=
      flat_map (fun off => match fetch c1 hits (KSub name off (subrange_end off S size)) with
                           | Some (VBytes (x :: b)) => [(off, x :: b)]
                           | _ => []
                           end) offs in
    let fetched :=
      if Z.of_nat (List.length h0) <? Z.of_nat (List.length offs) then
        let missing := flat_map (fun off => match hget h0 off with None => [(off, off + S)] | Some _ => [] end) offs in
        match merge_loop (Datatypes.S (List.length offs)) (merge_ranges missing 0) S (c_M g) with
        | None => None
        | Some merged =>
            match fetch_all obj S lastOff lastLen offs merged h0 [] with
            | None => None
            | Some (h, st) => Some (h, st, map (fun m : rng => (fst m, snd m - fst m)) merged)
            end
        end
      else Some (h0, [], []) in
    match fetched with
    | None => ((RErr, [], st1), c1)
    | Some (h, st, calls) =>
        let c2 := fold_left (fun c (p : Z * bytes) => store c (KSub name (fst p) (subrange_end (fst p) S size)) (VBytes (snd p))) st c1 in
        let keys := map (fun p : Z * bytes => KSub name (fst p) (subrange_end (fst p) S size)) st in
        ((read_loop (Datatypes.S (List.length offs)) S h offset length [], calls, st1 ++ keys), c2)
    end
  end.

(* cachedGetRange over the faulty bucket: identical text, fetches go through [fetch_all_f] *)
Definition get_range_f (cut : Z) (g : cfg) (w : world) (c : cache) (hits : list key) (name : N) (offset length : Z)
  : outcome * cache :=
  let S := c_S g in
  if (offset <? 0) || (length <=? 0) then ((RUnmodelled, [], []), c)
  else
  let '(osz, c1, st1) := cached_attributes w c hits name in
  match osz, find_obj w name with
  | None, _ => ((RErr, [], st1), c1)
  | Some _, None => ((RUnmodelled, [], st1), c1)     (* attributes cached for an object that does not exist *)
  | Some size, Some obj =>
    if past_end_cond offset size then
      ((RBytes (under_get_range obj offset length), [(offset, length)], st1), c1)
    else
    let length := if clamp_cond offset length size then clamped_length offset size else length in
    let startR := start_range offset S in
    let endR := if bump_cond offset length S then end_range0 offset length S + S else end_range0 offset length S in
    let lastOff := if last_clamp_cond endR size then last_off_clamped size S else last_off_default endR S in
    let lastLen := if last_clamp_cond endR size then last_len_clamped size lastOff else last_len_default S in
    let offs := sub_offsets startR endR S in
    let h0 : hmap :=
      flat_map (fun off => match fetch c1 hits (KSub name off (subrange_end off S size)) with
                           | Some (VBytes (x :: b)) => [(off, x :: b)]
                           | _ => []
                           end) offs in
    let fetched :=
      if Z.of_nat (List.length h0) <? Z.of_nat (List.length offs) then
        let missing := flat_map (fun off => match hget h0 off with None => [(off, off + S)] | Some _ => [] end) offs in
        match merge_loop (Datatypes.S (List.length offs)) (merge_ranges missing 0) S (c_M g) with
        | None => None
        | Some merged =>
            match fetch_all_f cut obj S lastOff lastLen offs merged h0 [] with
            | None => None
            | Some (h, st) => Some (h, st, map (fun m : rng => (fst m, snd m - fst m)) merged)
            end
        end
      else Some (h0, [], []) in
    match fetched with
    | None => ((RErr, [], st1), c1)
    | Some (h, st, calls) =>
        let c2 := fold_left (fun c (p : Z * bytes) => store c (KSub name (fst p) (subrange_end (fst p) S size)) (VBytes (snd p))) st c1 in
        let keys := map (fun p : Z * bytes => KSub name (fst p) (subrange_end (fst p) S size)) st in
        ((read_loop (Datatypes.S (List.length offs)) S h offset length [], calls, st1 ++ keys), c2)
    end
  end.

(* getReader.Read driven to EOF by a consumer that reads [chunk] bytes at a time: the
   underlying reader returns min(chunk, remaining) bytes per call and (0, EOF) at the end.
   [buf] is getReader.buf: Some b while the object still fits (b = bytes buffered so far),
   None once a read made it exceed maxSize (buf = nil). Returns what is stored under the
   content key when EOF is seen: None = nothing is stored. *)
Fixpoint get_reader (fuel : nat) (rest : bytes) (chunk maxsize : Z) (buf : option bytes) : option bytes :=
  match fuel with
  | O => None
  | S f =>
      if blen rest <=? 0 then buf
      else
        let n := Z.min chunk (blen rest) in
        let buf' := match buf with
                    | Some b => if blen b + n <=? maxsize then Some (b ++ slice rest 0 n) else None
                    | None => None
                    end in
        get_reader f (slice rest n (blen rest)) chunk maxsize buf'
  end.

(* Get + getReader read to EOF in reads of [chunk] bytes *)
Definition get (g : cfg) (w : world) (c : cache) (hits : list key) (name : N) (chunk : Z) : outcome * cache :=
  match fetch c hits (KContent name) with
  | Some (VBytes (x :: b)) => ((RBytes (x :: b), [], []), c)
  | _ =>
      match fetch c hits (KExists name) with
      | Some (VBool false) => ((RErr, [], []), c)
      | _ =>
          match find_obj w name with
          | None => ((RErr, [], [KExists name]), store c (KExists name) (VBool false))
          | Some o =>
              let c1 := store c (KExists name) (VBool true) in
              match get_reader (S (length o)) o chunk (c_maxsize g) (Some []) with
              | Some stored => ((RBytes o, [], [KExists name; KContent name]), store c1 (KContent name) (VBytes stored))
              | None => ((RBytes o, [], [KExists name]), c1)
              end
          end
      end
  end.

Definition exists_ (w : world) (c : cache) (hits : list key) (name : N) : outcome * cache :=
  match fetch c hits (KExists name) with
  | Some (VBool b) => ((RBool b, [], []), c)
  | _ =>
      let b := match find_obj w name with Some _ => true | None => false end in
      ((RBool b, [], [KExists name]), store c (KExists name) (VBool b))
  end.

Definition attributes (w : world) (c : cache) (hits : list key) (name : N) : outcome * cache :=
  let '(osz, c1, st) := cached_attributes w c hits name in
  match osz with
  | Some z => ((RSize z, [], st), c1)
  | None => ((RErr, [], st), c1)
  end.

(* [truth] = what the underlying bucket lists for this directory (data) *)
Definition iter (c : cache) (hits : list key) (dir : N) (recursive : bool) (truth : list N) : outcome * cache :=
  match fetch c hits (KIter dir recursive) with
  | Some (VList l) => ((RList l, [], []), c)
  | _ => ((RList truth, [], [KIter dir recursive]), store c (KIter dir recursive) (VList truth))
  end.

Inductive op :=
| OGetRange (name : N) (off len : Z)
| OGet (name : N) (chunk : Z)
| OExists (name : N)
| OAttr (name : N)
| OIter (dir : N) (recursive : bool).

Definition step (g : cfg) (w : world) (c : cache) (o : op) (hits : list key) (truth : list N) : outcome * cache :=
  match o with
  | OGetRange n off len =>
      (* a fault during this operation is recorded in the (otherwise unused) listing field:
         [cut] = every underlying body of this operation ends after cut bytes *)
      match truth with
      | [cut] => get_range_f (Z.of_N cut) g w c hits n off len
      | _ => get_range g w c hits n off len
      end
  | OGet n chunk => get g w c hits n chunk
  | OExists n => exists_ w c hits n
  | OAttr n => attributes w c hits n
  | OIter d r => iter c hits d r truth
  end.

(* ---- what the underlying bucket answers (the property's reference) ---------- *)
Definition reference (w : world) (o : op) (truth : list N) : result :=
  match o with
  | OGetRange n off len =>
      if (off <? 0) || (len <=? 0) then RUnmodelled
      else match find_obj w n with Some obj => RBytes (under_get_range obj off len) | None => RErr end
  | OGet n _ => match find_obj w n with Some obj => RBytes obj | None => RErr end
  | OExists n => RBool (match find_obj w n with Some _ => true | None => false end)
  | OAttr n => match find_obj w n with Some obj => RSize (blen obj) | None => RErr end
  | OIter _ _ => RList truth
  end.

(* ---- cases ----------------------------------------------------------------- *)
(* one observed operation: op, keys the cache returned, listing truth (iter only),
   result through the caching bucket, result of the underlying bucket,
   underlying GetRange calls (sorted by start), keys stored (sorted) *)
Definition obs := (op * list key * list N * result * result * list (Z * Z) * list key)%type.

Inductive case :=
| CHist (subrange max_sub_requests maxsize : Z) (objs : world) (ops : list obs).

Definition bytes_eqb (a b : bytes) : bool := list_eqb N.eqb a b.
Definition result_eqb (a b : result) : bool :=
  match a, b with
  | RBytes x, RBytes y => bytes_eqb x y
  | RErr, RErr => true
  | RBool x, RBool y => Bool.eqb x y
  | RSize x, RSize y => x =? y
  | RList x, RList y => list_eqb N.eqb x y
  | RPanic, RPanic => true
  | _, _ => false
  end.

Definition zz_eqb (p q : Z * Z) : bool := (fst p =? fst q) && (snd p =? snd q).
Definition keyset_eqb (a b : list key) : bool :=
  forallb (fun k => mem_key k b) a && forallb (fun k => mem_key k a) b.

Definition is_faulty (o : op) (truth : list N) : bool :=
  match o, truth with OGetRange _ _ _, [_] => true | _, _ => false end.

Fixpoint run_corr (g : cfg) (w : world) (c : cache) (l : list obs) : bool :=
  match l with
  | [] => true
  | (o, hits, truth, impl, _, calls, stores) :: r =>
      let '((res, mcalls, mstores), c') := step g w c o hits truth in
      result_eqb res impl
      && (is_faulty o truth && result_eqb res RErr || list_eqb zz_eqb mcalls calls)
      && keyset_eqb mstores stores
      && run_corr g w c' r
  end.

Definition corr_ok (c : case) : bool :=
  match c with
  | CHist sr msr maxsize objs ops =>
      get_range_order_ok && read_full_err_test_ok && run_corr {| c_S := sr; c_M := msr; c_maxsize := maxsize |} objs [] ops
  end.

(* the property on the implementation's own observables: every answer through the
   caching bucket equals the underlying bucket's answer; the underlying bucket's answer
   itself is cross-checked against the model's reference so that the world given to
   the model is the one the implementation ran on *)
Definition pred_ok (c : case) : bool :=
  match c with
  | CHist _ _ _ objs ops =>
      forallb (fun x : obs =>
                 let '(o, _, truth, impl, under, _, _) := x in
                 (result_eqb impl under || (is_faulty o truth && result_eqb impl RErr))
                 && result_eqb (reference objs o truth) under) ops
  end.
