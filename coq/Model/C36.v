(* C36 — Raw downsampling aggregates are exact.
   The model of DownsampleRaw / downsampleRawLoop / downsampleFloatBatch /
   downsampleBatch / floatAggregator is Lib/Downsample_Core.v, instantiated
   here with [currentWindow] as regenerated from the Go source (Gen/C36.v).
   This file adds the model of the querier's chunkSeriesIterator (read-back)
   and the case type / boolean checks.  Executable definitions only. *)
From Coq Require Import ZArith String List Bool Lia Sorted.
Import ListNotations.
From Verif Require Import Lib.Corr Lib.Downsample_Core Gen.C36.
Open Scope Z_scope.

Definition cw : Z -> Z -> Z := currentWindow.

Definition downsample_raw_m (res : Z) (num_chunks : nat) (data : list rsample) : option (list achunk) :=
  downsample_raw cw res num_chunks data.

(* ---- pkg/query/iter.go: chunkSeriesIterator over the per-chunk iterators of
   one aggregate.  On entering the next chunk it seeks to lastT+1, i.e. drops
   the leading samples that do not advance time; a chunk that is dropped
   entirely leaves the bound unchanged. ---- *)
Fixpoint drop_le (bound : Z) (l : list sample) : list sample :=
  match l with
  | [] => []
  | s :: r => if fst s <=? bound then drop_le bound r else l
  end.

Fixpoint readback_from (last_t : option Z) (chunks : list (list sample)) : list sample :=
  match chunks with
  | [] => []
  | c :: r =>
      let c' := match last_t with Some b => drop_le b c | None => c end in
      match c' with
      | [] => readback_from last_t r
      | _ :: _ => c' ++ readback_from (Some (fst (last c' (0, 0)))) r
      end
  end.

Definition readback (chunks : list (list sample)) : list sample := readback_from None chunks.

Definition olist (o : option (list sample)) : list sample :=
  match o with Some l => l | None => [] end.

(* ---- cases ---- *)

Inductive case :=
(* DownsampleRaw(data, res) = out, with targetChunkCount(...) = num_chunks;
   rb = what chunkSeries.Iterator yields for COUNT, SUM, MIN, MAX *)
| CRaw (res : Z) (num_chunks : nat) (data : list rsample) (out : list achunk)
       (rb : list (list sample))
(* read-back of ONE aggregate with a fault: chunks = what each sub-chunk's own iterator
   yields before it stops and whether it stopped with an error (one sub-chunk's bytes were
   truncated); orig = the aggregate's values; rb, rb_err = what chunkSeries.Iterator yields
   until ValNone, and whether Err() is non-nil afterwards *)
| CFault (chunks : list (list sample * bool)) (orig : list sample)
         (rb : list sample) (rb_err : bool).

Definition sample_eqb (a b : sample) : bool := (fst a =? fst b) && (snd a =? snd b).
Definition samples_eqb : list sample -> list sample -> bool := list_eqb sample_eqb.

Definition achunk_eqb (a b : achunk) : bool :=
  (k_mint a =? k_mint b) && (k_maxt a =? k_maxt b)
  && option_eqb samples_eqb (k_count a) (k_count b)
  && option_eqb samples_eqb (k_sum a) (k_sum b)
  && option_eqb samples_eqb (k_min a) (k_min b)
  && option_eqb samples_eqb (k_max a) (k_max b)
  && option_eqb samples_eqb (k_counter a) (k_counter b).

(* which aggregate the querier reads for a PromQL function: aggrsFromFunc, as a table
   evaluated on the linked code (Gen.C36.aggrs_from_func; storepb.Aggr numbers) *)
Definition lookup_aggr (f : string) : list Z :=
  match find (fun p : string * list Z => String.eqb (fst p) f) aggrs_from_func with
  | Some p => snd p
  | None => []
  end.

Definition aggr_field (a : Z) (c : achunk) : option (list sample) :=
  if a =? 1 then k_count c else if a =? 2 then k_sum c else if a =? 3 then k_min c
  else if a =? 4 then k_max c else if a =? 5 then k_counter c else None.

(* chunkSeries.Iterator for a function that selects exactly one aggregate *)
Definition readback_func (f : string) (out : list achunk) : list sample :=
  match lookup_aggr f with
  | [a] => readback (map (fun c => olist (aggr_field a c)) out)
  | _ => []
  end.

Definition read_funcs : list string :=
  ["count_over_time"; "sum_over_time"; "min_over_time"; "max_over_time"]%string.

Definition readbacks (out : list achunk) : list (list sample) :=
  map (fun f => readback_func f out) read_funcs.

(* ---- chunkSeriesIterator with chunk iterators that may fail ----
   A chunk iterator is (samples it yields before ValNone, Err() <> nil afterwards).
   Next: lastT := cur.AtT(); if cur yields a sample return it; if cur.Err() <> nil stop;
   if cur is the last chunk stop; otherwise enter the next chunk and Seek(lastT + 1), i.e.
   call Next until a sample at or after the bound shows up.  [bound] is the pending Seek
   target (None = plain Next), [curT] = cur.AtT() (0 for a fresh XOR iterator). *)
Fixpoint read_chunk (rem : list sample) (bound : option Z) (curT : Z)
  : list sample * option Z * Z :=
  match rem with
  | [] => ([], bound, curT)
  | s :: r =>
      let skip := match bound with Some x => fst s <? x | None => false end in
      if skip then read_chunk r bound (fst s)
      else let '(out, b, t) := read_chunk r None (fst s) in (s :: out, b, t)
  end.

(* samples handed to the consumer until ValNone, and whether Err() is non-nil then *)
Fixpoint read_f (chunks : list (list sample * bool)) (bound : option Z) : list sample * bool :=
  match chunks with
  | [] => ([], false)
  | (rem, err) :: rest =>
      let '(out, b, t) := read_chunk rem bound 0 in
      if err then (out, true)                       (* it.Err() != nil: stop, error reported *)
      else match rest with
           | [] => (out, false)                     (* last chunk exhausted *)
           | _ :: _ =>
               let b' := match b with Some x => Z.max x (t + 1) | None => t + 1 end in
               let '(out', e) := read_f rest (Some b') in (out ++ out', e)
           end
  end.

Definition read_faulty (chunks : list (list sample * bool)) : list sample * bool :=
  match chunks with
  | [] => ([], true)                                (* newChunkSeriesIterator: "got empty chunks" *)
  | _ => read_f chunks None
  end.

Definition corr_ok (c : case) : bool :=
  match c with
  | CRaw res nc data out rb =>
      option_eqb (list_eqb achunk_eqb) (downsample_raw_m res nc data) (Some out)
      && list_eqb samples_eqb (readbacks out) rb
  | CFault chunks orig rb rb_err =>
      let '(out, e) := read_faulty chunks in samples_eqb out rb && Bool.eqb e rb_err
  end.

(* ---- the property, evaluated on the implementation's own output ---- *)

Fixpoint strictly_inc (l : list Z) : bool :=
  match l with
  | a :: ((b :: _) as r) => (a <? b) && strictly_inc r
  | _ => true
  end.

Definition valid_input (res : Z) (data : list rsample) : bool :=
  (0 <? res) && forallb (fun s => (0 <=? fst s) && (fst s <=? max_int64)) data && strictly_inc (map fst data).

(* one output row: timestamp and the four aggregate values *)
Definition row : Type := (Z * (Z * Z * Z * Z))%type.

Fixpoint zip4 (c s mn mx : list sample) : option (list row) :=
  match c, s, mn, mx with
  | [], [], [], [] => Some []
  | (t, cv) :: c', (t2, sv) :: s', (t3, mnv) :: mn', (t4, mxv) :: mx' =>
      if (t =? t2) && (t =? t3) && (t =? t4) then
        match zip4 c' s' mn' mx' with
        | Some r => Some ((t, (cv, sv, mnv, mxv)) :: r)
        | None => None
        end
      else None
  | _, _, _, _ => None
  end.

Definition chunk_rows (k : achunk) : option (list row) :=
  zip4 (olist (k_count k)) (olist (k_sum k)) (olist (k_min k)) (olist (k_max k)).

Fixpoint all_rows (out : list achunk) : option (list row) :=
  match out with
  | [] => Some []
  | k :: r => match chunk_rows k, all_rows r with
              | Some a, Some b => Some (a ++ b)
              | _, _ => None
              end
  end.

(* the row a snapshot handed to aggrChunkBuilder.add becomes *)
Definition row_of (o : Z * fagg) : row :=
  (fst o, (a_count (snd o), a_sum (snd o), oz (a_min (snd o)), oz (a_max (snd o)))).

(* clause 1: a row carries exactly the aggregates of the raw non-NaN samples of its window *)
(* the samples with their window computed once: (currentWindow(t), v) *)
Definition keyed (res : Z) (d : list sample) : list (Z * Z) :=
  map (fun s => (cw (fst s) res, snd s)) d.

Definition row_ok (res : Z) (kd : list (Z * Z)) (r : row) : bool :=
  let '(w, (cv, sv, mnv, mxv)) := r in
  let cww := cw w res in
  let vs := map snd (filter (fun p => fst p =? cww) kd) in
  negb (Nat.eqb (length vs) 0)
  && (cv =? Z.of_nat (length vs)) && (sv =? sumZ vs)
  && option_eqb Z.eqb (Some mnv) (min_list vs) && option_eqb Z.eqb (Some mxv) (max_list vs).

(* clause 2: totals *)
Definition row_count (r : row) : Z := let '(_, (cv, _, _, _)) := r in cv.
Definition row_sum (r : row) : Z := let '(_, (_, sv, _, _)) := r in sv.
Definition row_min (r : row) : Z := let '(_, (_, _, mnv, _)) := r in mnv.
Definition row_max (r : row) : Z := let '(_, (_, _, _, mxv)) := r in mxv.

Definition totals_ok (d : list sample) (rows : list row) : bool :=
  let vs := map snd d in
  (sumZ (map row_count rows) =? Z.of_nat (length vs))
  && (sumZ (map row_sum rows) =? sumZ vs)
  && option_eqb Z.eqb (min_list (map row_min rows)) (min_list vs)
  && option_eqb Z.eqb (max_list (map row_max rows)) (max_list vs).

(* clause 3: chunks time-ordered and non-overlapping, rows inside [mint,maxt] and increasing *)
Fixpoint chunks_ordered (prev_maxt : option Z) (out : list achunk) : bool :=
  match out with
  | [] => true
  | k :: r =>
      (k_mint k <=? k_maxt k)
      && match prev_maxt with Some p => p <? k_mint k | None => true end
      && match chunk_rows k with
         | Some rows => strictly_inc (map fst rows)
                        && forallb (fun x => (k_mint k <=? fst x) && (fst x <=? k_maxt k)) rows
                        && negb (Nat.eqb (length rows) 0)
         | None => false
         end
      && chunks_ordered (Some (k_maxt k)) r
  end.

(* clause 4: reading an aggregate back through the querier yields these rows *)
Definition readback_ok (out : list achunk) (rb : list (list sample)) : bool :=
  list_eqb samples_eqb rb
    [ concat (map (fun c => olist (k_count c)) out); concat (map (fun c => olist (k_sum c)) out);
      concat (map (fun c => olist (k_min c)) out); concat (map (fun c => olist (k_max c)) out) ].

(* sub-chunk sample lists are non-empty, strictly increasing in time, and each starts after the
   previous one ended *)
Fixpoint chain_ok (prev : option Z) (ls : list (list sample)) : bool :=
  match ls with
  | [] => true
  | l :: r =>
      negb (Nat.eqb (length l) 0) && strictly_inc (map fst l)
      && match prev with Some p => forallb (fun s => p <? fst s) l | None => true end
      && chain_ok (Some (fst (last l (0, 0)))) r
  end.

Definition pred_ok (c : case) : bool :=
  match c with
  | CRaw res nc data out rb =>
      if valid_input res data then
        let d := keep_nonnan data in
        match all_rows out with
        | Some rows =>
            (let kd := keyed res d in forallb (row_ok res kd) rows)
            && strictly_inc (map (fun r => cw (fst r) res) rows)
            && totals_ok d rows
            && chunks_ordered None out
            && readback_ok out rb
        | None => false
        end
      else true
  (* a fault on the read path, stated on what the sub-chunk iterators themselves report (the
     XOR decoder is third-party: on truncated bytes it may also return wrong values without an
     error, which no series iterator can notice): if any sub-chunk iterator stopped with an
     error the series read reports an error; if none did and what they yield is time-ordered,
     the read is exactly what they yield, without error — never fewer samples with a nil error *)
  | CFault chunks orig rb rb_err =>
      if existsb snd chunks then rb_err
      else if chain_ok None (map fst chunks) && negb (Nat.eqb (length chunks) 0)
           then negb rb_err && samples_eqb rb (concat (map fst chunks))
           else true
  end.

(* ---- specification vocabulary for the theorems (Prop level) ---- *)

(* raw input the theorems cover: positive resolution, timestamps >= 0 and
   non-decreasing (TSDB series are strictly increasing; equal timestamps are
   tolerated), timestamps are int64 *)
Definition valid_raw (res : Z) (data : list rsample) : Prop :=
  0 < res /\ StronglySorted Z.le (map fst data) /\ Forall (fun s => 0 <= fst s <= max_int64) data.

(* the non-NaN raw values in the downsampling window that contains timestamp w *)
Definition window_values (res : Z) (d : list sample) (w : Z) : list Z :=
  map snd (filter (fun s => cw (fst s) res =? cw w res) d).

Definition row_spec (res : Z) (d : list sample) (r : row) : Prop :=
  let '(w, (cv, sv, mnv, mxv)) := r in
  let vs := window_values res d w in
  vs <> [] /\ cv = Z.of_nat (length vs) /\ sv = sumZ vs /\
  min_list vs = Some mnv /\ max_list vs = Some mxv.

Definition totals_spec (d : list sample) (rows : list row) : Prop :=
  sumZ (map row_count rows) = Z.of_nat (length d) /\
  sumZ (map row_sum rows) = sumZ (map snd d) /\
  min_list (map row_min rows) = min_list (map snd d) /\
  max_list (map row_max rows) = max_list (map snd d).

(* chunk k covers [mint_k, maxt_k]; chunks are in time order and disjoint, the
   timestamps inside a chunk are strictly increasing, start at mint_k and end at maxt_k *)
Fixpoint chunks_spec (prev_maxt : option Z) (out : list achunk) : Prop :=
  match out with
  | [] => True
  | k :: r =>
      match prev_maxt with Some p => p < k_mint k | None => True end /\
      (exists rows, chunk_rows k = Some rows /\ rows <> [] /\
         StronglySorted Z.lt (map fst rows) /\
         k_mint k = hd 0 (map fst rows) /\ k_maxt k = last (map fst rows) 0) /\
      chunks_spec (Some (k_maxt k)) r
  end.
