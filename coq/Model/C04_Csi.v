(* C04 — chunkSeriesIterator (pkg/query/iter.go) as the state machine the Go
   code implements: XOR chunk iterators (Next only, AtT = MinInt64 before the
   first sample), the index into the chunk list, lastVal, and the mutually
   recursive Next / Seek. Proofs/C04_Csi.v shows it is a list iterator over
   Model.C04.chunk_iter (the stream-level model used by the rest of C04). *)
From Coq Require Import ZArith List Bool.
Import ListNotations.
From Verif Require Import Lib.Corr Gen.C04 Model.C04.
Open Scope Z_scope.

(* chunkenc XOR iterator: current (t, v) and the samples not yet read *)
Record xit := mkX { x_t : Z; x_v : Z; x_rem : list sample }.
Definition fresh (c : list sample) : xit := mkX MinT 0 c.
Definition xnext (x : xit) : xit * bool :=
  match x_rem x with
  | y :: r => (mkX (fst y) (snd y) r, true)
  | [] => (x, false)
  end.

(* it.chunks[it.i] = cur (= it.cur), it.chunks[it.i+1:] = rest *)
Record csi := mkCsi { c_cur : xit; c_rest : list (list sample); c_lastVal : bool }.

Definition csi_new (cs : list (list sample)) : option csi :=
  match cs with
  | [] => None                                  (* errSeriesIterator "got empty chunks" *)
  | c :: r => Some (mkCsi (fresh c) r false)
  end.

Fixpoint cnext (f : nat) (s : csi) : option (csi * bool) :=
  match f with
  | O => None
  | S f' =>
      let lastT := x_t (c_cur s) in                              (* lastT := it.AtT() *)
      match xnext (c_cur s) with
      | (x', true) => Some (mkCsi x' (c_rest s) true, true)      (* it.lastVal = valueType *)
      | (_, false) =>
          match c_rest s with
          | [] => Some (s, false)                                (* it.i >= len(it.chunks)-1 *)
          | c :: r => cseek f' (lastT + 1) (mkCsi (fresh c) r (c_lastVal s))   (* it.i++; it.Seek(lastT + 1) *)
          end
      end
  end
with cseek (f : nat) (t : Z) (s : csi) : option (csi * bool) :=
  match f with
  | O => None
  | S f' =>
      if t <=? x_t (c_cur s) then Some (s, c_lastVal s)          (* ct >= t: return it.lastVal *)
      else
        match cnext f' s with
        | None => None
        | Some (s', v) =>
            let s'' := mkCsi (c_cur s') (c_rest s') v in         (* it.lastVal = it.Next() *)
            if v then cseek f' t s'' else Some (s'', false)
        end
  end.
